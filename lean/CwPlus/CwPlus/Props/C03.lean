import CwPlus.Lemmas.Cw3Fixed
import CwPlus.Lemmas.Cw3FixedAt
import CwPlus.Lemmas.Cw3FixedNodup
import CwPlus.Lemmas.Cw3CoreNodup
/-!
# C03 (cw3-fixed part) — a proposal's status equals the outcome its ballots imply

The outcome is *defined from the ballots*: `Outcome p ballots blk` is the decision of the cw3
library (`Cw3.isPassed` / `Cw3.isRejected` / expiry, model `Model/Cw3.lean`) applied to the tally
recomputed from the recorded ballots (`tallyOf`), the proposal's own threshold, total weight and
expiry, at block `blk`.  What the library decision means arithmetically (exact ceilings, never
stricter than the documented rule, early decisions sound and complete) is property C04
(`Props/C04.lean`); C03 is about the contract using that decision, on the right inputs, everywhere:
in every query, and to admit Execute and Close.  All theorems hold for every accepted
instantiation and every history (`Reachable fuel w`).

The connection to the EXACT documented rule (`status_eq_exact_outcome`, `status_exact_outcome_within_one`)
and the justification of a stored Rejected (`rejected_justified`, `rejected_when_stored`) combine the
above with the theorems of `Props/C04.lean` through `Lemmas/Cw3Status.lean`.

The cw3-flex part of C03 is `Props/C03Flex.lean`.
-/
namespace CwPlus.Props.C03
open CwPlus CwPlus.Cw3 CwPlus.Cw3Core CwPlus.Cw3Fixed CwPlus.Props

/-- The tally of a proposal as implied by a ballot map: stored `Open`, the proposal's threshold,
total weight and expiry, and per option the sum of the ballots' weights. -/
def ballotTally (p : Proposal) (bs : AMap Addr Ballot) : Tally :=
  ⟨.open, p.threshold, p.totalWeight, tallyOf bs, p.expires⟩

/-- The outcome the cw3 rules define for the recorded ballots at block `blk`: Passed if the
library's `is_passed` holds (which requires Yes weight > 0), otherwise Rejected if `is_rejected`
holds or the proposal has expired, otherwise Open. -/
def Outcome (p : Proposal) (bs : AMap Addr Ballot) (blk : Block) : Res Status :=
  Cw3.currentStatus (ballotTally p bs) blk

/-- `Outcome` spelled out in terms of the library's two decisions. -/
theorem outcome_cases {p : Proposal} {bs : AMap Addr Ballot} {blk : Block} {st : Status}
    (h : Outcome p bs blk = .ok st) :
    (Cw3.isPassed (ballotTally p bs) blk = .ok true ∧ st = .passed) ∨
    (Cw3.isPassed (ballotTally p bs) blk = .ok false ∧ ∃ rej, Cw3.isRejected (ballotTally p bs) blk = .ok rej ∧
      ((rej = true ∨ p.expires.isExpired blk = true) ∧ st = .rejected ∨
       (rej = false ∧ p.expires.isExpired blk = false) ∧ st = .open)) :=
  cs_of_open (t := ballotTally p bs) rfl h

/-- The status every query reports for a proposal is `current_status` of the stored record. -/
theorem query_status (s : State) (blk : Block) (id : Nat) (p : Proposal) (hp : s.core.proposals.get? id = some p) :
    (Cw3Fixed.queryProposal s blk id).map (·.status) = p.currentStatus blk := by
  simp only [Cw3Fixed.queryProposal, Cw3Core.queryProposal, load, hp, viewOf]
  cases h : p.currentStatus blk <;> simp [h, bind, Except.bind, Functor.map, Except.map, pure, Except.pure]

/-- In a reachable state, a proposal stored Open *is* its ballot tally. -/
theorem tally_eq_ballotTally {fuel : Nat} {w : World} (hr : Reachable fuel w) {id : Nat} {p : Proposal}
    (hp : w.ms.core.proposals.get? id = some p) (ho : p.status = .open) :
    p.tally = ballotTally p (ballotsOf w.ms.core id) := by
  have := (reachable_inv hr).wf.tally id p hp
  simp [Proposal.tally, ballotTally, ho, this]

/-- C03 "the status returned by queries equals the outcome the threshold rules define for the
ballots recorded for it, the total weight reported for it and whether it has expired": for every
reachable state, every proposal and *every* query block,
* stored Open  ⇒ the reported status is `Outcome` of the recorded ballots at that block;
* stored Passed / Rejected / Executed ⇒ the reported status is the stored one (sticky). -/
theorem status_eq_outcome {fuel : Nat} {w : World} (hr : Reachable fuel w) {id : Nat} {p : Proposal}
    (hp : w.ms.core.proposals.get? id = some p) (blk : Block) :
    (Cw3Fixed.queryProposal w.ms blk id).map (·.status) =
      if p.status = .open then Outcome p (ballotsOf w.ms.core id) blk else .ok p.status := by
  rw [query_status _ _ _ _ hp]
  by_cases ho : p.status = .open
  · simp only [ho, if_true, Proposal.currentStatus, Outcome]
    rw [tally_eq_ballotTally hr hp ho]
  · simp only [ho, if_false, Proposal.currentStatus]
    exact cs_of_ne_open (t := p.tally) ho

/-- Passed is sticky: a proposal stored Passed is reported Passed at every block, and no later
vote, block change or other operation makes its stored status anything but Passed or Executed. -/
theorem passed_sticky {fuel : Nat} {w : World} (hr : Reachable fuel w) (ops : List Op) {id : Nat} {p : Proposal}
    (hp : w.ms.core.proposals.get? id = some p) (hs : p.status = .passed) :
    (∀ blk, (Cw3Fixed.queryProposal w.ms blk id).map (·.status) = .ok .passed) ∧
    ∃ p', (run fuel w ops).ms.core.proposals.get? id = some p' ∧ (p'.status = .passed ∨ p'.status = .executed) := by
  constructor
  · intro blk; rw [status_eq_outcome hr hp]; simp [hs]
  · have := run_rel (fun s s' => Later s.core s'.core) (fun s => later_refl _) (fun _ _ _ h1 h2 => later_trans h1 h2)
      (fun blk s snd m s' out hi h => execute_later hi h) fuel ops w (reachable_inv hr)
    obtain ⟨p', hp', _, he⟩ := this.props id p hp
    refine ⟨p', hp', ?_⟩
    rw [hs] at he
    cases hs' : p'.status <;> simp_all [edge]

/-- Rejected and Executed are final. -/
theorem rejected_executed_final {fuel : Nat} {w : World} (hr : Reachable fuel w) (ops : List Op) {id : Nat} {p : Proposal}
    (hp : w.ms.core.proposals.get? id = some p) (hs : p.status = .rejected ∨ p.status = .executed) :
    ∃ p', (run fuel w ops).ms.core.proposals.get? id = some p' ∧ p'.status = p.status := by
  have := run_rel (fun s s' => Later s.core s'.core) (fun s => later_refl _) (fun _ _ _ h1 h2 => later_trans h1 h2)
    (fun blk s snd m s' out hi h => execute_later hi h) fuel ops w (reachable_inv hr)
  obtain ⟨p', hp', _, he⟩ := this.props id p hp
  refine ⟨p', hp', ?_⟩
  rcases hs with hs | hs <;> rw [hs] at he <;> cases hs' : p'.status <;> simp_all [edge]

/-! ## the listings report the same status -/

theorem mem_pageDesc {κ ν : Type} (lt : κ → κ → Bool) (xs : List (κ × ν)) (before : Option κ) (limit : Option Nat)
    {x : κ × ν} (h : x ∈ Cw3Core.pageDesc lt xs before limit) : x ∈ xs := by
  unfold Cw3Core.pageDesc at h
  have h1 := List.mem_of_mem_take h
  rw [List.mem_reverse] at h1
  cases before with
  | none => exact h1
  | some c => exact (List.mem_filter.mp h1).1

/-- Every entry of a successful `viewAll` over stored proposals is the view of a stored proposal, with its
`current_status` at the query block. -/
theorem listed_status_core {c : Core} (hn : AMap.NodupKeys c.proposals) {blk : Block} {l : List (Nat × Proposal)}
    (hsub : ∀ x ∈ l, x ∈ c.proposals) {vs : List ProposalView} (h : viewAll blk l = .ok vs) :
    ∀ v ∈ vs, ∃ p, c.proposals.get? v.id = some p ∧ p.currentStatus blk = .ok v.status := by
  obtain ⟨hall, rfl⟩ := viewAll_ok_all h
  intro v hv
  obtain ⟨x, hx, rfl⟩ := List.mem_map.mp hv
  obtain ⟨st, hst⟩ := hall x hx
  refine ⟨x.2, AMap.get?_of_mem_nodup hn (hsub x hx), ?_⟩
  simp only [viewD, hst]

open Paginate in
/-- Both proposal listings, over any core whose proposal map has one entry per id. -/
theorem listings_status_core {c : Core} (hn : AMap.NodupKeys c.proposals) (blk : Block) (cur limit : Option Nat)
    {vs : List ProposalView}
    (h : Cw3Core.listProposals c blk cur limit = .ok vs ∨ Cw3Core.reverseProposals c blk cur limit = .ok vs) :
    ∀ v ∈ vs, ∃ p, c.proposals.get? v.id = some p ∧ p.currentStatus blk = .ok v.status := by
  rcases h with h | h
  · exact listed_status_core hn (fun x hx => mem_sortedEntries.mp ((page_sublist _ _ _ _).subset hx)) h
  · exact listed_status_core hn (fun x hx => mem_sortedEntries.mp (mem_pageDesc _ _ _ _ hx)) h

/-- **C03 for the list queries** (`ListProposals`, `ReverseProposals`): in every reachable state, whenever a listing
answers, every listed entry is a stored proposal under its id and the status listed for it is — exactly as for the point
query, `status_eq_outcome` — the `Outcome` of its recorded ballots at the query block if it is stored Open, and the
stored status otherwise. -/
theorem listed_status_eq_outcome {fuel : Nat} {w : World} (hr : Reachable fuel w) (blk : Block) (cur limit : Option Nat)
    {vs : List ProposalView}
    (h : Cw3Fixed.listProposals w.ms blk cur limit = .ok vs ∨ Cw3Fixed.reverseProposals w.ms blk cur limit = .ok vs) :
    ∀ v ∈ vs, ∃ p, w.ms.core.proposals.get? v.id = some p ∧
      (Except.ok v.status : Res Status) =
        if p.status = .open then Outcome p (ballotsOf w.ms.core v.id) blk else .ok p.status := by
  intro v hv
  obtain ⟨p, hp, hst⟩ := listings_status_core (Cw3Fixed.reachable_nodup hr) blk cur limit h v hv
  refine ⟨p, hp, ?_⟩
  rw [← status_eq_outcome hr hp blk, query_status _ _ _ _ hp, hst]

/-! ## Execute and Close are admitted by the same status -/

/-- C03 "the status … used to admit Execute": Execute succeeds exactly when the proposal is stored
Passed, or is stored Open and the outcome of its recorded ballots at the current block is Passed. -/
theorem execute_admits_iff_outcome {fuel : Nat} {w : World} (hr : Reachable fuel w) (blk : Block) (snd : Addr) (id : Nat) :
    (execute w.ms blk snd (.execute id)).isOk = true ↔
      ∃ p, w.ms.core.proposals.get? id = some p ∧
        (p.status = .passed ∨ (p.status = .open ∧ Outcome p (ballotsOf w.ms.core id) blk = .ok .passed)) := by
  constructor
  · intro h
    cases hx : execute w.ms blk snd (.execute id) with
    | error e => rw [hx] at h; cases h
    | ok r =>
      obtain ⟨s', out⟩ := r
      obtain ⟨_, _, hc⟩ := execute_cases hx
      rcases hc with ⟨_, _, _, _, _, _, hm, _⟩ | ⟨_, _, hm, _⟩ | ⟨id', hm, he⟩ | ⟨_, hm, _⟩ <;> cases hm
      obtain ⟨p, hp, hst, _⟩ := execute_spec he
      refine ⟨p, hp, ?_⟩
      by_cases ho : p.status = .open
      · right; refine ⟨ho, ?_⟩
        simp only [Outcome, ← tally_eq_ballotTally hr hp ho]; exact hst
      · left
        have : p.currentStatus blk = .ok p.status := cs_of_ne_open (t := p.tally) ho
        rw [this] at hst; simpa using hst
  · rintro ⟨p, hp, hs | ⟨ho, hout⟩⟩
    · have : p.currentStatus blk = .ok .passed := by
        have h2 : p.currentStatus blk = .ok p.status := cs_of_ne_open (t := p.tally) (by simp [Proposal.tally, hs])
        rw [hs] at h2; exact h2
      simp [Cw3Fixed.execute, execExecute, Cw3Core.execute, load, hp, this, bind, Except.bind, check, pure, Except.pure, Res.isOk]
    · have : p.currentStatus blk = .ok .passed := by
        simp only [Outcome, ← tally_eq_ballotTally hr hp ho] at hout; exact hout
      simp [Cw3Fixed.execute, execExecute, Cw3Core.execute, load, hp, this, bind, Except.bind, check, pure, Except.pure, Res.isOk]

/-- C03 "… and Close": Close succeeds exactly when the proposal is stored Open, has expired, and
the outcome of its recorded ballots at the current block is not Passed (then it is Rejected). -/
theorem close_admits_iff_outcome {fuel : Nat} {w : World} (hr : Reachable fuel w) (blk : Block) (snd : Addr) (id : Nat) :
    (execute w.ms blk snd (.close id)).isOk = true ↔
      ∃ p, w.ms.core.proposals.get? id = some p ∧ p.status = .open ∧ p.expires.isExpired blk = true ∧
        Outcome p (ballotsOf w.ms.core id) blk = .ok .rejected := by
  have hi := reachable_inv hr
  constructor
  · intro h
    cases hx : execute w.ms blk snd (.close id) with
    | error e => rw [hx] at h; cases h
    | ok r =>
      obtain ⟨s', out⟩ := r
      obtain ⟨_, _, hc⟩ := execute_cases hx
      rcases hc with ⟨_, _, _, _, _, _, hm, _⟩ | ⟨_, _, hm, _⟩ | ⟨_, hm, _⟩ | ⟨id', hm, _, hcl⟩ <;> cases hm
      obtain ⟨p, st, hp, h1, h2, h3, hst, hne, hexp, _⟩ := close_spec hcl
      have h4 := hi.wf.notPending id p hp
      have ho : p.status = .open := by cases hs : p.status <;> simp_all
      refine ⟨p, hp, ho, hexp, ?_⟩
      simp only [Outcome, ← tally_eq_ballotTally hr hp ho]
      have hst' : Cw3.currentStatus p.tally blk = .ok st := hst
      rcases cs_of_open (t := p.tally) (by simp [Proposal.tally, ho]) hst' with ⟨_, rfl⟩ | ⟨_, rej, _, ⟨_, rfl⟩ | ⟨⟨_, hne'⟩, rfl⟩⟩
      · exact absurd rfl hne
      · exact hst'
      · simp [Proposal.tally] at hne'; rw [hexp] at hne'; cases hne'
  · rintro ⟨p, hp, ho, hexp, hout⟩
    have hst : p.currentStatus blk = .ok .rejected := by
      simp only [Outcome, ← tally_eq_ballotTally hr hp ho] at hout; exact hout
    simp [Cw3Fixed.execute, execClose, Cw3Core.close, load, hp, hst, ho, hexp, bind, Except.bind, check, pure, Except.pure, Res.isOk]

/-! ## never executable without Yes weight -/

/-- The library never reports Passed for a tally without Yes weight (the `yes == 0` guard). -/
theorem isPassed_needs_yes {t : Tally} {blk : Block} (h : Cw3.isPassed t blk = .ok true) : 0 < t.votes.yes := by
  unfold Cw3.isPassed at h
  split at h
  · cases h
  · omega

/-- Invariant: every proposal stored Passed or Executed has positive Yes weight in its tally. -/
def YesInv (s : State) : Prop :=
  Inv s ∧ ∀ id p, s.core.proposals.get? id = some p → (p.status = .passed ∨ p.status = .executed) → 0 < p.votes.yes

theorem cs_passed_yes {t : Tally} {blk : Block} {st : Status} (h : Cw3.currentStatus t blk = .ok st)
    (hs : st = .passed ∨ st = .executed) (hold : (t.status = .passed ∨ t.status = .executed) → 0 < t.votes.yes) :
    0 < t.votes.yes := by
  by_cases ho : t.status = .open
  · rcases cs_of_open ho h with ⟨hp, _⟩ | ⟨_, rej, _, ⟨_, rfl⟩ | ⟨_, rfl⟩⟩
    · exact isPassed_needs_yes hp
    · simp at hs
    · simp at hs
  · rw [cs_of_ne_open ho] at h; cases h; exact hold hs

theorem yes_step {s s' : State} {blk : Block} {snd : Addr} {m : ExecMsg} {out : List Msg}
    (hy : YesInv s) (h : execute s blk snd m = .ok (s', out)) : YesInv s' := by
  obtain ⟨hi, hy⟩ := hy
  refine ⟨execute_inv hi h, ?_⟩
  obtain ⟨_, _, hc⟩ := execute_cases h
  rcases hc with ⟨t, d, msgs, latest, w, id0, _, _, _, hp⟩ | ⟨id0, v, _, _, hv⟩ | ⟨id0, _, he⟩ | ⟨id0, _, _, hcl⟩
  · obtain ⟨expires, st, _, hst, _, _, hc'⟩ := propose_spec hp
    intro id p hp' hs
    rw [hc'] at hp'; simp only [AMap.get?_set] at hp'
    by_cases e : id0 = id
    · simp only [e, if_true, Option.some.injEq] at hp'; subst hp'
      exact cs_passed_yes hst hs (by simp [Proposal.tally])
    · simp only [e, if_false] at hp'; exact hy id p hp' hs
  · obtain ⟨p0, w, votes, st, hp0, _, _, _, _, _, hadd, hst, hc'⟩ := vote_spec hv
    intro id p hp' hs
    rw [hc'] at hp'; simp only [AMap.get?_set] at hp'
    by_cases e : id0 = id
    · simp only [e, if_true, Option.some.injEq] at hp'; subst hp'
      refine cs_passed_yes hst hs ?_
      intro hold
      have h0 := hy id0 p0 hp0 (by simpa [Proposal.tally] using hold)
      have := add_eq hadd
      simp only [Proposal.tally, this]; omega
    · simp only [e, if_false] at hp'; exact hy id p hp' hs
  · obtain ⟨p0, hp0, hst, _, _, hc'⟩ := execute_spec he
    intro id p hp' hs
    rw [hc'] at hp'; simp only [AMap.get?_set] at hp'
    by_cases e : id0 = id
    · simp only [e, if_true, Option.some.injEq] at hp'; subst hp'
      exact cs_passed_yes (t := p0.tally) hst (Or.inl rfl) (fun h => hy id0 p0 hp0 h)
    · simp only [e, if_false] at hp'; exact hy id p hp' hs
  · obtain ⟨p0, _, hp0, _, _, _, _, _, _, hc'⟩ := close_spec hcl
    intro id p hp' hs
    rw [hc'] at hp'; simp only [AMap.get?_set] at hp'
    by_cases e : id0 = id
    · simp only [e, if_true, Option.some.injEq] at hp'; subst hp'; simp at hs
    · simp only [e, if_false] at hp'; exact hy id p hp' hs

theorem reachable_yes {fuel : Nat} {w : World} (hr : Reachable fuel w) : YesInv w.ms := by
  obtain ⟨m, s, self, bank, sink, ops, hi, rfl⟩ := hr
  refine run_state_inv YesInv (fun _ _ _ _ _ _ hy h => yes_step hy h) fuel ops _ ⟨instantiate_inv hi, ?_⟩
  intro id p hp
  simp [instantiate] at hi
  obtain ⟨_, _, _, _, _, _, rfl⟩ := hi
  simp [World.init, Core.empty] at hp

/-- C03 "no proposal ever becomes executable with zero Yes weight": whenever Execute succeeds (in
any reachable state, at any block, by anybody), the Yes ballots recorded for the proposal have
positive total weight; the same holds for every proposal stored Passed or Executed. -/
theorem never_executable_without_yes {fuel : Nat} {w : World} (hr : Reachable fuel w) {blk : Block} {snd : Addr} {id : Nat}
    (h : (execute w.ms blk snd (.execute id)).isOk = true) : 0 < sumK .yes (ballotsOf w.ms.core id) := by
  obtain ⟨hi, hy⟩ := reachable_yes hr
  cases hx : execute w.ms blk snd (.execute id) with
  | error e => rw [hx] at h; cases h
  | ok r =>
    obtain ⟨s', out⟩ := r
    obtain ⟨_, _, hc⟩ := execute_cases hx
    rcases hc with ⟨_, _, _, _, _, _, hm, _⟩ | ⟨_, _, hm, _⟩ | ⟨id', hm, he⟩ | ⟨_, hm, _⟩ <;> cases hm
    obtain ⟨p, hp, hst, _⟩ := execute_spec he
    have := cs_passed_yes (t := p.tally) hst (Or.inl rfl) (fun h => hy id p hp h)
    have ht := hi.wf.tally id p hp
    simp only [Proposal.tally, ht, tallyOf] at this
    exact this

theorem passed_has_yes {fuel : Nat} {w : World} (hr : Reachable fuel w) {id : Nat} {p : Proposal}
    (hp : w.ms.core.proposals.get? id = some p) (hs : p.status = .passed ∨ p.status = .executed) :
    0 < sumK .yes (ballotsOf w.ms.core id) := by
  obtain ⟨hi, hy⟩ := reachable_yes hr
  have := hy id p hp hs
  rw [hi.wf.tally id p hp] at this
  exact this

/-! ## a stored Passed is justified by the recorded ballots — at the time and at every later block

Passed is sticky in storage, and ballots may still be added to a Passed proposal until it expires.
The following shows that the sticky status never disagrees with the ballots: on every history whose
blocks never go back, for a proposal stored Passed the library decision on the tally recomputed
from the *current* ballots is Passed at the current and at every later block.  This needs
monotonicity of `votes_needed` in the weight (proved here directly, `vn_mono`; C04 has the full
arithmetic).  The analogous statement for a stored Rejected is `rejected_justified` below (it needs
C04's complement lemma, through `Lemmas/Cw3Status.lean`). -/

theorem castU64_of_le {n : Nat} (h : n ≤ U64_MAX) : castU64 n = n := by
  unfold castU64 U64_MAX at *; omega

/-- `votes_needed` before the `as u64` cast. -/
def vnRaw (w p : Nat) : Nat := (PRECISION_FACTOR * w * p / DEC_ONE + PRECISION_FACTOR - 1) / PRECISION_FACTOR

theorem vnRaw_le {w p : Nat} (hp : p ≤ DEC_ONE) : vnRaw w p ≤ w := by
  unfold vnRaw
  have h1 : PRECISION_FACTOR * w * p / DEC_ONE ≤ PRECISION_FACTOR * w := by
    apply Nat.div_le_of_le_mul
    rw [Nat.mul_comm DEC_ONE]; exact Nat.mul_le_mul_left _ hp
  generalize PRECISION_FACTOR * w * p / DEC_ONE = x at h1
  unfold PRECISION_FACTOR at *; omega

theorem vnRaw_mono {w w' p : Nat} (h : w ≤ w') : vnRaw w p ≤ vnRaw w' p := by
  unfold vnRaw
  exact Nat.div_le_div_right (Nat.sub_le_sub_right (Nat.add_le_add_right
    (Nat.div_le_div_right (Nat.mul_le_mul_right _ (Nat.mul_le_mul_left _ h))) _) _)

/-- `votes_needed` is monotone in the weight (for weights in `u64` and percentages ≤ 1). -/
theorem vn_mono {w w' p : Nat} (h : w ≤ w') (hw : w' ≤ U64_MAX) (hp : p ≤ DEC_ONE) :
    votesNeeded w p ≤ votesNeeded w' p := by
  have e1 : votesNeeded w p = vnRaw w p := castU64_of_le (Nat.le_trans (vnRaw_le hp) (Nat.le_trans h hw))
  have e2 : votesNeeded w' p = vnRaw w' p := castU64_of_le (Nat.le_trans (vnRaw_le hp) hw)
  rw [e1, e2]; exact vnRaw_mono h

/-- Side conditions under which the library decision cannot panic: the tally does not exceed the
total, the total fits `u64`, percentages are at most 1. -/
structure ValidT (t : Tally) : Prop where
  le : t.votes.yes + t.votes.no + t.votes.abstain + t.votes.veto ≤ t.totalWeight
  u64 : t.totalWeight ≤ U64_MAX
  pct : match t.threshold with
    | .absoluteCount _ => True
    | .absolutePercentage p => p ≤ DEC_ONE
    | .thresholdQuorum th q => th ≤ DEC_ONE ∧ q ≤ DEC_ONE

/-- `is_passed` as a pure function of the tally and of whether the proposal has expired. -/
def passedB (t : Tally) (expired : Bool) : Bool :=
  decide (t.votes.yes ≠ 0) &&
  match t.threshold with
  | .absoluteCount k => decide (k ≤ t.votes.yes)
  | .absolutePercentage p => decide (votesNeeded (t.totalWeight - t.votes.abstain) p ≤ t.votes.yes)
  | .thresholdQuorum th q =>
    decide (votesNeeded t.totalWeight q ≤ t.votes.yes + t.votes.no + t.votes.abstain + t.votes.veto) &&
    decide (votesNeeded ((if expired then t.votes.yes + t.votes.no + t.votes.abstain + t.votes.veto else t.totalWeight)
      - t.votes.abstain) th ≤ t.votes.yes)

theorem isPassed_eq {t : Tally} (hv : ValidT t) (b : Block) :
    Cw3.isPassed t b = .ok (passedB t (t.expires.isExpired b)) := by
  have h1 := hv.le; have h2 := hv.u64
  unfold Cw3.isPassed passedB
  by_cases hy : t.votes.yes = 0
  · simp [hy]
  · simp only [hy, if_false]
    cases ht : t.threshold with
    | absoluteCount k => simp; exact fun _ => hy
    | absolutePercentage p =>
      have : t.votes.abstain ≤ t.totalWeight := by omega
      simp [subU64, this, bind, Except.bind, pure, Except.pure]; exact fun _ => hy
    | thresholdQuorum th q =>
      have e1 : t.votes.total = .ok (t.votes.yes + t.votes.no + t.votes.abstain + t.votes.veto) := by
        have a1 : t.votes.yes + t.votes.no ≤ U64_MAX := by omega
        have a2 : t.votes.yes + t.votes.no + t.votes.abstain ≤ U64_MAX := by omega
        have a3 : t.votes.yes + t.votes.no + t.votes.abstain + t.votes.veto ≤ U64_MAX := by omega
        simp [Votes.total, addU64, a1, a2, a3, bind, Except.bind]
      have a4 : t.votes.abstain ≤ t.totalWeight := by omega
      have a5 : t.votes.abstain ≤ t.votes.yes + t.votes.no + t.votes.abstain + t.votes.veto := by omega
      simp only [e1, bind, Except.bind, pure, Except.pure, subU64, a4, a5, if_true]
      by_cases hq : t.votes.yes + t.votes.no + t.votes.abstain + t.votes.veto < votesNeeded t.totalWeight q
      · have : ¬ votesNeeded t.totalWeight q ≤ t.votes.yes + t.votes.no + t.votes.abstain + t.votes.veto := by omega
        simp [hq, this]
      · have : votesNeeded t.totalWeight q ≤ t.votes.yes + t.votes.no + t.votes.abstain + t.votes.veto := by omega
        cases he : t.expires.isExpired b <;> simp [hq, this] <;> exact fun _ => hy

theorem isExpired_mono {e : Expiration} {b b' : Block} (hh : b.height ≤ b'.height) (ht : b.time ≤ b'.time)
    (h : e.isExpired b = true) : e.isExpired b' = true := by
  cases e <;> simp [Expiration.isExpired] at h ⊢ <;> omega

/-- Once the library says Passed it keeps saying so at every later block (the tally being the same):
the only block-dependent part is the quorum rule, whose after-expiry form is implied by its
before-expiry form because `votes_needed` is monotone. -/
theorem passed_later {t : Tally} {b b' : Block} (hv : ValidT t) (hh : b.height ≤ b'.height) (ht : b.time ≤ b'.time)
    (h : Cw3.isPassed t b = .ok true) : Cw3.isPassed t b' = .ok true := by
  rw [isPassed_eq hv] at h ⊢
  simp only [Except.ok.injEq] at h ⊢
  cases he : t.expires.isExpired b with
  | true => rw [isExpired_mono hh ht he]; rw [he] at h; exact h
  | false =>
    rw [he] at h
    cases he' : t.expires.isExpired b' with
    | false => exact h
    | true =>
      have h1 := hv.le; have h2 := hv.u64; have h3 := hv.pct
      unfold passedB at h ⊢
      cases hthr : t.threshold with
      | absoluteCount k => simpa [hthr] using h
      | absolutePercentage p => simpa [hthr] using h
      | thresholdQuorum th q =>
        rw [hthr] at h3
        simp only [hthr, Bool.and_eq_true, decide_eq_true_eq, Bool.false_eq_true, if_false, if_true] at h ⊢
        refine ⟨h.1, h.2.1, Nat.le_trans (vn_mono (by omega) (by omega) h3.1) h.2.2⟩

/-- A further vote cast before expiry never un-passes a tally. -/
theorem passed_add {t : Tally} {votes' : Votes} {k : Vote} {w : Nat} {b : Block}
    (hadd : t.votes.add k w = .ok votes') (hv' : ValidT { t with votes := votes' })
    (hne : t.expires.isExpired b = false)
    (h : Cw3.isPassed t b = .ok true) : Cw3.isPassed { t with votes := votes' } b = .ok true := by
  have hv : ValidT t := by
    have := add_eq hadd
    refine ⟨?_, hv'.u64, hv'.pct⟩
    have := hv'.le; simp only [‹votes' = _›] at this; omega
  rw [isPassed_eq hv] at h
  rw [isPassed_eq hv']
  simp only [Except.ok.injEq, hne] at h ⊢
  have h1 := hv'.le; have h2 := hv'.u64; have h3 := hv'.pct
  have e := add_eq hadd
  have hw : ∀ kk, wOf kk ⟨w, k⟩ ≤ w := by intro kk; simp only [wOf]; split <;> omega
  unfold passedB at h ⊢
  subst e
  dsimp only at h1 h2 h3 ⊢
  cases hthr : t.threshold with
  | absoluteCount kk =>
    simp only [hthr, Bool.and_eq_true, decide_eq_true_eq] at h ⊢
    exact ⟨by omega, by omega⟩
  | absolutePercentage p =>
    simp only [hthr] at h3
    simp only [hthr, Bool.and_eq_true, decide_eq_true_eq] at h ⊢
    refine ⟨by omega, ?_⟩
    have := vn_mono (w := t.totalWeight - (t.votes.abstain + wOf .abstain ⟨w, k⟩)) (w' := t.totalWeight - t.votes.abstain)
      (p := p) (by omega) (by omega) h3
    omega
  | thresholdQuorum th q =>
    simp only [hthr] at h3
    simp only [hthr, Bool.and_eq_true, decide_eq_true_eq, Bool.false_eq_true, if_false] at h ⊢
    refine ⟨by omega, by omega, ?_⟩
    have := vn_mono (w := t.totalWeight - (t.votes.abstain + wOf .abstain ⟨w, k⟩)) (w' := t.totalWeight - t.votes.abstain)
      (p := th) (by omega) (by omega) h3.1
    omega

theorem isPassed_status_irrel (t : Tally) (s : Status) (b : Block) :
    Cw3.isPassed { t with status := s } b = Cw3.isPassed t b := rfl

/-- The tally of every proposal of a state satisfying `Inv` meets the side conditions of the library. -/
theorem validT_of_inv {s : State} (hi : Inv s) {id : Nat} {p : Proposal} (hp : s.core.proposals.get? id = some p) :
    ValidT p.tally := by
  obtain ⟨h1, h2, _⟩ := hi.propCfg id p hp
  refine ⟨hi.tally_le hp, by simp [Proposal.tally, h1, hi.totalU64], ?_⟩
  have hv := hi.thrValid
  simp only [Proposal.tally, h2]
  cases hthr : s.cfg.threshold with
  | absoluteCount k => trivial
  | absolutePercentage pc =>
    simp [hthr, Threshold.validate] at hv; exact hv.2
  | thresholdQuorum th q =>
    simp [hthr, Threshold.validate] at hv; exact ⟨hv.1.2, hv.2.2⟩

/-- Invariant at block `b`: every proposal stored Passed is Passed by the library decision on its
stored tally at `b` and at every later block. -/
def PassedInv (b : Block) (s : State) : Prop :=
  Inv s ∧ ∀ id p, s.core.proposals.get? id = some p → p.status = .passed →
    ∀ b', blockLe b b' → Cw3.isPassed p.tally b' = .ok true

theorem passedInv_mono {b b2 : Block} {s : State} (hb : blockLe b b2) (h : PassedInv b s) : PassedInv b2 s :=
  ⟨h.1, fun id p hp hs b' hb' => h.2 id p hp hs b' ⟨Nat.le_trans hb.1 hb'.1, Nat.le_trans hb.2 hb'.2⟩⟩

theorem passed_step {b : Block} {s s' : State} {snd : Addr} {m : ExecMsg} {out : List Msg}
    (hq : PassedInv b s) (h : execute s b snd m = .ok (s', out)) : PassedInv b s' := by
  obtain ⟨hi, hq⟩ := hq
  have hi' := execute_inv hi h
  refine ⟨hi', ?_⟩
  obtain ⟨_, _, hc⟩ := execute_cases h
  rcases hc with ⟨t, d, msgs, latest, w, id0, _, _, _, hp⟩ | ⟨id0, v, _, _, hv⟩ | ⟨id0, _, he⟩ | ⟨id0, _, _, hcl⟩
  · obtain ⟨expires, st, _, hst, _, _, hc'⟩ := propose_spec hp
    intro id p hp' hs b' hb'
    have hval := validT_of_inv hi' hp'
    rw [hc'] at hp'; simp only [AMap.get?_set] at hp'
    by_cases e : id0 = id
    · simp only [e, if_true, Option.some.injEq] at hp'; subst hp'
      simp only at hs; subst hs
      rcases cs_of_open (by simp [Proposal.tally]) hst with ⟨hpass, _⟩ | ⟨_, rej, _, ⟨_, hx⟩ | ⟨_, hx⟩⟩
      · exact passed_later hval hb'.1 hb'.2 hpass
      · cases hx
      · cases hx
    · simp only [e, if_false] at hp'; exact hq id p hp' hs b' hb'
  · obtain ⟨p0, w, votes, st, hp0, _, hne, _, _, _, hadd, hst, hc'⟩ := vote_spec hv
    intro id p hp' hs b' hb'
    have hval := validT_of_inv hi' hp'
    rw [hc'] at hp'; simp only [AMap.get?_set] at hp'
    by_cases e : id0 = id
    · simp only [e, if_true, Option.some.injEq] at hp'; subst hp'
      simp only at hs; subst hs
      refine passed_later hval hb'.1 hb'.2 ?_
      by_cases ho : p0.status = .open
      · rcases cs_of_open (by simp [Proposal.tally, ho]) hst with ⟨hpass, _⟩ | ⟨_, rej, _, ⟨_, hx⟩ | ⟨_, hx⟩⟩
        · exact hpass
        · cases hx
        · cases hx
      · have hst' : Cw3.currentStatus (Proposal.tally { p0 with votes := votes }) b = .ok p0.status :=
          cs_of_ne_open (t := Proposal.tally { p0 with votes := votes }) (by simpa [Proposal.tally] using ho)
        have e2 : p0.status = .passed := by
          have := hst.symm.trans hst'; simpa using this.symm
        have hold := hq id0 p0 hp0 e2 b ⟨Nat.le_refl _, Nat.le_refl _⟩
        have := passed_add (t := p0.tally) (votes' := votes) (b := b) hadd
          (by simpa [Proposal.tally, e2] using hval) (by simpa [Proposal.tally] using hne) hold
        simpa [Proposal.tally, e2] using this
    · simp only [e, if_false] at hp'; exact hq id p hp' hs b' hb'
  · obtain ⟨p0, hp0, _, _, _, hc'⟩ := execute_spec he
    intro id p hp' hs b' hb'
    rw [hc'] at hp'; simp only [AMap.get?_set] at hp'
    by_cases e : id0 = id
    · simp only [e, if_true, Option.some.injEq] at hp'; subst hp'; cases hs
    · simp only [e, if_false] at hp'; exact hq id p hp' hs b' hb'
  · obtain ⟨p0, _, hp0, _, _, _, _, _, _, hc'⟩ := close_spec hcl
    intro id p hp' hs b' hb'
    rw [hc'] at hp'; simp only [AMap.get?_set] at hp'
    by_cases e : id0 = id
    · simp only [e, if_true, Option.some.injEq] at hp'; subst hp'; cases hs
    · simp only [e, if_false] at hp'; exact hq id p hp' hs b' hb'

theorem reachableAt_passedInv {fuel : Nat} {w : World} {b : Block} (h : ReachableAt fuel w b) : PassedInv b w.ms := by
  induction h with
  | init self bank sink b hi =>
    refine ⟨instantiate_inv hi, ?_⟩
    intro id p hp
    simp [instantiate] at hi
    obtain ⟨_, _, _, _, _, _, rfl⟩ := hi
    simp [World.init, Core.empty] at hp
  | @step w b op _ hb ih =>
    have ih' := passedInv_mono hb ih
    rcases step_ms_cases fuel w op with e | ⟨snd, m, w', _, htx, e⟩
    · rw [e]; exact ih'
    · rw [e]; exact tx_state_inv (PassedInv op.blk) op.blk (fun s snd m s' out hq h => passed_step hq h) ih' htx

/-- C03 "Passed exactly when the Yes weight is … certain to satisfy the rule", sticky case: on every
history whose blocks never go back, for a proposal stored Passed the outcome implied by its
*currently recorded* ballots is Passed — at the block of the last operation and at every later
block (so later votes on a Passed proposal and the passage of time never contradict the stored status). -/
theorem passed_justified {fuel : Nat} {w : World} {b : Block} (hr : ReachableAt fuel w b) {id : Nat} {p : Proposal}
    (hp : w.ms.core.proposals.get? id = some p) (hs : p.status = .passed) {b' : Block} (hb : blockLe b b') :
    Outcome p (ballotsOf w.ms.core id) b' = .ok .passed := by
  obtain ⟨hi, hq⟩ := reachableAt_passedInv hr
  have h := hq id p hp hs b' hb
  have ht := hi.wf.tally id p hp
  have : Cw3.isPassed (ballotTally p (ballotsOf w.ms.core id)) b' = .ok true := by
    have e : ballotTally p (ballotsOf w.ms.core id) = { p.tally with status := .open } := by
      simp [ballotTally, Proposal.tally, ht]
    rw [e, isPassed_status_irrel]; exact h
  simp [Outcome, Cw3.currentStatus, ballotTally, this, bind, Except.bind, pure, Except.pure] at this ⊢

/-- C03 "no proposal ever becomes executable … with a Yes share below its threshold": on every
history whose blocks never go back, whenever Execute succeeds (at the block of the last operation or
later, by anybody) the outcome implied by the recorded ballots at that block is Passed. -/
theorem executable_implies_outcome_passed {fuel : Nat} {w : World} {b : Block} (hr : ReachableAt fuel w b)
    {b' : Block} (hb : blockLe b b') {snd : Addr} {id : Nat}
    (h : (execute w.ms b' snd (.execute id)).isOk = true) :
    ∃ p, w.ms.core.proposals.get? id = some p ∧ Outcome p (ballotsOf w.ms.core id) b' = .ok .passed := by
  obtain ⟨p, hp, hs | ⟨_, hout⟩⟩ := (execute_admits_iff_outcome hr.reachable b' snd id).mp h
  · exact ⟨p, hp, passed_justified hr hp hs hb⟩
  · exact ⟨p, hp, hout⟩

/-! ## the status is the EXACT documented rule (C03 × C04) -/

theorem ballotTally_eq_openT {p : Proposal} {bs : AMap Addr Ballot} (h : p.votes = tallyOf bs) :
    ballotTally p bs = openT p := by
  simp [ballotTally, openT, h]

/-- The premise of the threshold arithmetic (C04) holds for the ballots of every proposal of every
reachable state: the recorded ballots weigh at most the total (C06 `tally_le_total`), the total is a
`u64`, the threshold was validated for this total. -/
theorem premise_ballotTally {fuel : Nat} {w : World} (hr : Reachable fuel w) {id : Nat} {p : Proposal}
    (hp : w.ms.core.proposals.get? id = some p) : C04.Premise (ballotTally p (ballotsOf w.ms.core id)) := by
  have hi := reachable_inv hr
  rw [ballotTally_eq_openT (hi.wf.tally id p hp)]
  exact premise_of_inv hi hp

/-- C03 "Passed exactly when the Yes weight is positive and certain to satisfy the configured count,
percentage or quorum rule, Rejected only when it expired without passing or can no longer pass, Open
otherwise" — against the EXACT rule, for thresholds / quorums written with at most 9 decimals.
For every reachable state, every proposal stored Open and every query block, the query answers, and
the status it reports is
* Passed exactly when the recorded Yes weight is positive and the documented rule (`C04.exactPasses`:
  `yes ≥ k`; `yes/(total−abstain) ≥ pct`; `cast/total ≥ quorum ∧ yes/(cast−abstain) ≥ threshold`, all in
  cross-multiplied integer arithmetic) holds for EVERY completion of the outstanding votes — after
  expiry: for the recorded ballots themselves;
* Rejected only if the proposal has expired and the recorded ballots fail the rule, or it has not
  expired and no completion of the outstanding votes satisfies it;
* Open otherwise, and only before expiry.
(Stored Passed / Rejected / Executed are reported as stored: `status_eq_outcome`; they are justified by
`passed_justified` / `rejected_justified`.) -/
theorem status_eq_exact_outcome {fuel : Nat} {w : World} (hr : Reachable fuel w) {id : Nat} {p : Proposal}
    (hp : w.ms.core.proposals.get? id = some p) (ho : p.status = .open) (h9 : C04.nineDecimals p.threshold) (blk : Block) :
    ∃ st, (Cw3Fixed.queryProposal w.ms blk id).map (·.status) = .ok st ∧
      (st = .passed ↔ 0 < sumK .yes (ballotsOf w.ms.core id) ∧
        CertainBy C04.exactPasses p.threshold p.totalWeight (tallyOf (ballotsOf w.ms.core id)) (p.expires.isExpired blk)) ∧
      (st = .rejected →
        HopelessBy C04.exactPasses p.threshold p.totalWeight (tallyOf (ballotsOf w.ms.core id)) (p.expires.isExpired blk)) ∧
      (st = .open → p.expires.isExpired blk = false) ∧
      (st = .open ∨ st = .passed ∨ st = .rejected) := by
  rw [status_eq_outcome hr hp, if_pos ho]
  exact exact_outcome9 (t := ballotTally p (ballotsOf w.ms.core id)) rfl (premise_ballotTally hr hp) h9 blk

/-- The same for thresholds with up to 18 digits, where the library floors once before it takes the
ceiling: the reported status is never stricter than the exact rule and at most one vote more
permissive — exact-certain ⇒ Passed ⇒ certain with one vote of slack on each percentage requirement
(`C04.laxPasses`); a reported Rejected still excludes, in exact arithmetic, the recorded ballots (after
expiry) resp. every completion (before). -/
theorem status_exact_outcome_within_one {fuel : Nat} {w : World} (hr : Reachable fuel w) {id : Nat} {p : Proposal}
    (hp : w.ms.core.proposals.get? id = some p) (ho : p.status = .open) (blk : Block) :
    ∃ st, (Cw3Fixed.queryProposal w.ms blk id).map (·.status) = .ok st ∧
      (CertainBy C04.exactPasses p.threshold p.totalWeight (tallyOf (ballotsOf w.ms.core id)) (p.expires.isExpired blk) →
        st = .passed) ∧
      (st = .passed → 0 < sumK .yes (ballotsOf w.ms.core id) ∧
        CertainBy C04.laxPasses p.threshold p.totalWeight (tallyOf (ballotsOf w.ms.core id)) (p.expires.isExpired blk)) ∧
      (st = .rejected →
        HopelessBy C04.exactPasses p.threshold p.totalWeight (tallyOf (ballotsOf w.ms.core id)) (p.expires.isExpired blk)) ∧
      (st = .open → p.expires.isExpired blk = false) ∧
      (st = .open ∨ st = .passed ∨ st = .rejected) := by
  rw [status_eq_outcome hr hp, if_pos ho]
  exact exact_outcome18 (t := ballotTally p (ballotsOf w.ms.core id)) rfl (premise_ballotTally hr hp) blk

/-! ## a stored Rejected is justified by the recorded ballots — when stored and at every later block -/

/-- On histories whose blocks never go back every stored Passed / Rejected is backed by the recorded
tally at the block of the last operation and at every later block (`Cw3Core.DecidedOk`). -/
theorem reachableAt_decided {fuel : Nat} {w : World} {b : Block} (h : ReachableAt fuel w b) :
    Inv w.ms ∧ AllP (fun _ p => DecidedOk b p) w.ms.core := by
  refine reachableAt_inv (fun b s => Inv s ∧ AllP (fun _ p => DecidedOk b p) s.core) ?_ ?_ ?_ h
  · intro b b2 s hb ⟨hi, ha⟩
    exact ⟨hi, fun id p hp => decidedOk_mono hb (ha id p hp)⟩
  · intro b s snd m s' out ⟨hi, ha⟩ he
    exact ⟨execute_inv hi he, allP_step hi.wf (fun _ _ _ hold hs => decidedOk_step hold hs) ha (execute_coreStep he)⟩
  · intro m s b hi
    exact ⟨instantiate_inv hi, by rw [instantiate_core hi]; exact allP_empty _⟩

/-- C03 "Rejected only when it expired without passing or can no longer pass", sticky case (mirror of
`passed_justified`): on every history whose blocks never go back, for a proposal stored Rejected the
outcome implied by its *currently recorded* ballots is Rejected at the block of the last operation and
at every later block `b'` — so the ballots added to a Rejected proposal before it expires and the
passage of time never contradict the stored status — and at each such block either the proposal has
expired and the recorded ballots fail the rule, or it has not and no completion of the outstanding
votes can pass (`C04.rejected_sound`); both against the library's rule and against the exact rule. -/
theorem rejected_justified {fuel : Nat} {w : World} {b : Block} (hr : ReachableAt fuel w b) {id : Nat} {p : Proposal}
    (hp : w.ms.core.proposals.get? id = some p) (hs : p.status = .rejected) {b' : Block} (hb : blockLe b b') :
    Outcome p (ballotsOf w.ms.core id) b' = .ok .rejected ∧
    HopelessBy C04.libPasses p.threshold p.totalWeight (tallyOf (ballotsOf w.ms.core id)) (p.expires.isExpired b') ∧
    HopelessBy C04.exactPasses p.threshold p.totalWeight (tallyOf (ballotsOf w.ms.core id)) (p.expires.isExpired b') := by
  obtain ⟨hi, ha⟩ := reachableAt_decided hr
  have hprem := premise_of_inv hi hp
  have h := (ha id p hp hprem).2 hs b' hb
  have e := ballotTally_eq_openT (hi.wf.tally id p hp)
  have hout : Outcome p (ballotsOf w.ms.core id) b' = .ok .rejected := by
    unfold Outcome; rw [e]; exact h
  refine ⟨hout, ?_⟩
  have := rejected_hopeless (t := ballotTally p (ballotsOf w.ms.core id)) rfl (by rw [e]; exact hprem) hout
  exact this

/-- … and at the moment it is stored: whenever a handler call (Propose, Vote or Close, top-level or
re-entrant) at block `b` leaves a proposal stored Rejected that was not stored Rejected before, then at
`b` either the proposal has expired and its tally fails the rule, or no completion of the then
outstanding votes can pass. -/
theorem rejected_when_stored {s s' : State} {b : Block} {snd : Addr} {m : ExecMsg} {out : List Msg} (hi : Inv s)
    (h : execute s b snd m = .ok (s', out)) {id : Nat} {p' : Proposal} (hp' : s'.core.proposals.get? id = some p')
    (hs : p'.status = .rejected) (hnew : ∀ p, s.core.proposals.get? id = some p → p.status ≠ .rejected) :
    HopelessBy C04.libPasses p'.threshold p'.totalWeight p'.votes (p'.expires.isExpired b) ∧
    HopelessBy C04.exactPasses p'.threshold p'.totalWeight p'.votes (p'.expires.isExpired b) := by
  have hst := propStep_stores_rejected (coreStep_prop hi.wf (execute_coreStep h) hp') hs hnew
  exact rejected_hopeless (t := openT p') rfl (premise_of_inv (execute_inv hi h) hp') hst

/-! ## Execute succeeds ⇒ the Yes share meets the threshold in exact arithmetic -/

/-- What an `Outcome` of Passed means in exact arithmetic, inside the premise of C04: positive Yes weight, the
documented rule certain with at most one vote of slack (18-digit thresholds), and certain exactly for thresholds with at
most 9 decimals. -/
theorem outcome_passed_exact {p : Proposal} {bs : AMap Addr Ballot} {blk : Block}
    (hprem : C04.Premise (ballotTally p bs)) (h : Outcome p bs blk = .ok .passed) :
    0 < sumK .yes bs ∧
    CertainBy C04.laxPasses p.threshold p.totalWeight (tallyOf bs) (p.expires.isExpired blk) ∧
    (C04.nineDecimals p.threshold →
      CertainBy C04.exactPasses p.threshold p.totalWeight (tallyOf bs) (p.expires.isExpired blk)) := by
  have hp : Cw3.isPassed (ballotTally p bs) blk = .ok true := by
    rcases outcome_cases h with ⟨hp, _⟩ | ⟨_, rej, _, ⟨_, hx⟩ | ⟨_, hx⟩⟩
    · exact hp
    · cases hx
    · cases hx
  exact ⟨C04.passed_needs_yes hp, (isPassed_certain18 hprem blk).2 hp,
    fun h9 => (isPassed_iff_certain9 (t := ballotTally p bs) hprem h9 blk).mp hp⟩

/-- **C03 "never executable with a Yes share below its threshold", exact arithmetic** (clause g, composition of
`executable_implies_outcome_passed` with C04).  On every history whose blocks never go back, whenever Execute succeeds
(at the block of the last operation or later, by anybody): the recorded Yes weight is positive and the configured
count / percentage / quorum rule holds for the recorded ballots in exact cross-multiplied integer arithmetic — for
every completion of the outstanding votes before expiry, for the recorded ballots themselves after — exactly for
thresholds with at most 9 decimals, and with at most one vote of slack (`C04.laxPasses`) for 18-digit decimals. -/
theorem execute_ok_implies_exact_threshold {fuel : Nat} {w : World} {b : Block} (hr : ReachableAt fuel w b)
    {b' : Block} (hb : blockLe b b') {snd : Addr} {id : Nat}
    (h : (execute w.ms b' snd (.execute id)).isOk = true) :
    ∃ p, w.ms.core.proposals.get? id = some p ∧ 0 < sumK .yes (ballotsOf w.ms.core id) ∧
      CertainBy C04.laxPasses p.threshold p.totalWeight (tallyOf (ballotsOf w.ms.core id)) (p.expires.isExpired b') ∧
      (C04.nineDecimals p.threshold →
        CertainBy C04.exactPasses p.threshold p.totalWeight (tallyOf (ballotsOf w.ms.core id)) (p.expires.isExpired b')) := by
  obtain ⟨p, hp, hout⟩ := executable_implies_outcome_passed hr hb h
  exact ⟨p, hp, outcome_passed_exact (premise_ballotTally hr.reachable hp) hout⟩

/-- The same for a stored Passed (`passed_justified` read in exact arithmetic): the sticky status is backed by the
exact rule on the currently recorded ballots at the block of the last operation and at every later block. -/
theorem passed_justified_exact {fuel : Nat} {w : World} {b : Block} (hr : ReachableAt fuel w b) {id : Nat} {p : Proposal}
    (hp : w.ms.core.proposals.get? id = some p) (hs : p.status = .passed) {b' : Block} (hb : blockLe b b') :
    0 < sumK .yes (ballotsOf w.ms.core id) ∧
    CertainBy C04.laxPasses p.threshold p.totalWeight (tallyOf (ballotsOf w.ms.core id)) (p.expires.isExpired b') ∧
    (C04.nineDecimals p.threshold →
      CertainBy C04.exactPasses p.threshold p.totalWeight (tallyOf (ballotsOf w.ms.core id)) (p.expires.isExpired b')) :=
  outcome_passed_exact (premise_ballotTally hr.reachable hp) (passed_justified hr hp hs hb)

/-! ## the admit-iff theorems for every state satisfying `Inv` (hence also mid-dispatch, for re-entrant self-calls) -/

/-- `tally_eq_ballotTally` from the invariant alone. -/
theorem tally_eq_ballotTally_inv {s : State} (hi : Inv s) {id : Nat} {p : Proposal}
    (hp : s.core.proposals.get? id = some p) (ho : p.status = .open) :
    p.tally = ballotTally p (ballotsOf s.core id) := by
  have := hi.wf.tally id p hp
  simp [Proposal.tally, ballotTally, ho, this]

/-- **Execute is admitted iff Passed, for every state satisfying `Inv`** — in particular for the intermediate states
inside `dispatch` (`dispatch` preserves `Inv`), so the statement also covers `selfExecute` messages of a proposal that
is being executed. -/
theorem execute_admits_iff_outcome_inv {s : State} (hi : Inv s) (blk : Block) (snd : Addr) (id : Nat) :
    (execute s blk snd (.execute id)).isOk = true ↔
      ∃ p, s.core.proposals.get? id = some p ∧
        (p.status = .passed ∨ (p.status = .open ∧ Outcome p (ballotsOf s.core id) blk = .ok .passed)) := by
  constructor
  · intro h
    cases hx : execute s blk snd (.execute id) with
    | error e => rw [hx] at h; cases h
    | ok r =>
      obtain ⟨s', out⟩ := r
      obtain ⟨_, _, hc⟩ := execute_cases hx
      rcases hc with ⟨_, _, _, _, _, _, hm, _⟩ | ⟨_, _, hm, _⟩ | ⟨id', hm, he⟩ | ⟨_, hm, _⟩ <;> cases hm
      obtain ⟨p, hp, hst, _⟩ := execute_spec he
      refine ⟨p, hp, ?_⟩
      by_cases ho : p.status = .open
      · right; refine ⟨ho, ?_⟩
        simp only [Outcome, ← tally_eq_ballotTally_inv hi hp ho]; exact hst
      · left
        have : p.currentStatus blk = .ok p.status := cs_of_ne_open (t := p.tally) ho
        rw [this] at hst; simpa using hst
  · rintro ⟨p, hp, hs | ⟨ho, hout⟩⟩
    · have : p.currentStatus blk = .ok .passed := by
        have h2 : p.currentStatus blk = .ok p.status := cs_of_ne_open (t := p.tally) (by simp [Proposal.tally, hs])
        rw [hs] at h2; exact h2
      simp [Cw3Fixed.execute, execExecute, Cw3Core.execute, load, hp, this, bind, Except.bind, check, pure, Except.pure, Res.isOk]
    · have : p.currentStatus blk = .ok .passed := by
        simp only [Outcome, ← tally_eq_ballotTally_inv hi hp ho] at hout; exact hout
      simp [Cw3Fixed.execute, execExecute, Cw3Core.execute, load, hp, this, bind, Except.bind, check, pure, Except.pure, Res.isOk]

/-- **Close is admitted iff expired and not Passed, for every state satisfying `Inv`** (also mid-dispatch, for
`selfClose` messages). -/
theorem close_admits_iff_outcome_inv {s : State} (hi : Inv s) (blk : Block) (snd : Addr) (id : Nat) :
    (execute s blk snd (.close id)).isOk = true ↔
      ∃ p, s.core.proposals.get? id = some p ∧ p.status = .open ∧ p.expires.isExpired blk = true ∧
        Outcome p (ballotsOf s.core id) blk = .ok .rejected := by
  constructor
  · intro h
    cases hx : execute s blk snd (.close id) with
    | error e => rw [hx] at h; cases h
    | ok r =>
      obtain ⟨s', out⟩ := r
      obtain ⟨_, _, hc⟩ := execute_cases hx
      rcases hc with ⟨_, _, _, _, _, _, hm, _⟩ | ⟨_, _, hm, _⟩ | ⟨_, hm, _⟩ | ⟨id', hm, _, hcl⟩ <;> cases hm
      obtain ⟨p, st, hp, h1, h2, h3, hst, hne, hexp, _⟩ := close_spec hcl
      have h4 := hi.wf.notPending id p hp
      have ho : p.status = .open := by cases hs : p.status <;> simp_all
      refine ⟨p, hp, ho, hexp, ?_⟩
      simp only [Outcome, ← tally_eq_ballotTally_inv hi hp ho]
      have hst' : Cw3.currentStatus p.tally blk = .ok st := hst
      rcases cs_of_open (t := p.tally) (by simp [Proposal.tally, ho]) hst' with ⟨_, rfl⟩ | ⟨_, rej, _, ⟨_, rfl⟩ | ⟨⟨_, hne'⟩, rfl⟩⟩
      · exact absurd rfl hne
      · exact hst'
      · simp [Proposal.tally] at hne'; rw [hexp] at hne'; cases hne'
  · rintro ⟨p, hp, ho, hexp, hout⟩
    have hst : p.currentStatus blk = .ok .rejected := by
      simp only [Outcome, ← tally_eq_ballotTally_inv hi hp ho] at hout; exact hout
    simp [Cw3Fixed.execute, execClose, Cw3Core.close, load, hp, hst, ho, hexp, bind, Except.bind, check, pure, Except.pure, Res.isOk]

/-- **Never executable without Yes weight, for every state satisfying `YesInv`** (`yes_step`: every handler call
preserves `YesInv`, so it holds mid-dispatch too). -/
theorem never_executable_without_yes_inv {s : State} (hy : YesInv s) {blk : Block} {snd : Addr} {id : Nat}
    (h : (execute s blk snd (.execute id)).isOk = true) : 0 < sumK .yes (ballotsOf s.core id) := by
  obtain ⟨hi, hy⟩ := hy
  cases hx : execute s blk snd (.execute id) with
  | error e => rw [hx] at h; cases h
  | ok r =>
    obtain ⟨s', out⟩ := r
    obtain ⟨_, _, hc⟩ := execute_cases hx
    rcases hc with ⟨_, _, _, _, _, _, hm, _⟩ | ⟨_, _, hm, _⟩ | ⟨id', hm, he⟩ | ⟨_, hm, _⟩ <;> cases hm
    obtain ⟨p, hp, hst, _⟩ := execute_spec he
    have := cs_passed_yes (t := p.tally) hst (Or.inl rfl) (fun h => hy id p hp h)
    have ht := hi.wf.tally id p hp
    simp only [Proposal.tally, ht, tallyOf] at this
    exact this

/-! ## non-vacuity -/

/-- voters a:1, b:1, z:0; 51 % of the (non-abstaining) total -/
def exInst : InstMsg :=
  { voters := [(⟨true, "a"⟩, 1), (⟨true, "b"⟩, 1), (⟨true, "z"⟩, 0)],
    threshold := .absolutePercentage 510000000000000000, maxVotingPeriod := .height 10 }
def exState : State := match instantiate exInst with | .ok s => s | .error _ => default
def exBlk : Block := ⟨100, 1000⟩
def exWorld : World := World.init exState "ms" [] true
/-- the zero-weight member proposes, everybody else abstains -/
def exOps : List Op :=
  [⟨exBlk, .exec "z" (.propose "t" "d" [] none)⟩, ⟨exBlk, .exec "a" (.vote 1 .abstain)⟩, ⟨exBlk, .exec "b" (.vote 1 .abstain)⟩]

example : instantiate exInst = .ok exState := rfl
/-- all abstain ⇒ not Passed: Open until expiry, Rejected afterwards; Execute is refused -/
example : (match Cw3Fixed.queryProposal (run 10 exWorld exOps).ms exBlk 1 with
    | .ok v => v.status | .error _ => .pending) = .open := by decide
example : (match Cw3Fixed.queryProposal (run 10 exWorld exOps).ms ⟨110, 1000⟩ 1 with
    | .ok v => v.status | .error _ => .pending) = .rejected := by decide
example : (execute (run 10 exWorld exOps).ms ⟨110, 1000⟩ "a" (.execute 1)).isOk = false := by decide
/-- with a yes vote instead the proposal passes and is executable -/
example : (execute (run 10 exWorld (exOps.take 2 ++ [⟨exBlk, .exec "b" (.vote 1 .yes)⟩])).ms exBlk "x" (.execute 1)).isOk = true := by decide

/-- a history with non-decreasing blocks in which proposal 1 is stored Passed (a:1 yes, b:1 yes on 51 %) -/
def exPassOps : List Op :=
  [⟨exBlk, .exec "a" (.propose "t" "d" [] none)⟩, ⟨⟨101, 1005⟩, .exec "b" (.vote 1 .yes)⟩]
example : ReachableAt 10 (run 10 exWorld exPassOps) ⟨101, 1005⟩ :=
  ReachableAt.step (w := step 10 exWorld ⟨exBlk, .exec "a" (.propose "t" "d" [] none)⟩) ⟨⟨101, 1005⟩, .exec "b" (.vote 1 .yes)⟩
    (ReachableAt.step ⟨exBlk, .exec "a" (.propose "t" "d" [] none)⟩
      (ReachableAt.init (m := exInst) "ms" [] true exBlk rfl) ⟨Nat.le_refl _, Nat.le_refl _⟩)
    ⟨by decide, by decide⟩
example : ((run 10 exWorld exPassOps).ms.core.proposals.get? 1).map (·.status) = some .passed := by decide

/-! ### non-vacuity of the exact-rule and Rejected statements -/

/-- voters a:3, b:3, c:2, d:1 (total 9); quorum 40 %, threshold 60 % (both 9-decimal) -/
def exqInst : InstMsg :=
  { voters := [(⟨true, "a"⟩, 3), (⟨true, "b"⟩, 3), (⟨true, "c"⟩, 2), (⟨true, "d"⟩, 1)],
    threshold := .thresholdQuorum 600000000000000000 400000000000000000, maxVotingPeriod := .height 10 }
def exqState : State := match instantiate exqInst with | .ok s => s | .error _ => default
def exqWorld : World := World.init exqState "ms" [] true
/-- a proposes (3 yes), c votes no (2): 5 of 9 cast; proposal 2: a proposes, b and c vote no, then d yes -/
def exqOps : List Op :=
  [⟨exBlk, .exec "a" (.propose "t" "d" [] none)⟩, ⟨exBlk, .exec "c" (.vote 1 .no)⟩,
   ⟨⟨101, 1005⟩, .exec "a" (.propose "t2" "d" [] none)⟩, ⟨⟨101, 1005⟩, .exec "b" (.vote 2 .no)⟩,
   ⟨⟨102, 1010⟩, .exec "c" (.vote 2 .no)⟩, ⟨⟨102, 1010⟩, .exec "d" (.vote 2 .yes)⟩]

example : instantiate exqInst = .ok exqState := rfl
example : C04.nineDecimals exqInst.threshold := ⟨⟨600000000, by decide⟩, ⟨400000000, by decide⟩⟩
example : Reachable 10 (run 10 exqWorld exqOps) := ⟨exqInst, exqState, "ms", [], true, exqOps, rfl, rfl⟩
/-- proposal 1 is stored Open with ballots 3 yes / 2 no: reported Open while voting (b:3 + d:1 could
still vote no: 3/9 < 60 %), Passed once expired (3/5 = 60 % of the opinions cast, 5/9 ≥ 40 % quorum) -/
example : ((run 10 exqWorld exqOps).ms.core.proposals.get? 1).map (fun p => (p.status, p.votes)) = some (.open, ⟨3, 2, 0, 0⟩) ∧
    ((Cw3Fixed.queryProposal (run 10 exqWorld exqOps).ms ⟨102, 1010⟩ 1).toOption.map (·.status)) = some .open ∧
    ((Cw3Fixed.queryProposal (run 10 exqWorld exqOps).ms ⟨110, 1010⟩ 1).toOption.map (·.status)) = some .passed ∧
    C04.exactPasses exqInst.threshold 9 ⟨3, 2, 0, 0⟩ = true ∧
    C04.exactPasses exqInst.threshold 9 (C04.plus ⟨3, 2, 0, 0⟩ ⟨0, 4, 0, 0⟩) = false := by decide

/-- the history as a history with non-decreasing blocks -/
theorem exq_reachableAt : ReachableAt 10 (run 10 exqWorld exqOps) ⟨102, 1010⟩ := by
  have h0 : ReachableAt 10 exqWorld exBlk := ReachableAt.init (m := exqInst) "ms" [] true exBlk rfl
  have h1 := ReachableAt.step ⟨exBlk, .exec "a" (.propose "t" "d" [] none)⟩ h0 ⟨Nat.le_refl _, Nat.le_refl _⟩
  have h2 := ReachableAt.step ⟨exBlk, .exec "c" (.vote 1 .no)⟩ h1 ⟨Nat.le_refl _, Nat.le_refl _⟩
  have h3 := ReachableAt.step ⟨⟨101, 1005⟩, .exec "a" (.propose "t2" "d" [] none)⟩ h2 ⟨by decide, by decide⟩
  have h4 := ReachableAt.step ⟨⟨101, 1005⟩, .exec "b" (.vote 2 .no)⟩ h3 ⟨Nat.le_refl _, Nat.le_refl _⟩
  have h5 := ReachableAt.step ⟨⟨102, 1010⟩, .exec "c" (.vote 2 .no)⟩ h4 ⟨by decide, by decide⟩
  exact ReachableAt.step ⟨⟨102, 1010⟩, .exec "d" (.vote 2 .yes)⟩ h5 ⟨Nat.le_refl _, Nat.le_refl _⟩

/-- proposal 2 was voted down early by c (3 yes / 5 no of 9: even d's yes cannot reach 60 %), is stored
Rejected, and d's later Yes ballot is recorded without changing that -/
example : ((run 10 exqWorld exqOps).ms.core.proposals.get? 2).map (fun p => (p.status, p.votes)) = some (.rejected, ⟨4, 5, 0, 0⟩) := by
  decide

/-- non-vacuity of `rejected_when_stored`: c's No (the fifth operation, block 102) is the call that stores
proposal 2 as Rejected — Open before, Rejected after, not yet expired: no completion can pass -/
example :
    let s := (run 10 exqWorld (exqOps.take 4)).ms
    ((s.core.proposals.get? 2).map (·.status)) = some .open ∧
    ((execute s ⟨102, 1010⟩ "c" (.vote 2 .no)).toOption.map fun r => (r.1.core.proposals.get? 2).map (·.status))
      = some (some .rejected) ∧
    (Expiration.atHeight 111).isExpired ⟨102, 1010⟩ = false ∧
    C04.libPasses exqInst.threshold 9 (C04.plus ⟨3, 5, 0, 0⟩ ⟨1, 0, 0, 0⟩) = false := by
  decide

/-- non-vacuity of `execute_ok_implies_exact_threshold` / `passed_justified_exact`: in the `ReachableAt` world of
`exPassOps` (a:1 yes, b:1 yes on 51 %, stored Passed) Execute succeeds at a later block -/
example : (execute (run 10 exWorld exPassOps).ms ⟨105, 1005⟩ "x" (.execute 1)).isOk = true ∧
    blockLe ⟨101, 1005⟩ ⟨105, 1005⟩ ∧ C04.nineDecimals exInst.threshold :=
  ⟨by decide, ⟨by decide, by decide⟩, ⟨510000000, by decide⟩⟩

/-- non-vacuity of the `…_inv` forms: the state of `exqOps` satisfies `Inv` and `YesInv`, proposal 1 is admitted for
Execute after expiry and not for Close -/
example : Inv (run 10 exqWorld exqOps).ms ∧ YesInv (run 10 exqWorld exqOps).ms ∧
    (execute (run 10 exqWorld exqOps).ms ⟨110, 1010⟩ "x" (.execute 1)).isOk = true ∧
    (execute (run 10 exqWorld exqOps).ms ⟨110, 1010⟩ "x" (.close 1)).isOk = false :=
  ⟨reachable_inv ⟨exqInst, exqState, "ms", [], true, exqOps, rfl, rfl⟩,
   reachable_yes ⟨exqInst, exqState, "ms", [], true, exqOps, rfl, rfl⟩, by decide, by decide⟩

/-- non-vacuity of `listed_status_eq_outcome`: in the reachable world of `exqOps` the listing answers (inside `Inv` no
listed proposal can fail to have a status: C04 `no_panic`) -/
example : ∃ vs, Cw3Fixed.listProposals (run 10 exqWorld exqOps).ms ⟨110, 1010⟩ none none = .ok vs := by
  have hr : Reachable 10 (run 10 exqWorld exqOps) := ⟨exqInst, exqState, "ms", [], true, exqOps, rfl, rfl⟩
  refine ⟨_, viewAll_eq_map (fun x hx => ?_)⟩
  have hm : x ∈ (run 10 exqWorld exqOps).ms.core.proposals :=
    Paginate.mem_sortedEntries.mp ((Paginate.page_sublist _ _ _ _).subset hx)
  have hp := AMap.get?_of_mem_nodup (Cw3Fixed.reachable_nodup hr) hm
  have hprem := premise_of_inv (reachable_inv hr) hp
  exact (C04.no_panic (p := x.2.tally) ⟨hprem.tally_le, hprem.total_u64, hprem.valid⟩ _).2.2

end CwPlus.Props.C03
