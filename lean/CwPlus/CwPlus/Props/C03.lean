import CwPlus.Lemmas.Cw3Fixed
/-!
# C03 (cw3-fixed part) — a proposal's status equals the outcome its ballots imply

The outcome is *defined from the ballots*: `Outcome p ballots blk` is the decision of the cw3
library (`Cw3.isPassed` / `Cw3.isRejected` / expiry, model `Model/Cw3.lean`) applied to the tally
recomputed from the recorded ballots (`tallyOf`), the proposal's own threshold, total weight and
expiry, at block `blk`.  What the library decision means arithmetically (exact ceilings, never
stricter than the documented rule, early decisions sound and complete) is property C04
(`Props/C04.lean`); C03 is about the contract using that decision, on the right inputs, everywhere:
in every query, and to admit Execute and Close.  All theorems hold for every accepted
instantiation and every history (`Reachable fuel w`).

The cw3-flex part of C03 is pending; it will reuse `Lemmas/Cw3Core.lean`.
-/
namespace CwPlus.Props.C03
open CwPlus CwPlus.Cw3 CwPlus.Cw3Core CwPlus.Cw3Fixed

/-- The tally of a proposal as implied by a ballot map: stored `Open`, the proposal's threshold,
total weight and expiry, and per option the sum of the ballots' weights. -/
def ballotTally (p : Proposal) (bs : AMap Addr Ballot) : Tally :=
  ⟨.open, p.threshold, p.totalWeight, tallyOf bs, p.expires⟩

/-- The outcome the cw3 rules define for the recorded ballots at block `blk`: Passed if the
library's `is_passed` holds (which requires Yes weight > 0), otherwise Rejected if `is_rejected`
holds or the proposal has expired, otherwise Open. -/
def Outcome (p : Proposal) (bs : AMap Addr Ballot) (blk : Block) : Res Status :=
  Cw3.currentStatus (ballotTally p bs) blk

/-- `Outcome` spelled out in terms of the library's two decisions. -/
theorem outcome_cases {p : Proposal} {bs : AMap Addr Ballot} {blk : Block} {st : Status}
    (h : Outcome p bs blk = .ok st) :
    (Cw3.isPassed (ballotTally p bs) blk = .ok true ∧ st = .passed) ∨
    (Cw3.isPassed (ballotTally p bs) blk = .ok false ∧ ∃ rej, Cw3.isRejected (ballotTally p bs) blk = .ok rej ∧
      ((rej = true ∨ p.expires.isExpired blk = true) ∧ st = .rejected ∨
       (rej = false ∧ p.expires.isExpired blk = false) ∧ st = .open)) :=
  cs_of_open (t := ballotTally p bs) rfl h

/-- The status every query reports for a proposal is `current_status` of the stored record. -/
theorem query_status (s : State) (blk : Block) (id : Nat) (p : Proposal) (hp : s.core.proposals.get? id = some p) :
    (Cw3Fixed.queryProposal s blk id).map (·.status) = p.currentStatus blk := by
  simp only [Cw3Fixed.queryProposal, Cw3Core.queryProposal, load, hp, viewOf]
  cases h : p.currentStatus blk <;> simp [h, bind, Except.bind, Functor.map, Except.map, pure, Except.pure]

/-- In a reachable state, a proposal stored Open *is* its ballot tally. -/
theorem tally_eq_ballotTally {fuel : Nat} {w : World} (hr : Reachable fuel w) {id : Nat} {p : Proposal}
    (hp : w.ms.core.proposals.get? id = some p) (ho : p.status = .open) :
    p.tally = ballotTally p (ballotsOf w.ms.core id) := by
  have := (reachable_inv hr).wf.tally id p hp
  simp [Proposal.tally, ballotTally, ho, this]

/-- C03 "the status returned by queries equals the outcome the threshold rules define for the
ballots recorded for it, the total weight reported for it and whether it has expired": for every
reachable state, every proposal and *every* query block,
* stored Open  ⇒ the reported status is `Outcome` of the recorded ballots at that block;
* stored Passed / Rejected / Executed ⇒ the reported status is the stored one (sticky). -/
theorem status_eq_outcome {fuel : Nat} {w : World} (hr : Reachable fuel w) {id : Nat} {p : Proposal}
    (hp : w.ms.core.proposals.get? id = some p) (blk : Block) :
    (Cw3Fixed.queryProposal w.ms blk id).map (·.status) =
      if p.status = .open then Outcome p (ballotsOf w.ms.core id) blk else .ok p.status := by
  rw [query_status _ _ _ _ hp]
  by_cases ho : p.status = .open
  · simp only [ho, if_true, Proposal.currentStatus, Outcome]
    rw [tally_eq_ballotTally hr hp ho]
  · simp only [ho, if_false, Proposal.currentStatus]
    exact cs_of_ne_open (t := p.tally) ho

/-- Passed is sticky: a proposal stored Passed is reported Passed at every block, and no later
vote, block change or other operation makes its stored status anything but Passed or Executed. -/
theorem passed_sticky {fuel : Nat} {w : World} (hr : Reachable fuel w) (ops : List Op) {id : Nat} {p : Proposal}
    (hp : w.ms.core.proposals.get? id = some p) (hs : p.status = .passed) :
    (∀ blk, (Cw3Fixed.queryProposal w.ms blk id).map (·.status) = .ok .passed) ∧
    ∃ p', (run fuel w ops).ms.core.proposals.get? id = some p' ∧ (p'.status = .passed ∨ p'.status = .executed) := by
  constructor
  · intro blk; rw [status_eq_outcome hr hp]; simp [hs]
  · have := run_rel (fun s s' => Later s.core s'.core) (fun s => later_refl _) (fun _ _ _ h1 h2 => later_trans h1 h2)
      (fun blk s snd m s' out hi h => execute_later hi h) fuel ops w (reachable_inv hr)
    obtain ⟨p', hp', _, he⟩ := this.props id p hp
    refine ⟨p', hp', ?_⟩
    rw [hs] at he
    cases hs' : p'.status <;> simp_all [edge]

/-- Rejected and Executed are final. -/
theorem rejected_executed_final {fuel : Nat} {w : World} (hr : Reachable fuel w) (ops : List Op) {id : Nat} {p : Proposal}
    (hp : w.ms.core.proposals.get? id = some p) (hs : p.status = .rejected ∨ p.status = .executed) :
    ∃ p', (run fuel w ops).ms.core.proposals.get? id = some p' ∧ p'.status = p.status := by
  have := run_rel (fun s s' => Later s.core s'.core) (fun s => later_refl _) (fun _ _ _ h1 h2 => later_trans h1 h2)
    (fun blk s snd m s' out hi h => execute_later hi h) fuel ops w (reachable_inv hr)
  obtain ⟨p', hp', _, he⟩ := this.props id p hp
  refine ⟨p', hp', ?_⟩
  rcases hs with hs | hs <;> rw [hs] at he <;> cases hs' : p'.status <;> simp_all [edge]

/-! ## Execute and Close are admitted by the same status -/

/-- C03 "the status … used to admit Execute": Execute succeeds exactly when the proposal is stored
Passed, or is stored Open and the outcome of its recorded ballots at the current block is Passed. -/
theorem execute_admits_iff_outcome {fuel : Nat} {w : World} (hr : Reachable fuel w) (blk : Block) (snd : Addr) (id : Nat) :
    (execute w.ms blk snd (.execute id)).isOk = true ↔
      ∃ p, w.ms.core.proposals.get? id = some p ∧
        (p.status = .passed ∨ (p.status = .open ∧ Outcome p (ballotsOf w.ms.core id) blk = .ok .passed)) := by
  constructor
  · intro h
    cases hx : execute w.ms blk snd (.execute id) with
    | error e => rw [hx] at h; cases h
    | ok r =>
      obtain ⟨s', out⟩ := r
      obtain ⟨_, _, hc⟩ := execute_cases hx
      rcases hc with ⟨_, _, _, _, _, _, hm, _⟩ | ⟨_, _, hm, _⟩ | ⟨id', hm, he⟩ | ⟨_, hm, _⟩ <;> cases hm
      obtain ⟨p, hp, hst, _⟩ := execute_spec he
      refine ⟨p, hp, ?_⟩
      by_cases ho : p.status = .open
      · right; refine ⟨ho, ?_⟩
        simp only [Outcome, ← tally_eq_ballotTally hr hp ho]; exact hst
      · left
        have : p.currentStatus blk = .ok p.status := cs_of_ne_open (t := p.tally) ho
        rw [this] at hst; simpa using hst
  · rintro ⟨p, hp, hs | ⟨ho, hout⟩⟩
    · have : p.currentStatus blk = .ok .passed := by
        have h2 : p.currentStatus blk = .ok p.status := cs_of_ne_open (t := p.tally) (by simp [Proposal.tally, hs])
        rw [hs] at h2; exact h2
      simp [Cw3Fixed.execute, execExecute, Cw3Core.execute, load, hp, this, bind, Except.bind, check, pure, Except.pure, Res.isOk]
    · have : p.currentStatus blk = .ok .passed := by
        simp only [Outcome, ← tally_eq_ballotTally hr hp ho] at hout; exact hout
      simp [Cw3Fixed.execute, execExecute, Cw3Core.execute, load, hp, this, bind, Except.bind, check, pure, Except.pure, Res.isOk]

/-- C03 "… and Close": Close succeeds exactly when the proposal is stored Open, has expired, and
the outcome of its recorded ballots at the current block is not Passed (then it is Rejected). -/
theorem close_admits_iff_outcome {fuel : Nat} {w : World} (hr : Reachable fuel w) (blk : Block) (snd : Addr) (id : Nat) :
    (execute w.ms blk snd (.close id)).isOk = true ↔
      ∃ p, w.ms.core.proposals.get? id = some p ∧ p.status = .open ∧ p.expires.isExpired blk = true ∧
        Outcome p (ballotsOf w.ms.core id) blk = .ok .rejected := by
  have hi := reachable_inv hr
  constructor
  · intro h
    cases hx : execute w.ms blk snd (.close id) with
    | error e => rw [hx] at h; cases h
    | ok r =>
      obtain ⟨s', out⟩ := r
      obtain ⟨_, _, hc⟩ := execute_cases hx
      rcases hc with ⟨_, _, _, _, _, _, hm, _⟩ | ⟨_, _, hm, _⟩ | ⟨_, hm, _⟩ | ⟨id', hm, _, hcl⟩ <;> cases hm
      obtain ⟨p, st, hp, h1, h2, h3, hst, hne, hexp, _⟩ := close_spec hcl
      have h4 := hi.wf.notPending id p hp
      have ho : p.status = .open := by cases hs : p.status <;> simp_all
      refine ⟨p, hp, ho, hexp, ?_⟩
      simp only [Outcome, ← tally_eq_ballotTally hr hp ho]
      have hst' : Cw3.currentStatus p.tally blk = .ok st := hst
      rcases cs_of_open (t := p.tally) (by simp [Proposal.tally, ho]) hst' with ⟨_, rfl⟩ | ⟨_, rej, _, ⟨_, rfl⟩ | ⟨⟨_, hne'⟩, rfl⟩⟩
      · exact absurd rfl hne
      · exact hst'
      · simp [Proposal.tally] at hne'; rw [hexp] at hne'; cases hne'
  · rintro ⟨p, hp, ho, hexp, hout⟩
    have hst : p.currentStatus blk = .ok .rejected := by
      simp only [Outcome, ← tally_eq_ballotTally hr hp ho] at hout; exact hout
    simp [Cw3Fixed.execute, execClose, Cw3Core.close, load, hp, hst, ho, hexp, bind, Except.bind, check, pure, Except.pure, Res.isOk]

/-! ## never executable without Yes weight -/

/-- The library never reports Passed for a tally without Yes weight (the `yes == 0` guard). -/
theorem isPassed_needs_yes {t : Tally} {blk : Block} (h : Cw3.isPassed t blk = .ok true) : 0 < t.votes.yes := by
  unfold Cw3.isPassed at h
  split at h
  · cases h
  · omega

/-- Invariant: every proposal stored Passed or Executed has positive Yes weight in its tally. -/
def YesInv (s : State) : Prop :=
  Inv s ∧ ∀ id p, s.core.proposals.get? id = some p → (p.status = .passed ∨ p.status = .executed) → 0 < p.votes.yes

theorem cs_passed_yes {t : Tally} {blk : Block} {st : Status} (h : Cw3.currentStatus t blk = .ok st)
    (hs : st = .passed ∨ st = .executed) (hold : (t.status = .passed ∨ t.status = .executed) → 0 < t.votes.yes) :
    0 < t.votes.yes := by
  by_cases ho : t.status = .open
  · rcases cs_of_open ho h with ⟨hp, _⟩ | ⟨_, rej, _, ⟨_, rfl⟩ | ⟨_, rfl⟩⟩
    · exact isPassed_needs_yes hp
    · simp at hs
    · simp at hs
  · rw [cs_of_ne_open ho] at h; cases h; exact hold hs

theorem yes_step {s s' : State} {blk : Block} {snd : Addr} {m : ExecMsg} {out : List Msg}
    (hy : YesInv s) (h : execute s blk snd m = .ok (s', out)) : YesInv s' := by
  obtain ⟨hi, hy⟩ := hy
  refine ⟨execute_inv hi h, ?_⟩
  obtain ⟨_, _, hc⟩ := execute_cases h
  rcases hc with ⟨t, d, msgs, latest, w, id0, _, _, _, hp⟩ | ⟨id0, v, _, _, hv⟩ | ⟨id0, _, he⟩ | ⟨id0, _, _, hcl⟩
  · obtain ⟨expires, st, _, hst, _, _, hc'⟩ := propose_spec hp
    intro id p hp' hs
    rw [hc'] at hp'; simp only [AMap.get?_set] at hp'
    by_cases e : id0 = id
    · simp only [e, if_true, Option.some.injEq] at hp'; subst hp'
      exact cs_passed_yes hst hs (by simp [Proposal.tally])
    · simp only [e, if_false] at hp'; exact hy id p hp' hs
  · obtain ⟨p0, w, votes, st, hp0, _, _, _, _, _, hadd, hst, hc'⟩ := vote_spec hv
    intro id p hp' hs
    rw [hc'] at hp'; simp only [AMap.get?_set] at hp'
    by_cases e : id0 = id
    · simp only [e, if_true, Option.some.injEq] at hp'; subst hp'
      refine cs_passed_yes hst hs ?_
      intro hold
      have h0 := hy id0 p0 hp0 (by simpa [Proposal.tally] using hold)
      have := add_eq hadd
      simp only [Proposal.tally, this]; omega
    · simp only [e, if_false] at hp'; exact hy id p hp' hs
  · obtain ⟨p0, hp0, hst, _, _, hc'⟩ := execute_spec he
    intro id p hp' hs
    rw [hc'] at hp'; simp only [AMap.get?_set] at hp'
    by_cases e : id0 = id
    · simp only [e, if_true, Option.some.injEq] at hp'; subst hp'
      exact cs_passed_yes (t := p0.tally) hst (Or.inl rfl) (fun h => hy id0 p0 hp0 h)
    · simp only [e, if_false] at hp'; exact hy id p hp' hs
  · obtain ⟨p0, _, hp0, _, _, _, _, _, _, hc'⟩ := close_spec hcl
    intro id p hp' hs
    rw [hc'] at hp'; simp only [AMap.get?_set] at hp'
    by_cases e : id0 = id
    · simp only [e, if_true, Option.some.injEq] at hp'; subst hp'; simp at hs
    · simp only [e, if_false] at hp'; exact hy id p hp' hs

theorem reachable_yes {fuel : Nat} {w : World} (hr : Reachable fuel w) : YesInv w.ms := by
  obtain ⟨m, s, self, bank, sink, ops, hi, rfl⟩ := hr
  refine run_state_inv YesInv (fun _ _ _ _ _ _ hy h => yes_step hy h) fuel ops _ ⟨instantiate_inv hi, ?_⟩
  intro id p hp
  simp [instantiate] at hi
  obtain ⟨_, _, _, _, _, _, rfl⟩ := hi
  simp [World.init, Core.empty] at hp

/-- C03 "no proposal ever becomes executable with zero Yes weight": whenever Execute succeeds (in
any reachable state, at any block, by anybody), the Yes ballots recorded for the proposal have
positive total weight; the same holds for every proposal stored Passed or Executed. -/
theorem never_executable_without_yes {fuel : Nat} {w : World} (hr : Reachable fuel w) {blk : Block} {snd : Addr} {id : Nat}
    (h : (execute w.ms blk snd (.execute id)).isOk = true) : 0 < sumK .yes (ballotsOf w.ms.core id) := by
  obtain ⟨hi, hy⟩ := reachable_yes hr
  cases hx : execute w.ms blk snd (.execute id) with
  | error e => rw [hx] at h; cases h
  | ok r =>
    obtain ⟨s', out⟩ := r
    obtain ⟨_, _, hc⟩ := execute_cases hx
    rcases hc with ⟨_, _, _, _, _, _, hm, _⟩ | ⟨_, _, hm, _⟩ | ⟨id', hm, he⟩ | ⟨_, hm, _⟩ <;> cases hm
    obtain ⟨p, hp, hst, _⟩ := execute_spec he
    have := cs_passed_yes (t := p.tally) hst (Or.inl rfl) (fun h => hy id p hp h)
    have ht := hi.wf.tally id p hp
    simp only [Proposal.tally, ht, tallyOf] at this
    exact this

theorem passed_has_yes {fuel : Nat} {w : World} (hr : Reachable fuel w) {id : Nat} {p : Proposal}
    (hp : w.ms.core.proposals.get? id = some p) (hs : p.status = .passed ∨ p.status = .executed) :
    0 < sumK .yes (ballotsOf w.ms.core id) := by
  obtain ⟨hi, hy⟩ := reachable_yes hr
  have := hy id p hp hs
  rw [hi.wf.tally id p hp] at this
  exact this

/-! ## non-vacuity -/

/-- voters a:1, b:1, z:0; 51 % of the (non-abstaining) total -/
def exInst : InstMsg :=
  { voters := [(⟨true, "a"⟩, 1), (⟨true, "b"⟩, 1), (⟨true, "z"⟩, 0)],
    threshold := .absolutePercentage 510000000000000000, maxVotingPeriod := .height 10 }
def exState : State := match instantiate exInst with | .ok s => s | .error _ => default
def exBlk : Block := ⟨100, 1000⟩
def exWorld : World := World.init exState "ms" [] true
/-- the zero-weight member proposes, everybody else abstains -/
def exOps : List Op :=
  [⟨exBlk, .exec "z" (.propose "t" "d" [] none)⟩, ⟨exBlk, .exec "a" (.vote 1 .abstain)⟩, ⟨exBlk, .exec "b" (.vote 1 .abstain)⟩]

example : instantiate exInst = .ok exState := rfl
/-- all abstain ⇒ not Passed: Open until expiry, Rejected afterwards; Execute is refused -/
example : (match Cw3Fixed.queryProposal (run 10 exWorld exOps).ms exBlk 1 with
    | .ok v => v.status | .error _ => .pending) = .open := by decide
example : (match Cw3Fixed.queryProposal (run 10 exWorld exOps).ms ⟨110, 1000⟩ 1 with
    | .ok v => v.status | .error _ => .pending) = .rejected := by decide
example : (execute (run 10 exWorld exOps).ms ⟨110, 1000⟩ "a" (.execute 1)).isOk = false := by decide
/-- with a yes vote instead the proposal passes and is executable -/
example : (execute (run 10 exWorld (exOps.take 2 ++ [⟨exBlk, .exec "b" (.vote 1 .yes)⟩])).ms exBlk "x" (.execute 1)).isOk = true := by decide

end CwPlus.Props.C03
