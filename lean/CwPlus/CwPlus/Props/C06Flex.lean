import CwPlus.Lemmas.Cw3Flex
import CwPlus.Lemmas.Cw3FlexInv
import CwPlus.Lemmas.Cw3FlexAt
import CwPlus.Lemmas.Cw3StatusTotal
import CwPlus.Props.C09
/-!
# C06 — cw3: ballots are snapshot weights (cw3-flex-multisig part)

For the flex multisig the weight of a ballot is the voter's weight in the cw4-group *at the proposal's start
height* (`Member { addr, at_height: start_height }`, i.e. — by C09 — the weight at the start of the block in which
the proposal was created), and the proposal's `total_weight` should be the group total at that same point.

* `voter_ballot_is_snapshot`, `ballots_are_snapshot`: every voter's ballot carries exactly that snapshot weight
  (≥ 1), on every history of transactions at non-decreasing block heights — whatever happens to the group later.
* `later_changes_irrelevant`: a group transaction in the proposal's own block or later changes no proposal, no
  ballot and no at-height answer for any earlier-or-equal height.
* `proposer_and_total_are_snapshot_partial`: the proposer's ballot and `total_weight` are snapshot values **under
  the guard** that no group write in block `start_height` precedes the `Propose`.
* `C06_flex_counterexample`: without the guard the statement is FALSE of the code (defect D3, open known finding
  `C06/flex/propose-after-group-update-in-same-block`): `Propose` reads the group's *current* total and proposer
  weight.
-/
namespace CwPlus.Props.C06Flex
open CwPlus CwPlus.Cw3 CwPlus.Cw3Core CwPlus.Cw3Flex CwPlus.Snapshot

/-! ## voters -/

/-- **Voter ballots, handler level.**  A successful `Vote` records for the sender exactly the weight the group
reports for it at the proposal's start height, and that weight is at least 1. -/
theorem voter_ballot_is_snapshot {s s' : State} {g : Cw4Group.State} {self : Addr} {blk : Block} {snd : Addr}
    {funds : List Coin} {id : Nat} {v : Vote} {out : List Out}
    (h : Cw3Flex.execute s g self blk snd funds (.vote id v) = .ok (s', out)) :
    ∃ p w, s.core.proposals.get? id = some p ∧ memberAt g snd p.startHeight = some w ∧ 1 ≤ w ∧
      (ballotsOf s.core id).get? snd = none ∧ (ballotsOf s'.core id).get? snd = some ⟨w, v⟩ := by
  obtain ⟨_, hc⟩ := execute_cases h
  rcases hc with ⟨_, _, _, _, _, _, _, hm, _⟩ | ⟨id0, v0, hm, _, hv⟩ | ⟨_, _, _, hm, _⟩ | ⟨_, _, hm, _⟩ | ⟨hm, _⟩ <;> cases hm
  obtain ⟨p, w, votes, st, hp, _, _, hw, hw1, hnb, _, _, hc'⟩ := vote_spec hv
  refine ⟨p, w, hp, hw, hw1, hnb, ?_⟩
  rw [hc', ballotsOf_set]; simp

/-- The group's changelogs are bounded by `H`, every proposal started at or before `H`, and every ballot other
than the proposer's own carries the group's answer for its voter at the proposal's start height (≥ 1). -/
structure SnapInv (w : World) (H : Nat) : Prop where
  inv : Inv w.flex
  membersLe : w.group.members.LogLe H
  totalLe : w.group.total.LogLe H
  startLe : ∀ id p, w.flex.core.proposals.get? id = some p → p.startHeight ≤ H
  ballot : ∀ id p a b, w.flex.core.proposals.get? id = some p → (ballotsOf w.flex.core id).get? a = some b →
    a ≠ p.proposer → memberAt w.group a p.startHeight = some b.weight ∧ 1 ≤ b.weight

theorem SnapInv.mono {w : World} {H H' : Nat} (h : SnapInv w H) (hh : H ≤ H') : SnapInv w H' :=
  ⟨h.inv, h.membersLe.mono hh, h.totalLe.mono hh, fun id p hp => Nat.le_trans (h.startLe id p hp) hh, h.ballot⟩

/-- A flex handler call in block `H` keeps `SnapInv · H`. -/
theorem snap_flex {w : World} {blk : Block} {snd : Addr} {funds : List Coin} {em : ExecMsg} {s' : State} {out : List Out}
    (hq : SnapInv w blk.height) (he : Cw3Flex.execute w.flex w.group w.self blk snd funds em = .ok (s', out)) :
    SnapInv { w with flex := s', log := w.log ++ [eventOf w.flex snd em] } blk.height := by
  refine ⟨execute_inv hq.inv he, hq.membersLe, hq.totalLe, ?_, ?_⟩
  all_goals
    obtain ⟨_, hc⟩ := execute_cases he
    rcases hc with ⟨t, d, msgs, latest, w0, total, id0, _, _, _, _, _, hp⟩ | ⟨id0, v, _, _, hv⟩ | ⟨id0, p0, msgs, _, _, hex, _⟩ |
      ⟨id0, p0, _, _, hcl, _⟩ | ⟨_, _, rfl, _⟩
  -- startLe
  · obtain ⟨expires, st, _, _, hid, _, hc'⟩ := propose_spec hp
    intro id p hpp
    simp only [hc', AMap.get?_set] at hpp
    by_cases e : id0 = id
    · simp only [e, if_true, Option.some.injEq] at hpp; subst hpp; exact Nat.le_refl _
    · simp only [e, if_false] at hpp; exact hq.startLe id p hpp
  · obtain ⟨p1, w1, votes, st, hp1, _, _, _, _, _, _, _, hc'⟩ := vote_spec hv
    intro id p hpp
    simp only [hc', AMap.get?_set] at hpp
    by_cases e : id0 = id
    · simp only [e, if_true, Option.some.injEq] at hpp; subst hpp; subst e; exact hq.startLe id0 p1 hp1
    · simp only [e, if_false] at hpp; exact hq.startLe id p hpp
  · obtain ⟨p1, hp1, _, _, _, hc'⟩ := execute_spec hex
    intro id p hpp
    simp only [hc', AMap.get?_set] at hpp
    by_cases e : id0 = id
    · simp only [e, if_true, Option.some.injEq] at hpp; subst hpp; subst e; exact hq.startLe id0 p1 hp1
    · simp only [e, if_false] at hpp; exact hq.startLe id p hpp
  · obtain ⟨p1, _, hp1, _, _, _, _, _, _, hc'⟩ := close_spec hcl
    intro id p hpp
    simp only [hc', AMap.get?_set] at hpp
    by_cases e : id0 = id
    · simp only [e, if_true, Option.some.injEq] at hpp; subst hpp; subst e; exact hq.startLe id0 p1 hp1
    · simp only [e, if_false] at hpp; exact hq.startLe id p hpp
  · exact hq.startLe
  -- ballot
  · obtain ⟨expires, st, _, _, hid, _, hc'⟩ := propose_spec hp
    have hnone : w.flex.core.proposals.get? id0 = none := hq.inv.wf.fresh (by omega)
    have hb0 : ballotsOf w.flex.core id0 = [] := hq.inv.wf.noBallots id0 hnone
    intro id p a b hpp hb hne
    simp only [hc', AMap.get?_set] at hpp
    simp only [hc', ballotsOf_set] at hb
    by_cases e : id0 = id
    · simp only [e, if_true, Option.some.injEq] at hpp hb
      rw [← e, hb0] at hb
      simp [AMap.set, AMap.get?] at hb
      subst hpp
      exact absurd hb.1.symm hne
    · simp only [e, if_false] at hpp hb; exact hq.ballot id p a b hpp hb hne
  · obtain ⟨p1, w1, votes, st, hp1, _, _, hw, hw1, hnb, _, _, hc'⟩ := vote_spec hv
    intro id p a b hpp hb hne
    simp only [hc', AMap.get?_set] at hpp
    simp only [hc', ballotsOf_set] at hb
    by_cases e : id0 = id
    · simp only [e, if_true, Option.some.injEq] at hpp hb
      subst hpp; subst e
      rw [AMap.get?_set] at hb
      by_cases ea : snd = a
      · simp only [ea, if_true, Option.some.injEq] at hb; subst hb; subst ea; exact ⟨hw, hw1⟩
      · simp only [ea, if_false] at hb; exact hq.ballot id0 p1 a b hp1 hb hne
    · simp only [e, if_false] at hpp hb; exact hq.ballot id p a b hpp hb hne
  · obtain ⟨p1, hp1, _, _, _, hc'⟩ := execute_spec hex
    intro id p a b hpp hb hne
    simp only [hc', AMap.get?_set] at hpp
    simp only [hc', ballotsOf_frame] at hb
    by_cases e : id0 = id
    · simp only [e, if_true, Option.some.injEq] at hpp; subst hpp; subst e; exact hq.ballot id0 p1 a b hp1 hb hne
    · simp only [e, if_false] at hpp; exact hq.ballot id p a b hpp hb hne
  · obtain ⟨p1, _, hp1, _, _, _, _, _, _, hc'⟩ := close_spec hcl
    intro id p a b hpp hb hne
    simp only [hc', AMap.get?_set] at hpp
    simp only [hc', ballotsOf_frame] at hb
    by_cases e : id0 = id
    · simp only [e, if_true, Option.some.injEq] at hpp; subst hpp; subst e; exact hq.ballot id0 p1 a b hp1 hb hne
    · simp only [e, if_false] at hpp; exact hq.ballot id p a b hpp hb hne
  · exact hq.ballot

/-- A group call in block `H` keeps `SnapInv · H`: its writes are invisible at every height `≤ H`. -/
theorem snap_group {w : World} {blk : Block} {snd : Addr} {m : Cw4Group.Msg} {g' : Cw4Group.State} {outs : List Cw4Group.Out}
    (hq : SnapInv w blk.height) (hg : Cw4Group.execute w.group blk.height snd m = .ok (g', outs)) :
    SnapInv { w with group := g', log := w.log ++ [.groupWrite blk.height] } blk.height := by
  have hs := CwPlus.Props.C09.execute_sameBlock hg
  refine ⟨hq.inv, hs.1.logLe hq.membersLe (Nat.le_refl _), hs.2.logLe hq.totalLe (Nat.le_refl _), hq.startLe, ?_⟩
  intro id p a b hp hb hne
  have := hq.ballot id p a b hp hb hne
  refine ⟨?_, this.2⟩
  show g'.members.atHeight a p.startHeight = some b.weight
  rw [hs.1.atHeight_le hq.membersLe a (hq.startLe id p hp)]
  exact this.1

theorem snap_step (ext : Ext) (fuel : Nat) {w : World} {H : Nat} (op : Op) (hq : SnapInv w H) (hH : H ≤ op.blk.height) :
    SnapInv (step ext fuel w op) op.blk.height := by
  have hq' := hq.mono hH
  unfold step
  split
  · rename_i w' htx
    exact tx_inv ext (fun w => SnapInv w op.blk.height) op.blk
      (fun w snd funds em s' out hq he => snap_flex hq he)
      (fun w snd m g' outs hq hg => snap_group hq hg)
      (fun w b hq => ⟨hq.inv, hq.membersLe, hq.totalLe, hq.startLe, hq.ballot⟩)
      (fun w t hq => ⟨hq.inv, hq.membersLe, hq.totalLe, hq.startLe, hq.ballot⟩) hq' htx
  · exact hq'

/-- Block heights never decrease along a history. -/
def Ordered (ops : List Op) : Prop := ops.Pairwise (fun a b => a.blk.height ≤ b.blk.height)

theorem snap_run (ext : Ext) (fuel : Nat) (ops : List Op) : ∀ (w : World) (H : Nat), SnapInv w H →
    (∀ op ∈ ops, H ≤ op.blk.height) → Ordered ops → ∃ H', SnapInv (run ext fuel w ops) H' := by
  induction ops with
  | nil => intro w H hq _ _; exact ⟨H, hq⟩
  | cons op rest ih =>
    intro w H hq hge hord
    have hp := List.pairwise_cons.mp hord
    exact ih _ op.blk.height (snap_step ext fuel op hq (hge op (by simp)))
      (fun o ho => hp.1 o ho) hp.2

/-- **Voter ballots are snapshot weights, over every history.**  Instantiate the multisig on a group whose
changelogs are bounded by `H0`, run any history of transactions (on the multisig, the group, the token; nested
dispatches included) at non-decreasing block heights `≥ H0`.  Then every ballot of every proposal, other than
the proposer's own first Yes, carries exactly the weight the group — in its *final* state, i.e. after all the
membership changes of the history — reports for the voter at the proposal's start height, and that weight is ≥ 1. -/
theorem ballots_are_snapshot {ext : Ext} {fuel : Nat} {m : InstMsg} {s : State} {g : Cw4Group.State} {t : Cw20.State}
    {bank : AMap (Addr × String) Nat} {self ga ta : Addr} {H0 : Nat}
    (hi : instantiate m (some g) = .ok s) (hgm : g.members.LogLe H0) (hgt : g.total.LogLe H0)
    (ops : List Op) (hge : ∀ op ∈ ops, H0 ≤ op.blk.height) (hord : Ordered ops)
    {id : Nat} {p : Proposal} {a : Addr} {b : Ballot} :
    let w := run ext fuel (World.init s g t bank self ga ta H0) ops
    w.flex.core.proposals.get? id = some p → (ballotsOf w.flex.core id).get? a = some b → a ≠ p.proposer →
      memberAt w.group a p.startHeight = some b.weight ∧ 1 ≤ b.weight := by
  intro w hp hb hne
  have h0 : SnapInv (World.init s g t bank self ga ta H0) H0 := by
    have hinv := instantiate_inv hi
    refine ⟨hinv, hgm, hgt, ?_, ?_⟩
    · intro id p hp
      have : s.core = Core.empty := by
        simp only [instantiate, Res.bind_ok] at hi
        obtain ⟨_, _, _, _, _, _, _, _, hi⟩ := hi
        simp at hi; subst hi; rfl
      simp [World.init, this, Core.empty] at hp
    · intro id p a b hp
      have : s.core = Core.empty := by
        simp only [instantiate, Res.bind_ok] at hi
        obtain ⟨_, _, _, _, _, _, _, _, hi⟩ := hi
        simp at hi; subst hi; rfl
      simp [World.init, this, Core.empty] at hp
  obtain ⟨H', hq⟩ := snap_run ext fuel ops _ H0 h0 hge hord
  exact hq.ballot id p a b hp hb hne

/-! ## one ballot per address, the voting window, who may propose (parity with the cw3-fixed part) -/

/-- **At most one ballot per address and proposal** (clause a): the ballot map of every proposal of a reachable world
has no repeated key … -/
theorem one_ballot {ext : Ext} {fuel : Nat} {w : World} (hr : Reachable ext fuel w) (id : Nat) :
    AMap.NodupKeys (ballotsOf w.flex.core id) :=
  (reachable_inv hr).wf.nodup id

/-- … and a second vote of the same address on the same proposal is refused (`AlreadyVoted`), whatever the group says.
(A recorded ballot never changes: `C05Flex.ballot_never_changes`.) -/
theorem vote_twice_fails {s : State} {g : Cw4Group.State} {self : Addr} {blk : Block} {snd : Addr} {funds : List Coin}
    {id : Nat} {v : Vote} {b : Ballot} (hb : (ballotsOf s.core id).get? snd = some b) :
    (Cw3Flex.execute s g self blk snd funds (.vote id v)).isOk = false := by
  cases h : Cw3Flex.execute s g self blk snd funds (.vote id v) with
  | error e => rfl
  | ok r =>
    obtain ⟨s', out⟩ := r
    obtain ⟨_, _, _, _, _, hnb, _⟩ := voter_ballot_is_snapshot h
    rw [hb] at hnb; cases hnb

/-- **Cast before expiry on a proposal not yet executed** (clause b): a Vote is accepted only while the proposal is
not expired at the current block and its stored status is Open, Passed or Rejected (never Executed); the ballot then
records exactly the weight the group reports for the sender at the proposal's start height, which is ≥ 1. -/
theorem vote_requires_open_window {s s' : State} {g : Cw4Group.State} {self : Addr} {blk : Block} {snd : Addr}
    {funds : List Coin} {id : Nat} {v : Vote} {out : List Out}
    (h : Cw3Flex.execute s g self blk snd funds (.vote id v) = .ok (s', out)) :
    ∃ p w, s.core.proposals.get? id = some p ∧ p.expires.isExpired blk = false ∧
      (p.status = .open ∨ p.status = .passed ∨ p.status = .rejected) ∧ p.status ≠ .executed ∧
      memberAt g snd p.startHeight = some w ∧ 1 ≤ w ∧ (ballotsOf s.core id).get? snd = none ∧
      (ballotsOf s'.core id).get? snd = some ⟨w, v⟩ := by
  obtain ⟨_, hc⟩ := execute_cases h
  rcases hc with ⟨_, _, _, _, _, _, _, hm, _⟩ | ⟨id0, v0, hm, _, hv⟩ | ⟨_, _, _, hm, _⟩ | ⟨_, _, hm, _⟩ | ⟨hm, _⟩ <;> cases hm
  obtain ⟨p, w, votes, st, hp, hvot, hexp, hw, hw1, hnb, _, _, hc'⟩ := vote_spec hv
  refine ⟨p, w, hp, hexp, ?_, ?_, hw, hw1, hnb, ?_⟩
  · cases hs : p.status <;> simp_all [votable]
  · cases hs : p.status <;> simp_all [votable]
  · rw [hc', ballotsOf_set]; simp

/-- **Addresses with no (or zero) snapshot weight cannot vote** (clause d). -/
theorem zero_weight_cannot_vote {s : State} {g : Cw4Group.State} {self : Addr} {blk : Block} {snd : Addr} {funds : List Coin}
    {id : Nat} {v : Vote} {p : Proposal} (hp : s.core.proposals.get? id = some p)
    (hz : (memberAt g snd p.startHeight).getD 0 = 0) : (Cw3Flex.execute s g self blk snd funds (.vote id v)).isOk = false := by
  cases h : Cw3Flex.execute s g self blk snd funds (.vote id v) with
  | error e => rfl
  | ok r =>
    obtain ⟨s', out⟩ := r
    obtain ⟨p', w, hp', _, _, _, hw, hw1, _⟩ := vote_requires_open_window h
    rw [hp] at hp'; cases hp'
    rw [hw] at hz; simp at hz; omega

/-- **A non-member of the group cannot propose** (clause d): `Propose` needs a current raw `members` entry of the sender
(its weight may be 0). -/
theorem outsider_cannot_propose {s : State} {g : Cw4Group.State} {self : Addr} {blk : Block} {snd : Addr} {funds : List Coin}
    {t d : String} {msgs : List Msg} {latest : Option Expiration} (hz : memberNow g snd = none) :
    (Cw3Flex.execute s g self blk snd funds (.propose t d msgs latest)).isOk = false := by
  cases h : Cw3Flex.execute s g self blk snd funds (.propose t d msgs latest) with
  | error e => rfl
  | ok r =>
    obtain ⟨s', out⟩ := r
    obtain ⟨_, hc⟩ := execute_cases h
    rcases hc with ⟨_, _, _, _, w, _, _, hm, hw, _⟩ | ⟨_, _, hm, _⟩ | ⟨_, _, _, hm, _⟩ | ⟨_, _, hm, _⟩ | ⟨hm, _⟩ <;> cases hm
    rw [hz] at hw; cases hw

/-- Every proposal's proposer holds a Yes ballot (the implicit first vote), and every other ballot weighs ≥ 1. -/
def BallotInv (s : State) : Prop :=
  Inv s ∧ (∀ id p, s.core.proposals.get? id = some p → ∃ w, (ballotsOf s.core id).get? p.proposer = some ⟨w, .yes⟩) ∧
    ∀ id p a b, s.core.proposals.get? id = some p → (ballotsOf s.core id).get? a = some b → a ≠ p.proposer → 1 ≤ b.weight

theorem ballotInv_step {s s' : State} {g : Cw4Group.State} {self : Addr} {blk : Block} {snd : Addr} {funds : List Coin}
    {m : ExecMsg} {out : List Out} (hq : BallotInv s) (h : Cw3Flex.execute s g self blk snd funds m = .ok (s', out)) :
    BallotInv s' := by
  obtain ⟨hi, hy, hw⟩ := hq
  refine ⟨execute_inv hi h, ?_, ?_⟩
  all_goals
    obtain ⟨_, hc⟩ := execute_cases h
    rcases hc with ⟨t, d, msgs, latest, w0, total, id0, _, _, _, _, _, hp⟩ | ⟨id0, v, _, _, hv⟩ | ⟨id0, p0, msgs, _, _, hex, _⟩ |
      ⟨id0, p0, _, _, hcl, _⟩ | ⟨_, _, rfl, _⟩
  · obtain ⟨expires, st, _, _, hid, _, hc'⟩ := propose_spec hp
    have hnone : s.core.proposals.get? id0 = none := hi.wf.fresh (by omega)
    have hb0 : ballotsOf s.core id0 = [] := hi.wf.noBallots id0 hnone
    intro id p hpp
    simp only [hc', AMap.get?_set] at hpp
    simp only [hc', ballotsOf_set]
    by_cases e : id0 = id
    · simp only [e, if_true, Option.some.injEq] at hpp ⊢
      rw [← e, hb0]; subst hpp
      exact ⟨w0, by simp [AMap.set, AMap.get?]⟩
    · simp only [e, if_false] at hpp ⊢; exact hy id p hpp
  · obtain ⟨p1, w1, votes, st, hp1, _, _, _, _, hnb, _, _, hc'⟩ := vote_spec hv
    intro id p hpp
    simp only [hc', AMap.get?_set] at hpp
    simp only [hc', ballotsOf_set]
    by_cases e : id0 = id
    · simp only [e, if_true, Option.some.injEq] at hpp ⊢
      subst hpp; subst e
      obtain ⟨w, hb⟩ := hy id0 p1 hp1
      refine ⟨w, ?_⟩
      simp only
      rw [AMap.get?_set]
      by_cases ea : snd = p1.proposer
      · rw [ea] at hnb; rw [hnb] at hb; cases hb
      · simp only [ea, if_false]; exact hb
    · simp only [e, if_false] at hpp ⊢; exact hy id p hpp
  · obtain ⟨p1, hp1, _, _, _, hc'⟩ := execute_spec hex
    intro id p hpp
    simp only [hc', AMap.get?_set] at hpp
    simp only [hc', ballotsOf_frame]
    by_cases e : id0 = id
    · simp only [e, if_true, Option.some.injEq] at hpp; subst hpp; subst e; exact hy id0 p1 hp1
    · simp only [e, if_false] at hpp; exact hy id p hpp
  · obtain ⟨p1, _, hp1, _, _, _, _, _, _, hc'⟩ := close_spec hcl
    intro id p hpp
    simp only [hc', AMap.get?_set] at hpp
    simp only [hc', ballotsOf_frame]
    by_cases e : id0 = id
    · simp only [e, if_true, Option.some.injEq] at hpp; subst hpp; subst e; exact hy id0 p1 hp1
    · simp only [e, if_false] at hpp; exact hy id p hpp
  · exact hy
  · obtain ⟨expires, st, _, _, hid, _, hc'⟩ := propose_spec hp
    have hnone : s.core.proposals.get? id0 = none := hi.wf.fresh (by omega)
    have hb0 : ballotsOf s.core id0 = [] := hi.wf.noBallots id0 hnone
    intro id p a b hpp hb hne
    simp only [hc', AMap.get?_set] at hpp
    simp only [hc', ballotsOf_set] at hb
    by_cases e : id0 = id
    · simp only [e, if_true, Option.some.injEq] at hpp hb
      rw [← e, hb0] at hb
      simp [AMap.set, AMap.get?] at hb
      subst hpp
      exact absurd hb.1.symm hne
    · simp only [e, if_false] at hpp hb; exact hw id p a b hpp hb hne
  · obtain ⟨p1, w1, votes, st, hp1, _, _, _, hw1, hnb, _, _, hc'⟩ := vote_spec hv
    intro id p a b hpp hb hne
    simp only [hc', AMap.get?_set] at hpp
    simp only [hc', ballotsOf_set] at hb
    by_cases e : id0 = id
    · simp only [e, if_true, Option.some.injEq] at hpp hb
      subst hpp; subst e
      rw [AMap.get?_set] at hb
      by_cases ea : snd = a
      · simp only [ea, if_true, Option.some.injEq] at hb; subst hb; exact hw1
      · simp only [ea, if_false] at hb; exact hw id0 p1 a b hp1 hb hne
    · simp only [e, if_false] at hpp hb; exact hw id p a b hpp hb hne
  · obtain ⟨p1, hp1, _, _, _, hc'⟩ := execute_spec hex
    intro id p a b hpp hb hne
    simp only [hc', AMap.get?_set] at hpp
    simp only [hc', ballotsOf_frame] at hb
    by_cases e : id0 = id
    · simp only [e, if_true, Option.some.injEq] at hpp; subst hpp; subst e; exact hw id0 p1 a b hp1 hb hne
    · simp only [e, if_false] at hpp; exact hw id p a b hpp hb hne
  · obtain ⟨p1, _, hp1, _, _, _, _, _, _, hc'⟩ := close_spec hcl
    intro id p a b hpp hb hne
    simp only [hc', AMap.get?_set] at hpp
    simp only [hc', ballotsOf_frame] at hb
    by_cases e : id0 = id
    · simp only [e, if_true, Option.some.injEq] at hpp; subst hpp; subst e; exact hw id0 p1 a b hp1 hb hne
    · simp only [e, if_false] at hpp; exact hw id p a b hpp hb hne
  · exact hw

theorem reachable_ballotInv {ext : Ext} {fuel : Nat} {w : World} (hr : Reachable ext fuel w) : BallotInv w.flex := by
  obtain ⟨m, s, g, t, bank, self, ga, ta, h0, ops, hi, rfl⟩ := hr
  refine run_state_inv ext BallotInv (fun _ _ _ _ _ _ _ _ _ hq h => ballotInv_step hq h) fuel ops _
    ⟨instantiate_inv hi, ?_, ?_⟩
  · intro id p hp; simp [World.init, instantiate_core hi, Core.empty] at hp
  · intro id p a b hp; simp [World.init, instantiate_core hi, Core.empty] at hp

/-- **The proposer's ballot is a Yes** in every reachable world (any history, any block order): the implicit first
vote recorded by `Propose`, never changed since the proposer cannot vote again. -/
theorem proposer_ballot_is_yes {ext : Ext} {fuel : Nat} {w : World} (hr : Reachable ext fuel w) {id : Nat} {p : Proposal}
    (hp : w.flex.core.proposals.get? id = some p) : ∃ wt, (ballotsOf w.flex.core id).get? p.proposer = some ⟨wt, .yes⟩ :=
  (reachable_ballotInv hr).2.1 id p hp

/-- **Only the proposer's implicit Yes may carry zero weight** (clause d): every recorded ballot has weight ≥ 1 or is
the Yes ballot of the proposal's proposer. -/
theorem zero_weight_ballot_is_proposers_yes {ext : Ext} {fuel : Nat} {w : World} (hr : Reachable ext fuel w)
    {id : Nat} {p : Proposal} {a : Addr} {b : Ballot}
    (hp : w.flex.core.proposals.get? id = some p) (hb : (ballotsOf w.flex.core id).get? a = some b) :
    1 ≤ b.weight ∨ (a = p.proposer ∧ b.vote = .yes) := by
  by_cases e : a = p.proposer
  · right
    obtain ⟨wt, hy⟩ := proposer_ballot_is_yes hr hp
    subst e; rw [hb] at hy; cases hy; exact ⟨rfl, rfl⟩
  · exact Or.inl ((reachable_ballotInv hr).2.2 id p a b hp hb e)

/-! ## later changes of the group -/

/-- Dispatching the group's hook messages never changes the multisig, the group, the bank or the token
(`MemberChangedHook` is a no-op that only checks its sender). -/
theorem dispatch_hooks (ext : Ext) (blk : Block) : ∀ (fuel : Nat) (w w' : World) (hooks : List Addr),
    dispatch ext fuel w blk (hooks.map Out.groupHook) = .ok w' →
    w'.flex = w.flex ∧ w'.group = w.group ∧ w'.bank = w.bank ∧ w'.token = w.token
  | _, w, w', [], h => by simp [dispatch] at h; subst h; simp
  | 0, w, w', _ :: _, h => by simp [dispatch] at h
  | fuel + 1, w, w', hook :: rest, h => by
    simp only [List.map_cons, dispatch, Res.bind_ok] at h
    obtain ⟨w1, h1, h2⟩ := h
    split at h1
    · simp only [Res.bind_ok] at h1
      obtain ⟨⟨s', out⟩, he, hd⟩ := h1
      simp [Cw3Flex.execute, execHook] at he
      obtain ⟨_, rfl, rfl⟩ := he
      have hw1 : w1 = { w with log := w.log ++ [.hook] } := by
        cases fuel <;> simp [dispatch] at hd <;> exact hd.symm
      have := dispatch_hooks ext blk fuel w1 w' rest h2
      subst hw1
      simpa using this
    · simp at h1

/-- **Later changes are irrelevant.**  A committed group transaction in block `hb` — with every earlier group write
at a height `≤ hb`, as in every history with non-decreasing heights — changes no proposal, no tally, no ballot and
no configuration of the multisig, and leaves the group's answers `Member { addr, at_height: h }` and
`TotalWeight { at_height: h }` unchanged for every `h ≤ hb`: in particular for the start height of every existing
proposal, so the weights of future ballots, the recorded totals and hence every outcome are unaffected. -/
theorem later_changes_irrelevant {ext : Ext} {fuel : Nat} {w w' : World} {blk : Block} {snd : Addr} {m : Cw4Group.Msg}
    (hm : w.group.members.LogLe blk.height) (ht : w.group.total.LogLe blk.height)
    (h : tx ext fuel w blk (.group snd m) = .ok w') :
    w'.flex = w.flex ∧
    (∀ a h, h ≤ blk.height → memberAt w'.group a h = memberAt w.group a h) ∧
    (∀ h, h ≤ blk.height → Cw4Group.queryTotalWeight w'.group (some h) = Cw4Group.queryTotalWeight w.group (some h)) := by
  simp only [tx, Res.bind_ok] at h
  obtain ⟨⟨g', outs⟩, hg, hd⟩ := h
  have hs := CwPlus.Props.C09.execute_sameBlock hg
  have hmap : outs.map (fun o => Out.groupHook o.hook) = (outs.map (·.hook)).map Out.groupHook := by simp
  rw [hmap] at hd
  obtain ⟨hf, hgr, _, _⟩ := dispatch_hooks ext blk fuel _ w' _ hd
  refine ⟨hf, ?_, ?_⟩
  · intro a h hh
    simp only [memberAt, hgr]
    exact hs.1.atHeight_le hm a hh
  · intro h hh
    simp only [Cw4Group.queryTotalWeight, hgr]
    rw [hs.2.atHeight_le ht hh]

/-! ## proposer and total -/

/-- **Proposer's ballot and `total_weight`, partial** (guard: no group write in block `start_height` precedes the
`Propose`, i.e. every changelog entry of the group is from an earlier block).  Then the new proposal's
`total_weight` is the group's `TotalWeight { at_height: start_height }` and the proposer's ballot carries the group's
`Member { proposer, at_height: start_height }` — the same snapshot the voters' ballots use. -/
theorem proposer_and_total_are_snapshot_partial {s s' : State} {g : Cw4Group.State} {self : Addr} {blk : Block} {snd : Addr}
    {funds : List Coin} {t d : String} {msgs : List Msg} {latest : Option Expiration} {out : List Out} {B : Nat}
    (h : Cw3Flex.execute s g self blk snd funds (.propose t d msgs latest) = .ok (s', out))
    (hgm : g.members.LogLe B) (hgt : g.total.LogLe B) (hB : B < blk.height) :
    ∃ p w, s'.core.proposals.get? (s.core.count + 1) = some p ∧ p.startHeight = blk.height ∧ p.proposer = snd ∧
      p.totalWeight = Cw4Group.queryTotalWeight g (some p.startHeight) ∧
      (ballotsOf s'.core (s.core.count + 1)).get? snd = some ⟨w, .yes⟩ ∧
      memberAt g snd p.startHeight = some w := by
  obtain ⟨_, hc⟩ := execute_cases h
  rcases hc with ⟨t', d', msgs', latest', w, total, id, hm, hw, htot, _, _, hp⟩ | ⟨_, _, hm, _⟩ | ⟨_, _, _, hm, _⟩ |
    ⟨_, _, hm, _⟩ | ⟨hm, _⟩ <;> cases hm
  obtain ⟨expires, st, _, _, hid, _, hc'⟩ := propose_spec hp
  subst hid
  refine ⟨_, w, by rw [hc']; exact AMap.get?_set_eq _ _ _, rfl, rfl, ?_, ?_, ?_⟩
  · show total = Cw4Group.queryTotalWeight g (some blk.height)
    simp only [Cw4Group.queryTotalWeight]
    rw [Cell.atHeight_of_logLe hgt hB, htot]; rfl
  · rw [hc', ballotsOf_set]; simp
  · show g.members.atHeight snd blk.height = some w
    rw [SnapMap.atHeight_of_logLe hgm hB snd]; exact hw

/-! ## the unguarded statement is false: D3 -/

namespace Cex

def group0 : Cw4Group.State :=
  match Cw4Group.instantiate ⟨some ⟨true, "adm"⟩, [(⟨true, "a"⟩, 1), (⟨true, "b"⟩, 4)]⟩ 5 with
  | .ok g => g
  | .error _ => Cw4Group.State.empty

def token0 : Cw20.State :=
  { supply := 0, mint := none, balances := [], allow := [], allowSp := [], version := ⟨"crates.io:cw20-base", 2, 0, 0, none⟩ }

def inst : InstMsg :=
  { group := ⟨true, "grp"⟩, threshold := .absoluteCount 4, maxVotingPeriod := .height 5, executor := none, deposit := none }

def flex0 : State := match instantiate inst (some group0) with | .ok s => s | .error _ => default

def world0 : World := World.init flex0 group0 token0 [] "ms" "grp" "tok" 5

def noExt : Ext := fun _ => none

/-- In block 10 the group admin raises `a` from 1 to 3, then — still in block 10 — `a` proposes;
in block 11 `b` votes with its snapshot weight. -/
def ops : List Op :=
  [⟨⟨10, 0⟩, .group "adm" (.updateMembers [] [(⟨true, "a"⟩, 3)])⟩,
   ⟨⟨10, 0⟩, .flex "a" [] (.propose "t" "d" [] none)⟩,
   ⟨⟨11, 0⟩, .flex "b" [] (.vote 1 .no)⟩]

def final : World := run noExt 10 world0 ops

end Cex

example : instantiate Cex.inst (some Cex.group0) = .ok Cex.flex0 := rfl
example : Ordered Cex.ops ∧ ∀ op ∈ Cex.ops, 5 ≤ op.blk.height := by unfold Ordered; decide

/-- **D3, machine-checked.**  Group update and `Propose` in the same block (10): the proposal records
`total_weight = 7` and a proposer ballot of weight 3 — the values *after* the update — although the group's
snapshot at the proposal's start height says total 5 and weight 1 for the proposer; the voter `b` votes with its
snapshot weight 4.  The unguarded "proposer's ballot and total are snapshot values" is false of the code. -/
theorem C06_flex_counterexample :
    ((Cex.final.flex.core.proposals.get? 1).map fun p => (p.startHeight, p.totalWeight)) = some (10, 7) ∧
    Cw4Group.queryTotalWeight Cex.final.group (some 10) = 5 ∧
    ((ballotsOf Cex.final.flex.core 1).get? "a").map (·.weight) = some 3 ∧
    memberAt Cex.final.group "a" 10 = some 1 ∧
    ((ballotsOf Cex.final.flex.core 1).get? "b").map (·.weight) = some 4 ∧
    memberAt Cex.final.group "b" 10 = some 4 := by
  decide

/-- Non-vacuity of the guarded theorem: the same `Propose` one block later (no group write in block 11 before
it) records the snapshot values. -/
example :
    let w := run Cex.noExt 10 Cex.world0 [Cex.ops.head!, ⟨⟨11, 0⟩, .flex "a" [] (.propose "t" "d" [] none)⟩]
    ((w.flex.core.proposals.get? 1).map fun p => (p.startHeight, p.totalWeight)) = some (11, 7) ∧
    Cw4Group.queryTotalWeight w.group (some 11) = 7 ∧
    ((ballotsOf w.flex.core 1).get? "a").map (·.weight) = some 3 ∧ memberAt w.group "a" 11 = some 3 := by
  decide

/-! ## history level: proposer and total are snapshot values, ballots never outweigh the total — under the guard

The guard `CleanStart w.log id p.startHeight` (Lemmas/Cw3FlexInv.lean) reads the ghost log: no group write at the
proposal's start height precedes the `Propose` that created it.  It is exactly the complement of the known
same-block finding (D3, `C06_flex_counterexample`).  Everything below is an invariant of whole histories with
non-decreasing block heights, nested dispatches (group updates sent by proposals, hooks, self-calls) included. -/

/-- At height `h` the group's snapshot is a membership map `M` without repeated keys whose weights sum to `total`
(a `u64`): `Member { a, at_height: h }` answers `M.get? a` for every address, `TotalWeight { at_height: h }` answers
`total`. -/
def Snapshotted (g : Cw4Group.State) (h total : Nat) : Prop :=
  ∃ M : AMap Addr Nat, AMap.NodupKeys M ∧ AMap.sum M = total ∧ total ≤ U64_MAX ∧
    (∀ a, memberAt g a h = M.get? a) ∧ g.total.atHeight h = some total

/-- `SnapInv` plus: the strengthened state invariant `Inv'`; the group satisfies the cw4-group invariant of C09
(total = Σ weights, one entry per member, `u64`); if no group write happened in block `H` yet, the group's changelogs
end before `H`; and for every proposal whose creation is not preceded by a group write in its own block
(`CleanStart`): its `total_weight` and the membership at its start height form a `Snapshotted` snapshot, and the
proposer's ballot carries the proposer's snapshot weight. -/
structure TotalInv (w : World) (H : Nat) : Prop where
  snap : SnapInv w H
  inv' : Inv' w.flex
  grp : CwPlus.Props.C09.Inv w.group
  fresh : Event.groupWrite H ∉ w.log → ∃ B, B < H ∧ w.group.members.LogLe B ∧ w.group.total.LogLe B
  total : ∀ id p, w.flex.core.proposals.get? id = some p → CleanStart w.log id p.startHeight →
    Snapshotted w.group p.startHeight p.totalWeight
  propBallot : ∀ id p b, w.flex.core.proposals.get? id = some p → CleanStart w.log id p.startHeight →
    (ballotsOf w.flex.core id).get? p.proposer = some b → memberAt w.group p.proposer p.startHeight = some b.weight

theorem TotalInv.mono {w : World} {H H' : Nat} (h : TotalInv w H) (hh : H ≤ H') : TotalInv w H' := by
  refine ⟨h.snap.mono hh, h.inv', h.grp, ?_, h.total, h.propBallot⟩
  intro hn
  by_cases e : H = H'
  · subst e; exact h.fresh hn
  · exact ⟨H, by omega, h.snap.membersLe, h.snap.totalLe⟩

/-- A flex handler call in block `H` keeps `TotalInv · H`. -/
theorem total_flex {w : World} {blk : Block} {snd : Addr} {funds : List Coin} {em : ExecMsg} {s' : State} {out : List Out}
    (hq : TotalInv w blk.height) (he : Cw3Flex.execute w.flex w.group w.self blk snd funds em = .ok (s', out)) :
    TotalInv { w with flex := s', log := w.log ++ [eventOf w.flex snd em] } blk.height := by
  have hnw : ∀ h, Event.groupWrite h ∉ w.log ++ [eventOf w.flex snd em] → Event.groupWrite h ∉ w.log :=
    fun h hn hm => hn (List.mem_append_left _ hm)
  refine ⟨snap_flex hq.snap he, execute_inv' hq.inv' he, hq.grp, fun hn => hq.fresh (hnw _ hn), ?_, ?_⟩
  all_goals
    obtain ⟨_, hc⟩ := execute_cases he
    rcases hc with ⟨t, d, msgs, latest, w0, total, id0, hem, hw0, htot, _, _, hp⟩ | ⟨id0, v, hem, _, hv⟩ |
      ⟨id0, p0, msgs, hem, _, hex, _⟩ | ⟨id0, p0, hem, _, hcl, _⟩ | ⟨hem, _, rfl, _⟩
  -- total
  · obtain ⟨expires, st, _, _, hid, _, hc'⟩ := propose_spec hp
    intro id p hpp hcl
    rw [cleanStart_snoc] at hcl
    simp only [hc', AMap.get?_set] at hpp
    by_cases e : id0 = id
    · simp only [e, if_true, Option.some.injEq] at hpp; subst hpp
      simp only
      have hnot := hcl.1 ((eventOf_isProposed _ _ _ _).mpr ⟨⟨t, d, msgs, latest, hem⟩, by omega⟩)
      obtain ⟨B, hB, hm, ht⟩ := hq.fresh hnot
      obtain ⟨hsum, hnd, hu⟩ := hq.grp
      have htotal : total = AMap.sum w.group.members.cur := by
        rw [hsum] at htot; exact (Option.some.inj htot).symm
      refine ⟨w.group.members.cur, hnd, htotal.symm, by omega, ?_, ?_⟩
      · intro a
        show w.group.members.atHeight a blk.height = _
        rw [SnapMap.atHeight_of_logLe hm hB a]; rfl
      · rw [Cell.atHeight_of_logLe ht hB]; exact htot
    · simp only [e, if_false] at hpp; exact hq.total id p hpp hcl.2
  · obtain ⟨p1, w1, votes, st, hp1, _, _, _, _, _, _, _, hc'⟩ := vote_spec hv
    intro id p hpp hcl
    rw [cleanStart_snoc] at hcl
    simp only [hc', AMap.get?_set] at hpp
    by_cases e : id0 = id
    · simp only [e, if_true, Option.some.injEq] at hpp; subst hpp; subst e; exact hq.total id0 p1 hp1 hcl.2
    · simp only [e, if_false] at hpp; exact hq.total id p hpp hcl.2
  · obtain ⟨p1, hp1, _, _, _, hc'⟩ := execute_spec hex
    intro id p hpp hcl
    rw [cleanStart_snoc] at hcl
    simp only [hc', AMap.get?_set] at hpp
    by_cases e : id0 = id
    · simp only [e, if_true, Option.some.injEq] at hpp; subst hpp; subst e; exact hq.total id0 p1 hp1 hcl.2
    · simp only [e, if_false] at hpp; exact hq.total id p hpp hcl.2
  · obtain ⟨p1, _, hp1, _, _, _, _, _, _, hc'⟩ := close_spec hcl
    intro id p hpp hcl
    rw [cleanStart_snoc] at hcl
    simp only [hc', AMap.get?_set] at hpp
    by_cases e : id0 = id
    · simp only [e, if_true, Option.some.injEq] at hpp; subst hpp; subst e; exact hq.total id0 p1 hp1 hcl.2
    · simp only [e, if_false] at hpp; exact hq.total id p hpp hcl.2
  · intro id p hpp hcl
    rw [cleanStart_snoc] at hcl
    exact hq.total id p hpp hcl.2
  -- propBallot
  · obtain ⟨expires, st, _, _, hid, _, hc'⟩ := propose_spec hp
    have hnone : w.flex.core.proposals.get? id0 = none := hq.snap.inv.wf.fresh (by omega)
    have hb0 : ballotsOf w.flex.core id0 = [] := hq.snap.inv.wf.noBallots id0 hnone
    intro id p b hpp hcl hb
    rw [cleanStart_snoc] at hcl
    simp only [hc', AMap.get?_set] at hpp
    simp only [hc', ballotsOf_set] at hb
    by_cases e : id0 = id
    · simp only [e, if_true, Option.some.injEq] at hpp hb
      rw [← e, hb0] at hb
      subst hpp
      simp [AMap.set, AMap.get?] at hb
      subst hb
      have hnot := hcl.1 ((eventOf_isProposed _ _ _ _).mpr ⟨⟨t, d, msgs, latest, hem⟩, by omega⟩)
      obtain ⟨B, hB, hm, _⟩ := hq.fresh hnot
      show w.group.members.atHeight snd blk.height = some w0
      rw [SnapMap.atHeight_of_logLe hm hB snd]; exact hw0
    · simp only [e, if_false] at hpp hb; exact hq.propBallot id p b hpp hcl.2 hb
  · obtain ⟨p1, w1, votes, st, hp1, _, _, hw, hw1, hnb, _, _, hc'⟩ := vote_spec hv
    intro id p b hpp hcl hb
    rw [cleanStart_snoc] at hcl
    simp only [hc', AMap.get?_set] at hpp
    simp only [hc', ballotsOf_set] at hb
    by_cases e : id0 = id
    · simp only [e, if_true, Option.some.injEq] at hpp hb
      subst hpp; subst e
      simp only at hb ⊢
      rw [AMap.get?_set] at hb
      by_cases ea : snd = p1.proposer
      · simp only [ea, if_true, Option.some.injEq] at hb; subst hb; rw [← ea]; exact hw
      · simp only [ea, if_false] at hb; exact hq.propBallot id0 p1 b hp1 hcl.2 hb
    · simp only [e, if_false] at hpp hb; exact hq.propBallot id p b hpp hcl.2 hb
  · obtain ⟨p1, hp1, _, _, _, hc'⟩ := execute_spec hex
    intro id p b hpp hcl hb
    rw [cleanStart_snoc] at hcl
    simp only [hc', AMap.get?_set] at hpp
    simp only [hc', ballotsOf_frame] at hb
    by_cases e : id0 = id
    · simp only [e, if_true, Option.some.injEq] at hpp; subst hpp; subst e; exact hq.propBallot id0 p1 b hp1 hcl.2 hb
    · simp only [e, if_false] at hpp; exact hq.propBallot id p b hpp hcl.2 hb
  · obtain ⟨p1, _, hp1, _, _, _, _, _, _, hc'⟩ := close_spec hcl
    intro id p b hpp hcl hb
    rw [cleanStart_snoc] at hcl
    simp only [hc', AMap.get?_set] at hpp
    simp only [hc', ballotsOf_frame] at hb
    by_cases e : id0 = id
    · simp only [e, if_true, Option.some.injEq] at hpp; subst hpp; subst e; exact hq.propBallot id0 p1 b hp1 hcl.2 hb
    · simp only [e, if_false] at hpp; exact hq.propBallot id p b hpp hcl.2 hb
  · intro id p b hpp hcl hb
    rw [cleanStart_snoc] at hcl
    exact hq.propBallot id p b hpp hcl.2 hb

/-- A group call in block `H` keeps `TotalInv · H`: its writes are invisible at every height `≤ H`, and the group keeps
its own invariant (C09). -/
theorem total_group {w : World} {blk : Block} {snd : Addr} {m : Cw4Group.Msg} {g' : Cw4Group.State} {outs : List Cw4Group.Out}
    (hq : TotalInv w blk.height) (hg : Cw4Group.execute w.group blk.height snd m = .ok (g', outs)) :
    TotalInv { w with group := g', log := w.log ++ [.groupWrite blk.height] } blk.height := by
  have hs := CwPlus.Props.C09.execute_sameBlock hg
  have hcs : ∀ id h, CleanStart (w.log ++ [Event.groupWrite blk.height]) id h → CleanStart w.log id h :=
    fun id h hc => ((cleanStart_snoc _ _ _ _).mp hc).2
  refine ⟨snap_group hq.snap hg, hq.inv', CwPlus.Props.C09.execute_inv hq.grp hg, ?_, ?_, ?_⟩
  · intro hn; exact absurd (List.mem_append_right _ (List.mem_singleton.mpr rfl)) hn
  · intro id p hp hcl
    have hle := hq.snap.startLe id p hp
    obtain ⟨M, hnd, hsum, hu, hmem, htot⟩ := hq.total id p hp (hcs _ _ hcl)
    refine ⟨M, hnd, hsum, hu, ?_, ?_⟩
    · intro a
      show g'.members.atHeight a p.startHeight = _
      rw [hs.1.atHeight_le hq.snap.membersLe a hle]; exact hmem a
    · show g'.total.atHeight p.startHeight = _
      rw [hs.2.atHeight_le hq.snap.totalLe hle]; exact htot
  · intro id p b hp hcl hb
    have hle := hq.snap.startLe id p hp
    show g'.members.atHeight p.proposer p.startHeight = _
    rw [hs.1.atHeight_le hq.snap.membersLe _ hle]
    exact hq.propBallot id p b hp (hcs _ _ hcl) hb

theorem total_step (ext : Ext) (fuel : Nat) {w : World} {H : Nat} (op : Op) (hq : TotalInv w H) (hH : H ≤ op.blk.height) :
    TotalInv (step ext fuel w op) op.blk.height := by
  have hq' := hq.mono hH
  unfold step
  split
  · rename_i w' htx
    exact tx_inv ext (fun w => TotalInv w op.blk.height) op.blk
      (fun w snd funds em s' out hq he => total_flex hq he)
      (fun w snd m g' outs hq hg => total_group hq hg)
      (fun w b hq => ⟨⟨hq.snap.inv, hq.snap.membersLe, hq.snap.totalLe, hq.snap.startLe, hq.snap.ballot⟩, hq.inv', hq.grp,
        hq.fresh, hq.total, hq.propBallot⟩)
      (fun w t hq => ⟨⟨hq.snap.inv, hq.snap.membersLe, hq.snap.totalLe, hq.snap.startLe, hq.snap.ballot⟩, hq.inv', hq.grp,
        hq.fresh, hq.total, hq.propBallot⟩) hq' htx
  · exact hq'

/-- The freshly instantiated world satisfies `TotalInv · H0` when the group satisfies its own invariant and its
changelogs are bounded by the instantiation height `H0` (which the initial ghost log records as a group write). -/
theorem total_init {m : InstMsg} {s : State} {g : Cw4Group.State} (t : Cw20.State) (bank : AMap (Addr × String) Nat)
    (self ga ta : Addr) {H0 : Nat} (hi : instantiate m (some g) = .ok s) (hg : CwPlus.Props.C09.Inv g)
    (hgm : g.members.LogLe H0) (hgt : g.total.LogLe H0) : TotalInv (World.init s g t bank self ga ta H0) H0 := by
  have hcore := instantiate_core hi
  refine ⟨⟨instantiate_inv hi, hgm, hgt, ?_, ?_⟩, instantiate_inv' hi, hg, ?_, ?_, ?_⟩
  · intro id p hp; simp [World.init, hcore, Core.empty] at hp
  · intro id p a b hp; simp [World.init, hcore, Core.empty] at hp
  · intro hn; simp [World.init] at hn
  · intro id p hp; simp [World.init, hcore, Core.empty] at hp
  · intro id p b hp; simp [World.init, hcore, Core.empty] at hp

/-- Worlds reached from an accepted instantiation of the multisig on a cw4-group that satisfies the cw4-group
invariant of C09 (as every instantiated cw4-group does, after any history of its own: `C09.run_inv`) and whose
changelogs are bounded by `h0`, by a history (transactions on the multisig, the group, the token) whose blocks are at
or after height `h0` and never go back.  The last argument is the block of the last transaction. -/
inductive ReachableSnap (ext : Ext) (fuel : Nat) : World → Block → Prop
  | init {m : InstMsg} {s : State} (g : Cw4Group.State) (t : Cw20.State) (bank : AMap (Addr × String) Nat)
      (self groupAddr tokenAddr : Addr) (h0 : Nat) (b : Block) :
      instantiate m (some g) = .ok s → CwPlus.Props.C09.Inv g → g.members.LogLe h0 → g.total.LogLe h0 → h0 ≤ b.height →
      ReachableSnap ext fuel (World.init s g t bank self groupAddr tokenAddr h0) b
  | step {w : World} {b : Block} (op : Op) : ReachableSnap ext fuel w b → C04.later b op.blk →
      ReachableSnap ext fuel (step ext fuel w op) op.blk

/-- The hypotheses of `ReachableSnap.init` about the group hold for every freshly instantiated cw4-group (instantiated at
height `h0`): the multisig may be instantiated on it and any history at blocks `≥ h0` that never go back follows. -/
theorem ReachableSnap.init_of_group_instantiate {ext : Ext} {fuel : Nat} {gm : Cw4Group.InstMsg} {h0 : Nat}
    {g : Cw4Group.State} (hg : Cw4Group.instantiate gm h0 = .ok g) {m : InstMsg} {s : State}
    (hi : instantiate m (some g) = .ok s) (t : Cw20.State) (bank : AMap (Addr × String) Nat) (self ga ta : Addr)
    (b : Block) (hb : h0 ≤ b.height) : ReachableSnap ext fuel (World.init s g t bank self ga ta h0) b := by
  have hsb := CwPlus.Props.C09.instantiate_sameBlock hg
  exact ReachableSnap.init g t bank self ga ta h0 b hi (CwPlus.Props.C09.instantiate_inv hg)
    (hsb.1.logLe (SnapMap.logLe_empty h0) (Nat.le_refl _)) (hsb.2.logLe (Cell.logLe_empty h0) (Nat.le_refl _)) hb

theorem ReachableSnap.reachableAt {ext : Ext} {fuel : Nat} {w : World} {b : Block} (h : ReachableSnap ext fuel w b) :
    ReachableAt ext fuel w b := by
  induction h with
  | init g t bank self ga ta h0 b hi _ _ _ _ => exact ReachableAt.init g t bank self ga ta h0 b hi
  | step op _ hb ih => exact ReachableAt.step op ih hb

theorem ReachableSnap.totalInv {ext : Ext} {fuel : Nat} {w : World} {b : Block} (h : ReachableSnap ext fuel w b) :
    TotalInv w b.height := by
  induction h with
  | init g t bank self ga ta h0 b hi hg hgm hgt hle => exact (total_init t bank self ga ta hi hg hgm hgt).mono hle
  | step op _ hb ih => exact total_step ext fuel op ih hb.1

/-- Every ballot of a proposal created outside the same-block situation carries the weight the snapshot map of its
start height has for the voter. -/
theorem TotalInv.ballot_in_snapshot {w : World} {H : Nat} (hq : TotalInv w H) {id : Nat} {p : Proposal}
    (hp : w.flex.core.proposals.get? id = some p) (hc : CleanStart w.log id p.startHeight) {a : Addr} {b : Ballot}
    (hb : (ballotsOf w.flex.core id).get? a = some b) : memberAt w.group a p.startHeight = some b.weight := by
  by_cases e : a = p.proposer
  · subst e; exact hq.propBallot id p b hp hc hb
  · exact (hq.snap.ballot id p a b hp hb e).1

/-- **C06 "ballots never outweigh the total", cw3-flex** (clause e).  On every history with non-decreasing blocks, for
every proposal whose `Propose` was not preceded by a group write in its own block (`CleanStart`, the exact complement of
the known same-block finding D3): the recorded ballots together weigh at most the recorded `total_weight`, the
recorded total is the group's `TotalWeight { at_height: start_height }` in the FINAL group state, and it fits `u64`. -/
theorem flex_sum_ballots_le_total {ext : Ext} {fuel : Nat} {w : World} {b : Block} (hr : ReachableSnap ext fuel w b)
    {id : Nat} {p : Proposal} (hp : w.flex.core.proposals.get? id = some p) (hc : CleanStart w.log id p.startHeight) :
    weightSum (ballotsOf w.flex.core id) ≤ p.totalWeight ∧ p.totalWeight ≤ U64_MAX ∧
      Cw4Group.queryTotalWeight w.group (some p.startHeight) = p.totalWeight := by
  have hq := hr.totalInv
  obtain ⟨M, hnd, hsum, hu, hmem, htot⟩ := hq.total id p hp hc
  refine ⟨?_, hu, by simp [Cw4Group.queryTotalWeight, htot]⟩
  rw [← hsum]
  refine weightSum_le_sum _ M (hq.snap.inv.wf.nodup id) hnd ?_
  intro a b hb
  rw [← hmem a]; exact hq.ballot_in_snapshot hp hc hb

/-- … hence the stored tally (yes + no + abstain + veto) never exceeds the recorded total: `C04.Premise.tally_le`. -/
theorem flex_tally_le_total {ext : Ext} {fuel : Nat} {w : World} {b : Block} (hr : ReachableSnap ext fuel w b)
    {id : Nat} {p : Proposal} (hp : w.flex.core.proposals.get? id = some p) (hc : CleanStart w.log id p.startHeight) :
    p.votes.yes + p.votes.no + p.votes.abstain + p.votes.veto ≤ p.totalWeight := by
  have h := (flex_sum_ballots_le_total hr hp hc).1
  rw [weightSum_eq] at h
  rw [hr.totalInv.snap.inv.wf.tally id p hp]
  exact h

/-- … so the four tally counters together fit `u64` (`Proposal.Fits`): the proviso of `C05Flex.query_always_answers`
and `C15.failed_deposit_recoverable_reachable` holds for every proposal created outside the same-block situation, and
its `current_status` never fails, at any block. -/
theorem flex_fits {ext : Ext} {fuel : Nat} {w : World} {b : Block} (hr : ReachableSnap ext fuel w b)
    {id : Nat} {p : Proposal} (hp : w.flex.core.proposals.get? id = some p) (hc : CleanStart w.log id p.startHeight) :
    p.Fits ∧ ∀ blk, ∃ st, p.currentStatus blk = .ok st := by
  have h1 := flex_tally_le_total hr hp hc
  have h2 := (flex_sum_ballots_le_total hr hp hc).2.1
  have hf : p.Fits := by unfold Proposal.Fits; omega
  exact ⟨hf, fun blk => reachable_statusInv hr.reachableAt.reachable id p hp hf blk⟩

/-- **C06 "the proposer's ballot and the total are snapshot values", cw3-flex, history level** (clause c).  On every
history with non-decreasing blocks, for every proposal whose `Propose` was not preceded by a group write in its own
block: in the FINAL world — after all later membership changes — `total_weight` is the group's
`TotalWeight { at_height: start_height }`, and EVERY ballot (the proposer's first Yes included) carries the group's
`Member { voter, at_height: start_height }`.  (The voters' part needs no guard: `ballots_are_snapshot`.) -/
theorem proposer_and_total_are_snapshot {ext : Ext} {fuel : Nat} {w : World} {b : Block} (hr : ReachableSnap ext fuel w b)
    {id : Nat} {p : Proposal} (hp : w.flex.core.proposals.get? id = some p) (hc : CleanStart w.log id p.startHeight) :
    p.totalWeight = Cw4Group.queryTotalWeight w.group (some p.startHeight) ∧
    (∀ a bl, (ballotsOf w.flex.core id).get? a = some bl → memberAt w.group a p.startHeight = some bl.weight) := by
  exact ⟨(flex_sum_ballots_le_total hr hp hc).2.2.symm, fun a bl hb => hr.totalInv.ballot_in_snapshot hp hc hb⟩

/-! ## later changes are irrelevant over a whole history suffix; `ReachableSnap` along `run` -/

/-- The group's changelogs are bounded by `H`, and every at-height answer for a height `≤ H0` is the one of `w0`. -/
structure FrozenBelow (w0 : World) (H0 : Nat) (w : World) (H : Nat) : Prop where
  le : H0 ≤ H
  membersLe : w.group.members.LogLe H
  totalLe : w.group.total.LogLe H
  member : ∀ a h, h ≤ H0 → memberAt w.group a h = memberAt w0.group a h
  total : ∀ h, h ≤ H0 → Cw4Group.queryTotalWeight w.group (some h) = Cw4Group.queryTotalWeight w0.group (some h)

theorem frozen_step (ext : Ext) (fuel : Nat) {w0 w : World} {H0 H : Nat} (op : Op) (hq : FrozenBelow w0 H0 w H)
    (hH : H ≤ op.blk.height) : FrozenBelow w0 H0 (step ext fuel w op) op.blk.height := by
  have hq' : FrozenBelow w0 H0 w op.blk.height :=
    ⟨Nat.le_trans hq.le hH, hq.membersLe.mono hH, hq.totalLe.mono hH, hq.member, hq.total⟩
  unfold step
  split
  · rename_i w' htx
    refine tx_inv ext (fun w => FrozenBelow w0 H0 w op.blk.height) op.blk
      (fun w snd funds em s' out hq he => ⟨hq.le, hq.membersLe, hq.totalLe, hq.member, hq.total⟩)
      (fun w snd m g' outs hq hg => ?_)
      (fun w b hq => ⟨hq.le, hq.membersLe, hq.totalLe, hq.member, hq.total⟩)
      (fun w t hq => ⟨hq.le, hq.membersLe, hq.totalLe, hq.member, hq.total⟩) hq' htx
    have hs := CwPlus.Props.C09.execute_sameBlock hg
    refine ⟨hq.le, hs.1.logLe hq.membersLe (Nat.le_refl _), hs.2.logLe hq.totalLe (Nat.le_refl _), ?_, ?_⟩
    · intro a h hh
      rw [← hq.member a h hh]
      exact hs.1.atHeight_le hq.membersLe a (Nat.le_trans hh hq.le)
    · intro h hh
      rw [← hq.total h hh]
      simp only [Cw4Group.queryTotalWeight]
      rw [hs.2.atHeight_le hq.totalLe (Nat.le_trans hh hq.le)]
  · exact hq'

/-- **Later membership changes never alter any snapshot answer — over a whole history** (clause f).  From a world whose
group changelogs are bounded by `H`, run ANY further history (transactions on the multisig, the group, the token; group
updates dispatched by proposals and hooks included) at non-decreasing block heights `≥ H`: the group's answers
`Member { addr, at_height: h }` and `TotalWeight { at_height: h }` are unchanged for every `h ≤ H` — in particular for
the start height of every proposal that already exists, so the weights of future ballots and the snapshot totals of
existing proposals are unaffected by anything that happens later.  (Recorded ballots and totals themselves never
change: `C05Flex.ballot_never_changes`, `C05Flex.proposal_immutable`.) -/
theorem later_changes_irrelevant_run (ext : Ext) (fuel : Nat) (ops : List Op) : ∀ (w : World) (H : Nat),
    w.group.members.LogLe H → w.group.total.LogLe H → (∀ op ∈ ops, H ≤ op.blk.height) → Ordered ops →
    (∀ a h, h ≤ H → memberAt (run ext fuel w ops).group a h = memberAt w.group a h) ∧
    (∀ h, h ≤ H → Cw4Group.queryTotalWeight (run ext fuel w ops).group (some h) = Cw4Group.queryTotalWeight w.group (some h)) := by
  intro w H hm ht hge hord
  have key : ∀ (ops : List Op) (v : World) (K : Nat), FrozenBelow w H v K → (∀ op ∈ ops, K ≤ op.blk.height) → Ordered ops →
      ∃ K', FrozenBelow w H (run ext fuel v ops) K' := by
    intro ops
    induction ops with
    | nil => intro v K hq _ _; exact ⟨K, hq⟩
    | cons op rest ih =>
      intro v K hq hge hord
      have hp := List.pairwise_cons.mp hord
      exact ih _ op.blk.height (frozen_step ext fuel op hq (hge op (by simp))) (fun o ho => hp.1 o ho) hp.2
  obtain ⟨K', hq⟩ := key ops w H ⟨Nat.le_refl _, hm, ht, fun _ _ _ => rfl, fun _ _ => rfl⟩ hge hord
  exact ⟨hq.member, hq.total⟩

/-- A list of transactions whose blocks never go back, starting at or after `b`. -/
def BlocksFrom : Block → List Op → Prop
  | _, [] => True
  | b, op :: rest => C04.later b op.blk ∧ BlocksFrom op.blk rest

/-- the block of the last transaction (`b` if there is none) -/
def lastBlock : Block → List Op → Block
  | b, [] => b
  | _, op :: rest => lastBlock op.blk rest

/-- `ReachableSnap` along `run`: any further history whose blocks never go back leads to a `ReachableSnap` world. -/
theorem ReachableSnap.run {ext : Ext} {fuel : Nat} : ∀ (ops : List Op) {w : World} {b : Block},
    ReachableSnap ext fuel w b → BlocksFrom b ops → ReachableSnap ext fuel (Cw3Flex.run ext fuel w ops) (lastBlock b ops)
  | [], _, _, hr, _ => hr
  | op :: rest, _, _, hr, hb => ReachableSnap.run rest (ReachableSnap.step op hr hb.1) hb.2

/-- Non-vacuity: the history of `C06_flex_counterexample` moved one block on (group update in block 10, `Propose` in
block 11, `b` votes in block 12) is a `ReachableSnap` history, the guard holds for proposal 1, and ballots 3 + 4 = 7 ≤
total 7.  In the counterexample history itself the guard is false. -/
def Cex.opsOk : List Op :=
  [⟨⟨10, 0⟩, .group "adm" (.updateMembers [] [(⟨true, "a"⟩, 3)])⟩,
   ⟨⟨11, 0⟩, .flex "a" [] (.propose "t" "d" [] none)⟩,
   ⟨⟨12, 0⟩, .flex "b" [] (.vote 1 .no)⟩]

theorem Cex.group0_inv : CwPlus.Props.C09.Inv Cex.group0 :=
  CwPlus.Props.C09.instantiate_inv (msg := ⟨some ⟨true, "adm"⟩, [(⟨true, "a"⟩, 1), (⟨true, "b"⟩, 4)]⟩) (h0 := 5) rfl

theorem Cex.group0_logLe : Cex.group0.members.LogLe 5 ∧ Cex.group0.total.LogLe 5 := by
  have h := CwPlus.Props.C09.instantiate_sameBlock
    (msg := ⟨some ⟨true, "adm"⟩, [(⟨true, "a"⟩, 1), (⟨true, "b"⟩, 4)]⟩) (h0 := 5) (s0 := Cex.group0) rfl
  exact ⟨h.1.logLe (SnapMap.logLe_empty 5) (Nat.le_refl _), h.2.logLe (Cell.logLe_empty 5) (Nat.le_refl _)⟩

theorem Cex.okReachable : ReachableSnap Cex.noExt 10 (run Cex.noExt 10 Cex.world0 Cex.opsOk) ⟨12, 0⟩ := by
  have h0 : ReachableSnap Cex.noExt 10 Cex.world0 ⟨10, 0⟩ :=
    ReachableSnap.init (m := Cex.inst) Cex.group0 Cex.token0 [] "ms" "grp" "tok" 5 ⟨10, 0⟩ rfl Cex.group0_inv
      Cex.group0_logLe.1 Cex.group0_logLe.2 (by decide)
  have h1 := ReachableSnap.step ⟨⟨10, 0⟩, .group "adm" (.updateMembers [] [(⟨true, "a"⟩, 3)])⟩ h0 ⟨Nat.le_refl _, Nat.le_refl _⟩
  have h2 := ReachableSnap.step ⟨⟨11, 0⟩, .flex "a" [] (.propose "t" "d" [] none)⟩ h1 ⟨by decide, by decide⟩
  exact ReachableSnap.step ⟨⟨12, 0⟩, .flex "b" [] (.vote 1 .no)⟩ h2 ⟨by decide, by decide⟩

example :
    let w := run Cex.noExt 10 Cex.world0 Cex.opsOk
    CleanStart w.log 1 11 ∧
    ((w.flex.core.proposals.get? 1).map fun p => (p.startHeight, p.totalWeight)) = some (11, 7) ∧
    weightSum (ballotsOf w.flex.core 1) = 7 ∧ ¬ CleanStart Cex.final.log 1 10 := by
  decide

/-- non-vacuity of `vote_twice_fails`, `outsider_cannot_propose`, `zero_weight_cannot_vote`, `proposer_ballot_is_yes`
on the reachable world `Cex.final`: `b` already holds a ballot on proposal 1, `x` is not in the group (no entry now, no
weight at height 10), and the proposer `a` holds a Yes ballot -/
example : Reachable Cex.noExt 10 Cex.final ∧
    ((ballotsOf Cex.final.flex.core 1).get? "b").isSome = true ∧
    (Cw3Flex.execute Cex.final.flex Cex.final.group "ms" ⟨11, 0⟩ "b" [] (.vote 1 .yes)).isOk = false ∧
    memberNow Cex.final.group "x" = none ∧ (memberAt Cex.final.group "x" 10).getD 0 = 0 ∧
    (Cw3Flex.execute Cex.final.flex Cex.final.group "ms" ⟨11, 0⟩ "x" [] (.propose "t" "d" [] none)).isOk = false ∧
    (Cw3Flex.execute Cex.final.flex Cex.final.group "ms" ⟨11, 0⟩ "x" [] (.vote 1 .yes)).isOk = false ∧
    (ballotsOf Cex.final.flex.core 1).get? "a" = some ⟨3, .yes⟩ :=
  ⟨⟨Cex.inst, Cex.flex0, Cex.group0, Cex.token0, _, "ms", "grp", "tok", 5, Cex.ops, rfl, rfl⟩,
   by decide, by decide, by decide, by decide, by decide, by decide, by decide⟩

/-- non-vacuity of `vote_requires_open_window`: `b`'s vote in block 11 (third op of `Cex.ops`) is accepted in the world
after the first two ops -/
example :
    let w := run Cex.noExt 10 Cex.world0 (Cex.ops.take 2)
    (Cw3Flex.execute w.flex w.group "ms" ⟨11, 0⟩ "b" [] (.vote 1 .no)).isOk = true := by
  decide

/-- non-vacuity of `later_changes_irrelevant_run` and `ReachableSnap.run`: `Cex.opsOk` is ordered, at heights ≥ 5 (the
bound of `group0`'s changelogs), and its blocks never go back from block 10 -/
example : Ordered Cex.opsOk ∧ (∀ op ∈ Cex.opsOk, 5 ≤ op.blk.height) ∧ BlocksFrom ⟨10, 0⟩ Cex.opsOk ∧
    lastBlock ⟨10, 0⟩ Cex.opsOk = ⟨12, 0⟩ :=
  ⟨by unfold Ordered; decide, by decide,
   ⟨⟨by decide, by decide⟩, ⟨by decide, by decide⟩, ⟨by decide, by decide⟩, trivial⟩, rfl⟩

end CwPlus.Props.C06Flex
