import CwPlus.Lemmas.Cw3Flex
import CwPlus.Props.C09
/-!
# C06 — cw3: ballots are snapshot weights (cw3-flex-multisig part)

For the flex multisig the weight of a ballot is the voter's weight in the cw4-group *at the proposal's start
height* (`Member { addr, at_height: start_height }`, i.e. — by C09 — the weight at the start of the block in which
the proposal was created), and the proposal's `total_weight` should be the group total at that same point.

* `voter_ballot_is_snapshot`, `ballots_are_snapshot`: every voter's ballot carries exactly that snapshot weight
  (≥ 1), on every history of transactions at non-decreasing block heights — whatever happens to the group later.
* `later_changes_irrelevant`: a group transaction in the proposal's own block or later changes no proposal, no
  ballot and no at-height answer for any earlier-or-equal height.
* `proposer_and_total_are_snapshot_partial`: the proposer's ballot and `total_weight` are snapshot values **under
  the guard** that no group write in block `start_height` precedes the `Propose`.
* `C06_flex_counterexample`: without the guard the statement is FALSE of the code (defect D3, open known finding
  `C06/flex/propose-after-group-update-in-same-block`): `Propose` reads the group's *current* total and proposer
  weight.
-/
namespace CwPlus.Props.C06Flex
open CwPlus CwPlus.Cw3 CwPlus.Cw3Core CwPlus.Cw3Flex CwPlus.Snapshot

/-! ## voters -/

/-- **Voter ballots, handler level.**  A successful `Vote` records for the sender exactly the weight the group
reports for it at the proposal's start height, and that weight is at least 1. -/
theorem voter_ballot_is_snapshot {s s' : State} {g : Cw4Group.State} {self : Addr} {blk : Block} {snd : Addr}
    {funds : List Coin} {id : Nat} {v : Vote} {out : List Out}
    (h : Cw3Flex.execute s g self blk snd funds (.vote id v) = .ok (s', out)) :
    ∃ p w, s.core.proposals.get? id = some p ∧ memberAt g snd p.startHeight = some w ∧ 1 ≤ w ∧
      (ballotsOf s.core id).get? snd = none ∧ (ballotsOf s'.core id).get? snd = some ⟨w, v⟩ := by
  obtain ⟨_, hc⟩ := execute_cases h
  rcases hc with ⟨_, _, _, _, _, _, _, hm, _⟩ | ⟨id0, v0, hm, _, hv⟩ | ⟨_, _, _, hm, _⟩ | ⟨_, _, hm, _⟩ | ⟨hm, _⟩ <;> cases hm
  obtain ⟨p, w, votes, st, hp, _, _, hw, hw1, hnb, _, _, hc'⟩ := vote_spec hv
  refine ⟨p, w, hp, hw, hw1, hnb, ?_⟩
  rw [hc', ballotsOf_set]; simp

/-- The group's changelogs are bounded by `H`, every proposal started at or before `H`, and every ballot other
than the proposer's own carries the group's answer for its voter at the proposal's start height (≥ 1). -/
structure SnapInv (w : World) (H : Nat) : Prop where
  inv : Inv w.flex
  membersLe : w.group.members.LogLe H
  totalLe : w.group.total.LogLe H
  startLe : ∀ id p, w.flex.core.proposals.get? id = some p → p.startHeight ≤ H
  ballot : ∀ id p a b, w.flex.core.proposals.get? id = some p → (ballotsOf w.flex.core id).get? a = some b →
    a ≠ p.proposer → memberAt w.group a p.startHeight = some b.weight ∧ 1 ≤ b.weight

theorem SnapInv.mono {w : World} {H H' : Nat} (h : SnapInv w H) (hh : H ≤ H') : SnapInv w H' :=
  ⟨h.inv, h.membersLe.mono hh, h.totalLe.mono hh, fun id p hp => Nat.le_trans (h.startLe id p hp) hh, h.ballot⟩

/-- A flex handler call in block `H` keeps `SnapInv · H`. -/
theorem snap_flex {w : World} {blk : Block} {snd : Addr} {funds : List Coin} {em : ExecMsg} {s' : State} {out : List Out}
    (hq : SnapInv w blk.height) (he : Cw3Flex.execute w.flex w.group w.self blk snd funds em = .ok (s', out)) :
    SnapInv { w with flex := s', log := w.log ++ [eventOf w.flex snd em] } blk.height := by
  refine ⟨execute_inv hq.inv he, hq.membersLe, hq.totalLe, ?_, ?_⟩
  all_goals
    obtain ⟨_, hc⟩ := execute_cases he
    rcases hc with ⟨t, d, msgs, latest, w0, total, id0, _, _, _, _, _, hp⟩ | ⟨id0, v, _, _, hv⟩ | ⟨id0, p0, msgs, _, _, hex, _⟩ |
      ⟨id0, p0, _, _, hcl, _⟩ | ⟨_, _, rfl, _⟩
  -- startLe
  · obtain ⟨expires, st, _, _, hid, _, hc'⟩ := propose_spec hp
    intro id p hpp
    simp only [hc', AMap.get?_set] at hpp
    by_cases e : id0 = id
    · simp only [e, if_true, Option.some.injEq] at hpp; subst hpp; exact Nat.le_refl _
    · simp only [e, if_false] at hpp; exact hq.startLe id p hpp
  · obtain ⟨p1, w1, votes, st, hp1, _, _, _, _, _, _, _, hc'⟩ := vote_spec hv
    intro id p hpp
    simp only [hc', AMap.get?_set] at hpp
    by_cases e : id0 = id
    · simp only [e, if_true, Option.some.injEq] at hpp; subst hpp; subst e; exact hq.startLe id0 p1 hp1
    · simp only [e, if_false] at hpp; exact hq.startLe id p hpp
  · obtain ⟨p1, hp1, _, _, _, hc'⟩ := execute_spec hex
    intro id p hpp
    simp only [hc', AMap.get?_set] at hpp
    by_cases e : id0 = id
    · simp only [e, if_true, Option.some.injEq] at hpp; subst hpp; subst e; exact hq.startLe id0 p1 hp1
    · simp only [e, if_false] at hpp; exact hq.startLe id p hpp
  · obtain ⟨p1, _, hp1, _, _, _, _, _, _, hc'⟩ := close_spec hcl
    intro id p hpp
    simp only [hc', AMap.get?_set] at hpp
    by_cases e : id0 = id
    · simp only [e, if_true, Option.some.injEq] at hpp; subst hpp; subst e; exact hq.startLe id0 p1 hp1
    · simp only [e, if_false] at hpp; exact hq.startLe id p hpp
  · exact hq.startLe
  -- ballot
  · obtain ⟨expires, st, _, _, hid, _, hc'⟩ := propose_spec hp
    have hnone : w.flex.core.proposals.get? id0 = none := hq.inv.wf.fresh (by omega)
    have hb0 : ballotsOf w.flex.core id0 = [] := hq.inv.wf.noBallots id0 hnone
    intro id p a b hpp hb hne
    simp only [hc', AMap.get?_set] at hpp
    simp only [hc', ballotsOf_set] at hb
    by_cases e : id0 = id
    · simp only [e, if_true, Option.some.injEq] at hpp hb
      rw [← e, hb0] at hb
      simp [AMap.set, AMap.get?] at hb
      subst hpp
      exact absurd hb.1.symm hne
    · simp only [e, if_false] at hpp hb; exact hq.ballot id p a b hpp hb hne
  · obtain ⟨p1, w1, votes, st, hp1, _, _, hw, hw1, hnb, _, _, hc'⟩ := vote_spec hv
    intro id p a b hpp hb hne
    simp only [hc', AMap.get?_set] at hpp
    simp only [hc', ballotsOf_set] at hb
    by_cases e : id0 = id
    · simp only [e, if_true, Option.some.injEq] at hpp hb
      subst hpp; subst e
      rw [AMap.get?_set] at hb
      by_cases ea : snd = a
      · simp only [ea, if_true, Option.some.injEq] at hb; subst hb; subst ea; exact ⟨hw, hw1⟩
      · simp only [ea, if_false] at hb; exact hq.ballot id0 p1 a b hp1 hb hne
    · simp only [e, if_false] at hpp hb; exact hq.ballot id p a b hpp hb hne
  · obtain ⟨p1, hp1, _, _, _, hc'⟩ := execute_spec hex
    intro id p a b hpp hb hne
    simp only [hc', AMap.get?_set] at hpp
    simp only [hc', ballotsOf_frame] at hb
    by_cases e : id0 = id
    · simp only [e, if_true, Option.some.injEq] at hpp; subst hpp; subst e; exact hq.ballot id0 p1 a b hp1 hb hne
    · simp only [e, if_false] at hpp; exact hq.ballot id p a b hpp hb hne
  · obtain ⟨p1, _, hp1, _, _, _, _, _, _, hc'⟩ := close_spec hcl
    intro id p a b hpp hb hne
    simp only [hc', AMap.get?_set] at hpp
    simp only [hc', ballotsOf_frame] at hb
    by_cases e : id0 = id
    · simp only [e, if_true, Option.some.injEq] at hpp; subst hpp; subst e; exact hq.ballot id0 p1 a b hp1 hb hne
    · simp only [e, if_false] at hpp; exact hq.ballot id p a b hpp hb hne
  · exact hq.ballot

/-- A group call in block `H` keeps `SnapInv · H`: its writes are invisible at every height `≤ H`. -/
theorem snap_group {w : World} {blk : Block} {snd : Addr} {m : Cw4Group.Msg} {g' : Cw4Group.State} {outs : List Cw4Group.Out}
    (hq : SnapInv w blk.height) (hg : Cw4Group.execute w.group blk.height snd m = .ok (g', outs)) :
    SnapInv { w with group := g', log := w.log ++ [.groupWrite blk.height] } blk.height := by
  have hs := CwPlus.Props.C09.execute_sameBlock hg
  refine ⟨hq.inv, hs.1.logLe hq.membersLe (Nat.le_refl _), hs.2.logLe hq.totalLe (Nat.le_refl _), hq.startLe, ?_⟩
  intro id p a b hp hb hne
  have := hq.ballot id p a b hp hb hne
  refine ⟨?_, this.2⟩
  show g'.members.atHeight a p.startHeight = some b.weight
  rw [hs.1.atHeight_le hq.membersLe a (hq.startLe id p hp)]
  exact this.1

theorem snap_step (ext : Ext) (fuel : Nat) {w : World} {H : Nat} (op : Op) (hq : SnapInv w H) (hH : H ≤ op.blk.height) :
    SnapInv (step ext fuel w op) op.blk.height := by
  have hq' := hq.mono hH
  unfold step
  split
  · rename_i w' htx
    exact tx_inv ext (fun w => SnapInv w op.blk.height) op.blk
      (fun w snd funds em s' out hq he => snap_flex hq he)
      (fun w snd m g' outs hq hg => snap_group hq hg)
      (fun w b hq => ⟨hq.inv, hq.membersLe, hq.totalLe, hq.startLe, hq.ballot⟩)
      (fun w t hq => ⟨hq.inv, hq.membersLe, hq.totalLe, hq.startLe, hq.ballot⟩) hq' htx
  · exact hq'

/-- Block heights never decrease along a history. -/
def Ordered (ops : List Op) : Prop := ops.Pairwise (fun a b => a.blk.height ≤ b.blk.height)

theorem snap_run (ext : Ext) (fuel : Nat) (ops : List Op) : ∀ (w : World) (H : Nat), SnapInv w H →
    (∀ op ∈ ops, H ≤ op.blk.height) → Ordered ops → ∃ H', SnapInv (run ext fuel w ops) H' := by
  induction ops with
  | nil => intro w H hq _ _; exact ⟨H, hq⟩
  | cons op rest ih =>
    intro w H hq hge hord
    have hp := List.pairwise_cons.mp hord
    exact ih _ op.blk.height (snap_step ext fuel op hq (hge op (by simp)))
      (fun o ho => hp.1 o ho) hp.2

/-- **Voter ballots are snapshot weights, over every history.**  Instantiate the multisig on a group whose
changelogs are bounded by `H0`, run any history of transactions (on the multisig, the group, the token; nested
dispatches included) at non-decreasing block heights `≥ H0`.  Then every ballot of every proposal, other than
the proposer's own first Yes, carries exactly the weight the group — in its *final* state, i.e. after all the
membership changes of the history — reports for the voter at the proposal's start height, and that weight is ≥ 1. -/
theorem ballots_are_snapshot {ext : Ext} {fuel : Nat} {m : InstMsg} {s : State} {g : Cw4Group.State} {t : Cw20.State}
    {bank : AMap (Addr × String) Nat} {self ga ta : Addr} {H0 : Nat}
    (hi : instantiate m (some g) = .ok s) (hgm : g.members.LogLe H0) (hgt : g.total.LogLe H0)
    (ops : List Op) (hge : ∀ op ∈ ops, H0 ≤ op.blk.height) (hord : Ordered ops)
    {id : Nat} {p : Proposal} {a : Addr} {b : Ballot} :
    let w := run ext fuel (World.init s g t bank self ga ta H0) ops
    w.flex.core.proposals.get? id = some p → (ballotsOf w.flex.core id).get? a = some b → a ≠ p.proposer →
      memberAt w.group a p.startHeight = some b.weight ∧ 1 ≤ b.weight := by
  intro w hp hb hne
  have h0 : SnapInv (World.init s g t bank self ga ta H0) H0 := by
    have hinv := instantiate_inv hi
    refine ⟨hinv, hgm, hgt, ?_, ?_⟩
    · intro id p hp
      have : s.core = Core.empty := by
        simp only [instantiate, Res.bind_ok] at hi
        obtain ⟨_, _, _, _, _, _, _, _, hi⟩ := hi
        simp at hi; subst hi; rfl
      simp [World.init, this, Core.empty] at hp
    · intro id p a b hp
      have : s.core = Core.empty := by
        simp only [instantiate, Res.bind_ok] at hi
        obtain ⟨_, _, _, _, _, _, _, _, hi⟩ := hi
        simp at hi; subst hi; rfl
      simp [World.init, this, Core.empty] at hp
  obtain ⟨H', hq⟩ := snap_run ext fuel ops _ H0 h0 hge hord
  exact hq.ballot id p a b hp hb hne

/-! ## later changes of the group -/

/-- Dispatching the group's hook messages never changes the multisig, the group, the bank or the token
(`MemberChangedHook` is a no-op that only checks its sender). -/
theorem dispatch_hooks (ext : Ext) (blk : Block) : ∀ (fuel : Nat) (w w' : World) (hooks : List Addr),
    dispatch ext fuel w blk (hooks.map Out.groupHook) = .ok w' →
    w'.flex = w.flex ∧ w'.group = w.group ∧ w'.bank = w.bank ∧ w'.token = w.token
  | _, w, w', [], h => by simp [dispatch] at h; subst h; simp
  | 0, w, w', _ :: _, h => by simp [dispatch] at h
  | fuel + 1, w, w', hook :: rest, h => by
    simp only [List.map_cons, dispatch, Res.bind_ok] at h
    obtain ⟨w1, h1, h2⟩ := h
    split at h1
    · simp only [Res.bind_ok] at h1
      obtain ⟨⟨s', out⟩, he, hd⟩ := h1
      simp [Cw3Flex.execute, execHook] at he
      obtain ⟨_, rfl, rfl⟩ := he
      have hw1 : w1 = { w with log := w.log ++ [.hook] } := by
        cases fuel <;> simp [dispatch] at hd <;> exact hd.symm
      have := dispatch_hooks ext blk fuel w1 w' rest h2
      subst hw1
      simpa using this
    · simp at h1

/-- **Later changes are irrelevant.**  A committed group transaction in block `hb` — with every earlier group write
at a height `≤ hb`, as in every history with non-decreasing heights — changes no proposal, no tally, no ballot and
no configuration of the multisig, and leaves the group's answers `Member { addr, at_height: h }` and
`TotalWeight { at_height: h }` unchanged for every `h ≤ hb`: in particular for the start height of every existing
proposal, so the weights of future ballots, the recorded totals and hence every outcome are unaffected. -/
theorem later_changes_irrelevant {ext : Ext} {fuel : Nat} {w w' : World} {blk : Block} {snd : Addr} {m : Cw4Group.Msg}
    (hm : w.group.members.LogLe blk.height) (ht : w.group.total.LogLe blk.height)
    (h : tx ext fuel w blk (.group snd m) = .ok w') :
    w'.flex = w.flex ∧
    (∀ a h, h ≤ blk.height → memberAt w'.group a h = memberAt w.group a h) ∧
    (∀ h, h ≤ blk.height → Cw4Group.queryTotalWeight w'.group (some h) = Cw4Group.queryTotalWeight w.group (some h)) := by
  simp only [tx, Res.bind_ok] at h
  obtain ⟨⟨g', outs⟩, hg, hd⟩ := h
  have hs := CwPlus.Props.C09.execute_sameBlock hg
  have hmap : outs.map (fun o => Out.groupHook o.hook) = (outs.map (·.hook)).map Out.groupHook := by simp
  rw [hmap] at hd
  obtain ⟨hf, hgr, _, _⟩ := dispatch_hooks ext blk fuel _ w' _ hd
  refine ⟨hf, ?_, ?_⟩
  · intro a h hh
    simp only [memberAt, hgr]
    exact hs.1.atHeight_le hm a hh
  · intro h hh
    simp only [Cw4Group.queryTotalWeight, hgr]
    rw [hs.2.atHeight_le ht hh]

/-! ## proposer and total -/

/-- **Proposer's ballot and `total_weight`, partial** (guard: no group write in block `start_height` precedes the
`Propose`, i.e. every changelog entry of the group is from an earlier block).  Then the new proposal's
`total_weight` is the group's `TotalWeight { at_height: start_height }` and the proposer's ballot carries the group's
`Member { proposer, at_height: start_height }` — the same snapshot the voters' ballots use. -/
theorem proposer_and_total_are_snapshot_partial {s s' : State} {g : Cw4Group.State} {self : Addr} {blk : Block} {snd : Addr}
    {funds : List Coin} {t d : String} {msgs : List Msg} {latest : Option Expiration} {out : List Out} {B : Nat}
    (h : Cw3Flex.execute s g self blk snd funds (.propose t d msgs latest) = .ok (s', out))
    (hgm : g.members.LogLe B) (hgt : g.total.LogLe B) (hB : B < blk.height) :
    ∃ p w, s'.core.proposals.get? (s.core.count + 1) = some p ∧ p.startHeight = blk.height ∧ p.proposer = snd ∧
      p.totalWeight = Cw4Group.queryTotalWeight g (some p.startHeight) ∧
      (ballotsOf s'.core (s.core.count + 1)).get? snd = some ⟨w, .yes⟩ ∧
      memberAt g snd p.startHeight = some w := by
  obtain ⟨_, hc⟩ := execute_cases h
  rcases hc with ⟨t', d', msgs', latest', w, total, id, hm, hw, htot, _, _, hp⟩ | ⟨_, _, hm, _⟩ | ⟨_, _, _, hm, _⟩ |
    ⟨_, _, hm, _⟩ | ⟨hm, _⟩ <;> cases hm
  obtain ⟨expires, st, _, _, hid, _, hc'⟩ := propose_spec hp
  subst hid
  refine ⟨_, w, by rw [hc']; exact AMap.get?_set_eq _ _ _, rfl, rfl, ?_, ?_, ?_⟩
  · show total = Cw4Group.queryTotalWeight g (some blk.height)
    simp only [Cw4Group.queryTotalWeight]
    rw [Cell.atHeight_of_logLe hgt hB, htot]; rfl
  · rw [hc', ballotsOf_set]; simp
  · show g.members.atHeight snd blk.height = some w
    rw [SnapMap.atHeight_of_logLe hgm hB snd]; exact hw

/-! ## the unguarded statement is false: D3 -/

namespace Cex

def group0 : Cw4Group.State :=
  match Cw4Group.instantiate ⟨some ⟨true, "adm"⟩, [(⟨true, "a"⟩, 1), (⟨true, "b"⟩, 4)]⟩ 5 with
  | .ok g => g
  | .error _ => Cw4Group.State.empty

def token0 : Cw20.State :=
  { supply := 0, mint := none, balances := [], allow := [], allowSp := [], version := ⟨"crates.io:cw20-base", 2, 0, 0⟩ }

def inst : InstMsg :=
  { group := ⟨true, "grp"⟩, threshold := .absoluteCount 4, maxVotingPeriod := .height 5, executor := none, deposit := none }

def flex0 : State := match instantiate inst (some group0) with | .ok s => s | .error _ => default

def world0 : World := World.init flex0 group0 token0 [] "ms" "grp" "tok" 5

def noExt : Ext := fun _ => none

/-- In block 10 the group admin raises `a` from 1 to 3, then — still in block 10 — `a` proposes;
in block 11 `b` votes with its snapshot weight. -/
def ops : List Op :=
  [⟨⟨10, 0⟩, .group "adm" (.updateMembers [] [(⟨true, "a"⟩, 3)])⟩,
   ⟨⟨10, 0⟩, .flex "a" [] (.propose "t" "d" [] none)⟩,
   ⟨⟨11, 0⟩, .flex "b" [] (.vote 1 .no)⟩]

def final : World := run noExt 10 world0 ops

end Cex

example : instantiate Cex.inst (some Cex.group0) = .ok Cex.flex0 := rfl
example : Ordered Cex.ops ∧ ∀ op ∈ Cex.ops, 5 ≤ op.blk.height := by unfold Ordered; decide

/-- **D3, machine-checked.**  Group update and `Propose` in the same block (10): the proposal records
`total_weight = 7` and a proposer ballot of weight 3 — the values *after* the update — although the group's
snapshot at the proposal's start height says total 5 and weight 1 for the proposer; the voter `b` votes with its
snapshot weight 4.  The unguarded "proposer's ballot and total are snapshot values" is false of the code. -/
theorem C06_flex_counterexample :
    ((Cex.final.flex.core.proposals.get? 1).map fun p => (p.startHeight, p.totalWeight)) = some (10, 7) ∧
    Cw4Group.queryTotalWeight Cex.final.group (some 10) = 5 ∧
    ((ballotsOf Cex.final.flex.core 1).get? "a").map (·.weight) = some 3 ∧
    memberAt Cex.final.group "a" 10 = some 1 ∧
    ((ballotsOf Cex.final.flex.core 1).get? "b").map (·.weight) = some 4 ∧
    memberAt Cex.final.group "b" 10 = some 4 := by
  decide

/-- Non-vacuity of the guarded theorem: the same `Propose` one block later (no group write in block 11 before
it) records the snapshot values. -/
example :
    let w := run Cex.noExt 10 Cex.world0 [Cex.ops.head!, ⟨⟨11, 0⟩, .flex "a" [] (.propose "t" "d" [] none)⟩]
    ((w.flex.core.proposals.get? 1).map fun p => (p.startHeight, p.totalWeight)) = some (11, 7) ∧
    Cw4Group.queryTotalWeight w.group (some 11) = 7 ∧
    ((ballotsOf w.flex.core 1).get? "a").map (·.weight) = some 3 ∧ memberAt w.group "a" 11 = some 3 := by
  decide

end CwPlus.Props.C06Flex
