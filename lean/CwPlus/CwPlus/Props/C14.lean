import CwPlus.Model.Cw4Group
import CwPlus.Lemmas.Cw4Group
/-!
# C14 — cw4: only the admin changes a group, and hooks hear every change truthfully (cw4-group part)

* `change_auth` / `step_change_auth`: membership, hook list and admin change only through calls by the
  current admin; `admin_none_frozen`: once the admin is cleared nothing changes ever again.
* `diffs_truthful`: a successful `UpdateMembers` sends `hooks.map (hookMsg diffs)` where replaying `diffs`
  one after the other on the old member map — each `old` being checked against the weight held
  immediately before that diff — yields exactly the new member map; addresses not mentioned are unchanged;
  only addresses of the call are mentioned and every added address is.
* `one_msg_per_hook`, `removed_hook_silent`, `other_ops_silent`.
-/
namespace CwPlus.Props.C14
open CwPlus CwPlus.Cw4Group CwPlus.Snapshot

/-! ## Authorisation -/

/-- Every call that succeeds was sent by the current admin. -/
theorem execute_ok_admin {s s' : State} {h : Nat} {snd : Addr} {msg : Msg} {out : List Out}
    (he : execute s h snd msg = .ok (s', out)) : s.admin = some snd := by
  cases msg <;> simp only [execute] at he
  case updateAdmin new =>
    simp [execUpdateAdmin, isAdmin] at he
    obtain ⟨_, _, ha, _⟩ := he; exact ha
  case updateMembers rem add =>
    simp [execUpdateMembers] at he
    obtain ⟨r, ds, hr, _⟩ := he
    unfold updateMembers at hr
    simp only [check_bind_ok] at hr
    simpa [isAdmin] using hr.2.1
  case addHook a =>
    simp [execAddHook, isAdmin] at he
    exact he.2.1
  case removeHook a =>
    simp [execRemoveHook, isAdmin] at he
    exact he.2.1

/-- **C14, authorisation**: if a successful call changed the membership, the hook list or the admin, its
sender was the current admin. -/
theorem change_auth {s s' : State} {h : Nat} {snd : Addr} {msg : Msg} {out : List Out}
    (he : execute s h snd msg = .ok (s', out))
    (_hc : s'.members.cur ≠ s.members.cur ∨ s'.hooks ≠ s.hooks ∨ s'.admin ≠ s.admin) : s.admin = some snd :=
  execute_ok_admin he

/-- The same for transactions (a failed call is rolled back and changes nothing): any difference in
members (current weights *or* snapshots), total, hooks or admin means the sender was the admin. -/
theorem step_change_auth {s : State} (op : Op) (hc : stepOp s op ≠ s) : s.admin = some op.sender := by
  unfold stepOp step at hc
  split at hc
  · rename_i s' out he; exact execute_ok_admin he
  · exact absurd rfl hc

/-- What each kind of call may change: `UpdateAdmin` only the admin, `AddHook`/`RemoveHook` only the hook
list, `UpdateMembers` only members and total. -/
theorem execute_frame {s s' : State} {h : Nat} {snd : Addr} {msg : Msg} {out : List Out}
    (he : execute s h snd msg = .ok (s', out)) :
    (∀ new, msg = .updateAdmin new → s'.hooks = s.hooks ∧ s'.members = s.members ∧ s'.total = s.total)
    ∧ (∀ rem add, msg = .updateMembers rem add → s'.hooks = s.hooks ∧ s'.admin = s.admin)
    ∧ (∀ a, msg = .addHook a → s'.admin = s.admin ∧ s'.members = s.members ∧ s'.total = s.total)
    ∧ (∀ a, msg = .removeHook a → s'.admin = s.admin ∧ s'.members = s.members ∧ s'.total = s.total) := by
  refine ⟨?_, ?_, ?_, ?_⟩ <;> intros <;> subst_vars <;> simp only [execute] at he
  · simp [execUpdateAdmin] at he
    obtain ⟨_, _, _, rfl, _⟩ := he; exact ⟨rfl, rfl, rfl⟩
  · simp [execUpdateMembers] at he
    obtain ⟨r, ds, hr, rfl, _⟩ := he
    unfold updateMembers at hr
    simp only [check_bind_ok] at hr
    obtain ⟨_, _, hr⟩ := hr
    split at hr
    · cases hr
    · simp at hr
      obtain ⟨_, _, _, _, _, _, _, _, rfl, _⟩ := hr
      exact ⟨rfl, rfl⟩
  · simp [execAddHook] at he
    obtain ⟨_, _, _, rfl, _⟩ := he; exact ⟨rfl, rfl, rfl⟩
  · simp [execRemoveHook] at he
    obtain ⟨_, _, _, rfl, _⟩ := he; exact ⟨rfl, rfl, rfl⟩

/-- With no admin every call fails. -/
theorem execute_fails_without_admin {s : State} (hn : s.admin = none) (h : Nat) (snd : Addr) (msg : Msg) :
    ∀ r, execute s h snd msg ≠ .ok r := by
  intro r he
  obtain ⟨s', out⟩ := r
  have := execute_ok_admin he
  rw [hn] at this; cases this

/-- **C14, frozen forever**: once the admin is cleared, no history of calls — by the former admin, by
strangers, at any heights — changes anything: members (with their snapshots), total, hooks and admin all stay. -/
theorem admin_none_frozen {s : State} (hn : s.admin = none) (ops : List Op) : run s ops = s := by
  induction ops with
  | nil => rfl
  | cons op ops ih =>
    have : stepOp s op = s := by
      unfold stepOp step
      split
      · rename_i s' out he; exact absurd he (execute_fails_without_admin hn _ _ _ _)
      · rfl
    rw [run_cons, this]; exact ih

/-- … and no hook message is ever sent again. -/
theorem admin_none_silent {s : State} (hn : s.admin = none) (ops : List Op) : outs s ops = [] := by
  induction ops with
  | nil => rfl
  | cons op ops ih =>
    have hs : stepOp s op = s := by
      have := admin_none_frozen hn [op]; simpa using this
    simp only [outs, hs, ih, List.append_nil]
    split
    · rename_i s' out he; exact absurd he (execute_fails_without_admin hn _ _ _ _)
    · rfl

/-! ## Truthful diffs -/

/-- The membership change a single diff describes. -/
def applyDiff (m : AMap Addr Nat) (d : Diff) : AMap Addr Nat :=
  match d.new with
  | some w => m.set d.key w
  | none => m.erase d.key

/-- Replay diffs one after the other; fails unless every `old` is the weight held immediately before it. -/
def replayDiffs : AMap Addr Nat → List Diff → Option (AMap Addr Nat)
  | m, [] => some m
  | m, d :: ds => if m.get? d.key = d.old then replayDiffs (applyDiff m d) ds else none

theorem replayDiffs_append (m : AMap Addr Nat) (d1 d2 : List Diff) :
    replayDiffs m (d1 ++ d2) = (replayDiffs m d1).bind (fun m' => replayDiffs m' d2) := by
  induction d1 generalizing m with
  | nil => rfl
  | cons d ds ih =>
    simp only [List.cons_append, replayDiffs]
    split
    · exact ih _
    · rfl

/-- Addresses no diff mentions keep their weight. -/
theorem replayDiffs_untouched {m m' : AMap Addr Nat} {ds : List Diff} (hr : replayDiffs m ds = some m')
    {a : Addr} (ha : a ∉ ds.map (·.key)) : m'.get? a = m.get? a := by
  induction ds generalizing m with
  | nil => simp [replayDiffs] at hr; rw [hr]
  | cons d ds ih =>
    simp only [replayDiffs] at hr
    split at hr
    · simp only [List.map_cons, List.mem_cons, not_or] at ha
      rw [ih hr ha.2]
      unfold applyDiff
      split
      · exact AMap.get?_set_ne _ _ _ _ (Ne.symm ha.1)
      · exact AMap.get?_erase_ne _ _ _ (Ne.symm ha.1)
    · cases hr

/-- The add loop: one diff per entry, in processing order, each with the weight read just before the write. -/
theorem applyAdds_replay {h : Nat} (l : List (AddrArg × Nat)) {m m' : SnapMap Addr Nat} {t t' : Nat} {ds : List Diff}
    (hc : applyAdds h l m t = .ok (m', t', ds)) :
    replayDiffs m.cur ds = some m'.cur ∧ ds.map (·.key) = l.map (·.1.text) ∧ ∀ d ∈ ds, d.new ≠ none := by
  induction l generalizing m t m' t' ds with
  | nil => simp [applyAdds] at hc; obtain ⟨rfl, _, rfl⟩ := hc; simp [replayDiffs]
  | cons p rest ih =>
    obtain ⟨a, w⟩ := p
    simp [applyAdds] at hc
    obtain ⟨_, _, _, r, t2, d2, hr, rfl, _, rfl⟩ := hc
    obtain ⟨h1, h2, h3⟩ := ih hr
    refine ⟨?_, by simp [h2], ?_⟩
    · simp only [replayDiffs, SnapMap.get?, if_true, applyDiff]
      exact h1
    · intro d hd
      rcases List.mem_cons.mp hd with rfl | hd
      · simp
      · exact h3 d hd

/-- The remove loop: one diff per address that was a member at that moment. -/
theorem applyRemoves_replay {h : Nat} (l : List AddrArg) {m m' : SnapMap Addr Nat} {t t' : Nat} {ds : List Diff}
    (hc : applyRemoves h l m t = .ok (m', t', ds)) :
    replayDiffs m.cur ds = some m'.cur ∧ ∀ d ∈ ds, d.key ∈ l.map (·.text) ∧ d.old ≠ none := by
  induction l generalizing m t m' t' ds with
  | nil => simp [applyRemoves] at hc; obtain ⟨rfl, _, rfl⟩ := hc; simp [replayDiffs]
  | cons a rest ih =>
    simp only [applyRemoves, check_bind_ok] at hc
    obtain ⟨_, hc⟩ := hc
    split at hc
    · obtain ⟨h1, h2⟩ := ih hc
      exact ⟨h1, fun d hd => ⟨by simp [(h2 d hd).1], (h2 d hd).2⟩⟩
    · rename_i w hw
      simp at hc
      obtain ⟨_, r, t2, d2, hr, rfl, _, rfl⟩ := hc
      obtain ⟨h1, h2⟩ := ih hr
      refine ⟨?_, ?_⟩
      · simp only [SnapMap.get?] at hw
        simp only [replayDiffs, hw, if_true, applyDiff]
        exact h1
      · intro d hd
        rcases List.mem_cons.mp hd with rfl | hd
        · simp
        · exact ⟨by simp [(h2 d hd).1], (h2 d hd).2⟩

/-- **C14, truthful notifications.**  A successful `UpdateMembers { remove, add }` emits exactly
`hooks.map (hookMsg diffs)` for one list `diffs` such that
* replaying `diffs` sequentially on the old member map, checking every `old` against the weight held
  immediately before that diff, succeeds and yields exactly the new member map (so every reported previous
  and new weight is true, also for overlapping add/remove lists and re-weights to the same value, and no
  reported change did not happen);
* addresses not mentioned in `diffs` keep their weight;
* only addresses of the call are mentioned, every added address is mentioned, and no entry is `none → none`;
* admin and hooks are unchanged. -/
theorem diffs_truthful {s s' : State} {h : Nat} {snd : Addr} {rem : List AddrArg} {add : List (AddrArg × Nat)}
    {out : List Out} (he : execute s h snd (.updateMembers rem add) = .ok (s', out)) :
    ∃ diffs : List Diff,
      out = s.hooks.map (hookMsg diffs)
      ∧ replayDiffs s.members.cur diffs = some s'.members.cur
      ∧ (∀ a, a ∉ diffs.map (·.key) → weight s' a = weight s a)
      ∧ (∀ d ∈ diffs, d.key ∈ add.map (·.1.text) ∨ d.key ∈ rem.map (·.text))
      ∧ (∀ a ∈ add.map (·.1.text), a ∈ diffs.map (·.key))
      ∧ (∀ d ∈ diffs, ¬ (d.old = none ∧ d.new = none))
      ∧ s'.admin = s.admin ∧ s'.hooks = s.hooks := by
  simp [execute, execUpdateMembers] at he
  obtain ⟨r, ds, hr, rfl, rfl⟩ := he
  unfold updateMembers at hr
  simp only [check_bind_ok] at hr
  obtain ⟨_, _, hr⟩ := hr
  split at hr
  · cases hr
  · simp at hr
    obtain ⟨m1, t1, d1, h1, m2, t2, d2, h2, rfl, rfl⟩ := hr
    obtain ⟨a1, a2, a3⟩ := applyAdds_replay _ h1
    obtain ⟨r1, r2⟩ := applyRemoves_replay _ h2
    have hrep : replayDiffs s.members.cur (d1 ++ d2) = some m2.cur := by
      rw [replayDiffs_append, a1]; exact r1
    have hperm : ∀ x, x ∈ (sortMembers add).map (·.1.text) ↔ x ∈ add.map (·.1.text) :=
      fun x => ((sortMembers_perm add).map (·.1.text)).mem_iff
    refine ⟨d1 ++ d2, rfl, hrep, ?_, ?_, ?_, ?_, rfl, rfl⟩
    · intro a ha
      exact replayDiffs_untouched hrep ha
    · intro d hd
      rcases List.mem_append.mp hd with hd | hd
      · left
        apply (hperm d.key).mp
        rw [← a2]; exact List.mem_map.mpr ⟨d, hd, rfl⟩
      · right; exact (r2 d hd).1
    · intro a ha
      have : a ∈ d1.map (·.key) := by rw [a2]; exact (hperm a).mpr ha
      simp only [List.map_append, List.mem_append]; exact Or.inl this
    · intro d hd hnn
      rcases List.mem_append.mp hd with hd | hd
      · exact a3 d hd hnn.2
      · exact (r2 d hd).2 hnn.1

/-- **C14, one notification per hook**: a successful `UpdateMembers` addresses the registered hooks, in
registration order, one message each, all carrying the same diffs (also when the diffs are empty). -/
theorem one_msg_per_hook {s s' : State} {h : Nat} {snd : Addr} {rem : List AddrArg} {add : List (AddrArg × Nat)}
    {out : List Out} (he : execute s h snd (.updateMembers rem add) = .ok (s', out)) :
    out.map (·.hook) = s.hooks ∧ out.length = s.hooks.length
      ∧ ∃ diffs, ∀ o ∈ out, o.diffs = diffs := by
  obtain ⟨diffs, rfl, _⟩ := diffs_truthful he
  refine ⟨by simp [hookMsg, Function.comp_def], by simp, diffs, ?_⟩
  intro o ho
  simp [hookMsg] at ho
  obtain ⟨_, _, rfl⟩ := ho; rfl

/-- **C14, no other notification**: `UpdateAdmin`, `AddHook`, `RemoveHook` never emit a message (and a
failed call emits nothing because it is rolled back). -/
theorem other_ops_silent {s s' : State} {h : Nat} {snd : Addr} {msg : Msg} {out : List Out}
    (he : execute s h snd msg = .ok (s', out)) (hm : ∀ rem add, msg ≠ .updateMembers rem add) : out = [] := by
  cases msg <;> simp only [execute] at he
  case updateAdmin new =>
    simp [execUpdateAdmin] at he
    obtain ⟨_, _, _, _, rfl⟩ := he; rfl
  case updateMembers rem add => exact absurd rfl (hm rem add)
  case addHook a =>
    simp [execAddHook] at he
    obtain ⟨_, _, _, _, rfl⟩ := he; rfl
  case removeHook a =>
    simp [execRemoveHook] at he
    obtain ⟨_, _, _, _, rfl⟩ := he; rfl

/-- Every message of a successful call goes to a hook that was registered when the call was made. -/
theorem out_to_registered {s s' : State} {h : Nat} {snd : Addr} {msg : Msg} {out : List Out}
    (he : execute s h snd msg = .ok (s', out)) : ∀ o ∈ out, o.hook ∈ s.hooks := by
  intro o ho
  cases msg
  case updateMembers rem add =>
    obtain ⟨hh, _⟩ := one_msg_per_hook he
    rw [← hh]; exact List.mem_map.mpr ⟨o, ho, rfl⟩
  all_goals (rw [other_ops_silent he (by intro _ _ hc; cases hc)] at ho; cases ho)

/-! ## Hooks: registered once, silent after removal -/

/-- The hook list never holds an address twice. -/
theorem execute_hooks_nodup {s s' : State} {h : Nat} {snd : Addr} {msg : Msg} {out : List Out}
    (hn : s.hooks.Nodup) (he : execute s h snd msg = .ok (s', out)) : s'.hooks.Nodup := by
  have hf := execute_frame he
  cases msg
  case updateAdmin new => rw [(hf.1 _ rfl).1]; exact hn
  case updateMembers rem add => rw [(hf.2.1 _ _ rfl).1]; exact hn
  case addHook a =>
    simp [execute, execAddHook] at he
    obtain ⟨_, _, hnm, rfl, _⟩ := he
    simp only
    rw [List.nodup_append]
    refine ⟨hn, by simp, ?_⟩
    intro x hx y hy
    simp at hy; subst hy
    intro e; subst e; exact hnm hx
  case removeHook a =>
    simp [execute, execRemoveHook] at he
    obtain ⟨_, _, _, rfl, _⟩ := he
    exact hn.erase _

theorem instantiate_hooks {msg : InstMsg} {h0 : Nat} {s0 : State} (hi : instantiate msg h0 = .ok s0) :
    s0.hooks = [] := by
  simp [instantiate, create] at hi
  obtain ⟨_, adm, _, m, t, _, rfl⟩ := hi
  rfl

theorem run_hooks_nodup {s : State} (hn : s.hooks.Nodup) (ops : List Op) : (run s ops).hooks.Nodup := by
  induction ops generalizing s with
  | nil => exact hn
  | cons op ops ih =>
    apply ih
    unfold stepOp step
    split
    · rename_i s' out he; exact execute_hooks_nodup hn he
    · exact hn

/-- On every reachable state each hook is registered exactly once, so "one message per entry of the hook
list" is "exactly one message per registered hook". -/
theorem reachable_hooks_nodup {msg : InstMsg} {h0 : Nat} {s0 : State} (hi : instantiate msg h0 = .ok s0)
    (ops : List Op) : (run s0 ops).hooks.Nodup :=
  run_hooks_nodup (by rw [instantiate_hooks hi]; exact List.nodup_nil) ops

/-- A successful `RemoveHook` really removes the hook. -/
theorem removeHook_not_mem {s s' : State} {h : Nat} {snd : Addr} {a : AddrArg} {out : List Out}
    (hn : s.hooks.Nodup) (he : execute s h snd (.removeHook a) = .ok (s', out)) : a.text ∉ s'.hooks := by
  simp [execute, execRemoveHook] at he
  obtain ⟨_, _, _, rfl, _⟩ := he
  exact fun hm => (List.Nodup.mem_erase_iff hn).mp hm |>.1 rfl

/-- A hook that is not registered stays unregistered, and unnotified, as long as no `AddHook` names it. -/
theorem unregistered_silent {s : State} {k : Addr} (hk : k ∉ s.hooks) (ops : List Op)
    (hno : ∀ op ∈ ops, ∀ a, op.msg = .addHook a → a.text ≠ k) :
    k ∉ (run s ops).hooks ∧ ∀ o ∈ outs s ops, o.hook ≠ k := by
  induction ops generalizing s with
  | nil => exact ⟨hk, by simp [outs]⟩
  | cons op ops ih =>
    have hstep : k ∉ (stepOp s op).hooks := by
      obtain ⟨oh, os, om⟩ := op
      unfold stepOp step
      simp only
      split
      · rename_i s' out he
        have hf := execute_frame he
        cases om with
        | updateAdmin new => rw [(hf.1 _ rfl).1]; exact hk
        | updateMembers rem add => rw [(hf.2.1 _ _ rfl).1]; exact hk
        | addHook a =>
          simp [execute, execAddHook] at he
          obtain ⟨_, _, _, rfl, _⟩ := he
          have := hno ⟨oh, os, .addHook a⟩ (by simp) a rfl
          simp only [List.mem_append, List.mem_singleton, not_or]
          exact ⟨hk, fun e => this e.symm⟩
        | removeHook a =>
          simp [execute, execRemoveHook] at he
          obtain ⟨_, _, _, rfl, _⟩ := he
          exact fun hmem => hk (List.mem_of_mem_erase hmem)
      · exact hk
    obtain ⟨i1, i2⟩ := ih hstep (fun o ho => hno o (by simp [ho]))
    refine ⟨i1, ?_⟩
    intro o ho
    simp only [outs, List.mem_append] at ho
    rcases ho with ho | ho
    · split at ho
      · rename_i s' out he
        intro e; subst e
        exact hk (out_to_registered he o ho)
      · cases ho
    · exact i2 o ho

/-- **C14, a removed hook is no longer notified**: after a successful `RemoveHook { addr }` no later call of
any history sends `addr` a message, unless and until an `AddHook` registers it again. -/
theorem removed_hook_silent {s s' : State} {h : Nat} {snd : Addr} {a : AddrArg} {out : List Out}
    (hn : s.hooks.Nodup) (he : execute s h snd (.removeHook a) = .ok (s', out)) (ops : List Op)
    (hno : ∀ op ∈ ops, ∀ b, op.msg = .addHook b → b.text ≠ a.text) :
    out = [] ∧ ∀ o ∈ outs s' ops, o.hook ≠ a.text :=
  ⟨other_ops_silent he (by intro _ _ hc; cases hc), (unregistered_silent (removeHook_not_mem hn he) ops hno).2⟩

/-! ## Non-vacuity: concrete states on which the hypotheses hold and the conclusions are non-trivial -/

def exInst : InstMsg := { admin := some ⟨true, "adm"⟩, members := [(⟨true, "bob"⟩, 3), (⟨true, "alice"⟩, 5)] }

def exState : State := (match instantiate exInst 10 with | .ok s => s | .error _ => State.empty)

/-- two hooks registered -/
def exHooked : State := run exState [⟨10, "adm", .addHook ⟨true, "h1"⟩⟩, ⟨10, "adm", .addHook ⟨true, "h2"⟩⟩]

def outOf (r : Res (State × List Out)) : List Out := match r with | .ok (_, out) => out | .error _ => []

/-- overlapping add/remove lists (`carol` is added and removed), a re-weight to the same value (`alice`),
the removal of a non-member (`dave`) and of a member (`bob`) -/
def exUpdate : Msg :=
  .updateMembers [⟨true, "carol"⟩, ⟨true, "dave"⟩, ⟨true, "bob"⟩] [(⟨true, "carol"⟩, 1), (⟨true, "alice"⟩, 5)]

def exDiffs : List Diff :=
  [⟨"alice", some 5, some 5⟩, ⟨"carol", none, some 1⟩, ⟨"carol", some 1, none⟩, ⟨"bob", some 3, none⟩]

example : instantiate exInst 10 = .ok exState := by rfl
example : exHooked.hooks = ["h1", "h2"] ∧ exHooked.admin = some "adm" := by decide

example : (execute exHooked 11 "adm" exUpdate).isOk = true
    ∧ outOf (execute exHooked 11 "adm" exUpdate) = [hookMsg exDiffs "h1", hookMsg exDiffs "h2"]
    ∧ replayDiffs exHooked.members.cur exDiffs = some [("alice", 5)]
    ∧ (step exHooked 11 "adm" exUpdate).members.cur = [("alice", 5)] := by decide

/-- a stranger and the (validly formed) call of a non-admin member change nothing and notify nobody -/
example : (execute exHooked 11 "bob" exUpdate).isOk = false
    ∧ (execute exHooked 11 "h1" (.removeHook ⟨true, "h1"⟩)).isOk = false
    ∧ (execute exHooked 11 "alice" (.updateAdmin (some ⟨true, "alice"⟩))).isOk = false := by decide

/-- an empty update still notifies every hook (with no diffs) -/
example : outOf (execute exHooked 11 "adm" (.updateMembers [] [])) = [hookMsg [] "h1", hookMsg [] "h2"] := by decide

/-- after `RemoveHook h1` only `h2` hears the next update; after clearing the admin everything fails -/
example :
    let s1 := step exHooked 12 "adm" (.removeHook ⟨true, "h1"⟩)
    outOf (execute s1 12 "adm" exUpdate) = [hookMsg exDiffs "h2"]
    ∧ (let s2 := step s1 13 "adm" (.updateAdmin none)
       s2.admin = none ∧ (execute s2 13 "adm" exUpdate).isOk = false
       ∧ (execute s2 13 "adm" (.updateAdmin (some ⟨true, "adm"⟩))).isOk = false) := by decide

/-- the theorems apply -/
example : ∃ s' out, execute exHooked 11 "adm" exUpdate = .ok (s', out) ∧ s'.members.cur ≠ exHooked.members.cur :=
  ⟨_, _, rfl, by decide⟩

example : (run exState [⟨10, "adm", .addHook ⟨true, "h1"⟩⟩, ⟨11, "adm", .addHook ⟨true, "h1"⟩⟩]).hooks.Nodup :=
  reachable_hooks_nodup (msg := exInst) (h0 := 10) rfl _

/-! # History-level theorems and literal readings of "truthful" (review round) -/

/-! ## `UpdateMembers` taken apart -/

/-- `execute_update_members` = `update_members` + one message with its diffs per registered hook. -/
theorem execute_updateMembers_ok {s s' : State} {h : Nat} {snd : Addr} {rem : List AddrArg}
    {add : List (AddrArg × Nat)} {out : List Out} :
    execute s h snd (.updateMembers rem add) = .ok (s', out) ↔
      ∃ diffs, updateMembers s h snd rem add = .ok (s', diffs) ∧ out = s.hooks.map (hookMsg diffs) := by
  simp only [execute, execUpdateMembers, Res.bind_ok, Res.pure_ok]
  constructor
  · rintro ⟨⟨r, ds⟩, hr, e⟩
    cases e
    exact ⟨ds, hr, rfl⟩
  · rintro ⟨ds, hr, rfl⟩
    exact ⟨(s', ds), hr, rfl⟩

/-- The two loops of a successful `update_members`. -/
theorem updateMembers_ok {s s' : State} {h : Nat} {snd : Addr} {rem : List AddrArg} {add : List (AddrArg × Nat)}
    {diffs : List Diff} (hr : updateMembers s h snd rem add = .ok (s', diffs)) :
    ∃ t0 m1 t1 d1 m2 t2 d2, applyAdds h (sortMembers add) s.members t0 = .ok (m1, t1, d1) ∧
      applyRemoves h rem m1 t1 = .ok (m2, t2, d2) ∧ s'.members = m2 ∧ diffs = d1 ++ d2 ∧
      s'.hooks = s.hooks ∧ s'.admin = s.admin := by
  unfold updateMembers at hr
  simp only [check_bind_ok] at hr
  obtain ⟨_, _, hr⟩ := hr
  split at hr
  · cases hr
  · rename_i t0 _
    simp at hr
    obtain ⟨m1, t1, d1, h1, m2, t2, d2, h2, rfl, rfl⟩ := hr
    exact ⟨t0, m1, t1, d1, m2, t2, d2, h1, h2, rfl, rfl, rfl, rfl⟩

/-- The diffs of `update_members` replay the old member table into the new one (the core of
`diffs_truthful`, stated for the diffs themselves — also when no hook is registered). -/
theorem updateMembers_replay {s s' : State} {h : Nat} {snd : Addr} {rem : List AddrArg} {add : List (AddrArg × Nat)}
    {diffs : List Diff} (hr : updateMembers s h snd rem add = .ok (s', diffs)) :
    replayDiffs s.members.cur diffs = some s'.members.cur := by
  obtain ⟨t0, m1, t1, d1, m2, t2, d2, h1, h2, hm, rfl, _, _⟩ := updateMembers_ok hr
  obtain ⟨a1, _, _⟩ := applyAdds_replay _ h1
  obtain ⟨r1, _⟩ := applyRemoves_replay _ h2
  rw [replayDiffs_append, a1, hm]; exact r1

/-! ## Literal reading: the first / last / only diff naming an address -/

theorem replayDiffs_split {m m' : AMap Addr Nat} {pre post : List Diff}
    (hr : replayDiffs m (pre ++ post) = some m') :
    ∃ m1, replayDiffs m pre = some m1 ∧ replayDiffs m1 post = some m' := by
  rw [replayDiffs_append] at hr
  cases h1 : replayDiffs m pre with
  | none => rw [h1] at hr; cases hr
  | some m1 => rw [h1] at hr; exact ⟨m1, rfl, hr⟩

/-- In a list of diffs that replays `m` into `m'`: the **first** diff naming an address reports as `old` the
weight in `m`, the **last** one reports as `new` the weight in `m'`. -/
theorem replayDiffs_first_last {m m' : AMap Addr Nat} {pre post : List Diff} {d : Diff}
    (hr : replayDiffs m (pre ++ d :: post) = some m') :
    (d.key ∉ pre.map (·.key) → d.old = m.get? d.key) ∧
    (d.key ∉ post.map (·.key) → d.new = m'.get? d.key) := by
  obtain ⟨m1, h1, h2⟩ := replayDiffs_split hr
  simp only [replayDiffs] at h2
  split at h2
  · rename_i hold
    constructor
    · intro hf
      rw [← hold, replayDiffs_untouched h1 hf]
    · intro hl
      rw [replayDiffs_untouched h2 hl]
      unfold applyDiff
      split
      · rename_i w hw; rw [hw]; simp
      · rename_i hw; rw [hw]; simp
  · cases h2

/-- **C14 `diffs_truthful`, literal form ("their true previous and new weight")**: in the diffs of a
successful `UpdateMembers`, for every entry `d`: if no earlier entry names the same address, `d.old` is the
address's weight before the call; if no later entry names it, `d.new` is its weight after the call.  In
particular an address named exactly once (the normal case: not both in `add` and `remove`) is reported as
`(address, weight before, weight after)`. -/
theorem diffs_first_last {s s' : State} {h : Nat} {snd : Addr} {rem : List AddrArg} {add : List (AddrArg × Nat)}
    {diffs : List Diff} (hr : updateMembers s h snd rem add = .ok (s', diffs))
    {pre post : List Diff} {d : Diff} (hd : diffs = pre ++ d :: post) :
    (d.key ∉ pre.map (·.key) → d.old = weight s d.key) ∧
    (d.key ∉ post.map (·.key) → d.new = weight s' d.key) := by
  have := updateMembers_replay hr
  rw [hd] at this
  exact replayDiffs_first_last this

/-! ## Every removed member is reported -/

theorem snap_get?_write (m : SnapMap Addr Nat) (k k' : Addr) (h : Nat) (new : Option Nat) :
    (m.write k h new).get? k' = if k = k' then new else m.get? k' := by
  unfold SnapMap.write SnapMap.get?
  cases new with
  | none => simp [AMap.get?_erase]
  | some v => simp [AMap.get?_set]

/-- The remove loop reports every listed address that is a member when the loop starts. -/
theorem applyRemoves_reports {h : Nat} (l : List AddrArg) {m m' : SnapMap Addr Nat} {t t' : Nat} {ds : List Diff}
    (hc : applyRemoves h l m t = .ok (m', t', ds)) {a : Addr} (ha : a ∈ l.map (·.text)) {w : Nat}
    (hw : m.get? a = some w) : ⟨a, some w, none⟩ ∈ ds := by
  induction l generalizing m t m' t' ds with
  | nil => cases ha
  | cons b rest ih =>
    simp only [applyRemoves, check_bind_ok] at hc
    obtain ⟨_, hc⟩ := hc
    split at hc
    · rename_i hb
      have hne : b.text ≠ a := by intro e; rw [e, hw] at hb; cases hb
      have ha' : a ∈ rest.map (·.text) := by
        simp only [List.map_cons, List.mem_cons] at ha
        rcases ha with e | ha
        · exact absurd e.symm hne
        · exact ha
      exact ih hc ha' hw
    · rename_i w' hb
      simp at hc
      obtain ⟨_, r, t2, d2, hrr, rfl, _, rfl⟩ := hc
      by_cases e : b.text = a
      · rw [e, hw] at hb
        cases hb
        rw [e]; simp
      · have ha' : a ∈ rest.map (·.text) := by
          simp only [List.map_cons, List.mem_cons] at ha
          rcases ha with e' | ha
          · exact absurd e'.symm e
          · exact ha
        have hw' : (m.write b.text h none).get? a = some w := by rw [snap_get?_write]; simp [e, hw]
        exact List.mem_cons_of_mem _ (ih hrr ha' hw')

/-- **C14, every removal is reported**: when a successful `UpdateMembers` names in `remove` an address that
is a member and is not also in `add`, the diffs contain the entry `(address, its weight, none)` — and since
the address is named by the remove loop only, that weight is its weight before the call. -/
theorem removed_reported {s s' : State} {h : Nat} {snd : Addr} {rem : List AddrArg} {add : List (AddrArg × Nat)}
    {diffs : List Diff} (hr : updateMembers s h snd rem add = .ok (s', diffs))
    {a : Addr} (ha : a ∈ rem.map (·.text)) (hna : a ∉ add.map (·.1.text)) {w : Nat} (hw : weight s a = some w) :
    ⟨a, some w, none⟩ ∈ diffs := by
  obtain ⟨t0, m1, t1, d1, m2, t2, d2, h1, h2, _, rfl, _, _⟩ := updateMembers_ok hr
  obtain ⟨a1, a2, _⟩ := applyAdds_replay _ h1
  have hperm : a ∈ (sortMembers add).map (·.1.text) ↔ a ∈ add.map (·.1.text) :=
    ((sortMembers_perm add).map (·.1.text)).mem_iff
  have hkeep : m1.get? a = some w := by
    have := replayDiffs_untouched a1 (a := a) (by rw [a2]; exact fun hm => hna (hperm.mp hm))
    unfold SnapMap.get?; rw [this]; exact hw
  exact List.mem_append_right _ (applyRemoves_reports rem h2 ha hkeep)

/-! ## A registered hook can rebuild the member table from what it hears -/

/-- All diffs sent to hook `k`, in order. -/
def diffsTo (k : Addr) : List Out → List Diff
  | [] => []
  | o :: rest => if o.hook = k then o.diffs ++ diffsTo k rest else diffsTo k rest

theorem diffsTo_append (k : Addr) (x y : List Out) : diffsTo k (x ++ y) = diffsTo k x ++ diffsTo k y := by
  induction x with
  | nil => rfl
  | cons o rest ih =>
    simp only [List.cons_append, diffsTo]
    split
    · rw [ih, List.append_assoc]
    · exact ih

theorem diffsTo_not_addressed (k : Addr) {out : List Out} (h : ∀ o ∈ out, o.hook ≠ k) : diffsTo k out = [] := by
  induction out with
  | nil => rfl
  | cons o rest ih =>
    simp only [diffsTo, h o (by simp), if_false]
    exact ih (fun o' ho' => h o' (by simp [ho']))

/-- One notification round to hooks among which `k` occurs exactly once. -/
theorem diffsTo_round (k : Addr) (ds : List Diff) (hooks : List Addr) (hn : hooks.Nodup) (hk : k ∈ hooks) :
    diffsTo k (hooks.map (hookMsg ds)) = ds := by
  induction hooks with
  | nil => cases hk
  | cons t rest ih =>
    rw [List.nodup_cons] at hn
    simp only [List.map_cons, diffsTo, hookMsg]
    by_cases e : t = k
    · subst e
      simp only [if_true]
      have : diffsTo t (rest.map (hookMsg ds)) = [] := by
        apply diffsTo_not_addressed
        intro o ho
        simp only [List.mem_map] at ho
        obtain ⟨x, hx, rfl⟩ := ho
        intro e; simp only [hookMsg] at e; subst e; exact hn.1 hx
      rw [this, List.append_nil]
    · simp only [e, if_false]
      have := ih hn.2 (by simpa [Ne.symm e] using hk)
      simpa [hookMsg] using this

/-- Head of `outs`. -/
theorem outs_cons (s : State) (op : Op) (ops : List Op) :
    outs s (op :: ops) = outOf (execute s op.height op.sender op.msg) ++ outs (stepOp s op) ops := by
  cases h : execute s op.height op.sender op.msg with
  | ok r => obtain ⟨s', out⟩ := r; simp [outs, outOf, h]
  | error e => simp [outs, outOf, h]

/-- A call either succeeds or is rolled back silently. -/
theorem stepOp_cases (s : State) (op : Op) :
    (∃ s' out, execute s op.height op.sender op.msg = .ok (s', out) ∧ stepOp s op = s' ∧
        outOf (execute s op.height op.sender op.msg) = out) ∨
    (stepOp s op = s ∧ outOf (execute s op.height op.sender op.msg) = []) := by
  cases h : execute s op.height op.sender op.msg with
  | ok r => obtain ⟨s', out⟩ := r; exact Or.inl ⟨s', out, rfl, by simp [stepOp, step, h], by simp [outOf]⟩
  | error e => exact Or.inr ⟨by simp [stepOp, step, h], by simp [outOf]⟩

/-- One successful call: what it sends to a registered hook replays the member table before the call into
the member table after it. -/
theorem replica_execute {s s' : State} {h : Nat} {snd : Addr} {msg : Msg} {out : List Out} {k : Addr}
    (he : execute s h snd msg = .ok (s', out)) (hn : s.hooks.Nodup) (hk : k ∈ s.hooks) :
    replayDiffs s.members.cur (diffsTo k out) = some s'.members.cur := by
  cases msg with
  | updateMembers rem add =>
    obtain ⟨diffs, hr, rfl⟩ := execute_updateMembers_ok.mp he
    rw [diffsTo_round k diffs s.hooks hn hk]
    exact updateMembers_replay hr
  | updateAdmin new =>
    rw [other_ops_silent he (by intro _ _ hc; cases hc), ((execute_frame he).1 _ rfl).2.1]; rfl
  | addHook a =>
    rw [other_ops_silent he (by intro _ _ hc; cases hc), ((execute_frame he).2.2.1 _ rfl).2.1]; rfl
  | removeHook a =>
    rw [other_ops_silent he (by intro _ _ hc; cases hc), ((execute_frame he).2.2.2 _ rfl).2.1]; rfl

/-- `k` is registered at every point of the history (at the start and after each call). -/
def StaysRegistered (k : Addr) (s : State) (ops : List Op) : Prop :=
  ∀ n, n ≤ ops.length → k ∈ (run s (ops.take n)).hooks

theorem staysRegistered_cons {k : Addr} {s : State} {op : Op} {rest : List Op}
    (h : StaysRegistered k s (op :: rest)) : k ∈ s.hooks ∧ StaysRegistered k (stepOp s op) rest := by
  refine ⟨by simpa using h 0 (by simp), ?_⟩
  intro n hn
  have := h (n + 1) (by simpa using hn)
  simpa using this

/-- **C14, hooks hear every change truthfully — end to end**: a hook `k` that is registered (once: every
reachable state, `reachable_hooks_nodup`) and stays registered during a history can rebuild the member table
from nothing but the messages it receives: replaying all diffs sent to it, in order, on the member table at
the start — checking every `old` against its own replica — never hits a mismatch and ends with exactly the
group's current member table.  So along whole histories (calls of any senders, failed calls, admin changes,
other hooks coming and going, failed attempts to remove `k`) no membership change goes unreported, no
reported change did not happen, and all reported weights are the true ones. -/
theorem hook_replica_registered {s : State} {k : Addr} (hn : s.hooks.Nodup) (ops : List Op)
    (hreg : StaysRegistered k s ops) :
    replayDiffs s.members.cur (diffsTo k (outs s ops)) = some (run s ops).members.cur := by
  induction ops generalizing s with
  | nil => rfl
  | cons op rest ih =>
    obtain ⟨hk, hreg'⟩ := staysRegistered_cons hreg
    have hn' : (stepOp s op).hooks.Nodup := by
      have := run_hooks_nodup hn [op]; simpa using this
    have i1 := ih hn' hreg'
    rw [outs_cons, diffsTo_append, replayDiffs_append, run_cons]
    rcases stepOp_cases s op with ⟨s', out, he, hs, ho⟩ | ⟨hs, ho⟩
    · rw [ho, replica_execute he hn hk]
      rw [hs] at i1 ⊢
      exact i1
    · rw [ho]
      rw [hs] at i1 ⊢
      exact i1

/-- A registered hook stays registered as long as no `RemoveHook` names it. -/
theorem staysRegistered_of_not_removed {s : State} {k : Addr} (hk : k ∈ s.hooks) (ops : List Op)
    (hstay : ∀ op ∈ ops, ∀ a, op.msg = .removeHook a → a.text ≠ k) : StaysRegistered k s ops := by
  induction ops generalizing s with
  | nil => intro n _; simpa using hk
  | cons op rest ih =>
    have hk' : k ∈ (stepOp s op).hooks := by
      rcases stepOp_cases s op with ⟨s', out, he, hs, _⟩ | ⟨hs, _⟩
      · rw [hs]
        have hf := execute_frame he
        obtain ⟨oh, os, om⟩ := op
        cases om with
        | updateAdmin new => rw [(hf.1 _ rfl).1]; exact hk
        | updateMembers rem add => rw [(hf.2.1 _ _ rfl).1]; exact hk
        | addHook a =>
          simp [execute, execAddHook] at he
          obtain ⟨_, _, _, rfl, _⟩ := he
          simp [hk]
        | removeHook a =>
          simp [execute, execRemoveHook] at he
          obtain ⟨_, _, _, rfl, _⟩ := he
          exact (List.mem_erase_of_ne (Ne.symm (hstay ⟨oh, os, .removeHook a⟩ (by simp) a rfl))).mpr hk
      · rw [hs]; exact hk
    have := ih hk' (fun o ho => hstay o (by simp [ho]))
    intro n hn
    cases n with
    | zero => simpa using hk
    | succ j => simpa using this j (by simpa using hn)

/-- **`hook_replica`** in the form "nobody asks to remove `k`". -/
theorem hook_replica {s : State} {k : Addr} (hn : s.hooks.Nodup) (hk : k ∈ s.hooks) (ops : List Op)
    (hstay : ∀ op ∈ ops, ∀ a, op.msg = .removeHook a → a.text ≠ k) :
    replayDiffs s.members.cur (diffsTo k (outs s ops)) = some (run s ops).members.cur :=
  hook_replica_registered hn ops (staysRegistered_of_not_removed hk ops hstay)

/-- … hence, over a whole history, the first diff a hook hears about an address carries its weight at the
start and the last one its current weight (`replayDiffs_first_last` applied to `hook_replica`). -/
theorem hook_hears_first_last {s : State} {k : Addr} (hn : s.hooks.Nodup) (ops : List Op)
    (hreg : StaysRegistered k s ops) {pre post : List Diff} {d : Diff}
    (hd : diffsTo k (outs s ops) = pre ++ d :: post) :
    (d.key ∉ pre.map (·.key) → d.old = weight s d.key) ∧
    (d.key ∉ post.map (·.key) → d.new = weight (run s ops) d.key) := by
  have := hook_replica_registered hn ops hreg
  rw [hd] at this
  exact replayDiffs_first_last this

/-! ## Authorisation over histories -/

/-- **C14, a non-admin is powerless**: a call by anybody who is not the *current* admin — a stranger, a
member, a hook, a former admin — changes nothing and notifies nobody. -/
theorem non_admin_powerless {s : State} (op : Op) (hx : s.admin ≠ some op.sender) :
    stepOp s op = s ∧ outOf (execute s op.height op.sender op.msg) = [] := by
  rcases stepOp_cases s op with ⟨s', out, he, _, _⟩ | h
  · exact absurd (execute_ok_admin he) hx
  · exact h

/-- **C14, authorisation over histories**: if a history changed anything (members, their snapshots, the
total, the hook list or the admin), then it contains a call that changed the state and whose sender was the
admin *at that moment*. -/
theorem run_change_auth {s : State} (ops : List Op) (hc : run s ops ≠ s) :
    ∃ pre op post, ops = pre ++ op :: post ∧ (run s pre).admin = some op.sender ∧
      stepOp (run s pre) op ≠ run s pre := by
  induction ops generalizing s with
  | nil => exact absurd rfl hc
  | cons op rest ih =>
    by_cases hs : stepOp s op = s
    · rw [run_cons, hs] at hc
      obtain ⟨pre, op', post, e, ha, hne⟩ := ih hc
      refine ⟨op :: pre, op', post, by rw [e]; rfl, ?_, ?_⟩
      · rw [run_cons, hs]; exact ha
      · rw [run_cons, hs]; exact hne
    · exact ⟨[], op, rest, rfl, step_change_auth op hs, hs⟩

/-- Histories in which the current admin never acts change nothing. -/
theorem run_without_admin {s : State} (ops : List Op) (hno : ∀ op ∈ ops, s.admin ≠ some op.sender) :
    run s ops = s ∧ outs s ops = [] := by
  induction ops with
  | nil => exact ⟨rfl, rfl⟩
  | cons op rest ih =>
    obtain ⟨h1, h2⟩ := non_admin_powerless op (hno op (by simp))
    obtain ⟨i1, i2⟩ := ih (fun o ho => hno o (by simp [ho]))
    rw [run_cons, outs_cons, h1, h2]
    exact ⟨i1, i2⟩

/-! ## Non-vacuity of the review-round theorems -/

def outDiffs (r : Res (State × List Diff)) : List Diff := match r with | .ok (_, d) => d | .error _ => []

example : outDiffs (updateMembers exHooked 11 "adm" [⟨true, "carol"⟩, ⟨true, "dave"⟩, ⟨true, "bob"⟩]
    [(⟨true, "carol"⟩, 1), (⟨true, "alice"⟩, 5)]) = exDiffs := by decide

/-- `diffs_first_last` / `removed_reported` on `exUpdate`: bob (removed, not added) is reported as
`(bob, 3, none)`; carol is named twice — the first entry has her old weight (none), the last her new one (none) -/
example : ∃ s', updateMembers exHooked 11 "adm" [⟨true, "carol"⟩, ⟨true, "dave"⟩, ⟨true, "bob"⟩]
      [(⟨true, "carol"⟩, 1), (⟨true, "alice"⟩, 5)] = .ok (s', exDiffs) ∧
    (⟨"bob", some 3, none⟩ : Diff) ∈ exDiffs ∧ weight s' "bob" = none := by
  obtain ⟨s', out, he⟩ : ∃ s' out, execute exHooked 11 "adm" exUpdate = .ok (s', out) := ⟨_, _, rfl⟩
  obtain ⟨diffs, hr, _⟩ := execute_updateMembers_ok.mp he
  have hd : diffs = exDiffs := by
    have : outDiffs (updateMembers exHooked 11 "adm" [⟨true, "carol"⟩, ⟨true, "dave"⟩, ⟨true, "bob"⟩]
      [(⟨true, "carol"⟩, 1), (⟨true, "alice"⟩, 5)]) = diffs := by rw [hr]; rfl
    rw [← this]; decide
  subst hd
  refine ⟨s', hr, removed_reported hr (a := "bob") (by decide) (by decide) (w := 3) (by decide), ?_⟩
  have := (diffs_first_last hr (pre := [⟨"alice", some 5, some 5⟩, ⟨"carol", none, some 1⟩, ⟨"carol", some 1, none⟩])
    (post := []) (d := ⟨"bob", some 3, none⟩) rfl).2 (by decide)
  exact this.symm

/-- two hooks; h1 is removed and re-added in between, h2 stays (a stranger's attempt to remove it fails) -/
def exHistory : List Op :=
  [⟨11, "adm", exUpdate⟩, ⟨11, "adm", .removeHook ⟨true, "h1"⟩⟩, ⟨12, "bob", .removeHook ⟨true, "h2"⟩⟩,
   ⟨12, "adm", .updateMembers [⟨true, "alice"⟩] [(⟨true, "erin"⟩, 7)]⟩, ⟨13, "adm", .addHook ⟨true, "h1"⟩⟩,
   ⟨13, "adm", .updateMembers [] [(⟨true, "erin"⟩, 8)]⟩]

example : (run exHooked exHistory).members.cur = [("erin", 8)] ∧ (run exHooked exHistory).hooks = ["h2", "h1"] := by
  decide
example : diffsTo "h2" (outs exHooked exHistory)
    = exDiffs ++ [⟨"erin", none, some 7⟩, ⟨"alice", some 5, none⟩, ⟨"erin", some 7, some 8⟩] := by decide
/-- h2 hears everything and rebuilds `[("erin", 8)]` -/
example : replayDiffs exHooked.members.cur (diffsTo "h2" (outs exHooked exHistory))
    = some (run exHooked exHistory).members.cur :=
  hook_replica_registered (k := "h2") (by decide) exHistory (by unfold StaysRegistered; decide)
/-- h1 missed the second update: its replica fails on the first diff it hears after re-registration
(`erin: 7 → 8` while it never heard of erin) — staying registered is necessary -/
example : replayDiffs exHooked.members.cur (diffsTo "h1" (outs exHooked exHistory)) = none := by decide

/-- a replaced admin retries everything: nothing changes, nobody is notified -/
def exHandedOver : State := step exHooked 12 "adm" (.updateAdmin (some ⟨true, "newadm"⟩))
def exRetry : List Op :=
  [⟨13, "adm", exUpdate⟩, ⟨13, "adm", .updateAdmin (some ⟨true, "adm"⟩)⟩, ⟨13, "adm", .removeHook ⟨true, "h1"⟩⟩,
   ⟨14, "bob", .addHook ⟨true, "h3"⟩⟩]
example : exHandedOver.admin = some "newadm" := by decide
example : run exHandedOver exRetry = exHandedOver ∧ outs exHandedOver exRetry = [] :=
  run_without_admin exRetry (by decide)
/-- … while the new admin's call does change the state (`run_change_auth` is not vacuous) -/
example : ∃ pre op post, exRetry ++ [⟨14, "newadm", exUpdate⟩] = pre ++ op :: post ∧
    (run exHandedOver pre).admin = some op.sender ∧ stepOp (run exHandedOver pre) op ≠ run exHandedOver pre :=
  run_change_auth _ (by
    intro h
    have : (run exHandedOver (exRetry ++ [⟨14, "newadm", exUpdate⟩])).members.cur = exHandedOver.members.cur := by rw [h]
    revert this; decide)

end CwPlus.Props.C14
