import CwPlus.Model.Cw4Group
import CwPlus.Lemmas.Cw4Group
/-!
# C14 — cw4: only the admin changes a group, and hooks hear every change truthfully (cw4-group part)

* `change_auth` / `step_change_auth`: membership, hook list and admin change only through calls by the
  current admin; `admin_none_frozen`: once the admin is cleared nothing changes ever again.
* `diffs_truthful`: a successful `UpdateMembers` sends `hooks.map (hookMsg diffs)` where replaying `diffs`
  one after the other on the old member map — each `old` being checked against the weight held
  immediately before that diff — yields exactly the new member map; addresses not mentioned are unchanged;
  only addresses of the call are mentioned and every added address is.
* `one_msg_per_hook`, `removed_hook_silent`, `other_ops_silent`.
-/
namespace CwPlus.Props.C14
open CwPlus CwPlus.Cw4Group CwPlus.Snapshot

/-! ## Authorisation -/

/-- Every call that succeeds was sent by the current admin. -/
theorem execute_ok_admin {s s' : State} {h : Nat} {snd : Addr} {msg : Msg} {out : List Out}
    (he : execute s h snd msg = .ok (s', out)) : s.admin = some snd := by
  cases msg <;> simp only [execute] at he
  case updateAdmin new =>
    simp [execUpdateAdmin, isAdmin] at he
    obtain ⟨_, _, ha, _⟩ := he; exact ha
  case updateMembers rem add =>
    simp [execUpdateMembers] at he
    obtain ⟨r, ds, hr, _⟩ := he
    unfold updateMembers at hr
    simp only [check_bind_ok] at hr
    simpa [isAdmin] using hr.2.1
  case addHook a =>
    simp [execAddHook, isAdmin] at he
    exact he.2.1
  case removeHook a =>
    simp [execRemoveHook, isAdmin] at he
    exact he.2.1

/-- **C14, authorisation**: if a successful call changed the membership, the hook list or the admin, its
sender was the current admin. -/
theorem change_auth {s s' : State} {h : Nat} {snd : Addr} {msg : Msg} {out : List Out}
    (he : execute s h snd msg = .ok (s', out))
    (_hc : s'.members.cur ≠ s.members.cur ∨ s'.hooks ≠ s.hooks ∨ s'.admin ≠ s.admin) : s.admin = some snd :=
  execute_ok_admin he

/-- The same for transactions (a failed call is rolled back and changes nothing): any difference in
members (current weights *or* snapshots), total, hooks or admin means the sender was the admin. -/
theorem step_change_auth {s : State} (op : Op) (hc : stepOp s op ≠ s) : s.admin = some op.sender := by
  unfold stepOp step at hc
  split at hc
  · rename_i s' out he; exact execute_ok_admin he
  · exact absurd rfl hc

/-- What each kind of call may change: `UpdateAdmin` only the admin, `AddHook`/`RemoveHook` only the hook
list, `UpdateMembers` only members and total. -/
theorem execute_frame {s s' : State} {h : Nat} {snd : Addr} {msg : Msg} {out : List Out}
    (he : execute s h snd msg = .ok (s', out)) :
    (∀ new, msg = .updateAdmin new → s'.hooks = s.hooks ∧ s'.members = s.members ∧ s'.total = s.total)
    ∧ (∀ rem add, msg = .updateMembers rem add → s'.hooks = s.hooks ∧ s'.admin = s.admin)
    ∧ (∀ a, msg = .addHook a → s'.admin = s.admin ∧ s'.members = s.members ∧ s'.total = s.total)
    ∧ (∀ a, msg = .removeHook a → s'.admin = s.admin ∧ s'.members = s.members ∧ s'.total = s.total) := by
  refine ⟨?_, ?_, ?_, ?_⟩ <;> intros <;> subst_vars <;> simp only [execute] at he
  · simp [execUpdateAdmin] at he
    obtain ⟨_, _, _, rfl, _⟩ := he; exact ⟨rfl, rfl, rfl⟩
  · simp [execUpdateMembers] at he
    obtain ⟨r, ds, hr, rfl, _⟩ := he
    unfold updateMembers at hr
    simp only [check_bind_ok] at hr
    obtain ⟨_, _, hr⟩ := hr
    split at hr
    · cases hr
    · simp at hr
      obtain ⟨_, _, _, _, _, _, _, _, rfl, _⟩ := hr
      exact ⟨rfl, rfl⟩
  · simp [execAddHook] at he
    obtain ⟨_, _, _, rfl, _⟩ := he; exact ⟨rfl, rfl, rfl⟩
  · simp [execRemoveHook] at he
    obtain ⟨_, _, _, rfl, _⟩ := he; exact ⟨rfl, rfl, rfl⟩

/-- With no admin every call fails. -/
theorem execute_fails_without_admin {s : State} (hn : s.admin = none) (h : Nat) (snd : Addr) (msg : Msg) :
    ∀ r, execute s h snd msg ≠ .ok r := by
  intro r he
  obtain ⟨s', out⟩ := r
  have := execute_ok_admin he
  rw [hn] at this; cases this

/-- **C14, frozen forever**: once the admin is cleared, no history of calls — by the former admin, by
strangers, at any heights — changes anything: members (with their snapshots), total, hooks and admin all stay. -/
theorem admin_none_frozen {s : State} (hn : s.admin = none) (ops : List Op) : run s ops = s := by
  induction ops with
  | nil => rfl
  | cons op ops ih =>
    have : stepOp s op = s := by
      unfold stepOp step
      split
      · rename_i s' out he; exact absurd he (execute_fails_without_admin hn _ _ _ _)
      · rfl
    rw [run_cons, this]; exact ih

/-- … and no hook message is ever sent again. -/
theorem admin_none_silent {s : State} (hn : s.admin = none) (ops : List Op) : outs s ops = [] := by
  induction ops with
  | nil => rfl
  | cons op ops ih =>
    have hs : stepOp s op = s := by
      have := admin_none_frozen hn [op]; simpa using this
    simp only [outs, hs, ih, List.append_nil]
    split
    · rename_i s' out he; exact absurd he (execute_fails_without_admin hn _ _ _ _)
    · rfl

/-! ## Truthful diffs -/

/-- The membership change a single diff describes. -/
def applyDiff (m : AMap Addr Nat) (d : Diff) : AMap Addr Nat :=
  match d.new with
  | some w => m.set d.key w
  | none => m.erase d.key

/-- Replay diffs one after the other; fails unless every `old` is the weight held immediately before it. -/
def replayDiffs : AMap Addr Nat → List Diff → Option (AMap Addr Nat)
  | m, [] => some m
  | m, d :: ds => if m.get? d.key = d.old then replayDiffs (applyDiff m d) ds else none

theorem replayDiffs_append (m : AMap Addr Nat) (d1 d2 : List Diff) :
    replayDiffs m (d1 ++ d2) = (replayDiffs m d1).bind (fun m' => replayDiffs m' d2) := by
  induction d1 generalizing m with
  | nil => rfl
  | cons d ds ih =>
    simp only [List.cons_append, replayDiffs]
    split
    · exact ih _
    · rfl

/-- Addresses no diff mentions keep their weight. -/
theorem replayDiffs_untouched {m m' : AMap Addr Nat} {ds : List Diff} (hr : replayDiffs m ds = some m')
    {a : Addr} (ha : a ∉ ds.map (·.key)) : m'.get? a = m.get? a := by
  induction ds generalizing m with
  | nil => simp [replayDiffs] at hr; rw [hr]
  | cons d ds ih =>
    simp only [replayDiffs] at hr
    split at hr
    · simp only [List.map_cons, List.mem_cons, not_or] at ha
      rw [ih hr ha.2]
      unfold applyDiff
      split
      · exact AMap.get?_set_ne _ _ _ _ (Ne.symm ha.1)
      · exact AMap.get?_erase_ne _ _ _ (Ne.symm ha.1)
    · cases hr

/-- The add loop: one diff per entry, in processing order, each with the weight read just before the write. -/
theorem applyAdds_replay {h : Nat} (l : List (AddrArg × Nat)) {m m' : SnapMap Addr Nat} {t t' : Nat} {ds : List Diff}
    (hc : applyAdds h l m t = .ok (m', t', ds)) :
    replayDiffs m.cur ds = some m'.cur ∧ ds.map (·.key) = l.map (·.1.text) ∧ ∀ d ∈ ds, d.new ≠ none := by
  induction l generalizing m t m' t' ds with
  | nil => simp [applyAdds] at hc; obtain ⟨rfl, _, rfl⟩ := hc; simp [replayDiffs]
  | cons p rest ih =>
    obtain ⟨a, w⟩ := p
    simp [applyAdds] at hc
    obtain ⟨_, _, _, r, t2, d2, hr, rfl, _, rfl⟩ := hc
    obtain ⟨h1, h2, h3⟩ := ih hr
    refine ⟨?_, by simp [h2], ?_⟩
    · simp only [replayDiffs, SnapMap.get?, if_true, applyDiff]
      exact h1
    · intro d hd
      rcases List.mem_cons.mp hd with rfl | hd
      · simp
      · exact h3 d hd

/-- The remove loop: one diff per address that was a member at that moment. -/
theorem applyRemoves_replay {h : Nat} (l : List AddrArg) {m m' : SnapMap Addr Nat} {t t' : Nat} {ds : List Diff}
    (hc : applyRemoves h l m t = .ok (m', t', ds)) :
    replayDiffs m.cur ds = some m'.cur ∧ ∀ d ∈ ds, d.key ∈ l.map (·.text) ∧ d.old ≠ none := by
  induction l generalizing m t m' t' ds with
  | nil => simp [applyRemoves] at hc; obtain ⟨rfl, _, rfl⟩ := hc; simp [replayDiffs]
  | cons a rest ih =>
    simp only [applyRemoves, check_bind_ok] at hc
    obtain ⟨_, hc⟩ := hc
    split at hc
    · obtain ⟨h1, h2⟩ := ih hc
      exact ⟨h1, fun d hd => ⟨by simp [(h2 d hd).1], (h2 d hd).2⟩⟩
    · rename_i w hw
      simp at hc
      obtain ⟨_, r, t2, d2, hr, rfl, _, rfl⟩ := hc
      obtain ⟨h1, h2⟩ := ih hr
      refine ⟨?_, ?_⟩
      · simp only [SnapMap.get?] at hw
        simp only [replayDiffs, hw, if_true, applyDiff]
        exact h1
      · intro d hd
        rcases List.mem_cons.mp hd with rfl | hd
        · simp
        · exact ⟨by simp [(h2 d hd).1], (h2 d hd).2⟩

/-- **C14, truthful notifications.**  A successful `UpdateMembers { remove, add }` emits exactly
`hooks.map (hookMsg diffs)` for one list `diffs` such that
* replaying `diffs` sequentially on the old member map, checking every `old` against the weight held
  immediately before that diff, succeeds and yields exactly the new member map (so every reported previous
  and new weight is true, also for overlapping add/remove lists and re-weights to the same value, and no
  reported change did not happen);
* addresses not mentioned in `diffs` keep their weight;
* only addresses of the call are mentioned, every added address is mentioned, and no entry is `none → none`;
* admin and hooks are unchanged. -/
theorem diffs_truthful {s s' : State} {h : Nat} {snd : Addr} {rem : List AddrArg} {add : List (AddrArg × Nat)}
    {out : List Out} (he : execute s h snd (.updateMembers rem add) = .ok (s', out)) :
    ∃ diffs : List Diff,
      out = s.hooks.map (hookMsg diffs)
      ∧ replayDiffs s.members.cur diffs = some s'.members.cur
      ∧ (∀ a, a ∉ diffs.map (·.key) → weight s' a = weight s a)
      ∧ (∀ d ∈ diffs, d.key ∈ add.map (·.1.text) ∨ d.key ∈ rem.map (·.text))
      ∧ (∀ a ∈ add.map (·.1.text), a ∈ diffs.map (·.key))
      ∧ (∀ d ∈ diffs, ¬ (d.old = none ∧ d.new = none))
      ∧ s'.admin = s.admin ∧ s'.hooks = s.hooks := by
  simp [execute, execUpdateMembers] at he
  obtain ⟨r, ds, hr, rfl, rfl⟩ := he
  unfold updateMembers at hr
  simp only [check_bind_ok] at hr
  obtain ⟨_, _, hr⟩ := hr
  split at hr
  · cases hr
  · simp at hr
    obtain ⟨m1, t1, d1, h1, m2, t2, d2, h2, rfl, rfl⟩ := hr
    obtain ⟨a1, a2, a3⟩ := applyAdds_replay _ h1
    obtain ⟨r1, r2⟩ := applyRemoves_replay _ h2
    have hrep : replayDiffs s.members.cur (d1 ++ d2) = some m2.cur := by
      rw [replayDiffs_append, a1]; exact r1
    have hperm : ∀ x, x ∈ (sortMembers add).map (·.1.text) ↔ x ∈ add.map (·.1.text) :=
      fun x => ((sortMembers_perm add).map (·.1.text)).mem_iff
    refine ⟨d1 ++ d2, rfl, hrep, ?_, ?_, ?_, ?_, rfl, rfl⟩
    · intro a ha
      exact replayDiffs_untouched hrep ha
    · intro d hd
      rcases List.mem_append.mp hd with hd | hd
      · left
        apply (hperm d.key).mp
        rw [← a2]; exact List.mem_map.mpr ⟨d, hd, rfl⟩
      · right; exact (r2 d hd).1
    · intro a ha
      have : a ∈ d1.map (·.key) := by rw [a2]; exact (hperm a).mpr ha
      simp only [List.map_append, List.mem_append]; exact Or.inl this
    · intro d hd hnn
      rcases List.mem_append.mp hd with hd | hd
      · exact a3 d hd hnn.2
      · exact (r2 d hd).2 hnn.1

/-- **C14, one notification per hook**: a successful `UpdateMembers` addresses the registered hooks, in
registration order, one message each, all carrying the same diffs (also when the diffs are empty). -/
theorem one_msg_per_hook {s s' : State} {h : Nat} {snd : Addr} {rem : List AddrArg} {add : List (AddrArg × Nat)}
    {out : List Out} (he : execute s h snd (.updateMembers rem add) = .ok (s', out)) :
    out.map (·.hook) = s.hooks ∧ out.length = s.hooks.length
      ∧ ∃ diffs, ∀ o ∈ out, o.diffs = diffs := by
  obtain ⟨diffs, rfl, _⟩ := diffs_truthful he
  refine ⟨by simp [hookMsg, Function.comp_def], by simp, diffs, ?_⟩
  intro o ho
  simp [hookMsg] at ho
  obtain ⟨_, _, rfl⟩ := ho; rfl

/-- **C14, no other notification**: `UpdateAdmin`, `AddHook`, `RemoveHook` never emit a message (and a
failed call emits nothing because it is rolled back). -/
theorem other_ops_silent {s s' : State} {h : Nat} {snd : Addr} {msg : Msg} {out : List Out}
    (he : execute s h snd msg = .ok (s', out)) (hm : ∀ rem add, msg ≠ .updateMembers rem add) : out = [] := by
  cases msg <;> simp only [execute] at he
  case updateAdmin new =>
    simp [execUpdateAdmin] at he
    obtain ⟨_, _, _, _, rfl⟩ := he; rfl
  case updateMembers rem add => exact absurd rfl (hm rem add)
  case addHook a =>
    simp [execAddHook] at he
    obtain ⟨_, _, _, _, rfl⟩ := he; rfl
  case removeHook a =>
    simp [execRemoveHook] at he
    obtain ⟨_, _, _, _, rfl⟩ := he; rfl

/-- Every message of a successful call goes to a hook that was registered when the call was made. -/
theorem out_to_registered {s s' : State} {h : Nat} {snd : Addr} {msg : Msg} {out : List Out}
    (he : execute s h snd msg = .ok (s', out)) : ∀ o ∈ out, o.hook ∈ s.hooks := by
  intro o ho
  cases msg
  case updateMembers rem add =>
    obtain ⟨hh, _⟩ := one_msg_per_hook he
    rw [← hh]; exact List.mem_map.mpr ⟨o, ho, rfl⟩
  all_goals (rw [other_ops_silent he (by intro _ _ hc; cases hc)] at ho; cases ho)

/-! ## Hooks: registered once, silent after removal -/

/-- The hook list never holds an address twice. -/
theorem execute_hooks_nodup {s s' : State} {h : Nat} {snd : Addr} {msg : Msg} {out : List Out}
    (hn : s.hooks.Nodup) (he : execute s h snd msg = .ok (s', out)) : s'.hooks.Nodup := by
  have hf := execute_frame he
  cases msg
  case updateAdmin new => rw [(hf.1 _ rfl).1]; exact hn
  case updateMembers rem add => rw [(hf.2.1 _ _ rfl).1]; exact hn
  case addHook a =>
    simp [execute, execAddHook] at he
    obtain ⟨_, _, hnm, rfl, _⟩ := he
    simp only
    rw [List.nodup_append]
    refine ⟨hn, by simp, ?_⟩
    intro x hx y hy
    simp at hy; subst hy
    intro e; subst e; exact hnm hx
  case removeHook a =>
    simp [execute, execRemoveHook] at he
    obtain ⟨_, _, _, rfl, _⟩ := he
    exact hn.erase _

theorem instantiate_hooks {msg : InstMsg} {h0 : Nat} {s0 : State} (hi : instantiate msg h0 = .ok s0) :
    s0.hooks = [] := by
  simp [instantiate, create] at hi
  obtain ⟨_, adm, _, m, t, _, rfl⟩ := hi
  rfl

theorem run_hooks_nodup {s : State} (hn : s.hooks.Nodup) (ops : List Op) : (run s ops).hooks.Nodup := by
  induction ops generalizing s with
  | nil => exact hn
  | cons op ops ih =>
    apply ih
    unfold stepOp step
    split
    · rename_i s' out he; exact execute_hooks_nodup hn he
    · exact hn

/-- On every reachable state each hook is registered exactly once, so "one message per entry of the hook
list" is "exactly one message per registered hook". -/
theorem reachable_hooks_nodup {msg : InstMsg} {h0 : Nat} {s0 : State} (hi : instantiate msg h0 = .ok s0)
    (ops : List Op) : (run s0 ops).hooks.Nodup :=
  run_hooks_nodup (by rw [instantiate_hooks hi]; exact List.nodup_nil) ops

/-- A successful `RemoveHook` really removes the hook. -/
theorem removeHook_not_mem {s s' : State} {h : Nat} {snd : Addr} {a : AddrArg} {out : List Out}
    (hn : s.hooks.Nodup) (he : execute s h snd (.removeHook a) = .ok (s', out)) : a.text ∉ s'.hooks := by
  simp [execute, execRemoveHook] at he
  obtain ⟨_, _, _, rfl, _⟩ := he
  exact fun hm => (List.Nodup.mem_erase_iff hn).mp hm |>.1 rfl

/-- A hook that is not registered stays unregistered, and unnotified, as long as no `AddHook` names it. -/
theorem unregistered_silent {s : State} {k : Addr} (hk : k ∉ s.hooks) (ops : List Op)
    (hno : ∀ op ∈ ops, ∀ a, op.msg = .addHook a → a.text ≠ k) :
    k ∉ (run s ops).hooks ∧ ∀ o ∈ outs s ops, o.hook ≠ k := by
  induction ops generalizing s with
  | nil => exact ⟨hk, by simp [outs]⟩
  | cons op ops ih =>
    have hstep : k ∉ (stepOp s op).hooks := by
      obtain ⟨oh, os, om⟩ := op
      unfold stepOp step
      simp only
      split
      · rename_i s' out he
        have hf := execute_frame he
        cases om with
        | updateAdmin new => rw [(hf.1 _ rfl).1]; exact hk
        | updateMembers rem add => rw [(hf.2.1 _ _ rfl).1]; exact hk
        | addHook a =>
          simp [execute, execAddHook] at he
          obtain ⟨_, _, _, rfl, _⟩ := he
          have := hno ⟨oh, os, .addHook a⟩ (by simp) a rfl
          simp only [List.mem_append, List.mem_singleton, not_or]
          exact ⟨hk, fun e => this e.symm⟩
        | removeHook a =>
          simp [execute, execRemoveHook] at he
          obtain ⟨_, _, _, rfl, _⟩ := he
          exact fun hmem => hk (List.mem_of_mem_erase hmem)
      · exact hk
    obtain ⟨i1, i2⟩ := ih hstep (fun o ho => hno o (by simp [ho]))
    refine ⟨i1, ?_⟩
    intro o ho
    simp only [outs, List.mem_append] at ho
    rcases ho with ho | ho
    · split at ho
      · rename_i s' out he
        intro e; subst e
        exact hk (out_to_registered he o ho)
      · cases ho
    · exact i2 o ho

/-- **C14, a removed hook is no longer notified**: after a successful `RemoveHook { addr }` no later call of
any history sends `addr` a message, unless and until an `AddHook` registers it again. -/
theorem removed_hook_silent {s s' : State} {h : Nat} {snd : Addr} {a : AddrArg} {out : List Out}
    (hn : s.hooks.Nodup) (he : execute s h snd (.removeHook a) = .ok (s', out)) (ops : List Op)
    (hno : ∀ op ∈ ops, ∀ b, op.msg = .addHook b → b.text ≠ a.text) :
    out = [] ∧ ∀ o ∈ outs s' ops, o.hook ≠ a.text :=
  ⟨other_ops_silent he (by intro _ _ hc; cases hc), (unregistered_silent (removeHook_not_mem hn he) ops hno).2⟩

/-! ## Non-vacuity: concrete states on which the hypotheses hold and the conclusions are non-trivial -/

def exInst : InstMsg := { admin := some ⟨true, "adm"⟩, members := [(⟨true, "bob"⟩, 3), (⟨true, "alice"⟩, 5)] }

def exState : State := (match instantiate exInst 10 with | .ok s => s | .error _ => State.empty)

/-- two hooks registered -/
def exHooked : State := run exState [⟨10, "adm", .addHook ⟨true, "h1"⟩⟩, ⟨10, "adm", .addHook ⟨true, "h2"⟩⟩]

def outOf (r : Res (State × List Out)) : List Out := match r with | .ok (_, out) => out | .error _ => []

/-- overlapping add/remove lists (`carol` is added and removed), a re-weight to the same value (`alice`),
the removal of a non-member (`dave`) and of a member (`bob`) -/
def exUpdate : Msg :=
  .updateMembers [⟨true, "carol"⟩, ⟨true, "dave"⟩, ⟨true, "bob"⟩] [(⟨true, "carol"⟩, 1), (⟨true, "alice"⟩, 5)]

def exDiffs : List Diff :=
  [⟨"alice", some 5, some 5⟩, ⟨"carol", none, some 1⟩, ⟨"carol", some 1, none⟩, ⟨"bob", some 3, none⟩]

example : instantiate exInst 10 = .ok exState := by rfl
example : exHooked.hooks = ["h1", "h2"] ∧ exHooked.admin = some "adm" := by decide

example : (execute exHooked 11 "adm" exUpdate).isOk = true
    ∧ outOf (execute exHooked 11 "adm" exUpdate) = [hookMsg exDiffs "h1", hookMsg exDiffs "h2"]
    ∧ replayDiffs exHooked.members.cur exDiffs = some [("alice", 5)]
    ∧ (step exHooked 11 "adm" exUpdate).members.cur = [("alice", 5)] := by decide

/-- a stranger and the (validly formed) call of a non-admin member change nothing and notify nobody -/
example : (execute exHooked 11 "bob" exUpdate).isOk = false
    ∧ (execute exHooked 11 "h1" (.removeHook ⟨true, "h1"⟩)).isOk = false
    ∧ (execute exHooked 11 "alice" (.updateAdmin (some ⟨true, "alice"⟩))).isOk = false := by decide

/-- an empty update still notifies every hook (with no diffs) -/
example : outOf (execute exHooked 11 "adm" (.updateMembers [] [])) = [hookMsg [] "h1", hookMsg [] "h2"] := by decide

/-- after `RemoveHook h1` only `h2` hears the next update; after clearing the admin everything fails -/
example :
    let s1 := step exHooked 12 "adm" (.removeHook ⟨true, "h1"⟩)
    outOf (execute s1 12 "adm" exUpdate) = [hookMsg exDiffs "h2"]
    ∧ (let s2 := step s1 13 "adm" (.updateAdmin none)
       s2.admin = none ∧ (execute s2 13 "adm" exUpdate).isOk = false
       ∧ (execute s2 13 "adm" (.updateAdmin (some ⟨true, "adm"⟩))).isOk = false) := by decide

/-- the theorems apply -/
example : ∃ s' out, execute exHooked 11 "adm" exUpdate = .ok (s', out) ∧ s'.members.cur ≠ exHooked.members.cur :=
  ⟨_, _, rfl, by decide⟩

example : (run exState [⟨10, "adm", .addHook ⟨true, "h1"⟩⟩, ⟨11, "adm", .addHook ⟨true, "h1"⟩⟩]).hooks.Nodup :=
  reachable_hooks_nodup (msg := exInst) (h0 := 10) rfl _

end CwPlus.Props.C14
