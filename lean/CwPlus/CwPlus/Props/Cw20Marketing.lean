import CwPlus.Props.C01
import CwPlus.Lemmas.Cw20Marketing
/-!
# cw20-base marketing info and logo (extra obligations, not one of C01–C20)

`UpdateMarketing`, `UploadLogo`, the marketing part of `instantiate`, `MarketingInfo`, `DownloadLogo`
and the logo validators are part of the model `CwPlus.Cw20`.  This file proves

* **frame, both ways**: the two marketing messages never touch supply, balances, either allowance map,
  the minter or the contract version and emit no message (`marketing_ops_frame`); the ten token
  messages and `migrate` never touch `MARKETING_INFO` / `LOGO` (`token_ops_frame`, `migrate_frame`);
* **authorisation**: a call changes marketing info or logo only if its sender is the stored
  marketing address (`only_marketing_address`), exactly-when statements for both handlers
  (`update_marketing_ok_iff`, `upload_logo_ok_iff`); once there is no marketing address, marketing info
  and logo are frozen over every history (`frozen_without_marketing_address`);
* **stored logos are valid**: over every accepted instantiation and every history, the stored logo
  passes `verifyLogo`, an embedded one is at most `LOGO_SIZE_CAP` bytes and has the XML preamble /
  PNG header, and `MarketingInfo.logo` describes the stored logo (`reach_logo_inv`,
  `stored_logo_valid`); `DownloadLogo` answers exactly for embedded logos, with the stored bytes
  (`download_logo_iff`);
* **update semantics**: absent keeps, blank clears, other text replaces (`update_marketing_exact`,
  `updText_*`), the item is removed exactly when everything is empty;
* what `verify_xml_preamble` accepts, as a statement about the bytes (`xml_preamble_iff`).

Histories are `C01.run` (any senders, any messages, failed calls rolled back).
-/
namespace CwPlus.Props.Cw20Marketing
open CwPlus CwPlus.Cw20
open CwPlus.Props.C01 (run)

/-- The two marketing messages. -/
def isMarketingMsg : Msg → Bool
  | .updateMarketing .. => true
  | .uploadLogo _ => true
  | _ => false

/-! ## Frame -/

/-- **Frame for C01/C02/C13/C19**: a successful `UpdateMarketing` / `UploadLogo` leaves the supply,
every balance, both allowance maps, the minter and the version untouched and emits no message. -/
theorem marketing_ops_frame {s s' : State} {blk : Block} {snd : Addr} {msg : Msg} {out : List Out}
    (hm : isMarketingMsg msg = true) (h : execute s blk snd msg = .ok (s', out)) :
    s'.supply = s.supply ∧ s'.balances = s.balances ∧ s'.allow = s.allow ∧ s'.allowSp = s.allowSp
      ∧ s'.mint = s.mint ∧ s'.version = s.version ∧ out = [] := by
  cases msg <;> simp [isMarketingMsg] at hm <;> simp only [execute] at h
  · obtain ⟨mk, rfl, rfl⟩ := execUpdateMarketing_frame h; simp
  · obtain ⟨mk, rfl, rfl⟩ := execUploadLogo_frame h; simp

theorem deduct_mk {s s1 : State} {blk : Block} {o sp : Addr} {amt : Nat}
    (h : deduct s blk o sp amt = .ok s1) : s1.marketing = s.marketing ∧ s1.logo = s.logo := by
  simp [deduct] at h
  obtain ⟨a1, _, a2, _, rfl⟩ := h
  simp

/-- **Converse frame**: none of the ten token messages (transfers, sends, burns, mint, minter and
allowance updates, draws) changes `MARKETING_INFO` or `LOGO`. -/
theorem token_ops_frame {s s' : State} {blk : Block} {snd : Addr} {msg : Msg} {out : List Out}
    (hm : isMarketingMsg msg = false) (h : execute s blk snd msg = .ok (s', out)) :
    s'.marketing = s.marketing ∧ s'.logo = s.logo := by
  cases msg <;> simp [isMarketingMsg] at hm <;> simp only [execute] at h
  case transfer to amt =>
    simp [execTransfer] at h
    obtain ⟨_, b1, h1, b2, h2, rfl, _⟩ := h; simp
  case burn amt =>
    simp [execBurn] at h
    obtain ⟨b1, h1, hle, rfl, _⟩ := h; simp
  case send c amt p =>
    simp [execSend] at h
    obtain ⟨_, b1, h1, b2, h2, rfl, _⟩ := h; simp
  case mint to amt =>
    unfold execMint at h
    split at h
    · simp at h
    · simp at h
      obtain ⟨_, hle, _, _, b, h1, rfl, _⟩ := h; simp
  case updateMinter new =>
    unfold execUpdateMinter at h
    split at h
    · simp at h
    · split at h
      · simp at h; obtain ⟨_, rfl, _⟩ := h; simp
      · simp at h; obtain ⟨_, _, rfl, _⟩ := h; simp
  case increaseAllowance sp amt e =>
    simp [execIncreaseAllowance] at h
    obtain ⟨_, _, a1, _, a2, _, rfl, _⟩ := h; simp
  case decreaseAllowance sp amt e =>
    unfold execDecreaseAllowance at h
    simp at h
    obtain ⟨_, _, h⟩ := h
    split at h
    · simp at h
    · split at h
      · simp at h; obtain ⟨e', _, rfl, _⟩ := h; simp
      · simp at h; obtain ⟨rfl, _⟩ := h; simp
  case transferFrom o to amt =>
    simp [execTransferFrom] at h
    obtain ⟨_, _, s1, hd, b1, h1, b2, h2, rfl, _⟩ := h
    simpa using deduct_mk hd
  case burnFrom o amt =>
    simp [execBurnFrom] at h
    obtain ⟨_, s1, hd, b1, h1, hle, rfl, _⟩ := h
    simpa using deduct_mk hd
  case sendFrom o c amt p =>
    simp [execSendFrom] at h
    obtain ⟨_, _, s1, hd, b1, h1, b2, h2, rfl, _⟩ := h
    simpa using deduct_mk hd

/-- `migrate` (version bookkeeping, rebuild of the spender map) never touches marketing info or logo. -/
theorem migrate_frame {s s' : State} (h : migrate s = .ok s') :
    s'.marketing = s.marketing ∧ s'.logo = s.logo := by
  unfold migrate at h
  simp only [check_bind_ok] at h
  obtain ⟨_, _, h⟩ := h
  split at h <;> simp at h <;> subst h <;> simp

/-! ## Authorisation -/

/-- The address allowed to change marketing info and logo: the `marketing` field of the stored
`MARKETING_INFO`, if both exist. -/
def marketingAddr (s : State) : Option Addr := s.marketing.bind (·.marketing)

/-- **Exactly when `UpdateMarketing` succeeds**: the sender is the stored marketing address and the
new marketing address, if one is given and not blank, validates. -/
theorem update_marketing_ok_iff {s : State} {snd : Addr} {p d : Option String} {m : Option AddrArg} :
    (∃ r, execUpdateMarketing s snd p d m = .ok r) ↔
      (marketingAddr s = some snd ∧ ∀ a, m = some a → isBlank a.text = false → a.valid = true) := by
  unfold execUpdateMarketing marketingAddr
  rcases hs : s.marketing with _ | mi
  · simp
  · rcases hmk : mi.marketing with _ | owner
    · simp [hmk]
    · simp only [Option.bind_some, hmk, Option.some.injEq]
      by_cases ho : owner = snd
      · subst ho
        rcases m with _ | a
        · simp [updAddr, check]; try (split <;> simp)
        · by_cases hb : isBlank a.text = true
          · simp [updAddr, check, hb]; try (split <;> simp)
          · by_cases hv : a.valid = true
            · simp [updAddr, check, hb, hv]; try (split <;> simp)
            · simp [updAddr, check, hb, hv, bind, Except.bind]
      · simp [check, ho, bind, Except.bind]

/-- **Exactly when `UploadLogo` succeeds**: the sender is the stored marketing address and the logo
passes `verify_logo`. -/
theorem upload_logo_ok_iff {s : State} {snd : Addr} {l : Logo} :
    (∃ r, execUploadLogo s snd l = .ok r) ↔ (marketingAddr s = some snd ∧ verifyLogo l = .ok ()) := by
  unfold execUploadLogo marketingAddr
  rcases hs : s.marketing with _ | mi
  · simp
  · rcases hv : verifyLogo l with e | u
    · simp [bind, Except.bind]
    · rcases hmk : mi.marketing with _ | owner
      · simp [bind, Except.bind, hmk]
      · by_cases ho : owner = snd <;> simp [check, ho, bind, Except.bind, hmk, pure, Except.pure]

/-- **Only the marketing address changes marketing info or logo**: if a successful call of any kind
by `snd` left `MARKETING_INFO` or `LOGO` different, the call was `UpdateMarketing` / `UploadLogo` and
`snd` was the stored marketing address at that moment. -/
theorem only_marketing_address {s s' : State} {blk : Block} {snd : Addr} {msg : Msg} {out : List Out}
    (h : execute s blk snd msg = .ok (s', out)) (hne : s'.marketing ≠ s.marketing ∨ s'.logo ≠ s.logo) :
    isMarketingMsg msg = true ∧ marketingAddr s = some snd := by
  cases hm : isMarketingMsg msg
  · obtain ⟨e1, e2⟩ := token_ops_frame hm h
    rcases hne with hne | hne <;> contradiction
  · refine ⟨rfl, ?_⟩
    cases msg <;> simp [isMarketingMsg] at hm <;> simp only [execute] at h
    · exact (update_marketing_ok_iff.mp ⟨_, h⟩).1
    · exact (upload_logo_ok_iff.mp ⟨_, h⟩).1

/-- The same for one transaction of a history (a failed call changes nothing at all). -/
theorem step_only_marketing_address {s : State} {blk : Block} {snd : Addr} {msg : Msg}
    (hne : (step s blk snd msg).marketing ≠ s.marketing ∨ (step s blk snd msg).logo ≠ s.logo) :
    isMarketingMsg msg = true ∧ marketingAddr s = some snd := by
  unfold step at hne
  split at hne
  · rename_i s' out h; exact only_marketing_address h hne
  · simp at hne

/-- **Frozen without a marketing address**: when no marketing address is stored (no marketing info at
all, or its `marketing` field is empty — e.g. after the marketing address cleared itself), no history
of calls by anybody ever changes marketing info or logo again. -/
theorem frozen_without_marketing_address {s : State} (hs : marketingAddr s = none)
    (ops : List (Block × Addr × Msg)) :
    (run s ops).marketing = s.marketing ∧ (run s ops).logo = s.logo := by
  induction ops generalizing s with
  | nil => exact ⟨rfl, rfl⟩
  | cons op rest ih =>
    have hstep : (step s op.1 op.2.1 op.2.2).marketing = s.marketing ∧ (step s op.1 op.2.1 op.2.2).logo = s.logo := by
      by_cases hne : (step s op.1 op.2.1 op.2.2).marketing ≠ s.marketing ∨ (step s op.1 op.2.1 op.2.2).logo ≠ s.logo
      · have := (step_only_marketing_address hne).2
        rw [hs] at this; cases this
      · exact ⟨Classical.not_not.mp (fun h => hne (.inl h)), Classical.not_not.mp (fun h => hne (.inr h))⟩
    have hs' : marketingAddr (step s op.1 op.2.1 op.2.2) = none := by
      unfold marketingAddr at *; rw [hstep.1]; exact hs
    have := ih hs'
    simp only [run, List.foldl_cons] at this ⊢
    exact ⟨this.1.trans hstep.1, this.2.trans hstep.2⟩

/-! ## Update semantics -/

theorem updText_none (old : Option String) : updText old none = old := rfl

theorem updText_blank (old : Option String) {t : String} (h : isBlank t = true) : updText old (some t) = none := by
  simp [updText, h]

theorem updText_text (old : Option String) {t : String} (h : isBlank t = false) : updText old (some t) = some t := by
  simp [updText, h]

/-- **What a successful `UpdateMarketing` stores**: each text field follows `updText` (absent keeps,
blank — empty or only Unicode white space — clears, anything else replaces, untrimmed); the marketing
address follows the same rule with validation; the logo info is kept; and the whole item is removed
exactly when all four fields end up empty. -/
theorem update_marketing_exact {s s' : State} {snd : Addr} {p d : Option String} {m : Option AddrArg}
    {out : List Out} (h : execUpdateMarketing s snd p d m = .ok (s', out)) :
    ∃ mi addr, s.marketing = some mi ∧ updAddr mi.marketing m = .ok addr ∧
      queryMarketingInfo s' = ⟨updText mi.project p, updText mi.description d, addr, mi.logo⟩ ∧
      (s'.marketing = none ↔
        (updText mi.project p = none ∧ updText mi.description d = none ∧ addr = none ∧ mi.logo = none)) ∧
      s'.logo = s.logo := by
  unfold execUpdateMarketing at h
  split at h
  · simp at h
  · rename_i mi hmi
    split at h
    · simp at h
    · simp only [Res.bind_ok] at h
      obtain ⟨_, _, addr, ha, h⟩ := h
      refine ⟨mi, addr, hmi, ha, ?_⟩
      split at h
      · rename_i hc
        simp at h; obtain ⟨rfl, _⟩ := h
        simp only [Bool.and_eq_true, Option.isNone_iff_eq_none] at hc
        obtain ⟨⟨⟨h1, h2⟩, h3⟩, h4⟩ := hc
        simp [queryMarketingInfo, h1, h2, h3, h4]
      · rename_i hc
        simp at h; obtain ⟨rfl, _⟩ := h
        simp only [Bool.and_eq_true, Option.isNone_iff_eq_none] at hc
        simp [queryMarketingInfo]
        intro h1 h2 h3 h4; exact hc ⟨⟨⟨h1, h2⟩, h3⟩, h4⟩

/-- **What a successful `UploadLogo` stores**: the logo itself, and `Url(u)` / `Embedded` as logo
info; project, description and marketing address are kept. -/
theorem upload_logo_exact {s s' : State} {snd : Addr} {l : Logo} {out : List Out}
    (h : execUploadLogo s snd l = .ok (s', out)) :
    ∃ mi, s.marketing = some mi ∧ s'.logo = some l ∧
      s'.marketing = some { mi with logo := some (logoInfoOf l) } := by
  unfold execUploadLogo at h
  split at h
  · simp at h
  · rename_i mi hmi
    simp only [Res.bind_ok] at h
    obtain ⟨_, _, h⟩ := h
    split at h
    · simp at h
    · simp at h; obtain ⟨_, rfl, _⟩ := h
      exact ⟨mi, hmi, rfl, rfl⟩

/-! ## Stored logos are valid -/

/-- The bytes of an embedded logo (`none` for a URL). -/
def embeddedBytes : Logo → Option Bytes
  | .svg d => some d
  | .png d => some d
  | .url _ => none

/-- What `verify_logo` guarantees about an accepted logo. -/
theorem verifyLogo_ok {l : Logo} (h : verifyLogo l = .ok ()) :
    match l with
    | .svg d => d.length ≤ LOGO_SIZE_CAP ∧ verifyXmlPreamble d = .ok ()
    | .png d => d.length ≤ LOGO_SIZE_CAP ∧ PNG_HEADER <+: d
    | .url _ => True := by
  cases l with
  | url u => trivial
  | svg d =>
    simp only [verifyLogo, verifyXmlLogo, Res.bind_ok] at h
    obtain ⟨_, h1, h2⟩ := h
    simp at h2
    exact ⟨h2, h1⟩
  | png d =>
    simp only [verifyLogo, verifyPngLogo, check_bind_ok] at h
    simp at h
    exact h

theorem verifyLogo_size {l : Logo} (h : verifyLogo l = .ok ()) :
    ∀ d, embeddedBytes l = some d → d.length ≤ LOGO_SIZE_CAP := by
  have := verifyLogo_ok h
  cases l <;> simp [embeddedBytes] <;> simp at this <;> exact this.1

/-- The invariant: the stored logo (if any) passes `verify_logo`, and the `logo` field of the
marketing info is exactly the description of the stored logo (none / `Url` / `Embedded`). -/
def LogoInv (s : State) : Prop :=
  (∀ l, s.logo = some l → verifyLogo l = .ok ()) ∧
  s.marketing.bind (·.logo) = s.logo.map logoInfoOf

theorem instMarketing_inv {mk : Option InstMarketing} {mi : Option MarketingInfo} {lg : Option Logo}
    (h : instMarketing mk = .ok (mi, lg)) :
    (∀ l, lg = some l → verifyLogo l = .ok ()) ∧ mi.bind (·.logo) = lg.map logoInfoOf := by
  unfold instMarketing at h
  split at h
  · simp at h; obtain ⟨rfl, rfl⟩ := h; simp
  · rename_i m
    simp only [Res.bind_ok] at h
    obtain ⟨_, hv, addr, _, h⟩ := h
    simp at h; obtain ⟨rfl, rfl⟩ := h
    refine ⟨?_, by simp⟩
    intro l hl
    rw [hl] at hv
    exact hv

/-- Every accepted instantiation establishes the logo invariant. -/
theorem instantiate_logo_inv {m : InstMsg} {s : State} (h : instantiate m = .ok s) : LogoInv s := by
  simp [instantiate] at h
  obtain ⟨_, _, b, t, _, _, w, _, mk, lg, hm, rfl⟩ := h
  exact instMarketing_inv hm

/-- Every successful call of every message kind preserves the logo invariant. -/
theorem execute_logo_inv {s s' : State} {blk : Block} {snd : Addr} {msg : Msg} {out : List Out}
    (hi : LogoInv s) (h : execute s blk snd msg = .ok (s', out)) : LogoInv s' := by
  cases hm : isMarketingMsg msg
  · obtain ⟨e1, e2⟩ := token_ops_frame hm h
    unfold LogoInv; rw [e1, e2]; exact hi
  · cases msg <;> simp [isMarketingMsg] at hm <;> simp only [execute] at h
    · obtain ⟨mi, addr, hmi, _, hq, hnone, hl⟩ := update_marketing_exact h
      obtain ⟨h1, h2⟩ := hi
      refine ⟨by rw [hl]; exact h1, ?_⟩
      rw [hl, ← h2, hmi]
      rcases hs' : s'.marketing with _ | mi'
      · have := hnone.mp hs'; simp [this.2.2.2]
      · simp [queryMarketingInfo, hs'] at hq; simp [hq]
    · obtain ⟨mi, hmi, hl, hmk⟩ := upload_logo_exact h
      have hv := (upload_logo_ok_iff.mp ⟨_, h⟩).2
      refine ⟨?_, by simp [hmk, hl]⟩
      intro l' hl'; rw [hl] at hl'; cases hl'; exact hv

theorem step_logo_inv {s : State} (blk : Block) (snd : Addr) (msg : Msg) (hi : LogoInv s) :
    LogoInv (step s blk snd msg) := by
  unfold step
  split
  · rename_i s' out h; exact execute_logo_inv hi h
  · exact hi

/-- **Stored logos are valid, over all histories**: after any accepted instantiation and any finite
history of calls (failed ones rolled back), the logo invariant holds. -/
theorem reach_logo_inv {m : InstMsg} {s : State} (h : instantiate m = .ok s) (ops : List (Block × Addr × Msg)) :
    LogoInv (run s ops) := by
  have hi := instantiate_logo_inv h
  clear h
  induction ops generalizing s with
  | nil => exact hi
  | cons op rest ih => exact ih (step_logo_inv op.1 op.2.1 op.2.2 hi)

/-- … spelled out: whatever logo is stored passes `verifyLogo`; an embedded one is at most
`LOGO_SIZE_CAP` = 5120 bytes; an SVG has the XML preamble, a PNG the eight header bytes. -/
theorem stored_logo_valid {m : InstMsg} {s : State} (h : instantiate m = .ok s) (ops : List (Block × Addr × Msg))
    {l : Logo} (hl : (run s ops).logo = some l) :
    verifyLogo l = .ok () ∧ (∀ d, embeddedBytes l = some d → d.length ≤ 5120) ∧
    (∀ d, l = .svg d → verifyXmlPreamble d = .ok ()) ∧ (∀ d, l = .png d → PNG_HEADER <+: d) := by
  have hv := (reach_logo_inv h ops).1 l hl
  refine ⟨hv, verifyLogo_size hv, ?_, ?_⟩
  · intro d hd; subst hd; exact (verifyLogo_ok hv).2
  · intro d hd; subst hd; exact (verifyLogo_ok hv).2

/-- `MarketingInfo.logo` tells the truth about the stored logo, over all histories. -/
theorem logo_info_truthful {m : InstMsg} {s : State} (h : instantiate m = .ok s) (ops : List (Block × Addr × Msg)) :
    (queryMarketingInfo (run s ops)).logo = (run s ops).logo.map logoInfoOf := by
  have := (reach_logo_inv h ops).2
  rw [← this]
  unfold queryMarketingInfo
  cases (run s ops).marketing <;> rfl

/-- **`DownloadLogo`** answers exactly when an embedded logo is stored, with the stored bytes and the
matching mime type; it fails for a URL logo and when there is none. -/
theorem download_logo_iff (s : State) (mime : String) (d : Bytes) :
    queryDownloadLogo s = .ok (mime, d) ↔
      (s.logo = some (.svg d) ∧ mime = "image/svg+xml") ∨ (s.logo = some (.png d) ∧ mime = "image/png") := by
  unfold queryDownloadLogo
  rcases s.logo with _ | l
  · simp
  · cases l <;> simp [pure, Except.pure] <;> grind

/-! ## What `verify_xml_preamble` accepts -/

theorem firstSegment_no_gt {d : Bytes} (h : 62 ∉ d) : firstSegment d = d := by
  induction d with
  | nil => rfl
  | cons b rest ih =>
    simp at h
    simp [firstSegment, Ne.symm h.1, ih h.2]

theorem firstSegment_split (mid rest : Bytes) (h : 62 ∉ mid) :
    firstSegment (mid ++ 62 :: rest) = mid ++ [62] := by
  induction mid with
  | nil => simp [firstSegment]
  | cons b t ih =>
    simp at h
    simp [firstSegment, Ne.symm h.1, ih h.2]

/-- Every input splits as its first segment followed by the remainder; the segment holds at most
one `>`, at its end. -/
theorem firstSegment_spec (d : Bytes) :
    (62 ∉ d ∧ firstSegment d = d) ∨ (∃ mid rest, 62 ∉ mid ∧ d = mid ++ 62 :: rest ∧ firstSegment d = mid ++ [62]) := by
  induction d with
  | nil => left; simp [firstSegment]
  | cons b t ih =>
    by_cases hb : b = 62
    · right; subst hb; exact ⟨[], t, by simp, by simp, by simp [firstSegment]⟩
    · rcases ih with ⟨h1, h2⟩ | ⟨mid, rest, h1, h2, h3⟩
      · left; exact ⟨by simp [Ne.symm hb, h1], by simp [firstSegment, hb, h2]⟩
      · right
        refine ⟨b :: mid, rest, by simp [Ne.symm hb, h1], by simp [h2], by simp [firstSegment, hb, h3]⟩

/-- **`verify_xml_preamble` as a statement about the bytes**: accepted exactly when the data is
`<?xml ` + text without `>` + `?>` + anything. -/
theorem xml_preamble_iff (d : Bytes) :
    verifyXmlPreamble d = .ok () ↔ ∃ mid rest, 62 ∉ mid ∧ d = XML_PREFIX ++ mid ++ XML_POSTFIX ++ rest := by
  constructor
  · intro h
    simp [verifyXmlPreamble] at h
    obtain ⟨⟨_, hp⟩, hs⟩ := h
    rcases firstSegment_spec d with ⟨h1, h2⟩ | ⟨seg, rest, h1, h2, h3⟩
    · -- no `>` at all: the suffix `?>` cannot match
      rw [h2] at hs
      obtain ⟨t, ht⟩ := hs
      exact absurd (by rw [← ht]; simp [XML_POSTFIX]) h1
    · rw [h3] at hp hs
      obtain ⟨t, ht⟩ := hp
      obtain ⟨u, hu⟩ := hs
      -- seg ++ [62] = u ++ [63, 62]  →  seg = u ++ [63]
      have hseg : seg = u ++ [63] := by
        have : u ++ [63] ++ [62] = seg ++ [62] := by simpa [XML_POSTFIX] using hu
        exact (List.append_inj_left' this rfl).symm
      -- XML_PREFIX ++ t = seg ++ [62]; the prefix has no 62 and 6 elements, so it is a prefix of seg
      subst hseg
      have hlen : XML_PREFIX.length ≤ (u ++ [63]).length := by
        rcases Nat.lt_or_ge (u ++ [63]).length XML_PREFIX.length with hlt | hge
        · exfalso
          -- then 62 (at position |seg|) would lie inside XML_PREFIX
          have h62 : (XML_PREFIX ++ t)[(u ++ [63]).length]? = some 62 := by rw [ht]; simp
          rw [List.getElem?_append_left hlt] at h62
          have : 62 ∈ XML_PREFIX := List.mem_of_getElem? h62
          simp [XML_PREFIX] at this
        · exact hge
      have hpre : XML_PREFIX <+: (u ++ [63]) := by
        have h1' : XML_PREFIX <+: (u ++ [63] ++ [62]) := ⟨t, ht⟩
        exact List.prefix_of_prefix_length_le h1' (List.prefix_append _ _) hlen
      obtain ⟨v, hv⟩ := hpre
      -- v ends with 63: v = mid ++ [63] unless v = [] (then XML_PREFIX would end with 63: false)
      rcases List.eq_nil_or_concat v with hv0 | ⟨mid, x, hvx⟩
      · subst hv0; simp [XML_PREFIX] at hv
        have := congrArg List.getLast? hv; simp at this
      · subst hvx
        have hx : x = 63 := by
          have := congrArg List.getLast? hv
          simp [← List.append_assoc] at this; exact this
        subst hx
        have hu' : u = XML_PREFIX ++ mid := by
          have : XML_PREFIX ++ mid ++ [63] = u ++ [63] := by simpa using hv
          exact (List.append_inj_left' this rfl).symm
        refine ⟨mid, rest, ?_, ?_⟩
        · intro hm; apply h1; rw [hu']; simp [hm]
        · rw [h2, hu']; simp [XML_POSTFIX]
  · rintro ⟨mid, rest, hm, rfl⟩
    have hseg : firstSegment (XML_PREFIX ++ mid ++ XML_POSTFIX ++ rest) = XML_PREFIX ++ mid ++ [63] ++ [62] := by
      have : XML_PREFIX ++ mid ++ XML_POSTFIX ++ rest = (XML_PREFIX ++ mid ++ [63]) ++ 62 :: rest := by
        simp [XML_POSTFIX]
      rw [this, firstSegment_split]
      simp [XML_PREFIX, hm]
    simp only [verifyXmlPreamble, hseg, check_ok, Bool.and_eq_true]
    refine ⟨⟨by simp [XML_PREFIX], ?_⟩, ?_⟩
    · exact List.isPrefixOf_iff_prefix.mpr ⟨mid ++ [63] ++ [62], by simp⟩
    · exact List.isSuffixOf_iff_suffix.mpr ⟨XML_PREFIX ++ mid, by simp [XML_POSTFIX]⟩

/-! ## Non-vacuity -/

def exInst : InstMsg :=
  { name := "Token", symbol := "TKN", decimals := 6, initial := [(⟨true, "alice"⟩, 100)], mint := none,
    marketing := some { project := some "proj", description := none, marketing := some ⟨true, "mkt"⟩,
                        logo := some (.url "https://example.com/logo.svg") } }

/-- `<?xml ?><svg/>` -/
def exSvg : Bytes := [60, 63, 120, 109, 108, 32, 63, 62, 60, 115, 118, 103, 47, 62]

def exBlk : Block := ⟨100, 5000⟩

def exOps : List (Block × Addr × Msg) :=
  [ (exBlk, "mkt", .uploadLogo (.svg exSvg)),
    (exBlk, "alice", .uploadLogo (.png PNG_HEADER)),                      -- not the marketing address
    (exBlk, "mkt", .uploadLogo (.png [1, 2, 3])),                         -- bad header
    (exBlk, "alice", .transfer ⟨true, "bob"⟩ 40),
    (exBlk, "mkt", .updateMarketing (some " \t") (some "about") (some ⟨true, "mkt2"⟩)),
    (exBlk, "mkt", .updateMarketing (some "again") none none),            -- no longer the marketing address
    (exBlk, "mkt2", .updateMarketing none none (some ⟨false, ""⟩)) ]     -- clears the marketing address

example : ∃ s, instantiate exInst = .ok s ∧ marketingAddr s = some "mkt"
    ∧ queryMarketingInfo s = ⟨some "proj", none, some "mkt", some (.url "https://example.com/logo.svg")⟩
    ∧ (queryDownloadLogo s).isOk = false :=
  ⟨_, rfl, by decide, by decide, by rfl⟩

/-- The history uploads an SVG (two bad uploads fail), blanks the project, hands the marketing address
over and finally clears it; the transfer in between goes through. -/
example : ∃ s, instantiate exInst = .ok s ∧
    queryMarketingInfo (run s exOps) = ⟨none, some "about", none, some .embedded⟩ ∧
    queryDownloadLogo (run s exOps) = .ok ("image/svg+xml", exSvg) ∧
    bal (run s exOps) "bob" = 40 ∧ marketingAddr (run s exOps) = none :=
  ⟨_, rfl, by decide, by rfl, by decide, by decide⟩

example : verifyXmlPreamble exSvg = .ok () ∧ (verifyXmlPreamble [60, 115, 118, 103, 47, 62]).isOk = false
    ∧ (verifyLogo (.png (PNG_HEADER.take 7))).isOk = false ∧ verifyLogo (.png PNG_HEADER) = .ok () :=
  ⟨rfl, rfl, rfl, rfl⟩

/-- the witnesses of `xml_preamble_iff` for `exSvg`: empty attribute text, `<svg/>` as remainder -/
example : exSvg = XML_PREFIX ++ [] ++ XML_POSTFIX ++ [60, 115, 118, 103, 47, 62] := by decide

/-- all of marketing info disappears when the last field is cleared and no logo was ever stored -/
example : ∃ s', execUpdateMarketing { (default : State) with marketing := some ⟨some "p", none, some "m", none⟩ } "m"
      (some "") none (some ⟨false, " "⟩) = .ok (s', []) ∧ s'.marketing = none :=
  ⟨_, rfl, rfl⟩

end CwPlus.Props.Cw20Marketing
