import CwPlus.Lemmas.Cw3FlexNodup
import CwPlus.Lemmas.Cw3Flex
import CwPlus.Props.C03
import CwPlus.Props.C15
import CwPlus.Props.C05Flex
import CwPlus.Lemmas.Cw3FlexAt
import CwPlus.Props.C06Flex
/-!
# C03 (cw3-flex part) — the status reported for a proposal is the outcome implied by its ballots

The cw3-flex instances of the cw3-fixed theorems of `Props/C03.lean`; `ballotTally` and `Outcome` (the library's
decision applied to the recorded ballots, the proposal's threshold, its recorded total weight and its expiry) are
the definitions of that file.  For cw3-flex the recorded total is the one `Propose` stored (see C06 for how it
relates to the group's snapshot).

Premise of the *meaning* of `Outcome` as "the documented cw3 rule": tally ≤ total (C06).  For cw3-flex that premise
can fail only in the same-block situation tracked under C06 (D3); `status_eq_outcome`, `execute_admits_iff_outcome`,
`close_admits_iff_outcome` and the Yes-weight theorems do not need it — they state that queries, `Execute` and `Close`
all follow the library's decision on the recorded ballots, whatever the total.  The theorems that read the decision
as the exact rule or justify a sticky status (`status_eq_exact_outcome`, `status_exact_outcome_within_one`,
`passed_justified`, `rejected_justified`, `rejected_when_stored`) take the premise of C04 for the proposal at hand as
an explicit hypothesis `C04.Premise …`: recorded ballots ≤ recorded total (false only inside D3), recorded total in
`u64`, threshold valid for the recorded total (for `AbsoluteCount` false once the group has shrunk below the count:
`C04.count_above_total`).
-/
namespace CwPlus.Props.C03Flex
open CwPlus CwPlus.Cw3 CwPlus.Cw3Core CwPlus.Cw3Flex CwPlus.Props CwPlus.Props.C03

/-- The status every query (`Proposal`, and per entry `ListProposals` / `ReverseProposals`, which use the same
`viewOf`) reports for a proposal is `current_status` of the stored record at the query block. -/
theorem query_status (s : State) (blk : Block) (id : Nat) (p : Proposal) (hp : s.core.proposals.get? id = some p) :
    (Cw3Flex.queryProposal s blk id).map (·.status) = p.currentStatus blk := by
  simp only [Cw3Flex.queryProposal, Cw3Core.queryProposal, load, hp, viewOf]
  cases h : p.currentStatus blk <;> simp [h, bind, Except.bind, Functor.map, Except.map, pure, Except.pure]

/-- In a reachable world the stored tally of every proposal is the per-option sum of its recorded ballots. -/
theorem tally_is_ballots {ext : Ext} {fuel : Nat} {w : World} (hr : Reachable ext fuel w) {id : Nat} {p : Proposal}
    (hp : w.flex.core.proposals.get? id = some p) : p.votes = tallyOf (ballotsOf w.flex.core id) :=
  (reachable_inv hr).wf.tally id p hp

theorem tally_eq_ballotTally {ext : Ext} {fuel : Nat} {w : World} (hr : Reachable ext fuel w) {id : Nat} {p : Proposal}
    (hp : w.flex.core.proposals.get? id = some p) (ho : p.status = .open) :
    p.tally = ballotTally p (ballotsOf w.flex.core id) := by
  have := tally_is_ballots hr hp
  simp [Proposal.tally, ballotTally, ho, this]

/-- **Status = outcome of the ballots.**  For every reachable world, every proposal and every query block:
stored Open ⇒ the reported status is `Outcome` of the recorded ballots at that block; stored Passed / Rejected /
Executed ⇒ the reported status is the stored one (sticky). -/
theorem status_eq_outcome {ext : Ext} {fuel : Nat} {w : World} (hr : Reachable ext fuel w) {id : Nat} {p : Proposal}
    (hp : w.flex.core.proposals.get? id = some p) (blk : Block) :
    (Cw3Flex.queryProposal w.flex blk id).map (·.status) =
      if p.status = .open then Outcome p (ballotsOf w.flex.core id) blk else .ok p.status := by
  rw [query_status _ _ _ _ hp]
  by_cases ho : p.status = .open
  · simp only [ho, if_true, Proposal.currentStatus, Outcome]
    rw [tally_eq_ballotTally hr hp ho]
  · simp only [ho, if_false, Proposal.currentStatus]
    exact cs_of_ne_open (t := p.tally) ho

/-- **C03 for the list queries** (`ListProposals`, `ReverseProposals`), cw3-flex: in every reachable world, whenever a
listing answers, every listed entry is a stored proposal under its id and the status listed for it is the `Outcome` of
its recorded ballots at the query block if it is stored Open, and the stored status otherwise — the same as the point
query reports (`status_eq_outcome`). -/
theorem listed_status_eq_outcome {ext : Ext} {fuel : Nat} {w : World} (hr : Reachable ext fuel w) (blk : Block)
    (cur limit : Option Nat) {vs : List ProposalView}
    (h : Cw3Flex.listProposals w.flex blk cur limit = .ok vs ∨ Cw3Flex.reverseProposals w.flex blk cur limit = .ok vs) :
    ∀ v ∈ vs, ∃ p, w.flex.core.proposals.get? v.id = some p ∧
      (Except.ok v.status : Res Status) =
        if p.status = .open then Outcome p (ballotsOf w.flex.core v.id) blk else .ok p.status := by
  intro v hv
  obtain ⟨p, hp, hst⟩ := listings_status_core (Cw3Flex.reachable_nodup hr) blk cur limit h v hv
  refine ⟨p, hp, ?_⟩
  rw [← status_eq_outcome hr hp blk, query_status _ _ _ _ hp, hst]

/-- **Execute is admitted iff Passed** (and the sender is authorised): in a reachable world Execute succeeds exactly
when the proposal is stored Passed, or stored Open with `Outcome` of its recorded ballots = Passed at the call's
block, and the executor rule admits the sender. -/
theorem execute_admits_iff_outcome {ext : Ext} {fuel : Nat} {w : World} (hr : Reachable ext fuel w) (g : Cw4Group.State)
    (self : Addr) (blk : Block) (snd : Addr) (funds : List Coin) (id : Nat) :
    (Cw3Flex.execute w.flex g self blk snd funds (.execute id)).isOk = true ↔
      ∃ p, w.flex.core.proposals.get? id = some p ∧ authorize w.flex.cfg g snd = true ∧
        (p.status = .passed ∨ (p.status = .open ∧ Outcome p (ballotsOf w.flex.core id) blk = .ok .passed)) := by
  rw [CwPlus.Props.C05Flex.execute_ok_iff]
  constructor
  · rintro ⟨p, hp, hst, ha⟩
    refine ⟨p, hp, ha, ?_⟩
    by_cases ho : p.status = .open
    · right; refine ⟨ho, ?_⟩
      simp only [Outcome, ← tally_eq_ballotTally hr hp ho]; exact hst
    · left
      have : Cw3.currentStatus p.tally blk = .ok p.status := cs_of_ne_open (t := p.tally) ho
      simp only [Proposal.currentStatus] at hst
      rw [this] at hst
      exact (Except.ok.inj hst)
  · rintro ⟨p, hp, ha, h | ⟨ho, h⟩⟩
    · refine ⟨p, hp, ?_, ha⟩
      have : Cw3.currentStatus p.tally blk = .ok p.status := cs_of_ne_open (t := p.tally) (by simp [Proposal.tally, h])
      simp only [Proposal.currentStatus, this, h]
    · refine ⟨p, hp, ?_, ha⟩
      simp only [Outcome, ← tally_eq_ballotTally hr hp ho] at h; exact h

/-- **Close is admitted iff expired and not Passed**: in a reachable world Close succeeds (for anybody, with any
group state and funds) exactly when the proposal is stored Open, has expired, and the outcome of its recorded
ballots at the call's block is not Passed — then it is Rejected. -/
theorem close_admits_iff_outcome {ext : Ext} {fuel : Nat} {w : World} (hr : Reachable ext fuel w) (g : Cw4Group.State)
    (self : Addr) (blk : Block) (snd : Addr) (funds : List Coin) (id : Nat) :
    (Cw3Flex.execute w.flex g self blk snd funds (.close id)).isOk = true ↔
      ∃ p, w.flex.core.proposals.get? id = some p ∧ p.status = .open ∧ p.expires.isExpired blk = true ∧
        Outcome p (ballotsOf w.flex.core id) blk = .ok .rejected := by
  rw [CwPlus.Props.C05Flex.close_ok_iff (reachable_inv hr)]
  constructor
  · rintro ⟨p, st, hp, ho, hst, hne, hexp⟩
    refine ⟨p, hp, ho, hexp, ?_⟩
    simp only [Outcome, ← tally_eq_ballotTally hr hp ho]
    have hst' : Cw3.currentStatus p.tally blk = .ok st := hst
    rcases expired_status (t := p.tally) (by simp [Proposal.tally, ho]) (by simpa [Proposal.tally] using hexp) hst' with e | e
    · exact absurd e hne
    · subst e; exact hst'
  · rintro ⟨p, hp, ho, hexp, hout⟩
    refine ⟨p, .rejected, hp, ho, ?_, by simp, hexp⟩
    simp only [Outcome, ← tally_eq_ballotTally hr hp ho] at hout; exact hout

/-! ## the status is the EXACT documented rule (C03 × C04), inside the premise -/

/-- **Status = the exact documented rule** (cw3-flex instance of `C03.status_eq_exact_outcome`; thresholds / quorums
with at most 9 decimals).  Hypothesis `hprem`: the premise of C04 for the recorded ballots and the recorded total
— ballots ≤ total holds outside the known same-block finding of C06.  Then for a proposal stored Open the query
answers at every block and reports Passed exactly when the recorded Yes weight is positive and the documented
rule holds in exact cross-multiplied integer arithmetic for every completion of the outstanding votes (after
expiry: for the recorded ballots); Rejected only if expired without passing or no completion can pass; Open
otherwise and only before expiry. -/
theorem status_eq_exact_outcome {ext : Ext} {fuel : Nat} {w : World} (hr : Reachable ext fuel w) {id : Nat} {p : Proposal}
    (hp : w.flex.core.proposals.get? id = some p) (ho : p.status = .open)
    (hprem : C04.Premise (ballotTally p (ballotsOf w.flex.core id))) (h9 : C04.nineDecimals p.threshold) (blk : Block) :
    ∃ st, (Cw3Flex.queryProposal w.flex blk id).map (·.status) = .ok st ∧
      (st = .passed ↔ 0 < sumK .yes (ballotsOf w.flex.core id) ∧
        CertainBy C04.exactPasses p.threshold p.totalWeight (tallyOf (ballotsOf w.flex.core id)) (p.expires.isExpired blk)) ∧
      (st = .rejected →
        HopelessBy C04.exactPasses p.threshold p.totalWeight (tallyOf (ballotsOf w.flex.core id)) (p.expires.isExpired blk)) ∧
      (st = .open → p.expires.isExpired blk = false) ∧
      (st = .open ∨ st = .passed ∨ st = .rejected) := by
  rw [status_eq_outcome hr hp, if_pos ho]
  exact exact_outcome9 (t := ballotTally p (ballotsOf w.flex.core id)) rfl hprem h9 blk

/-- … and for thresholds with up to 18 digits: never stricter than the exact rule, at most one vote more
permissive (`C04.laxPasses`). -/
theorem status_exact_outcome_within_one {ext : Ext} {fuel : Nat} {w : World} (hr : Reachable ext fuel w) {id : Nat}
    {p : Proposal} (hp : w.flex.core.proposals.get? id = some p) (ho : p.status = .open)
    (hprem : C04.Premise (ballotTally p (ballotsOf w.flex.core id))) (blk : Block) :
    ∃ st, (Cw3Flex.queryProposal w.flex blk id).map (·.status) = .ok st ∧
      (CertainBy C04.exactPasses p.threshold p.totalWeight (tallyOf (ballotsOf w.flex.core id)) (p.expires.isExpired blk) →
        st = .passed) ∧
      (st = .passed → 0 < sumK .yes (ballotsOf w.flex.core id) ∧
        CertainBy C04.laxPasses p.threshold p.totalWeight (tallyOf (ballotsOf w.flex.core id)) (p.expires.isExpired blk)) ∧
      (st = .rejected →
        HopelessBy C04.exactPasses p.threshold p.totalWeight (tallyOf (ballotsOf w.flex.core id)) (p.expires.isExpired blk)) ∧
      (st = .open → p.expires.isExpired blk = false) ∧
      (st = .open ∨ st = .passed ∨ st = .rejected) := by
  rw [status_eq_outcome hr hp, if_pos ho]
  exact exact_outcome18 (t := ballotTally p (ballotsOf w.flex.core id)) rfl hprem blk

/-! ## a stored Passed / Rejected is justified by the recorded ballots, inside the premise -/

/-- On histories whose blocks never go back every stored Passed / Rejected whose tally is inside the premise of
C04 is backed by that tally at the block of the last transaction and at every later block. -/
theorem reachableAt_decided {ext : Ext} {fuel : Nat} {w : World} {b : Block} (h : ReachableAt ext fuel w b) :
    Inv w.flex ∧ AllP (fun _ p => DecidedOk b p) w.flex.core := by
  refine reachableAt_inv (fun b s => Inv s ∧ AllP (fun _ p => DecidedOk b p) s.core) ?_ ?_ ?_ h
  · intro b b2 s hb ⟨hi, ha⟩
    exact ⟨hi, fun id p hp => decidedOk_mono hb (ha id p hp)⟩
  · intro b s g self snd funds m s' out ⟨hi, ha⟩ he
    exact ⟨execute_inv hi he, allP_step hi.wf (fun _ _ _ hold hs => decidedOk_step hold hs) ha (execute_coreStep he)⟩
  · intro m g s b hi
    exact ⟨instantiate_inv hi, by rw [instantiate_core hi]; exact allP_empty _⟩

/-- **A stored Passed is justified** (cw3-flex instance of `C03.passed_justified`): on every history whose blocks
never go back, for a proposal stored Passed whose recorded ballots are inside the premise of C04 (`hprem`, about
the final world only), the outcome implied by its currently recorded ballots is Passed at the block of the last
transaction and at every later block — later votes on a Passed proposal and the passage of time never
contradict the stored status. -/
theorem passed_justified {ext : Ext} {fuel : Nat} {w : World} {b : Block} (hr : ReachableAt ext fuel w b) {id : Nat}
    {p : Proposal} (hp : w.flex.core.proposals.get? id = some p) (hs : p.status = .passed)
    (hprem : C04.Premise (ballotTally p (ballotsOf w.flex.core id))) {b' : Block} (hb : C04.later b b') :
    Outcome p (ballotsOf w.flex.core id) b' = .ok .passed := by
  obtain ⟨hi, ha⟩ := reachableAt_decided hr
  have e := ballotTally_eq_openT (hi.wf.tally id p hp)
  rw [e] at hprem
  have h := (ha id p hp hprem).1 hs b' hb
  unfold Outcome; rw [e]
  exact cs_passed_of_isPassed rfl h

/-- Hence, inside the premise, whenever Execute succeeds at or after the block of the last transaction the
outcome implied by the recorded ballots at that block is Passed: no proposal becomes executable with a Yes share
below its threshold. -/
theorem executable_implies_outcome_passed {ext : Ext} {fuel : Nat} {w : World} {b : Block} (hr : ReachableAt ext fuel w b)
    {b' : Block} (hb : C04.later b b') {g : Cw4Group.State} {self snd : Addr} {funds : List Coin} {id : Nat}
    (hprem : ∀ p, w.flex.core.proposals.get? id = some p → C04.Premise (ballotTally p (ballotsOf w.flex.core id)))
    (h : (Cw3Flex.execute w.flex g self b' snd funds (.execute id)).isOk = true) :
    ∃ p, w.flex.core.proposals.get? id = some p ∧ Outcome p (ballotsOf w.flex.core id) b' = .ok .passed := by
  obtain ⟨p, hp, _, hs | ⟨_, hout⟩⟩ := (execute_admits_iff_outcome hr.reachable g self b' snd funds id).mp h
  · exact ⟨p, hp, passed_justified hr hp hs (hprem p hp) hb⟩
  · exact ⟨p, hp, hout⟩

/-- **A stored Rejected is justified** (cw3-flex instance of `C03.rejected_justified`): on every history whose
blocks never go back, for a proposal stored Rejected whose recorded ballots are inside the premise of C04, the
outcome implied by its currently recorded ballots is Rejected at the block of the last transaction and at every
later block `b'`, and at each such block either it has expired and the recorded ballots fail the rule, or it has
not and no completion of the outstanding votes can pass. -/
theorem rejected_justified {ext : Ext} {fuel : Nat} {w : World} {b : Block} (hr : ReachableAt ext fuel w b) {id : Nat}
    {p : Proposal} (hp : w.flex.core.proposals.get? id = some p) (hs : p.status = .rejected)
    (hprem : C04.Premise (ballotTally p (ballotsOf w.flex.core id))) {b' : Block} (hb : C04.later b b') :
    Outcome p (ballotsOf w.flex.core id) b' = .ok .rejected ∧
    HopelessBy C04.libPasses p.threshold p.totalWeight (tallyOf (ballotsOf w.flex.core id)) (p.expires.isExpired b') ∧
    HopelessBy C04.exactPasses p.threshold p.totalWeight (tallyOf (ballotsOf w.flex.core id)) (p.expires.isExpired b') := by
  obtain ⟨hi, ha⟩ := reachableAt_decided hr
  have e := ballotTally_eq_openT (hi.wf.tally id p hp)
  have hprem' : C04.Premise (openT p) := by rw [← e]; exact hprem
  have h := (ha id p hp hprem').2 hs b' hb
  have hout : Outcome p (ballotsOf w.flex.core id) b' = .ok .rejected := by
    unfold Outcome; rw [e]; exact h
  exact ⟨hout, rejected_hopeless (t := ballotTally p (ballotsOf w.flex.core id)) rfl hprem hout⟩

/-- … and at the moment it is stored: whenever a flex handler call at block `b` leaves a proposal stored Rejected
that was not stored Rejected before, and its tally is inside the premise, then at `b` either the proposal has
expired and its tally fails the rule, or no completion of the then outstanding votes can pass. -/
theorem rejected_when_stored {s s' : State} {g : Cw4Group.State} {self : Addr} {b : Block} {snd : Addr} {funds : List Coin}
    {m : ExecMsg} {out : List Out} (hi : Inv s) (h : Cw3Flex.execute s g self b snd funds m = .ok (s', out))
    {id : Nat} {p' : Proposal} (hp' : s'.core.proposals.get? id = some p') (hs : p'.status = .rejected)
    (hnew : ∀ p, s.core.proposals.get? id = some p → p.status ≠ .rejected) (hprem : C04.Premise (openT p')) :
    HopelessBy C04.libPasses p'.threshold p'.totalWeight p'.votes (p'.expires.isExpired b) ∧
    HopelessBy C04.exactPasses p'.threshold p'.totalWeight p'.votes (p'.expires.isExpired b) := by
  have hst := propStep_stores_rejected (coreStep_prop hi.wf (execute_coreStep h) hp') hs hnew
  exact rejected_hopeless (t := openT p') rfl hprem hst

/-! ## the premise discharged from the history: the `…_reachable` corollaries

`C06Flex.ReachableSnap` = histories with non-decreasing blocks on a cw4-group that satisfies the cw4-group invariant
(C09).  `CleanStart w.log id p.startHeight` = in the ghost log no group write in the proposal's own block precedes its
`Propose` — the exact complement of the known same-block finding (D3).  Under that guard the premise of C04 holds for
the recorded ballots of the proposal in every such world, so the meaning theorems above hold WITHOUT `hprem`. -/

open CwPlus.Props.C06Flex in
/-- **The premise of C04 holds in every reachable world, outside the same-block finding.**  Recorded ballots ≤ recorded
total (`C06Flex.flex_sum_ballots_le_total`), recorded total in `u64`, and the proposal's threshold — which is the
configured one (`Inv'.propThr`) — passes `Threshold::validate` for the recorded total: for `AbsoluteCount k` because
`Propose` stored a status, so either `total - k` did not underflow or the proposer's own ballot weighs `k ≤ total`. -/
theorem premise_reachable {ext : Ext} {fuel : Nat} {w : World} {b : Block} (hr : ReachableSnap ext fuel w b) {id : Nat}
    {p : Proposal} (hp : w.flex.core.proposals.get? id = some p) (hc : CleanStart w.log id p.startHeight) :
    C04.Premise (ballotTally p (ballotsOf w.flex.core id)) ∧ p.threshold = w.flex.cfg.threshold := by
  have hq := hr.totalInv
  obtain ⟨hle, hu, _⟩ := flex_sum_ballots_le_total hr hp hc
  have hthr := hq.inv'.propThr id p hp
  refine ⟨⟨?_, hu, ?_⟩, hthr⟩
  · show C04.cast (tallyOf (ballotsOf w.flex.core id)) ≤ p.totalWeight
    rw [weightSum_eq] at hle; exact hle
  · show p.threshold.validate p.totalWeight = .ok ()
    obtain ⟨t0, hv⟩ := hq.inv'.cfgValid
    rw [← hthr] at hv
    refine validate_of_validate hv ?_
    intro k hk
    rcases hq.inv'.countOk id p k hp hk with h | ⟨bl, hb, h⟩
    · exact h
    · have := weight_le_weightSum hb; omega

open CwPlus.Props.C06Flex in
/-- **Status = the exact documented rule, no premise** (`status_eq_exact_outcome` with `hprem` discharged): on every
history with non-decreasing blocks, for every proposal stored Open whose `Propose` was not preceded by a group write in
its own block, with a threshold of at most 9 decimals, at every query block. -/
theorem status_eq_exact_outcome_reachable {ext : Ext} {fuel : Nat} {w : World} {b : Block} (hr : ReachableSnap ext fuel w b)
    {id : Nat} {p : Proposal} (hp : w.flex.core.proposals.get? id = some p) (ho : p.status = .open)
    (hc : CleanStart w.log id p.startHeight) (h9 : C04.nineDecimals p.threshold) (blk : Block) :
    ∃ st, (Cw3Flex.queryProposal w.flex blk id).map (·.status) = .ok st ∧
      (st = .passed ↔ 0 < sumK .yes (ballotsOf w.flex.core id) ∧
        CertainBy C04.exactPasses p.threshold p.totalWeight (tallyOf (ballotsOf w.flex.core id)) (p.expires.isExpired blk)) ∧
      (st = .rejected →
        HopelessBy C04.exactPasses p.threshold p.totalWeight (tallyOf (ballotsOf w.flex.core id)) (p.expires.isExpired blk)) ∧
      (st = .open → p.expires.isExpired blk = false) ∧
      (st = .open ∨ st = .passed ∨ st = .rejected) :=
  status_eq_exact_outcome hr.reachableAt.reachable hp ho (premise_reachable hr hp hc).1 h9 blk

open CwPlus.Props.C06Flex in
/-- … and for thresholds with up to 18 digits (`status_exact_outcome_within_one` with `hprem` discharged). -/
theorem status_exact_outcome_within_one_reachable {ext : Ext} {fuel : Nat} {w : World} {b : Block}
    (hr : ReachableSnap ext fuel w b) {id : Nat} {p : Proposal} (hp : w.flex.core.proposals.get? id = some p)
    (ho : p.status = .open) (hc : CleanStart w.log id p.startHeight) (blk : Block) :
    ∃ st, (Cw3Flex.queryProposal w.flex blk id).map (·.status) = .ok st ∧
      (CertainBy C04.exactPasses p.threshold p.totalWeight (tallyOf (ballotsOf w.flex.core id)) (p.expires.isExpired blk) →
        st = .passed) ∧
      (st = .passed → 0 < sumK .yes (ballotsOf w.flex.core id) ∧
        CertainBy C04.laxPasses p.threshold p.totalWeight (tallyOf (ballotsOf w.flex.core id)) (p.expires.isExpired blk)) ∧
      (st = .rejected →
        HopelessBy C04.exactPasses p.threshold p.totalWeight (tallyOf (ballotsOf w.flex.core id)) (p.expires.isExpired blk)) ∧
      (st = .open → p.expires.isExpired blk = false) ∧
      (st = .open ∨ st = .passed ∨ st = .rejected) :=
  status_exact_outcome_within_one hr.reachableAt.reachable hp ho (premise_reachable hr hp hc).1 blk

open CwPlus.Props.C06Flex in
/-- **A stored Passed is justified, no premise** (`passed_justified` with `hprem` discharged; the unguarded statement is
false: `passed_justified_counterexample`). -/
theorem passed_justified_reachable {ext : Ext} {fuel : Nat} {w : World} {b : Block} (hr : ReachableSnap ext fuel w b)
    {id : Nat} {p : Proposal} (hp : w.flex.core.proposals.get? id = some p) (hs : p.status = .passed)
    (hc : CleanStart w.log id p.startHeight) {b' : Block} (hb : C04.later b b') :
    Outcome p (ballotsOf w.flex.core id) b' = .ok .passed :=
  passed_justified hr.reachableAt hp hs (premise_reachable hr hp hc).1 hb

open CwPlus.Props.C06Flex in
/-- **A stored Rejected is justified, no premise** (`rejected_justified` with `hprem` discharged). -/
theorem rejected_justified_reachable {ext : Ext} {fuel : Nat} {w : World} {b : Block} (hr : ReachableSnap ext fuel w b)
    {id : Nat} {p : Proposal} (hp : w.flex.core.proposals.get? id = some p) (hs : p.status = .rejected)
    (hc : CleanStart w.log id p.startHeight) {b' : Block} (hb : C04.later b b') :
    Outcome p (ballotsOf w.flex.core id) b' = .ok .rejected ∧
    HopelessBy C04.libPasses p.threshold p.totalWeight (tallyOf (ballotsOf w.flex.core id)) (p.expires.isExpired b') ∧
    HopelessBy C04.exactPasses p.threshold p.totalWeight (tallyOf (ballotsOf w.flex.core id)) (p.expires.isExpired b') :=
  rejected_justified hr.reachableAt hp hs (premise_reachable hr hp hc).1 hb

open CwPlus.Props.C06Flex in
/-- **Executable ⇒ the recorded ballots imply Passed, no premise** (`executable_implies_outcome_passed` with `hprem`
discharged): no proposal created outside the same-block situation becomes executable with a Yes share below its
threshold. -/
theorem executable_implies_outcome_passed_reachable {ext : Ext} {fuel : Nat} {w : World} {b : Block}
    (hr : ReachableSnap ext fuel w b) {b' : Block} (hb : C04.later b b') {g : Cw4Group.State} {self snd : Addr}
    {funds : List Coin} {id : Nat}
    (hc : ∀ p, w.flex.core.proposals.get? id = some p → CleanStart w.log id p.startHeight)
    (h : (Cw3Flex.execute w.flex g self b' snd funds (.execute id)).isOk = true) :
    ∃ p, w.flex.core.proposals.get? id = some p ∧ Outcome p (ballotsOf w.flex.core id) b' = .ok .passed :=
  executable_implies_outcome_passed hr.reachableAt hb (fun p hp => (premise_reachable hr hp (hc p hp)).1) h

/-! ## Execute succeeds ⇒ the Yes share meets the threshold in exact arithmetic -/

/-- **"Never executable with a Yes share below its threshold", exact arithmetic, inside the premise** (clause g):
whenever Execute succeeds at or after the block of the last transaction, the recorded Yes weight is positive and the
configured rule holds for the recorded ballots in exact cross-multiplied arithmetic (every completion before expiry,
the recorded ballots after) — exactly for thresholds with at most 9 decimals, within one vote for 18-digit decimals. -/
theorem execute_ok_implies_exact_threshold {ext : Ext} {fuel : Nat} {w : World} {b : Block} (hr : ReachableAt ext fuel w b)
    {b' : Block} (hb : C04.later b b') {g : Cw4Group.State} {self snd : Addr} {funds : List Coin} {id : Nat}
    (hprem : ∀ p, w.flex.core.proposals.get? id = some p → C04.Premise (ballotTally p (ballotsOf w.flex.core id)))
    (h : (Cw3Flex.execute w.flex g self b' snd funds (.execute id)).isOk = true) :
    ∃ p, w.flex.core.proposals.get? id = some p ∧ 0 < sumK .yes (ballotsOf w.flex.core id) ∧
      CertainBy C04.laxPasses p.threshold p.totalWeight (tallyOf (ballotsOf w.flex.core id)) (p.expires.isExpired b') ∧
      (C04.nineDecimals p.threshold →
        CertainBy C04.exactPasses p.threshold p.totalWeight (tallyOf (ballotsOf w.flex.core id)) (p.expires.isExpired b')) := by
  obtain ⟨p, hp, hout⟩ := executable_implies_outcome_passed hr hb hprem h
  exact ⟨p, hp, outcome_passed_exact (hprem p hp) hout⟩

open CwPlus.Props.C06Flex in
/-- **… with the premise discharged from the history**: on every `ReachableSnap` history, for a proposal whose `Propose`
was not preceded by a group write in its own block.  (Without the guard false: `passed_justified_counterexample`.) -/
theorem execute_ok_implies_exact_threshold_reachable {ext : Ext} {fuel : Nat} {w : World} {b : Block}
    (hr : ReachableSnap ext fuel w b) {b' : Block} (hb : C04.later b b') {g : Cw4Group.State} {self snd : Addr}
    {funds : List Coin} {id : Nat}
    (hc : ∀ p, w.flex.core.proposals.get? id = some p → CleanStart w.log id p.startHeight)
    (h : (Cw3Flex.execute w.flex g self b' snd funds (.execute id)).isOk = true) :
    ∃ p, w.flex.core.proposals.get? id = some p ∧ 0 < sumK .yes (ballotsOf w.flex.core id) ∧
      CertainBy C04.laxPasses p.threshold p.totalWeight (tallyOf (ballotsOf w.flex.core id)) (p.expires.isExpired b') ∧
      (C04.nineDecimals p.threshold →
        CertainBy C04.exactPasses p.threshold p.totalWeight (tallyOf (ballotsOf w.flex.core id)) (p.expires.isExpired b')) :=
  execute_ok_implies_exact_threshold hr.reachableAt hb (fun p hp => (premise_reachable hr hp (hc p hp)).1) h

open CwPlus.Props.C06Flex in
/-- A stored Passed read in exact arithmetic, premise discharged (`passed_justified_reachable` × C04). -/
theorem passed_justified_exact_reachable {ext : Ext} {fuel : Nat} {w : World} {b : Block} (hr : ReachableSnap ext fuel w b)
    {id : Nat} {p : Proposal} (hp : w.flex.core.proposals.get? id = some p) (hs : p.status = .passed)
    (hc : CleanStart w.log id p.startHeight) {b' : Block} (hb : C04.later b b') :
    0 < sumK .yes (ballotsOf w.flex.core id) ∧
    CertainBy C04.laxPasses p.threshold p.totalWeight (tallyOf (ballotsOf w.flex.core id)) (p.expires.isExpired b') ∧
    (C04.nineDecimals p.threshold →
      CertainBy C04.exactPasses p.threshold p.totalWeight (tallyOf (ballotsOf w.flex.core id)) (p.expires.isExpired b')) :=
  outcome_passed_exact (premise_reachable hr hp hc).1 (passed_justified_reachable hr hp hs hc hb)

/-! ## the admit-iff theorems for every state satisfying `Inv` (hence also mid-dispatch, for re-entrant self-calls) -/

theorem tally_eq_ballotTally_inv {s : State} (hi : Inv s) {id : Nat} {p : Proposal}
    (hp : s.core.proposals.get? id = some p) (ho : p.status = .open) :
    p.tally = ballotTally p (ballotsOf s.core id) := by
  have := hi.wf.tally id p hp
  simp [Proposal.tally, ballotTally, ho, this]

/-- **Execute is admitted iff Passed and authorised, for every state satisfying `Inv`** — in particular the
intermediate states inside `dispatch` (`dispatch_inv` preserves `Inv`), so re-entrant `selfExecute` is covered. -/
theorem execute_admits_iff_outcome_inv {s : State} (hi : Inv s) (g : Cw4Group.State)
    (self : Addr) (blk : Block) (snd : Addr) (funds : List Coin) (id : Nat) :
    (Cw3Flex.execute s g self blk snd funds (.execute id)).isOk = true ↔
      ∃ p, s.core.proposals.get? id = some p ∧ authorize s.cfg g snd = true ∧
        (p.status = .passed ∨ (p.status = .open ∧ Outcome p (ballotsOf s.core id) blk = .ok .passed)) := by
  rw [CwPlus.Props.C05Flex.execute_ok_iff]
  constructor
  · rintro ⟨p, hp, hst, ha⟩
    refine ⟨p, hp, ha, ?_⟩
    by_cases ho : p.status = .open
    · right; refine ⟨ho, ?_⟩
      simp only [Outcome, ← tally_eq_ballotTally_inv hi hp ho]; exact hst
    · left
      have : Cw3.currentStatus p.tally blk = .ok p.status := cs_of_ne_open (t := p.tally) ho
      simp only [Proposal.currentStatus] at hst
      rw [this] at hst
      exact (Except.ok.inj hst)
  · rintro ⟨p, hp, ha, h | ⟨ho, h⟩⟩
    · refine ⟨p, hp, ?_, ha⟩
      have : Cw3.currentStatus p.tally blk = .ok p.status := cs_of_ne_open (t := p.tally) (by simp [Proposal.tally, h])
      simp only [Proposal.currentStatus, this, h]
    · refine ⟨p, hp, ?_, ha⟩
      simp only [Outcome, ← tally_eq_ballotTally_inv hi hp ho] at h; exact h

/-- **Close is admitted iff expired and not Passed, for every state satisfying `Inv`** (also mid-dispatch). -/
theorem close_admits_iff_outcome_inv {s : State} (hi : Inv s) (g : Cw4Group.State)
    (self : Addr) (blk : Block) (snd : Addr) (funds : List Coin) (id : Nat) :
    (Cw3Flex.execute s g self blk snd funds (.close id)).isOk = true ↔
      ∃ p, s.core.proposals.get? id = some p ∧ p.status = .open ∧ p.expires.isExpired blk = true ∧
        Outcome p (ballotsOf s.core id) blk = .ok .rejected := by
  rw [CwPlus.Props.C05Flex.close_ok_iff hi]
  constructor
  · rintro ⟨p, st, hp, ho, hst, hne, hexp⟩
    refine ⟨p, hp, ho, hexp, ?_⟩
    simp only [Outcome, ← tally_eq_ballotTally_inv hi hp ho]
    have hst' : Cw3.currentStatus p.tally blk = .ok st := hst
    rcases expired_status (t := p.tally) (by simp [Proposal.tally, ho]) (by simpa [Proposal.tally] using hexp) hst' with e | e
    · exact absurd e hne
    · subst e; exact hst'
  · rintro ⟨p, hp, ho, hexp, hout⟩
    refine ⟨p, .rejected, hp, ho, ?_, by simp, hexp⟩
    simp only [Outcome, ← tally_eq_ballotTally_inv hi hp ho] at hout; exact hout

/-! ## never executable without Yes weight (D1 fixed) -/

/-- Invariant: every proposal stored Passed or Executed has positive Yes weight in its tally. -/
def YesInv (s : State) : Prop :=
  Inv s ∧ ∀ id p, s.core.proposals.get? id = some p → (p.status = .passed ∨ p.status = .executed) → 0 < p.votes.yes

theorem yes_step {s s' : State} {g : Cw4Group.State} {self : Addr} {blk : Block} {snd : Addr} {funds : List Coin}
    {m : ExecMsg} {out : List Out} (hy : YesInv s) (h : Cw3Flex.execute s g self blk snd funds m = .ok (s', out)) : YesInv s' := by
  obtain ⟨hi, hy⟩ := hy
  refine ⟨execute_inv hi h, ?_⟩
  obtain ⟨_, hc⟩ := execute_cases h
  rcases hc with ⟨t, d, msgs, latest, w, total, id0, _, _, _, _, _, hp⟩ | ⟨id0, v, _, _, hv⟩ | ⟨id0, p1, msgs, _, _, he, _⟩ |
    ⟨id0, p1, _, _, hcl, _⟩ | ⟨_, _, rfl, _⟩
  · obtain ⟨expires, st, _, hst, _, _, hc'⟩ := propose_spec hp
    intro id p hp' hs
    rw [hc'] at hp'; simp only [AMap.get?_set] at hp'
    by_cases e : id0 = id
    · simp only [e, if_true, Option.some.injEq] at hp'; subst hp'
      exact cs_passed_yes hst hs (by simp [Proposal.tally])
    · simp only [e, if_false] at hp'; exact hy id p hp' hs
  · obtain ⟨p0, w, votes, st, hp0, _, _, _, _, _, hadd, hst, hc'⟩ := vote_spec hv
    intro id p hp' hs
    rw [hc'] at hp'; simp only [AMap.get?_set] at hp'
    by_cases e : id0 = id
    · simp only [e, if_true, Option.some.injEq] at hp'; subst hp'
      refine cs_passed_yes hst hs ?_
      intro hold
      have h0 := hy id0 p0 hp0 (by simpa [Proposal.tally] using hold)
      have := add_eq hadd
      simp only [Proposal.tally, this]; omega
    · simp only [e, if_false] at hp'; exact hy id p hp' hs
  · obtain ⟨p0, hp0, hst, _, _, hc'⟩ := execute_spec he
    intro id p hp' hs
    rw [hc'] at hp'; simp only [AMap.get?_set] at hp'
    by_cases e : id0 = id
    · simp only [e, if_true, Option.some.injEq] at hp'; subst hp'
      exact cs_passed_yes (t := p0.tally) hst (Or.inl rfl) (fun h => hy id0 p0 hp0 h)
    · simp only [e, if_false] at hp'; exact hy id p hp' hs
  · obtain ⟨p0, _, hp0, _, _, _, _, _, _, hc'⟩ := close_spec hcl
    intro id p hp' hs
    rw [hc'] at hp'; simp only [AMap.get?_set] at hp'
    by_cases e : id0 = id
    · simp only [e, if_true, Option.some.injEq] at hp'; subst hp'; simp at hs
    · simp only [e, if_false] at hp'; exact hy id p hp' hs
  · exact hy

theorem reachable_yes {ext : Ext} {fuel : Nat} {w : World} (hr : Reachable ext fuel w) : YesInv w.flex := by
  obtain ⟨m, s, g, t, bank, self, ga, ta, h0, ops, hi, rfl⟩ := hr
  refine run_state_inv ext YesInv (fun _ _ _ _ _ _ _ _ _ hy h => yes_step hy h) fuel ops _ ⟨instantiate_inv hi, ?_⟩
  intro id p hp
  simp only [instantiate, Res.bind_ok] at hi
  obtain ⟨_, _, _, _, _, _, _, _, hi⟩ := hi
  simp at hi; subst hi
  simp [World.init, Core.empty] at hp

/-- **No proposal ever becomes executable with zero Yes weight** (the all-abstain defect D1 is fixed in the
library): whenever Execute succeeds — in any reachable world, at any block, by anybody, with any group state — the
Yes ballots recorded for the proposal have positive total weight. -/
theorem never_executable_without_yes {ext : Ext} {fuel : Nat} {w : World} (hr : Reachable ext fuel w) {g : Cw4Group.State}
    {self : Addr} {blk : Block} {snd : Addr} {funds : List Coin} {id : Nat}
    (h : (Cw3Flex.execute w.flex g self blk snd funds (.execute id)).isOk = true) : 0 < sumK .yes (ballotsOf w.flex.core id) := by
  obtain ⟨hi, hy⟩ := reachable_yes hr
  obtain ⟨p, hp, hst, _⟩ := (CwPlus.Props.C05Flex.execute_ok_iff w.flex g self blk snd funds id).mp h
  have := cs_passed_yes (t := p.tally) hst (Or.inl rfl) (fun h => hy id p hp h)
  have ht := hi.wf.tally id p hp
  simp only [Proposal.tally, ht, tallyOf] at this
  exact this

/-- **Never executable without Yes weight, for every state satisfying `YesInv`** (`yes_step`: every handler call
preserves `YesInv`, so it holds mid-dispatch too). -/
theorem never_executable_without_yes_inv {s : State} (hy : YesInv s) {g : Cw4Group.State}
    {self : Addr} {blk : Block} {snd : Addr} {funds : List Coin} {id : Nat}
    (h : (Cw3Flex.execute s g self blk snd funds (.execute id)).isOk = true) : 0 < sumK .yes (ballotsOf s.core id) := by
  obtain ⟨hi, hy⟩ := hy
  obtain ⟨p, hp, hst, _⟩ := (CwPlus.Props.C05Flex.execute_ok_iff s g self blk snd funds id).mp h
  have := cs_passed_yes (t := p.tally) hst (Or.inl rfl) (fun h => hy id p hp h)
  have ht := hi.wf.tally id p hp
  simp only [Proposal.tally, ht, tallyOf] at this
  exact this

/-- Every proposal stored Passed or Executed has positive recorded Yes weight. -/
theorem passed_has_yes {ext : Ext} {fuel : Nat} {w : World} (hr : Reachable ext fuel w) {id : Nat} {p : Proposal}
    (hp : w.flex.core.proposals.get? id = some p) (hs : p.status = .passed ∨ p.status = .executed) :
    0 < sumK .yes (ballotsOf w.flex.core id) := by
  obtain ⟨hi, hy⟩ := reachable_yes hr
  have := hy id p hp hs
  rw [hi.wf.tally id p hp] at this
  exact this

/-! ## non-vacuity: the all-abstain history (51 %, zero-weight proposer) -/

namespace Ex

def group0 : Cw4Group.State :=
  match Cw4Group.instantiate ⟨some ⟨true, "adm"⟩, [(⟨true, "z"⟩, 0), (⟨true, "a"⟩, 2), (⟨true, "b"⟩, 3)]⟩ 5 with
  | .ok g => g
  | .error _ => Cw4Group.State.empty

def inst : InstMsg :=
  { group := ⟨true, "grp"⟩, threshold := .absolutePercentage 510000000000000000, maxVotingPeriod := .height 5,
    executor := none, deposit := none }

def flex0 : State := match instantiate inst (some group0) with | .ok s => s | .error _ => default

def world0 : World := World.init flex0 group0 CwPlus.Props.C15.Cex.token0 [] "ms" "grp" "tok" 5

def ops : List Op :=
  [⟨⟨10, 0⟩, .flex "z" [] (.propose "t" "d" [] none)⟩,
   ⟨⟨10, 0⟩, .flex "a" [] (.vote 1 .abstain)⟩,
   ⟨⟨10, 0⟩, .flex "b" [] (.vote 1 .abstain)⟩]

def final : World := run CwPlus.Props.C15.Cex.noExt 10 world0 ops

/-- `b` (3 of 5) proposes: Passed at once; `a` still votes No on it; `a` proposes a second one, `b` votes No
(2 yes / 3 no: undecided), after its expiry an outsider closes it -/
def opsJ : List Op :=
  [⟨⟨10, 0⟩, .flex "b" [] (.propose "t" "d" [] none)⟩,
   ⟨⟨11, 0⟩, .flex "a" [] (.vote 1 .no)⟩,
   ⟨⟨11, 0⟩, .flex "a" [] (.propose "t2" "d" [] none)⟩,
   ⟨⟨12, 0⟩, .flex "b" [] (.vote 2 .no)⟩,
   ⟨⟨16, 0⟩, .flex "x" [] (.close 2)⟩]

def finalJ : World := run CwPlus.Props.C15.Cex.noExt 10 world0 opsJ

end Ex

example : instantiate Ex.inst (some Ex.group0) = .ok Ex.flex0 := rfl

/-- Zero-weight proposer, everybody abstains: the proposal is reported Open (not Passed), Execute is refused, and
after expiry it is reported Rejected. -/
example :
    ((Cw3Flex.queryProposal Ex.final.flex ⟨10, 0⟩ 1).toOption.map (·.status)) = some .open ∧
    (Cw3Flex.execute Ex.final.flex Ex.final.group "ms" ⟨10, 0⟩ "a" [] (.execute 1)).isOk = false ∧
    ((Cw3Flex.queryProposal Ex.final.flex ⟨15, 0⟩ 1).toOption.map (·.status)) = some .rejected ∧
    ((Ex.final.flex.core.proposals.get? 1).map (·.votes)) = some ⟨0, 0, 5, 0⟩ := by
  decide

/-! ### non-vacuity of the exact-rule and sticky-status statements -/

/-- the history `Ex.opsJ` has non-decreasing blocks -/
theorem exJ_reachableAt : ReachableAt CwPlus.Props.C15.Cex.noExt 10 Ex.finalJ ⟨16, 0⟩ := by
  have h0 : ReachableAt CwPlus.Props.C15.Cex.noExt 10 Ex.world0 ⟨10, 0⟩ :=
    ReachableAt.init (m := Ex.inst) Ex.group0 CwPlus.Props.C15.Cex.token0 [] "ms" "grp" "tok" 5 ⟨10, 0⟩ rfl
  have h1 := ReachableAt.step ⟨⟨10, 0⟩, .flex "b" [] (.propose "t" "d" [] none)⟩ h0 ⟨Nat.le_refl _, Nat.le_refl _⟩
  have h2 := ReachableAt.step ⟨⟨11, 0⟩, .flex "a" [] (.vote 1 .no)⟩ h1 ⟨by decide, by decide⟩
  have h3 := ReachableAt.step ⟨⟨11, 0⟩, .flex "a" [] (.propose "t2" "d" [] none)⟩ h2 ⟨Nat.le_refl _, Nat.le_refl _⟩
  have h4 := ReachableAt.step ⟨⟨12, 0⟩, .flex "b" [] (.vote 2 .no)⟩ h3 ⟨by decide, by decide⟩
  exact ReachableAt.step ⟨⟨16, 0⟩, .flex "x" [] (.close 2)⟩ h4 ⟨by decide, by decide⟩

/-- proposal 1 is stored Passed and carries a later No ballot; proposal 2 is stored Rejected (closed after expiry) -/
example : ((Ex.finalJ.flex.core.proposals.get? 1).map fun p => (p.status, p.votes, p.totalWeight)) = some (.passed, ⟨3, 2, 0, 0⟩, 5) ∧
    ((Ex.finalJ.flex.core.proposals.get? 2).map fun p => (p.status, p.votes, p.totalWeight)) = some (.rejected, ⟨2, 3, 0, 0⟩, 5) := by
  decide

/-- the premise of C04 holds for both (ballots 5 ≤ total 5, 51 % is a valid 9-decimal threshold) -/
example : C04.Premise ⟨.open, Ex.inst.threshold, 5, ⟨3, 2, 0, 0⟩, .atHeight 15⟩ ∧
    C04.Premise ⟨.open, Ex.inst.threshold, 5, ⟨2, 3, 0, 0⟩, .atHeight 16⟩ ∧ C04.nineDecimals Ex.inst.threshold :=
  ⟨⟨by decide, by decide, rfl⟩, ⟨by decide, by decide, rfl⟩, ⟨510000000, by decide⟩⟩

/-- before the Close (block 12) proposal 2 is stored Open and reported Open; at its expiry it is reported Rejected -/
example :
    let w := run CwPlus.Props.C15.Cex.noExt 10 Ex.world0 (Ex.opsJ.take 4)
    ((w.flex.core.proposals.get? 2).map (·.status)) = some .open ∧
    ((Cw3Flex.queryProposal w.flex ⟨12, 0⟩ 2).toOption.map (·.status)) = some .open ∧
    ((Cw3Flex.queryProposal w.flex ⟨16, 0⟩ 2).toOption.map (·.status)) = some .rejected ∧
    (Cw3Flex.execute w.flex w.group "ms" ⟨16, 0⟩ "x" [] (.close 2)).isOk = true ∧
    (Cw3Flex.execute w.flex w.group "ms" ⟨15, 0⟩ "x" [] (.close 2)).isOk = false := by
  decide

/-! ### non-vacuity of the `…_reachable` corollaries -/

theorem Ex.group0_inv : CwPlus.Props.C09.Inv Ex.group0 :=
  CwPlus.Props.C09.instantiate_inv
    (msg := ⟨some ⟨true, "adm"⟩, [(⟨true, "z"⟩, 0), (⟨true, "a"⟩, 2), (⟨true, "b"⟩, 3)]⟩) (h0 := 5) rfl

theorem Ex.group0_logLe : Ex.group0.members.LogLe 5 ∧ Ex.group0.total.LogLe 5 := by
  have h := CwPlus.Props.C09.instantiate_sameBlock
    (msg := ⟨some ⟨true, "adm"⟩, [(⟨true, "z"⟩, 0), (⟨true, "a"⟩, 2), (⟨true, "b"⟩, 3)]⟩) (h0 := 5) (s0 := Ex.group0) rfl
  exact ⟨h.1.logLe (CwPlus.Snapshot.SnapMap.logLe_empty 5) (Nat.le_refl _),
    h.2.logLe (CwPlus.Snapshot.Cell.logLe_empty 5) (Nat.le_refl _)⟩

open CwPlus.Props.C06Flex in
/-- the history `Ex.opsJ` is a `ReachableSnap` history (group instantiated at height 5, blocks 10 … 16) -/
theorem exJ_reachableSnap : ReachableSnap CwPlus.Props.C15.Cex.noExt 10 Ex.finalJ ⟨16, 0⟩ := by
  have h0 : ReachableSnap CwPlus.Props.C15.Cex.noExt 10 Ex.world0 ⟨10, 0⟩ :=
    ReachableSnap.init (m := Ex.inst) Ex.group0 CwPlus.Props.C15.Cex.token0 [] "ms" "grp" "tok" 5 ⟨10, 0⟩ rfl
      Ex.group0_inv Ex.group0_logLe.1 Ex.group0_logLe.2 (by decide)
  have h1 := ReachableSnap.step ⟨⟨10, 0⟩, .flex "b" [] (.propose "t" "d" [] none)⟩ h0 ⟨Nat.le_refl _, Nat.le_refl _⟩
  have h2 := ReachableSnap.step ⟨⟨11, 0⟩, .flex "a" [] (.vote 1 .no)⟩ h1 ⟨by decide, by decide⟩
  have h3 := ReachableSnap.step ⟨⟨11, 0⟩, .flex "a" [] (.propose "t2" "d" [] none)⟩ h2 ⟨Nat.le_refl _, Nat.le_refl _⟩
  have h4 := ReachableSnap.step ⟨⟨12, 0⟩, .flex "b" [] (.vote 2 .no)⟩ h3 ⟨by decide, by decide⟩
  exact ReachableSnap.step ⟨⟨16, 0⟩, .flex "x" [] (.close 2)⟩ h4 ⟨by decide, by decide⟩

/-- the guard holds for both proposals of `Ex.finalJ` (started at heights 10 and 11; no group write after height 5);
it fails for the proposal of the counterexample history `CexJ` below -/
example : CleanStart Ex.finalJ.log 1 10 ∧ CleanStart Ex.finalJ.log 2 11 := by decide

open CwPlus.Props.C06Flex in
/-- `passed_justified_reachable` and `rejected_justified_reachable` applied to `Ex.finalJ`: proposal 1 (stored Passed,
with a later No) and proposal 2 (stored Rejected) are justified by their recorded ballots at block 16 — no premise
to check by hand. -/
example : (∀ p, Ex.finalJ.flex.core.proposals.get? 1 = some p → p.status = .passed → p.startHeight = 10 →
      Outcome p (ballotsOf Ex.finalJ.flex.core 1) ⟨16, 0⟩ = .ok .passed) ∧
    (∀ p, Ex.finalJ.flex.core.proposals.get? 2 = some p → p.status = .rejected → p.startHeight = 11 →
      Outcome p (ballotsOf Ex.finalJ.flex.core 2) ⟨16, 0⟩ = .ok .rejected) :=
  ⟨fun p hp hs hh => passed_justified_reachable exJ_reachableSnap hp hs (by rw [hh]; decide) (later_refl_blk _),
   fun p hp hs hh => (rejected_justified_reachable exJ_reachableSnap hp hs (by rw [hh]; decide) (later_refl_blk _)).1⟩

example : ((Ex.finalJ.flex.core.proposals.get? 1).map fun p => (p.status, p.startHeight)) = some (.passed, 10) ∧
    ((Ex.finalJ.flex.core.proposals.get? 2).map fun p => (p.status, p.startHeight)) = some (.rejected, 11) := by decide

/-- non-vacuity of `execute_ok_implies_exact_threshold_reachable` and of the `…_inv` forms: in `Ex.finalJ` (a
`ReachableSnap` world whose state satisfies `Inv` and `YesInv`) Execute of proposal 1 succeeds at block 16, Close is
refused -/
example : (Cw3Flex.execute Ex.finalJ.flex Ex.finalJ.group "ms" ⟨16, 0⟩ "x" [] (.execute 1)).isOk = true ∧
    (Cw3Flex.execute Ex.finalJ.flex Ex.finalJ.group "ms" ⟨16, 0⟩ "x" [] (.close 1)).isOk = false ∧
    Inv Ex.finalJ.flex ∧ YesInv Ex.finalJ.flex :=
  ⟨by decide, by decide, reachable_inv exJ_reachableSnap.reachableAt.reachable,
    reachable_yes exJ_reachableSnap.reachableAt.reachable⟩

/-! ### without the premise the sticky-status statements are FALSE of the code (consequence of D3) -/

namespace CexJ

def group0 : Cw4Group.State :=
  match Cw4Group.instantiate ⟨some ⟨true, "adm"⟩, [(⟨true, "a"⟩, 1), (⟨true, "b"⟩, 4), (⟨true, "c"⟩, 4), (⟨true, "d"⟩, 4)]⟩ 5 with
  | .ok g => g
  | .error _ => Cw4Group.State.empty

/-- quorum 40 %, threshold 60 % -/
def inst : InstMsg :=
  { group := ⟨true, "grp"⟩, threshold := .thresholdQuorum 600000000000000000 400000000000000000,
    maxVotingPeriod := .height 5, executor := none, deposit := none }

def flex0 : State := match instantiate inst (some group0) with | .ok s => s | .error _ => default

def world0 : World := World.init flex0 group0 CwPlus.Props.C15.Cex.token0 [] "ms" "grp" "tok" 5

/-- In block 10 the admin lowers b, c, d from 4 to 1 (group total 13 → 4), then — still in block 10 — `a` proposes:
the proposal records total 4.  b, c, d vote with their snapshot weights 4 (start of block 10). -/
def ops : List Op :=
  [⟨⟨10, 0⟩, .group "adm" (.updateMembers [] [(⟨true, "b"⟩, 1), (⟨true, "c"⟩, 1), (⟨true, "d"⟩, 1)])⟩,
   ⟨⟨10, 0⟩, .flex "a" [] (.propose "t" "d" [] none)⟩,
   ⟨⟨11, 0⟩, .flex "b" [] (.vote 1 .yes)⟩,
   ⟨⟨12, 0⟩, .flex "c" [] (.vote 1 .no)⟩,
   ⟨⟨12, 0⟩, .flex "d" [] (.vote 1 .no)⟩]

def final : World := run CwPlus.Props.C15.Cex.noExt 10 world0 ops

end CexJ

example : instantiate CexJ.inst (some CexJ.group0) = .ok CexJ.flex0 := rfl

/-- **The unguarded `passed_justified` is false for cw3-flex** (machine-checked; a consequence of the open known
finding `C06/flex/propose-after-group-update-in-same-block`, defect D3 — same root cause, seen at the C03 level).
With the recorded total (4) below the snapshot total (13), b's Yes (4) makes the proposal Passed (5 of 4 ≥ 60 %), and
it stays stored Passed while c and d vote No: the recorded ballots are 5 Yes / 8 No — 38 % Yes — yet the proposal is
reported Passed and Execute succeeds at expiry (block 15), although the outcome its recorded ballots imply at that
block is Rejected.  The hypothesis `hprem` of `passed_justified` (ballots ≤ recorded total) is what fails: 13 > 4. -/
theorem passed_justified_counterexample :
    ((CexJ.final.flex.core.proposals.get? 1).map fun p => (p.status, p.votes, p.totalWeight)) = some (.passed, ⟨5, 8, 0, 0⟩, 4) ∧
    Cw4Group.queryTotalWeight CexJ.final.group (some 10) = 13 ∧
    ((CexJ.final.flex.core.proposals.get? 1).map fun p => (Outcome p (ballotsOf CexJ.final.flex.core 1) ⟨15, 0⟩).toOption)
      = some (some .rejected) ∧
    ((Cw3Flex.queryProposal CexJ.final.flex ⟨15, 0⟩ 1).toOption.map (·.status)) = some .passed ∧
    (Cw3Flex.execute CexJ.final.flex CexJ.final.group "ms" ⟨15, 0⟩ "x" [] (.execute 1)).isOk = true := by
  decide

/-- non-vacuity of `listed_status_eq_outcome`: the listing of the reachable world `Ex.finalJ` answers (every stored
proposal fits `u64`, so it has a status at every block: `reachable_statusInv`) -/
example : ∃ vs, Cw3Flex.listProposals Ex.finalJ.flex ⟨16, 0⟩ none none = .ok vs := by
  have hr := exJ_reachableSnap.reachableAt.reachable
  have hfit : ∀ x ∈ Ex.finalJ.flex.core.proposals,
      x.2.votes.yes + x.2.votes.no + x.2.votes.abstain + x.2.votes.veto ≤ U64_MAX := by decide
  refine ⟨_, viewAll_eq_map (fun x hx => ?_)⟩
  have hm : x ∈ Ex.finalJ.flex.core.proposals :=
    Paginate.mem_sortedEntries.mp ((Paginate.page_sublist _ _ _ _).subset hx)
  have hp := AMap.get?_of_mem_nodup (Cw3Flex.reachable_nodup hr) hm
  exact reachable_statusInv hr x.1 x.2 hp (hfit x hm) _

/-- … and the guard of the `…_reachable` corollaries is what excludes this history: a group write in block 10 precedes
the `Propose` of proposal 1 (start height 10). -/
example : ¬ CleanStart CexJ.final.log 1 10 := by decide

end CwPlus.Props.C03Flex
