import CwPlus.Lemmas.Cw3Flex
import CwPlus.Props.C03
import CwPlus.Props.C15
import CwPlus.Props.C05Flex
/-!
# C03 (cw3-flex part) — the status reported for a proposal is the outcome implied by its ballots

The cw3-flex instances of the cw3-fixed theorems of `Props/C03.lean`; `ballotTally` and `Outcome` (the library's
decision applied to the recorded ballots, the proposal's threshold, its recorded total weight and its expiry) are
the definitions of that file.  For cw3-flex the recorded total is the one `Propose` stored (see C06 for how it
relates to the group's snapshot).

Premise of the *meaning* of `Outcome` as "the documented cw3 rule": tally ≤ total (C06).  For cw3-flex that premise
can fail only in the same-block situation tracked under C06 (D3); the theorems below do not need it — they state
that queries, `Execute` and `Close` all follow the library's decision on the recorded ballots, whatever the total.
-/
namespace CwPlus.Props.C03Flex
open CwPlus CwPlus.Cw3 CwPlus.Cw3Core CwPlus.Cw3Flex CwPlus.Props.C03

/-- The status every query (`Proposal`, and per entry `ListProposals` / `ReverseProposals`, which use the same
`viewOf`) reports for a proposal is `current_status` of the stored record at the query block. -/
theorem query_status (s : State) (blk : Block) (id : Nat) (p : Proposal) (hp : s.core.proposals.get? id = some p) :
    (Cw3Flex.queryProposal s blk id).map (·.status) = p.currentStatus blk := by
  simp only [Cw3Flex.queryProposal, Cw3Core.queryProposal, load, hp, viewOf]
  cases h : p.currentStatus blk <;> simp [h, bind, Except.bind, Functor.map, Except.map, pure, Except.pure]

/-- In a reachable world the stored tally of every proposal is the per-option sum of its recorded ballots. -/
theorem tally_is_ballots {ext : Ext} {fuel : Nat} {w : World} (hr : Reachable ext fuel w) {id : Nat} {p : Proposal}
    (hp : w.flex.core.proposals.get? id = some p) : p.votes = tallyOf (ballotsOf w.flex.core id) :=
  (reachable_inv hr).wf.tally id p hp

theorem tally_eq_ballotTally {ext : Ext} {fuel : Nat} {w : World} (hr : Reachable ext fuel w) {id : Nat} {p : Proposal}
    (hp : w.flex.core.proposals.get? id = some p) (ho : p.status = .open) :
    p.tally = ballotTally p (ballotsOf w.flex.core id) := by
  have := tally_is_ballots hr hp
  simp [Proposal.tally, ballotTally, ho, this]

/-- **Status = outcome of the ballots.**  For every reachable world, every proposal and every query block:
stored Open ⇒ the reported status is `Outcome` of the recorded ballots at that block; stored Passed / Rejected /
Executed ⇒ the reported status is the stored one (sticky). -/
theorem status_eq_outcome {ext : Ext} {fuel : Nat} {w : World} (hr : Reachable ext fuel w) {id : Nat} {p : Proposal}
    (hp : w.flex.core.proposals.get? id = some p) (blk : Block) :
    (Cw3Flex.queryProposal w.flex blk id).map (·.status) =
      if p.status = .open then Outcome p (ballotsOf w.flex.core id) blk else .ok p.status := by
  rw [query_status _ _ _ _ hp]
  by_cases ho : p.status = .open
  · simp only [ho, if_true, Proposal.currentStatus, Outcome]
    rw [tally_eq_ballotTally hr hp ho]
  · simp only [ho, if_false, Proposal.currentStatus]
    exact cs_of_ne_open (t := p.tally) ho

/-- **Execute is admitted iff Passed** (and the sender is authorised): in a reachable world Execute succeeds exactly
when the proposal is stored Passed, or stored Open with `Outcome` of its recorded ballots = Passed at the call's
block, and the executor rule admits the sender. -/
theorem execute_admits_iff_outcome {ext : Ext} {fuel : Nat} {w : World} (hr : Reachable ext fuel w) (g : Cw4Group.State)
    (self : Addr) (blk : Block) (snd : Addr) (funds : List Coin) (id : Nat) :
    (Cw3Flex.execute w.flex g self blk snd funds (.execute id)).isOk = true ↔
      ∃ p, w.flex.core.proposals.get? id = some p ∧ authorize w.flex.cfg g snd = true ∧
        (p.status = .passed ∨ (p.status = .open ∧ Outcome p (ballotsOf w.flex.core id) blk = .ok .passed)) := by
  rw [CwPlus.Props.C05Flex.execute_ok_iff]
  constructor
  · rintro ⟨p, hp, hst, ha⟩
    refine ⟨p, hp, ha, ?_⟩
    by_cases ho : p.status = .open
    · right; refine ⟨ho, ?_⟩
      simp only [Outcome, ← tally_eq_ballotTally hr hp ho]; exact hst
    · left
      have : Cw3.currentStatus p.tally blk = .ok p.status := cs_of_ne_open (t := p.tally) ho
      simp only [Proposal.currentStatus] at hst
      rw [this] at hst
      exact (Except.ok.inj hst)
  · rintro ⟨p, hp, ha, h | ⟨ho, h⟩⟩
    · refine ⟨p, hp, ?_, ha⟩
      have : Cw3.currentStatus p.tally blk = .ok p.status := cs_of_ne_open (t := p.tally) (by simp [Proposal.tally, h])
      simp only [Proposal.currentStatus, this, h]
    · refine ⟨p, hp, ?_, ha⟩
      simp only [Outcome, ← tally_eq_ballotTally hr hp ho] at h; exact h

/-! ## never executable without Yes weight (D1 fixed) -/

/-- Invariant: every proposal stored Passed or Executed has positive Yes weight in its tally. -/
def YesInv (s : State) : Prop :=
  Inv s ∧ ∀ id p, s.core.proposals.get? id = some p → (p.status = .passed ∨ p.status = .executed) → 0 < p.votes.yes

theorem yes_step {s s' : State} {g : Cw4Group.State} {self : Addr} {blk : Block} {snd : Addr} {funds : List Coin}
    {m : ExecMsg} {out : List Out} (hy : YesInv s) (h : Cw3Flex.execute s g self blk snd funds m = .ok (s', out)) : YesInv s' := by
  obtain ⟨hi, hy⟩ := hy
  refine ⟨execute_inv hi h, ?_⟩
  obtain ⟨_, hc⟩ := execute_cases h
  rcases hc with ⟨t, d, msgs, latest, w, total, id0, _, _, _, _, _, hp⟩ | ⟨id0, v, _, _, hv⟩ | ⟨id0, p1, msgs, _, _, he, _⟩ |
    ⟨id0, p1, _, _, hcl, _⟩ | ⟨_, _, rfl, _⟩
  · obtain ⟨expires, st, _, hst, _, _, hc'⟩ := propose_spec hp
    intro id p hp' hs
    rw [hc'] at hp'; simp only [AMap.get?_set] at hp'
    by_cases e : id0 = id
    · simp only [e, if_true, Option.some.injEq] at hp'; subst hp'
      exact cs_passed_yes hst hs (by simp [Proposal.tally])
    · simp only [e, if_false] at hp'; exact hy id p hp' hs
  · obtain ⟨p0, w, votes, st, hp0, _, _, _, _, _, hadd, hst, hc'⟩ := vote_spec hv
    intro id p hp' hs
    rw [hc'] at hp'; simp only [AMap.get?_set] at hp'
    by_cases e : id0 = id
    · simp only [e, if_true, Option.some.injEq] at hp'; subst hp'
      refine cs_passed_yes hst hs ?_
      intro hold
      have h0 := hy id0 p0 hp0 (by simpa [Proposal.tally] using hold)
      have := add_eq hadd
      simp only [Proposal.tally, this]; omega
    · simp only [e, if_false] at hp'; exact hy id p hp' hs
  · obtain ⟨p0, hp0, hst, _, _, hc'⟩ := execute_spec he
    intro id p hp' hs
    rw [hc'] at hp'; simp only [AMap.get?_set] at hp'
    by_cases e : id0 = id
    · simp only [e, if_true, Option.some.injEq] at hp'; subst hp'
      exact cs_passed_yes (t := p0.tally) hst (Or.inl rfl) (fun h => hy id0 p0 hp0 h)
    · simp only [e, if_false] at hp'; exact hy id p hp' hs
  · obtain ⟨p0, _, hp0, _, _, _, _, _, _, hc'⟩ := close_spec hcl
    intro id p hp' hs
    rw [hc'] at hp'; simp only [AMap.get?_set] at hp'
    by_cases e : id0 = id
    · simp only [e, if_true, Option.some.injEq] at hp'; subst hp'; simp at hs
    · simp only [e, if_false] at hp'; exact hy id p hp' hs
  · exact hy

theorem reachable_yes {ext : Ext} {fuel : Nat} {w : World} (hr : Reachable ext fuel w) : YesInv w.flex := by
  obtain ⟨m, s, g, t, bank, self, ga, ta, h0, ops, hi, rfl⟩ := hr
  refine run_state_inv ext YesInv (fun _ _ _ _ _ _ _ _ _ hy h => yes_step hy h) fuel ops _ ⟨instantiate_inv hi, ?_⟩
  intro id p hp
  simp only [instantiate, Res.bind_ok] at hi
  obtain ⟨_, _, _, _, _, _, _, _, hi⟩ := hi
  simp at hi; subst hi
  simp [World.init, Core.empty] at hp

/-- **No proposal ever becomes executable with zero Yes weight** (the all-abstain defect D1 is fixed in the
library): whenever Execute succeeds — in any reachable world, at any block, by anybody, with any group state — the
Yes ballots recorded for the proposal have positive total weight. -/
theorem never_executable_without_yes {ext : Ext} {fuel : Nat} {w : World} (hr : Reachable ext fuel w) {g : Cw4Group.State}
    {self : Addr} {blk : Block} {snd : Addr} {funds : List Coin} {id : Nat}
    (h : (Cw3Flex.execute w.flex g self blk snd funds (.execute id)).isOk = true) : 0 < sumK .yes (ballotsOf w.flex.core id) := by
  obtain ⟨hi, hy⟩ := reachable_yes hr
  obtain ⟨p, hp, hst, _⟩ := (CwPlus.Props.C05Flex.execute_ok_iff w.flex g self blk snd funds id).mp h
  have := cs_passed_yes (t := p.tally) hst (Or.inl rfl) (fun h => hy id p hp h)
  have ht := hi.wf.tally id p hp
  simp only [Proposal.tally, ht, tallyOf] at this
  exact this

/-- Every proposal stored Passed or Executed has positive recorded Yes weight. -/
theorem passed_has_yes {ext : Ext} {fuel : Nat} {w : World} (hr : Reachable ext fuel w) {id : Nat} {p : Proposal}
    (hp : w.flex.core.proposals.get? id = some p) (hs : p.status = .passed ∨ p.status = .executed) :
    0 < sumK .yes (ballotsOf w.flex.core id) := by
  obtain ⟨hi, hy⟩ := reachable_yes hr
  have := hy id p hp hs
  rw [hi.wf.tally id p hp] at this
  exact this

/-! ## non-vacuity: the all-abstain history (51 %, zero-weight proposer) -/

namespace Ex

def group0 : Cw4Group.State :=
  match Cw4Group.instantiate ⟨some ⟨true, "adm"⟩, [(⟨true, "z"⟩, 0), (⟨true, "a"⟩, 2), (⟨true, "b"⟩, 3)]⟩ 5 with
  | .ok g => g
  | .error _ => Cw4Group.State.empty

def inst : InstMsg :=
  { group := ⟨true, "grp"⟩, threshold := .absolutePercentage 510000000000000000, maxVotingPeriod := .height 5,
    executor := none, deposit := none }

def flex0 : State := match instantiate inst (some group0) with | .ok s => s | .error _ => default

def world0 : World := World.init flex0 group0 CwPlus.Props.C15.Cex.token0 [] "ms" "grp" "tok" 5

def ops : List Op :=
  [⟨⟨10, 0⟩, .flex "z" [] (.propose "t" "d" [] none)⟩,
   ⟨⟨10, 0⟩, .flex "a" [] (.vote 1 .abstain)⟩,
   ⟨⟨10, 0⟩, .flex "b" [] (.vote 1 .abstain)⟩]

def final : World := run CwPlus.Props.C15.Cex.noExt 10 world0 ops

end Ex

example : instantiate Ex.inst (some Ex.group0) = .ok Ex.flex0 := rfl

/-- Zero-weight proposer, everybody abstains: the proposal is reported Open (not Passed), Execute is refused, and
after expiry it is reported Rejected. -/
example :
    ((Cw3Flex.queryProposal Ex.final.flex ⟨10, 0⟩ 1).toOption.map (·.status)) = some .open ∧
    (Cw3Flex.execute Ex.final.flex Ex.final.group "ms" ⟨10, 0⟩ "a" [] (.execute 1)).isOk = false ∧
    ((Cw3Flex.queryProposal Ex.final.flex ⟨15, 0⟩ 1).toOption.map (·.status)) = some .rejected ∧
    ((Ex.final.flex.core.proposals.get? 1).map (·.votes)) = some ⟨0, 0, 5, 0⟩ := by
  decide

end CwPlus.Props.C03Flex
