import CwPlus.Props.C07
import CwPlus.Props.Cw1SubkeysMigrate
/-!
# C17 — cw1: the admin set changes only by admins while mutable; freezing is permanent

`Wl.*` cw1-whitelist, `Sk.*` cw1-subkeys (which embeds the whitelist's `ADMIN_LIST`).
Histories are `run s ops := ops.foldl step s` over arbitrary (block, sender, message)
triples, failed calls rolled back.
-/
namespace CwPlus.Props.C17
open CwPlus
open CwPlus.Cw1Whitelist (AddrArg CosmosMsg AdminList mapValidate)
open CwPlus.Cw1Subkeys (Allowance Permissions incFn decFn)

/-! ## cw1-whitelist -/

/-- Histories of the whitelist contract. -/
def Wl.run (s : Cw1Whitelist.State) (ops : List (Block × Addr × Cw1Whitelist.Msg)) : Cw1Whitelist.State :=
  ops.foldl (fun s op => Cw1Whitelist.step s op.1 op.2.1 op.2.2) s

/-- What each successful whitelist call does. -/
theorem Wl.execute_cases {s s' : Cw1Whitelist.State} {blk : Block} {snd : Addr} {m : Cw1Whitelist.Msg}
    {out : List CosmosMsg} (h : Cw1Whitelist.execute s blk snd m = .ok (s', out)) :
    match m with
    | .execute _ => s' = s
    | .freeze => s.mutable = true ∧ snd ∈ s.admins ∧ s' = { s with mutable := false }
    | .updateAdmins l => s.mutable = true ∧ snd ∈ s.admins ∧ ∃ a, mapValidate l = .ok a ∧ s' = { s with admins := a } := by
  cases m with
  | execute msgs => exact (C07.Wl.relay_exact h).2
  | freeze =>
    simp [Cw1Whitelist.execute, Cw1Whitelist.execFreeze, AdminList.canModify, AdminList.isAdmin] at h
    exact ⟨h.1.1, h.1.2, h.2.1.symm⟩
  | updateAdmins l =>
    simp [Cw1Whitelist.execute, Cw1Whitelist.execUpdateAdmins, AdminList.canModify, AdminList.isAdmin] at h
    obtain ⟨⟨hm, ha⟩, a, hv, rfl, _⟩ := h
    exact ⟨hm, ha, a, hv, rfl⟩

/-- C17 (whitelist): the admin list changes only through `UpdateAdmins` sent by a current admin while the
contract is mutable. -/
theorem Wl.admins_change_auth {s : Cw1Whitelist.State} {blk : Block} {snd : Addr} {m : Cw1Whitelist.Msg}
    (h : (Cw1Whitelist.step s blk snd m).admins ≠ s.admins) :
    s.mutable = true ∧ snd ∈ s.admins ∧ ∃ l, m = .updateAdmins l := by
  unfold Cw1Whitelist.step at h
  split at h
  · rename_i s' out he
    have hc := Wl.execute_cases he
    cases m with
    | execute msgs => simp at hc; subst hc; exact absurd rfl h
    | freeze => simp at hc; obtain ⟨_, _, rfl⟩ := hc; exact absurd rfl h
    | updateAdmins l => simp at hc; exact ⟨hc.1, hc.2.1, l, rfl⟩
  · exact absurd rfl h

/-- C17 (whitelist): the mutable flag changes only through `Freeze` sent by a current admin while mutable,
and only from `true` to `false`. -/
theorem Wl.mutable_change_auth {s : Cw1Whitelist.State} {blk : Block} {snd : Addr} {m : Cw1Whitelist.Msg}
    (h : (Cw1Whitelist.step s blk snd m).mutable ≠ s.mutable) :
    s.mutable = true ∧ snd ∈ s.admins ∧ m = .freeze ∧ (Cw1Whitelist.step s blk snd m).mutable = false := by
  unfold Cw1Whitelist.step at h ⊢
  split at h
  · rename_i s' out he
    have hc := Wl.execute_cases he
    cases m with
    | execute msgs => simp at hc; subst hc; exact absurd rfl h
    | freeze => simp at hc; obtain ⟨h1, h2, rfl⟩ := hc; exact ⟨h1, h2, rfl, rfl⟩
    | updateAdmins l => simp at hc; obtain ⟨_, _, a, _, rfl⟩ := hc; exact absurd rfl h
  · exact absurd rfl h

/-- An immutable whitelist is a fixed point of every call. -/
theorem Wl.step_frozen {s : Cw1Whitelist.State} (hf : s.mutable = false) (blk : Block) (snd : Addr)
    (m : Cw1Whitelist.Msg) : Cw1Whitelist.step s blk snd m = s := by
  unfold Cw1Whitelist.step
  split
  · rename_i s' out he
    have hc := Wl.execute_cases he
    cases m with
    | execute msgs => simpa using hc
    | freeze => simp at hc; rw [hf] at hc; cases hc.1
    | updateAdmins l => simp at hc; rw [hf] at hc; cases hc.1
  · rfl

/-- C17 (whitelist), freezing is permanent: after `Freeze` or an immutable instantiation no history of
calls by anybody changes the admin list or the flag. -/
theorem Wl.frozen_forever {s : Cw1Whitelist.State} (hf : s.mutable = false)
    (ops : List (Block × Addr × Cw1Whitelist.Msg)) : Wl.run s ops = s := by
  induction ops with
  | nil => rfl
  | cons op rest ih =>
    simp only [Wl.run, List.foldl_cons]
    rw [Wl.step_frozen hf]
    exact ih

/-- C17 (whitelist): a successful `Freeze` leads to a state that no history changes. -/
theorem Wl.freeze_permanent {s s' : Cw1Whitelist.State} {blk : Block} {snd : Addr} {out : List CosmosMsg}
    (h : Cw1Whitelist.execute s blk snd .freeze = .ok (s', out))
    (ops : List (Block × Addr × Cw1Whitelist.Msg)) : Wl.run s' ops = s' := by
  have hc := Wl.execute_cases h
  simp at hc
  obtain ⟨_, _, rfl⟩ := hc
  exact Wl.frozen_forever rfl ops

/-! ## cw1-subkeys -/

/-- Histories of the subkeys contract. -/
def Sk.run (s : Cw1Subkeys.State) (ops : List (Block × Addr × Cw1Subkeys.Msg)) : Cw1Subkeys.State :=
  ops.foldl (fun s op => Cw1Subkeys.step s op.1 op.2.1 op.2.2) s

/-- What each successful subkeys call does to the three parts of the state. -/
theorem Sk.execute_cases {s s' : Cw1Subkeys.State} {blk : Block} {snd : Addr} {m : Cw1Subkeys.Msg}
    {out : List CosmosMsg} (h : Cw1Subkeys.execute s blk snd m = .ok (s', out)) :
    match m with
    | .execute _ => s'.cfg = s.cfg ∧ s'.permissions = s.permissions ∧
        (∀ x, x ≠ snd → s'.allowances.get? x = s.allowances.get? x) ∧ (s.cfg.isAdmin snd = true → s' = s)
    | .freeze => s.cfg.mutable = true ∧ s.cfg.isAdmin snd = true ∧ s' = { s with cfg := { s.cfg with mutable := false } }
    | .updateAdmins l => s.cfg.mutable = true ∧ s.cfg.isAdmin snd = true ∧
        ∃ a, mapValidate l = .ok a ∧ s' = { s with cfg := { s.cfg with admins := a } }
    | .increaseAllowance sp c e => s.cfg.isAdmin snd = true ∧ sp.valid = true ∧ sp.text ≠ snd ∧
        ∃ a, incFn blk c e (s.allowances.get? sp.text) = .ok a ∧ s' = { s with allowances := s.allowances.set sp.text a }
    | .decreaseAllowance sp c e => s.cfg.isAdmin snd = true ∧ sp.valid = true ∧ sp.text ≠ snd ∧
        ∃ a, decFn blk c e (s.allowances.get? sp.text) = .ok a ∧
          s' = { s with allowances := if a.balance.isEmpty then s.allowances.erase sp.text else s.allowances.set sp.text a }
    | .setPermissions sp p => s.cfg.isAdmin snd = true ∧ sp.valid = true ∧ sp.text ≠ snd ∧
        s' = { s with permissions := s.permissions.set sp.text p } := by
  cases m with
  | execute msgs =>
    simp only [Cw1Subkeys.execute, Cw1Subkeys.execExecute] at h
    split at h
    · simp at h; obtain ⟨rfl, _⟩ := h; simp
    · rename_i hna
      simp at h
      obtain ⟨s1, h1, rfl, _⟩ := h
      obtain ⟨a, b, c⟩ := C07.checkMsgs_frame h1
      exact ⟨a, b, c, fun ha => absurd ha hna⟩
  | freeze =>
    simp [Cw1Subkeys.execute, Cw1Subkeys.execFreeze, Cw1Whitelist.execFreeze, AdminList.canModify] at h
    exact ⟨h.1.1, h.1.2, h.2.1.symm⟩
  | updateAdmins l =>
    simp [Cw1Subkeys.execute, Cw1Subkeys.execUpdateAdmins, Cw1Whitelist.execUpdateAdmins, AdminList.canModify] at h
    obtain ⟨⟨hm, ha⟩, a, hv, rfl, _⟩ := h
    exact ⟨hm, ha, a, hv, rfl⟩
  | increaseAllowance sp c e =>
    simp [Cw1Subkeys.execute, Cw1Subkeys.execIncreaseAllowance] at h
    obtain ⟨ha, hv, hne, a, hi, rfl, _⟩ := h
    exact ⟨ha, hv, hne, a, hi, rfl⟩
  | decreaseAllowance sp c e =>
    simp only [Cw1Subkeys.execute, Cw1Subkeys.execDecreaseAllowance] at h
    simp at h
    obtain ⟨ha, hv, hne, a, hd, h⟩ := h
    refine ⟨ha, hv, hne, a, hd, ?_⟩
    split at h <;> simp at h <;> rw [← h.1] <;> simp [*]
  | setPermissions sp p =>
    simp [Cw1Subkeys.execute, Cw1Subkeys.execSetPermissions] at h
    obtain ⟨ha, hv, hne, rfl, _⟩ := h
    exact ⟨ha, hv, hne, rfl⟩

/-- C17 (subkeys): the admin list changes only through `UpdateAdmins` sent by a current admin while mutable. -/
theorem Sk.admins_change_auth {s : Cw1Subkeys.State} {blk : Block} {snd : Addr} {m : Cw1Subkeys.Msg}
    (h : (Cw1Subkeys.step s blk snd m).cfg.admins ≠ s.cfg.admins) :
    s.cfg.mutable = true ∧ s.cfg.isAdmin snd = true ∧ ∃ l, m = .updateAdmins l := by
  unfold Cw1Subkeys.step at h
  split at h
  · rename_i s' out he
    have hc := Sk.execute_cases he
    cases m with
    | execute msgs => simp at hc; rw [hc.1] at h; exact absurd rfl h
    | freeze => simp at hc; obtain ⟨_, _, rfl⟩ := hc; exact absurd rfl h
    | updateAdmins l => simp at hc; exact ⟨hc.1, hc.2.1, l, rfl⟩
    | increaseAllowance sp c e => simp at hc; obtain ⟨_, _, _, a, _, rfl⟩ := hc; exact absurd rfl h
    | decreaseAllowance sp c e => simp at hc; obtain ⟨_, _, _, a, _, rfl⟩ := hc; exact absurd rfl h
    | setPermissions sp p => simp at hc; obtain ⟨_, _, _, rfl⟩ := hc; exact absurd rfl h
  · exact absurd rfl h

/-- C17 (subkeys): the mutable flag changes only through `Freeze` sent by a current admin while mutable,
and only from `true` to `false`. -/
theorem Sk.mutable_change_auth {s : Cw1Subkeys.State} {blk : Block} {snd : Addr} {m : Cw1Subkeys.Msg}
    (h : (Cw1Subkeys.step s blk snd m).cfg.mutable ≠ s.cfg.mutable) :
    s.cfg.mutable = true ∧ s.cfg.isAdmin snd = true ∧ m = .freeze ∧ (Cw1Subkeys.step s blk snd m).cfg.mutable = false := by
  unfold Cw1Subkeys.step at h ⊢
  split at h
  · rename_i s' out he
    have hc := Sk.execute_cases he
    cases m with
    | execute msgs => simp at hc; rw [hc.1] at h; exact absurd rfl h
    | freeze => simp at hc; obtain ⟨h1, h2, rfl⟩ := hc; exact ⟨h1, h2, rfl, rfl⟩
    | updateAdmins l => simp at hc; obtain ⟨_, _, a, _, rfl⟩ := hc; exact absurd rfl h
    | increaseAllowance sp c e => simp at hc; obtain ⟨_, _, _, a, _, rfl⟩ := hc; exact absurd rfl h
    | decreaseAllowance sp c e => simp at hc; obtain ⟨_, _, _, a, _, rfl⟩ := hc; exact absurd rfl h
    | setPermissions sp p => simp at hc; obtain ⟨_, _, _, rfl⟩ := hc; exact absurd rfl h
  · exact absurd rfl h

/-- Once immutable, no call changes the admin configuration (allowances and permissions may still change). -/
theorem Sk.step_frozen {s : Cw1Subkeys.State} (hf : s.cfg.mutable = false) (blk : Block) (snd : Addr)
    (m : Cw1Subkeys.Msg) : (Cw1Subkeys.step s blk snd m).cfg = s.cfg := by
  unfold Cw1Subkeys.step
  split
  · rename_i s' out he
    have hc := Sk.execute_cases he
    cases m with
    | execute msgs => simp at hc; exact hc.1
    | freeze => simp at hc; rw [hf] at hc; cases hc.1
    | updateAdmins l => simp at hc; rw [hf] at hc; cases hc.1
    | increaseAllowance sp c e => simp at hc; obtain ⟨_, _, _, a, _, rfl⟩ := hc; rfl
    | decreaseAllowance sp c e => simp at hc; obtain ⟨_, _, _, a, _, rfl⟩ := hc; rfl
    | setPermissions sp p => simp at hc; obtain ⟨_, _, _, rfl⟩ := hc; rfl
  · rfl

/-- C17 (subkeys), freezing is permanent: after `Freeze` or an immutable instantiation no history of calls
by current admins, removed admins, subkeys or strangers changes the admin list or the flag. -/
theorem Sk.frozen_forever {s : Cw1Subkeys.State} (hf : s.cfg.mutable = false)
    (ops : List (Block × Addr × Cw1Subkeys.Msg)) : (Sk.run s ops).cfg = s.cfg := by
  induction ops generalizing s with
  | nil => rfl
  | cons op rest ih =>
    simp only [Sk.run, List.foldl_cons]
    have h1 := Sk.step_frozen hf op.1 op.2.1 op.2.2
    have := ih (s := Cw1Subkeys.step s op.1 op.2.1 op.2.2) (by rw [h1]; exact hf)
    simp only [Sk.run] at this
    rw [this, h1]

/-- C17 (subkeys): a successful `Freeze` leads to an admin configuration that no history changes. -/
theorem Sk.freeze_permanent {s s' : Cw1Subkeys.State} {blk : Block} {snd : Addr} {out : List CosmosMsg}
    (h : Cw1Subkeys.execute s blk snd .freeze = .ok (s', out))
    (ops : List (Block × Addr × Cw1Subkeys.Msg)) : (Sk.run s' ops).cfg = s'.cfg ∧ s'.cfg.mutable = false := by
  have hc := Sk.execute_cases h
  simp at hc
  obtain ⟨_, _, rfl⟩ := hc
  exact ⟨Sk.frozen_forever rfl ops, rfl⟩

/-- C17 (subkeys): an immutable instantiation is frozen from the start. -/
theorem Sk.immutable_instantiation {m0 : Cw1Subkeys.InstMsg} {s0 : Cw1Subkeys.State}
    (h : Cw1Subkeys.instantiate m0 = .ok s0) (hm : m0.mutable = false)
    (ops : List (Block × Addr × Cw1Subkeys.Msg)) : (Sk.run s0 ops).cfg = s0.cfg := by
  simp [Cw1Subkeys.instantiate, Cw1Whitelist.instantiate] at h
  obtain ⟨c, hc, hs⟩ := h
  have hmut : s0.cfg.mutable = false := by
    rw [← hs]; exact hm
  exact Sk.frozen_forever hmut ops

/-- Which call can change the stored allowance of `x`: an admin's Increase/Decrease naming `x` (a validated
address different from the admin), or `x`'s own non-admin `Execute`. -/
theorem Sk.allowance_change_cases {s : Cw1Subkeys.State} {blk : Block} {snd : Addr} {m : Cw1Subkeys.Msg} {x : Addr}
    (h : (Cw1Subkeys.step s blk snd m).allowances.get? x ≠ s.allowances.get? x) :
    (s.cfg.isAdmin snd = true ∧ x ≠ snd ∧ ∃ sp c e, sp.valid = true ∧ sp.text = x ∧
        (m = .increaseAllowance sp c e ∨ m = .decreaseAllowance sp c e)) ∨
    (s.cfg.isAdmin snd = false ∧ x = snd ∧ ∃ msgs, m = .execute msgs) := by
  unfold Cw1Subkeys.step at h
  split at h
  · rename_i s' out he
    have hc := Sk.execute_cases he
    cases m with
    | execute msgs =>
      simp at hc
      obtain ⟨_, _, hfr, hadm⟩ := hc
      right
      cases ha : s.cfg.isAdmin snd
      · refine ⟨rfl, ?_, msgs, rfl⟩
        by_cases hx : x = snd
        · exact hx
        · exact absurd (hfr x hx) h
      · rw [hadm ha] at h; exact absurd rfl h
    | freeze => simp at hc; obtain ⟨_, _, rfl⟩ := hc; exact absurd rfl h
    | updateAdmins l => simp at hc; obtain ⟨_, _, a, _, rfl⟩ := hc; exact absurd rfl h
    | increaseAllowance sp c e =>
      simp at hc
      obtain ⟨ha, hv, hne, a, _, rfl⟩ := hc
      left
      by_cases hx : sp.text = x
      · exact ⟨ha, hx ▸ hne, sp, c, e, hv, hx, Or.inl rfl⟩
      · simp [AMap.get?_set_ne _ _ _ _ hx] at h
    | decreaseAllowance sp c e =>
      simp at hc
      obtain ⟨ha, hv, hne, a, _, rfl⟩ := hc
      left
      by_cases hx : sp.text = x
      · exact ⟨ha, hx ▸ hne, sp, c, e, hv, hx, Or.inr rfl⟩
      · split at h <;> simp [AMap.get?_set_ne _ _ _ _ hx, AMap.get?_erase_ne _ _ _ hx] at h
    | setPermissions sp p => simp at hc; obtain ⟨_, _, _, rfl⟩ := hc; exact absurd rfl h
  · exact absurd rfl h

/-- Which call can change the stored permissions of `x`: only an admin's `SetPermissions` naming `x`. -/
theorem Sk.permissions_change_cases {s : Cw1Subkeys.State} {blk : Block} {snd : Addr} {m : Cw1Subkeys.Msg} {x : Addr}
    (h : (Cw1Subkeys.step s blk snd m).permissions.get? x ≠ s.permissions.get? x) :
    s.cfg.isAdmin snd = true ∧ x ≠ snd ∧ ∃ sp p, sp.valid = true ∧ sp.text = x ∧ m = .setPermissions sp p := by
  unfold Cw1Subkeys.step at h
  split at h
  · rename_i s' out he
    have hc := Sk.execute_cases he
    cases m with
    | execute msgs => simp at hc; rw [hc.2.1] at h; exact absurd rfl h
    | freeze => simp at hc; obtain ⟨_, _, rfl⟩ := hc; exact absurd rfl h
    | updateAdmins l => simp at hc; obtain ⟨_, _, a, _, rfl⟩ := hc; exact absurd rfl h
    | increaseAllowance sp c e => simp at hc; obtain ⟨_, _, _, a, _, rfl⟩ := hc; exact absurd rfl h
    | decreaseAllowance sp c e => simp at hc; obtain ⟨_, _, _, a, _, rfl⟩ := hc; exact absurd rfl h
    | setPermissions sp p =>
      simp at hc
      obtain ⟨ha, hv, hne, rfl⟩ := hc
      by_cases hx : sp.text = x
      · exact ⟨ha, hx ▸ hne, sp, p, hv, hx, rfl⟩
      · simp [AMap.get?_set_ne _ _ _ _ hx] at h
  · exact absurd rfl h

/-- C17 (subkeys), grants: an allowance is created or altered only by a call from a current admin — apart
from the subkey's own spending (C08) — and permissions are created or altered only by a current admin. -/
theorem Sk.grants_admin_only {s : Cw1Subkeys.State} {blk : Block} {snd : Addr} {m : Cw1Subkeys.Msg} {x : Addr} :
    ((Cw1Subkeys.step s blk snd m).allowances.get? x ≠ s.allowances.get? x →
        s.cfg.isAdmin snd = true ∨ (x = snd ∧ ∃ msgs, m = .execute msgs)) ∧
    ((Cw1Subkeys.step s blk snd m).permissions.get? x ≠ s.permissions.get? x → s.cfg.isAdmin snd = true) := by
  constructor
  · intro h
    rcases Sk.allowance_change_cases h with ⟨ha, _⟩ | ⟨_, hx, hm⟩
    · exact Or.inl ha
    · exact Or.inr ⟨hx, hm⟩
  · intro h; exact (Sk.permissions_change_cases h).1

theorem covers_none {perm : Option Permissions} {blk : Block} {m : CosmosMsg} {al' : Option Allowance}
    (h : C07.covers perm blk none m = some al') : al' = none := by
  cases m <;> simp [C07.covers] at h
  all_goals (split at h <;> first | cases h | (split at h <;> simp_all))

theorem checkMsgs_none {s s1 : Cw1Subkeys.State} {blk : Block} {snd : Addr} {msgs : List CosmosMsg}
    (hn : s.allowances.get? snd = none) (h1 : Cw1Subkeys.checkMsgs s blk snd msgs = .ok s1) :
    s1.allowances.get? snd = none := by
  induction msgs generalizing s with
  | nil => simp [Cw1Subkeys.checkMsgs] at h1; rw [← h1]; exact hn
  | cons m ms ih =>
    simp [Cw1Subkeys.checkMsgs] at h1
    obtain ⟨s2, h2, h3⟩ := h1
    have hspec := C07.checkMsg_spec s blk snd m
    split at hspec
    · rename_i al' hc
      obtain ⟨s2', h2', _, _, hal, _⟩ := hspec
      rw [h2] at h2'; cases h2'
      rw [hn] at hc
      rw [covers_none hc] at hal
      exact ih hal h3
    · obtain ⟨e, he⟩ := hspec; rw [h2] at he; cases he

/-- C17 (subkeys): own spending never *creates* an allowance: a subkey's `Execute` can change its allowance
only if it already had one. -/
theorem Sk.spending_needs_grant {s : Cw1Subkeys.State} {blk : Block} {snd : Addr} {msgs : List CosmosMsg}
    (h : (Cw1Subkeys.step s blk snd (.execute msgs)).allowances.get? snd ≠ s.allowances.get? snd) :
    s.allowances.get? snd ≠ none := by
  intro hn
  apply h
  unfold Cw1Subkeys.step
  split
  · rename_i s' out he
    simp only [Cw1Subkeys.execute, Cw1Subkeys.execExecute] at he
    split at he
    · simp at he; rw [← he.1]
    · simp at he
      obtain ⟨s1, h1, hs, _⟩ := he
      rw [← hs, checkMsgs_none hn h1, hn]
  · rfl

/-! ## Grants are stored under validated addresses only -/

/-- Every address argument of the message that `addr_validate` accepted satisfies `V` (think of `V` as "is a
well-formed address": the oracle behind the `valid` flags). -/
def argsOk (V : String → Prop) : Cw1Subkeys.Msg → Prop
  | .increaseAllowance sp _ _ => sp.valid = true → V sp.text
  | .decreaseAllowance sp _ _ => sp.valid = true → V sp.text
  | .setPermissions sp _ => sp.valid = true → V sp.text
  | _ => True

/-- All keys of `ALLOWANCES` and `PERMISSIONS` satisfy `V`. -/
def KeysOk (V : String → Prop) (s : Cw1Subkeys.State) : Prop :=
  (∀ x, s.allowances.get? x ≠ none → V x) ∧ (∀ x, s.permissions.get? x ≠ none → V x)

theorem Sk.step_keys {V : String → Prop} {s : Cw1Subkeys.State} (hk : KeysOk V s) (blk : Block) (snd : Addr)
    {m : Cw1Subkeys.Msg} (hm : argsOk V m) : KeysOk V (Cw1Subkeys.step s blk snd m) := by
  constructor
  · intro x hx
    by_cases hc : (Cw1Subkeys.step s blk snd m).allowances.get? x = s.allowances.get? x
    · exact hk.1 x (by rw [← hc]; exact hx)
    · rcases Sk.allowance_change_cases hc with ⟨_, _, sp, c, e, hv, rfl, hm' | hm'⟩ | ⟨_, rfl, msgs, rfl⟩
      · subst hm'; exact hm hv
      · subst hm'; exact hm hv
      · exact hk.1 x (Sk.spending_needs_grant hc)
  · intro x hx
    by_cases hc : (Cw1Subkeys.step s blk snd m).permissions.get? x = s.permissions.get? x
    · exact hk.2 x (by rw [← hc]; exact hx)
    · obtain ⟨_, _, sp, p, hv, rfl, rfl⟩ := Sk.permissions_change_cases hc
      exact hm hv

/-- C17 (subkeys): on every history from instantiation, allowances and permissions exist only for addresses that
`addr_validate` accepted in some admin call. -/
theorem Sk.grant_keys_valid (V : String → Prop) {m0 : Cw1Subkeys.InstMsg} {s0 : Cw1Subkeys.State}
    (h0 : Cw1Subkeys.instantiate m0 = .ok s0) (ops : List (Block × Addr × Cw1Subkeys.Msg))
    (hops : ∀ op ∈ ops, argsOk V op.2.2) : KeysOk V (Sk.run s0 ops) := by
  have hinit : KeysOk V s0 := by
    simp [Cw1Subkeys.instantiate] at h0
    obtain ⟨c, _, rfl⟩ := h0
    constructor <;> intro x hx <;> simp at hx
  clear h0
  induction ops generalizing s0 with
  | nil => exact hinit
  | cons op rest ih =>
    simp only [Sk.run, List.foldl_cons]
    exact ih (fun o ho => hops o (List.mem_cons_of_mem _ ho)) (Sk.step_keys hinit op.1 op.2.1 (hops op (by simp)))

/-! ## Exact effect and exact success conditions of the admin-guarded calls -/

/-- `map_validate` succeeds exactly when every entry validates, and then returns the submitted strings as they
are: same order, duplicates kept. -/
theorem mapValidate_ok_iff (l : List AddrArg) (a : List Addr) :
    mapValidate l = .ok a ↔ (∀ x ∈ l, x.valid = true) ∧ a = l.map (·.text) := by
  induction l generalizing a with
  | nil => simp [mapValidate]
  | cons x rest ih =>
    have key : mapValidate (x :: rest) = .ok a ↔ x.valid = true ∧ ∃ r, mapValidate rest = .ok r ∧ x.text :: r = a := by
      simp [mapValidate]
    rw [key]
    constructor
    · rintro ⟨hx, r, hr, rfl⟩
      obtain ⟨h1, rfl⟩ := (ih r).mp hr
      refine ⟨?_, rfl⟩
      intro y hy
      rcases List.mem_cons.mp hy with rfl | hy
      · exact hx
      · exact h1 y hy
    · rintro ⟨hall, rfl⟩
      exact ⟨hall x (by simp), _, (ih _).mpr ⟨fun y hy => hall y (by simp [hy]), rfl⟩, rfl⟩

theorem mapValidate_isOk_iff (l : List AddrArg) : (mapValidate l).isOk = true ↔ ∀ x ∈ l, x.valid = true := by
  cases h : mapValidate l with
  | ok a => simp [Res.isOk]; exact ((mapValidate_ok_iff l a).mp h).1
  | error e =>
    simp only [Res.isOk, Bool.false_eq_true, false_iff]
    intro hall
    have := (mapValidate_ok_iff l (l.map (·.text))).mpr ⟨hall, rfl⟩
    rw [h] at this; cases this

/-- C17 (whitelist), instantiation: it succeeds exactly when every submitted admin validates, and stores exactly
the submitted list and flag. -/
theorem Wl.instantiate_ok_iff (m0 : Cw1Whitelist.InstMsg) (s0 : Cw1Whitelist.State) :
    Cw1Whitelist.instantiate m0 = .ok s0 ↔
      (∀ x ∈ m0.admins, x.valid = true) ∧ s0 = ⟨m0.admins.map (·.text), m0.mutable⟩ := by
  simp only [Cw1Whitelist.instantiate, Res.bind_ok, Res.pure_ok]
  constructor
  · rintro ⟨a, ha, rfl⟩
    obtain ⟨h1, rfl⟩ := (mapValidate_ok_iff _ _).mp ha
    exact ⟨h1, rfl⟩
  · rintro ⟨h1, rfl⟩
    exact ⟨_, (mapValidate_ok_iff _ _).mpr ⟨h1, rfl⟩, rfl⟩

/-- C17 (whitelist): an immutable instantiation is frozen from the start — no history changes anything. -/
theorem Wl.immutable_instantiation {m0 : Cw1Whitelist.InstMsg} {s0 : Cw1Whitelist.State}
    (h : Cw1Whitelist.instantiate m0 = .ok s0) (hm : m0.mutable = false)
    (ops : List (Block × Addr × Cw1Whitelist.Msg)) : Wl.run s0 ops = s0 := by
  obtain ⟨_, rfl⟩ := (Wl.instantiate_ok_iff m0 s0).mp h
  exact Wl.frozen_forever hm ops

/-- C17 (whitelist), `UpdateAdmins` succeeds exactly when the contract is mutable, the caller is a current admin
and every submitted entry validates. -/
theorem Wl.updateAdmins_ok_iff (s : Cw1Whitelist.State) (blk : Block) (snd : Addr) (l : List AddrArg) :
    (Cw1Whitelist.execute s blk snd (.updateAdmins l)).isOk = true ↔
      s.mutable = true ∧ snd ∈ s.admins ∧ ∀ x ∈ l, x.valid = true := by
  constructor
  · intro h
    cases hr : Cw1Whitelist.execute s blk snd (.updateAdmins l) with
    | error e => rw [hr] at h; cases h
    | ok r =>
      obtain ⟨s', out⟩ := r
      have hc := Wl.execute_cases hr
      simp only at hc
      obtain ⟨h1, h2, a, ha, _⟩ := hc
      exact ⟨h1, h2, ((mapValidate_ok_iff l a).mp ha).1⟩
  · rintro ⟨h1, h2, h3⟩
    have hv := (mapValidate_ok_iff l _).mpr ⟨h3, rfl⟩
    simp [Cw1Whitelist.execute, Cw1Whitelist.execUpdateAdmins, AdminList.canModify, AdminList.isAdmin, h1, h2, hv,
      check, bind, Except.bind, pure, Except.pure, Res.isOk]

/-- C17 (whitelist), "the admin list is set to exactly the submitted list": a successful `UpdateAdmins` stores the
submitted strings in order, duplicates kept, leaves the flag alone and relays nothing. -/
theorem Wl.updateAdmins_exact {s s' : Cw1Whitelist.State} {blk : Block} {snd : Addr} {l : List AddrArg}
    {out : List CosmosMsg} (h : Cw1Whitelist.execute s blk snd (.updateAdmins l) = .ok (s', out)) :
    s' = ⟨l.map (·.text), s.mutable⟩ ∧ out = [] := by
  have hc := Wl.execute_cases h
  simp only at hc
  obtain ⟨_, _, a, ha, rfl⟩ := hc
  obtain ⟨_, rfl⟩ := (mapValidate_ok_iff l a).mp ha
  refine ⟨rfl, ?_⟩
  by_cases hne : out = []
  · exact hne
  · obtain ⟨msgs, hm⟩ := C07.Wl.only_execute_relays h hne; cases hm

/-- C17 (whitelist), `Freeze` succeeds exactly when the contract is mutable and the caller is a current admin. -/
theorem Wl.freeze_ok_iff (s : Cw1Whitelist.State) (blk : Block) (snd : Addr) :
    (Cw1Whitelist.execute s blk snd .freeze).isOk = true ↔ s.mutable = true ∧ snd ∈ s.admins := by
  constructor
  · intro h
    cases hr : Cw1Whitelist.execute s blk snd .freeze with
    | error e => rw [hr] at h; cases h
    | ok r =>
      obtain ⟨s', out⟩ := r
      have hc := Wl.execute_cases hr
      exact ⟨hc.1, hc.2.1⟩
  · rintro ⟨h1, h2⟩
    simp [Cw1Whitelist.execute, Cw1Whitelist.execFreeze, AdminList.canModify, AdminList.isAdmin, h1, h2,
      check, bind, Except.bind, pure, Except.pure, Res.isOk]

/-- C17 (whitelist): a successful `Freeze` clears the flag and keeps the admin list. -/
theorem Wl.freeze_exact {s s' : Cw1Whitelist.State} {blk : Block} {snd : Addr} {out : List CosmosMsg}
    (h : Cw1Whitelist.execute s blk snd .freeze = .ok (s', out)) : s' = ⟨s.admins, false⟩ := by
  have hc := Wl.execute_cases h
  exact hc.2.2

/-- The two history functions of cw1-subkeys (`C07.Sk.run`, `C17.Sk.run`) are the same function. -/
theorem Sk.run_eq_C07 : @Sk.run = @C07.Sk.run := rfl

theorem Sk.run_cons (s : Cw1Subkeys.State) (op : Block × Addr × Cw1Subkeys.Msg) (rest : List (Block × Addr × Cw1Subkeys.Msg)) :
    Sk.run s (op :: rest) = Sk.run (Cw1Subkeys.step s op.1 op.2.1 op.2.2) rest := rfl

theorem Sk.run_append (s : Cw1Subkeys.State) (a b : List (Block × Addr × Cw1Subkeys.Msg)) :
    Sk.run s (a ++ b) = Sk.run (Sk.run s a) b := by
  simp [Sk.run, List.foldl_append]

/-- C17 (subkeys), instantiation: succeeds exactly when every submitted admin validates; stores exactly the
submitted list and flag, and no grants. -/
theorem Sk.instantiate_ok_iff (m0 : Cw1Subkeys.InstMsg) (s0 : Cw1Subkeys.State) :
    Cw1Subkeys.instantiate m0 = .ok s0 ↔
      (∀ x ∈ m0.admins, x.valid = true) ∧
      s0 = { cfg := ⟨m0.admins.map (·.text), m0.mutable⟩, allowances := [], permissions := [],
             cw2 := some ⟨Cw1Subkeys.CONTRACT_NAME, some Cw1Subkeys.CONTRACT_VERSION⟩ } := by
  simp only [Cw1Subkeys.instantiate, Res.bind_ok, Res.pure_ok]
  constructor
  · rintro ⟨c, hc, rfl⟩
    obtain ⟨h1, rfl⟩ := (Wl.instantiate_ok_iff m0 c).mp hc
    exact ⟨h1, rfl⟩
  · rintro ⟨h1, rfl⟩
    exact ⟨_, (Wl.instantiate_ok_iff m0 _).mpr ⟨h1, rfl⟩, rfl⟩

/-- C17 (subkeys), `UpdateAdmins` succeeds exactly when the contract is mutable, the caller is a current admin
and every submitted entry validates. -/
theorem Sk.updateAdmins_ok_iff (s : Cw1Subkeys.State) (blk : Block) (snd : Addr) (l : List AddrArg) :
    (Cw1Subkeys.execute s blk snd (.updateAdmins l)).isOk = true ↔
      s.cfg.mutable = true ∧ s.cfg.isAdmin snd = true ∧ ∀ x ∈ l, x.valid = true := by
  constructor
  · intro h
    cases hr : Cw1Subkeys.execute s blk snd (.updateAdmins l) with
    | error e => rw [hr] at h; cases h
    | ok r =>
      obtain ⟨s', out⟩ := r
      have hc := Sk.execute_cases hr
      simp only at hc
      obtain ⟨h1, h2, a, ha, _⟩ := hc
      exact ⟨h1, h2, ((mapValidate_ok_iff l a).mp ha).1⟩
  · rintro ⟨h1, h2, h3⟩
    have hv := (mapValidate_ok_iff l _).mpr ⟨h3, rfl⟩
    simp [Cw1Subkeys.execute, Cw1Subkeys.execUpdateAdmins, Cw1Whitelist.execUpdateAdmins, AdminList.canModify,
      h1, h2, hv, check, bind, Except.bind, pure, Except.pure, Res.isOk]

/-- C17 (subkeys), "the admin list is set to exactly the submitted list": a successful `UpdateAdmins` stores the
submitted strings in order, duplicates kept; flag, allowances, permissions and the cw2 item stay; nothing is relayed. -/
theorem Sk.updateAdmins_exact {s s' : Cw1Subkeys.State} {blk : Block} {snd : Addr} {l : List AddrArg}
    {out : List CosmosMsg} (h : Cw1Subkeys.execute s blk snd (.updateAdmins l) = .ok (s', out)) :
    s' = { s with cfg := ⟨l.map (·.text), s.cfg.mutable⟩ } ∧ out = [] := by
  have hc := Sk.execute_cases h
  simp only at hc
  obtain ⟨_, _, a, ha, rfl⟩ := hc
  obtain ⟨_, rfl⟩ := (mapValidate_ok_iff l a).mp ha
  refine ⟨rfl, ?_⟩
  by_cases hne : out = []
  · exact hne
  · obtain ⟨msgs, hm⟩ := C07.Sk.only_execute_relays h hne; cases hm

/-- C17 (subkeys), `Freeze` succeeds exactly when the contract is mutable and the caller is a current admin. -/
theorem Sk.freeze_ok_iff (s : Cw1Subkeys.State) (blk : Block) (snd : Addr) :
    (Cw1Subkeys.execute s blk snd .freeze).isOk = true ↔ s.cfg.mutable = true ∧ s.cfg.isAdmin snd = true := by
  constructor
  · intro h
    cases hr : Cw1Subkeys.execute s blk snd .freeze with
    | error e => rw [hr] at h; cases h
    | ok r =>
      obtain ⟨s', out⟩ := r
      have hc := Sk.execute_cases hr
      exact ⟨hc.1, hc.2.1⟩
  · rintro ⟨h1, h2⟩
    simp [Cw1Subkeys.execute, Cw1Subkeys.execFreeze, Cw1Whitelist.execFreeze, AdminList.canModify, h1, h2,
      check, bind, Except.bind, pure, Except.pure, Res.isOk]

/-- C17 (subkeys), `SetPermissions` succeeds exactly when the caller is a current admin and the spender is a
validated address different from the caller (mutability is irrelevant: grants can be changed on a frozen contract). -/
theorem Sk.setPermissions_ok_iff (s : Cw1Subkeys.State) (blk : Block) (snd : Addr) (sp : AddrArg) (p : Permissions) :
    (Cw1Subkeys.execute s blk snd (.setPermissions sp p)).isOk = true ↔
      s.cfg.isAdmin snd = true ∧ sp.valid = true ∧ sp.text ≠ snd := by
  constructor
  · intro h
    cases hr : Cw1Subkeys.execute s blk snd (.setPermissions sp p) with
    | error e => rw [hr] at h; cases h
    | ok r =>
      obtain ⟨s', out⟩ := r
      have hc := Sk.execute_cases hr
      exact ⟨hc.1, hc.2.1, hc.2.2.1⟩
  · rintro ⟨h1, h2, h3⟩
    simp [Cw1Subkeys.execute, Cw1Subkeys.execSetPermissions, h1, h2, h3,
      check, bind, Except.bind, pure, Except.pure, Res.isOk]

/-- C17 (subkeys): a successful `SetPermissions` stores exactly the submitted record for the spender, touches
nobody else's permissions, no allowance and not the admin configuration, and relays nothing. -/
theorem Sk.setPermissions_exact {s s' : Cw1Subkeys.State} {blk : Block} {snd : Addr} {sp : AddrArg} {p : Permissions}
    {out : List CosmosMsg} (h : Cw1Subkeys.execute s blk snd (.setPermissions sp p) = .ok (s', out)) :
    s'.permissions.get? sp.text = some p ∧ (∀ y, y ≠ sp.text → s'.permissions.get? y = s.permissions.get? y) ∧
      s'.allowances = s.allowances ∧ s'.cfg = s.cfg ∧ out = [] := by
  have hc := Sk.execute_cases h
  simp only at hc
  obtain ⟨_, _, _, rfl⟩ := hc
  refine ⟨by simp, fun y hy => AMap.get?_set_ne _ _ _ _ (Ne.symm hy), rfl, rfl, ?_⟩
  by_cases hne : out = []
  · exact hne
  · obtain ⟨msgs, hm⟩ := C07.Sk.only_execute_relays h hne; cases hm

/-! ## History forms -/

/-- C17 (subkeys): the flag never comes back — if a history ends mutable it started mutable (and, by the same
argument applied to every suffix, was mutable all the way). -/
theorem Sk.mutable_never_returns {s : Cw1Subkeys.State} {ops : List (Block × Addr × Cw1Subkeys.Msg)}
    (h : (Sk.run s ops).cfg.mutable = true) : s.cfg.mutable = true := by
  cases hm : s.cfg.mutable with
  | true => rfl
  | false => rw [Sk.frozen_forever hm ops, hm] at h; cases h

theorem Wl.mutable_never_returns {s : Cw1Whitelist.State} {ops : List (Block × Addr × Cw1Whitelist.Msg)}
    (h : (Wl.run s ops).mutable = true) : s.mutable = true := by
  cases hm : s.mutable with
  | true => rfl
  | false => rw [Wl.frozen_forever hm ops, hm] at h; cases h

/-- C17 (subkeys), history form of "the admin list changes only via `UpdateAdmins` sent by a current admin while
mutable": if a history changed the admin list, it contains a *successful* `UpdateAdmins` whose sender was, at that
point of the history, a current admin of a still mutable contract.  In particular an admin removed earlier in the
history is not that sender unless it was re-added. -/
theorem Sk.run_admins_changed {s : Cw1Subkeys.State} {ops : List (Block × Addr × Cw1Subkeys.Msg)}
    (h : (Sk.run s ops).cfg.admins ≠ s.cfg.admins) :
    ∃ pre blk snd l post, ops = pre ++ (blk, snd, .updateAdmins l) :: post ∧
      (Sk.run s pre).cfg.mutable = true ∧ (Sk.run s pre).cfg.isAdmin snd = true ∧
      (Cw1Subkeys.execute (Sk.run s pre) blk snd (.updateAdmins l)).isOk = true := by
  induction ops generalizing s with
  | nil => exact absurd rfl h
  | cons op rest ih =>
    obtain ⟨blk, snd, m⟩ := op
    by_cases hstep : (Cw1Subkeys.step s blk snd m).cfg.admins = s.cfg.admins
    · rw [Sk.run_cons] at h
      obtain ⟨pre, blk', snd', l, post, he, h1, h2, h3⟩ := ih (s := Cw1Subkeys.step s blk snd m) (by simpa [hstep] using h)
      exact ⟨(blk, snd, m) :: pre, blk', snd', l, post, by rw [he]; rfl, h1, h2, h3⟩
    · obtain ⟨hm, ha, l, rfl⟩ := Sk.admins_change_auth hstep
      refine ⟨[], blk, snd, l, rest, rfl, hm, ha, ?_⟩
      show (Cw1Subkeys.execute s blk snd (.updateAdmins l)).isOk = true
      cases hr : Cw1Subkeys.execute s blk snd (.updateAdmins l) with
      | ok r => rfl
      | error e => simp [Cw1Subkeys.step, hr] at hstep

/-- C17 (whitelist), the same history form. -/
theorem Wl.run_admins_changed {s : Cw1Whitelist.State} {ops : List (Block × Addr × Cw1Whitelist.Msg)}
    (h : (Wl.run s ops).admins ≠ s.admins) :
    ∃ pre blk snd l post, ops = pre ++ (blk, snd, .updateAdmins l) :: post ∧
      (Wl.run s pre).mutable = true ∧ snd ∈ (Wl.run s pre).admins ∧ ∀ x ∈ l, x.valid = true := by
  induction ops generalizing s with
  | nil => exact absurd rfl h
  | cons op rest ih =>
    obtain ⟨blk, snd, m⟩ := op
    by_cases hstep : (Cw1Whitelist.step s blk snd m).admins = s.admins
    · have h' : (Wl.run (Cw1Whitelist.step s blk snd m) rest).admins ≠ (Cw1Whitelist.step s blk snd m).admins := by
        rw [hstep]; exact h
      obtain ⟨pre, blk', snd', l, post, he, h1, h2, h3⟩ := ih h'
      exact ⟨(blk, snd, m) :: pre, blk', snd', l, post, by rw [he]; rfl, h1, h2, h3⟩
    · obtain ⟨hm, ha, l, rfl⟩ := Wl.admins_change_auth hstep
      refine ⟨[], blk, snd, l, rest, rfl, hm, ha, ?_⟩
      cases hr : Cw1Whitelist.execute s blk snd (.updateAdmins l) with
      | ok r => exact ((Wl.updateAdmins_ok_iff s blk snd l).mp (by rw [hr]; rfl)).2.2
      | error e => simp [Cw1Whitelist.step, hr] at hstep

/-- A contract without admins cannot change its admin configuration. -/
theorem Sk.step_no_admins {s : Cw1Subkeys.State} (hn : s.cfg.admins = []) (blk : Block) (snd : Addr)
    (m : Cw1Subkeys.Msg) : (Cw1Subkeys.step s blk snd m).cfg = s.cfg ∧
      (Cw1Subkeys.step s blk snd m).permissions = s.permissions ∧
      ∀ x, (Cw1Subkeys.step s blk snd m).allowances.get? x ≠ s.allowances.get? x → x = snd ∧ ∃ msgs, m = .execute msgs := by
  have hna : s.cfg.isAdmin snd = false := by simp [AdminList.isAdmin, hn]
  refine ⟨?_, ?_, ?_⟩
  · cases hm : s.cfg.mutable with
    | false => exact Sk.step_frozen hm blk snd m
    | true =>
      by_cases h1 : (Cw1Subkeys.step s blk snd m).cfg.admins = s.cfg.admins
      · by_cases h2 : (Cw1Subkeys.step s blk snd m).cfg.mutable = s.cfg.mutable
        · cases hc : (Cw1Subkeys.step s blk snd m).cfg; cases hc' : s.cfg; simp_all
        · have := (Sk.mutable_change_auth h2).2.1; rw [hna] at this; cases this
      · have := (Sk.admins_change_auth h1).2.1; rw [hna] at this; cases this
  · apply Classical.byContradiction
    intro hp
    have : ∃ x, (Cw1Subkeys.step s blk snd m).permissions.get? x ≠ s.permissions.get? x := by
      apply Classical.byContradiction
      intro hall
      simp only [not_exists, Classical.not_not] at hall
      unfold Cw1Subkeys.step at hp hall
      split at hp
      · rename_i s' out he
        have hc := Sk.execute_cases he
        cases m with
        | execute msgs => exact hp hc.2.1
        | freeze => simp at hc; rw [hna] at hc; cases hc.2.1
        | updateAdmins l => simp at hc; rw [hna] at hc; cases hc.2.1
        | increaseAllowance sp c e => simp at hc; rw [hna] at hc; cases hc.1
        | decreaseAllowance sp c e => simp at hc; rw [hna] at hc; cases hc.1
        | setPermissions sp p => simp at hc; rw [hna] at hc; cases hc.1
      · exact hp rfl
    obtain ⟨x, hx⟩ := this
    have := (Sk.permissions_change_cases hx).1
    rw [hna] at this; cases this
  · intro x hx
    rcases Sk.allowance_change_cases hx with ⟨ha, _⟩ | ⟨_, hxs, hm⟩
    · rw [hna] at ha; cases ha
    · exact ⟨hxs, hm⟩

/-- C17 (observation, lock-out): `UpdateAdmins []` is a second way to freeze.  Once the admin list is empty no
history changes the admin configuration or any permission, and allowances change only by their holders' own
spending (which only lowers them, C08). -/
theorem Sk.no_admins_forever {s : Cw1Subkeys.State} (hn : s.cfg.admins = [])
    (ops : List (Block × Addr × Cw1Subkeys.Msg)) :
    (Sk.run s ops).cfg = s.cfg ∧ (Sk.run s ops).permissions = s.permissions := by
  induction ops generalizing s with
  | nil => exact ⟨rfl, rfl⟩
  | cons op rest ih =>
    rw [Sk.run_cons]
    obtain ⟨h1, h2, _⟩ := Sk.step_no_admins hn op.1 op.2.1 op.2.2
    obtain ⟨i1, i2⟩ := ih (s := Cw1Subkeys.step s op.1 op.2.1 op.2.2) (by rw [h1]; exact hn)
    exact ⟨i1.trans h1, i2.trans h2⟩

/-- One transaction of a mixed history (execute message or migration) leaves a frozen admin configuration alone. -/
theorem Sk.opStep_frozen {s : Cw1Subkeys.State} (hf : s.cfg.mutable = false) (op : Cw1SubkeysMigrate.Op) :
    (Cw1SubkeysMigrate.opStep s op).cfg = s.cfg := by
  cases op with
  | exec blk snd m => exact Sk.step_frozen hf blk snd m
  | migrate =>
    simp only [Cw1SubkeysMigrate.opStep]
    split
    · rename_i s' hm; exact (Cw1SubkeysMigrate.migrate_frame hm).1
    · rfl

/-- C17 (subkeys), freezing is permanent over **mixed** histories too: no interleaving of execute messages by anybody
and contract migrations changes the admin list or the flag of a frozen contract. -/
theorem Sk.frozen_forever_with_migrations {s : Cw1Subkeys.State} (hf : s.cfg.mutable = false)
    (ops : List Cw1SubkeysMigrate.Op) : (Cw1SubkeysMigrate.run s ops).cfg = s.cfg := by
  induction ops generalizing s with
  | nil => rfl
  | cons op rest ih =>
    simp only [Cw1SubkeysMigrate.run, List.foldl_cons]
    have h1 := Sk.opStep_frozen hf op
    have := ih (s := Cw1SubkeysMigrate.opStep s op) (by rw [h1]; exact hf)
    simp only [Cw1SubkeysMigrate.run] at this
    rw [this, h1]

/-- A mixed history without migrations is an ordinary history. -/
theorem Sk.migrate_run_exec (s : Cw1Subkeys.State) (ops : List (Block × Addr × Cw1Subkeys.Msg)) :
    Cw1SubkeysMigrate.run s (ops.map fun op => .exec op.1 op.2.1 op.2.2) = Sk.run s ops := by
  induction ops generalizing s with
  | nil => rfl
  | cons op rest ih =>
    simp only [Cw1SubkeysMigrate.run, Sk.run, List.map_cons, List.foldl_cons, Cw1SubkeysMigrate.opStep] at ih ⊢
    exact ih _

/-! ## non-vacuity -/

def wl0 : Cw1Whitelist.State := ⟨["a", "b"], true⟩
def blk : Block := ⟨1, 1⟩

example : Cw1Whitelist.step wl0 blk "a" (.updateAdmins [⟨true, "c"⟩]) = ⟨["c"], true⟩ := by decide
/-- the removed admin can no longer change anything -/
example : Wl.run wl0 [(blk, "a", .updateAdmins [⟨true, "c"⟩]), (blk, "a", .updateAdmins [⟨true, "a"⟩]), (blk, "a", .freeze)]
    = ⟨["c"], true⟩ := by decide
example : Wl.run wl0 [(blk, "b", .freeze), (blk, "a", .updateAdmins [⟨true, "c"⟩]), (blk, "b", .updateAdmins [])]
    = ⟨["a", "b"], false⟩ := by decide
example : Cw1Whitelist.step wl0 blk "x" .freeze = wl0 := by decide

open CwPlus.Props.C07 (exState blk50)
example : (Sk.run exState [(blk50, "admin", .freeze), (blk50, "admin", .updateAdmins [⟨true, "sub"⟩]),
    (blk50, "sub", .execute [.bankSend "x" [("ua", 1)]])]).cfg = ⟨["admin"], false⟩ := by decide
example : (Cw1Subkeys.step exState blk50 "sub" (.setPermissions ⟨true, "sub2"⟩ ⟨true, true, true, true⟩)) = exState := by decide
example : (Cw1Subkeys.step exState blk50 "admin" (.setPermissions ⟨true, "sub2"⟩ ⟨true, true, true, true⟩)).permissions.get? "sub2"
    = some ⟨true, true, true, true⟩ := by decide

/-- the guarded calls do succeed: `updateAdmins_ok_iff`, `freeze_ok_iff`, `setPermissions_ok_iff` right to left -/
example : (Cw1Whitelist.execute wl0 blk "a" (.updateAdmins [⟨true, "c"⟩, ⟨true, "c"⟩])).isOk = true :=
  (Wl.updateAdmins_ok_iff wl0 blk "a" _).mpr (by decide)
example : Cw1Whitelist.step wl0 blk "a" (.updateAdmins [⟨true, "c"⟩, ⟨true, "b"⟩, ⟨true, "c"⟩]) = ⟨["c", "b", "c"], true⟩ := by decide
example : (Cw1Whitelist.execute wl0 blk "a" (.updateAdmins [⟨true, "c"⟩, ⟨false, "C"⟩])).isOk = false := by decide
example : (Cw1Subkeys.execute exState blk50 "admin" .freeze).isOk = true :=
  (Sk.freeze_ok_iff exState blk50 "admin").mpr (by decide)
example : (Cw1Subkeys.execute exState blk50 "admin" (.setPermissions ⟨true, "sub"⟩ ⟨false, false, false, false⟩)).isOk = true :=
  (Sk.setPermissions_ok_iff exState blk50 "admin" _ _).mpr (by decide)
example : (Cw1Subkeys.execute exState blk50 "admin" (.setPermissions ⟨true, "admin"⟩ ⟨false, false, false, false⟩)).isOk = false := by decide
/-- `run_admins_changed`: a history that changes the list -/
example : (Sk.run exState [(blk50, "sub", .freeze), (blk50, "admin", .updateAdmins [⟨true, "sub"⟩])]).cfg.admins ≠ exState.cfg.admins := by decide
/-- lock-out: after `UpdateAdmins []` the former admin is powerless although the contract is still "mutable" -/
example : (Sk.run exState [(blk50, "admin", .updateAdmins []), (blk50, "admin", .updateAdmins [⟨true, "admin"⟩]),
    (blk50, "admin", .setPermissions ⟨true, "x"⟩ ⟨true, true, true, true⟩)]) = { exState with cfg := ⟨[], true⟩ } := by decide
example : Wl.run ⟨["a"], false⟩ [(blk, "a", .updateAdmins [⟨true, "c"⟩]), (blk, "a", .freeze)] = ⟨["a"], false⟩ :=
  Wl.immutable_instantiation (m0 := ⟨[⟨true, "a"⟩], false⟩) rfl rfl _

/-- frozen, then a migration from an older version and an update attempt: the configuration stays -/
example : (Cw1SubkeysMigrate.run { exState with cfg := ⟨["admin"], false⟩, cw2 := some ⟨"x", some ⟨1, 0, 0, none⟩⟩ }
    [.migrate, .exec blk50 "admin" (.updateAdmins [⟨true, "sub"⟩])]).cfg = ⟨["admin"], false⟩ :=
  Sk.frozen_forever_with_migrations rfl _

/-! ## No contract call is ever relayed for a non-admin (monitor `C17/self-call-relayed-for-non-admin`)

A relayed `WasmMsg::Execute` addressed to the proxy itself arrives with the proxy as sender; when the proxy is one of
its own admins it passes every admin check.  Only admins can have the proxy relay a contract call at all. -/

/-- cw1-subkeys: a successful `Execute` of a non-admin relays no wasm message (in particular no self-call). -/
theorem Sk.nonadmin_relays_no_wasm {s s' : Cw1Subkeys.State} {blk : Block} {snd : Addr} {msgs out : List CosmosMsg}
    (hna : s.cfg.isAdmin snd = false) (h : Cw1Subkeys.execute s blk snd (.execute msgs) = .ok (s', out)) :
    ∀ p, CosmosMsg.wasm p ∉ out := by
  intro p hp
  rw [C07.Sk.relay_exact h] at hp
  obtain ⟨e, he⟩ := C07.Sk.other_kinds_rejected (m := .wasm p) hna hp rfl
  rw [h] at he; cases he

/-- cw1-whitelist: a non-admin relays nothing at all. -/
theorem Wl.nonadmin_relays_nothing {s : Cw1Whitelist.State} {blk : Block} {snd : Addr} {msgs : List CosmosMsg}
    (hna : snd ∉ s.admins) : (Cw1Whitelist.execute s blk snd (.execute msgs)).isOk = false := by
  have h := C07.Wl.execute_ok_iff s blk snd msgs
  cases hr : (Cw1Whitelist.execute s blk snd (.execute msgs)).isOk with
  | false => rfl
  | true => exact absurd (h.mp hr) hna


end CwPlus.Props.C17
