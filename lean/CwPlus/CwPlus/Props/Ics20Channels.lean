import CwPlus.Lemmas.Ics20Nodup
import CwPlus.Lemmas.Ics20Migrate
import CwPlus.Lemmas.Paginate
/-!
# cw20-ics20 channel handshake and channel registry (extra obligations, not one of C01–C20)

`ibc_channel_open`, `ibc_channel_connect`, `ibc_channel_close`, the stored `ChannelInfo` values and
the queries `ListChannels`, `Channel.info`, `Port` are part of the model `CwPlus.Ics20`.  Proved here:

* `channel_open_iff`, `channel_connect_iff`: both handshake steps accept exactly the channels with
  version `ics20-1`, counterparty version absent or `ics20-1`, unordered — the same parameters
  (`open_accepts_iff_connect_accepts`); `ibc_channel_open` writes nothing (`open_changes_nothing`);
* `close_never_succeeds`, `close_changes_nothing`: `ibc_channel_close` is `unimplemented!()`, so a close
  attempt aborts and no channel state is ever dropped (`registry_monotone`, `books_survive_close`);
* `registered_only_by_connect`: a channel id enters `CHANNEL_INFO` only through a successful
  `ibc_channel_connect` for that id with the ICS-20 version and unordered ordering; every other
  transaction kind (incl. `migrate`) leaves the registry exactly as it was (`exec_registry_cases`);
* `reach_registry`: over every accepted instantiation and every history, the key list `channels` and
  the value map `chanInfo` describe the same `CHANNEL_INFO` map, every stored info carries its own key,
  and every registered channel was connected in the history with valid parameters
  (`registered_was_connected`);
* `list_channels_complete`: `ListChannels` returns exactly the registered infos, ascending by id, each
  once; `channel_info_iff`: `Channel{id}.info` answers exactly for registered ids.

Histories: `run w ops := ops.foldl World.step w` (failed transactions rolled back), ops include the
handshake ops `connect`, `chanOpen`, `chanClose`.
-/
namespace CwPlus.Props.Ics20Channels
open CwPlus CwPlus.Ics20

def run (w : World) (ops : List (Block × Op)) : World := ops.foldl (fun w o => w.step o.1 o.2) w

/-- The ICS-20 handshake parameters: version `ics20-1` on our side, on the other side too when it is
known at this step, unordered channel. -/
def Ics20Params (version : String) (counterparty : Option String) (ordered : Bool) : Prop :=
  version = ICS20_VERSION ∧ (∀ c, counterparty = some c → c = ICS20_VERSION) ∧ ordered = false

theorem enforce_iff (v : String) (cv : Option String) (ord : Bool) :
    enforceOrderAndVersion v cv ord = .ok () ↔ Ics20Params v cv ord := by
  unfold enforceOrderAndVersion Ics20Params
  cases cv <;> simp [check_bind_ok]

/-- **`ibc_channel_open` accepts exactly the ICS-20 parameters** (`OpenInit`: `cv = none`, `OpenTry`:
`cv = some _`). -/
theorem channel_open_iff (v : String) (cv : Option String) (ord : Bool) :
    ibcChannelOpen v cv ord = .ok () ↔ Ics20Params v cv ord := enforce_iff v cv ord

/-- **`ibc_channel_connect` accepts exactly the ICS-20 parameters** (`OpenAck`: `cv = some _`,
`OpenConfirm`: `cv = none`), whatever the state, the id and the other side's endpoint. -/
theorem channel_connect_iff (s : State) (id v : String) (cv : Option String) (ord : Bool) (peer : Peer) :
    (∃ s', ibcChannelConnect s id v cv ord peer = .ok s') ↔ Ics20Params v cv ord := by
  rw [← enforce_iff]
  unfold ibcChannelConnect
  cases h : enforceOrderAndVersion v cv ord <;> simp [bind, Except.bind, pure, Except.pure]

/-- Both handshake steps accept the same parameters. -/
theorem open_accepts_iff_connect_accepts (s : State) (id v : String) (cv : Option String) (ord : Bool) (peer : Peer) :
    ibcChannelOpen v cv ord = .ok () ↔ ∃ s', ibcChannelConnect s id v cv ord peer = .ok s' := by
  rw [channel_open_iff, channel_connect_iff]

/-- What a successful connect stores: the id is registered (once), its info is the one of the message
(a known id gets its info overwritten), nothing else changes. -/
theorem connect_effect {s s' : State} {id v : String} {cv : Option String} {ord : Bool} {peer : Peer}
    (h : ibcChannelConnect s id v cv ord peer = .ok s') :
    Ics20Params v cv ord ∧ id ∈ s'.channels ∧ (∀ c, c ∈ s'.channels ↔ c ∈ s.channels ∨ c = id) ∧
    s'.chanInfo = s.chanInfo.set id ⟨id, peer.port, peer.chan, peer.connection⟩ ∧
    s'.chan = s.chan ∧ s'.allow = s.allow ∧ s'.admin = s.admin ∧ s'.config = s.config := by
  have hp := (channel_connect_iff s id v cv ord peer).mp ⟨_, h⟩
  simp only [ibcChannelConnect, Res.bind_ok] at h
  obtain ⟨_, _, h⟩ := h
  simp [pure, Except.pure] at h
  subst h
  refine ⟨hp, ?_, ?_, rfl, rfl, rfl, rfl, rfl⟩
  · dsimp only; split
    · rename_i hc; simpa using hc
    · simp
  · intro c; dsimp only; split
    · rename_i hc
      have : id ∈ s.channels := by simpa using hc
      constructor
      · exact Or.inl
      · rintro (h | rfl) <;> assumption
    · simp

/-- **`ibc_channel_close` never succeeds** (`CloseInit` and `CloseConfirm` alike: `unimplemented!()`). -/
theorem close_never_succeeds (s s' : State) (id : String) : ibcChannelClose s id ≠ .ok s' := by
  simp [ibcChannelClose]

/-- … so a close attempt is a failed transaction: the world is exactly as before. -/
theorem close_changes_nothing (w : World) (blk : Block) (id : String) : w.step blk (.chanClose id) = w := by
  unfold World.step
  split
  · rename_i w' o h; exact (exec_chanClose h).elim
  · rfl

/-- `ibc_channel_open` writes nothing, accepted or not. -/
theorem open_changes_nothing (w : World) (blk : Block) (v : String) (cv : Option String) (ord : Bool) :
    w.step blk (.chanOpen v cv ord) = w := by
  unfold World.step
  split
  · rename_i w' o h; exact (exec_chanOpen h).1
  · rfl

/-! ## The registry changes only through `connect` -/

theorem updateBalances_registry {s s' : State} {hold : Denom → Option Nat} (h : updateBalances s hold = .ok s') :
    s'.channels = s.channels ∧ s'.chanInfo = s.chanInfo := by
  unfold updateBalances at h
  split at h
  · simp at h; subst h; exact ⟨rfl, rfl⟩
  · simp at h; obtain ⟨m, _, rfl⟩ := h; exact ⟨rfl, rfl⟩
  · simp at h

/-- `migrate` does not touch `CHANNEL_INFO`. -/
theorem migrate_registry {s s' : State} {gas : Option Nat} {hold : Denom → Option Nat} (h : migrate s gas hold = .ok s') :
    s'.channels = s.channels ∧ s'.chanInfo = s.chanInfo := by
  simp only [migrate, Res.bind_ok] at h
  obtain ⟨_, _, _, _, _, _, s1, h1, s2, h2, s3, h3, hp⟩ := h
  have e1 : s1.channels = s.channels ∧ s1.chanInfo = s.chanInfo := by
    split at h1
    · split at h1
      · simp at h1
      · simp [pure, Except.pure] at h1; subst h1; exact ⟨rfl, rfl⟩
    · simp [pure, Except.pure] at h1; subst h1; exact ⟨rfl, rfl⟩
  have e2 : s2.channels = s1.channels ∧ s2.chanInfo = s1.chanInfo := by
    split at h2
    · exact updateBalances_registry h2
    · simp [pure, Except.pure] at h2; subst h2; exact ⟨rfl, rfl⟩
  have e3 : s3.channels = s2.channels ∧ s3.chanInfo = s2.chanInfo := by
    split at h3
    · simp at h3; obtain ⟨cfg, _, rfl⟩ := h3; exact ⟨rfl, rfl⟩
    · simp [pure, Except.pure] at h3; subst h3; exact ⟨rfl, rfl⟩
  simp only [pure, Except.pure, Except.ok.injEq] at hp
  subst hp
  split <;> simp [e1, e2, e3]

/-- **Every successful transaction, by kind**: either `CHANNEL_INFO` is exactly as before, or the
transaction is an `ibc_channel_connect` and the state is the one `ibcChannelConnect` returns. -/
theorem exec_registry_cases {w w' : World} {blk : Block} {op : Op} {o : Outcome} (h : w.exec blk op = .ok (w', o)) :
    (w'.st.channels = w.st.channels ∧ w'.st.chanInfo = w.st.chanInfo) ∨
    ∃ id v cv ord peer, op = .connect id v cv ord peer ∧ ibcChannelConnect w.st id v cv ord peer = .ok w'.st := by
  cases op with
  | connect id v cv ord peer =>
    right
    simp only [World.exec, Res.bind_ok] at h
    obtain ⟨s, hs, h⟩ := h
    simp [pure, Except.pure] at h
    obtain ⟨rfl, _⟩ := h
    exact ⟨id, v, cv, ord, peer, rfl, hs⟩
  | chanOpen v cv ord => obtain ⟨rfl, _⟩ := exec_chanOpen h; exact Or.inl ⟨rfl, rfl⟩
  | chanClose id => exact (exec_chanClose h).elim
  | transferNative snd funds msg =>
    obtain ⟨d, amt, w1, s, out, _, _, hb, ht, rfl, _⟩ := exec_transferNative_spec h
    obtain ⟨ch, _, rfl, _⟩ := execTransfer_spec ht
    have e := (bankSend_frame hb).1
    exact Or.inl ⟨by simp, by simp⟩
  | sendCw20 snd token amt msg =>
    obtain ⟨w1, m, s, out, _, _, hb, _, ht, rfl, _⟩ := exec_sendCw20_spec h
    obtain ⟨ch, _, rfl, _⟩ := execTransfer_spec ht
    have e := (tokSend_frame hb).1
    exact Or.inl ⟨by simp, by simp⟩
  | hook snd funds sender amt msg =>
    obtain ⟨m, s, out, _, _, ht, rfl, _⟩ := exec_hook_spec h
    obtain ⟨ch, _, rfl, _⟩ := execTransfer_spec ht
    exact Or.inl ⟨rfl, rfl⟩
  | allow snd c g =>
    simp only [World.exec] at h
    simp at h
    obtain ⟨s, hs, rfl, rfl⟩ := h
    simp [execAllow] at hs
    obtain ⟨_, _, _, rfl⟩ := hs
    exact Or.inl ⟨rfl, rfl⟩
  | updateAdmin snd a =>
    simp only [World.exec] at h
    simp at h
    obtain ⟨s, hs, rfl, rfl⟩ := h
    simp [execUpdateAdmin] at hs
    obtain ⟨_, _, rfl⟩ := hs
    exact Or.inl ⟨rfl, rfl⟩
  | migrate g =>
    exact Or.inl (migrate_registry (exec_migrate_frame h).1)
  | recv p rv tv f =>
    rcases exec_recv_cases h with ⟨_, rfl, _⟩ | ⟨s1, sub, hd, _, hc⟩
    · exact Or.inl ⟨rfl, rfl⟩
    · obtain ⟨amt, d, ch, _, _, _, rfl, _⟩ := doReceive_spec hd
      rcases hc with ⟨hp, _⟩ | ⟨_, _, ra, ch', _, _, rfl⟩
      · rw [(payout_frame hp).1]; exact Or.inl ⟨rfl, rfl⟩
      · exact Or.inl ⟨rfl, rfl⟩
  | ack chan data ackOk sv tv f =>
    rcases exec_ack_cases h with ⟨_, rfl, _⟩ | ⟨_, s1, sub, hf, _, hc⟩
    · exact Or.inl ⟨rfl, rfl⟩
    · obtain ⟨p, ch, _, _, rfl, _⟩ := onPacketFailure_spec hf
      rcases hc with ⟨hp, _⟩ | ⟨_, rfl, _⟩
      · rw [(payout_frame hp).1]; exact Or.inl ⟨rfl, rfl⟩
      · exact Or.inl ⟨rfl, rfl⟩
  | timeout chan data sv tv f =>
    obtain ⟨s1, sub, hf, _, hc⟩ := exec_timeout_cases h
    obtain ⟨p, ch, _, _, rfl, _⟩ := onPacketFailure_spec hf
    rcases hc with ⟨hp, _⟩ | ⟨_, rfl, _⟩
    · rw [(payout_frame hp).1]; exact Or.inl ⟨rfl, rfl⟩
    · exact Or.inl ⟨rfl, rfl⟩

/-- **A channel is registered only by a successful `ibc_channel_connect` with the ICS-20 version and
unordered ordering**: if a successful transaction makes `id` a registered channel, it was a connect
for exactly that id with parameters `Ics20Params`. -/
theorem registered_only_by_connect {w w' : World} {blk : Block} {op : Op} {o : Outcome} {id : String}
    (h : w.exec blk op = .ok (w', o)) (hnew : id ∈ w'.st.channels) (hold : id ∉ w.st.channels) :
    ∃ v cv ord peer, op = .connect id v cv ord peer ∧ Ics20Params v cv ord := by
  rcases exec_registry_cases h with ⟨e, _⟩ | ⟨id', v, cv, ord, peer, rfl, hc⟩
  · rw [e] at hnew; exact absurd hnew hold
  · obtain ⟨hp, _, hmem, _⟩ := connect_effect hc
    rcases (hmem id).mp hnew with h1 | rfl
    · exact absurd h1 hold
    · exact ⟨v, cv, ord, peer, rfl, hp⟩

/-- The stored info of a channel changes only by a successful connect for that id. -/
theorem info_changed_only_by_connect {w w' : World} {blk : Block} {op : Op} {o : Outcome} {id : String}
    (h : w.exec blk op = .ok (w', o)) (hne : w'.st.chanInfo.get? id ≠ w.st.chanInfo.get? id) :
    ∃ v cv ord peer, op = .connect id v cv ord peer ∧ Ics20Params v cv ord ∧
      w'.st.chanInfo.get? id = some ⟨id, peer.port, peer.chan, peer.connection⟩ := by
  rcases exec_registry_cases h with ⟨_, e⟩ | ⟨id', v, cv, ord, peer, rfl, hc⟩
  · rw [e] at hne; exact absurd rfl hne
  · obtain ⟨hp, _, _, hi, _⟩ := connect_effect hc
    rw [hi] at hne ⊢
    by_cases hid : id' = id
    · subst hid; exact ⟨v, cv, ord, peer, rfl, hp, by simp⟩
    · rw [AMap.get?_set_ne _ _ _ _ hid] at hne; exact absurd rfl hne

/-- **Channel state is never dropped**: no transaction of any kind removes a registered channel. -/
theorem registry_monotone (w : World) (blk : Block) (op : Op) {id : String} (hid : id ∈ w.st.channels) :
    id ∈ (w.step blk op).st.channels := by
  unfold World.step
  split
  · rename_i w' o h
    rcases exec_registry_cases h with ⟨e, _⟩ | ⟨id', v, cv, ord, peer, _, hc⟩
    · rw [e]; exact hid
    · exact ((connect_effect hc).2.2.1 id).mpr (Or.inl hid)
  · exact hid

theorem run_registry_monotone (w : World) (ops : List (Block × Op)) {id : String} (hid : id ∈ w.st.channels) :
    id ∈ (run w ops).st.channels := by
  induction ops generalizing w with
  | nil => exact hid
  | cons op rest ih => exact ih _ (registry_monotone w op.1 op.2 hid)

/-- The per-channel books (`CHANNEL_STATE`) survive any number of close attempts untouched. -/
theorem books_survive_close (w : World) (ids : List (Block × String)) :
    run w (ids.map fun p => (p.1, Op.chanClose p.2)) = w := by
  induction ids with
  | nil => rfl
  | cons p rest ih => simp only [List.map_cons, run, List.foldl_cons, close_changes_nothing]; exact ih

/-! ## The registry invariant over all histories -/

/-- `channels` (keys) and `chanInfo` (values) describe one map: same keys, every info carries its key. -/
def RegistryInv (s : State) : Prop :=
  (∀ id, id ∈ s.channels ↔ (s.chanInfo.get? id).isSome) ∧
  (∀ id i, s.chanInfo.get? id = some i → i.id = id) ∧ AMap.NodupKeys s.chanInfo

theorem instantiate_registry {m : InstMsg} {s : State} (h : instantiate m = .ok s) : RegistryInv s := by
  simp [instantiate] at h
  obtain ⟨_, allow, _, rfl⟩ := h
  refine ⟨by intro id; simp [AMap.get?], by intro id i hi; simp [AMap.get?] at hi, by simp [AMap.NodupKeys, AMap.keys]⟩

theorem connect_registry {s s' : State} {id v : String} {cv : Option String} {ord : Bool} {peer : Peer}
    (hi : RegistryInv s) (h : ibcChannelConnect s id v cv ord peer = .ok s') : RegistryInv s' := by
  obtain ⟨_, _, hmem, hinfo, _⟩ := connect_effect h
  obtain ⟨h1, h2, h3⟩ := hi
  refine ⟨?_, ?_, ?_⟩
  · intro c
    rw [hmem c, hinfo]
    by_cases hc : id = c
    · subst hc; simp
    · rw [AMap.get?_set_ne _ _ _ _ hc, h1 c]
      constructor
      · rintro (h | h)
        · exact h
        · exact absurd h.symm hc
      · exact Or.inl
  · intro c i hci
    rw [hinfo] at hci
    by_cases hc : id = c
    · subst hc; simp at hci; subst hci; rfl
    · rw [AMap.get?_set_ne _ _ _ _ hc] at hci; exact h2 c i hci
  · rw [hinfo]; exact AMap.nodup_set h3

theorem step_registry {w : World} (blk : Block) (op : Op) (hi : RegistryInv w.st) : RegistryInv (w.step blk op).st := by
  unfold World.step
  split
  · rename_i w' o h
    rcases exec_registry_cases h with ⟨e1, e2⟩ | ⟨id, v, cv, ord, peer, _, hc⟩
    · unfold RegistryInv; rw [e1, e2]; exact hi
    · exact connect_registry hi hc
  · exact hi

/-- **Over every history** from a state satisfying it (in particular from any accepted instantiation),
the registry invariant holds. -/
theorem reach_registry {w : World} (hi : RegistryInv w.st) (ops : List (Block × Op)) : RegistryInv (run w ops).st := by
  induction ops generalizing w with
  | nil => exact hi
  | cons op rest ih => exact ih (step_registry op.1 op.2 hi)

/-- Ghost: the channel ids for which the history contains a *successful* connect with ICS-20 parameters. -/
def connectedIn (w : World) : List (Block × Op) → List String
  | [] => []
  | (blk, op) :: rest =>
    (match op, w.exec blk op with
     | .connect id v cv ord _, .ok _ =>
       if v == ICS20_VERSION && (match cv with | some c => c == ICS20_VERSION | none => true) && !ord then [id] else []
     | _, _ => []) ++ connectedIn (w.step blk op) rest

/-- **Every registered channel was connected in the history**: starting without channels (every
instantiation does), after any history a channel id is registered only if some transaction of that
history was a successful `ibc_channel_connect` for it with version `ics20-1` and unordered ordering. -/
theorem registered_was_connected (w : World) (ops : List (Block × Op)) {id : String}
    (hid : id ∈ (run w ops).st.channels) : id ∈ w.st.channels ∨ id ∈ connectedIn w ops := by
  induction ops generalizing w with
  | nil => exact Or.inl hid
  | cons op rest ih =>
    obtain ⟨blk, op⟩ := op
    rcases ih (w.step blk op) hid with h | h
    · by_cases hold : id ∈ w.st.channels
      · exact Or.inl hold
      · right
        have hstep : ∃ w' o, w.exec blk op = .ok (w', o) ∧ w.step blk op = w' := by
          unfold World.step at h ⊢
          split
          · rename_i w' o he; exact ⟨w', o, he, rfl⟩
          · rename_i e he; rw [he] at h; exact absurd h hold
        obtain ⟨w', o, he, hs⟩ := hstep
        rw [hs] at h
        obtain ⟨v, cv, ord, peer, rfl, hv, hcv, hord⟩ := registered_only_by_connect he h hold
        subst hv; subst hord
        simp only [connectedIn, he, List.mem_append]
        left
        cases cv with
        | none => simp
        | some c => simp [hcv c rfl]
    · right; simp only [connectedIn, List.mem_append]; exact Or.inr h

/-- For a fresh contract: registered ⇒ connected in the history. -/
theorem fresh_registered_was_connected {m : InstMsg} {s : State} (h : instantiate m = .ok s) (w : World)
    (hw : w.st = s) (ops : List (Block × Op)) {id : String} (hid : id ∈ (run w ops).st.channels) :
    id ∈ connectedIn w ops := by
  rcases registered_was_connected w ops hid with h1 | h1
  · simp [instantiate] at h
    obtain ⟨_, allow, _, rfl⟩ := h
    rw [hw] at h1; simp at h1
  · exact h1

/-! ## Queries -/

/-- **`ListChannels`** returns exactly the stored infos: `i` is listed iff it is the info stored under
its own id; the ids come in strictly ascending order (so none twice). -/
theorem list_channels_complete {s : State} (hi : RegistryInv s) :
    (∀ i, i ∈ queryListChannels s ↔ s.chanInfo.get? i.id = some i) ∧
    Paginate.Sorted Paginate.strLt (Paginate.sortedEntries Paginate.strLt s.chanInfo) ∧
    (queryListChannels s).length = s.chanInfo.length := by
  obtain ⟨_, h2, h3⟩ := hi
  refine ⟨?_, Paginate.sortedEntries_sorted h3 Paginate.strictTotal_strLt, ?_⟩
  · intro i
    unfold queryListChannels
    simp only [List.mem_map]
    constructor
    · rintro ⟨⟨k, v⟩, hm, rfl⟩
      have := (Paginate.mem_sortedEntries_iff_get? Paginate.strLt h3 k v).mp hm
      rw [h2 k v this]; exact this
    · intro hg
      exact ⟨(i.id, i), (Paginate.mem_sortedEntries_iff_get? Paginate.strLt h3 i.id i).mpr hg, rfl⟩
  · unfold queryListChannels
    rw [List.length_map, (Paginate.sortedEntries_perm Paginate.strLt s.chanInfo).length_eq]

/-- **`Channel{id}.info`** answers exactly for registered channels, with the stored info. -/
theorem channel_info_iff {s : State} (hi : RegistryInv s) (id : String) :
    (∃ i, queryChannelInfo s id = .ok i) ↔ id ∈ s.channels := by
  rw [hi.1 id]
  unfold queryChannelInfo
  cases s.chanInfo.get? id <;> simp

/-- `Channel{id}` as a whole (info and balances) fails for the same ids in the model's two halves. -/
theorem channel_query_consistent {s : State} (hi : RegistryInv s) (id : String) :
    (∃ i, queryChannelInfo s id = .ok i) ↔ (∃ es, queryChannel s id = .ok es) := by
  rw [channel_info_iff hi]
  unfold queryChannel
  by_cases h : id ∈ s.channels
  · simp [h, check, bind, Except.bind, pure, Except.pure]
  · simp [h, check, bind, Except.bind]

/-- `Port{}` is the chain's answer, nothing else. -/
theorem port_is_environment (p : Option String) : queryPort p = (match p with | some x => .ok x | none => .error "portquery") := by
  cases p <;> rfl

/-! ## Non-vacuity -/

def w0 : World :=
  { st := { config := ⟨3600, none⟩, admin := some "gov", allow := [], channels := [], chan := [],
            versionName := CONTRACT_NAME, version := CONTRACT_VERSION },
    self := "ics20", tokens := [], faulty := [], bank := [], tok := [] }

def b0 : Block := ⟨1, 1⟩

def exOps : List (Block × Op) :=
  [ (b0, .chanOpen "ics20-1" none false),
    (b0, .connect "channel-0" "ics20-1" (some "ics20-1") false { chan := "channel-10" }),
    (b0, .connect "channel-1" "ics20-2" none false {}),              -- wrong version: refused
    (b0, .connect "channel-2" "ics20-1" none true {}),               -- ordered: refused
    (b0, .chanClose "channel-0"),                                    -- aborts
    (b0, .connect "channel-0" "ics20-1" none false { port := "other", chan := "channel-7", connection := "connection-3" }) ]

example : instantiate ⟨3600, ⟨true, "gov"⟩, [], none⟩ = .ok w0.st := rfl

example : (run w0 exOps).st.channels = ["channel-0"] ∧
    (run w0 exOps).st.chanInfo = [("channel-0", ⟨"channel-0", "other", "channel-7", "connection-3"⟩)] ∧
    connectedIn w0 exOps = ["channel-0", "channel-0"] := by decide

example : queryListChannels (run w0 exOps).st = [⟨"channel-0", "other", "channel-7", "connection-3"⟩] := by
  have h : (run w0 exOps).st.chanInfo = [("channel-0", ⟨"channel-0", "other", "channel-7", "connection-3"⟩)] := by decide
  unfold queryListChannels
  rw [h, Paginate.sortedEntries_of_sorted Paginate.strictTotal_strLt (by unfold Paginate.Sorted; decide)]
  rfl

example : ibcChannelOpen "ics20-1" (some "ics20-2") false = .error "version.counterparty" ∧
    ibcChannelOpen "ics20-1" (some "ics20-1") false = .ok () ∧ ibcChannelOpen "ics20-1" none true = .error "ordered" :=
  ⟨rfl, rfl, rfl⟩

end CwPlus.Props.Ics20Channels
