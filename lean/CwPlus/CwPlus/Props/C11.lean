import CwPlus.Lemmas.Ics20
import CwPlus.Lemmas.Ics20Migrate
import CwPlus.Lemmas.Ics20Env
import CwPlus.Lemmas.Ics20TotalSent
import CwPlus.Lemmas.Ics20Ledger
/-!
# C11 — cw20-ics20: escrow always covers outstanding vouchers, channel by channel

Histories as in C12 (`runG` with ghosts, `run` without): transfers, incoming packets with arbitrary
fields, acknowledgements / timeouts, governance, migrations; every payout / refund sub-call may fail.

## Environment assumptions (`structure EnvAssumptions`, Lemmas/Ics20Env.lean)

* **E1 `hook_only_from_send`** — a real cw20 token contract calls `ExecuteMsg::Receive` only from its own
  `Send`, after crediting the contract; a direct `Receive` never has a real token as sender.
* **E2 `never_calls_itself`** — the ics20 contract is never the sender of a transfer (it emits no
  message to itself).
* **E3 `native_not_cw20`** — no native denomination has the form `cw20:…` (so the string storage key
  of a native coin never collides with that of a cw20 token; the model keys the books structurally).

The model's `World.exec` refuses transactions violating E1 / E2 (tags `impossible.token`,
`impossible.self`), so theorems over `run` / `runG` speak about such histories only as no-ops.  The
`…_explicit_env` theorems below restate the headline results over the *unguarded* semantics `runRaw` /
`runGRaw` (same handlers and runtime, no such checks) with `EnvAssumptions` as an explicit hypothesis;
`solvency_needs_hook_only_from_send` and `solvency_needs_never_calls_itself` show that solvency really
fails without E1 resp. E2.  E3 is used by C12 `storage_keys_faithful`; solvency is stated per
structural denomination (a bank denomination or a cw20 contract), which is what the holdings are.
Further standing assumptions of the model (IBC core delivers at most one acknowledgement / timeout per
sent packet — `admissible`; runtime dispatch semantics) are listed in `props/C11.json`.
`channel_ledger_all_histories`, `channel_ledger_fresh`, `nontoken_never_pays` and `conservation` do not use
`admissible` (they are over `runU` / `run`: every op of the history is executed).
-/
namespace CwPlus.Props.C11
open CwPlus CwPlus.Ics20

/-- **C11, channel_ledger**: per channel and denomination, what was escrowed by transfers is either
still outstanding, or left the contract (redemptions and refunds that went out), or sits in escrow as a
refund that was swallowed by a failing refund sub-call:
`outstanding + paidOut + swallowed = escrowed`. -/
theorem channel_ledger (w : World) (ops : List (Block × Op)) (c : String) (d : Denom) :
    outstanding (runG (w, Ghost.init w) ops).1.st c d + (runG (w, Ghost.init w) ops).2.paidOut (c, d)
      + (runG (w, Ghost.init w) ops).2.swallowed (c, d) = (runG (w, Ghost.init w) ops).2.sent (c, d) := by
  have h := runG_ledger ops (ledgerInv_init w)
  have h1 := h.1 (c, d); have h2 := h.2 (c, d)
  rw [outstanding_eq]; omega

/-- **C11, paidOut ≤ escrowed**: the tokens paid out on a channel for a denomination (redemptions plus
refunds) never exceed the tokens escrowed by transfers on that same channel and denomination. -/
theorem paidOut_le_escrowed (w : World) (ops : List (Block × Op)) (c : String) (d : Denom) :
    (runG (w, Ghost.init w) ops).2.paidOut (c, d) ≤ (runG (w, Ghost.init w) ops).2.sent (c, d) := by
  have := channel_ledger w ops c d
  omega

/-- **C11, channel_ledger / paidOut ≤ escrowed with packets in flight at the start**: the same for a start
state that already has packets in flight (`fl`: sent by an earlier history, e.g. under the old code before
a migration; `admissible` lets one acknowledgement or timeout through for each): what a migration books
as outstanding counts as escrowed, and refunds of those packets are covered too. -/
theorem channel_ledger_inflight (w : World) (fl : List (String × Packet)) (ops : List (Block × Op)) (c : String) (d : Denom) :
    outstanding (runG (w, Ghost.initWith w fl) ops).1.st c d + (runG (w, Ghost.initWith w fl) ops).2.paidOut (c, d)
      + (runG (w, Ghost.initWith w fl) ops).2.swallowed (c, d) = (runG (w, Ghost.initWith w fl) ops).2.sent (c, d) ∧
    (runG (w, Ghost.initWith w fl) ops).2.paidOut (c, d) ≤ (runG (w, Ghost.initWith w fl) ops).2.sent (c, d) := by
  have h := runG_ledger ops (ledgerInv_initWith w fl)
  have h1 := h.1 (c, d); have h2 := h.2 (c, d)
  rw [outstanding_eq]; omega

/-! ## Solvency -/

/-- Histories without ghosts. -/
def run (w : World) (ops : List (Block × Op)) : World := ops.foldl (fun w o => w.step o.1 o.2) w

/-- For every denomination that exists (native, or a real cw20 token) the contract's actual holdings
cover the sum over channels of the outstanding balance it reports. -/
def Solvent (w : World) : Prop := ∀ d h, w.holdings d = some h → sumDenom w.st.chan d ≤ h

/-- The stored contract version is newer than 0.13.0 (so `migrate` does not run `v2::update_balances`). -/
def PostV3 (w : World) : Prop := Version.lt MIGRATE_VERSION_3 w.st.version = true

theorem reduce_sum {m m' : ChanMap} {c : String} {d : Denom} {amt : Nat} (h : reduceBalance m c d amt = .ok m') (x : Denom) :
    sumDenom m' x + (if d = x then amt else 0) = sumDenom m x := by
  obtain ⟨cs, hg, hle, rfl, _, _⟩ := reduceBalance_spec h
  have := sumDenom_set m (c, d) ⟨cs.outstanding - amt, cs.totalSent⟩ x
  have e : outAt m (c, d) = cs.outstanding := by simp [outAt, hg]
  simp only [e] at this
  split at this <;> simp_all <;> omega

theorem increase_sum {m m' : ChanMap} {c : String} {d : Denom} {amt : Nat} (h : increaseBalance m c d amt = .ok m') (x : Denom) :
    sumDenom m' x = sumDenom m x + (if d = x then amt else 0) := by
  simp [increaseBalance] at h
  obtain ⟨_, _, rfl⟩ := h
  have := sumDenom_set m (c, d) ⟨((AMap.get? m (c, d)).getD ⟨0, 0⟩).outstanding + amt, ((AMap.get? m (c, d)).getD ⟨0, 0⟩).totalSent + amt⟩ x
  have e : outAt m (c, d) = ((AMap.get? m (c, d)).getD ⟨0, 0⟩).outstanding := by
    simp [outAt]; cases AMap.get? m (c, d) <;> simp
  simp only [e] at this
  split at this <;> simp_all <;> omega

/-- A payout lowers the holdings of its own denomination by at most its amount and leaves all other
holdings alone. -/
theorem payout_holdings {w w' : World} {sub : SubMsg} {tv f : Bool} (hp : w.payout sub tv f = some w')
    (x : Denom) (h : Nat) (hx : w.holdings x = some h) :
    ∃ h', w'.holdings x = some h' ∧ (if sub.denom = x then h ≤ h' + sub.amount else h' = h) := by
  obtain ⟨_, hself, htok, _⟩ := payout_frame hp
  unfold World.payout at hp
  split at hp
  · rename_i dn hden
    split at hp
    · simp at hp
    · obtain ⟨hle, hb⟩ := bankSend_spec hp
      have htk := (bankSend_frame hp).2.1
      cases x with
      | native y =>
        simp only [World.holdings] at hx ⊢
        simp at hx
        refine ⟨_, rfl, ?_⟩
        rw [hself, hb w.self y, hden]
        by_cases hy : dn = y
        · subst hy; simp; split <;> omega
        · have : ¬ Denom.native dn = Denom.native y := by intro e; cases e; exact hy rfl
          simp [hy, this]; exact hx
      | cw20 t =>
        simp only [World.holdings, htok, hself] at hx ⊢
        split at hx
        · rename_i hc
          simp at hx
          refine ⟨h, ?_, ?_⟩
          · simp only [hc, if_true, World.tokBal, htk]; simp only [World.tokBal] at hx; rw [hx]
          · rw [hden]; simp
        · simp at hx
  · rename_i t0 hden
    split at hp
    · simp at hp
    · obtain ⟨hle, hb⟩ := tokSend_spec hp
      have hbk := (tokSend_frame hp).2.1
      cases x with
      | native y =>
        simp only [World.holdings] at hx ⊢
        simp at hx
        refine ⟨h, by simp [World.bankBal, hbk, hself]; exact hx, ?_⟩
        rw [hden]; simp
      | cw20 t =>
        simp only [World.holdings, htok, hself] at hx ⊢
        split at hx
        · rename_i hc
          simp at hx
          simp only [hc, if_true]
          refine ⟨_, rfl, ?_⟩
          rw [hb t w.self, hden]
          by_cases ht : t0 = t
          · subst ht; simp; split <;> omega
          · have : ¬ Denom.cw20 t0 = Denom.cw20 t := by intro e; cases e; exact ht rfl
            simp [ht, this]; exact hx
        · simp at hx


theorem migrate_postV3 {s s' : State} {gas : Option Nat} {hold : Denom → Option Nat}
    (hv : Version.lt MIGRATE_VERSION_3 s.version = true) (h : migrate s gas hold = .ok s') :
    s'.chan = s.chan ∧ Version.lt MIGRATE_VERSION_3 s'.version = true := by
  simp [migrate] at h
  obtain ⟨_, _, _, s1, h1, s2, h2, s3, h3, rfl⟩ := h
  have e1 : s1.chan = s.chan ∧ s1.version = s.version := by
    split at h1
    · split at h1
      · simp at h1
      · simp at h1; subst h1; exact ⟨rfl, rfl⟩
    · simp at h1; subst h1; exact ⟨rfl, rfl⟩
  have e2 : s2 = s1 := by
    have : Version.le s.version MIGRATE_VERSION_3 = false := by simp [Version.le, hv]
    simp [this] at h2; exact h2.symm
  have e3 : s3.chan = s2.chan ∧ s3.version = s2.version := by
    split at h3
    · simp at h3; obtain ⟨cfg, _, rfl⟩ := h3; exact ⟨rfl, rfl⟩
    · simp at h3; subst h3; exact ⟨rfl, rfl⟩
  subst e2
  have hcv : Version.lt MIGRATE_VERSION_3 CONTRACT_VERSION = true := by decide
  split
  · exact ⟨by simp [e3.1, e1.1], hcv⟩
  · exact ⟨by rw [e3.1, e1.1], by rw [e3.2, e1.2]; exact hv⟩

theorem holdings_congr {w w' : World} (e2 : w'.bank = w.bank) (e3 : w'.tok = w.tok) (e4 : w'.self = w.self)
    (e5 : w'.tokens = w.tokens) (d : Denom) : w'.holdings d = w.holdings d := by
  cases d <;> simp [World.holdings, World.bankBal, World.tokBal, e2, e3, e4, e5]

theorem solvent_of_same {w w' : World} (e1 : w'.st.chan = w.st.chan) (e2 : w'.bank = w.bank) (e3 : w'.tok = w.tok)
    (e4 : w'.self = w.self) (e5 : w'.tokens = w.tokens) (hs : Solvent w) : Solvent w' := by
  intro d hh hd
  rw [e1]; apply hs d hh
  rw [← holdings_congr e2 e3 e4 e5 d]; exact hd

theorem holdings_st (w : World) (s : State) (x : Denom) : ({ w with st := s } : World).holdings x = w.holdings x :=
  holdings_congr rfl rfl rfl rfl x

/-- Native funds arriving with a transfer raise exactly the holdings of that denomination. -/
theorem bankSend_holdings {w w1 : World} {snd : Addr} {d : String} {amt : Nat} (hself : snd ≠ w.self)
    (hb : w.bankSend snd w.self d amt = some w1) (x : Denom) :
    w1.holdings x = (w.holdings x).map (· + if Denom.native d = x then amt else 0) := by
  obtain ⟨_, hbal⟩ := bankSend_spec hb
  obtain ⟨_, htk, hsf, htok, _⟩ := bankSend_frame hb
  cases x with
  | native y =>
    simp only [World.holdings, hsf, Option.map_some]
    rw [hbal w.self y]
    by_cases hy : d = y
    · subst hy; simp [hself]
    · have : ¬ Denom.native d = Denom.native y := by intro e; cases e; exact hy rfl
      simp [hy, this]
  | cw20 t =>
    simp only [World.holdings, hsf, htok, World.tokBal, htk]
    split <;> simp

/-- cw20 tokens arriving with a `Send` raise exactly the holdings of that token. -/
theorem tokSend_holdings {w w1 : World} {snd token : Addr} {amt : Nat} (hself : snd ≠ w.self)
    (hb : w.tokSend token snd w.self amt = some w1) (x : Denom) :
    w1.holdings x = (w.holdings x).map (· + if Denom.cw20 token = x then amt else 0) := by
  obtain ⟨_, hbal⟩ := tokSend_spec hb
  obtain ⟨_, hbk, hsf, htok, _⟩ := tokSend_frame hb
  cases x with
  | native y =>
    simp only [World.holdings, hsf, World.bankBal, hbk]; simp
  | cw20 t =>
    simp only [World.holdings, hsf, htok]
    split
    · simp only [Option.map_some]
      rw [hbal t w.self]
      by_cases ht : token = t
      · subst ht; simp [hself]
      · have : ¬ Denom.cw20 token = Denom.cw20 t := by intro e; cases e; exact ht rfl
        simp [ht, this]
    · simp

theorem holdings_isSome_congr {w w' : World} (e5 : w'.tokens = w.tokens) (x : Denom) :
    (w'.holdings x).isSome = (w.holdings x).isSome := by
  cases x with
  | native y => simp [World.holdings]
  | cw20 t => simp only [World.holdings, e5]; split <;> simp

/-- Reducing the books by `amt` and then (possibly) paying `amt` out keeps the contract solvent. -/
theorem reduce_payout_solvent {w w' : World} {s1 : State} {c : String} {d : Denom} {amt : Nat} {sub : SubMsg}
    {tv f : Bool} (hs : Solvent w) (hred : reduceBalance w.st.chan c d amt = .ok s1.chan)
    (hden : sub.denom = d) (hamt : sub.amount = amt)
    (hp : ({ w with st := s1 } : World).payout sub tv f = some w' ∨ w' = { w with st := s1 }) : Solvent w' := by
  intro x hh hx
  have hsum := reduce_sum hred x
  rcases hp with hp | rfl
  · obtain ⟨hst, _, htok, _⟩ := payout_frame hp
    rw [hst]
    cases h0 : w.holdings x with
    | none =>
      have := holdings_isSome_congr (w := ({ w with st := s1 } : World)) (w' := w') htok x
      rw [holdings_st w s1 x, h0, hx] at this; simp at this
    | some v =>
      obtain ⟨h', hh', hrel⟩ := payout_holdings hp x v (by rw [holdings_st w s1 x]; exact h0)
      rw [hx] at hh'; cases hh'
      have := hs x v h0
      rw [hden, hamt] at hrel
      simp only at hsum ⊢
      split at hrel <;> simp_all <;> omega
  · rw [holdings_st w s1 x] at hx
    have := hs x hh hx
    simp only at hsum ⊢
    split at hsum <;> omega

/-- Every transaction other than `migrate` keeps the contract solvent (and leaves the stored version alone). -/
theorem exec_solvent_nomig {w w' : World} {blk : Block} {op : Op} {o : Outcome}
    (hs : Solvent w) (hnm : ∀ g, op ≠ .migrate g) (h : w.exec blk op = .ok (w', o)) :
    Solvent w' ∧ w'.st.version = w.st.version := by
  cases op with
  | connect id v cv ord peer =>
    obtain ⟨e1, e2, e3, e4, e5, e6, _⟩ := exec_plain_frame h (Or.inl ⟨id, v, cv, ord, peer, rfl⟩)
    exact ⟨solvent_of_same e1 e2 e3 e4 e5 hs, e6⟩
  | chanOpen v cv ord => obtain ⟨rfl, _⟩ := exec_chanOpen h; exact ⟨hs, rfl⟩
  | chanClose id => exact (exec_chanClose h).elim
  | allow snd c gg =>
    obtain ⟨e1, e2, e3, e4, e5, e6, _⟩ := exec_plain_frame h (Or.inr (Or.inl ⟨snd, c, gg, rfl⟩))
    exact ⟨solvent_of_same e1 e2 e3 e4 e5 hs, e6⟩
  | updateAdmin snd a =>
    obtain ⟨e1, e2, e3, e4, e5, e6, _⟩ := exec_plain_frame h (Or.inr (Or.inr ⟨snd, a, rfl⟩))
    exact ⟨solvent_of_same e1 e2 e3 e4 e5 hs, e6⟩
  | migrate gg => exact absurd rfl (hnm gg)
  | transferNative snd funds msg =>
    obtain ⟨d, amt, w1, s, out, _, hself, hb, hs', rfl, rfl⟩ := exec_transferNative_spec h
    obtain ⟨ch, hinc, rfl, _⟩ := execTransfer_spec hs'
    refine ⟨?_, rfl⟩
    intro x hh hx
    rw [holdings_st, bankSend_holdings hself hb x] at hx
    have hsum := increase_sum hinc x
    simp only at hsum ⊢
    cases h0 : w.holdings x with
    | none => simp [h0] at hx
    | some v =>
      simp [h0] at hx
      have := hs x v h0
      rw [hsum]; omega
  | sendCw20 snd token amt msg =>
    obtain ⟨w1, m, s, out, hself, htoken, hb, _, hs', rfl, rfl⟩ := exec_sendCw20_spec h
    obtain ⟨ch, hinc, rfl, _⟩ := execTransfer_spec hs'
    refine ⟨?_, rfl⟩
    intro x hh hx
    rw [holdings_st, tokSend_holdings hself hb x] at hx
    have hsum := increase_sum hinc x
    simp only at hsum ⊢
    cases h0 : w.holdings x with
    | none => simp [h0] at hx
    | some v =>
      simp [h0] at hx
      have := hs x v h0
      rw [hsum]; omega
  | hook snd funds sender amt msg =>
    obtain ⟨m, s, out, hnt, _, hs', rfl, rfl⟩ := exec_hook_spec h
    obtain ⟨ch, hinc, rfl, _⟩ := execTransfer_spec hs'
    refine ⟨?_, rfl⟩
    intro x hh hx
    rw [holdings_st] at hx
    have hsum := increase_sum hinc x
    simp only at hsum ⊢
    have hne : ¬ Denom.cw20 snd = x := by
      intro e; subst e
      simp only [World.holdings, hnt] at hx
      simp at hx
    rw [hsum]; simp [hne]; exact hs x hh hx
  | recv p rv tv f =>
    rcases exec_recv_cases h with ⟨_, rfl, _, _⟩ | ⟨s1, sub, hd, _, hc⟩
    · exact ⟨hs, rfl⟩
    · obtain ⟨amt, d, ch, _, _, hred, rfl, _, hsa, hsd, _, _⟩ := doReceive_spec hd
      rcases hc with ⟨hp, _⟩ | ⟨_, _, ra, ch2, hra, hundo, rfl⟩
      · refine ⟨reduce_payout_solvent hs hred hsd hsa (Or.inl hp), ?_⟩
        rw [(payout_frame hp).1]
      · simp at hra; subst hra
        have := undoReduce_reduce_eq hred hundo
        subst this
        exact ⟨solvent_of_same rfl rfl rfl rfl rfl hs, rfl⟩
  | ack chan data ackOk sv tv f =>
    rcases exec_ack_cases h with ⟨_, rfl, _, _⟩ | ⟨_, s1, sub, hf, _, hc⟩
    · exact ⟨hs, rfl⟩
    · obtain ⟨p, ch, rfl, hred, rfl, _, hsa, hsd, _⟩ := onPacketFailure_spec hf
      rcases hc with ⟨hp, _⟩ | ⟨_, rfl, _⟩
      · refine ⟨reduce_payout_solvent hs hred hsd hsa (Or.inl hp), ?_⟩
        rw [(payout_frame hp).1]
      · exact ⟨reduce_payout_solvent (sub := sub) (tv := sv) (f := f) hs hred hsd hsa (Or.inr rfl), rfl⟩
  | timeout chan data sv tv f =>
    obtain ⟨s1, sub, hf, _, hc⟩ := exec_timeout_cases h
    obtain ⟨p, ch, rfl, hred, rfl, _, hsa, hsd, _⟩ := onPacketFailure_spec hf
    rcases hc with ⟨hp, _⟩ | ⟨_, rfl, _⟩
    · refine ⟨reduce_payout_solvent hs hred hsd hsa (Or.inl hp), ?_⟩
      rw [(payout_frame hp).1]
    · exact ⟨reduce_payout_solvent (sub := sub) (tv := sv) (f := f) hs hred hsd hsa (Or.inr rfl), rfl⟩


theorem exec_solvent {w w' : World} {blk : Block} {op : Op} {o : Outcome}
    (hs : Solvent w) (hv : PostV3 w) (h : w.exec blk op = .ok (w', o)) : Solvent w' ∧ PostV3 w' := by
  by_cases hm : ∃ g, op = .migrate g
  · obtain ⟨gg, rfl⟩ := hm
    obtain ⟨hm, e2, e3, e4, e5, _⟩ := exec_migrate_frame h
    obtain ⟨e1, e6⟩ := migrate_postV3 hv hm
    exact ⟨solvent_of_same e1 e2 e3 e4 e5 hs, e6⟩
  · obtain ⟨h1, h2⟩ := exec_solvent_nomig hs (fun g e => hm ⟨g, e⟩) h
    exact ⟨h1, by unfold PostV3; rw [h2]; exact hv⟩

theorem step_solvent {w : World} (blk : Block) (op : Op) (hs : Solvent w) (hv : PostV3 w) :
    Solvent (w.step blk op) ∧ PostV3 (w.step blk op) := by
  unfold World.step
  split
  · rename_i w' o h; exact exec_solvent hs hv h
  · exact ⟨hs, hv⟩

/-- **C11, solvency**: starting from a solvent state of a contract at a version newer than 0.13.0
(e.g. a fresh instantiation), on every history — any interleaving of transfers, incoming packets with
arbitrary fields, acknowledgements and timeouts, governance ops and migrations, with payout / refund
sub-calls failing arbitrarily — for every denomination the contract's actual holdings are at least the
sum over all channels of the outstanding balance it reports.  (The contract is funded only through
transfers: a real token calls the hook only from `Send`; the contract never calls itself — the
environment assumptions E1, E2 are built into `World.exec`; `solvency_explicit_env` has them as explicit
hypotheses.)  Superseded by `solvency_with_migration`, which drops the version hypothesis. -/
theorem solvency (w : World) (ops : List (Block × Op)) (hs : Solvent w) (hv : PostV3 w) :
    Solvent (run w ops) ∧ PostV3 (run w ops) := by
  induction ops generalizing w with
  | nil => exact ⟨hs, hv⟩
  | cons op rest ih =>
    obtain ⟨h1, h2⟩ := step_solvent op.1 op.2 hs hv
    exact ih (w.step op.1 op.2) h1 h2

/-- A freshly instantiated contract is solvent (nothing outstanding) and at the current version. -/
theorem instantiate_solvent {m : InstMsg} {s : State} (h : instantiate m = .ok s) (w : World) :
    Solvent { w with st := s } ∧ PostV3 { w with st := s } := by
  simp [instantiate] at h
  obtain ⟨_, allow, _, rfl⟩ := h
  have hcv : Version.lt MIGRATE_VERSION_3 CONTRACT_VERSION = true := by decide
  refine ⟨?_, hcv⟩
  intro d hh _
  simp [sumDenom]

/-- Per channel: what one channel reports never exceeds the holdings either. -/
theorem channel_covered {w : World} (hs : Solvent w) (c : String) (d : Denom) (h : Nat) (hd : w.holdings d = some h) :
    outstanding w.st c d ≤ h := by
  have h1 : outAt w.st.chan (c, d) ≤ sumDenom w.st.chan d := outAt_le_sumDenom w.st.chan (c, d)
  have h2 := hs d h hd
  rw [outstanding_eq]; omega

/-! ## Solvency across migrations from a stored version ≤ 0.13.0 (`v2::update_balances`) -/

/-- After any successful `migrate` the stored cw2 version is newer than 0.13.0: `migrate` bumps an older
stored version to the current one (`set_contract_version` when `storage_version < version`) and refuses
a newer one.  So `v2::update_balances` runs at most once in the life of a contract. -/
theorem migrate_result_postV3 {s s' : State} {gas : Option Nat} {hold : Denom → Option Nat}
    (h : migrate s gas hold = .ok s') : Version.lt MIGRATE_VERSION_3 s'.version = true := by
  simp [migrate] at h
  obtain ⟨_, _, _, s1, h1, s2, h2, s3, h3, rfl⟩ := h
  split
  · exact (by decide : Version.lt MIGRATE_VERSION_3 CONTRACT_VERSION = true)
  · rename_i hlt
    have e1 : s1.version = s.version := by
      split at h1
      · split at h1
        · simp at h1
        · simp at h1; subst h1; rfl
      · simp at h1; subst h1; rfl
    have e2 : s2.version = s1.version := by
      split at h2
      · rcases updateBalances_cases h2 with ⟨_, rfl⟩ | ⟨_, _, _, _, rfl⟩ <;> rfl
      · simp at h2; subst h2; rfl
    have e3 : s3.version = s2.version := by
      split at h3
      · simp at h3; obtain ⟨cfg, _, rfl⟩ := h3; rfl
      · simp at h3; subst h3; rfl
    rw [e3, e2, e1]
    have hm : 2 ≤ s.version.major := by
      unfold Version.lt CONTRACT_VERSION at hlt
      by_cases h2 : s.version.major = 2
      · omega
      · simp [h2] at hlt; omega
    unfold Version.lt MIGRATE_VERSION_3
    have : (0 : Nat) ≠ s.version.major := by omega
    simp [this]; omega

/-- **What a legacy start state is assumed to satisfy** (a contract deployed by a release ≤ 0.13.0, about
to be migrated).  Releases before 0.13.1 increased `outstanding` only when the success acknowledgement
of a transfer arrived, so such a contract has *booked no more than it holds*; `v2::update_balances` can
only attribute the surplus to a single channel. -/
structure LegacyStart (w : World) : Prop where
  /-- `CHANNEL_INFO` has at most one channel (with more, `v2::update_balances` refuses to migrate). -/
  one_channel : w.st.channels.length ≤ 1
  /-- Storage shape: distinct `CHANNEL_STATE` keys, each under a channel of `CHANNEL_INFO`. -/
  well_formed : WellFormed w.st
  /-- Under-booked: for every denomination that exists (native, or a real cw20 token) the contract's real
  holdings are at least the outstanding balance recorded under every channel. -/
  under_booked : ∀ c d h, w.holdings d = some h → outstanding w.st c d ≤ h

/-- A legacy start state is solvent (it has at most one channel, and that channel is under-booked). -/
theorem legacy_solvent {w : World} (hl : LegacyStart w) : Solvent w := by
  intro d h hd
  cases hc : w.st.channels with
  | nil => rw [sumDenom_no_channels hl.well_formed hc d]; omega
  | cons ch rest =>
    have hrest : rest = [] := by
      have := hl.one_channel; rw [hc] at this; simp at this; exact this
    subst hrest
    have hk : ∀ k ∈ AMap.keys w.st.chan, k.1 = ch := by
      intro k hk; have := hl.well_formed.2 k hk; rw [hc] at this; simpa using this
    rw [sumDenom_single hl.well_formed.1 hk d, ← outstanding_eq]
    exact hl.under_booked ch d h hd

/-- **C11, migrate_reconciles**: a successful `migrate` from a stored version ≤ 0.13.0 of a well-formed
one-channel contract: for every denomination with an entry on the channel the real holdings exist, were
at least the booked outstanding balance, and afterwards the sum over channels of the outstanding balance
*equals* the real holdings (which `migrate` does not move); denominations without an entry have sum 0. -/
theorem migrate_reconciles {w w' : World} {blk : Block} {g : Option Nat} {o : Outcome} {ch : String}
    (hwf : WellFormed w.st) (hv : Version.le w.st.version MIGRATE_VERSION_3 = true) (hch : w.st.channels = [ch])
    (h : w.exec blk (.migrate g) = .ok (w', o)) (d : Denom) :
    (∀ cs, w.st.chan.get? (ch, d) = some cs → ∃ bal, w.holdings d = some bal ∧ w'.holdings d = some bal ∧
        cs.outstanding ≤ bal ∧ sumDenom w'.st.chan d = bal ∧ outstanding w'.st ch d = bal) ∧
    (w.st.chan.get? (ch, d) = none → sumDenom w'.st.chan d = 0) := by
  obtain ⟨hm, e2, e3, e4, e5, _⟩ := exec_migrate_frame h
  have hh := holdings_congr e2 e3 e4 e5 d
  obtain ⟨_, hb⟩ := migrate_books hm
  rcases hb with ⟨hv', _⟩ | ⟨_, s1, s2, e1, ec, hu, e⟩
  · rw [hv] at hv'; cases hv'
  · have hwf1 : WellFormed s1 := wellFormed_of_keys hwf (by rw [e1]) (by intro c hc; rw [ec]; exact hc)
    obtain ⟨r1, r2⟩ := updateBalances_sum (ch := ch) (by rw [ec, hch]) hwf1 hu d
    rw [e1] at r1 r2
    rw [e]
    refine ⟨?_, r2⟩
    intro cs hg
    obtain ⟨bal, hb, hle, hsum, hout, _⟩ := r1 cs hg
    exact ⟨bal, hb, by rw [hh]; exact hb, hle, hsum, by rw [outstanding_eq, e]; exact hout⟩

/-- **C11, migrate_preserves_solvency**: a successful `migrate` of a solvent, well-formed contract yields a
solvent contract, whatever the stored version: newer than 0.13.0 the books are untouched; from ≤ 0.13.0
(v1 → v2 → current or v2 → current) `v2::update_balances` succeeds only with at most one channel and
sets `outstanding := real holdings` for every entry of it (`migrate_reconciles`), so holdings = Σ
outstanding for the denominations of the channel.  (That the holdings were ≥ the booked amounts — the
`under_booked` clause of `LegacyStart` — is implied by the success of the migration: `balance −
outstanding` is a checked subtraction.) -/
theorem migrate_preserves_solvency {w w' : World} {blk : Block} {g : Option Nat} {o : Outcome}
    (hwf : WellFormed w.st) (hs : Solvent w) (h : w.exec blk (.migrate g) = .ok (w', o)) : Solvent w' := by
  obtain ⟨hm, e2, e3, e4, e5, _⟩ := exec_migrate_frame h
  obtain ⟨hcs, hb⟩ := migrate_books hm
  rcases hb with ⟨_, e1⟩ | ⟨hv, s1, s2, e1, ec, hu, e⟩
  · exact solvent_of_same e1 e2 e3 e4 e5 hs
  · rcases updateBalances_cases hu with ⟨_, rfl⟩ | ⟨ch, m, hch, _, _⟩
    · exact solvent_of_same (by rw [e, e1]) e2 e3 e4 e5 hs
    · intro d hh hd
      rw [holdings_congr e2 e3 e4 e5 d] at hd
      obtain ⟨r1, r2⟩ := migrate_reconciles hwf hv (by rw [← ec]; exact hch) h d
      cases hg : w.st.chan.get? (ch, d) with
      | none => rw [r2 hg]; omega
      | some cs =>
        obtain ⟨bal, hb, _, _, hsum, _⟩ := r1 cs hg
        rw [hd] at hb; cases hb
        omega

/-- **C11, migrate_succeeds_from_legacy** (the hypotheses of `migrate_preserves_solvency` are met by every
legacy state — the migration is live): a legacy start state (`LegacyStart`) stored by this contract at a
version in `[0.11.1, 0.13.0]` with the storage layout of that version, whose booked denominations all
exist (else the balance query fails) and whose reconciled values fit `Uint128`, is migrated successfully,
and the result is solvent. -/
theorem migrate_succeeds_from_legacy {w : World} (hl : LegacyStart w) (blk : Block) (g : Option Nat)
    (hname : w.st.versionName = CONTRACT_NAME) (hmin : Version.lt w.st.version MIGRATE_MIN_VERSION = false)
    (hv3 : Version.le w.st.version MIGRATE_VERSION_3 = true)
    (hlayout : if Version.le w.st.version MIGRATE_VERSION_2 = true then w.st.v1gov.isSome = true else w.st.v1gov = none)
    (hexists : ∀ e ∈ w.st.chan, (w.holdings e.1.2).isSome = true)
    (hfit : ∀ e ∈ w.st.chan, ∀ bal, w.holdings e.1.2 = some bal →
      bal ≤ U128_MAX ∧ e.2.totalSent + (bal - e.2.outstanding) ≤ U128_MAX) :
    ∃ w' o, w.exec blk (.migrate g) = .ok (w', o) ∧ Solvent w' := by
  have hent : ∀ e ∈ w.st.chan, ∃ bal, w.holdings e.1.2 = some bal ∧ e.2.outstanding ≤ bal ∧ bal ≤ U128_MAX ∧
      e.2.totalSent + (bal - e.2.outstanding) ≤ U128_MAX := by
    intro e he
    obtain ⟨bal, hb⟩ := Option.isSome_iff_exists.mp (hexists e he)
    obtain ⟨h1, h2⟩ := hfit e he bal hb
    have hu := hl.under_booked e.1.1 e.1.2 bal hb
    have hg := get?_of_mem_nodup hl.well_formed.1 he
    simp only [outstanding, hg] at hu
    exact ⟨bal, hb, hu, h1, h2⟩
  obtain ⟨s', hm⟩ := migrate_ok_of_legacy (gas := g) hname hmin hv3 hlayout hl.one_channel hent
  have hx : w.exec blk (.migrate g) = .ok ({ w with st := s' }, {}) := by
    simp [World.exec, hm, bind, Except.bind, pure, Except.pure]
  exact ⟨_, _, hx, migrate_preserves_solvency hl.well_formed (legacy_solvent hl) hx⟩

/-- Every transaction keeps a well-formed contract solvent — including `migrate` from any stored version. -/
theorem exec_solvent_wf {w w' : World} {blk : Block} {op : Op} {o : Outcome}
    (hs : Solvent w) (hwf : WellFormed w.st) (h : w.exec blk op = .ok (w', o)) : Solvent w' ∧ WellFormed w'.st := by
  refine ⟨?_, exec_wellFormed hwf h⟩
  by_cases hm : ∃ g, op = .migrate g
  · obtain ⟨gg, rfl⟩ := hm
    exact migrate_preserves_solvency hwf hs h
  · exact (exec_solvent_nomig hs (fun g e => hm ⟨g, e⟩) h).1

/-- **C11, solvency_with_migration**: from *any* solvent, well-formed state — no assumption on the stored
version — on every history (transfers, incoming packets with arbitrary fields, acknowledgements and
timeouts, governance ops, channel handshakes and `migrate` calls *anywhere* in the history, payout /
refund sub-calls failing arbitrarily), for every denomination the contract's actual holdings are at least
the sum over all channels of the outstanding balance it reports.

About repeated migrations: `migrate` bumps an older stored version to the current one
(`migrate_result_postV3`), so the reconciliation of `v2::update_balances` runs in at most one successful
`migrate` of a history; while the stored version is still ≤ 0.13.0, `migrate` fails (a no-op) as soon as
two channels exist.  Neither fact is needed here: every successful `migrate` preserves solvency. -/
theorem solvency_with_migration (w : World) (ops : List (Block × Op)) (hs : Solvent w) (hwf : WellFormed w.st) :
    Solvent (run w ops) ∧ WellFormed (run w ops).st := by
  induction ops generalizing w with
  | nil => exact ⟨hs, hwf⟩
  | cons op rest ih =>
    have : Solvent (w.step op.1 op.2) ∧ WellFormed (w.step op.1 op.2).st := by
      unfold World.step
      split
      · rename_i w' o h; exact exec_solvent_wf hs hwf h
      · exact ⟨hs, hwf⟩
    exact ih (w.step op.1 op.2) this.1 this.2

/-- **C11, solvency_from_legacy**: solvency on every history that starts from a legacy state
(`LegacyStart`: stored version arbitrary, in particular ≤ 0.13.0; at most one channel; under-booked) and
contains `migrate` ops anywhere. -/
theorem solvency_from_legacy (w : World) (ops : List (Block × Op)) (hl : LegacyStart w) : Solvent (run w ops) :=
  (solvency_with_migration w ops (legacy_solvent hl) hl.well_formed).1

/-- A second successful `migrate` (the stored version is then newer than 0.13.0) leaves the books alone. -/
theorem second_migrate_keeps_books {s s' s'' : State} {g g' : Option Nat} {hold hold' : Denom → Option Nat}
    (h1 : migrate s g hold = .ok s') (h2 : migrate s' g' hold' = .ok s'') : s''.chan = s'.chan :=
  (migrate_postV3 (migrate_result_postV3 h1) h2).1

/-! ## The same results with the environment assumptions as explicit hypotheses -/

/-- **C11, solvency_explicit_env**: under the *unguarded* transaction semantics (any account, including
the contract itself and real token contracts, may send any transaction), on every history that satisfies
the environment assumptions E1–E3 (`EnvAssumptions`: a real token calls the receive hook only from `Send`;
the contract never calls itself; no native denomination starts with `cw20:`), from any solvent,
well-formed start state and with `migrate` anywhere: holdings ≥ Σ over channels of outstanding, for
every denomination. -/
theorem solvency_explicit_env (w : World) (ops : List (Block × Op))
    (henv : EnvAssumptions w.self w.tokens ops) (hs : Solvent w) (hwf : WellFormed w.st) :
    Solvent (runRaw w ops) := by
  rw [runRaw_eq_run w ops henv]
  exact (solvency_with_migration w ops hs hwf).1

/-- **C11, channel_ledger / paidOut ≤ escrowed with explicit environment**: the ledger identity and the
payout bound on the unguarded semantics, for histories satisfying `EnvAssumptions`. -/
theorem paidOut_le_escrowed_explicit_env (w : World) (ops : List (Block × Op))
    (henv : EnvAssumptions w.self w.tokens ops) (c : String) (d : Denom) :
    outstanding (runGRaw (w, Ghost.init w) ops).1.st c d + (runGRaw (w, Ghost.init w) ops).2.paidOut (c, d)
      + (runGRaw (w, Ghost.init w) ops).2.swallowed (c, d) = (runGRaw (w, Ghost.init w) ops).2.sent (c, d) ∧
    (runGRaw (w, Ghost.init w) ops).2.paidOut (c, d) ≤ (runGRaw (w, Ghost.init w) ops).2.sent (c, d) := by
  rw [runGRaw_eq_runG (w, Ghost.init w) ops henv]
  exact ⟨channel_ledger w ops c d, paidOut_le_escrowed w ops c d⟩

/-- **C11, bad_packets_release_nothing**: a packet whose data does not decode, whose denomination
lacks the `port/channel/` prefix, names another port or another channel than the packet's source, or
asks for more than the channel's outstanding balance of that denomination (in particular any
denomination never escrowed there) is answered with an error acknowledgement, emits no payout and
leaves the whole world — books and every balance — exactly as it was. -/
theorem bad_packets_release_nothing {w w' : World} {blk : Block} {p : PacketIn} {rv tv f : Bool} {o : Outcome}
    (h : w.exec blk (.recv p rv tv f) = .ok (w', o))
    (hbad : p.amount = none ∨ p.voucher = none ∨
      (∃ port c d, p.voucher = some (port, c, d) ∧ (port ≠ p.srcPort ∨ c ≠ p.srcChan)) ∨
      (∃ amt port c d, p.amount = some amt ∧ p.voucher = some (port, c, d) ∧ outstanding w.st p.destChan d < amt)) :
    w' = w ∧ o.ack = some .error ∧ o.sub = none := by
  rcases exec_recv_cases h with ⟨_, rfl, ha, hsub⟩ | ⟨s1, sub, hd, _, _⟩
  · exact ⟨rfl, ha, hsub⟩
  · exfalso
    obtain ⟨amt, d, ch, hamt, hv, hred, _⟩ := doReceive_spec hd
    obtain ⟨cs, hg, hle, _⟩ := reduceBalance_spec hred
    rcases hbad with h1 | h1 | ⟨port, c, d', h1, h2⟩ | ⟨amt', port, c, d', h1, h2, h3⟩
    · rw [hamt] at h1; cases h1
    · rw [hv] at h1; cases h1
    · rw [hv] at h1; cases h1; rcases h2 with h2 | h2 <;> exact h2 rfl
    · rw [hamt] at h1; cases h1
      rw [hv] at h2; cases h2
      simp [outstanding, hg] at h3; omega

/-! ## Non-vacuity -/

def w0 : World :=
  { st := { config := ⟨3600, some 100000⟩, admin := some "gov", allow := [], channels := ["channel-0", "channel-1"],
            chan := [], versionName := CONTRACT_NAME, version := CONTRACT_VERSION },
    self := "ics20", tokens := ["T1"], faulty := ["T1"], bank := [(("alice", "uatom"), 100)], tok := [(("T1", "alice"), 100)] }

def b0 : Block := ⟨1, 1000⟩
def pkt (dest src : String) (d : Denom) (amt : Nat) : PacketIn :=
  ⟨"transfer", src, dest, some amt, some ("transfer", src, d), "alice", "remote-bob"⟩

example : Solvent w0 ∧ PostV3 w0 :=
  ⟨by intro d h _; simp [w0, sumDenom], (by decide : Version.lt MIGRATE_VERSION_3 CONTRACT_VERSION = true)⟩

/-- 60 uatom on channel-0, 30 on channel-1; redemption of 50 on channel-1 is refused (error ack), a
redemption on channel-0 whose payout fails is undone, a good one pays out; holdings = Σ outstanding -/
def hist : List (Block × Op) :=
  [(b0, .transferNative "alice" [("uatom", 60)] ⟨"channel-0", "bob", none, none⟩),
   (b0, .transferNative "alice" [("uatom", 30)] ⟨"channel-1", "bob", none, none⟩),
   (b0, .recv (pkt "channel-1" "channel-11" (.native "uatom") 50) true true false),
   (b0, .recv (pkt "channel-0" "channel-10" (.native "uatom") 50) true true true),
   (b0, .recv (pkt "channel-0" "channel-10" (.native "uatom") 45) true true false)]

example : (run w0 hist).holdings (.native "uatom") = some 45 := by decide
example : outstanding (run w0 hist).st "channel-0" (.native "uatom") = 15 := by decide
example : outstanding (run w0 hist).st "channel-1" (.native "uatom") = 30 := by decide
example : sumDenom (run w0 hist).st.chan (.native "uatom") = 45 := by decide
example : (runG (w0, Ghost.init w0) hist).2.paidOut ("channel-0", .native "uatom") = 45 := by decide
example : (runG (w0, Ghost.init w0) hist).2.sent ("channel-0", .native "uatom") = 60 := by decide


/-! ## The environment assumptions E1 and E2 are needed for solvency -/

/-- **E1 is needed**: under the unguarded semantics, a token contract that exists (`T1`) calling `Receive`
directly — claiming 50 tokens it never credited — is accepted, and the contract is insolvent afterwards:
it reports 50 `T1` outstanding and holds none. -/
theorem solvency_needs_hook_only_from_send :
    Solvent w0 ∧
    sumDenom (w0.stepRaw b0 (.hook "T1" [] ⟨true, "mallory"⟩ 50 (some ⟨"channel-0", "bob", none, none⟩))).st.chan (.cw20 "T1") = 50 ∧
    (w0.stepRaw b0 (.hook "T1" [] ⟨true, "mallory"⟩ 50 (some ⟨"channel-0", "bob", none, none⟩))).holdings (.cw20 "T1") = some 0 ∧
    (w0.step b0 (.hook "T1" [] ⟨true, "mallory"⟩ 50 (some ⟨"channel-0", "bob", none, none⟩))).st.chan = [] := by
  refine ⟨by intro d h _; simp [w0, sumDenom], by decide, by decide, by decide⟩

/-- **E2 is needed**: under the unguarded semantics, after alice escrowed 60 uatom, a transfer of 60 uatom
*sent by the contract itself* moves nothing (self → self) but books another 60: 120 outstanding, 60 held. -/
theorem solvency_needs_never_calls_itself :
    sumDenom ((w0.stepRaw b0 (.transferNative "alice" [("uatom", 60)] ⟨"channel-0", "bob", none, none⟩)).stepRaw b0
      (.transferNative "ics20" [("uatom", 60)] ⟨"channel-0", "bob", none, none⟩)).st.chan (.native "uatom") = 120 ∧
    ((w0.stepRaw b0 (.transferNative "alice" [("uatom", 60)] ⟨"channel-0", "bob", none, none⟩)).stepRaw b0
      (.transferNative "ics20" [("uatom", 60)] ⟨"channel-0", "bob", none, none⟩)).holdings (.native "uatom") = some 60 := by
  decide

/-- The environment assumptions hold of the demo history (nobody but alice sends; no direct hook call;
`uatom` does not start with `cw20:`), so `solvency_explicit_env` applies to it. -/
example : EnvAssumptions w0.self w0.tokens hist := by
  refine ⟨?_, ⟨?_, ?_⟩, ?_⟩
  · intro blk snd funds sender amt msg hm; simp [hist] at hm
  · intro blk snd funds msg hm
    simp [hist] at hm
    rcases hm with ⟨_, rfl, _⟩ | ⟨_, rfl, _⟩ <;> decide
  · intro blk snd token amt msg hm; simp [hist] at hm
  · intro blk snd funds msg hm f hf
    simp [hist] at hm
    rcases hm with ⟨_, _, rfl, _⟩ | ⟨_, _, rfl, _⟩ <;> (simp at hf; subst hf; exact nativeOk_of_take (by decide))
example : runRaw w0 hist = run w0 hist := rfl

/-! ## Non-vacuity: legacy start states and histories with migrations -/

/-- Executable form of the `under_booked` clause (entry by entry). -/
def underBookedB (w : World) : Bool :=
  w.st.chan.all (fun e => match w.holdings e.1.2 with | some h => decide (e.2.outstanding ≤ h) | none => true)

theorem under_booked_of_check {w : World} (hc : underBookedB w = true) :
    ∀ c d h, w.holdings d = some h → outstanding w.st c d ≤ h := by
  intro c d h hd
  unfold outstanding
  cases hg : w.st.chan.get? (c, d) with
  | none => simp
  | some cs =>
    have hm := mem_of_get? hg
    have := (List.all_eq_true.mp hc) _ hm
    simp only [hd] at this
    simpa using this

/-- A contract stored by release 0.13.0 (current storage layout): one channel; it booked 40 uatom and 10 T1
(acknowledged transfers) but holds 100 uatom and 10 T1 — 60 uatom are still in flight. -/
def wL : World :=
  { st := { config := ⟨3600, none⟩, admin := some "gov", allow := [("T1", none)], channels := ["channel-0"],
            chan := [(("channel-0", .native "uatom"), ⟨40, 40⟩), (("channel-0", .cw20 "T1"), ⟨10, 10⟩)],
            versionName := CONTRACT_NAME, version := ⟨0, 13, 0, none⟩ },
    self := "ics20", tokens := ["T1"], faulty := [], bank := [(("ics20", "uatom"), 100), (("alice", "uatom"), 7)],
    tok := [(("T1", "ics20"), 10)] }

/-- The same books stored by release 0.11.1 (pre-allow-list layout: `gov_contract` inside the config, no
`ADMIN` item). -/
def wL1 : World :=
  { wL with st := { wL.st with v1gov := some "gov", admin := none, allow := [], version := ⟨0, 11, 1, none⟩ } }

example : LegacyStart wL :=
  ⟨by decide, ⟨by unfold AMap.NodupKeys; decide, by decide⟩, under_booked_of_check (by decide)⟩
example : LegacyStart wL1 :=
  ⟨by decide, ⟨by unfold AMap.NodupKeys; decide, by decide⟩, under_booked_of_check (by decide)⟩
example : ¬ PostV3 wL := by unfold PostV3; decide

/-- all hypotheses of `migrate_succeeds_from_legacy` hold of the 0.11.1 state `wL1` -/
example : ∃ w' o, wL1.exec b0 (.migrate none) = .ok (w', o) ∧ Solvent w' :=
  migrate_succeeds_from_legacy
    ⟨by decide, ⟨by unfold AMap.NodupKeys; decide, by decide⟩, under_booked_of_check (by decide)⟩ b0 none
    rfl (by decide) (by decide) (by decide) (by decide)
    (by
      intro e he bal hb
      have he' : e = (("channel-0", Denom.native "uatom"), ⟨40, 40⟩) ∨ e = (("channel-0", Denom.cw20 "T1"), ⟨10, 10⟩) := by
        simpa [wL1, wL] using he
      rcases he' with rfl | rfl
      · have : bal = 100 := by
          have h100 : wL1.holdings (Denom.native "uatom") = some 100 := by decide
          rw [h100] at hb; exact (Option.some.inj hb).symm
        subst this; decide
      · have : bal = 10 := by
          have h10 : wL1.holdings (Denom.cw20 "T1") = some 10 := by decide
          rw [h10] at hb; exact (Option.some.inj hb).symm
        subst this; decide)

/-- v2 → current: the 60 uatom in flight are booked; holdings = Σ outstanding. -/
example : outstanding (run wL [(b0, .migrate none)]).st "channel-0" (.native "uatom") = 100 ∧
    sumDenom (run wL [(b0, .migrate none)]).st.chan (.native "uatom") = 100 ∧
    (run wL [(b0, .migrate none)]).holdings (.native "uatom") = some 100 ∧
    (run wL [(b0, .migrate none)]).st.version = CONTRACT_VERSION := by decide
/-- v1 → v2 → current does the same and installs the admin. -/
example : outstanding (run wL1 [(b0, .migrate (some 7))]).st "channel-0" (.native "uatom") = 100 ∧
    (run wL1 [(b0, .migrate (some 7))]).st.admin = some "gov" ∧
    (run wL1 [(b0, .migrate (some 7))]).st.version = CONTRACT_VERSION := by decide

/-- A history with `migrate` in the middle and again at the end: transfer 5 (v2 layout accepts it), migrate
(books 60 in flight), redeem all 105, migrate again (books unchanged: version is current). -/
def histL : List (Block × Op) :=
  [(b0, .transferNative "alice" [("uatom", 5)] ⟨"channel-0", "bob", none, none⟩),
   (b0, .migrate none),
   (b0, .recv (pkt "channel-0" "channel-10" (.native "uatom") 105) true true false),
   (b0, .migrate (some 9))]

example : outstanding (run wL (histL.take 2)).st "channel-0" (.native "uatom") = 105 := by decide
example : (run wL histL).holdings (.native "uatom") = some 0 ∧
    sumDenom (run wL histL).st.chan (.native "uatom") = 0 ∧ (run wL histL).bankBal "alice" "uatom" = 107 := by decide

/-- With a second channel connected before the migration, `migrate` from 0.13.0 fails (a no-op): the
stored version stays 0.13.0 and the state stays (trivially) solvent. -/
example : (run wL [(b0, .connect "channel-1" ICS20_VERSION none false {}), (b0, .migrate none)]).st.version = ⟨0, 13, 0, none⟩ ∧
    ((wL.step b0 (.connect "channel-1" ICS20_VERSION none false {})).exec b0 (.migrate none)).tag = "multiplechannels" := by
  decide

/-! ## All histories (no `admissible` filter); "escrowed" without re-baselining

`runU` (Lemmas/Ics20Ledger.lean) carries the same ghosts as `runG` over *every* op of the history: a forged,
repeated or stale acknowledgement / timeout is executed like any other transaction.  Its world is the
plain history `run`. -/

/-- **C11, channel_ledger / paidOut ≤ escrowed on every history** (clause "tokens paid out on a channel
never exceed the tokens escrowed on it", without the IBC-core assumption `admissible`): the ghost history
over all ops has the plain history `run w ops` as its world, and on it, per channel and denomination,
`outstanding + paidOut + swallowed = escrowed` and `paidOut ≤ escrowed` — also when acknowledgements or
timeouts are forged, repeated, or name packets that were never sent. -/
theorem channel_ledger_all_histories (w : World) (ops : List (Block × Op)) (c : String) (d : Denom) :
    (runU (w, Ghost.init w) ops).1 = run w ops ∧
    outstanding (run w ops).st c d + (runU (w, Ghost.init w) ops).2.paidOut (c, d)
      + (runU (w, Ghost.init w) ops).2.swallowed (c, d) = (runU (w, Ghost.init w) ops).2.sent (c, d) ∧
    (runU (w, Ghost.init w) ops).2.paidOut (c, d) ≤ (runU (w, Ghost.init w) ops).2.sent (c, d) := by
  have e : (runU (w, Ghost.init w) ops).1 = run w ops := runU_fst (w, Ghost.init w) ops
  have h := runU_ledger ops (ledgerInv_init w)
  have h1 := h.1 (c, d); have h2 := h.2 (c, d)
  rw [e] at h1
  refine ⟨e, ?_, ?_⟩
  · rw [outstanding_eq]; omega
  · omega

/-- **C11, a migration of a current-version contract does not re-baseline `escrowed`**: when the stored
version is newer than 0.13.0 and the ledger is consistent, the ghost step of `migrate` leaves `sent` — the
"escrowed" side of `channel_ledger` — exactly as it was (with and without the `admissible` filter). -/
theorem migrate_keeps_escrowed {w : World} {g : Ghost} (blk : Block) (gas : Option Nat)
    (hv : PostV3 w) (hi : LedgerInv (w, g)) :
    (stepG (w, g) blk (.migrate gas)).2.sent = g.sent ∧ (stepU (w, g) blk (.migrate gas)).2.sent = g.sent := by
  have key : (stepU (w, g) blk (.migrate gas)).2.sent = g.sent := by
    unfold stepU
    cases hx : w.exec blk (.migrate gas) with
    | error e => rfl
    | ok r => obtain ⟨w', o⟩ := r; exact update_migrate_sent_postV3 hv hi hx
  exact ⟨by rw [stepG_eq_stepU (by rfl)]; exact key, key⟩

/-- **C11, "escrowed" is the sum of the accepted transfers** (closes the re-baselining gap of
`channel_ledger` for every contract that does not come from a release ≤ 0.13.0): from a start state at a
stored version newer than 0.13.0, on every history — `migrate` ops anywhere — the `escrowed` side of the
ledger is what was outstanding at the start plus `sentOf`, the sum of the packet amounts of the accepted
transfers on that channel and denomination, read off the transaction outcomes. -/
theorem escrowed_is_sum_of_transfers (w : World) (ops : List (Block × Op)) (hv : PostV3 w) (c : String) (d : Denom) :
    (runU (w, Ghost.init w) ops).2.sent (c, d) = outstanding w.st c d + sentOf w ops (c, d) :=
  runU_sent_postV3 (wg := (w, Ghost.init w)) ops hv (ledgerInv_init w) (c, d)

/-- **C11, channel ledger of a freshly instantiated contract**: on every history after `instantiate`,
`outstanding + paidOut + swallowed = Σ accepted transfers` per channel and denomination, hence
`paidOut ≤ Σ accepted transfers`: nothing in the statement is defined through the books. -/
theorem channel_ledger_fresh {m : InstMsg} {s : State} (hi : instantiate m = .ok s) (w : World)
    (ops : List (Block × Op)) (c : String) (d : Denom) :
    outstanding (run { w with st := s } ops).st c d + (runU ({ w with st := s }, Ghost.init { w with st := s }) ops).2.paidOut (c, d)
      + (runU ({ w with st := s }, Ghost.init { w with st := s }) ops).2.swallowed (c, d) = sentOf { w with st := s } ops (c, d) ∧
    (runU ({ w with st := s }, Ghost.init { w with st := s }) ops).2.paidOut (c, d) ≤ sentOf { w with st := s } ops (c, d) := by
  obtain ⟨_, h1, h2⟩ := channel_ledger_all_histories { w with st := s } ops c d
  have h3 := escrowed_is_sum_of_transfers { w with st := s } ops (instantiate_postV3S hi) c d
  have h0 : outstanding s c d = 0 := by
    simp [instantiate] at hi
    obtain ⟨_, allow, _, rfl⟩ := hi
    rfl
  simp only [h0] at h3
  omega

/-- **C11, solvency of a freshly instantiated contract** (`instantiate_solvent` composed with
`solvency_with_migration`): after an accepted `instantiate`, in any world (any balances, tokens, faults),
on every history with `migrate` ops anywhere, holdings ≥ Σ over channels of outstanding for every
denomination, and the storage stays well-formed. -/
theorem solvency_fresh {m : InstMsg} {s : State} (hi : instantiate m = .ok s) (w : World) (ops : List (Block × Op)) :
    Solvent (run { w with st := s } ops) ∧ WellFormed (run { w with st := s } ops).st :=
  solvency_with_migration { w with st := s } ops (instantiate_solvent hi w).1 (instantiate_wellFormed hi)

/-- A forged timeout (for a packet nobody sent) appended to the demo history: `runG` skips it, `runU`
executes it — the contract trusts IBC core and refunds 15 uatom to "mallory" — and the ledger identity
still holds: 60 paid out of 60 escrowed on channel-0. -/
def forged : Block × Op :=
  (b0, .timeout "channel-0" (some ⟨15, .native "uatom", "bob", "mallory", none⟩) true true false)

example : (runG (w0, Ghost.init w0) (hist ++ [forged])).1.bankBal "mallory" "uatom" = 0 ∧
    (run w0 (hist ++ [forged])).bankBal "mallory" "uatom" = 15 ∧
    outstanding (run w0 (hist ++ [forged])).st "channel-0" (.native "uatom") = 0 ∧
    (runU (w0, Ghost.init w0) (hist ++ [forged])).2.paidOut ("channel-0", .native "uatom") = 60 ∧
    (runU (w0, Ghost.init w0) (hist ++ [forged])).2.sent ("channel-0", .native "uatom") = 60 := by decide

/-- `sentOf` on the demo history: 60 and 30 uatom escrowed on the two channels; on the legacy history the
transfer of 5 before the migration. -/
example : sentOf w0 hist ("channel-0", .native "uatom") = 60 ∧ sentOf w0 hist ("channel-1", .native "uatom") = 30 ∧
    sentOf wL histL ("channel-0", .native "uatom") = 5 := by decide

/-- `PostV3` is needed in `escrowed_is_sum_of_transfers`: from the 0.13.0 state `wL` the migration books
the 60 uatom in flight, so `sent` (105) exceeds start + accepted transfers (40 + 5). -/
example : (runU (wL, Ghost.init wL) histL).2.sent ("channel-0", .native "uatom") = 105 ∧
    outstanding wL.st "channel-0" (.native "uatom") + sentOf wL histL ("channel-0", .native "uatom") = 45 := by decide

/-- a fresh instantiation to which `channel_ledger_fresh` / `solvency_fresh` apply -/
example : ∃ s, instantiate ⟨3600, ⟨true, "gov"⟩, [(⟨true, "T1"⟩, none)], some 100000⟩ = .ok s := ⟨_, rfl⟩

/-! ## Refunds: the ghosts `paidOut` / `swallowed` are real token movements -/

/-- What the balances look like after `amt` of denomination `d` moved from the contract to `to`
(`to ≠ self`): `to` has `amt` more, the contract `amt` less, every other balance of either kind is as
before. -/
def Moved (w w' : World) (d : Denom) (to : Addr) (amt : Nat) : Prop :=
  match d with
  | .native dn =>
    w'.bankBal to dn = w.bankBal to dn + amt ∧ w'.bankBal w.self dn + amt = w.bankBal w.self dn ∧
    (∀ a x, (a, x) ≠ (to, dn) → (a, x) ≠ (w.self, dn) → w'.bankBal a x = w.bankBal a x) ∧ w'.tok = w.tok
  | .cw20 t =>
    w'.tokBal t to = w.tokBal t to + amt ∧ w'.tokBal t w.self + amt = w.tokBal t w.self ∧
    (∀ t' a, (t', a) ≠ (t, to) → (t', a) ≠ (t, w.self) → w'.tokBal t' a = w.tokBal t' a) ∧ w'.bank = w.bank

/-- A payout that went through moved exactly its amount from the contract to its recipient. -/
theorem payout_moved {w w' : World} {sub : SubMsg} {tv f : Bool} (hp : w.payout sub tv f = some w')
    (hto : sub.to ≠ w.self) : Moved w w' sub.denom sub.to sub.amount := by
  unfold World.payout at hp
  unfold Moved
  split at hp
  · rename_i dn hden
    split at hp
    · simp at hp
    · obtain ⟨hle, hb⟩ := bankSend_spec hp
      have htk := (bankSend_frame hp).2.1
      rw [hden]
      refine ⟨?_, ?_, ?_, htk⟩
      · have := hb sub.to dn; simp [Ne.symm hto] at this; exact this
      · have := hb w.self dn; simp [hto] at this; rw [this]; omega
      · intro a x h1 h2
        have := hb a x
        simp [Ne.symm h1, Ne.symm h2] at this; exact this
  · rename_i t hden
    split at hp
    · simp at hp
    · obtain ⟨hle, hb⟩ := tokSend_spec hp
      have hbk := (tokSend_frame hp).2.1
      rw [hden]
      refine ⟨?_, ?_, ?_, hbk⟩
      · have := hb t sub.to; simp [Ne.symm hto] at this; exact this
      · have := hb t w.self; simp [hto] at this; rw [this]; omega
      · intro t' a h1 h2
        have := hb t' a
        simp [Ne.symm h1, Ne.symm h2] at this; exact this

theorem refund_effects_core {w w' : World} {chan : String} {p : Packet} {tv sv f : Bool} {s1 : State} {sub : SubMsg}
    {oack : Option Ack} (hf : onPacketFailure w.st chan (some p) tv = .ok (s1, sub))
    (hc : (({ w with st := s1 } : World).payout sub sv f = some w' ∧ oack = none) ∨
          (({ w with st := s1 } : World).payout sub sv f = none ∧ w' = { w with st := s1 } ∧ oack = some .error))
    (hs : p.sender ≠ w.self) :
    outstanding w'.st chan p.denom + p.amount = outstanding w.st chan p.denom ∧
    (∀ k, k ≠ (chan, p.denom) → outAt w'.st.chan k = outAt w.st.chan k) ∧
    sub.to = p.sender ∧ sub.amount = p.amount ∧ sub.denom = p.denom ∧
    ((oack = none ∧ Moved w w' p.denom p.sender p.amount) ∨
     (oack = some .error ∧ w'.bank = w.bank ∧ w'.tok = w.tok)) := by
  obtain ⟨p', ch, hp', hred, rfl, hto, hsa, hsd, _⟩ := onPacketFailure_spec hf
  cases hp'
  obtain ⟨cs, hg, hle, _, ho, _⟩ := reduceBalance_spec hred
  have hst : w'.st.chan = ch := by
    rcases hc with ⟨hp, _⟩ | ⟨_, rfl, _⟩
    · rw [(payout_frame hp).1]
    · rfl
  refine ⟨?_, ?_, hto, hsa, hsd, ?_⟩
  · rw [outstanding_eq, outstanding_eq, hst, ho]
    simp [outAt, hg]; omega
  · intro k hk; rw [hst, ho k]; simp [hk]
  · rcases hc with ⟨hp, ha⟩ | ⟨_, rfl, ha⟩
    · left
      refine ⟨ha, ?_⟩
      have := payout_moved hp (by rw [hto]; exact hs)
      rw [hsd, hto, hsa] at this
      exact this
    · exact Or.inr ⟨ha, rfl, rfl⟩

/-- **C11, refund_effects (timeout)** — ties the ghosts `paidOut` / `swallowed` of a refund to real
tokens (clause "tokens paid out … including when a refund sub-call fails"): a processed timeout of a
packet whose sender is not the contract itself reduces the channel balance of the packet's denomination
by exactly the packet's amount, touches no other key, and then either (`o.ack = none`, the case in which
`Ghost.failure` books the amount as `paidOut`) exactly that amount moved from the contract to the
packet's sender — every other bank and cw20 balance unchanged — or (`o.ack = some error`, booked as
`swallowed`) the refund sub-call failed and no bank or cw20 balance changed at all: the tokens stay in
escrow. -/
theorem refund_effects_timeout {w w' : World} {blk : Block} {chan : String} {p : Packet} {sv tv f : Bool} {o : Outcome}
    (h : w.exec blk (.timeout chan (some p) sv tv f) = .ok (w', o)) (hs : p.sender ≠ w.self) :
    outstanding w'.st chan p.denom + p.amount = outstanding w.st chan p.denom ∧
    (∀ k, k ≠ (chan, p.denom) → outAt w'.st.chan k = outAt w.st.chan k) ∧
    (∃ sub, o.sub = some sub ∧ sub.to = p.sender ∧ sub.amount = p.amount ∧ sub.denom = p.denom) ∧
    ((o.ack = none ∧ Moved w w' p.denom p.sender p.amount) ∨
     (o.ack = some .error ∧ w'.bank = w.bank ∧ w'.tok = w.tok)) := by
  obtain ⟨s1, sub, hf, hsub, hc⟩ := exec_timeout_cases h
  obtain ⟨h1, h2, h3, h4, h5, h6⟩ := refund_effects_core hf hc hs
  exact ⟨h1, h2, ⟨sub, hsub, h3, h4, h5⟩, h6⟩

/-- **C11, refund_effects (error acknowledgement)**: the same for a processed error acknowledgement. -/
theorem refund_effects_ack {w w' : World} {blk : Block} {chan : String} {p : Packet} {sv tv f : Bool} {o : Outcome}
    (h : w.exec blk (.ack chan (some p) (some false) sv tv f) = .ok (w', o)) (hs : p.sender ≠ w.self) :
    outstanding w'.st chan p.denom + p.amount = outstanding w.st chan p.denom ∧
    (∀ k, k ≠ (chan, p.denom) → outAt w'.st.chan k = outAt w.st.chan k) ∧
    (∃ sub, o.sub = some sub ∧ sub.to = p.sender ∧ sub.amount = p.amount ∧ sub.denom = p.denom) ∧
    ((o.ack = none ∧ Moved w w' p.denom p.sender p.amount) ∨
     (o.ack = some .error ∧ w'.bank = w.bank ∧ w'.tok = w.tok)) := by
  rcases exec_ack_cases h with ⟨e, _⟩ | ⟨_, s1, sub, hf, hsub, hc⟩
  · cases e
  · obtain ⟨h1, h2, h3, h4, h5, h6⟩ := refund_effects_core hf hc hs
    exact ⟨h1, h2, ⟨sub, hsub, h3, h4, h5⟩, h6⟩

/-- The ghost bookkeeping of a failure follows the acknowledgement exactly as `refund_effects_*` reads
it: `paidOut` grows by the amount iff `o.ack = none`, `swallowed` otherwise. -/
theorem failure_ghost (g : Ghost) (chan : String) (p : Packet) (o : Outcome) (k : Key) :
    (g.failure chan p o).paidOut k = g.paidOut k + (if o.ack = none ∧ k = (chan, p.denom) then p.amount else 0) ∧
    (g.failure chan p o).swallowed k = g.swallowed k + (if o.ack ≠ none ∧ k = (chan, p.denom) then p.amount else 0) := by
  unfold Ghost.failure
  cases o.ack <;> by_cases hk : k = (chan, p.denom) <;> simp [hk]

/-- the refund of the 60 uatom in the C12-style history: processed, `o.ack = none`, alice is paid -/
example : ∃ w' o, (run w0 (hist.take 1)).exec b0 (.timeout "channel-0" (some ⟨60, .native "uatom", "bob", "alice", none⟩) true true false)
      = .ok (w', o) ∧ o.ack = none ∧ w'.bankBal "alice" "uatom" = 100 := ⟨_, _, rfl, by decide, by decide⟩
/-- the same refund with a failing sub-call is swallowed: error data, balances unchanged, books reduced -/
example : ∃ w' o, (run w0 (hist.take 1)).exec b0 (.timeout "channel-0" (some ⟨60, .native "uatom", "bob", "alice", none⟩) true true true)
      = .ok (w', o) ∧ o.ack = some .error ∧ w'.bankBal "alice" "uatom" = 40 ∧
        outstanding w'.st "channel-0" (.native "uatom") = 0 := ⟨_, _, rfl, by decide, by decide, by decide⟩

/-! ## Bad packets, closed form -/

/-- Whenever `do_ibc_packet_receive` refuses a packet, the whole transaction is: error acknowledgement, no
sub-message, world unchanged. -/
theorem exec_recv_of_refused {w : World} {p : PacketIn} {tv : Bool} {e : String} (hd : doReceive w.st p tv = .error e)
    (blk : Block) (rv f : Bool) : w.exec blk (.recv p rv tv f) = .ok (w, { ack := some .error, sub := none }) := by
  simp [World.exec, ibcPacketReceive, hd, World.dispatch, bind, Except.bind, pure, Except.pure]

/-- **C11, bad_packets_release_nothing in closed form** (clause 4 without assuming that the transaction
succeeds, and including "no entry for the denomination at all, whatever the amount — even 0"): a packet
whose data does not decode, whose denomination lacks the `port/channel/` prefix, names another port or
another channel than the packet's source, asks for more than the channel's outstanding balance of the
denomination, or names a denomination that has no entry on the receiving channel, is processed by a
*successful* transaction whose result is exactly: error acknowledgement, no payout sub-message, the world
— books and every balance — unchanged. -/
theorem bad_packets_release_nothing_total (w : World) (blk : Block) (p : PacketIn) (rv tv f : Bool)
    (hbad : p.amount = none ∨ p.voucher = none ∨
      (∃ port c d, p.voucher = some (port, c, d) ∧ (port ≠ p.srcPort ∨ c ≠ p.srcChan)) ∨
      (∃ amt port c d, p.amount = some amt ∧ p.voucher = some (port, c, d) ∧ outstanding w.st p.destChan d < amt) ∨
      (∃ port c d, p.voucher = some (port, c, d) ∧ w.st.chan.get? (p.destChan, d) = none)) :
    w.exec blk (.recv p rv tv f) = .ok (w, { ack := some .error, sub := none }) := by
  cases hd : doReceive w.st p tv with
  | error e => exact exec_recv_of_refused hd blk rv f
  | ok r =>
    exfalso
    obtain ⟨s1, sub⟩ := r
    obtain ⟨amt, d, ch, hamt, hv, hred, _⟩ := doReceive_spec hd
    obtain ⟨cs, hg, hle, _⟩ := reduceBalance_spec hred
    rcases hbad with h1 | h1 | ⟨port, c, d', h1, h2⟩ | ⟨amt', port, c, d', h1, h2, h3⟩ | ⟨port, c, d', h1, h2⟩
    · rw [hamt] at h1; cases h1
    · rw [hv] at h1; cases h1
    · rw [hv] at h1; cases h1; rcases h2 with h2 | h2 <;> exact h2 rfl
    · rw [hamt] at h1; cases h1
      rw [hv] at h2; cases h2
      simp [outstanding, hg] at h3; omega
    · rw [hv] at h1; cases h1
      rw [hg] at h2; cases h2

/-- a zero-amount packet for a denomination never escrowed on the channel: covered by the new disjunct -/
example : (run w0 hist).exec b0 (.recv (pkt "channel-0" "channel-10" (.native "ufoo") 0) true true false)
    = .ok (run w0 hist, { ack := some .error, sub := none }) :=
  bad_packets_release_nothing_total _ _ _ _ _ _ (Or.inr (Or.inr (Or.inr (Or.inr ⟨_, _, _, rfl, by decide⟩))))

/-! ## Denominations that are no real token never pay -/

theorem payout_some_token {w w' : World} {sub : SubMsg} {tv f : Bool} {t : Addr} (hp : w.payout sub tv f = some w')
    (hd : sub.denom = .cw20 t) : w.tokens.contains t = true := by
  unfold World.payout at hp
  rw [hd] at hp
  simp only at hp
  split at hp
  · cases hp
  · rename_i hc
    simp at hc
    simpa using hc.1.1

/-- One transaction never books a payout under a cw20 denomination whose address is not a token contract
that exists. -/
theorem update_paidOut_nontoken {w w' : World} {g : Ghost} {blk : Block} {op : Op} {o : Outcome}
    (h : w.exec blk op = .ok (w', o)) {c : String} {t : Addr} (ht : w.tokens.contains t = false) :
    (g.update w' op o).paidOut (c, .cw20 t) = g.paidOut (c, .cw20 t) := by
  have nopay : ∀ {s1 : State} {sub : SubMsg} {tv f : Bool} {w2 : World},
      ({ w with st := s1 } : World).payout sub tv f = some w2 → sub.denom ≠ .cw20 t := by
    intro s1 sub tv f w2 hp hd
    have := payout_some_token hp hd
    simp only [ht] at this
    cases this
  cases op with
  | connect id v cv ord peer => rfl
  | chanOpen v cv ord => rfl
  | chanClose id => rfl
  | allow snd c' gg => rfl
  | updateAdmin snd a => rfl
  | migrate gas => rfl
  | transferNative snd funds msg => simp only [Ghost.update]; split <;> rfl
  | sendCw20 snd token amt msg => simp only [Ghost.update]; split <;> rfl
  | hook snd funds sender amt msg => simp only [Ghost.update]; split <;> rfl
  | recv p rv tv f =>
    rcases exec_recv_cases h with ⟨_, _, ha, hsub⟩ | ⟨s1, sub, hd, hsub, hc⟩
    · simp only [Ghost.update, ha, hsub]
    · rcases hc with ⟨hp, ha⟩ | ⟨_, ha, _⟩
      · simp only [Ghost.update, ha, hsub, bump_apply]
        split
        · rename_i hk; exact absurd (Prod.mk.inj hk).2.symm (nopay hp)
        · rfl
      · simp only [Ghost.update, ha, hsub]
  | ack chan data ackOk sv tv f =>
    rcases exec_ack_cases h with ⟨rfl, _, _, _⟩ | ⟨rfl, s1, sub, hf, _, hc⟩
    · cases data <;> rfl
    · obtain ⟨p, ch, rfl, _, _, _, _, hsd, _⟩ := onPacketFailure_spec hf
      rcases hc with ⟨hp, ha⟩ | ⟨_, _, ha⟩
      · simp only [Ghost.update, Ghost.failure, ha, bump_apply]
        split
        · rename_i hk; exact absurd (hsd.trans (Prod.mk.inj hk).2.symm) (nopay hp)
        · rfl
      · simp only [Ghost.update, Ghost.failure, ha]
  | timeout chan data sv tv f =>
    obtain ⟨s1, sub, hf, _, hc⟩ := exec_timeout_cases h
    obtain ⟨p, ch, rfl, _, _, _, _, hsd, _⟩ := onPacketFailure_spec hf
    rcases hc with ⟨hp, ha⟩ | ⟨_, _, ha⟩
    · simp only [Ghost.update, Ghost.failure, ha, bump_apply]
      split
      · rename_i hk; exact absurd (hsd.trans (Prod.mk.inj hk).2.symm) (nopay hp)
      · rfl
    · simp only [Ghost.update, Ghost.failure, ha]

theorem runU_paidOut_nontoken {wg : World × Ghost} (ops : List (Block × Op)) {c : String} {t : Addr}
    (h1 : wg.1.tokens.contains t = false) (h0 : wg.2.paidOut (c, .cw20 t) = 0) :
    (runU wg ops).2.paidOut (c, .cw20 t) = 0 := by
  induction ops generalizing wg with
  | nil => exact h0
  | cons op rest ih =>
    apply ih (wg := stepU wg op.1 op.2)
    · rw [stepU_fst, (step_self_tokens wg.1 op.1 op.2).2]; exact h1
    · unfold stepU
      cases hx : wg.1.exec op.1 op.2 with
      | error e => exact h0
      | ok r => obtain ⟨w', o⟩ := r; simp only; rw [update_paidOut_nontoken hx h1]; exact h0

theorem runG_paidOut_nontoken {wg : World × Ghost} (ops : List (Block × Op)) {c : String} {t : Addr}
    (h1 : wg.1.tokens.contains t = false) (h0 : wg.2.paidOut (c, .cw20 t) = 0) :
    (runG wg ops).2.paidOut (c, .cw20 t) = 0 := by
  induction ops generalizing wg with
  | nil => exact h0
  | cons op rest ih =>
    apply ih (wg := stepG wg op.1 op.2)
    · rw [(stepG_self_tokens wg op.1 op.2).2]; exact h1
    · unfold stepG
      split
      · cases hx : wg.1.exec op.1 op.2 with
        | error e => exact h0
        | ok r => obtain ⟨w', o⟩ := r; simp only; rw [update_paidOut_nontoken hx h1]; exact h0
      · exact h0

/-- **C11, non-token denominations never pay** (why it is harmless that a direct `Receive` hook call — from
an account that is no token contract — is booked as "escrowed" although it moves nothing): on every
history, filtered or not, nothing is ever paid out under a denomination `cw20:<t>` whose `t` is not a
token contract that exists; whatever such a call books can only be swallowed or stay outstanding. -/
theorem nontoken_never_pays (w : World) (ops : List (Block × Op)) (c : String) (t : Addr)
    (ht : w.tokens.contains t = false) :
    (runU (w, Ghost.init w) ops).2.paidOut (c, .cw20 t) = 0 ∧ (runG (w, Ghost.init w) ops).2.paidOut (c, .cw20 t) = 0 :=
  ⟨runU_paidOut_nontoken ops ht rfl, runG_paidOut_nontoken ops ht rfl⟩

/-- "mallory" is no token contract of `w0`: her direct hook call is booked, and nothing is ever paid for it -/
example : w0.tokens.contains "mallory" = false := by decide

/-! ## Exact conservation: the contract's holdings change only by escrow and by payouts that went through -/

/-- Tokens of denomination `x` a successful transaction brought into the contract: the packet amount of an
accepted native transfer or cw20 `Send` of that denomination (a direct hook call brings nothing). -/
def escrowNow (op : Op) (o : Outcome) (x : Denom) : Nat :=
  match op with
  | .transferNative .. | .sendCw20 .. =>
    (match o.sent with
     | [out] => if out.packet.denom = x then out.packet.amount else 0
     | _ => 0)
  | _ => 0

/-- Tokens of denomination `x` that left the contract in a successful transaction: the amount of its
sub-message if the sub-call went through (success acknowledgement of an incoming packet; no error data for
a refund) and the recipient is not the contract itself. -/
def paidNow (self : Addr) (op : Op) (o : Outcome) (x : Denom) : Nat :=
  match o.sub with
  | none => 0
  | some sub =>
    let went : Bool := match op with
      | .recv .. => o.ack == some .success
      | _ => o.ack == none
    if went = true ∧ sub.denom = x ∧ sub.to ≠ self then sub.amount else 0

/-- Exact version of `payout_holdings`. -/
theorem payout_holdings_eq {w w' : World} {sub : SubMsg} {tv f : Bool} (hp : w.payout sub tv f = some w')
    (x : Denom) (h : Nat) (hx : w.holdings x = some h) :
    ∃ h', w'.holdings x = some h' ∧ h' + (if sub.denom = x ∧ sub.to ≠ w.self then sub.amount else 0) = h := by
  obtain ⟨_, hself, htok, _⟩ := payout_frame hp
  unfold World.payout at hp
  split at hp
  · rename_i dn hden
    split at hp
    · simp at hp
    · obtain ⟨hle, hb⟩ := bankSend_spec hp
      have htk := (bankSend_frame hp).2.1
      cases x with
      | native y =>
        simp only [World.holdings] at hx ⊢
        simp at hx
        refine ⟨_, rfl, ?_⟩
        rw [hself, hb w.self y, hden]
        by_cases hy : dn = y
        · subst hy
          by_cases hto : sub.to = w.self
          · simp [hto]; omega
          · simp [hto]; omega
        · have : ¬ Denom.native dn = Denom.native y := by intro e; cases e; exact hy rfl
          simp [hy, this]; exact hx
      | cw20 t =>
        simp only [World.holdings, htok, hself] at hx ⊢
        split at hx
        · rename_i hc
          simp at hx
          refine ⟨h, ?_, ?_⟩
          · simp only [hc, if_true, World.tokBal, htk]; simp only [World.tokBal] at hx; rw [hx]
          · rw [hden]; simp
        · simp at hx
  · rename_i t0 hden
    split at hp
    · simp at hp
    · obtain ⟨hle, hb⟩ := tokSend_spec hp
      have hbk := (tokSend_frame hp).2.1
      cases x with
      | native y =>
        simp only [World.holdings] at hx ⊢
        simp at hx
        refine ⟨h, by simp [World.bankBal, hbk, hself]; exact hx, ?_⟩
        rw [hden]; simp
      | cw20 t =>
        simp only [World.holdings, htok, hself] at hx ⊢
        split at hx
        · rename_i hc
          simp at hx
          simp only [hc, if_true]
          refine ⟨_, rfl, ?_⟩
          rw [hb t w.self, hden]
          by_cases ht : t0 = t
          · subst ht
            by_cases hto : sub.to = w.self
            · simp [hto]; omega
            · simp [hto]; omega
          · have : ¬ Denom.cw20 t0 = Denom.cw20 t := by intro e; cases e; exact ht rfl
            simp [ht, this]; exact hx
        · simp at hx

/-- **C11, exact conservation per transaction** (strengthens solvency's `≥` to an equation on the token
side): for every denomination that exists, `holdings' + paidNow = holdings + escrowNow` — the contract's
real holdings change only by the escrow of an accepted transfer and by a payout / refund sub-message that
went through to somebody else; no other transaction (governance, migration, handshake, refused packet,
swallowed refund, direct hook call) moves a single token of the contract. -/
theorem exec_conservation {w w' : World} {blk : Block} {op : Op} {o : Outcome} (h : w.exec blk op = .ok (w', o))
    (x : Denom) (v : Nat) (hx : w.holdings x = some v) :
    ∃ v', w'.holdings x = some v' ∧ v' + paidNow w.self op o x = v + escrowNow op o x := by
  have same : ∀ {w2 : World}, w2.bank = w.bank → w2.tok = w.tok → w2.self = w.self → w2.tokens = w.tokens →
      w2.holdings x = some v := by
    intro w2 e2 e3 e4 e5; rw [holdings_congr e2 e3 e4 e5 x]; exact hx
  cases op with
  | connect id v' cv ord peer =>
    obtain ⟨_, e2, e3, e4, e5, _, _, hsub, _⟩ := exec_plain_frame h (Or.inl ⟨id, v', cv, ord, peer, rfl⟩)
    exact ⟨v, same e2 e3 e4 e5, by simp [paidNow, escrowNow, hsub]⟩
  | chanOpen v' cv ord => obtain ⟨rfl, rfl⟩ := exec_chanOpen h; exact ⟨v, hx, by simp [paidNow, escrowNow]⟩
  | chanClose id => exact (exec_chanClose h).elim
  | allow snd c gg =>
    obtain ⟨_, e2, e3, e4, e5, _, _, hsub, _⟩ := exec_plain_frame h (Or.inr (Or.inl ⟨snd, c, gg, rfl⟩))
    exact ⟨v, same e2 e3 e4 e5, by simp [paidNow, escrowNow, hsub]⟩
  | updateAdmin snd a =>
    obtain ⟨_, e2, e3, e4, e5, _, _, hsub, _⟩ := exec_plain_frame h (Or.inr (Or.inr ⟨snd, a, rfl⟩))
    exact ⟨v, same e2 e3 e4 e5, by simp [paidNow, escrowNow, hsub]⟩
  | migrate gg =>
    obtain ⟨_, e2, e3, e4, e5, _, hsub, _⟩ := exec_migrate_frame h
    exact ⟨v, same e2 e3 e4 e5, by simp [paidNow, escrowNow, hsub]⟩
  | transferNative snd funds msg =>
    obtain ⟨d, amt, w1, s, out, _, hself, hb, hs', rfl, rfl⟩ := exec_transferNative_spec h
    obtain ⟨ch, _, _, _, _, _, _, rfl, _⟩ := execTransfer_spec hs'
    refine ⟨v + (if Denom.native d = x then amt else 0), ?_, by simp [paidNow, escrowNow]⟩
    rw [holdings_st, bankSend_holdings hself hb x, hx]; rfl
  | sendCw20 snd token amt msg =>
    obtain ⟨w1, m, s, out, hself, _, hb, _, hs', rfl, rfl⟩ := exec_sendCw20_spec h
    obtain ⟨ch, _, _, _, _, _, _, rfl, _⟩ := execTransfer_spec hs'
    refine ⟨v + (if Denom.cw20 token = x then amt else 0), ?_, by simp [paidNow, escrowNow]⟩
    rw [holdings_st, tokSend_holdings hself hb x, hx]; rfl
  | hook snd funds sender amt msg =>
    obtain ⟨m, s, out, _, _, _, rfl, rfl⟩ := exec_hook_spec h
    exact ⟨v, by rw [holdings_st]; exact hx, by simp [paidNow, escrowNow]⟩
  | recv p rv tv f =>
    rcases exec_recv_cases h with ⟨_, rfl, _, hsub⟩ | ⟨s1, sub, hd, hsub, hc⟩
    · exact ⟨v, hx, by simp [paidNow, escrowNow, hsub]⟩
    · rcases hc with ⟨hp, ha⟩ | ⟨_, ha, ra, ch2, _, _, rfl⟩
      · obtain ⟨v', h1, h2⟩ := payout_holdings_eq hp x v (by rw [holdings_st]; exact hx)
        refine ⟨v', h1, ?_⟩
        simp only [paidNow, escrowNow, hsub, ha, beq_self_eq_true, true_and]
        exact h2
      · exact ⟨v, by rw [holdings_st]; exact hx, by simp [paidNow, escrowNow, hsub, ha]⟩
  | ack chan data ackOk sv tv f =>
    rcases exec_ack_cases h with ⟨_, rfl, _, hsub⟩ | ⟨_, s1, sub, hf, hsub, hc⟩
    · exact ⟨v, hx, by simp [paidNow, escrowNow, hsub]⟩
    · rcases hc with ⟨hp, ha⟩ | ⟨_, rfl, ha⟩
      · obtain ⟨v', h1, h2⟩ := payout_holdings_eq hp x v (by rw [holdings_st]; exact hx)
        refine ⟨v', h1, ?_⟩
        simp only [paidNow, escrowNow, hsub, ha, beq_self_eq_true, true_and]
        exact h2
      · exact ⟨v, by rw [holdings_st]; exact hx, by simp [paidNow, escrowNow, hsub, ha]⟩
  | timeout chan data sv tv f =>
    obtain ⟨s1, sub, hf, hsub, hc⟩ := exec_timeout_cases h
    rcases hc with ⟨hp, ha⟩ | ⟨_, rfl, ha⟩
    · obtain ⟨v', h1, h2⟩ := payout_holdings_eq hp x v (by rw [holdings_st]; exact hx)
      refine ⟨v', h1, ?_⟩
      simp only [paidNow, escrowNow, hsub, ha, beq_self_eq_true, true_and]
      exact h2
    · exact ⟨v, by rw [holdings_st]; exact hx, by simp [paidNow, escrowNow, hsub, ha]⟩

/-- Σ over a history of what its successful transactions escrowed resp. paid out of denomination `x`. -/
def escrowTotal (w : World) : List (Block × Op) → Denom → Nat
  | [], _ => 0
  | (blk, op) :: rest, x =>
    (match w.exec blk op with | .ok (_, o) => escrowNow op o x | .error _ => 0) + escrowTotal (w.step blk op) rest x

def paidTotal (w : World) : List (Block × Op) → Denom → Nat
  | [], _ => 0
  | (blk, op) :: rest, x =>
    (match w.exec blk op with | .ok (_, o) => paidNow w.self op o x | .error _ => 0) + paidTotal (w.step blk op) rest x

/-- **C11, conservation over histories**: for every denomination that exists, on every history,
`holdings_end + Σ paid out = holdings_start + Σ escrowed` — tokens enter the contract only with accepted
transfers and leave it only through payout / refund sub-messages that went through. -/
theorem conservation (w : World) (ops : List (Block × Op)) (x : Denom) (v : Nat) (hx : w.holdings x = some v) :
    ∃ v', (run w ops).holdings x = some v' ∧ v' + paidTotal w ops x = v + escrowTotal w ops x := by
  induction ops generalizing w v with
  | nil => exact ⟨v, hx, rfl⟩
  | cons op rest ih =>
    obtain ⟨blk, op⟩ := op
    simp only [run, List.foldl_cons, paidTotal, escrowTotal]
    cases hxe : w.exec blk op with
    | error e =>
      have hw : w.step blk op = w := by unfold World.step; rw [hxe]
      rw [hw]
      obtain ⟨v', h1, h2⟩ := ih w v hx
      exact ⟨v', h1, by simp only [run] at h2 ⊢; omega⟩
    | ok r =>
      obtain ⟨w', o⟩ := r
      have hw : w.step blk op = w' := by unfold World.step; rw [hxe]
      rw [hw]
      obtain ⟨v1, h1, h2⟩ := exec_conservation hxe x v hx
      obtain ⟨v', h3, h4⟩ := ih w' v1 h1
      exact ⟨v', h3, by simp only at h2 ⊢; omega⟩

/-- on the demo history: 90 uatom escrowed, 45 paid out, 45 held -/
example : escrowTotal w0 hist (.native "uatom") = 90 ∧ paidTotal w0 hist (.native "uatom") = 45 ∧
    (run w0 hist).holdings (.native "uatom") = some 45 ∧ w0.holdings (.native "uatom") = some 0 := by decide

end CwPlus.Props.C11
