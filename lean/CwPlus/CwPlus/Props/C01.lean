import CwPlus.Model.Cw20
import CwPlus.Lemmas.Cw20Marketing
import CwPlus.Props.C20
/-!
# C01 — cw20: total supply always equals the sum of all balances

Property theorems only; helper lemmas about maps live in `Base/AMap.lean`.  The statement about the
paged `AllAccounts` listing (`listed_sum`) uses the paging theorems of C20 (`Props/C20.lean`,
`Lemmas/Paginate.lean`); `Props/C20.lean` does not import this file.
-/
namespace CwPlus.Props.C01
open CwPlus CwPlus.Cw20

/-- The invariant: reported supply = Σ balances, and it fits `Uint128`. -/
def Inv (s : State) : Prop := s.supply = AMap.sum s.balances ∧ s.supply ≤ U128_MAX

/-- Histories: any list of (block, sender, message); failed calls roll back. -/
def run (s : State) (ops : List (Block × Addr × Msg)) : State :=
  ops.foldl (fun s op => step s op.1 op.2.1 op.2.2) s

theorem debit_sum {b b' : AMap Addr Nat} {a : Addr} {amt : Nat} (h : debit b a amt = .ok b') :
    AMap.sum b' + amt = AMap.sum b ∧ (b'.get? a).getD 0 + amt = (b.get? a).getD 0
      ∧ ∀ x, x ≠ a → b'.get? x = b.get? x := by
  simp [debit] at h
  obtain ⟨hle, rfl⟩ := h
  have := AMap.sum_set b a ((b.get? a).getD 0 - amt)
  refine ⟨by omega, by simp; omega, ?_⟩
  intro x hx; exact AMap.get?_set_ne _ _ _ _ (Ne.symm hx)

theorem credit_sum {b b' : AMap Addr Nat} {a : Addr} {amt : Nat} (h : credit b a amt = .ok b') :
    AMap.sum b' = AMap.sum b + amt ∧ (b'.get? a).getD 0 = (b.get? a).getD 0 + amt
      ∧ ∀ x, x ≠ a → b'.get? x = b.get? x := by
  simp [credit] at h
  obtain ⟨hle, rfl⟩ := h
  have := AMap.sum_set b a ((b.get? a).getD 0 + amt)
  refine ⟨by omega, by simp, ?_⟩
  intro x hx; exact AMap.get?_set_ne _ _ _ _ (Ne.symm hx)

theorem deduct_frame {s s1 : State} {blk : Block} {o sp : Addr} {amt : Nat}
    (h : deduct s blk o sp amt = .ok s1) : s1.balances = s.balances ∧ s1.supply = s.supply ∧ s1.mint = s.mint := by
  simp [deduct] at h
  obtain ⟨a1, _, a2, _, rfl⟩ := h
  simp

theorem createAccounts_sum (l : List (AddrArg × Nat)) (b : AMap Addr Nat) (t : Nat)
    (hnd : (l.map (·.1.text)).Nodup) (hfresh : ∀ a ∈ l, b.get? a.1.text = none)
    {b' : AMap Addr Nat} {t' : Nat} (h : createAccounts l b t = .ok (b', t')) (hi : t = AMap.sum b ∧ t ≤ U128_MAX) :
    t' = AMap.sum b' ∧ t' ≤ U128_MAX := by
  induction l generalizing b t with
  | nil => simp [createAccounts] at h; obtain ⟨rfl, rfl⟩ := h; exact hi
  | cons p rest ih =>
    obtain ⟨a, amt⟩ := p
    simp [createAccounts] at h
    obtain ⟨_, hle, h⟩ := h
    simp at hnd
    apply ih (b.set a.text amt) (t + amt) hnd.2 _ h
    · have := AMap.sum_set b a.text amt
      have e : b.get? a.text = none := hfresh (a, amt) (by simp)
      simp [e] at this
      omega
    · intro x hx
      have hne : a.text ≠ x.1.text := by
        intro e; exact hnd.1 x.1 x.2 hx e.symm
      rw [AMap.get?_set_ne _ _ _ _ hne]
      exact hfresh x (by simp [hx])

/-- Every accepted instantiation establishes the invariant. -/
theorem instantiate_inv {m : InstMsg} {s : State} (h : instantiate m = .ok s) : Inv s := by
  simp [instantiate] at h
  obtain ⟨_, hnd, b, t, hc, _, w, _, mk, lg, _, rfl⟩ := h
  exact createAccounts_sum m.initial [] 0 hnd (by simp) hc (by simp [U128_MAX])

/-- Every successful call of every message kind preserves the invariant. -/
theorem execute_inv {s s' : State} {blk : Block} {snd : Addr} {msg : Msg} {out : List Out}
    (hi : Inv s) (h : execute s blk snd msg = .ok (s', out)) : Inv s' := by
  unfold Inv at *
  cases msg <;> simp only [execute] at h
  case transfer to amt =>
    simp [execTransfer] at h
    obtain ⟨_, b1, h1, b2, h2, rfl, _⟩ := h
    have := debit_sum h1; have := credit_sum h2
    simp; omega
  case burn amt =>
    simp [execBurn] at h
    obtain ⟨b1, h1, hle, rfl, _⟩ := h
    have := debit_sum h1
    simp; omega
  case send c amt p =>
    simp [execSend] at h
    obtain ⟨_, b1, h1, b2, h2, rfl, _⟩ := h
    have := debit_sum h1; have := credit_sum h2
    simp; omega
  case mint to amt =>
    unfold execMint at h
    split at h
    · simp at h
    · simp at h
      obtain ⟨_, hle, _, _, b, h1, rfl, _⟩ := h
      have := credit_sum h1
      simp; omega
  case updateMinter new =>
    unfold execUpdateMinter at h
    split at h
    · simp at h
    · split at h
      · simp at h; obtain ⟨_, rfl, _⟩ := h; simpa using hi
      · simp at h; obtain ⟨_, _, rfl, _⟩ := h; simpa using hi
  case increaseAllowance sp amt e =>
    simp [execIncreaseAllowance] at h
    obtain ⟨_, _, a1, _, a2, _, rfl, _⟩ := h
    simpa using hi
  case decreaseAllowance sp amt e =>
    unfold execDecreaseAllowance at h
    simp at h
    obtain ⟨_, _, h⟩ := h
    split at h
    · simp at h
    · split at h
      · simp at h; obtain ⟨e', _, rfl, _⟩ := h; simpa using hi
      · simp at h; obtain ⟨rfl, _⟩ := h; simpa using hi
  case transferFrom o to amt =>
    simp [execTransferFrom] at h
    obtain ⟨_, _, s1, hd, b1, h1, b2, h2, rfl, _⟩ := h
    obtain ⟨e1, e2, _⟩ := deduct_frame hd
    rw [e1] at h1
    have := debit_sum h1; have := credit_sum h2
    simp; omega
  case burnFrom o amt =>
    simp [execBurnFrom] at h
    obtain ⟨_, s1, hd, b1, h1, hle, rfl, _⟩ := h
    obtain ⟨e1, e2, _⟩ := deduct_frame hd
    rw [e1] at h1
    have := debit_sum h1
    simp; omega
  case sendFrom o c amt p =>
    simp [execSendFrom] at h
    obtain ⟨_, _, s1, hd, b1, h1, b2, h2, rfl, _⟩ := h
    obtain ⟨e1, e2, _⟩ := deduct_frame hd
    rw [e1] at h1
    have := debit_sum h1; have := credit_sum h2
    simp; omega
  case updateMarketing p d m =>
    obtain ⟨mk, rfl, _⟩ := execUpdateMarketing_frame h
    simpa using hi
  case uploadLogo l =>
    obtain ⟨mk, rfl, _⟩ := execUploadLogo_frame h
    simpa using hi

theorem step_inv {s : State} (blk : Block) (snd : Addr) (msg : Msg) (hi : Inv s) : Inv (step s blk snd msg) := by
  unfold step
  split
  · rename_i s' out h; exact execute_inv hi h
  · exact hi

/-- **C01, main theorem**: after any accepted instantiation and any finite history of execute
messages by any senders with any arguments (failed ones rolled back), supply = Σ balances. -/
theorem reach_inv {m : InstMsg} {s : State} (h : instantiate m = .ok s) (ops : List (Block × Addr × Msg)) :
    Inv (run s ops) := by
  have hi := instantiate_inv h
  clear h
  induction ops generalizing s with
  | nil => exact hi
  | cons op rest ih => exact ih (step_inv op.1 op.2.1 op.2.2 hi)

/-! ## Supply and balance deltas per message kind -/

/-- **C01, delta clause**: what a successful call does to the supply and to the balances, for each of
the message kinds.  `mint` raises the supply and exactly the recipient's balance by `amt`;
`burn` / `burnFrom` lower the supply and exactly the sender's / owner's balance by `amt`; every other
kind (transfers and sends, direct or through an allowance, minter, allowance, marketing and logo
updates) leaves the supply unchanged.  Holds for every state (the invariant is not needed). -/
theorem supply_delta {s s' : State} {blk : Block} {snd : Addr} {msg : Msg} {out : List Out}
    (h : execute s blk snd msg = .ok (s', out)) :
    match msg with
    | .mint to amt =>
        s'.supply = s.supply + amt ∧ bal s' to.text = bal s to.text + amt
          ∧ ∀ x, x ≠ to.text → s'.balances.get? x = s.balances.get? x
    | .burn amt =>
        s'.supply + amt = s.supply ∧ bal s' snd + amt = bal s snd
          ∧ ∀ x, x ≠ snd → s'.balances.get? x = s.balances.get? x
    | .burnFrom o amt =>
        s'.supply + amt = s.supply ∧ bal s' o.text + amt = bal s o.text
          ∧ ∀ x, x ≠ o.text → s'.balances.get? x = s.balances.get? x
    | _ => s'.supply = s.supply := by
  cases msg <;> simp only [execute] at h <;> simp only []
  case transfer to amt =>
    simp [execTransfer] at h
    obtain ⟨_, b1, h1, b2, h2, rfl, _⟩ := h
    rfl
  case burn amt =>
    simp [execBurn] at h
    obtain ⟨b1, h1, hle, rfl, _⟩ := h
    obtain ⟨_, hb, hf⟩ := debit_sum h1
    exact ⟨by simp; omega, by simpa [bal] using hb, hf⟩
  case send c amt p =>
    simp [execSend] at h
    obtain ⟨_, b1, h1, b2, h2, rfl, _⟩ := h
    rfl
  case mint to amt =>
    unfold execMint at h
    split at h
    · simp at h
    · simp at h
      obtain ⟨_, hle, _, _, b, h1, rfl, _⟩ := h
      obtain ⟨_, hb, hf⟩ := credit_sum h1
      exact ⟨by simp, by simpa [bal] using hb, hf⟩
  case updateMinter new =>
    unfold execUpdateMinter at h
    split at h
    · simp at h
    · split at h
      · simp at h; obtain ⟨_, rfl, _⟩ := h; rfl
      · simp at h; obtain ⟨_, _, rfl, _⟩ := h; rfl
  case increaseAllowance sp amt e =>
    simp [execIncreaseAllowance] at h
    obtain ⟨_, _, a1, _, a2, _, rfl, _⟩ := h
    rfl
  case decreaseAllowance sp amt e =>
    unfold execDecreaseAllowance at h
    simp at h
    obtain ⟨_, _, h⟩ := h
    split at h
    · simp at h
    · split at h
      · simp at h; obtain ⟨e', _, rfl, _⟩ := h; rfl
      · simp at h; obtain ⟨rfl, _⟩ := h; rfl
  case transferFrom o to amt =>
    simp [execTransferFrom] at h
    obtain ⟨_, _, s1, hd, b1, h1, b2, h2, rfl, _⟩ := h
    exact (deduct_frame hd).2.1
  case burnFrom o amt =>
    simp [execBurnFrom] at h
    obtain ⟨_, s1, hd, b1, h1, hle, rfl, _⟩ := h
    obtain ⟨e1, e2, _⟩ := deduct_frame hd
    rw [e1] at h1; rw [e2] at hle
    obtain ⟨_, hb, hf⟩ := debit_sum h1
    exact ⟨by simp; omega, by simpa [bal] using hb, hf⟩
  case sendFrom o c amt p =>
    simp [execSendFrom] at h
    obtain ⟨_, _, s1, hd, b1, h1, b2, h2, rfl, _⟩ := h
    exact (deduct_frame hd).2.1
  case updateMarketing p d m =>
    obtain ⟨mk, rfl, _⟩ := execUpdateMarketing_frame h
    rfl
  case uploadLogo l =>
    obtain ⟨mk, rfl, _⟩ := execUploadLogo_frame h
    rfl

/-! ## Only a mint raises, only a burn lowers; the history ledger -/

/-- **C01, "only a successful mint raises the supply"**: a successful call after which the supply is higher
was a `mint`, and the supply rose by exactly its amount.  (That the sender was the stored minter is
`C13.mint_only_minter`.) -/
theorem supply_raised_only_by_mint {s s' : State} {blk : Block} {snd : Addr} {msg : Msg} {out : List Out}
    (h : execute s blk snd msg = .ok (s', out)) (hlt : s.supply < s'.supply) :
    ∃ to amt, msg = .mint to amt ∧ s'.supply = s.supply + amt := by
  have hd := supply_delta h
  cases msg <;> simp only [] at hd
  case mint to amt => exact ⟨to, amt, rfl, hd.1⟩
  case burn amt => have := hd.1; omega
  case burnFrom o amt => have := hd.1; omega
  all_goals omega

/-- **C01, "only a successful burn lowers the supply"**: a successful call after which the supply is lower was
a `burn` by the sender or a `burnFrom` through an allowance, and the supply fell by exactly its amount. -/
theorem supply_lowered_only_by_burn {s s' : State} {blk : Block} {snd : Addr} {msg : Msg} {out : List Out}
    (h : execute s blk snd msg = .ok (s', out)) (hlt : s'.supply < s.supply) :
    (∃ amt, msg = .burn amt ∧ s'.supply + amt = s.supply)
    ∨ (∃ o amt, msg = .burnFrom o amt ∧ s'.supply + amt = s.supply) := by
  have hd := supply_delta h
  cases msg <;> simp only [] at hd
  case mint to amt => have := hd.1; omega
  case burn amt => exact Or.inl ⟨amt, rfl, hd.1⟩
  case burnFrom o amt => exact Or.inr ⟨o, amt, rfl, hd.1⟩
  all_goals omega

/-- Ghost: what one transaction of a history mints (the amount of a *successful* `mint`, else 0). -/
def mintedAt (s : State) (op : Block × Addr × Msg) : Nat :=
  match op.2.2 with
  | .mint _ amt => if (execute s op.1 op.2.1 op.2.2).isOk then amt else 0
  | _ => 0

/-- Ghost: what one transaction of a history burns (the amount of a *successful* `burn` / `burnFrom`). -/
def burnedAt (s : State) (op : Block × Addr × Msg) : Nat :=
  match op.2.2 with
  | .burn amt => if (execute s op.1 op.2.1 op.2.2).isOk then amt else 0
  | .burnFrom _ amt => if (execute s op.1 op.2.1 op.2.2).isOk then amt else 0
  | _ => 0

/-- Ghost: total amount minted by the successful `mint` calls of a history run from `s`. -/
def minted (s : State) : List (Block × Addr × Msg) → Nat
  | [] => 0
  | op :: rest => mintedAt s op + minted (step s op.1 op.2.1 op.2.2) rest

/-- Ghost: total amount burned by the successful `burn` / `burnFrom` calls of a history run from `s`. -/
def burned (s : State) : List (Block × Addr × Msg) → Nat
  | [] => 0
  | op :: rest => burnedAt s op + burned (step s op.1 op.2.1 op.2.2) rest

set_option linter.unusedSimpArgs false in
/-- One transaction (committed or rolled back) moves the supply by exactly what it minted and burned. -/
theorem step_ledger (s : State) (op : Block × Addr × Msg) :
    (step s op.1 op.2.1 op.2.2).supply + burnedAt s op = s.supply + mintedAt s op := by
  obtain ⟨blk, snd, msg⟩ := op
  unfold step mintedAt burnedAt
  cases h : execute s blk snd msg with
  | error e => cases msg <;> simp [h, Res.isOk]
  | ok r =>
    obtain ⟨s', out⟩ := r
    have hd := supply_delta h
    cases msg <;> simp only [] at hd <;> simp [h, Res.isOk] <;> omega

/-- **C01, history ledger**: over any history from any state, `supply + burned = initial supply + minted`:
the supply is moved by the successful mints and burns, by exactly their amounts, and by nothing else
(transfers, sends, draws, allowance/minter/marketing updates and failed calls contribute nothing). -/
theorem supply_ledger (s : State) (ops : List (Block × Addr × Msg)) :
    (run s ops).supply + burned s ops = s.supply + minted s ops := by
  induction ops generalizing s with
  | nil => rfl
  | cons op rest ih =>
    have h1 := step_ledger s op
    have h2 := ih (step s op.1 op.2.1 op.2.2)
    show (run (step s op.1 op.2.1 op.2.2) rest).supply + (burnedAt s op + burned (step s op.1 op.2.1 op.2.2) rest)
      = s.supply + (mintedAt s op + minted (step s op.1 op.2.1 op.2.2) rest)
    omega

/-- The ledger for the tokens that exist: after an accepted instantiation and any history,
`Σ balances + burned = initial Σ balances + minted`. -/
theorem circulation_ledger {m : InstMsg} {s : State} (h : instantiate m = .ok s) (ops : List (Block × Addr × Msg)) :
    AMap.sum (run s ops).balances + burned s ops = AMap.sum s.balances + minted s ops := by
  have h1 := (reach_inv h ops).1
  have h2 := (instantiate_inv h).1
  have := supply_ledger s ops
  omega

/-- A history without a successful mint never raises the supply; one without a successful burn never
lowers it. -/
theorem supply_monotone_without {s : State} (ops : List (Block × Addr × Msg)) :
    (minted s ops = 0 → (run s ops).supply ≤ s.supply) ∧ (burned s ops = 0 → s.supply ≤ (run s ops).supply) := by
  have := supply_ledger s ops
  constructor <;> intro h0 <;> omega

/-- Handler level: a `burn` fails only for lack of funds (under the invariant the supply subtraction cannot
underflow, because the balance is part of the supply). -/
theorem burn_ok_iff {s : State} {snd : Addr} {amt : Nat} (hi : Inv s) :
    (∃ r, execBurn s snd amt = .ok r) ↔ amt ≤ bal s snd := by
  constructor
  · rintro ⟨r, h⟩
    simp [execBurn, debit] at h
    simpa [bal] using h.1
  · intro hle
    have hb := AMap.get?_le_sum s.balances snd
    have hs : amt ≤ s.supply := by rw [hi.1]; unfold bal at hle; omega
    exact ⟨_, by simp [execBurn, debit]; exact ⟨by simpa [bal] using hle, hs, rfl⟩⟩

/-! ## The unchecked `+` of the credit step cannot panic -/

/-- **C01, bonus**: under the invariant, the `credit` (`balance + amount`, which panics on overflow
in the Rust code) after a successful `debit` of the same amount can never fail: what was debited
plus what any account holds is at most the supply, which fits `Uint128`. -/
theorem credit_cannot_overflow {s : State} {a r : Addr} {amt : Nat} {b1 : AMap Addr Nat}
    (hi : Inv s) (h : debit s.balances a amt = .ok b1) : ∃ b2, credit b1 r amt = .ok b2 := by
  obtain ⟨hsum, _, _⟩ := debit_sum h
  have := AMap.get?_le_sum b1 r
  obtain ⟨h1, h2⟩ := hi
  refine ⟨b1.set r ((b1.get? r).getD 0 + amt), ?_⟩
  simp [credit]
  omega

/-- The same for the `*From` handlers: `deduct_allowance` does not touch balances or supply, so the
credit after `deduct` + `debit` cannot fail either. -/
theorem credit_cannot_overflow_from {s s1 : State} {blk : Block} {o sp r : Addr} {amt : Nat} {b1 : AMap Addr Nat}
    (hi : Inv s) (hd : deduct s blk o sp amt = .ok s1) (h : debit s1.balances o amt = .ok b1) :
    ∃ b2, credit b1 r amt = .ok b2 := by
  obtain ⟨e1, e2, _⟩ := deduct_frame hd
  exact credit_cannot_overflow (s := s1) (by unfold Inv at *; rw [e1, e2]; exact hi) h

/-- Handler level: a `transfer` to a valid address fails only for lack of funds. -/
theorem transfer_ok_iff {s : State} {snd : Addr} {to : AddrArg} {amt : Nat} (hi : Inv s) :
    (∃ r, execTransfer s snd to amt = .ok r) ↔ (to.valid = true ∧ amt ≤ bal s snd) := by
  constructor
  · rintro ⟨r, h⟩
    simp [execTransfer, debit] at h
    exact ⟨h.1, by simpa [bal] using h.2.1⟩
  · rintro ⟨hv, hle⟩
    have hd : debit s.balances snd amt = .ok (s.balances.set snd ((s.balances.get? snd).getD 0 - amt)) := by
      simp [debit]; simpa [bal] using hle
    obtain ⟨b2, h2⟩ := credit_cannot_overflow (r := to.text) hi hd
    exact ⟨({ s with balances := b2 }, []), by simp [execTransfer, hv, hd, h2]⟩

/-- Handler level: a `send` to a valid address fails only for lack of funds. -/
theorem send_ok_iff {s : State} {snd : Addr} {c : AddrArg} {amt : Nat} {p : String} (hi : Inv s) :
    (∃ r, execSend s snd c amt p = .ok r) ↔ (c.valid = true ∧ amt ≤ bal s snd) := by
  constructor
  · rintro ⟨r, h⟩
    simp [execSend, debit] at h
    exact ⟨h.1, by simpa [bal] using h.2.1⟩
  · rintro ⟨hv, hle⟩
    have hd : debit s.balances snd amt = .ok (s.balances.set snd ((s.balances.get? snd).getD 0 - amt)) := by
      simp [debit]; simpa [bal] using hle
    obtain ⟨b2, h2⟩ := credit_cannot_overflow (r := c.text) hi hd
    exact ⟨({ s with balances := b2 }, [⟨c.text, snd, amt, p⟩]), by simp [execSend, hv, hd, h2]⟩

/-- Handler level: once the allowance was deducted and the owner debited, `transferFrom` succeeds. -/
theorem transferFrom_credit_ok {s s1 : State} {blk : Block} {snd : Addr} {o to : AddrArg} {amt : Nat}
    {b1 : AMap Addr Nat} (hi : Inv s) (hto : to.valid = true) (ho : o.valid = true)
    (hd : deduct s blk o.text snd amt = .ok s1) (h : debit s1.balances o.text amt = .ok b1) :
    ∃ r, execTransferFrom s blk snd o to amt = .ok r := by
  obtain ⟨b2, h2⟩ := credit_cannot_overflow_from (r := to.text) hi hd h
  exact ⟨({ s1 with balances := b2 }, []), by simp [execTransferFrom, hto, ho, hd, h, h2]⟩

/-- Handler level: once the allowance was deducted and the owner debited, `sendFrom` succeeds. -/
theorem sendFrom_credit_ok {s s1 : State} {blk : Block} {snd : Addr} {o c : AddrArg} {amt : Nat} {p : String}
    {b1 : AMap Addr Nat} (hi : Inv s) (hc : c.valid = true) (ho : o.valid = true)
    (hd : deduct s blk o.text snd amt = .ok s1) (h : debit s1.balances o.text amt = .ok b1) :
    ∃ r, execSendFrom s blk snd o c amt p = .ok r := by
  obtain ⟨b2, h2⟩ := credit_cannot_overflow_from (r := c.text) hi hd h
  exact ⟨({ s1 with balances := b2 }, [⟨c.text, snd, amt, p⟩]), by simp [execSendFrom, hc, ho, hd, h, h2]⟩

/-! ## Failed calls -/

/-- **C01, rollback clause**: a call that fails leaves the state exactly as it was (this is the
definition of `step`: the runtime discards the writes of a failing transaction). -/
theorem failed_call_changes_nothing {s : State} {blk : Block} {snd : Addr} {msg : Msg} {e : String}
    (h : execute s blk snd msg = .error e) : step s blk snd msg = s := by
  simp [step, h]

/-! ## The listed accounts: supply = Σ `Balance` over the complete `AllAccounts` listing -/

/-- `TokenInfo.total_supply` as the query reports it: the stored `TOKEN_INFO.total_supply` (the
driver renders `obs.supply` from this field). -/
def queryTotalSupply (s : State) : Nat := s.supply

/-- What a client reads with `Balance { address }` for a listed (hence valid) address. -/
def balanceOf (s : State) (a : Addr) : Nat :=
  match queryBalance s ⟨true, a⟩ with
  | .ok n => n
  | .error _ => 0

theorem balanceOf_eq (s : State) (a : Addr) : queryBalance s ⟨true, a⟩ = .ok (balanceOf s a) ∧ balanceOf s a = bal s a := by
  simp [balanceOf, queryBalance, check, bind, Except.bind, pure, Except.pure]

/-- `run` of this file and of `Props/C20.lean` are the same function. -/
theorem run_eq_C20 (s : State) (ops : List (Block × Addr × Msg)) : run s ops = CwPlus.Props.C20.run s ops := rfl

/-- In a state whose balance map has no repeated key, the `Balance` answers over the complete sorted
listing add up to the sum of the map. -/
theorem sum_listed_eq {s : State} (hn : AMap.NodupKeys s.balances) :
    ((((Paginate.sortedEntries Paginate.strLt s.balances).map (·.1))).map (balanceOf s)).sum = AMap.sum s.balances := by
  rw [← Paginate.sum_sortedEntries Paginate.strLt s.balances, List.map_map]
  unfold AMap.sum
  congr 1
  apply List.map_congr_left
  intro e he
  obtain ⟨k, v⟩ := e
  have := (Paginate.mem_sortedEntries_iff_get? Paginate.strLt hn k v).mp he
  simp [(balanceOf_eq s k).2, bal, this]

/-- **C01 "the total supply it reports equals the sum of the balances of all accounts it lists"**:
after any accepted instantiation and any history, page through `AllAccounts` to completion — any
`limit ≠ 0` (absent, small, or above the maximum), each page requested with the last returned
address as `start_after`, until an empty page comes back — and add up `Balance` over the addresses
obtained: the result is exactly `TokenInfo.total_supply`.  (By C20 the listing so obtained contains
every account with a balance entry exactly once, in ascending order; `fuel` only bounds the number of
page requests and any `fuel > number of accounts` suffices.) -/
theorem listed_sum {m : InstMsg} {s0 : State} (h : instantiate m = .ok s0) (ops : List (Block × Addr × Msg))
    (limit : Option Nat) (hl : limit ≠ some 0) {fuel : Nat} (hf : (run s0 ops).balances.length + 1 ≤ fuel) :
    ((Paginate.fetchLoop (fun c => queryAllAccounts (run s0 ops) c limit) id none fuel).map
        (balanceOf (run s0 ops))).sum = queryTotalSupply (run s0 ops) := by
  have hn : AMap.NodupKeys (run s0 ops).balances := by
    rw [run_eq_C20]; exact (CwPlus.Props.C20.reach_nodup h ops).balances
  rw [CwPlus.Props.C20.all_accounts_complete hn limit hl hf, sum_listed_eq hn]
  exact (reach_inv h ops).1.symm

/-- … and every address of that listing answers the `Balance` query with its stored balance. -/
theorem listed_balance_answers (s : State) (a : Addr) : queryBalance s ⟨true, a⟩ = .ok (balanceOf s a) :=
  (balanceOf_eq s a).1

/-! ## Non-vacuity: the hypotheses are satisfiable on a concrete, non-trivial history -/

/-- An instantiate message with two funded accounts, an empty account and a capped minter. -/
def exInst : InstMsg :=
  { name := "Token", symbol := "TKN", decimals := 6,
    initial := [(⟨true, "alice"⟩, 100), (⟨true, "bob"⟩, 25), (⟨true, "carol"⟩, 0)],
    mint := some (⟨true, "minter"⟩, some 1000) }

def exState : State :=
  { supply := 125, mint := some ⟨"minter", some 1000⟩,
    balances := [("alice", 100), ("bob", 25), ("carol", 0)],
    allow := [], allowSp := [], version := ⟨CONTRACT_NAME, 2, 0, 0, none⟩ }

def exBlk : Block := ⟨100, 5000⟩

/-- transfer, mint, allowance grant, draw through the allowance, burn, self-transfer, and two failing
calls (overdraft, mint by a stranger). -/
def exOps : List (Block × Addr × Msg) :=
  [ (exBlk, "alice", .transfer ⟨true, "bob"⟩ 40),
    (exBlk, "minter", .mint ⟨true, "dave"⟩ 500),
    (exBlk, "alice", .increaseAllowance ⟨true, "bob"⟩ 30 none),
    (exBlk, "bob", .transferFrom ⟨true, "alice"⟩ ⟨true, "carol"⟩ 30),
    (exBlk, "bob", .burn 5),
    (exBlk, "dave", .transfer ⟨true, "dave"⟩ 500),
    (exBlk, "carol", .transfer ⟨true, "bob"⟩ 31),
    (exBlk, "bob", .mint ⟨true, "bob"⟩ 1) ]

/-- `reach_inv`'s hypothesis holds for `exInst`: it is accepted, with the expected state. -/
example : instantiate exInst = .ok exState := by rfl

/-- The history really moves tokens: supply 125 → 620, four non-zero balances, and the invariant's
two sides are both 620. -/
example : (run exState exOps).supply = 620 ∧ AMap.sum (run exState exOps).balances = 620
    ∧ (run exState exOps).balances = [("alice", 30), ("bob", 60), ("carol", 30), ("dave", 500)] := by
  decide

/-- The two failing calls of the history do fail (and the others succeed). -/
example : (execute (run exState (exOps.take 6)) exBlk "carol" (.transfer ⟨true, "bob"⟩ 31)).isOk = false
    ∧ (execute (run exState (exOps.take 6)) exBlk "bob" (.mint ⟨true, "bob"⟩ 1)).isOk = false
    ∧ (execute exState exBlk "alice" (.transfer ⟨true, "bob"⟩ 40)).isOk = true := by
  decide

example : Inv (run exState exOps) := reach_inv (m := exInst) rfl exOps

/-- non-vacuity of `listed_sum`: paging the four accounts of the example history two at a time (three
requests: two full pages and the empty one) lists all of them, and their balances add up to the
reported supply 620 -/
example : Paginate.fetchLoop (fun c => queryAllAccounts (run exState exOps) c (some 2)) id none 5 = ["alice", "bob", "carol", "dave"] ∧
    (["alice", "bob", "carol", "dave"].map (balanceOf (run exState exOps))).sum = 620 ∧
    queryTotalSupply (run exState exOps) = 620 := by
  have hb : (run exState exOps).balances = [("alice", 30), ("bob", 60), ("carol", 30), ("dave", 500)] := by decide
  have hs : Paginate.sortedEntries Paginate.strLt (run exState exOps).balances =
      [("alice", 30), ("bob", 60), ("carol", 30), ("dave", 500)] := by
    rw [hb]; exact Paginate.sortedEntries_of_sorted Paginate.strictTotal_strLt (by unfold Paginate.Sorted; decide)
  refine ⟨?_, by decide, by decide⟩
  simp only [queryAllAccounts, hs]; decide

example : ((Paginate.fetchLoop (fun c => queryAllAccounts (run exState exOps) c (some 2)) id none 5).map
      (balanceOf (run exState exOps))).sum = queryTotalSupply (run exState exOps) :=
  listed_sum (m := exInst) rfl exOps (some 2) (by decide) (by decide)


/-! ### Non-vacuity of the ledger and the only-mint / only-burn theorems -/

/-- The example history mints 500 and burns 5 (the failing mint by bob counts for nothing):
125 + 500 = 620 + 5. -/
example : minted exState exOps = 500 := by rfl
example : burned exState exOps = 5 := by rfl
example : (run exState exOps).supply + burned exState exOps = exState.supply + minted exState exOps :=
  supply_ledger exState exOps
/-- hypotheses of `supply_raised_only_by_mint` / `supply_lowered_only_by_burn` are satisfiable -/
example : ∃ s' out, execute exState exBlk "minter" (.mint ⟨true, "dave"⟩ 50) = .ok (s', out) ∧ exState.supply < s'.supply :=
  ⟨_, _, rfl, by decide⟩
example : ∃ s' out, execute exState exBlk "bob" (.burn 5) = .ok (s', out) ∧ s'.supply < exState.supply :=
  ⟨_, _, rfl, by decide⟩
/-- a burn through an allowance lowers the supply too (second disjunct) -/
example : ∃ s' out, execute (run exState (exOps.take 3)) exBlk "bob" (.burnFrom ⟨true, "alice"⟩ 30) = .ok (s', out)
    ∧ s'.supply < (run exState (exOps.take 3)).supply := ⟨_, _, rfl, by decide⟩
example : (∃ r, execBurn exState "bob" 25 = .ok r) ∧ ¬ (∃ r, execBurn exState "bob" 26 = .ok r) :=
  ⟨(burn_ok_iff (reach_inv (m := exInst) rfl [])).mpr (by decide),
   fun h => absurd ((burn_ok_iff (reach_inv (m := exInst) rfl [])).mp h) (by decide)⟩

end CwPlus.Props.C01
