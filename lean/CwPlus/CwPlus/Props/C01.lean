import CwPlus.Model.Cw20
/-!
# C01 — cw20: total supply always equals the sum of all balances

Property theorems only; helper lemmas about maps live in `Base/AMap.lean`.
-/
namespace CwPlus.Props.C01
open CwPlus CwPlus.Cw20

/-- The invariant: reported supply = Σ balances, and it fits `Uint128`. -/
def Inv (s : State) : Prop := s.supply = AMap.sum s.balances ∧ s.supply ≤ U128_MAX

/-- Histories: any list of (block, sender, message); failed calls roll back. -/
def run (s : State) (ops : List (Block × Addr × Msg)) : State :=
  ops.foldl (fun s op => step s op.1 op.2.1 op.2.2) s

theorem debit_sum {b b' : AMap Addr Nat} {a : Addr} {amt : Nat} (h : debit b a amt = .ok b') :
    AMap.sum b' + amt = AMap.sum b ∧ (b'.get? a).getD 0 + amt = (b.get? a).getD 0
      ∧ ∀ x, x ≠ a → b'.get? x = b.get? x := by
  simp [debit] at h
  obtain ⟨hle, rfl⟩ := h
  have := AMap.sum_set b a ((b.get? a).getD 0 - amt)
  refine ⟨by omega, by simp; omega, ?_⟩
  intro x hx; exact AMap.get?_set_ne _ _ _ _ (Ne.symm hx)

theorem credit_sum {b b' : AMap Addr Nat} {a : Addr} {amt : Nat} (h : credit b a amt = .ok b') :
    AMap.sum b' = AMap.sum b + amt ∧ (b'.get? a).getD 0 = (b.get? a).getD 0 + amt
      ∧ ∀ x, x ≠ a → b'.get? x = b.get? x := by
  simp [credit] at h
  obtain ⟨hle, rfl⟩ := h
  have := AMap.sum_set b a ((b.get? a).getD 0 + amt)
  refine ⟨by omega, by simp, ?_⟩
  intro x hx; exact AMap.get?_set_ne _ _ _ _ (Ne.symm hx)

theorem deduct_frame {s s1 : State} {blk : Block} {o sp : Addr} {amt : Nat}
    (h : deduct s blk o sp amt = .ok s1) : s1.balances = s.balances ∧ s1.supply = s.supply ∧ s1.mint = s.mint := by
  simp [deduct] at h
  obtain ⟨a1, _, a2, _, rfl⟩ := h
  simp

theorem createAccounts_sum (l : List (AddrArg × Nat)) (b : AMap Addr Nat) (t : Nat)
    (hnd : (l.map (·.1.text)).Nodup) (hfresh : ∀ a ∈ l, b.get? a.1.text = none)
    {b' : AMap Addr Nat} {t' : Nat} (h : createAccounts l b t = .ok (b', t')) (hi : t = AMap.sum b ∧ t ≤ U128_MAX) :
    t' = AMap.sum b' ∧ t' ≤ U128_MAX := by
  induction l generalizing b t with
  | nil => simp [createAccounts] at h; obtain ⟨rfl, rfl⟩ := h; exact hi
  | cons p rest ih =>
    obtain ⟨a, amt⟩ := p
    simp [createAccounts] at h
    obtain ⟨_, hle, h⟩ := h
    simp at hnd
    apply ih (b.set a.text amt) (t + amt) hnd.2 _ h
    · have := AMap.sum_set b a.text amt
      have e : b.get? a.text = none := hfresh (a, amt) (by simp)
      simp [e] at this
      omega
    · intro x hx
      have hne : a.text ≠ x.1.text := by
        intro e; exact hnd.1 x.1 x.2 hx e.symm
      rw [AMap.get?_set_ne _ _ _ _ hne]
      exact hfresh x (by simp [hx])

/-- Every accepted instantiation establishes the invariant. -/
theorem instantiate_inv {m : InstMsg} {s : State} (h : instantiate m = .ok s) : Inv s := by
  simp [instantiate] at h
  obtain ⟨_, hnd, b, t, hc, _, w, _, rfl⟩ := h
  exact createAccounts_sum m.initial [] 0 hnd (by simp) hc (by simp [U128_MAX])

/-- Every successful call of every message kind preserves the invariant. -/
theorem execute_inv {s s' : State} {blk : Block} {snd : Addr} {msg : Msg} {out : List Out}
    (hi : Inv s) (h : execute s blk snd msg = .ok (s', out)) : Inv s' := by
  unfold Inv at *
  cases msg <;> simp only [execute] at h
  case transfer to amt =>
    simp [execTransfer] at h
    obtain ⟨_, b1, h1, b2, h2, rfl, _⟩ := h
    have := debit_sum h1; have := credit_sum h2
    simp; omega
  case burn amt =>
    simp [execBurn] at h
    obtain ⟨b1, h1, hle, rfl, _⟩ := h
    have := debit_sum h1
    simp; omega
  case send c amt p =>
    simp [execSend] at h
    obtain ⟨_, b1, h1, b2, h2, rfl, _⟩ := h
    have := debit_sum h1; have := credit_sum h2
    simp; omega
  case mint to amt =>
    unfold execMint at h
    split at h
    · simp at h
    · simp at h
      obtain ⟨_, hle, _, _, b, h1, rfl, _⟩ := h
      have := credit_sum h1
      simp; omega
  case updateMinter new =>
    unfold execUpdateMinter at h
    split at h
    · simp at h
    · split at h
      · simp at h; obtain ⟨_, rfl, _⟩ := h; simpa using hi
      · simp at h; obtain ⟨_, _, rfl, _⟩ := h; simpa using hi
  case increaseAllowance sp amt e =>
    simp [execIncreaseAllowance] at h
    obtain ⟨_, _, a1, _, a2, _, rfl, _⟩ := h
    simpa using hi
  case decreaseAllowance sp amt e =>
    unfold execDecreaseAllowance at h
    simp at h
    obtain ⟨_, _, h⟩ := h
    split at h
    · simp at h
    · split at h
      · simp at h; obtain ⟨e', _, rfl, _⟩ := h; simpa using hi
      · simp at h; obtain ⟨rfl, _⟩ := h; simpa using hi
  case transferFrom o to amt =>
    simp [execTransferFrom] at h
    obtain ⟨_, _, s1, hd, b1, h1, b2, h2, rfl, _⟩ := h
    obtain ⟨e1, e2, _⟩ := deduct_frame hd
    rw [e1] at h1
    have := debit_sum h1; have := credit_sum h2
    simp; omega
  case burnFrom o amt =>
    simp [execBurnFrom] at h
    obtain ⟨_, s1, hd, b1, h1, hle, rfl, _⟩ := h
    obtain ⟨e1, e2, _⟩ := deduct_frame hd
    rw [e1] at h1
    have := debit_sum h1
    simp; omega
  case sendFrom o c amt p =>
    simp [execSendFrom] at h
    obtain ⟨_, _, s1, hd, b1, h1, b2, h2, rfl, _⟩ := h
    obtain ⟨e1, e2, _⟩ := deduct_frame hd
    rw [e1] at h1
    have := debit_sum h1; have := credit_sum h2
    simp; omega

theorem step_inv {s : State} (blk : Block) (snd : Addr) (msg : Msg) (hi : Inv s) : Inv (step s blk snd msg) := by
  unfold step
  split
  · rename_i s' out h; exact execute_inv hi h
  · exact hi

/-- **C01, main theorem**: after any accepted instantiation and any finite history of execute
messages by any senders with any arguments (failed ones rolled back), supply = Σ balances. -/
theorem reach_inv {m : InstMsg} {s : State} (h : instantiate m = .ok s) (ops : List (Block × Addr × Msg)) :
    Inv (run s ops) := by
  have hi := instantiate_inv h
  clear h
  induction ops generalizing s with
  | nil => exact hi
  | cons op rest ih => exact ih (step_inv op.1 op.2.1 op.2.2 hi)

end CwPlus.Props.C01
