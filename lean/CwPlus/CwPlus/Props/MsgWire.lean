import CwPlus.Lemmas.MsgWire
import CwPlus.Props.C02
import CwPlus.Props.C14
import CwPlus.Props.C14Stake
/-!
# The JSON messages sent to other contracts, byte for byte (part of C02 and C14)

`Model/MsgWire.lean` is a byte-level model of what `to_json_binary` writes for `Cw20ReceiveMsg` (the notification of
`Send` / `SendFrom`), `MemberChangedHookMsg` (the cw4 membership hooks) and the cw20 `Transfer` / `TransferFrom`
payloads, and of what a receiver built with the same libraries reads.  This file proves

* `b64_roundtrip`: `Binary::from_base64(b.to_base64()) = b` for **every** byte string;
* `decode_encode_receive`, `encodeReceive_injective`, `isText_encodeReceive`, `encodeReceive_envelope`: the
  notification is read back exactly — every sender text, every amount below 2^128, every payload —, different
  notifications have different bytes, the bytes are UTF-8 and have exactly the outer key `receive`;
* `decode_encode_hook`, `encodeHook_injective`, `isText_encodeHook`, `encodeHook_envelope`: the same for hook
  messages with any number of diffs, every key text, every weight below 2^64 or absent;
* `receive_ne_hook`: the two kinds of message never collide;
* `send_emits_encoded_receive` (C02): a successful `Send` / `SendFrom` of the cw20 model emits exactly one message,
  to the named contract, whose bytes are `encodeReceive ⟨caller, amount, payload⟩`, and these bytes decode to
  exactly that; every other call emits no bytes at all;
* `updateMembers_emits_encoded_hooks` (C14, cw4-group): every registered hook, in order, receives the bytes
  `encodeHook diffs` of the true diffs; `updateMembers_hooks_decodable`: under the range invariant of the member
  table they decode to those diffs;
* `stake_hooks_encoded` (C14, cw4-stake): every message a bond / unbond emits is a hook message whose bytes are
  `encodeHook [⟨staker, old weight, new weight⟩]`; `claim_transfer_encoded`: the cw20 payout of a claim is
  `encodeTransfer`.

The tie: the harness prints the real `WasmMsg::Execute.msg` bytes (`raw=`, `hookraw=`, `xferraw=`), the driver
renders the same keys with the encoders below; they are compared after every op (`corpus/C02/msgwire_directed.ops`
carries senders and payloads that need every escape and every padding).
-/
namespace CwPlus.Props.MsgWire
open CwPlus CwPlus.Json CwPlus.MsgWire

/-! ## base64 -/

/-- **b64_roundtrip**: `Binary::from_base64(binary.to_base64()) = Ok(binary)` for every byte string — the encoder
pads, the decoder (`DecodePaddingMode::Indifferent`, trailing bits refused) accepts the padded form and returns
the bytes. -/
theorem b64_roundtrip (bs : Bytes) : b64Dec (b64Enc bs) = some bs := b64Dec_b64Enc bs

/-- base64 is injective -/
theorem b64Enc_injective (a b : Bytes) (h : b64Enc a = b64Enc b) : a = b := by
  have := b64_roundtrip a
  rw [h, b64_roundtrip b] at this
  injection this with this; exact this.symm

set_option maxRecDepth 1000000 in
example : bytesToString (b64Enc (strBytes "{\"k\":1}")) = "eyJrIjoxfQ==" := by decide
set_option maxRecDepth 1000000 in
example : bytesToString (b64Enc (strBytes "ab")) = "YWI=" := by decide
set_option maxRecDepth 1000000 in
example : bytesToString (b64Enc [0xfb, 0xff, 0xfe]) = "+//+" := by decide
set_option maxRecDepth 1000000 in
example : b64Enc [] = [] := rfl
set_option maxRecDepth 1000000 in
/-- the decoder accepts what the real one accepts: missing padding is fine, trailing bits are not -/
example : b64Dec (strBytes "YWI") = some (strBytes "ab") ∧ b64Dec (strBytes "YWJ=") = none ∧
    b64Dec (strBytes "Y") = none ∧ b64Dec (strBytes "YW=I") = none := by decide

/-! ## `Cw20ReceiveMsg` -/

/-- The notifications for which the round trip is proved: the amount is a `Uint128`; every sender text (all of
Unicode, control characters, quotes, backslashes) and every payload are supported. -/
def SupportedReceive (m : Receive) : Prop := m.amount < 2 ^ 128

instance (m : Receive) : Decidable (SupportedReceive m) := inferInstanceAs (Decidable (_ < _))

private theorem recv_sender (acc : RecvAcc) (s : String) (rest : Bytes) (ha : acc.sender = none) :
    recvFieldValue acc "sender" (encStr s ++ rest) = .ok ({ acc with sender := some s }, rest) := by
  simp [recvFieldValue, ha, parseStringValue_encStr]

private theorem recv_amount (acc : RecvAcc) (n : Nat) (rest : Bytes) (ha : acc.amount = none) (h : n < 2 ^ 128) :
    recvFieldValue acc "amount" (amountTok n ++ rest) = .ok ({ acc with amount := some n }, rest) := by
  simp [recvFieldValue, ha, parseAmountValue_amountTok n rest h]

private theorem recv_msg (acc : RecvAcc) (bs : Bytes) (rest : Bytes) (ha : acc.msg = none) :
    recvFieldValue acc "msg" (binaryTok bs ++ rest) = .ok ({ acc with msg := some bs }, rest) := by
  simp [recvFieldValue, ha, parseBinaryValue_binaryTok]

/-- the struct `Cw20ReceiveMsg` is read back, whatever follows its closing brace -/
theorem parseReceiveBody_encode (m : Receive) (h : SupportedReceive m) (rest : Bytes) :
    parseReceiveBody (encodeReceiveBody m ++ rest) = .ok (m, rest) := by
  obtain ⟨_, k2, k3, k4, _⟩ := keys_escape2
  obtain ⟨s, a, p⟩ := m
  unfold parseReceiveBody
  simp only [encodeReceiveBody, List.cons_append, List.append_assoc]
  rw [skipWs_cons _ _ (by decide)]
  simp only [if_true, k2, k3, k4]
  rw [parseObj_first _ _ _ _ _ _ _ (recv_sender _ s _ rfl)]
  rw [parseObj_next _ _ _ _ _ _ _ (recv_amount _ a _ rfl h)]
  rw [parseObj_next _ _ _ _ _ _ _ (recv_msg _ p _ rfl)]
  simp only [List.cons_append, List.nil_append]
  rw [parseObj_end]
  simp [endMap_close]

/-- **decode_encode_receive**: what `Cw20ReceiveMsg::into_json_binary` writes, a receiving contract's `from_json`
reads back as `Receive(Cw20ReceiveMsg { sender, amount, msg })` with the same three values — for every sender
text, every amount below 2^128 and every payload (empty, JSON text, arbitrary bytes). -/
theorem decode_encode_receive (m : Receive) (h : SupportedReceive m) : decodeReceive (encodeReceive m) = .ok m := by
  obtain ⟨k1, _⟩ := keys_escape2
  unfold decodeReceive encodeReceive
  rw [k1]
  exact decodeNewtypeVariant_encode "receive" parseReceiveBody m _ (parseReceiveBody_encode m h [0x7d])

/-- **encodeReceive_injective**: different notifications (sender, amount or payload) have different bytes. -/
theorem encodeReceive_injective (m n : Receive) (hm : SupportedReceive m) (hn : SupportedReceive n)
    (h : encodeReceive m = encodeReceive n) : m = n := by
  have h1 := decode_encode_receive m hm
  rw [h, decode_encode_receive n hn] at h1
  injection h1 with h1; exact h1.symm

/-- the bytes of a notification are valid UTF-8 (a `String` front end would lose nothing) -/
theorem isText_encodeReceive (m : Receive) : IsText (encodeReceive m) := by
  have hc : IsText [0x2c] := isText_ascii _ (by decide)
  have hb : IsText [0x7d] := isText_ascii _ (by decide)
  have ho : IsText [0x7b] := isText_ascii _ (by decide)
  have cons : ∀ (b : UInt8) (l : Bytes), b :: l = [b] ++ l := fun _ _ => rfl
  have hbin : IsText (binaryTok m.msg) := by
    have : binaryTok m.msg = [0x22] ++ (b64Enc m.msg ++ [0x22]) := rfl
    rw [this]; exact IsText.append isText_quote (IsText.append (isText_b64Enc _) isText_quote)
  have hbody : IsText (encodeReceiveBody m) := by
    unfold encodeReceiveBody
    rw [cons 0x7b, cons 0x2c, cons 0x2c]
    exact IsText.append ho (IsText.append (isText_field _ _ (by decide) (isText_encStr _)) (IsText.append hc
      (IsText.append (isText_field _ _ (by decide) (isText_amountTok _)) (IsText.append hc
        (IsText.append (isText_field _ _ (by decide) hbin) hb)))))
  unfold encodeReceive
  rw [cons 0x7b]
  exact IsText.append ho (IsText.append (isText_field _ _ (by decide) hbody) hb)

/-- **encodeReceive_envelope**: the bytes are exactly `{"receive":` + the struct + `}` — one outer key, the variant
name of `ReceiverExecuteMsg::Receive` in snake_case. -/
theorem encodeReceive_envelope (m : Receive) :
    encodeReceive m = strBytes "{\"receive\":" ++ encodeReceiveBody m ++ strBytes "}" := by
  have h1 : strBytes "{\"receive\":" = 0x7b :: 0x22 :: (keyReceive ++ [0x22, 0x3a]) := by decide
  have h2 : strBytes "}" = [0x7d] := by decide
  rw [h1, h2]; simp [encodeReceive, field]

set_option maxRecDepth 1000000 in
/-- the literal bytes of a sample notification: 40 tokens from `alice`, payload `{"k":1}` -/
example : encodeReceive ⟨"alice", 40, strBytes "{\"k\":1}"⟩ =
    strBytes "{\"receive\":{\"sender\":\"alice\",\"amount\":\"40\",\"msg\":\"eyJrIjoxfQ==\"}}" := by decide
set_option maxRecDepth 1000000 in
/-- an empty payload is `"msg":""` (no special case in `/repo`), a sender that needs escaping -/
example : encodeReceive ⟨"a\"b\\\x01é", 0, []⟩ =
    strBytes "{\"receive\":{\"sender\":\"a\\\"b\\\\\\u0001é\",\"amount\":\"0\",\"msg\":\"\"}}" := by decide
set_option maxRecDepth 1000000 in
example : SupportedReceive ⟨"a\"b\\\x01é", 2 ^ 128 - 1, strBytes "{}"⟩ := by decide
set_option maxRecDepth 1000000 in
example : decodeReceive (encodeReceive ⟨"a\"b\\\x01é", 2 ^ 128 - 1, strBytes "{}"⟩) =
    .ok ⟨"a\"b\\\x01é", 2 ^ 128 - 1, strBytes "{}"⟩ := by decide
set_option maxRecDepth 1000000 in
/-- the hypothesis is needed: 2^128 is written but not read back -/
example : (decodeReceive (encodeReceive ⟨"s", 2 ^ 128, []⟩)).toOption = none := by decide
set_option maxRecDepth 1000000 in
/-- the decoder is the real one's: whitespace, any field order, unpadded base64 are accepted; an unknown field
(`deny_unknown_fields`), a repeated field, a missing field, a number for the amount are not -/
example : decodeReceive (strBytes " { \"receive\" : { \"msg\":\"YQ\" , \"amount\":\"+07\",\"sender\":\"s\" } } ") =
    .ok ⟨"s", 7, strBytes "a"⟩ := by decide
set_option maxRecDepth 1000000 in
example : (decodeReceive (strBytes "{\"receive\":{\"sender\":\"s\",\"amount\":\"1\",\"msg\":\"\",\"x\":1}}")).toOption = none ∧
    (decodeReceive (strBytes "{\"receive\":{\"sender\":\"s\",\"sender\":\"s\",\"amount\":\"1\",\"msg\":\"\"}}")).toOption = none ∧
    (decodeReceive (strBytes "{\"receive\":{\"sender\":\"s\",\"amount\":\"1\"}}")).toOption = none ∧
    (decodeReceive (strBytes "{\"receive\":{\"sender\":\"s\",\"amount\":1,\"msg\":\"\"}}")).toOption = none ∧
    (decodeReceive (strBytes "{\"transfer\":{\"sender\":\"s\",\"amount\":\"1\",\"msg\":\"\"}}")).toOption = none := by
  decide

/-! ## `MemberChangedHookMsg` -/

/-- The hook messages for which the round trip is proved: every weight that is present is a `u64`; every key
text and any number of diffs are supported. -/
def SupportedDiff (d : MemberDiff) : Prop := OptU64 d.old ∧ OptU64 d.new

def SupportedDiffs (ds : List MemberDiff) : Prop := ∀ d ∈ ds, SupportedDiff d

instance (o : Option Nat) : Decidable (OptU64 o) := by
  cases o with
  | none => exact isTrue trivial
  | some n => exact inferInstanceAs (Decidable (n < 2 ^ 64))

instance (d : MemberDiff) : Decidable (SupportedDiff d) := inferInstanceAs (Decidable (_ ∧ _))
instance (ds : List MemberDiff) : Decidable (SupportedDiffs ds) := inferInstanceAs (Decidable (∀ d ∈ ds, _))

private theorem diff_key (acc : DiffAcc) (s : String) (rest : Bytes) (ha : acc.key = none) :
    diffFieldValue acc "key" (encStr s ++ rest) = .ok ({ acc with key := some s }, rest) := by
  simp [diffFieldValue, ha, parseStringValue_encStr]

private theorem diff_old (acc : DiffAcc) (o : Option Nat) (rest : Bytes) (ha : acc.old = none) (h : OptU64 o)
    (hr : ∀ c ∈ rest.head?, isDigit c = false) :
    diffFieldValue acc "old" (optU64Tok o ++ rest) = .ok ({ acc with old := some o }, rest) := by
  simp [diffFieldValue, ha, parseOptU64Value_optU64Tok o rest h hr]

private theorem diff_new (acc : DiffAcc) (o : Option Nat) (rest : Bytes) (ha : acc.new = none) (h : OptU64 o)
    (hr : ∀ c ∈ rest.head?, isDigit c = false) :
    diffFieldValue acc "new" (optU64Tok o ++ rest) = .ok ({ acc with new := some o }, rest) := by
  simp [diffFieldValue, ha, parseOptU64Value_optU64Tok o rest h hr]

/-- one `MemberDiff` is read back, whatever follows its closing brace -/
theorem parseDiff_encode (d : MemberDiff) (h : SupportedDiff d) (rest : Bytes) :
    parseDiff (encodeDiff d ++ rest) = .ok (d, rest) := by
  obtain ⟨_, _, _, _, _, _, k7, k8, k9⟩ := keys_escape2
  obtain ⟨k, o, n⟩ := d
  obtain ⟨ho, hn⟩ := h
  simp only at ho hn
  unfold parseDiff
  simp only [encodeDiff, List.cons_append, List.append_assoc]
  rw [skipWs_cons _ _ (by decide)]
  simp only [if_true, k7, k8, k9]
  rw [parseObj_first _ _ _ _ _ _ _ (diff_key _ k _ rfl)]
  rw [parseObj_next _ _ _ _ _ _ _ (diff_old _ o _ rfl ho (by simp; decide))]
  rw [parseObj_next _ _ _ _ _ _ _ (diff_new _ n _ rfl hn (by simp; decide))]
  simp only [List.cons_append, List.nil_append]
  rw [parseObj_end]
  simp [endMap_close]

private theorem encodeDiff_cons (d : MemberDiff) : ∃ t, encodeDiff d = 0x7b :: t := ⟨_, rfl⟩

/-- the elements after the first -/
private theorem parseDiffSeq_tail (rest : Bytes) : ∀ (ds : List MemberDiff), SupportedDiffs ds → ∀ fuel, ds.length < fuel →
    parseDiffSeq fuel false (encodeDiffsTail ds ++ 0x5d :: rest) = .ok (ds, 0x5d :: rest) := by
  intro ds
  induction ds with
  | nil =>
    intro _ fuel hf
    obtain ⟨f, rfl⟩ : ∃ f, fuel = f + 1 := ⟨fuel - 1, by omega⟩
    simp [encodeDiffsTail, parseDiffSeq, skipWs_cons, isWs]
  | cons d r ih =>
    intro hs fuel hf
    obtain ⟨f, rfl⟩ : ∃ f, fuel = f + 1 := ⟨fuel - 1, by omega⟩
    have hd := parseDiff_encode d (hs d (by simp)) (encodeDiffsTail r ++ 0x5d :: rest)
    have hr := ih (fun x hx => hs x (by simp [hx])) f (by simp at hf; omega)
    obtain ⟨t, ht⟩ := encodeDiff_cons d
    rw [ht] at hd
    simp only [List.cons_append] at hd
    simp only [encodeDiffsTail, ht, List.cons_append, List.append_assoc]
    rw [parseDiffSeq, skipWs_cons _ _ (by decide)]
    simp only [seqPos, if_true]
    rw [skipWs_cons _ _ (by decide)]
    simp [hd, hr]

/-- `Vec<MemberDiff>` is read back, whatever follows the closing bracket -/
theorem parseDiffsValue_encode (ds : List MemberDiff) (h : SupportedDiffs ds) (rest : Bytes) :
    parseDiffsValue (encodeDiffs ds ++ rest) = .ok (ds, rest) := by
  cases ds with
  | nil => simp [encodeDiffs, parseDiffsValue, skipWs_cons, isWs, parseDiffSeq, endSeq]
  | cons d r =>
    have hd := parseDiff_encode d (h d (by simp)) (encodeDiffsTail r ++ 0x5d :: rest)
    obtain ⟨t, ht⟩ := encodeDiff_cons d
    rw [ht] at hd
    simp only [List.cons_append] at hd
    have hlen : r.length < (t ++ (encodeDiffsTail r ++ 0x5d :: rest)).length := by
      have : ∀ l : List MemberDiff, l.length ≤ (encodeDiffsTail l).length := by
        intro l; induction l with
        | nil => simp
        | cons x xs ih => simp [encodeDiffsTail]; omega
      have := this r
      simp; omega
    have hr := parseDiffSeq_tail rest r (fun x hx => h x (by simp [hx]))
      ((0x7b :: (t ++ (encodeDiffsTail r ++ 0x5d :: rest))).length) (by simp only [List.length_cons]; omega)
    unfold parseDiffsValue
    simp only [encodeDiffs, ht, List.cons_append, List.append_assoc, List.nil_append]
    rw [skipWs_cons _ _ (by decide)]
    simp only [if_true]
    generalize (0x7b :: (t ++ (encodeDiffsTail r ++ 0x5d :: rest))).length = F at hr ⊢
    rw [parseDiffSeq, skipWs_cons _ _ (by decide)]
    simp only [seqPos]
    simp [hd, hr, endSeq, skipWs_cons, isWs]

private theorem hook_diffs (ds : List MemberDiff) (rest : Bytes) (h : SupportedDiffs ds) :
    hookFieldValue none "diffs" (encodeDiffs ds ++ rest) = .ok (some ds, rest) := by
  simp [hookFieldValue, parseDiffsValue_encode ds h rest]

/-- the struct `MemberChangedHookMsg` is read back, whatever follows its closing brace -/
theorem parseHookBody_encode (ds : List MemberDiff) (h : SupportedDiffs ds) (rest : Bytes) :
    parseHookBody (encodeHookBody ds ++ rest) = .ok (ds, rest) := by
  obtain ⟨_, _, _, _, _, k6, _⟩ := keys_escape2
  unfold parseHookBody
  simp only [encodeHookBody, List.cons_append, List.append_assoc]
  rw [skipWs_cons _ _ (by decide)]
  simp only [if_true, k6]
  rw [parseObj_first _ _ _ _ _ _ _ (hook_diffs ds _ h)]
  simp only [List.cons_append, List.nil_append]
  rw [parseObj_end]
  simp [endMap_close]

/-- **decode_encode_hook**: what `MemberChangedHookMsg::into_json_binary` writes, a hook contract's `from_json`
reads back as `MemberChangedHook(MemberChangedHookMsg { diffs })` with the same diffs in the same order — for any
number of diffs (also none), every key text, weights absent (`null`) or any `u64`. -/
theorem decode_encode_hook (ds : List MemberDiff) (h : SupportedDiffs ds) : decodeHook (encodeHook ds) = .ok ds := by
  obtain ⟨_, _, _, _, k5, _⟩ := keys_escape2
  unfold decodeHook encodeHook
  rw [k5]
  exact decodeNewtypeVariant_encode "member_changed_hook" parseHookBody ds _ (parseHookBody_encode ds h [0x7d])

/-- **encodeHook_injective**: different diff lists have different bytes. -/
theorem encodeHook_injective (a b : List MemberDiff) (ha : SupportedDiffs a) (hb : SupportedDiffs b)
    (h : encodeHook a = encodeHook b) : a = b := by
  have h1 := decode_encode_hook a ha
  rw [h, decode_encode_hook b hb] at h1
  injection h1 with h1; exact h1.symm

private theorem isText_optU64Tok (o : Option Nat) : IsText (optU64Tok o) := by
  cases o with
  | none => exact isText_ascii _ (by decide)
  | some n => exact isText_ascii _ fun b hb => isDigit_lt b (decDigits_mem n b hb).1

private theorem isText_encodeDiff (d : MemberDiff) : IsText (encodeDiff d) := by
  have hc : IsText [0x2c] := isText_ascii _ (by decide)
  have hb : IsText [0x7d] := isText_ascii _ (by decide)
  have ho : IsText [0x7b] := isText_ascii _ (by decide)
  have cons : ∀ (b : UInt8) (l : Bytes), b :: l = [b] ++ l := fun _ _ => rfl
  unfold encodeDiff
  rw [cons 0x7b, cons 0x2c, cons 0x2c]
  exact IsText.append ho (IsText.append (isText_field _ _ (by decide) (isText_encStr _)) (IsText.append hc
    (IsText.append (isText_field _ _ (by decide) (isText_optU64Tok _)) (IsText.append hc
      (IsText.append (isText_field _ _ (by decide) (isText_optU64Tok _)) hb)))))

private theorem isText_encodeDiffsTail (ds : List MemberDiff) : IsText (encodeDiffsTail ds) := by
  induction ds with
  | nil => exact IsText.nil
  | cons d r ih =>
    have : encodeDiffsTail (d :: r) = [0x2c] ++ (encodeDiff d ++ encodeDiffsTail r) := rfl
    rw [this]
    exact IsText.append (isText_ascii _ (by decide)) (IsText.append (isText_encodeDiff d) ih)

/-- the bytes of a hook message are valid UTF-8 -/
theorem isText_encodeHook (ds : List MemberDiff) : IsText (encodeHook ds) := by
  have hb : IsText [0x7d] := isText_ascii _ (by decide)
  have ho : IsText [0x7b] := isText_ascii _ (by decide)
  have cons : ∀ (b : UInt8) (l : Bytes), b :: l = [b] ++ l := fun _ _ => rfl
  have hseq : IsText (encodeDiffs ds) := by
    cases ds with
    | nil => exact isText_ascii _ (by decide)
    | cons d r =>
      have : encodeDiffs (d :: r) = [0x5b] ++ (encodeDiff d ++ (encodeDiffsTail r ++ [0x5d])) := rfl
      rw [this]
      exact IsText.append (isText_ascii _ (by decide)) (IsText.append (isText_encodeDiff d)
        (IsText.append (isText_encodeDiffsTail r) (isText_ascii _ (by decide))))
  have hbody : IsText (encodeHookBody ds) := by
    unfold encodeHookBody
    rw [cons 0x7b]
    exact IsText.append ho (IsText.append (isText_field _ _ (by decide) hseq) hb)
  unfold encodeHook
  rw [cons 0x7b]
  exact IsText.append ho (IsText.append (isText_field _ _ (by decide) hbody) hb)

/-- **encodeHook_envelope**: the bytes are exactly `{"member_changed_hook":{"diffs":` + the sequence + `}}`. -/
theorem encodeHook_envelope (ds : List MemberDiff) :
    encodeHook ds = strBytes "{\"member_changed_hook\":{\"diffs\":" ++ encodeDiffs ds ++ strBytes "}}" := by
  have h1 : strBytes "{\"member_changed_hook\":{\"diffs\":" =
      0x7b :: 0x22 :: (keyMemberChangedHook ++ (0x22 :: 0x3a :: 0x7b :: 0x22 :: (keyDiffs ++ [0x22, 0x3a]))) := by decide
  have h2 : strBytes "}}" = [0x7d, 0x7d] := by decide
  rw [h1, h2]; simp [encodeHook, encodeHookBody, field]

/-- **receive_ne_hook**: a notification and a hook message never have the same bytes (the outer keys differ), and
neither decodes as the other. -/
theorem receive_ne_hook (m : Receive) (ds : List MemberDiff) :
    encodeReceive m ≠ encodeHook ds ∧ (decodeHook (encodeReceive m)).toOption = none := by
  obtain ⟨k1, _⟩ := keys_escape2
  have hd : (decodeHook (encodeReceive m)).toOption = none := by
    unfold decodeHook encodeReceive decodeNewtypeVariant
    rw [skipWs_cons _ _ (by decide), k1]
    simp only [field, List.cons_append, List.append_assoc, if_true, parseStringValue_key]
    have : ("receive" = "member_changed_hook") = False := by decide
    simp [this, Except.toOption]
  refine ⟨fun h => ?_, hd⟩
  -- compare the bytes at position 2: `r` against `m`
  have := congrArg (fun l => (l.drop 2).head?) h
  simp [encodeReceive, encodeHook, field, keyReceive, keyMemberChangedHook] at this

set_option maxRecDepth 1000000 in
/-- the literal bytes of a sample hook message: `bob` joins with weight 5, `al` leaves (had the largest weight),
`x` goes from 0 to 10 -/
example : encodeHook [⟨"bob", none, some 5⟩, ⟨"al", some 18446744073709551615, none⟩, ⟨"x", some 0, some 10⟩] =
    strBytes ("{\"member_changed_hook\":{\"diffs\":[{\"key\":\"bob\",\"old\":null,\"new\":5}," ++
      "{\"key\":\"al\",\"old\":18446744073709551615,\"new\":null},{\"key\":\"x\",\"old\":0,\"new\":10}]}}") := by decide
set_option maxRecDepth 1000000 in
example : encodeHook [] = strBytes "{\"member_changed_hook\":{\"diffs\":[]}}" := by decide
set_option maxRecDepth 1000000 in
example : SupportedDiffs [⟨"b\"ob", none, some 5⟩, ⟨"al", some 18446744073709551615, none⟩] := by decide
set_option maxRecDepth 1000000 in
example : decodeHook (encodeHook [⟨"b\"ob", none, some 5⟩, ⟨"al", some 18446744073709551615, none⟩]) =
    .ok [⟨"b\"ob", none, some 5⟩, ⟨"al", some 18446744073709551615, none⟩] := by decide
set_option maxRecDepth 1000000 in
/-- the hypothesis is needed: 2^64 is written but not read back -/
example : (decodeHook (encodeHook [⟨"a", some (2 ^ 64), none⟩])).toOption = none := by decide
set_option maxRecDepth 1000000 in
/-- the decoder is the real one's: a missing `old` / `new` is `None`, a leading comma in the array passes,
`07` is `0` followed by garbage, a weight in quotes or negative is refused, an unknown field is refused -/
example : decodeHook (strBytes " { \"member_changed_hook\" : { \"diffs\" : [ , {\"key\":\"a\"} , {\"new\" : 7 , \"key\":\"b\"} ] } } ") =
    .ok [⟨"a", none, none⟩, ⟨"b", none, some 7⟩] := by decide
set_option maxRecDepth 1000000 in
example : (decodeHook (strBytes "{\"member_changed_hook\":{\"diffs\":[{\"key\":\"a\",\"old\":07}]}}")).toOption = none ∧
    (decodeHook (strBytes "{\"member_changed_hook\":{\"diffs\":[{\"key\":\"a\",\"old\":\"7\"}]}}")).toOption = none ∧
    (decodeHook (strBytes "{\"member_changed_hook\":{\"diffs\":[{\"key\":\"a\",\"old\":-1}]}}")).toOption = none ∧
    (decodeHook (strBytes "{\"member_changed_hook\":{\"diffs\":[{\"key\":\"a\",\"weight\":1}]}}")).toOption = none ∧
    (decodeHook (strBytes "{\"member_changed_hook\":{\"diffs\":[{\"old\":1}]}}")).toOption = none ∧
    (decodeHook (strBytes "{\"member_changed_hook\":{\"diffs\":[{\"key\":\"a\"},]}}")).toOption = none := by decide

/-! ## Lifting to the contract models: cw20-base (C02) -/

/-- the bytes of the notification a `Send` / `SendFrom` by `snd` must carry -/
def expectedReceive (snd : Addr) (amt : Nat) (payload : String) : Receive := ⟨snd, amt, strBytes payload⟩

private theorem credit_amt_lt {b b2 : AMap Addr Nat} {a : Addr} {amt : Nat} (h : Cw20.credit b a amt = .ok b2) :
    amt < 2 ^ 128 := by
  simp [Cw20.credit] at h
  have := h.1
  rw [U128_MAX_eq] at this
  omega

/-- **send_emits_encoded_receive** (C02 `send_notifies_once` on the wire): a successful `Send` / `SendFrom` emits
exactly one message; it goes to the named contract and the bytes of its `msg` are
`encodeReceive ⟨caller, amount, payload⟩` — the caller is `info.sender` (for `SendFrom` the spender, not the owner),
the amount is the amount moved, the payload the attached bytes unchanged — and a receiver decodes these bytes to
exactly these three values.  Every other successful call emits no bytes at all. -/
theorem send_emits_encoded_receive {s s' : Cw20.State} {blk : Block} {snd : Addr} {msg : Cw20.Msg}
    {out : List Cw20.Out} (h : Cw20.execute s blk snd msg = .ok (s', out)) :
    (∀ c amt p, msg = .send c amt p →
      out.map (fun o => (o.contract, wireOfCw20 o)) = [(c.text, encodeReceive (expectedReceive snd amt p))] ∧
      decodeReceive (encodeReceive (expectedReceive snd amt p)) = .ok (expectedReceive snd amt p)) ∧
    (∀ o c amt p, msg = .sendFrom o c amt p →
      out.map (fun o => (o.contract, wireOfCw20 o)) = [(c.text, encodeReceive (expectedReceive snd amt p))] ∧
      decodeReceive (encodeReceive (expectedReceive snd amt p)) = .ok (expectedReceive snd amt p)) ∧
    ((∀ c amt p, msg ≠ .send c amt p) → (∀ o c amt p, msg ≠ .sendFrom o c amt p) → out.map wireOfCw20 = []) := by
  have ho := C02.send_notifies_once h
  refine ⟨?_, ?_, ?_⟩
  · rintro c amt p rfl
    simp only [Cw20.execute] at h
    obtain ⟨_, _, _, _, hc, _, _⟩ := Cw20.execSend_inv h
    refine ⟨by rw [ho]; rfl, decode_encode_receive _ (credit_amt_lt hc)⟩
  · rintro o c amt p rfl
    simp only [Cw20.execute] at h
    obtain ⟨_, _, _, _, _, _, _, hc, _, _⟩ := Cw20.execSendFrom_inv h
    refine ⟨by rw [ho]; rfl, decode_encode_receive _ (credit_amt_lt hc)⟩
  · intro h1 h2
    rw [ho]
    cases msg <;> simp [C02.expectedOut] <;> first | exact (h1 _ _ _ rfl).elim | exact (h2 _ _ _ _ rfl).elim

set_option maxRecDepth 1000000 in
/-- the bytes of the model's notification for a sample `Send`: 7 tokens from `alice` to `pool`, payload `{}` -/
example :
    let s : Cw20.State := { supply := 10, mint := none, balances := [("alice", 10)], allow := [], allowSp := [],
                            version := ⟨"crates.io:cw20-base", 2, 0, 0, none⟩ }
    (match Cw20.execute s ⟨1, 1⟩ "alice" (.send ⟨true, "pool"⟩ 7 "{}") with
     | .ok (_, out) => out.map (fun o => (o.contract, bytesToString (wireOfCw20 o)))
     | .error _ => []) =
    [("pool", "{\"receive\":{\"sender\":\"alice\",\"amount\":\"7\",\"msg\":\"e30=\"}}")] := by decide

/-! ## Lifting: cw4-group (C14) -/

/-- **updateMembers_emits_encoded_hooks** (C14 `one_msg_per_hook` / `diffs_truthful` on the wire): a successful
`UpdateMembers` sends to every registered hook, in registration order, one message whose bytes are
`encodeHook diffs` — the same bytes for every hook, `diffs` being the diffs `update_members` computed (which by
`C14.diffs_truthful` replay the old member table into the new one).  Also with no diff at all
(`{"member_changed_hook":{"diffs":[]}}`). -/
theorem updateMembers_emits_encoded_hooks {s s' : Cw4Group.State} {h : Nat} {snd : Addr}
    {rem : List Cw4Group.AddrArg} {add : List (Cw4Group.AddrArg × Nat)} {out : List Cw4Group.Out}
    (he : Cw4Group.execute s h snd (.updateMembers rem add) = .ok (s', out)) :
    ∃ diffs, Cw4Group.updateMembers s h snd rem add = .ok (s', diffs) ∧
      out.map (fun o => (o.hook, wireOfGroup o)) = s.hooks.map (fun hk => (hk, encodeHook (diffs.map diffOfGroup))) := by
  obtain ⟨diffs, hu, rfl⟩ := C14.execute_updateMembers_ok.mp he
  exact ⟨diffs, hu, by simp [Cw4Group.hookMsg, wireOfGroup, Function.comp_def]⟩

/-- every other successful call of cw4-group emits no bytes -/
theorem group_other_ops_no_bytes {s s' : Cw4Group.State} {h : Nat} {snd : Addr} {msg : Cw4Group.Msg}
    {out : List Cw4Group.Out} (he : Cw4Group.execute s h snd msg = .ok (s', out))
    (hm : ∀ rem add, msg ≠ .updateMembers rem add) : out.map wireOfGroup = [] := by
  rw [C14.other_ops_silent he hm]; rfl

/-- the range invariant of the member table: every stored weight is a `u64` -/
def WeightsInRange (m : Snapshot.SnapMap Addr Nat) : Prop := ∀ a w, m.get? a = some w → w < 2 ^ 64

private theorem write_inRange {m : Snapshot.SnapMap Addr Nat} (hm : WeightsInRange m) (a : Addr) (h : Nat)
    (new : Option Nat) (hn : OptU64 new) : WeightsInRange (m.write a h new) := by
  intro x w hx
  rw [C14.snap_get?_write] at hx
  split at hx
  · subst hx; exact hn
  · exact hm x w hx

private theorem applyAdds_inRange {h : Nat} (l : List (Cw4Group.AddrArg × Nat)) :
    ∀ {m m' : Snapshot.SnapMap Addr Nat} {t t' : Nat} {ds : List Cw4Group.Diff}, WeightsInRange m →
      Cw4Group.applyAdds h l m t = .ok (m', t', ds) →
      WeightsInRange m' ∧ SupportedDiffs (ds.map diffOfGroup) := by
  induction l with
  | nil =>
    intro m m' t t' ds hm he
    simp [Cw4Group.applyAdds] at he
    obtain ⟨rfl, _, rfl⟩ := he
    exact ⟨hm, by simp [SupportedDiffs]⟩
  | cons x r ih =>
    intro m m' t t' ds hm he
    obtain ⟨a, w⟩ := x
    simp [Cw4Group.applyAdds] at he
    obtain ⟨_, _, hle, m1, tt, d1, hr, rfl, _, rfl⟩ := he
    have hw : w < 2 ^ 64 := by rw [U64_MAX_eq] at hle; omega
    obtain ⟨hm1, hd1⟩ := ih (write_inRange hm a.text h (some w) hw) hr
    refine ⟨hm1, ?_⟩
    intro d hd
    simp only [List.map_cons, List.mem_cons] at hd
    rcases hd with rfl | hd
    · refine ⟨?_, hw⟩
      simp only [diffOfGroup]
      cases hg : m.get? a.text with
      | none => trivial
      | some v => exact hm _ _ hg
    · exact hd1 d hd

private theorem applyRemoves_inRange {h : Nat} (l : List Cw4Group.AddrArg) :
    ∀ {m m' : Snapshot.SnapMap Addr Nat} {t t' : Nat} {ds : List Cw4Group.Diff}, WeightsInRange m →
      Cw4Group.applyRemoves h l m t = .ok (m', t', ds) →
      WeightsInRange m' ∧ SupportedDiffs (ds.map diffOfGroup) := by
  induction l with
  | nil =>
    intro m m' t t' ds hm he
    simp [Cw4Group.applyRemoves] at he
    obtain ⟨rfl, _, rfl⟩ := he
    exact ⟨hm, by simp [SupportedDiffs]⟩
  | cons a r ih =>
    intro m m' t t' ds hm he
    simp only [Cw4Group.applyRemoves, check_bind_ok] at he
    obtain ⟨_, he⟩ := he
    split at he
    · exact ih hm he
    · rename_i w hg
      simp at he
      obtain ⟨_, m1, tt, d1, hr, rfl, _, rfl⟩ := he
      obtain ⟨hm1, hd1⟩ := ih (write_inRange hm a.text h none trivial) hr
      refine ⟨hm1, ?_⟩
      intro d hd
      simp only [List.map_cons, List.mem_cons] at hd
      rcases hd with rfl | hd
      · exact ⟨hm _ _ hg, trivial⟩
      · exact hd1 d hd

/-- **updateMembers_hooks_decodable**: when every stored weight is a `u64` (the range invariant, which the
handler preserves) the bytes every hook receives decode — `from_json` of a hook contract — to exactly the true
diffs, and the invariant holds again afterwards. -/
theorem updateMembers_hooks_decodable {s s' : Cw4Group.State} {h : Nat} {snd : Addr}
    {rem : List Cw4Group.AddrArg} {add : List (Cw4Group.AddrArg × Nat)} {diffs : List Cw4Group.Diff}
    (hu : Cw4Group.updateMembers s h snd rem add = .ok (s', diffs)) (hm : WeightsInRange s.members) :
    decodeHook (encodeHook (diffs.map diffOfGroup)) = .ok (diffs.map diffOfGroup) ∧ WeightsInRange s'.members := by
  obtain ⟨t0, m1, t1, d1, m2, t2, d2, h1, h2, rfl, rfl, _, _⟩ := C14.updateMembers_ok hu
  obtain ⟨hm1, hs1⟩ := applyAdds_inRange _ hm h1
  obtain ⟨hm2, hs2⟩ := applyRemoves_inRange _ hm1 h2
  refine ⟨decode_encode_hook _ ?_, hm2⟩
  intro d hd
  simp only [List.map_append, List.mem_append] at hd
  rcases hd with hd | hd
  · exact hs1 d hd
  · exact hs2 d hd

set_option maxRecDepth 1000000 in
/-- the bytes both hooks of `C14.exHooked` receive for `C14.exUpdate` -/
example : (C14.outOf (Cw4Group.execute C14.exHooked 11 "adm" C14.exUpdate)).map
      (fun o => (o.hook, bytesToString (wireOfGroup o))) =
    (C14.exHooked.hooks.map fun hk => (hk, bytesToString (encodeHook (C14.exDiffs.map diffOfGroup)))) := by decide

/-! ## Lifting: cw4-stake (C14) -/

/-- **stake_hooks_encoded** (C14 `bond_unbond_diffs_truthful` on the wire): a successful bond (native funds or cw20
send) or unbond by `a` emits nothing when `a`'s weight is unchanged and otherwise, for every hook registered at
that moment, in order, one message whose bytes are `encodeHook [⟨a, weight before, weight after⟩]` — a single diff
with the true weights (`null` for a non-member). -/
theorem stake_hooks_encoded {w w' : Cw4Stake.World} {blk : Block} {op : Cw4Stake.Op} {out : List Cw4Stake.Out}
    {a : Addr} (h : Cw4Stake.tx w blk op = .ok (w', out)) (hs : C14Stake.Op.staker op = some a) :
    out.map wireOfStake =
      if Cw4Stake.weightOf w'.st a = Cw4Stake.weightOf w.st a then []
      else w.st.hooks.map fun _ => some (encodeHook [⟨a, Cw4Stake.weightOf w.st a, Cw4Stake.weightOf w'.st a⟩]) := by
  rw [(C14Stake.bond_unbond_diffs_truthful h hs).1]
  unfold C14Stake.expectedMsgs
  split
  · rfl
  · simp [wireOfStake, Function.comp_def]

/-- a weight that the model computes is a `u64` (`calcWeight` checks it): the bytes are decodable whenever the
weight before is -/
theorem stake_hook_decodable (a : Addr) (old new : Option Nat) (ho : OptU64 old) (hn : OptU64 new) :
    decodeHook (encodeHook [⟨a, old, new⟩]) = .ok [⟨a, old, new⟩] :=
  decode_encode_hook _ (by intro d hd; simp at hd; subst hd; exact ⟨ho, hn⟩)

/-- **claim_transfer_encoded**: the payout of a successful `Claim` in a cw20-denominated staking contract is one
`WasmMsg::Execute` whose bytes are `encodeTransfer claimer released` (`Cw20ExecuteMsg::Transfer`); with a native
denomination it is a `BankMsg` and carries no JSON. -/
theorem claim_transfer_encoded {s s' : Cw4Stake.State} {blk : Block} {snd : Addr} {out : List Cw4Stake.Out}
    (h : Cw4Stake.execClaim s blk snd = .ok (s', out)) :
    out.map wireOfStake =
      [match s.cfg.denom with
       | .native _ => none
       | .cw20 _ => some (encodeTransfer snd
           (Cw4Stake.amountSum (Cw4Stake.matured blk (Cw4Stake.claimsOf s snd))))] := by
  simp [Cw4Stake.execClaim] at h
  obtain ⟨_, _, _, rfl⟩ := h
  simp only [List.map_cons, List.map_nil, Cw4Stake.payout]
  split <;> simp_all [wireOfStake]

/-! ## cw20 `Transfer` / `TransferFrom` -/

private theorem xfer_recipient (acc : XferAcc) (s : String) (rest : Bytes) (ha : acc.recipient = none) :
    xferFieldValue acc "recipient" (encStr s ++ rest) = .ok ({ acc with recipient := some s }, rest) := by
  simp [xferFieldValue, ha, parseStringValue_encStr]

private theorem xfer_amount (acc : XferAcc) (n : Nat) (rest : Bytes) (ha : acc.amount = none) (h : n < 2 ^ 128) :
    xferFieldValue acc "amount" (amountTok n ++ rest) = .ok ({ acc with amount := some n }, rest) := by
  simp [xferFieldValue, ha, parseAmountValue_amountTok n rest h]

/-- the struct of the variant `Transfer` is read back, whatever follows its closing brace -/
theorem parseTransferBody_encode (t : Transfer) (h : t.amount < 2 ^ 128) (rest : Bytes) :
    parseTransferBody (encodeTransferBody t ++ rest) = .ok (t, rest) := by
  obtain ⟨_, _, k3, _, k5⟩ := keys_escape3
  obtain ⟨r, a⟩ := t
  unfold parseTransferBody
  simp only [encodeTransferBody, List.cons_append, List.append_assoc]
  rw [skipWs_cons _ _ (by decide)]
  simp only [if_true, k3, k5]
  rw [parseObj_first _ _ _ _ _ _ _ (xfer_recipient _ r _ rfl)]
  rw [parseObj_next _ _ _ _ _ _ _ (xfer_amount _ a _ rfl h)]
  simp only [List.cons_append, List.nil_append]
  rw [parseObj_end]
  simp [endMap_close]

theorem encodeTransfer_eq (r : String) (a : Nat) :
    encodeTransfer r a = 0x7b :: (field keyTransfer (encodeTransferBody ⟨r, a⟩) ++ [0x7d]) := rfl

/-- **decode_encode_transfer**: what `to_json_binary(&Cw20ExecuteMsg::Transfer { recipient, amount })` writes, the
token contract's `from_json::<Cw20ExecuteMsg>` reads back as `Transfer` with the same recipient and amount — for
every recipient text and every amount below 2^128. -/
theorem decode_encode_transfer (r : String) (a : Nat) (h : a < 2 ^ 128) :
    decodeTransfer (encodeTransfer r a) = .ok ⟨r, a⟩ := by
  obtain ⟨k1, _⟩ := keys_escape3
  unfold decodeTransfer
  rw [encodeTransfer_eq, k1]
  exact decodeNewtypeVariant_encode "transfer" parseTransferBody _ _ (parseTransferBody_encode ⟨r, a⟩ h [0x7d])

/-- **encodeTransfer_injective**: another recipient or another amount, other bytes. -/
theorem encodeTransfer_injective (r r' : String) (a a' : Nat) (ha : a < 2 ^ 128) (ha' : a' < 2 ^ 128)
    (h : encodeTransfer r a = encodeTransfer r' a') : r = r' ∧ a = a' := by
  have h1 := decode_encode_transfer r a ha
  rw [h, decode_encode_transfer r' a' ha'] at h1
  injection h1 with h1
  injection h1 with h2 h3
  exact ⟨h2.symm, h3.symm⟩

/-- the bytes of a `Transfer` payload are valid UTF-8 -/
theorem isText_encodeTransfer (r : String) (a : Nat) : IsText (encodeTransfer r a) := by
  have hc : IsText [0x2c] := isText_ascii _ (by decide)
  have hb : IsText [0x7d] := isText_ascii _ (by decide)
  have ho : IsText [0x7b] := isText_ascii _ (by decide)
  have cons : ∀ (b : UInt8) (l : Bytes), b :: l = [b] ++ l := fun _ _ => rfl
  have hbody : IsText (encodeTransferBody ⟨r, a⟩) := by
    unfold encodeTransferBody
    rw [cons 0x7b, cons 0x2c]
    exact IsText.append ho (IsText.append (isText_field _ _ (by decide) (isText_encStr _)) (IsText.append hc
      (IsText.append (isText_field _ _ (by decide) (isText_amountTok _)) hb)))
  rw [encodeTransfer_eq, cons 0x7b]
  exact IsText.append ho (IsText.append (isText_field _ _ (by decide) hbody) hb)

/-- **encodeTransfer_envelope**: the bytes are exactly `{"transfer":` + the struct + `}` — one outer key, the variant
name in snake_case. -/
theorem encodeTransfer_envelope (r : String) (a : Nat) :
    encodeTransfer r a = strBytes "{\"transfer\":" ++ encodeTransferBody ⟨r, a⟩ ++ strBytes "}" := by
  have h1 : strBytes "{\"transfer\":" = 0x7b :: 0x22 :: (keyTransfer ++ [0x22, 0x3a]) := by decide
  have h2 : strBytes "}" = [0x7d] := by decide
  rw [h1, h2, encodeTransfer_eq]; simp [field]

private theorem xferFrom_owner (acc : XferFromAcc) (s : String) (rest : Bytes) (ha : acc.owner = none) :
    xferFromFieldValue acc "owner" (encStr s ++ rest) = .ok ({ acc with owner := some s }, rest) := by
  simp [xferFromFieldValue, ha, parseStringValue_encStr]

private theorem xferFrom_recipient (acc : XferFromAcc) (s : String) (rest : Bytes) (ha : acc.recipient = none) :
    xferFromFieldValue acc "recipient" (encStr s ++ rest) = .ok ({ acc with recipient := some s }, rest) := by
  simp [xferFromFieldValue, ha, parseStringValue_encStr]

private theorem xferFrom_amount (acc : XferFromAcc) (n : Nat) (rest : Bytes) (ha : acc.amount = none) (h : n < 2 ^ 128) :
    xferFromFieldValue acc "amount" (amountTok n ++ rest) = .ok ({ acc with amount := some n }, rest) := by
  simp [xferFromFieldValue, ha, parseAmountValue_amountTok n rest h]

/-- the struct of the variant `TransferFrom` is read back, whatever follows its closing brace -/
theorem parseTransferFromBody_encode (t : TransferFrom) (h : t.amount < 2 ^ 128) (rest : Bytes) :
    parseTransferFromBody (encodeTransferFromBody t ++ rest) = .ok (t, rest) := by
  obtain ⟨_, _, k3, k4, k5⟩ := keys_escape3
  obtain ⟨o, r, a⟩ := t
  unfold parseTransferFromBody
  simp only [encodeTransferFromBody, List.cons_append, List.append_assoc]
  rw [skipWs_cons _ _ (by decide)]
  simp only [if_true, k3, k4, k5]
  rw [parseObj_first _ _ _ _ _ _ _ (xferFrom_owner _ o _ rfl)]
  rw [parseObj_next _ _ _ _ _ _ _ (xferFrom_recipient _ r _ rfl)]
  rw [parseObj_next _ _ _ _ _ _ _ (xferFrom_amount _ a _ rfl h)]
  simp only [List.cons_append, List.nil_append]
  rw [parseObj_end]
  simp [endMap_close]

theorem encodeTransferFrom_eq (o r : String) (a : Nat) :
    encodeTransferFrom o r a = 0x7b :: (field keyTransferFrom (encodeTransferFromBody ⟨o, r, a⟩) ++ [0x7d]) := rfl

/-- **decode_encode_transferFrom**: what `to_json_binary(&Cw20ExecuteMsg::TransferFrom { owner, recipient, amount })`
writes, the token contract's `from_json::<Cw20ExecuteMsg>` reads back as `TransferFrom` with the same owner,
recipient and amount — for every text and every amount below 2^128. -/
theorem decode_encode_transferFrom (o r : String) (a : Nat) (h : a < 2 ^ 128) :
    decodeTransferFrom (encodeTransferFrom o r a) = .ok ⟨o, r, a⟩ := by
  obtain ⟨_, k2, _⟩ := keys_escape3
  unfold decodeTransferFrom
  rw [encodeTransferFrom_eq, k2]
  exact decodeNewtypeVariant_encode "transfer_from" parseTransferFromBody _ _
    (parseTransferFromBody_encode ⟨o, r, a⟩ h [0x7d])

/-- **encodeTransferFrom_injective**: another owner, recipient or amount, other bytes. -/
theorem encodeTransferFrom_injective (o o' r r' : String) (a a' : Nat) (ha : a < 2 ^ 128) (ha' : a' < 2 ^ 128)
    (h : encodeTransferFrom o r a = encodeTransferFrom o' r' a') : o = o' ∧ r = r' ∧ a = a' := by
  have h1 := decode_encode_transferFrom o r a ha
  rw [h, decode_encode_transferFrom o' r' a' ha'] at h1
  injection h1 with h1
  injection h1 with h2 h3 h4
  exact ⟨h2.symm, h3.symm, h4.symm⟩

/-- the bytes of a `TransferFrom` payload are valid UTF-8 -/
theorem isText_encodeTransferFrom (o r : String) (a : Nat) : IsText (encodeTransferFrom o r a) := by
  have hc : IsText [0x2c] := isText_ascii _ (by decide)
  have hb : IsText [0x7d] := isText_ascii _ (by decide)
  have ho : IsText [0x7b] := isText_ascii _ (by decide)
  have cons : ∀ (b : UInt8) (l : Bytes), b :: l = [b] ++ l := fun _ _ => rfl
  have hbody : IsText (encodeTransferFromBody ⟨o, r, a⟩) := by
    unfold encodeTransferFromBody
    rw [cons 0x7b, cons 0x2c, cons 0x2c]
    exact IsText.append ho (IsText.append (isText_field _ _ (by decide) (isText_encStr _)) (IsText.append hc
      (IsText.append (isText_field _ _ (by decide) (isText_encStr _)) (IsText.append hc
        (IsText.append (isText_field _ _ (by decide) (isText_amountTok _)) hb)))))
  rw [encodeTransferFrom_eq, cons 0x7b]
  exact IsText.append ho (IsText.append (isText_field _ _ (by decide) hbody) hb)

/-- **encodeTransferFrom_envelope**: the bytes are exactly `{"transfer_from":` + the struct + `}`. -/
theorem encodeTransferFrom_envelope (o r : String) (a : Nat) :
    encodeTransferFrom o r a = strBytes "{\"transfer_from\":" ++ encodeTransferFromBody ⟨o, r, a⟩ ++ strBytes "}" := by
  have h1 : strBytes "{\"transfer_from\":" = 0x7b :: 0x22 :: (keyTransferFrom ++ [0x22, 0x3a]) := by decide
  have h2 : strBytes "}" = [0x7d] := by decide
  rw [h1, h2, encodeTransferFrom_eq]; simp [field]

/-- **transfer_ne_transferFrom**: the two calls never have the same bytes, and neither is read as the other (the
variant name `transfer` is not a prefix match: `transfer_from` is another identifier). -/
theorem transfer_ne_transferFrom (r o r' : String) (a a' : Nat) :
    encodeTransfer r a ≠ encodeTransferFrom o r' a' ∧
    (decodeTransferFrom (encodeTransfer r a)).toOption = none ∧
    (decodeTransfer (encodeTransferFrom o r' a')).toOption = none := by
  obtain ⟨k1, k2, _⟩ := keys_escape3
  have hd1 : (decodeTransferFrom (encodeTransfer r a)).toOption = none := by
    unfold decodeTransferFrom decodeNewtypeVariant
    rw [encodeTransfer_eq, skipWs_cons _ _ (by decide), k1]
    simp only [field, List.cons_append, List.append_assoc, if_true, parseStringValue_key]
    have : ("transfer" = "transfer_from") = False := by decide
    simp [this, Except.toOption]
  have hd2 : (decodeTransfer (encodeTransferFrom o r' a')).toOption = none := by
    unfold decodeTransfer decodeNewtypeVariant
    rw [encodeTransferFrom_eq, skipWs_cons _ _ (by decide), k2]
    simp only [field, List.cons_append, List.append_assoc, if_true, parseStringValue_key]
    have : ("transfer_from" = "transfer") = False := by decide
    simp [this, Except.toOption]
  refine ⟨fun h => ?_, hd1, hd2⟩
  -- compare the bytes at position 10: `"` against `_`
  have := congrArg (fun l => (l.drop 10).head?) h
  simp [encodeTransfer, encodeTransferFrom, field, keyTransfer, keyTransferFrom] at this

set_option maxRecDepth 1000000 in
example : encodeTransfer "bob" 5 = strBytes "{\"transfer\":{\"recipient\":\"bob\",\"amount\":\"5\"}}" := by decide
set_option maxRecDepth 1000000 in
example : encodeTransferFrom "al" "bob" 5 =
    strBytes "{\"transfer_from\":{\"owner\":\"al\",\"recipient\":\"bob\",\"amount\":\"5\"}}" := by decide

end CwPlus.Props.MsgWire
