import CwPlus.Lemmas.Cw4Stake
import CwPlus.Lemmas.Snapshot
import CwPlus.Props.C10
import CwPlus.Props.C20Listings
/-!
# C09 — cw4: totals and point-in-time weights match the true history (cw4-stake part)

* `total_eq_sum_members`: on every history (bond / cw20 send / unbond / claim / admin operations / plain
  transfers, failed transactions rolled back) the total weight (`TotalWeight {}`, a plain `Item<u64>` in
  cw4-stake) is the sum of the weights of the members as listed by `ListMembers`, and it fits `u64`.
* `member_at_height`: instantiation of the generic snapshot theorem (`Lemmas/Snapshot.lean`) for the
  `MEMBERS` snapshot map of cw4-stake: over every history at non-decreasing block heights,
  `Member { addr, at_height: h }` is the weight the address had at the start of block `h` — the current
  weight in the state reached by exactly the transactions of the blocks before `h`; changes made in block
  `h` or later (also several bonds/unbonds of one address in one block) do not affect it.
* Raw keys (`cw4::member_key`, `cw4::TOTAL_KEY`): in the model raw and smart reads are the same map; the
  byte layout is checked at the correspondence level only (monitors `C09/stake/raw-*` in
  `Driver/Cw4Stake.lean` compare `query_wasm_raw` with the smart queries after every op).
-/
namespace CwPlus.Props.C09Stake
open CwPlus CwPlus.Cw4Stake CwPlus.Snapshot

/-! ## The total is the sum of the member weights -/

/-- The stored total is the sum of the current member weights and fits `u64`; the member map has one
entry per address. -/
def Inv (s : State) : Prop :=
  s.total = AMap.sum s.members.cur ∧ AMap.NodupKeys s.members.cur ∧ s.total ≤ U64_MAX

/-- `update_membership` keeps the total equal to the sum: `total + new − old` with the old weight read
before the write. -/
theorem inv_um {s : State} (hi : Inv s) (h : Nat) (a : Addr) (new : Option Nat)
    (hb : new ≠ s.members.get? a →
      s.total + new.getD 0 ≤ U64_MAX ∧ (s.members.get? a).getD 0 ≤ s.total + new.getD 0) :
    Inv (um s h a new).1 := by
  unfold um
  split
  · exact hi
  · rename_i hne
    obtain ⟨ht, hn, hle⟩ := hi
    obtain ⟨h1, h2⟩ := hb hne
    have hle' := AMap.get?_le_sum s.members.cur a
    cases new with
    | some v =>
      have hs := AMap.sum_set s.members.cur a v
      refine ⟨?_, ?_, ?_⟩
      · simp only [snap_cur_write_some, Option.getD_some]
        simp only [SnapMap.get?] at *
        omega
      · simp only [snap_cur_write_some]; exact AMap.nodup_set hn
      · simp only [Option.getD_some] at h1 ⊢; omega
    | none =>
      have hs := AMap.sum_erase s.members.cur a hn
      refine ⟨?_, ?_, ?_⟩
      · simp only [snap_cur_write_none, Option.getD_none]
        simp only [SnapMap.get?] at *
        omega
      · simp only [snap_cur_write_none]; exact AMap.nodup_erase hn
      · simp only [Option.getD_none]; omega

/-- Changing only stakes / claims does not touch the invariant. -/
theorem inv_bondState {s : State} (hi : Inv s) (snd : Addr) (amt : Nat) : Inv (bondState s snd amt) := hi
theorem inv_unbondState {s : State} (hi : Inv s) (blk : Block) (snd : Addr) (amt : Nat) :
    Inv (unbondState s blk snd amt) := hi

theorem inv_tx {w w' : World} {blk : Block} {op : Op} {out : List Out}
    (hi : Inv w.st) (h : tx w blk op = .ok (w', out)) : Inv w'.st := by
  cases op with
  | bond snd coins =>
    obtain ⟨_, amt, _, _, _, new, _, _, _, hu, hb, _⟩ := tx_bond_ok h
    rw [(um_pair hu).1]
    exact inv_um (inv_bondState hi snd amt) _ _ _ hb
  | send snd token amt ok =>
    obtain ⟨_, _, new, _, _, _, hu, hb, _⟩ := tx_send_ok h
    rw [(um_pair hu).1]
    exact inv_um (inv_bondState hi snd amt) _ _ _ hb
  | receive snd sender amt ok => exact (tx_receive_never h).elim
  | unbond snd amt =>
    obtain ⟨new, _, _, hu, hb, _⟩ := tx_unbond_ok h
    rw [(um_pair hu).1]
    exact inv_um (inv_unbondState hi blk snd amt) _ _ _ hb
  | claim snd => obtain ⟨_, _, _, hst, _⟩ := tx_claim_ok h; rw [hst]; exact hi
  | updateAdmin snd x => obtain ⟨_, _, adm, rfl⟩ := tx_updateAdmin_ok h; exact hi
  | addHook snd x => obtain ⟨_, _, _, rfl⟩ := tx_addHook_ok h; exact hi
  | removeHook snd x => obtain ⟨_, _, _, rfl⟩ := tx_removeHook_ok h; exact hi
  | donate snd amt => obtain ⟨_, _, rfl⟩ := tx_donate_ok h; exact hi

theorem inv_init {m : InstMsg} {st : State} (h : instantiate m = .ok st) : Inv st := by
  simp [instantiate] at h
  obtain ⟨adm, _, rfl⟩ := h
  simp [Inv, AMap.NodupKeys, AMap.keys, U64_MAX]

open Paginate in
/-- The members as listed by `ListMembers` (ascending, all pages together) carry the same sum as the map. -/
theorem listed_sum (s : State) : AMap.sum (sortedEntries strLt s.members.cur) = AMap.sum s.members.cur := by
  unfold AMap.sum sortedEntries
  exact ((List.mergeSort_perm _ _).map (fun p : Addr × Nat => p.2)).sum_nat

open Paginate in
/-- **C09 `total_eq_sum_members` (cw4-stake)**: after any accepted instantiation and any finite history of
transactions the reported total weight equals the sum of the weights of the listed members, and fits `u64`. -/
theorem total_eq_sum_members {m : InstMsg} {st : State} (h : instantiate m = .ok st) (bal : AMap Addr Nat)
    (acc : List Addr) (ops : List (Block × Op)) :
    queryTotalWeight (run (World.init st bal acc) ops).st
        = AMap.sum (sortedEntries strLt (run (World.init st bal acc) ops).st.members.cur)
      ∧ queryTotalWeight (run (World.init st bal acc) ops).st ≤ U64_MAX := by
  have hi : Inv (run (World.init st bal acc) ops).st :=
    run_inv (fun w => Inv w.st) (fun _ _ _ _ _ hi ht => inv_tx hi ht) (inv_init h) ops
  rw [listed_sum]
  exact ⟨hi.1, hi.2.2⟩

/-- The `u64` arithmetic of `update_membership` can fail only by *overflow* of `total + new`, never by
underflow of `− old`: the old weight is part of the total. -/
theorem no_underflow {s : State} (hi : Inv s) (a : Addr) (new : Nat) :
    (s.members.get? a).getD 0 ≤ s.total + new := by
  have := AMap.get?_le_sum s.members.cur a
  simp only [SnapMap.get?]
  rw [hi.1]; omega

/-! ## Point-in-time weights: instantiation of the generic snapshot theorem -/

/-- `update_membership` performs at most one write on `MEMBERS`, at the block height. -/
theorem um_sameBlock (s : State) (h : Nat) (a : Addr) (new : Option Nat) :
    SnapMap.SameBlock s.members (um s h a new).1.members h := by
  unfold um
  split
  · exact SnapMap.SameBlock.refl _ _
  · exact SnapMap.SameBlock.write _ _ _ _

/-- Every successful transaction performs a list of writes on `MEMBERS`, all at the height of its block. -/
theorem tx_sameBlock {w w' : World} {blk : Block} {op : Op} {out : List Out}
    (h : tx w blk op = .ok (w', out)) : SnapMap.SameBlock w.st.members w'.st.members blk.height := by
  cases op with
  | bond snd coins =>
    obtain ⟨_, amt, _, _, _, new, _, _, _, hu, _⟩ := tx_bond_ok h
    rw [(um_pair hu).1]
    exact um_sameBlock (bondState w.st snd amt) _ _ _
  | send snd token amt ok =>
    obtain ⟨_, _, new, _, _, _, hu, _⟩ := tx_send_ok h
    rw [(um_pair hu).1]
    exact um_sameBlock (bondState w.st snd amt) _ _ _
  | receive snd sender amt ok => exact (tx_receive_never h).elim
  | unbond snd amt =>
    obtain ⟨new, _, _, hu, _⟩ := tx_unbond_ok h
    rw [(um_pair hu).1]
    exact um_sameBlock (unbondState w.st blk snd amt) _ _ _
  | claim snd => obtain ⟨_, _, _, hst, _⟩ := tx_claim_ok h; rw [hst]; exact SnapMap.SameBlock.refl _ _
  | updateAdmin snd x => obtain ⟨_, _, adm, rfl⟩ := tx_updateAdmin_ok h; exact SnapMap.SameBlock.refl _ _
  | addHook snd x => obtain ⟨_, _, _, rfl⟩ := tx_addHook_ok h; exact SnapMap.SameBlock.refl _ _
  | removeHook snd x => obtain ⟨_, _, _, rfl⟩ := tx_removeHook_ok h; exact SnapMap.SameBlock.refl _ _
  | donate snd amt => obtain ⟨_, _, rfl⟩ := tx_donate_ok h; exact SnapMap.SameBlock.refl _ _

theorem step_sameBlock (w : World) (o : Block × Op) :
    SnapMap.SameBlock w.st.members (step w o.1 o.2).st.members o.1.height := by
  unfold step
  split
  · rename_i w' out ht; exact tx_sameBlock ht
  · exact SnapMap.SameBlock.refl _ _

/-- Block heights never decrease along a history. -/
def Ordered (ops : List (Block × Op)) : Prop := ops.Pairwise (fun a b => a.1.height ≤ b.1.height)

theorem run_logLe {w : World} {B : Nat} (ops : List (Block × Op)) (hm : w.st.members.LogLe B)
    (hB : ∀ o ∈ ops, o.1.height ≤ B) : (run w ops).st.members.LogLe B := by
  induction ops generalizing w with
  | nil => exact hm
  | cons o ops ih =>
    have hb := hB o (by simp)
    simp only [run, List.foldl_cons]
    exact ih ((step_sameBlock w o).logLe hm hb) (fun o' ho' => hB o' (by simp [ho']))

theorem filter_snoc_lt {ops : List (Block × Op)} {o : Block × Op} {h : Nat} (hord : Ordered (ops ++ [o]))
    (hlt : o.1.height < h) : (ops ++ [o]).filter (fun x => x.1.height < h) = ops ++ [o] := by
  apply List.filter_eq_self.mpr
  intro x hx
  have hp := List.pairwise_append.mp hord
  rcases List.mem_append.mp hx with hx | hx
  · have := hp.2.2 x hx o (by simp); simp; omega
  · simp at hx; subst hx; simpa using hlt

/-- Transactions in block `h` or later are invisible to every member query at height `h`. -/
theorem run_atHeight_filter {w : World} {b : Nat} (ops : List (Block × Op)) (hm : w.st.members.LogLe b)
    (hge : ∀ o ∈ ops, b ≤ o.1.height) (hord : Ordered ops) (h : Nat) (a : Addr) :
    (run w ops).st.members.atHeight a h
      = (run w (ops.filter (fun o => o.1.height < h))).st.members.atHeight a h := by
  induction ops using List.rev_induction with
  | nil => rfl
  | snoc ops o ih =>
    have hp := List.pairwise_append.mp hord
    have hle : ∀ x ∈ ops, x.1.height ≤ o.1.height := fun x hx => hp.2.2 x hx o (by simp)
    by_cases hlt : o.1.height < h
    · rw [filter_snoc_lt hord hlt]
    · have hf : (ops ++ [o]).filter (fun x => x.1.height < h) = ops.filter (fun x => x.1.height < h) := by
        simp [List.filter_append, hlt]
      have hb : b ≤ o.1.height := hge o (by simp)
      have hl := run_logLe ops (hm.mono hb) hle
      have hs := step_sameBlock (run w ops) o
      rw [hf, run_append, run_cons, run_nil]
      rw [hs.atHeight_le hl a (by omega)]
      exact ih (fun x hx => hge x (by simp [hx])) hp.1

/-- A freshly instantiated contract has an empty changelog. -/
theorem init_logLe {m : InstMsg} {st : State} (h : instantiate m = .ok st) (b : Nat) : st.members.LogLe b := by
  simp [instantiate] at h
  obtain ⟨adm, _, rfl⟩ := h
  exact SnapMap.logLe_empty b

/-- **C09 `member_at_height` (cw4-stake)**: for every accepted instantiation, every history of transactions
at non-decreasing block heights, every address and every height `h` (before the first transaction, at a
block with transactions, between blocks, in the future): `Member { addr, at_height: h }` is the current
weight of the address in the state reached by exactly the transactions of the blocks before `h` — the
value that held at the start of block `h`, unaffected by any change made in block `h` or later. -/
theorem member_at_height {m : InstMsg} {st : State} (hi : instantiate m = .ok st) (bal : AMap Addr Nat)
    (acc : List Addr) (ops : List (Block × Op)) (hord : Ordered ops) (a : Addr) (h : Nat) :
    (run (World.init st bal acc) ops).st.members.atHeight a h
      = weightOf (run (World.init st bal acc) (ops.filter (fun o => o.1.height < h))).st a := by
  rw [run_atHeight_filter (b := 0) ops (init_logLe hi 0) (fun _ _ => Nat.zero_le _) hord h a]
  by_cases hh : 0 < h
  · have hl := run_logLe (w := World.init st bal acc) (B := h - 1) (ops.filter (fun o => o.1.height < h))
      (init_logLe hi _)
      (by intro o ho; have := (List.mem_filter.mp ho).2; simp at this; omega)
    exact SnapMap.atHeight_of_logLe hl (by omega) a
  · have h0 : h = 0 := by omega
    subst h0
    have : ops.filter (fun o => o.1.height < 0) = [] := by simp
    rw [this]
    simp [instantiate] at hi
    obtain ⟨adm, _, rfl⟩ := hi
    rfl

/-- The query as the contract answers it. -/
theorem queryMember_eq (s : State) (a : AddrArg) (hv : a.valid = true) (at_ : Option Nat) :
    queryMember s a at_ = .ok (match at_ with
      | some h => s.members.atHeight a.text h
      | none => weightOf s a.text) := by
  cases at_ <;> simp [queryMember, hv, check, weightOf]

/-! ## Non-vacuity -/

def cfgMsg : InstMsg := ⟨.native "ustake", 10, 20, .height 5, none⟩

def stOf (m : InstMsg) : State :=
  match instantiate m with
  | .ok st => st
  | .error _ => default

/-- alice bonds twice in block 100 (weights 3, then 5), unbonds in block 102 (weight 2), bob joins. -/
def demoOps : List (Block × Op) :=
  [(⟨100, 0⟩, .bond "alice" [("ustake", 30)]), (⟨100, 0⟩, .bond "alice" [("ustake", 20)]),
   (⟨102, 0⟩, .unbond "alice" 25), (⟨102, 0⟩, .bond "bob" [("ustake", 40)])]

def demoWorld : World := run (World.init (stOf cfgMsg) [("alice", 100), ("bob", 100)] []) demoOps

example : (instantiate cfgMsg).isOk = true := by decide
example : demoWorld.st.members.atHeight "alice" 100 = none ∧ demoWorld.st.members.atHeight "alice" 101 = some 5 ∧
    demoWorld.st.members.atHeight "alice" 102 = some 5 ∧ demoWorld.st.members.atHeight "alice" 103 = some 2 ∧
    demoWorld.st.members.atHeight "bob" 102 = none ∧ weightOf demoWorld.st "bob" = some 4 ∧
    demoWorld.st.total = 6 := by decide

/-! # Review round: the pieces composed -/

open Paginate in
/-- **C09 `total_eq_sum_members` (cw4-stake), over the listing a client actually fetches**: after any
accepted instantiation and any history, paging through `ListMembers` (any page size `limit ≠ 0`, cursor =
last address of the previous page, enough rounds) yields a list whose weights sum to `TotalWeight {}`. -/
theorem total_eq_sum_listed {m : InstMsg} {st : State} (h : instantiate m = .ok st) (bal : AMap Addr Nat)
    (acc : List Addr) (ops : List (Block × Op)) (limit : Option Nat) (hl : limit ≠ some 0) {fuel : Nat}
    (hf : (run (World.init st bal acc) ops).st.members.cur.length + 1 ≤ fuel) :
    queryTotalWeight (run (World.init st bal acc) ops).st =
      AMap.sum (fetchLoop (fun c => Props.C20.okItems
        (queryListMembers (run (World.init st bal acc) ops).st (c.map (⟨true, ·⟩)) limit)) (·.1) none fuel) := by
  rw [Props.C20Listings.stake_listMembers_complete h bal acc ops limit hl hf]
  exact (total_eq_sum_members h bal acc ops).1

open Paginate in
/-- **C09 (cw4-stake), the listing agrees with the point query** (the monitor `C09/stake/listing-vs-point`):
after any accepted instantiation and any history, `(a, w)` is listed by `ListMembers` (all pages together)
exactly when `Member { addr: a }` answers `w`; no address is listed twice. -/
theorem listing_vs_point {m : InstMsg} {st : State} (h : instantiate m = .ok st) (bal : AMap Addr Nat)
    (acc : List Addr) (ops : List (Block × Op)) (a : Addr) (w : Nat) :
    ((a, w) ∈ sortedEntries strLt (run (World.init st bal acc) ops).st.members.cur ↔
      weightOf (run (World.init st bal acc) ops).st a = some w) ∧
    AMap.NodupKeys (sortedEntries strLt (run (World.init st bal acc) ops).st.members.cur) := by
  have hn := run_nodup (w := World.init st bal acc) (instantiate_nodup h) ops
  exact ⟨mem_sortedEntries_iff_get? strLt hn a w, sortedEntries_nodupKeys hn⟩

open Paginate in
/-- … in terms of the pages a client fetches. -/
theorem fetched_vs_point {m : InstMsg} {st : State} (h : instantiate m = .ok st) (bal : AMap Addr Nat)
    (acc : List Addr) (ops : List (Block × Op)) (limit : Option Nat) (hl : limit ≠ some 0) {fuel : Nat}
    (hf : (run (World.init st bal acc) ops).st.members.cur.length + 1 ≤ fuel) (a : Addr) (w : Nat) :
    (a, w) ∈ fetchLoop (fun c => Props.C20.okItems
        (queryListMembers (run (World.init st bal acc) ops).st (c.map (⟨true, ·⟩)) limit)) (·.1) none fuel ↔
      weightOf (run (World.init st bal acc) ops).st a = some w := by
  rw [Props.C20Listings.stake_listMembers_complete h bal acc ops limit hl hf]
  exact (listing_vs_point h bal acc ops a w).1

/-- **C09 `member_at_height` composed with C10 `weight_is_quotient` / `member_iff_min_bond`**: for every
accepted instantiation, every history at non-decreasing heights, every address and height,
`Member { addr, at_height: h }` is what `calc_weight` says about the stake the address had at the start of
block `h`: nothing below `min_bond`, otherwise `stake / tokens_per_weight` (which fits `u64`). -/
theorem member_at_height_from_stake {m : InstMsg} {st : State} (hi : instantiate m = .ok st) (bal : AMap Addr Nat)
    (acc : List Addr) (ops : List (Block × Op)) (hord : Ordered ops) (a : Addr) (h : Nat) :
    let sh := (run (World.init st bal acc) (ops.filter (fun o => o.1.height < h))).st
    calcWeight st.cfg (stakeOf sh a) = .ok ((run (World.init st bal acc) ops).st.members.atHeight a h) ∧
    (run (World.init st bal acc) ops).st.members.atHeight a h =
      (if stakeOf sh a < st.cfg.minBond then none else some (stakeOf sh a / st.cfg.tokensPerWeight)) := by
  intro sh
  have hw := (Props.C10.weightInv_run hi bal acc (ops.filter (fun o => o.1.height < h))).2 a
  have hcfg : sh.cfg = st.cfg := Props.C10.cfg_run (World.init st bal acc) _
  rw [member_at_height hi bal acc ops hord a h]
  rw [hcfg] at hw
  exact ⟨hw, (calcWeight_ok hw).1⟩

/-! ## Non-vacuity: the theorems applied to `demoOps` -/

theorem inst_cfgMsg : instantiate cfgMsg = .ok (stOf cfgMsg) := rfl

example : Ordered demoOps := by unfold Ordered; decide
example (a : Addr) (h : Nat) : demoWorld.st.members.atHeight a h
    = weightOf (run (World.init (stOf cfgMsg) [("alice", 100), ("bob", 100)] []) (demoOps.filter (fun o => o.1.height < h))).st a :=
  member_at_height inst_cfgMsg _ _ demoOps (by unfold Ordered; decide) a h
example : queryTotalWeight demoWorld.st = 6 ∧ queryTotalWeight demoWorld.st ≤ U64_MAX :=
  ⟨by decide, (total_eq_sum_members inst_cfgMsg [("alice", 100), ("bob", 100)] [] demoOps).2⟩
example := total_eq_sum_listed inst_cfgMsg [("alice", 100), ("bob", 100)] [] demoOps (some 1) (by decide)
  (fuel := 3) (by decide)
example := fetched_vs_point inst_cfgMsg [("alice", 100), ("bob", 100)] [] demoOps none (by decide)
  (fuel := 3) (by decide) "bob" 4
/-- at height 102 alice's weight is `50 / 10 = 5` (her stake at the start of block 102 was 50) -/
example : stakeOf (run (World.init (stOf cfgMsg) [("alice", 100), ("bob", 100)] [])
      (demoOps.filter (fun o => o.1.height < 102))).st "alice" = 50 ∧
    demoWorld.st.members.atHeight "alice" 102 = some (50 / 10) := by decide
example := member_at_height_from_stake inst_cfgMsg [("alice", 100), ("bob", 100)] [] demoOps
  (by unfold Ordered; decide) "alice" 102

end CwPlus.Props.C09Stake
