import CwPlus.Lemmas.Json
import CwPlus.Lemmas.JsonFuel
import CwPlus.Model.Ics20Wire
import CwPlus.Props.C12
/-!
# cw20-ics20: the JSON wire format (part of C12)

`Base/Json.lean` is a byte-level model of exactly what `to_json_binary` / `from_json` (serde-json-wasm 1.0.1 + the
serde-derive code) do to `Ics20Packet` and `Ics20Ack`; `Model/Ics20Wire.lean` puts it between the bytes that travel
and the handlers of `Model/Ics20.lean`.  This file proves

* `unescape_escape`, `decode_encode_packet(_bytes)`, `encodePacket(_bytes)_injective`: what the contract writes, it
  (and any peer running the same code) reads back — for **every** amount below 2^128 and **every** text: all of
  Unicode, control characters, quotes and backslashes included (`SupportedText` is `True`; a Lean `String` is a
  sequence of Unicode scalar values, exactly what a Rust `String` is);
* `decode_encode_ack(_bytes)`, `ack_success_ne_error`: the two acknowledgement shapes never collide;
* `decode_total`, `decode_fuel_sufficient`: the decoder is a total function (no panic, no non-termination:
  structural recursion / fuel) and its fuel is never exhausted;
* `transfer_emits_encoded_packet`: C12 `transfer_emits_one_packet` lifted to the bytes of `IbcMsg::SendPacket.data`;
* `receive_decodes_or_error_ack`, `receive_undecodable_tx`: an incoming packet's data either decodes — then the
  receive model runs on the decoded fields — or the answer is an error acknowledgement and nothing changes: the
  `raw=1` flag of the op lines is now computed from the bytes;
* `ack_decodes_or_aborts`: the same for `ibc_packet_ack` and the bytes of the acknowledgement.

The tie: the harness delivers arbitrary bytes (`data=`, `ackdata=`: canonical JSON, and a stream of mutated JSON)
to the real entry points and prints the bytes the contract produced (`pkt=`, `ackraw=`); the driver decodes /
encodes with the functions below.  The directed inputs of `Props/Ics20WireExamples.lean` are replayed first on
every run (`corpus/C12/wire_directed.ops`).
-/
namespace CwPlus.Props.Ics20Wire
open CwPlus CwPlus.Ics20 CwPlus.Ics20Wire

/-! ## What is supported -/

/-- The texts for which the round trip is proved: all of them.  (Kept as an explicit predicate: it is the
place where a restriction would have to be stated.) -/
def SupportedText (_s : String) : Prop := True

instance (s : String) : Decidable (SupportedText s) := isTrue trivial

/-- The packets for which the round trip is proved: the amount is a `Uint128`, every text is supported. -/
def SupportedPacket (p : Json.Packet) : Prop :=
  p.amount < 2 ^ 128 ∧ SupportedText p.denom ∧ SupportedText p.receiver ∧ SupportedText p.sender ∧
    (∀ m, p.memo = some m → SupportedText m)

instance (p : Json.Packet) : Decidable (SupportedPacket p) :=
  if h : p.amount < 2 ^ 128 then isTrue ⟨h, trivial, trivial, trivial, fun _ _ => trivial⟩
  else isFalse fun h' => h h'.1

theorem supportedPacket_iff (p : Json.Packet) : SupportedPacket p ↔ p.amount < 2 ^ 128 :=
  ⟨fun h => h.1, fun h => ⟨h, trivial, trivial, trivial, fun _ _ => trivial⟩⟩

/-- `Ics20Packet::validate` (amount ≤ u64::MAX, checked before sending) implies support. -/
theorem supported_of_validate (p : Json.Packet) (h : p.amount ≤ U64_MAX) : SupportedPacket p :=
  (supportedPacket_iff p).2 (by unfold U64_MAX at h; omega)

/-! ## Strings -/

/-- **unescape ∘ escape = id** (`parse_string` after `serialize_str`), for every supported text and whatever
follows the closing quote: the scanner finds exactly the closing quote that `serialize_str` wrote, `unescape`
(or the raw path, when no escape was needed) gives back the bytes, and they are the UTF-8 of the same string. -/
theorem unescape_escape (s : String) (_h : SupportedText s) (rest : Json.Bytes) :
    Json.parseStrTok (Json.escape (Json.strBytes s) ++ 0x22 :: rest) = .ok (s, rest) :=
  Json.parseStrTok_encStr s rest

/-- the byte-level core: `unescape` undoes `escape` on every byte string -/
theorem unescape_escape_bytes (bs : Json.Bytes) : Json.unescapeGo {} (Json.escape bs) = .ok bs :=
  Json.unescape_escape bs

example : Json.escape (Json.strBytes "a\"b\\c\nd\x01é/") = Json.strBytes "a\\\"b\\\\c\\nd\\u0001é/" := by decide
example : Json.parseStrTok (Json.strBytes "a\\\"b\\\\c\\nd\\u0001é\\/\" tail") = .ok ("a\"b\\c\nd\x01é/", Json.strBytes " tail") := by
  decide

/-! ## Packets -/

private theorem fieldValue_amount (f d : Nat) (acc : Json.Acc) (n : Nat) (rest : Json.Bytes) (ha : acc.amount = none)
    (h : n < 2 ^ 128) :
    Json.fieldValue f d acc "amount" (Json.amountTok n ++ rest) = .ok ({ acc with amount := some n }, rest) := by
  simp [Json.fieldValue, ha, Json.parseAmountValue_amountTok n rest h]

private theorem fieldValue_denom (f d : Nat) (acc : Json.Acc) (s : String) (rest : Json.Bytes) (ha : acc.denom = none) :
    Json.fieldValue f d acc "denom" (Json.encStr s ++ rest) = .ok ({ acc with denom := some s }, rest) := by
  simp [Json.fieldValue, ha, Json.parseStringValue_encStr]

private theorem fieldValue_receiver (f d : Nat) (acc : Json.Acc) (s : String) (rest : Json.Bytes)
    (ha : acc.receiver = none) :
    Json.fieldValue f d acc "receiver" (Json.encStr s ++ rest) = .ok ({ acc with receiver := some s }, rest) := by
  simp [Json.fieldValue, ha, Json.parseStringValue_encStr]

private theorem fieldValue_sender (f d : Nat) (acc : Json.Acc) (s : String) (rest : Json.Bytes) (ha : acc.sender = none) :
    Json.fieldValue f d acc "sender" (Json.encStr s ++ rest) = .ok ({ acc with sender := some s }, rest) := by
  simp [Json.fieldValue, ha, Json.parseStringValue_encStr]

private theorem fieldValue_memo (f d : Nat) (acc : Json.Acc) (s : String) (rest : Json.Bytes) (ha : acc.memo = none) :
    Json.fieldValue f d acc "memo" (Json.encStr s ++ rest) = .ok ({ acc with memo := some (some s) }, rest) := by
  simp [Json.fieldValue, ha, Json.parseOptStringValue_encStr]

/-- **decode ∘ encode = id** on bytes: `from_json::<Ics20Packet>(to_json_binary(&p)) = Ok(p)` for every
supported packet (amount < 2^128, any texts, memo present or not). -/
theorem decode_encode_packet_bytes (p : Json.Packet) (h : SupportedPacket p) :
    Json.decodePacketBytes (Json.encodePacketBytes p) = .ok p := by
  have h := h.1
  obtain ⟨k1, k2, k3, k4, k5, _, _⟩ := Json.keys_escape
  obtain ⟨a, dn, rc, sn, memo⟩ := p
  simp only at h
  unfold Json.decodePacketBytes
  generalize hf : Json.fuelFor (Json.encodePacketBytes ⟨a, dn, rc, sn, memo⟩) = fuel
  obtain ⟨f, rfl⟩ : ∃ f, fuel = f + 6 := ⟨fuel - 6, by simp [Json.fuelFor] at hf; omega⟩
  simp only [Json.encodePacketBytes]
  rw [Json.skipWs_cons _ _ (by decide)]
  simp only [if_true, k1, k2, k3, k4, k5]
  rw [Json.parseFields_first _ _ _ _ _ _ _ (fieldValue_amount _ _ _ a _ rfl h)]
  rw [Json.parseFields_next _ _ _ _ _ _ _ (fieldValue_denom _ _ _ dn _ rfl)]
  rw [Json.parseFields_next _ _ _ _ _ _ _ (fieldValue_receiver _ _ _ rc _ rfl)]
  rw [Json.parseFields_next _ _ _ _ _ _ _ (fieldValue_sender _ _ _ sn _ rfl)]
  cases memo with
  | none =>
    simp only [List.nil_append]
    rw [Json.parseFields_end]
    simp [Json.skipWs]
  | some m =>
    simp only [List.cons_append]
    rw [Json.parseFields_next _ _ _ _ _ _ _ (fieldValue_memo _ _ _ m _ rfl)]
    rw [Json.parseFields_end]
    simp [Json.skipWs]

/-- the encoder writes UTF-8: the `String` front end loses nothing -/
theorem encodePacket_bytes (p : Json.Packet) : Json.strBytes (Json.encodePacket p) = Json.encodePacketBytes p :=
  Json.strBytes_bytesToString (Json.isText_encodePacketBytes p)

/-- **decode_encode_packet**: `decodePacket (encodePacket p) = .ok p` for every supported packet. -/
theorem decode_encode_packet (p : Json.Packet) (h : SupportedPacket p) :
    Json.decodePacket (Json.encodePacket p) = .ok p := by
  unfold Json.decodePacket
  rw [encodePacket_bytes, decode_encode_packet_bytes p h]

/-- **encodePacket_injective** (bytes): different supported packets have different wire forms. -/
theorem encodePacketBytes_injective (p q : Json.Packet) (hp : SupportedPacket p) (hq : SupportedPacket q)
    (h : Json.encodePacketBytes p = Json.encodePacketBytes q) : p = q := by
  have h1 := decode_encode_packet_bytes p hp
  rw [h, decode_encode_packet_bytes q hq] at h1
  injection h1 with h1
  exact h1.symm

/-- **encodePacket_injective** -/
theorem encodePacket_injective (p q : Json.Packet) (hp : SupportedPacket p) (hq : SupportedPacket q)
    (h : Json.encodePacket p = Json.encodePacket q) : p = q := by
  apply encodePacketBytes_injective p q hp hq
  rw [← encodePacket_bytes, ← encodePacket_bytes, h]

/-- a supported packet with an escape-needing memo, and its wire form -/
example : SupportedPacket ⟨5, "uatom", "re\"mote", "alice", some "a\nb\\"⟩ := by decide
example : Json.encodePacket ⟨5, "uatom", "re\"mote", "alice", some "a\nb\\"⟩ =
    "{\"amount\":\"5\",\"denom\":\"uatom\",\"receiver\":\"re\\\"mote\",\"sender\":\"alice\",\"memo\":\"a\\nb\\\\\"}" := by
  decide
example : Json.encodePacket ⟨18446744073709551615, "cw20:T1", "bob", "alice", none⟩ =
    "{\"amount\":\"18446744073709551615\",\"denom\":\"cw20:T1\",\"receiver\":\"bob\",\"sender\":\"alice\"}" := by decide
/-- the hypothesis is needed: 2^128 is written but not read back -/
example : (Json.decodePacket (Json.encodePacket ⟨2 ^ 128, "d", "r", "s", none⟩)).toOption = none := by decide

/-! ## Acknowledgements -/

/-- **decode ∘ encode = id** for acknowledgements, on bytes. -/
theorem decode_encode_ack_bytes (a : Json.Ack) : Json.decodeAckBytes (Json.encodeAckBytes a) = .ok a := by
  cases a with
  | success => decide
  | error t =>
    obtain ⟨_, _, _, _, _, _, k7⟩ := Json.keys_escape
    have hv := Json.parseStringValue_encStr t [0x7d]
    have hk : Json.parseStringValue (0x22 :: (Json.escape (Json.strBytes "error") ++
        0x22 :: 0x3a :: (Json.encStr t ++ [0x7d]))) = .ok ("error", 0x3a :: (Json.encStr t ++ [0x7d])) := by
      simp [Json.parseStringValue, Json.skipWs_cons, Json.isWs, Json.parseStrTok_encStr]
    unfold Json.decodeAckBytes
    simp only [Json.encodeAckBytes, Json.field, k7, List.cons_append, List.append_assoc]
    rw [Json.skipWs_cons _ _ (by decide)]
    simp only [if_true, hk, Json.parseColon_colon, hv]
    simp [Json.skipWs, Json.isWs]

theorem encodeAck_bytes (a : Json.Ack) : Json.strBytes (Json.encodeAck a) = Json.encodeAckBytes a :=
  Json.strBytes_bytesToString (Json.isText_encodeAckBytes a)

/-- **decode_encode_ack** -/
theorem decode_encode_ack (a : Json.Ack) : Json.decodeAck (Json.encodeAck a) = .ok a := by
  unfold Json.decodeAck
  rw [encodeAck_bytes, decode_encode_ack_bytes]

/-- **ack_success_ne_error**: no error text makes the bytes of the success acknowledgement (nor bytes that decode
to it): the third byte is `r` in one and `e` in the other. -/
theorem ack_success_ne_error (t : String) :
    Json.encodeAckBytes (.error t) ≠ Json.encodeAckBytes .success ∧
    Json.encodeAck (.error t) ≠ Json.encodeAck .success ∧
    Json.decodeAckBytes (Json.encodeAckBytes (.error t)) ≠ .ok .success := by
  have h1 : Json.encodeAckBytes (.error t) ≠ Json.encodeAckBytes .success := by
    intro h
    have := congrArg Json.decodeAckBytes h
    rw [decode_encode_ack_bytes, decode_encode_ack_bytes] at this
    cases this
  refine ⟨h1, ?_, ?_⟩
  · intro h
    apply h1
    rw [← encodeAck_bytes, ← encodeAck_bytes, h]
  · rw [decode_encode_ack_bytes]; intro h; cases h

/-- the monitor's classification of acknowledgement bytes (`C12/ack-wire-format`) is right on everything the
encoder writes -/
theorem ackClass_encode (a : Json.Ack) :
    ackClass (Json.encodeAckBytes a) = some (match a with | .success => Ack.success | .error _ => Ack.error) := by
  unfold ackClass
  rw [decode_encode_ack_bytes]
  cases a <;> simp

example : Json.encodeAck .success = "{\"result\":\"MQ==\"}" := by decide
example : Json.encodeAck (.error "a\"b") = "{\"error\":\"a\\\"b\"}" := by decide
example : ackData .success = some (Json.strBytes "{\"result\":\"MQ==\"}") := by decide

/-! ## Totality -/

/-- **decode_total**: on every input the decoders answer with a value or with an error.  (True by
construction: they are total Lean functions — structural recursion on the input or on a fuel argument, no
`partial`, no `panic` — which is the point: the Rust code's `unreachable!()` arms and `hex_decode_4bit`'s panic
are not reachable for these two types, and the harness runs arbitrary bytes under `catch_unwind`.) -/
theorem decode_total (bs : Json.Bytes) :
    ((∃ p, Json.decodePacketBytes bs = .ok p) ∨ (∃ e, Json.decodePacketBytes bs = .error e)) ∧
    ((∃ a, Json.decodeAckBytes bs = .ok a) ∨ (∃ e, Json.decodeAckBytes bs = .error e)) := by
  constructor
  · cases h : Json.decodePacketBytes bs with
    | ok p => exact Or.inl ⟨p, rfl⟩
    | error e => exact Or.inr ⟨e, rfl⟩
  · cases h : Json.decodeAckBytes bs with
    | ok a => exact Or.inl ⟨a, rfl⟩
    | error e => exact Or.inr ⟨e, rfl⟩

/-- **decode_fuel_sufficient**: the fuel argument that makes the loops of the decoder structurally recursive is
never the reason for an answer — `decodePacketBytes` hands out `2·len + 16`, every loop iteration and every
recursive descent (`parseFields`, `skipValue`, `skipSeq`, `skipMap`) consumes at least one byte per two units.
So the error the model reports is always one the real deserializer reports too, never an artefact. -/
theorem decode_fuel_sufficient (bs : Json.Bytes) : Json.decodePacketBytes bs ≠ .error .fuel :=
  Json.decodePacketBytes_ne_fuel bs

set_option maxRecDepth 100000 in
/-- deep nesting is refused because of the recursion limit of serde-json-wasm (128), not for lack of fuel -/
example : Json.decodePacketBytes (Json.strBytes ("{\"x\":" ++ String.ofList (List.replicate 200 '[')))
    = .error .recursionLimitExceeded := by decide

/-! ## Sending: the bytes of `IbcMsg::SendPacket` -/

/-- **transfer_emits_encoded_packet** (C12 `transfer_emits_one_packet` on the wire): every accepted transfer
emits exactly one `IbcMsg::SendPacket` whose `data` is `encodePacket` of the escrowed amount, the denomination
(`<denom>` resp. `cw20:<token>`), the true sender, the requested receiver and memo — and decoding those bytes on
the other side yields exactly these five fields. -/
theorem transfer_emits_encoded_packet {w w' : World} {blk : Block} {o : Outcome} :
    (∀ snd funds msg, w.exec blk (.transferNative snd funds msg) = .ok (w', o) →
      ∃ d amt, funds = [(d, amt)] ∧
        o.sent.map (fun x => packetData x.packet) = [Json.encodePacketBytes ⟨amt, d, msg.remote, snd, msg.memo⟩] ∧
        Json.decodePacketBytes (Json.encodePacketBytes ⟨amt, d, msg.remote, snd, msg.memo⟩) =
          .ok ⟨amt, d, msg.remote, snd, msg.memo⟩) ∧
    (∀ snd token amt msg, w.exec blk (.sendCw20 snd token amt msg) = .ok (w', o) →
      ∃ m, msg = some m ∧
        o.sent.map (fun x => packetData x.packet) =
          [Json.encodePacketBytes ⟨amt, "cw20:" ++ token, m.remote, snd, m.memo⟩] ∧
        Json.decodePacketBytes (Json.encodePacketBytes ⟨amt, "cw20:" ++ token, m.remote, snd, m.memo⟩) =
          .ok ⟨amt, "cw20:" ++ token, m.remote, snd, m.memo⟩) ∧
    (∀ snd funds sender amt msg, w.exec blk (.hook snd funds sender amt msg) = .ok (w', o) →
      ∃ m, msg = some m ∧
        o.sent.map (fun x => packetData x.packet) =
          [Json.encodePacketBytes ⟨amt, "cw20:" ++ snd, m.remote, sender.text, m.memo⟩] ∧
        Json.decodePacketBytes (Json.encodePacketBytes ⟨amt, "cw20:" ++ snd, m.remote, sender.text, m.memo⟩) =
          .ok ⟨amt, "cw20:" ++ snd, m.remote, sender.text, m.memo⟩) := by
  obtain ⟨h1, h2, h3⟩ := @C12.transfer_emits_one_packet w w' blk o
  refine ⟨?_, ?_, ?_⟩
  · intro snd funds msg h
    obtain ⟨d, amt, hf, _, hle, hs, _⟩ := h1 snd funds msg h
    refine ⟨d, amt, hf, ?_, decode_encode_packet_bytes _ (supported_of_validate _ hle)⟩
    rw [hs]; rfl
  · intro snd token amt msg h
    obtain ⟨m, hm, _, hle, hs, _⟩ := h2 snd token amt msg h
    refine ⟨m, hm, ?_, decode_encode_packet_bytes _ (supported_of_validate _ hle)⟩
    rw [hs]; rfl
  · intro snd funds sender amt msg h
    obtain ⟨m, hm, _, hle, hs⟩ := h3 snd funds sender amt msg h
    refine ⟨m, hm, ?_, decode_encode_packet_bytes _ (supported_of_validate _ hle)⟩
    rw [hs]; rfl

/-- the bytes of the packet of `C12.hist`'s first transfer (40 T1 from alice, memo "memo") -/
example : ((C12.w0.exec C12.b0 (.sendCw20 "alice" "T1" 40 (some C12.tm))).toOption.map
      (fun r => r.2.sent.map (fun x => Json.bytesToString (packetData x.packet)))) =
    some ["{\"amount\":\"40\",\"denom\":\"cw20:T1\",\"receiver\":\"remote-bob\",\"sender\":\"alice\",\"memo\":\"memo\"}"] := by
  decide

/-- … and of a native transfer whose receiver and memo need escaping -/
example : ((C12.w0.exec C12.b0 (.transferNative "alice" [("uatom", 60)] ⟨"channel-0", "bob\"\\", none, some "line\nbreak\x01"⟩)).toOption.map
      (fun r => r.2.sent.map (fun x => Json.bytesToString (packetData x.packet)))) =
    some ["{\"amount\":\"60\",\"denom\":\"uatom\",\"receiver\":\"bob\\\"\\\\\",\"sender\":\"alice\",\"memo\":\"line\\nbreak\\u0001\"}"] := by
  decide

/-! ## Receiving: the bytes of `IbcPacket.data` -/

/-- **receive_decodes_or_error_ack**: `ibc_packet_receive` on a packet with data `d`.  If `decodePacket d`
fails, the answer is an error acknowledgement, no sub-message, and the state is the old one; otherwise the entry
point behaves as the receive model of `Model/Ics20.lean` on the decoded amount, the voucher denomination split at
its first two `/`, the decoded receiver and sender.  (This replaces the trusted `raw=1` flag by a computed fact.) -/
theorem receive_decodes_or_error_ack (s : State) (srcPort srcChan destChan : String) (d : Json.Bytes) (tv : Bool) :
    (∀ e, Json.decodePacketBytes d = .error e →
      ibcPacketReceiveData s srcPort srcChan destChan d tv = (s, .error, none)) ∧
    (∀ p, Json.decodePacketBytes d = .ok p →
      ibcPacketReceiveData s srcPort srcChan destChan d tv =
        ibcPacketReceive s ⟨srcPort, srcChan, destChan, some p.amount, splitVoucher p.denom, p.receiver, p.sender⟩ tv) := by
  constructor
  · intro e h
    simp [ibcPacketReceiveData, packetInOfData, h, ibcPacketReceive, doReceive]
  · intro p h
    simp [ibcPacketReceiveData, packetInOfData, h]

/-- the transaction: undecodable data is answered with an error acknowledgement and the **world** (contract
state, every balance) is unchanged, whatever the flags -/
theorem receive_undecodable_tx (w : World) (blk : Block) (srcPort srcChan destChan : String) (d : Json.Bytes)
    (rv tv f : Bool) (e : Json.DecodeErr) (h : Json.decodePacketBytes d = .error e) :
    w.exec blk (.recv (packetInOfData srcPort srcChan destChan d) rv tv f) =
      .ok (w, { ack := some .error, sent := [], sub := none }) := by
  simp [World.exec, packetInOfData, h, ibcPacketReceive, doReceive, World.dispatch]

/-- what the contract writes is what it reads: a packet sent by this contract on one chain arrives on the other as
the same amount / denomination / receiver / sender -/
theorem receive_of_sent (s : State) (srcPort srcChan destChan : String) (p : Packet) (tv : Bool)
    (h : p.amount ≤ U64_MAX) :
    ibcPacketReceiveData s srcPort srcChan destChan (packetData p) tv =
      ibcPacketReceive s ⟨srcPort, srcChan, destChan, some p.amount, splitVoucher p.denom.render, p.receiver, p.sender⟩ tv :=
  (receive_decodes_or_error_ack s srcPort srcChan destChan (packetData p) tv).2 (toWire p)
    (decode_encode_packet_bytes _ (supported_of_validate _ h))

/-- undecodable: a duplicate field -/
example : (packetInOfData "transfer" "channel-10" "channel-0"
    (Json.strBytes "{\"amount\":\"1\",\"amount\":\"1\",\"denom\":\"d\",\"receiver\":\"r\",\"sender\":\"s\"}")).amount = none := by
  decide
/-- decodable, with an unknown field, a leading `+` and whitespace: the fields of the packet `C12.pkt (.cw20 "T1") 15`
of the non-vacuity history of C12 (15 T1 for alice; `splitVoucher` — `String.splitOn` — is not evaluated by the
kernel, the voucher is shown on the decoded denomination) -/
example :
    Json.decodePacketBytes (Json.strBytes " {\"x\":[1,{}],\"amount\":\"+15\",\"denom\":\"transfer/channel-10/cw20:T1\", \"receiver\":\"alice\",\"sender\":\"remote-bob\"}\n") =
      .ok ⟨15, "transfer/channel-10/cw20:T1", "alice", "remote-bob", none⟩ := by
  decide
example :
    ((packetInOfData "transfer" "channel-10" "channel-0"
      (Json.strBytes " {\"x\":[1,{}],\"amount\":\"+15\",\"denom\":\"transfer/channel-10/cw20:T1\", \"receiver\":\"alice\",\"sender\":\"remote-bob\"}\n")).amount,
     (packetInOfData "transfer" "channel-10" "channel-0"
      (Json.strBytes " {\"x\":[1,{}],\"amount\":\"+15\",\"denom\":\"transfer/channel-10/cw20:T1\", \"receiver\":\"alice\",\"sender\":\"remote-bob\"}\n")).receiver) =
      (some 15, "alice") := by
  decide

/-! ## Acknowledgements coming in -/

/-- **ack_decodes_or_aborts**: `ibc_packet_ack` with acknowledgement bytes `a`: if `decodeAck a` fails the entry
point fails (the transaction is aborted, nothing changes); a `result` acknowledgement only checks that the
original packet decodes; an `error` acknowledgement (whatever its text) runs `on_packet_failure`. -/
theorem ack_decodes_or_aborts (s : State) (chan : String) (orig : Option Packet) (a : Json.Bytes) (tv : Bool) :
    (∀ e, Json.decodeAckBytes a = .error e → ibcPacketAckData s chan orig a tv = .error "decode.ack") ∧
    (Json.decodeAckBytes a = .ok .success → ibcPacketAckData s chan orig a tv = ibcPacketAck s chan orig (some true) tv) ∧
    (∀ t, Json.decodeAckBytes a = .ok (.error t) →
      ibcPacketAckData s chan orig a tv = ibcPacketAck s chan orig (some false) tv) := by
  refine ⟨?_, ?_, ?_⟩
  · intro e h; simp [ibcPacketAckData, ackOkOfData, h, ibcPacketAck]
  · intro h; simp [ibcPacketAckData, ackOkOfData, h]
  · intro t h; simp [ibcPacketAckData, ackOkOfData, h]

example : ackOkOfData (Json.strBytes "{\"result\":\"AQ==\"}") = some true := by decide
example : ackOkOfData (Json.strBytes "{\"error\":\"ABCI code: 5: error handling packet\"}") = some false := by decide
example : ackOkOfData (Json.strBytes "{\"result\":\"AR==\"}") = none := by decide

end CwPlus.Props.Ics20Wire
