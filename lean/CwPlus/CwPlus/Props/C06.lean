import CwPlus.Lemmas.Cw3Fixed
import CwPlus.Lemmas.Cw3FixedAt
/-!
# C06 (cw3-fixed part) — each ballot is one eligible voter's weight from the fixed voter list

cw3-fixed-multisig: the membership snapshot a proposal is opened against is the voter list fixed at
instantiation.  All theorems are about the model `Model/Cw3Fixed.lean` (shared core
`Model/Cw3Core.lean`) and hold for every accepted instantiation and every finite history of
propose / vote / execute / close transactions (with re-entrant self-calls, failing dispatches and
rolled-back transactions), fund transfers and block changes: `Reachable fuel w`.

The cw3-flex part of C06 (group snapshots) is `Props/C06Flex.lean`; the generic lemmas both parts use are in
`Lemmas/Cw3Core.lean` (`WF`, `vote_spec`, `propose_spec`, `tallyOf`, `weightSum_le_sum`, `Later`).
-/
namespace CwPlus.Props.C06
open CwPlus CwPlus.Cw3 CwPlus.Cw3Core CwPlus.Cw3Fixed

/-! ## the voter list: fixed at instantiation, its weights add up to the total -/

/-- C06 "the total weight a proposal's threshold is measured against equals the sum of all voters'
weights": an accepted instantiation stores every listed voter under its own key (a repeated
address is refused) and the configured total is the sum of the stored weights, which is the sum of
the listed weights. -/
theorem total_eq_sum_voters {m : InstMsg} {s : State} (h : instantiate m = .ok s) :
    s.cfg.totalWeight = AMap.sum s.voters ∧ AMap.NodupKeys s.voters ∧
    s.cfg.totalWeight = (m.voters.map (·.2)).sum ∧ (m.voters.map (·.1.text)).Nodup := by
  have hi := instantiate_inv h
  refine ⟨hi.total, hi.votersNodup, ?_, ?_⟩
  · simp [instantiate] at h
    obtain ⟨_, total, hsum, _, voters, _, rfl⟩ := h
    simpa using sumWeights_eq _ _ _ hsum
  · simp [instantiate] at h
    obtain ⟨_, total, _, _, voters, hadd, rfl⟩ := h
    -- the loop refuses an address that is already stored
    have key : ∀ (l : List (AddrArg × Nat)) (m0 m1 : AMap Addr Nat), addVoters l m0 = .ok m1 →
        (l.map (·.1.text)).Nodup ∧ ∀ a ∈ l, m0.get? a.1.text = none := by
      intro l
      induction l with
      | nil => intro m0 m1 _; simp
      | cons p rest ih =>
        intro m0 m1 h
        obtain ⟨a, w⟩ := p
        simp [addVoters] at h
        obtain ⟨_, hnone, h⟩ := h
        obtain ⟨hnd, hfresh⟩ := ih _ _ h
        refine ⟨?_, ?_⟩
        · simp only [List.map_cons, List.nodup_cons]
          refine ⟨?_, hnd⟩
          intro hmem
          obtain ⟨x, hx, e⟩ := List.mem_map.mp hmem
          have := hfresh x hx
          rw [← e, AMap.get?_set_eq] at this
          cases this
        · intro x hx
          rcases List.mem_cons.mp hx with e | hx
          · subst e; exact hnone
          · have := hfresh x hx
            by_cases e : a.text = x.1.text
            · rw [← e, AMap.get?_set_eq] at this; cases this
            · rwa [AMap.get?_set_ne _ _ _ _ e] at this
    exact (key _ _ _ hadd).1

/-- C06 "membership never changes" (cw3-fixed has no message that edits the voter list): after any
history the voter list, the threshold and the total are those fixed at instantiation. -/
theorem voters_never_change (fuel : Nat) (w : World) (ops : List Op) :
    (run fuel w ops).ms.voters = w.ms.voters ∧ (run fuel w ops).ms.cfg = w.ms.cfg := by
  have := run_state_inv (fun s => s.voters = w.ms.voters ∧ s.cfg = w.ms.cfg)
    (fun blk s snd m s' out hp h => by
      obtain ⟨h1, h2⟩ := execute_frame h
      exact ⟨h2.trans hp.1, h1.trans hp.2⟩) fuel ops w ⟨rfl, rfl⟩
  exact this

/-- Every proposal of a reachable state carries the configured threshold and a total weight equal
to the sum of the voters' weights. -/
theorem proposal_total_eq_sum_voters {fuel : Nat} {w : World} (hr : Reachable fuel w) {id : Nat} {p : Proposal}
    (hp : w.ms.core.proposals.get? id = some p) :
    p.totalWeight = AMap.sum w.ms.voters ∧ p.threshold = w.ms.cfg.threshold := by
  have hi := reachable_inv hr
  exact ⟨(hi.propCfg id p hp).1.trans hi.total, (hi.propCfg id p hp).2.1⟩

/-! ## ballots -/

/-- C06 "each address has at most one ballot per proposal": ballots are keyed `(proposal, voter)`
and the ballot map of every proposal has no repeated key … -/
theorem one_ballot {fuel : Nat} {w : World} (hr : Reachable fuel w) (id : Nat) :
    AMap.NodupKeys (ballotsOf w.ms.core id) :=
  (reachable_inv hr).wf.nodup id

/-- … a second vote of the same address on the same proposal is refused (`AlreadyVoted`) … -/
theorem vote_twice_fails {s : State} {blk : Block} {snd : Addr} {id : Nat} {v : Vote} {b : Ballot}
    (hb : (ballotsOf s.core id).get? snd = some b) : (execute s blk snd (.vote id v)).isOk = false := by
  cases h : execute s blk snd (.vote id v) with
  | error e => rfl
  | ok r =>
    obtain ⟨s', out⟩ := r
    obtain ⟨_, _, hc⟩ := execute_cases h
    rcases hc with ⟨_, _, _, _, _, _, hm, _⟩ | ⟨id', v', hm, _, hv⟩ | ⟨_, hm, _⟩ | ⟨_, hm, _⟩ <;> cases hm
    obtain ⟨_, _, _, _, _, _, _, _, _, hnb, _⟩ := vote_spec hv
    rw [hb] at hnb; cases hnb

/-- … and a recorded ballot is never changed or removed by anything that happens later. -/
theorem ballot_never_changes {fuel : Nat} {w : World} (hr : Reachable fuel w) (ops : List Op)
    {id : Nat} {a : Addr} {b : Ballot} (hb : (ballotsOf w.ms.core id).get? a = some b) :
    (ballotsOf (run fuel w ops).ms.core id).get? a = some b := by
  have := run_rel (fun s s' => Later s.core s'.core) (fun s => later_refl _) (fun _ _ _ h1 h2 => later_trans h1 h2)
    (fun blk s snd m s' out hi h => execute_later hi h) fuel ops w (reachable_inv hr)
  exact this.ballots id a b hb

/-- C06 "its recorded weight equals that address's voting weight": every ballot's weight is the
weight of its voter in the voter list (which is the list fixed at instantiation,
`voters_never_change`).  In particular every ballot belongs to a listed voter. -/
theorem ballot_weight_eq_voter_weight {fuel : Nat} {w : World} (hr : Reachable fuel w)
    {id : Nat} {a : Addr} {b : Ballot} (hb : (ballotsOf w.ms.core id).get? a = some b) :
    w.ms.voters.get? a = some b.weight :=
  (reachable_inv hr).ballotWeight id a b hb

/-- C06 "addresses with no or zero weight cannot vote": a Vote by an address that is not a voter
or has weight 0 is refused … -/
theorem zero_weight_cannot_vote {s : State} {blk : Block} {snd : Addr} {id : Nat} {v : Vote}
    (hz : (s.voters.get? snd).getD 0 = 0) : (execute s blk snd (.vote id v)).isOk = false := by
  cases h : execute s blk snd (.vote id v) with
  | error e => rfl
  | ok r =>
    obtain ⟨s', out⟩ := r
    obtain ⟨_, _, hc⟩ := execute_cases h
    rcases hc with ⟨_, _, _, _, _, _, hm, _⟩ | ⟨id', v', hm, _, hv⟩ | ⟨_, hm, _⟩ | ⟨_, hm, _⟩ <;> cases hm
    obtain ⟨_, w, _, _, _, _, _, hw, hw1, _⟩ := vote_spec hv
    rw [hw] at hz; simp at hz; omega

/-- … so "only the proposer's implicit Yes may carry zero weight": every recorded ballot has weight
≥ 1 or is the Yes ballot of the proposal's proposer. -/
theorem zero_weight_ballot_is_proposers_yes {fuel : Nat} {w : World} (hr : Reachable fuel w)
    {id : Nat} {p : Proposal} {a : Addr} {b : Ballot}
    (hp : w.ms.core.proposals.get? id = some p) (hb : (ballotsOf w.ms.core id).get? a = some b) :
    1 ≤ b.weight ∨ (a = p.proposer ∧ b.vote = .yes) :=
  (reachable_inv hr).ballotPos id p a b hp hb

/-- A non-member cannot propose either (so even the implicit ballot belongs to a listed voter). -/
theorem outsider_cannot_propose {s : State} {blk : Block} {snd : Addr} {t d : String} {msgs : List Msg}
    {latest : Option Expiration} (hz : s.voters.get? snd = none) :
    (execute s blk snd (.propose t d msgs latest)).isOk = false := by
  cases h : execute s blk snd (.propose t d msgs latest) with
  | error e => rfl
  | ok r =>
    obtain ⟨s', out⟩ := r
    obtain ⟨_, _, hc⟩ := execute_cases h
    rcases hc with ⟨_, _, _, _, w, _, hm, hw, _⟩ | ⟨_, _, hm, _⟩ | ⟨_, hm, _⟩ | ⟨_, hm, _⟩ <;> cases hm
    rw [hz] at hw; cases hw

/-- C06 "cast before expiry on a proposal not yet executed": a Vote is accepted only while the
proposal is not expired at the current block and its stored status is Open, Passed or Rejected
(never Executed); the ballot then records exactly the sender's voter weight, which is ≥ 1. -/
theorem vote_requires_open_window {s s' : State} {blk : Block} {snd : Addr} {id : Nat} {v : Vote} {out : List Msg}
    (h : execute s blk snd (.vote id v) = .ok (s', out)) :
    ∃ p w, s.core.proposals.get? id = some p ∧ p.expires.isExpired blk = false ∧
      (p.status = .open ∨ p.status = .passed ∨ p.status = .rejected) ∧ p.status ≠ .executed ∧
      s.voters.get? snd = some w ∧ 1 ≤ w ∧ (ballotsOf s.core id).get? snd = none ∧
      (ballotsOf s'.core id).get? snd = some ⟨w, v⟩ := by
  obtain ⟨_, _, hc⟩ := execute_cases h
  rcases hc with ⟨_, _, _, _, _, _, hm, _⟩ | ⟨id', v', hm, _, hv⟩ | ⟨_, hm, _⟩ | ⟨_, hm, _⟩ <;> cases hm
  obtain ⟨p, w, votes, st, hp, hvot, hexp, hw, hw1, hnb, _, _, hc'⟩ := vote_spec hv
  refine ⟨p, w, hp, hexp, ?_, ?_, by simpa using hw, hw1, hnb, ?_⟩
  · cases hs : p.status <;> simp_all [votable]
  · cases hs : p.status <;> simp_all [votable]
  · rw [hc', ballotsOf_set]; simp

/-! ## tally and total -/

/-- C03/C06 "the stored tally is the sum of the recorded ballots": for every proposal of a reachable
state, `votes = tallyOf ballots` (per option, the sum of the weights of the ballots for it). -/
theorem tally_is_sum_of_ballots {fuel : Nat} {w : World} (hr : Reachable fuel w) {id : Nat} {p : Proposal}
    (hp : w.ms.core.proposals.get? id = some p) : p.votes = tallyOf (ballotsOf w.ms.core id) :=
  (reachable_inv hr).wf.tally id p hp

/-- C06 "ballots can never outweigh the total": the ballots of a proposal together weigh at most
the proposal's total weight (= the sum of the voters' weights). -/
theorem sum_ballots_le_total {fuel : Nat} {w : World} (hr : Reachable fuel w) {id : Nat} {p : Proposal}
    (hp : w.ms.core.proposals.get? id = some p) : weightSum (ballotsOf w.ms.core id) ≤ p.totalWeight := by
  have hi := reachable_inv hr
  rw [(hi.propCfg id p hp).1, hi.total]
  exact weightSum_le_sum _ _ (hi.wf.nodup id) hi.votersNodup (fun a b hb => hi.ballotWeight id a b hb)

/-- Corollary: the stored tally never exceeds the total (the premise of the threshold arithmetic, C04). -/
theorem tally_le_total {fuel : Nat} {w : World} (hr : Reachable fuel w) {id : Nat} {p : Proposal}
    (hp : w.ms.core.proposals.get? id = some p) :
    p.votes.yes + p.votes.no + p.votes.abstain + p.votes.veto ≤ p.totalWeight := by
  have h1 := sum_ballots_le_total hr hp
  rw [weightSum_eq] at h1
  rw [tally_is_sum_of_ballots hr hp]
  simpa [tallyOf] using h1

/-! ## non-vacuity: a concrete history -/

/-- voters a:2, b:1, z:0 (zero weight), threshold 3 of 3 -/
def exInst : InstMsg :=
  { voters := [(⟨true, "a"⟩, 2), (⟨true, "b"⟩, 1), (⟨true, "z"⟩, 0)], threshold := .absoluteCount 3,
    maxVotingPeriod := .height 10 }
def exState : State := match instantiate exInst with | .ok s => s | .error _ => default
def exBlk : Block := ⟨100, 1000⟩
def exWorld : World := World.init exState "ms" [(("ms", "ucosm"), 10)] true
/-- z (weight 0) proposes, a and b vote yes, an outsider executes -/
def exOps : List Op :=
  [⟨exBlk, .exec "z" (.propose "t" "d" [.bank "r" 4 "ucosm"] none)⟩, ⟨exBlk, .exec "a" (.vote 1 .yes)⟩,
   ⟨exBlk, .exec "b" (.vote 1 .yes)⟩, ⟨exBlk, .exec "z" (.vote 1 .no)⟩, ⟨exBlk, .exec "x" (.execute 1)⟩]

example : instantiate exInst = .ok exState := rfl
example : Reachable 10 (run 10 exWorld exOps) := ⟨exInst, exState, "ms", _, true, exOps, rfl, rfl⟩
/-- three ballots: the zero-weight proposer's implicit yes and two real votes; the no-vote of z was refused -/
example : ballotsOf (run 10 exWorld exOps).ms.core 1 = [("z", ⟨0, .yes⟩), ("a", ⟨2, .yes⟩), ("b", ⟨1, .yes⟩)] := by decide
example : ((run 10 exWorld exOps).ms.core.proposals.get? 1).map (·.votes) = some ⟨3, 0, 0, 0⟩ := by decide
/-- a repeated address is refused -/
example : (instantiate { exInst with voters := [(⟨true, "a"⟩, 5), (⟨true, "a"⟩, 1), (⟨true, "b"⟩, 1)] }).isOk = false := by decide

/-! ## over histories: the total is the sum of the listed weights; Vote / Propose succeed exactly for listed voters -/

/-- The `for voter in msg.voters` loop stores every listed voter under its own address with its listed weight and keeps
what was stored before (it refuses an address that is already stored: the D2 fix). -/
theorem addVoters_get : ∀ (l : List (AddrArg × Nat)) (m0 m1 : AMap Addr Nat), addVoters l m0 = .ok m1 →
    (∀ a w, (a, w) ∈ l → m1.get? a.text = some w) ∧ (∀ x v, m0.get? x = some v → m1.get? x = some v) ∧
    (∀ x, m1.get? x ≠ none → m0.get? x ≠ none ∨ x ∈ l.map (·.1.text))
  | [], m0, m1, h => by
    simp [addVoters] at h; subst h
    exact ⟨fun a w hm => (by cases hm), fun _ _ h => h, fun x hx => Or.inl hx⟩
  | (a, w) :: rest, m0, m1, h => by
    simp [addVoters] at h
    obtain ⟨_, hnone, h⟩ := h
    obtain ⟨h1, h2, h3⟩ := addVoters_get rest _ _ h
    refine ⟨?_, ?_, ?_⟩
    · intro a' w' hm
      rcases List.mem_cons.mp hm with e | hm
      · cases e; exact h2 a.text w (AMap.get?_set_eq _ _ _)
      · exact h1 a' w' hm
    · intro x v hx
      have hne : a.text ≠ x := by intro e; subst e; rw [hnone] at hx; cases hx
      exact h2 x v (by rw [AMap.get?_set_ne _ _ _ _ hne]; exact hx)
    · intro x hx
      rcases h3 x hx with h | h
      · by_cases e : a.text = x
        · right; simp [e]
        · left; rwa [AMap.get?_set_ne _ _ _ _ e] at h
      · right; simp only [List.map_cons, List.mem_cons]; exact Or.inr h

/-- **`total_eq_sum_voters` over histories (with the D2 fix: duplicate voters are refused).**  After an accepted
instantiation and ANY history — transactions by anybody with re-entrant self-calls and failing dispatches, funding, sink
changes, any blocks — the configured total weight is still the sum of the stored voters' weights and the sum of the
weights listed in the `InstantiateMsg`; the voter list has no repeated key and is the listed one: every listed voter is
stored under its own address with exactly its listed weight, and nobody else is stored. -/
theorem total_eq_sum_voters_run {m : InstMsg} {s : State} (h : instantiate m = .ok s) (fuel : Nat) (self : Addr)
    (bank : AMap (Addr × String) Nat) (sink : Bool) (ops : List Op) :
    let w := run fuel (World.init s self bank sink) ops
    w.ms.cfg.totalWeight = AMap.sum w.ms.voters ∧ w.ms.cfg.totalWeight = (m.voters.map (·.2)).sum ∧
    AMap.NodupKeys w.ms.voters ∧ (m.voters.map (·.1.text)).Nodup ∧
    (∀ a wt, (a, wt) ∈ m.voters → w.ms.voters.get? a.text = some wt) ∧
    (∀ x, w.ms.voters.get? x ≠ none → x ∈ m.voters.map (·.1.text)) := by
  intro w
  obtain ⟨hv, hc⟩ := voters_never_change fuel (World.init s self bank sink) ops
  obtain ⟨h1, h2, h3, h4⟩ := total_eq_sum_voters h
  have hvs : w.ms.voters = s.voters := hv
  have hcs : w.ms.cfg = s.cfg := hc
  rw [hvs, hcs]
  refine ⟨h1, h3, h2, h4, ?_, ?_⟩
  · simp [instantiate] at h
    obtain ⟨_, total, _, _, voters, hadd, rfl⟩ := h
    exact (addVoters_get _ _ _ hadd).1
  · simp [instantiate] at h
    obtain ⟨_, total, _, _, voters, hadd, rfl⟩ := h
    intro x hx
    rcases (addVoters_get _ _ _ hadd).2.2 x hx with h | h
    · simp at h
    · exact h

/-- In a state satisfying the invariant, a voter who has not voted on a proposal fits into its tally: the ballots so far
plus that voter's weight weigh at most the total. -/
theorem room_for_new_ballot {s : State} (hi : Inv s) {id : Nat} {p : Proposal} {snd : Addr} {w : Nat}
    (hp : s.core.proposals.get? id = some p) (hw : s.voters.get? snd = some w)
    (hnb : (ballotsOf s.core id).get? snd = none) :
    p.votes.yes + p.votes.no + p.votes.abstain + p.votes.veto + w ≤ p.totalWeight := by
  have h1 : weightSum ((ballotsOf s.core id).set snd ⟨w, .yes⟩) ≤ AMap.sum s.voters := by
    refine weightSum_le_sum _ _ (AMap.nodup_set (hi.wf.nodup id)) hi.votersNodup (fun a b hb => ?_)
    rw [AMap.get?_set] at hb
    by_cases e : snd = a
    · subst e; simp at hb; subst hb; exact hw
    · simp only [e, if_false] at hb; exact hi.ballotWeight id a b hb
  rw [weightSum_set_new hnb, weightSum_eq] at h1
  rw [(hi.propCfg id p hp).1, hi.total, hi.wf.tally id p hp]
  simpa [tallyOf] using h1

/-- **`vote_ok_iff` (cw3-fixed): who can vote, exactly.**  In every state satisfying the invariant (every reachable state:
`reachable_inv`), a Vote by `snd` on proposal `id` at block `blk` succeeds if and only if the proposal exists, its stored
status is Open, Passed or Rejected, it has not expired at `blk`, the sender is a listed voter of weight ≥ 1, and the sender
has no ballot on it yet — nothing else (the option voted, the tally, the threshold play no role; inside the invariant the
`u64` additions and the status computation cannot fail).  By `vote_requires_open_window` the ballot recorded is exactly
`⟨VOTERS[snd], vote⟩`. -/
theorem vote_ok_iff {s : State} (hi : Inv s) (blk : Block) (snd : Addr) (id : Nat) (v : Vote) :
    (execute s blk snd (.vote id v)).isOk = true ↔
      ∃ p w, s.core.proposals.get? id = some p ∧ votable p.status = true ∧ p.expires.isExpired blk = false ∧
        s.voters.get? snd = some w ∧ 1 ≤ w ∧ (ballotsOf s.core id).get? snd = none := by
  constructor
  · intro h
    cases hx : execute s blk snd (.vote id v) with
    | error e => rw [hx] at h; cases h
    | ok r =>
      obtain ⟨s', out⟩ := r
      obtain ⟨_, _, hc⟩ := execute_cases hx
      rcases hc with ⟨_, _, _, _, _, _, hm, _⟩ | ⟨id', v', hm, _, hv⟩ | ⟨_, hm, _⟩ | ⟨_, hm, _⟩ <;> cases hm
      obtain ⟨p, w, votes, st, hp, hvot, hexp, hw, hw1, hnb, _⟩ := vote_spec hv
      exact ⟨p, w, hp, hvot, hexp, hw, hw1, hnb⟩
  · rintro ⟨p, w, hp, hvot, hexp, hw, hw1, hnb⟩
    have hroom := room_for_new_ballot hi hp hw hnb
    obtain ⟨hT, hthr, _⟩ := hi.propCfg id p hp
    have hu : p.totalWeight ≤ U64_MAX := by rw [hT]; exact hi.totalU64
    -- the `u64` addition cannot overflow
    have hmax : U64_MAX = 18446744073709551615 := rfl
    obtain ⟨votes, hadd, hcast⟩ : ∃ votes, p.votes.add v w = .ok votes ∧
        votes.yes + votes.no + votes.abstain + votes.veto = p.votes.yes + p.votes.no + p.votes.abstain + p.votes.veto + w := by
      cases v
      · have hy : p.votes.yes + w ≤ U64_MAX := by omega
        exact ⟨{ p.votes with yes := p.votes.yes + w }, by simp [Votes.add, addU64, hy, bind, Except.bind, pure, Except.pure], by simp; omega⟩
      · have hy : p.votes.no + w ≤ U64_MAX := by omega
        exact ⟨{ p.votes with no := p.votes.no + w }, by simp [Votes.add, addU64, hy, bind, Except.bind, pure, Except.pure], by simp; omega⟩
      · have hy : p.votes.abstain + w ≤ U64_MAX := by omega
        exact ⟨{ p.votes with abstain := p.votes.abstain + w }, by simp [Votes.add, addU64, hy, bind, Except.bind, pure, Except.pure], by simp; omega⟩
      · have hy : p.votes.veto + w ≤ U64_MAX := by omega
        exact ⟨{ p.votes with veto := p.votes.veto + w }, by simp [Votes.add, addU64, hy, bind, Except.bind, pure, Except.pure], by simp; omega⟩
    -- the status computation cannot fail
    have hprem : CwPlus.Props.C04.Premise (Proposal.tally { p with votes := votes }) := by
      refine ⟨?_, hu, ?_⟩
      · show CwPlus.Props.C04.cast votes ≤ p.totalWeight
        simp only [CwPlus.Props.C04.cast]; omega
      · show p.threshold.validate p.totalWeight = .ok ()
        rw [hT, hthr]; exact hi.thrValid
    obtain ⟨st, hst⟩ := (CwPlus.Props.C04.no_panic hprem blk).2.2
    have hst' : Proposal.currentStatus { p with votes := votes } blk = .ok st := hst
    have hl : load s.core id = .ok p := by simp [hp]
    have hnb' : ((ballotsOf s.core id).get? snd).isNone = true := by simp [hnb]
    have hrw : requireWeight (s.voters.get? snd) = .ok w := by simp [hw, hw1]
    simp [Cw3Fixed.execute, execVote, Cw3Core.vote, hl, hvot, hexp, hrw, hnb', hadd, hst', bind, Except.bind, check,
      pure, Except.pure, Res.isOk]

/-- **`propose_ok_iff` (cw3-fixed): who can propose, exactly.**  In every state satisfying the invariant, a Propose by
`snd` at block `blk` succeeds if and only if the sender is a listed voter (any weight, also 0), the end of the maximum
voting period is representable (`Duration::after` does not overflow `u64`), the requested `latest` is comparable with it
(`chooseExpiry`), and the proposal counter does not overflow — title, description and messages play no role; the status
computation of the fresh proposal cannot fail.  (`proposer_ballot_is_voter_weight`: the implicit Yes ballot records
exactly `VOTERS[snd]`.) -/
theorem propose_ok_iff {s : State} (hi : Inv s) (blk : Block) (snd : Addr) (t d : String) (msgs : List Msg)
    (latest : Option Expiration) :
    (execute s blk snd (.propose t d msgs latest)).isOk = true ↔
      (∃ w, s.voters.get? snd = some w) ∧ (afterChecked s.cfg.maxVotingPeriod blk).isOk = true ∧
      (chooseExpiry (s.cfg.maxVotingPeriod.after blk) latest).isOk = true ∧ s.core.count + 1 ≤ U64_MAX := by
  constructor
  · intro h
    cases hx : execute s blk snd (.propose t d msgs latest) with
    | error e => rw [hx] at h; cases h
    | ok r =>
      obtain ⟨s', out⟩ := r
      obtain ⟨_, _, hc⟩ := execute_cases hx
      rcases hc with ⟨_, _, _, _, w, id0, hm, hw, _, hp⟩ | ⟨_, _, hm, _⟩ | ⟨_, hm, _⟩ | ⟨_, hm, _⟩ <;> cases hm
      have hp' := hp
      simp only [propose, Res.bind_ok] at hp'
      obtain ⟨maxE, h1, _⟩ := hp'
      obtain ⟨expires, st, h2, _, hid, hle, _⟩ := propose_spec hp
      refine ⟨⟨w, hw⟩, by rw [h1]; rfl, by rw [h2]; rfl, by omega⟩
  · rintro ⟨⟨w, hw⟩, h1, h2, h3⟩
    cases ha : afterChecked s.cfg.maxVotingPeriod blk with
    | error e => rw [ha] at h1; cases h1
    | ok maxE =>
      have hmax := afterChecked_eq ha; subst hmax
      cases hc : chooseExpiry (s.cfg.maxVotingPeriod.after blk) latest with
      | error e => rw [hc] at h2; cases h2
      | ok expires =>
        have hwle : w ≤ s.cfg.totalWeight := by
          rw [hi.total]; have := AMap.get?_le_sum s.voters snd; rw [hw] at this; simpa using this
        have hprem : CwPlus.Props.C04.Premise (Proposal.tally ⟨t, d, blk.height, expires, msgs, .open, s.cfg.threshold,
            s.cfg.totalWeight, Votes.ofYes w, snd, none⟩) := by
          refine ⟨?_, hi.totalU64, hi.thrValid⟩
          show CwPlus.Props.C04.cast (Votes.ofYes w) ≤ s.cfg.totalWeight
          simp only [CwPlus.Props.C04.cast, Votes.ofYes]; omega
        obtain ⟨st, hst⟩ := (CwPlus.Props.C04.no_panic hprem blk).2.2
        have hst' : Proposal.currentStatus ⟨t, d, blk.height, expires, msgs, .open, s.cfg.threshold,
            s.cfg.totalWeight, Votes.ofYes w, snd, none⟩ blk = .ok st := hst
        have hmw : memberWeight s snd = .ok w := by simp [hw]
        simp [Cw3Fixed.execute, execPropose, hmw, propose, ha, hc, hst', addU64, h3, bind, Except.bind, pure, Except.pure,
          Res.isOk]

/-- **The proposer's implicit ballot is the proposer's voter weight** (`vote_weight_is_voter_weight` for Propose): a
successful Propose records, for the new proposal `count + 1`, exactly one ballot — `⟨VOTERS[snd], Yes⟩` under the
sender's address — and the initial tally is that weight of Yes. -/
theorem proposer_ballot_is_voter_weight {s s' : State} {blk : Block} {snd : Addr} {t d : String} {msgs : List Msg}
    {latest : Option Expiration} {out : List Msg} (hi : Inv s)
    (h : execute s blk snd (.propose t d msgs latest) = .ok (s', out)) :
    ∃ w p, s.voters.get? snd = some w ∧ ballotsOf s'.core (s.core.count + 1) = [(snd, ⟨w, .yes⟩)] ∧
      s'.core.proposals.get? (s.core.count + 1) = some p ∧ p.votes = Votes.ofYes w ∧ p.proposer = snd := by
  obtain ⟨_, _, hc⟩ := execute_cases h
  rcases hc with ⟨_, _, _, _, w, id0, hm, hw, _, hp⟩ | ⟨_, _, hm, _⟩ | ⟨_, hm, _⟩ | ⟨_, hm, _⟩ <;> cases hm
  obtain ⟨expires, st, _, _, hid, _, hc'⟩ := propose_spec hp
  subst hid
  have hnone : s.core.proposals.get? (s.core.count + 1) = none := hi.wf.fresh (by omega)
  have hb : ballotsOf s.core (s.core.count + 1) = [] := hi.wf.noBallots _ hnone
  refine ⟨w, _, hw, ?_, by rw [hc']; exact AMap.get?_set_eq _ _ _, rfl, rfl⟩
  rw [hc', ballotsOf_set]
  simp [hb, AMap.set]

/-- non-vacuity of `vote_ok_iff` / `propose_ok_iff` / `total_eq_sum_voters_run`: in the reachable example world (total 3 =
2 + 1 + 0, voters a, b, z) before the votes: `a` may vote on proposal 1, the zero-weight `z` and the outsider `x` may
not; `z` may propose, `x` may not. -/
example :
    let w := run 10 exWorld (exOps.take 1)
    (execute w.ms exBlk "a" (.vote 1 .yes)).isOk = true ∧ (execute w.ms exBlk "z" (.vote 1 .no)).isOk = false ∧
    (execute w.ms exBlk "x" (.vote 1 .yes)).isOk = false ∧
    (execute w.ms exBlk "z" (.propose "t" "d" [] none)).isOk = true ∧
    (execute w.ms exBlk "x" (.propose "t" "d" [] none)).isOk = false ∧
    w.ms.cfg.totalWeight = 3 ∧ AMap.sum w.ms.voters = 3 := by
  decide

end CwPlus.Props.C06
