import CwPlus.Lemmas.Cw3Flex
import CwPlus.Lemmas.Cw3StatusTotal
/-!
# C15 — cw3-flex-multisig proposal deposits

Statement (properties.jsonl): a proposal is created only when exactly the configured deposit is paid; the deposit
is refunded only to the proposer, at most once, only when the proposal is executed or — if
`refund_failed_proposals` is set — when it is closed; executed proposals are always refunded; with refunds
enabled the deposit of every failed proposal is recoverable.

The last clause is FALSE of the code (defect D6, open known finding `C15/flex/deposit-stuck-stored-rejected`):
a proposal whose *stored* status is `Rejected` (voted down before expiry, or created already expired) can
never be closed.  It is proved here for proposals that expire while stored `Open`
(`failed_deposit_recoverable_partial`), and the counterexample is machine-checked (`C15_counterexample`).

Model: `Model/Cw3Flex.lean`; a handler returns `List Out`: `Out.bank` / `Out.cw20Transfer` are the refund
messages, `Out.cw20TransferFrom` takes a cw20 deposit, `Out.msg m` is a message of the proposal itself.
-/
namespace CwPlus.Props.C15
open CwPlus CwPlus.Cw3 CwPlus.Cw3Core CwPlus.Cw3Flex

/-- A message that pays out of the multisig on behalf of the deposit logic (as opposed to a message of a proposal). -/
def isPayout : Out → Bool
  | .bank .. => true
  | .cw20Transfer .. => true
  | _ => false

theorem refundMsg_isPayout (d : Deposit) (a : Addr) : isPayout (refundMsg d a) = true := by
  unfold refundMsg; split <;> rfl

theorem takeDeposit_no_payout (d : Deposit) (a self : Addr) : ∀ o ∈ takeDeposit d a self, isPayout o = false := by
  intro o ho; unfold takeDeposit at ho; split at ho <;> simp at ho; subst ho; rfl

/-! ## (1) a proposal is created only with exactly the configured deposit -/

/-- **Clause 1, handler level.**  A successful `Propose`:
* native deposit configured ⇒ the funds sent are exactly one coin `amount denom` of the configured deposit
  (not less, not more, no other coin), nothing is dispatched;
* cw20 deposit configured ⇒ the response is exactly `TransferFrom { owner: proposer, recipient: multisig, amount }`
  on the deposit token (the runtime fails the whole transaction if that transfer fails, see `propose_cw20_tx`);
* no deposit configured ⇒ nothing is dispatched.
The new proposal records the configured deposit and the sender as proposer. -/
theorem propose_takes_exact_deposit {s s' : State} {g : Cw4Group.State} {self : Addr} {blk : Block} {snd : Addr}
    {funds : List Coin} {t d : String} {msgs : List Msg} {latest : Option Expiration} {out : List Out}
    (hi : Inv s) (h : execute s g self blk snd funds (.propose t d msgs latest) = .ok (s', out)) :
    (match s.cfg.deposit with
      | none => out = []
      | some dep =>
        if dep.cw20 then out = [.cw20TransferFrom dep.denom snd self dep.amount]
        else funds = [⟨dep.amount, dep.denom⟩] ∧ out = []) ∧
    ∃ p, s'.core.proposals.get? (s.core.count + 1) = some p ∧ p.deposit = s.cfg.deposit ∧ p.proposer = snd := by
  obtain ⟨_, hc⟩ := execute_cases h
  rcases hc with ⟨t', d', msgs', latest', w, total, id, hm, _, _, hpaid, hout, hp⟩ | ⟨_, _, hm, _⟩ | ⟨_, _, _, hm, _⟩ |
    ⟨_, _, hm, _⟩ | ⟨hm, _⟩ <;> cases hm
  obtain ⟨expires, st, _, _, hid, _, hc'⟩ := propose_spec hp
  constructor
  · cases hd : s.cfg.deposit with
    | none => simp [hd] at hout ⊢; exact hout
    | some dep =>
      have hpos := hi.depositPos dep hd
      have hp' := hpaid dep hd
      simp only [hd] at hout ⊢
      by_cases hcw : dep.cw20 = true
      · simp [hcw, takeDeposit, hpos] at hout ⊢; exact hout
      · simp only [hcw, if_false, Bool.false_eq_true]
        simp [takeDeposit, hcw] at hout
        refine ⟨?_, hout⟩
        unfold checkNativeDepositPaid at hp'
        simp only [hcw, if_false, Bool.false_eq_true] at hp'
        split at hp'
        · cases hp'
        · rename_i c
          simp at hp'
          obtain ⟨_, h2, h3⟩ := hp'
          cases c; simp_all
        · cases hp'
  · rw [hc', ← hid]
    exact ⟨_, AMap.get?_set_eq _ _ _, rfl, rfl⟩

theorem moveFunds_single {bank : AMap (Addr × String) Nat} {frm to : Addr} {amt : Nat} {denom : String} (h : amt ≠ 0) :
    moveFunds bank frm to [⟨amt, denom⟩] = Cw3Fixed.bankSend bank frm to amt denom := by
  have : ([⟨amt, denom⟩] : List Coin).all (fun c => decide (c.amount = 0)) = false := by simp [h]
  simp only [moveFunds, List.isEmpty_cons, Bool.false_eq_true, if_false, this, moveCoins, h]
  cases Cw3Fixed.bankSend bank frm to amt denom <;> rfl

/-- **Clause 1, transaction level, native deposit**: the committed `Propose` transaction moved exactly the
deposit coin from the proposer to the multisig (cw-multi-test moves `info.funds` before the handler runs). -/
theorem propose_native_tx {ext : Ext} {fuel : Nat} {w w' : World} {blk : Block} {snd : Addr} {funds : List Coin}
    {t d : String} {msgs : List Msg} {latest : Option Expiration} {dep : Deposit}
    (hi : Inv w.flex) (hd : w.flex.cfg.deposit = some dep) (hn : dep.cw20 = false)
    (h : tx ext fuel w blk (.flex snd funds (.propose t d msgs latest)) = .ok w') :
    ∃ b, Cw3Fixed.bankSend w.bank snd w.self dep.amount dep.denom = .ok b ∧ w'.bank = b := by
  simp only [tx, Res.bind_ok] at h
  obtain ⟨b, hb, ⟨s', out⟩, he, hdisp⟩ := h
  have := (propose_takes_exact_deposit hi he).1
  simp only [hd, hn, Bool.false_eq_true, if_false] at this
  obtain ⟨hf, rfl⟩ := this
  subst hf
  rw [moveFunds_single (hi.depositPos dep hd)] at hb
  cases fuel <;> simp [dispatch] at hdisp <;> subst hdisp <;> exact ⟨b, hb, rfl⟩

/-- **Clause 1, transaction level, cw20 deposit**: the `Propose` transaction commits only if the deposit token is
the token contract of the world and its `TransferFrom { owner: proposer, recipient: multisig, amount }` — executed
with the multisig as spender — succeeded; the token state of the new world is the one after that transfer. -/
theorem propose_cw20_tx {ext : Ext} {fuel : Nat} {w w' : World} {blk : Block} {snd : Addr} {funds : List Coin}
    {t d : String} {msgs : List Msg} {latest : Option Expiration} {dep : Deposit}
    (hi : Inv w.flex) (hd : w.flex.cfg.deposit = some dep) (hc : dep.cw20 = true)
    (h : tx ext fuel w blk (.flex snd funds (.propose t d msgs latest)) = .ok w') :
    dep.denom = w.tokenAddr ∧
    ∃ t', Cw20.execute w.token blk w.self (.transferFrom ⟨true, snd⟩ ⟨true, w.self⟩ dep.amount) = .ok (t', []) ∧
      w'.token = t' := by
  simp only [tx, Res.bind_ok] at h
  obtain ⟨b, hb, ⟨s', out⟩, he, hdisp⟩ := h
  have := (propose_takes_exact_deposit hi he).1
  simp only [hd, hc, if_true] at this
  subst this
  cases fuel with
  | zero => simp [dispatch] at hdisp
  | succ fuel =>
    simp only [dispatch, Res.bind_ok] at hdisp
    obtain ⟨w1, h1, h2⟩ := hdisp
    have hw1 : w1 = w' := by cases fuel <;> simp [dispatch] at h2 <;> exact h2
    subst hw1
    simp [tokenCall] at h1
    obtain ⟨htok, t', out', hex, hemp, rfl⟩ := h1
    subst hemp
    exact ⟨htok, t', hex, rfl⟩

/-! ## (2) refunds go to the proposer only, only on Execute / Close -/

/-- **Clause 2 (to whom, when).**  Whatever a handler call returns, every payout message in it is the refund
of the deposit recorded in a proposal, addressed to that proposal's proposer, and the call is `Execute` or
`Close` of that very proposal. -/
theorem refund_only_to_proposer {s s' : State} {g : Cw4Group.State} {self : Addr} {blk : Block} {snd : Addr}
    {funds : List Coin} {m : ExecMsg} {out : List Out} (h : execute s g self blk snd funds m = .ok (s', out))
    (o : Out) (ho : o ∈ out) (hp : isPayout o = true) :
    ∃ id p d, (m = .execute id ∨ m = .close id) ∧ s.core.proposals.get? id = some p ∧ p.deposit = some d ∧
      o = refundMsg d p.proposer := by
  obtain ⟨_, hc⟩ := execute_cases h
  rcases hc with ⟨t, d, msgs, latest, w, total, id, _, _, _, _, hout, _⟩ | ⟨id, v, _, hout, _⟩ |
    ⟨id, p, msgs, hm, hpp, _, hout⟩ | ⟨id, p, hm, hpp, _, hout⟩ | ⟨_, _, _, hout⟩
  · subst hout
    cases hd : s.cfg.deposit with
    | none => simp [hd] at ho
    | some dep => simp only [hd] at ho; have := takeDeposit_no_payout dep snd self o ho; simp [this] at hp
  · subst hout; simp at ho
  · subst hout
    rcases List.mem_append.mp ho with ho | ho
    · cases hd : p.deposit with
      | none => simp [hd] at ho
      | some dep => simp [hd] at ho; exact ⟨id, p, dep, Or.inl hm, hpp, hd, ho⟩
    · simp at ho; obtain ⟨x, _, rfl⟩ := ho; simp [isPayout] at hp
  · subst hout
    cases hd : p.deposit with
    | none => simp [hd] at ho
    | some dep =>
      simp only [hd] at ho
      split at ho
      · simp at ho; exact ⟨id, p, dep, Or.inr hm, hpp, hd, ho⟩
      · simp at ho
  · subst hout; simp at ho

/-! ## (3) at most once -/

/-- Number of successful `Execute` and `Close` handler calls for proposal `id` in the committed history
(top-level or nested in a dispatch) — by `refund_only_to_proposer` the only calls that can emit its refund. -/
def handled (log : List Event) (id : Nat) : Nat := log.count (.executed id) + log.count (.closed id)

/-- The stored status can no longer move (`Executed` or `Rejected`). -/
def isFinal (c : Core) (id : Nat) : Bool :=
  match c.proposals.get? id with
  | some p => p.status == .executed || p.status == .rejected
  | none => false

def GhostInv (w : World) : Prop :=
  Inv w.flex ∧ ∀ id, handled w.log id ≤ 1 ∧ (handled w.log id = 1 → isFinal w.flex.core id = true)

theorem handled_append (log : List Event) (e : Event) (id : Nat) :
    handled (log ++ [e]) id = handled log id + (if e = .executed id ∨ e = .closed id then 1 else 0) := by
  unfold handled
  simp only [List.count_append, List.count_singleton]
  by_cases h1 : e = .executed id
  · subst h1; simp; omega
  · by_cases h2 : e = .closed id
    · subst h2; simp; omega
    · have e1 : (e == Event.executed id) = false := by simpa using h1
      have e2 : (e == Event.closed id) = false := by simpa using h2
      simp [h1, h2, e1, e2]

theorem isFinal_later {c c' : Core} (hl : Later c c') {id : Nat} (h : isFinal c id = true) : isFinal c' id = true := by
  unfold isFinal at h ⊢
  cases hp : c.proposals.get? id with
  | none => simp [hp] at h
  | some p =>
    simp only [hp] at h
    obtain ⟨p', hp', _, he⟩ := hl.props id p hp
    simp only [hp']
    cases hs : p.status <;> cases hs' : p'.status <;> simp_all [edge]

/-- A proposal whose current status is `Passed` is stored `Open` or `Passed`. -/
theorem passed_not_final {p : Proposal} {blk : Block} (h : p.currentStatus blk = .ok .passed) :
    p.status ≠ .executed ∧ p.status ≠ .rejected := by
  have := (cs_edge h).1
  simp only [Proposal.tally] at this
  cases hs : p.status <;> simp_all [edge]

theorem ghost_flex {w : World} {g : Cw4Group.State} {self : Addr} {blk : Block} {snd : Addr} {funds : List Coin}
    {em : ExecMsg} {s' : State} {out : List Out}
    (hq : GhostInv w) (he : execute w.flex g self blk snd funds em = .ok (s', out)) :
    GhostInv { w with flex := s', log := w.log ++ [eventOf w.flex snd em] } := by
  obtain ⟨hi, hg⟩ := hq
  refine ⟨execute_inv hi he, ?_⟩
  have hl := execute_later hi he
  intro id
  obtain ⟨hle, hfin⟩ := hg id
  simp only [handled_append]
  obtain ⟨_, hc⟩ := execute_cases he
  rcases hc with ⟨t, d, msgs, latest, w0, total, id0, hm, _⟩ | ⟨id0, v, hm, _⟩ | ⟨id0, p, msgs, hm, hpp, hex, _⟩ |
    ⟨id0, p, hm, hpp, hcl, _⟩ | ⟨hm, _, _, _⟩
  · subst hm; simp [eventOf]; exact ⟨hle, fun h => isFinal_later hl (hfin h)⟩
  · subst hm; simp [eventOf]; exact ⟨hle, fun h => isFinal_later hl (hfin h)⟩
  · subst hm
    simp only [eventOf]
    by_cases e : id0 = id
    · subst e
      obtain ⟨p0, hp0, hst, _, _, hc'⟩ := execute_spec hex
      have hnf := passed_not_final hst
      have h0 : handled w.log id0 = 0 := by
        rcases Nat.lt_or_ge (handled w.log id0) 1 with h | h
        · omega
        · have h1 : handled w.log id0 = 1 := by omega
          have := hfin h1
          simp [isFinal, hp0] at this
          rcases this with h | h <;> simp_all
      simp [h0]
      simp [isFinal, hc']
    · have : ¬ (Event.executed id0 = Event.executed id ∨ Event.executed id0 = Event.closed id) := by simp [e]
      simp only [this, if_false, Nat.add_zero]
      exact ⟨hle, fun h => isFinal_later hl (hfin h)⟩
  · subst hm
    simp only [eventOf]
    by_cases e : id0 = id
    · subst e
      obtain ⟨p0, st, hp0, h1, h2, _, _, _, _, hc'⟩ := close_spec hcl
      have h0 : handled w.log id0 = 0 := by
        rcases Nat.lt_or_ge (handled w.log id0) 1 with h | h
        · omega
        · have h1' : handled w.log id0 = 1 := by omega
          have := hfin h1'
          simp [isFinal, hp0] at this
          rcases this with h | h <;> simp_all
      simp [h0]
      simp [isFinal, hc']
    · have : ¬ (Event.closed id0 = Event.executed id ∨ Event.closed id0 = Event.closed id) := by simp [e]
      simp only [this, if_false, Nat.add_zero]
      exact ⟨hle, fun h => isFinal_later hl (hfin h)⟩
  · subst hm; simp [eventOf]; exact ⟨hle, fun h => isFinal_later hl (hfin h)⟩

theorem ghost_step (ext : Ext) (fuel : Nat) (w : World) (op : Op) (hq : GhostInv w) : GhostInv (step ext fuel w op) := by
  refine step_inv ext GhostInv ?_ ?_ ?_ ?_ fuel w op hq
  · intro blk w snd funds em s' out hq he; exact ghost_flex hq he
  · intro blk w snd m g' outs hq _
    refine ⟨hq.1, fun id => ?_⟩
    have := hq.2 id
    simpa [handled_append] using this
  · intro w b hq; exact hq
  · intro w t hq; exact hq

theorem reachable_ghost {ext : Ext} {fuel : Nat} {w : World} (hr : Reachable ext fuel w) : GhostInv w := by
  obtain ⟨m, s, g, t, bank, self, ga, ta, h0, ops, hi, rfl⟩ := hr
  refine run_inv ext GhostInv fuel (ghost_step ext fuel) ops _ ⟨instantiate_inv hi, fun id => ?_⟩
  simp [World.init, handled]

/-- **Clause 3 (at most once).**  In every reachable world, for every proposal, the committed history contains at
most one successful `Execute`-or-`Close` handler call of it (top-level or nested, in any order, Execute and Close
counted together) — hence at most one refund of its deposit: never two Executes, never two Closes, never both. -/
theorem refund_at_most_once {ext : Ext} {fuel : Nat} {w : World} (hr : Reachable ext fuel w) (id : Nat) :
    handled w.log id ≤ 1 :=
  ((reachable_ghost hr).2 id).1

/-- After the one refunding call the proposal is final: every further `Execute` or `Close` of it is refused. -/
theorem handled_then_refused {ext : Ext} {fuel : Nat} {w : World} (hr : Reachable ext fuel w) {id : Nat}
    (h1 : handled w.log id = 1) (g : Cw4Group.State) (self : Addr) (blk : Block) (snd : Addr) (funds : List Coin) :
    (execute w.flex g self blk snd funds (.execute id)).isOk = false ∧
    (execute w.flex g self blk snd funds (.close id)).isOk = false := by
  have hf := ((reachable_ghost hr).2 id).2 h1
  constructor
  · cases he : execute w.flex g self blk snd funds (.execute id) with
    | error e => rfl
    | ok r =>
      obtain ⟨s', out⟩ := r
      obtain ⟨_, hc⟩ := execute_cases he
      rcases hc with ⟨_, _, _, _, _, _, _, hm, _⟩ | ⟨_, _, hm, _⟩ | ⟨id0, p, msgs, hm, hpp, hex, _⟩ | ⟨_, _, hm, _⟩ | ⟨hm, _⟩ <;>
        cases hm
      obtain ⟨p0, hp0, hst, _⟩ := execute_spec hex
      have := passed_not_final hst
      simp [isFinal, hp0] at hf
      rcases hf with h | h <;> simp_all
  · cases he : execute w.flex g self blk snd funds (.close id) with
    | error e => rfl
    | ok r =>
      obtain ⟨s', out⟩ := r
      obtain ⟨_, hc⟩ := execute_cases he
      rcases hc with ⟨_, _, _, _, _, _, _, hm, _⟩ | ⟨_, _, hm, _⟩ | ⟨_, _, _, hm, _⟩ | ⟨id0, p, hm, hpp, hcl, _⟩ | ⟨hm, _⟩ <;>
        cases hm
      obtain ⟨p0, st, hp0, h1', h2', _⟩ := close_spec hcl
      simp [isFinal, hp0] at hf
      rcases hf with h | h <;> simp_all

/-! ## (4) executed proposals are always refunded; no refund when disabled -/

/-- **Clause 4.**  A successful `Execute` of a proposal that carries a deposit returns the refund to the proposer
first, followed by exactly the proposal's messages, in order ("Unconditionally refund here"), and the proposal is
stored `Executed`; the runtime commits the transaction only if the refund was actually paid (any failing
dispatched message aborts the transaction, `tx`). -/
theorem executed_always_refunded {s s' : State} {g : Cw4Group.State} {self : Addr} {blk : Block} {snd : Addr}
    {funds : List Coin} {id : Nat} {out : List Out} {p : Proposal} {d : Deposit}
    (h : execute s g self blk snd funds (.execute id) = .ok (s', out))
    (hp : s.core.proposals.get? id = some p) (hd : p.deposit = some d) :
    out = refundMsg d p.proposer :: p.msgs.map Out.msg ∧
    ∃ p', s'.core.proposals.get? id = some p' ∧ p'.status = .executed := by
  obtain ⟨_, hc⟩ := execute_cases h
  rcases hc with ⟨_, _, _, _, _, _, _, hm, _⟩ | ⟨_, _, hm, _⟩ | ⟨id0, p1, msgs, hm, hpp, hex, hout⟩ | ⟨_, _, hm, _⟩ | ⟨hm, _⟩ <;>
    cases hm
  rw [hp] at hpp; cases hpp
  obtain ⟨p0, hp0, _, _, hmsgs, hc'⟩ := execute_spec hex
  rw [hp] at hp0; cases hp0
  subst hmsgs
  refine ⟨by simp [hout, hd], ?_⟩
  rw [hc']
  exact ⟨_, AMap.get?_set_eq _ _ _, rfl⟩

/-- **Clause 5 (no refund when disabled).**  `Close` of a proposal whose deposit has
`refund_failed_proposals = false` (or that has no deposit) returns no message at all; and no handler other than
`Execute` and `Close` ever returns a payout. -/
theorem no_refund_when_disabled {s s' : State} {g : Cw4Group.State} {self : Addr} {blk : Block} {snd : Addr}
    {funds : List Coin} {m : ExecMsg} {out : List Out}
    (h : execute s g self blk snd funds m = .ok (s', out)) :
    (∀ id p, m = .close id → s.core.proposals.get? id = some p →
        (p.deposit = none ∨ ∃ d, p.deposit = some d ∧ d.refundFailed = false) → out = []) ∧
    ((∀ id, m ≠ .execute id) → (∀ id, m ≠ .close id) → ∀ o ∈ out, isPayout o = false) := by
  constructor
  · intro id p hm hp hd
    subst hm
    obtain ⟨_, hc⟩ := execute_cases h
    rcases hc with ⟨_, _, _, _, _, _, _, hm, _⟩ | ⟨_, _, hm, _⟩ | ⟨_, _, _, hm, _⟩ | ⟨id0, p1, hm, hpp, _, hout⟩ | ⟨hm, _⟩ <;>
      cases hm
    rw [hp] at hpp; cases hpp
    rcases hd with hd | ⟨d, hd, hr⟩ <;> simp [hout, hd, *]
  · intro h1 h2 o ho
    cases hpo : isPayout o with
    | false => rfl
    | true =>
      obtain ⟨id, _, _, hm, _⟩ := refund_only_to_proposer h o ho hpo
      rcases hm with hm | hm
      · exact absurd hm (h1 id)
      · exact absurd hm (h2 id)

/-! ## (6) recoverability of the deposit of failed proposals -/

/-- **Clause 6, partial** (guard: the proposal is still stored `Open` when it expires).  With refunds enabled, a
proposal that is stored `Open`, has expired and did not pass can be closed by anyone, and `Close` returns exactly
the refund of its deposit to its proposer. -/
theorem failed_deposit_recoverable_partial {s : State} {g : Cw4Group.State} {self : Addr} {blk : Block} {snd : Addr}
    {funds : List Coin} {id : Nat} {p : Proposal} {d : Deposit} {st : Status}
    (hp : s.core.proposals.get? id = some p) (hopen : p.status = .open)
    (hexp : p.expires.isExpired blk = true) (hcs : p.currentStatus blk = .ok st) (hnp : st ≠ .passed)
    (hd : p.deposit = some d) (hr : d.refundFailed = true) :
    ∃ s', execute s g self blk snd funds (.close id) = .ok (s', [refundMsg d p.proposer]) := by
  have hl : load s.core id = .ok p := by simp [hp]
  refine ⟨{ s with core := { s.core with proposals := s.core.proposals.set id { p with status := .rejected } } }, ?_⟩
  simp [Cw3Flex.execute, execClose, Cw3Core.close, hl, hopen, hcs, hnp, hexp, hd, hr, bind, Except.bind, check, pure, Except.pure]

/-- **Clause 6 for reachable worlds, without the `current_status` hypothesis.**  In every reachable world, with
refunds enabled, the deposit of a proposal that is stored `Open`, has expired and whose tally fits `u64` (always the
case outside the same-block finding D3: `C06Flex.flex_tally_le_total`) is recoverable at once, one way or the other:
either `Close` — by anyone, with any funds — returns exactly the refund to the proposer, or the proposal is Passed at
that block and `Execute` by any authorised sender returns the refund first, followed by the proposal's messages.
(`current_status` cannot fail here: `reachable_statusInv`.) -/
theorem failed_deposit_recoverable_reachable {ext : Ext} {fuel : Nat} {w : World} (hr : Reachable ext fuel w)
    {id : Nat} {p : Proposal} {d : Deposit} {blk : Block}
    (hp : w.flex.core.proposals.get? id = some p) (hopen : p.status = .open)
    (hexp : p.expires.isExpired blk = true) (hfit : p.Fits) (hd : p.deposit = some d) (hrf : d.refundFailed = true)
    (g : Cw4Group.State) (self : Addr) (funds : List Coin) :
    (∀ snd, ∃ s', execute w.flex g self blk snd funds (.close id) = .ok (s', [refundMsg d p.proposer])) ∨
    (p.currentStatus blk = .ok .passed ∧ ∀ snd, authorize w.flex.cfg g snd = true →
      ∃ s', execute w.flex g self blk snd funds (.execute id) = .ok (s', refundMsg d p.proposer :: p.msgs.map Out.msg)) := by
  obtain ⟨st, hcs⟩ := reachable_statusInv hr id p hp hfit blk
  by_cases hst : st = .passed
  · subst hst
    right
    refine ⟨hcs, fun snd ha => ?_⟩
    have hl : load w.flex.core id = .ok p := by simp [hp]
    refine ⟨{ w.flex with core := { w.flex.core with proposals := w.flex.core.proposals.set id { p with status := .executed } } }, ?_⟩
    simp [Cw3Flex.execute, execExecute, Cw3Core.execute, hl, hcs, ha, hd, bind, Except.bind, check, pure, Except.pure]
  · left
    intro snd
    exact failed_deposit_recoverable_partial hp hopen hexp hcs hst hd hrf

/-! ## (6') the exact extent of D6: a proposal stored `Rejected` and not yet handled is stuck for ever -/

/-- A proposal stored `Rejected` admits neither `Execute` nor `Close`, whoever calls, at any block. -/
theorem rejected_refuses {s : State} {id : Nat} {p : Proposal} (hp : s.core.proposals.get? id = some p)
    (hs : p.status = .rejected) (g : Cw4Group.State) (self : Addr) (blk : Block) (snd : Addr) (funds : List Coin) :
    (execute s g self blk snd funds (.execute id)).isOk = false ∧
    (execute s g self blk snd funds (.close id)).isOk = false := by
  constructor
  · cases he : execute s g self blk snd funds (.execute id) with
    | error e => rfl
    | ok r =>
      obtain ⟨s', out⟩ := r
      obtain ⟨_, hc⟩ := execute_cases he
      rcases hc with ⟨_, _, _, _, _, _, _, hm, _⟩ | ⟨_, _, hm, _⟩ | ⟨id0, p1, msgs, hm, hpp, hex, _⟩ | ⟨_, _, hm, _⟩ | ⟨hm, _⟩ <;>
        cases hm
      obtain ⟨p0, hp0, hst, _⟩ := execute_spec hex
      rw [hp] at hp0; cases hp0
      exact absurd hs (passed_not_final hst).2
  · cases he : execute s g self blk snd funds (.close id) with
    | error e => rfl
    | ok r =>
      obtain ⟨s', out⟩ := r
      obtain ⟨_, hc⟩ := execute_cases he
      rcases hc with ⟨_, _, _, _, _, _, _, hm, _⟩ | ⟨_, _, hm, _⟩ | ⟨_, _, _, hm, _⟩ | ⟨id0, p1, hm, hpp, hcl, _⟩ | ⟨hm, _⟩ <;>
        cases hm
      obtain ⟨p0, st, hp0, _, h2', _⟩ := close_spec hcl
      rw [hp] at hp0; cases hp0
      exact absurd hs h2'

/-- World invariant behind `stored_rejected_never_refunded`. -/
def StuckInv (id : Nat) (w : World) : Prop :=
  Inv w.flex ∧ (∃ p, w.flex.core.proposals.get? id = some p ∧ p.status = .rejected) ∧ handled w.log id = 0

theorem stuck_flex {id : Nat} {w : World} {g : Cw4Group.State} {self : Addr} {blk : Block} {snd : Addr} {funds : List Coin}
    {em : ExecMsg} {s' : State} {out : List Out}
    (hq : StuckInv id w) (he : execute w.flex g self blk snd funds em = .ok (s', out)) :
    StuckInv id { w with flex := s', log := w.log ++ [eventOf w.flex snd em] } := by
  obtain ⟨hi, ⟨p, hp, hs⟩, h0⟩ := hq
  have hl := execute_later hi he
  refine ⟨execute_inv hi he, ?_, ?_⟩
  · obtain ⟨p', hp', _, hedge⟩ := hl.props id p hp
    refine ⟨p', hp', ?_⟩
    rw [hs] at hedge
    cases hs' : p'.status <;> simp_all [edge]
  · rw [handled_append, h0]
    have hno : ¬ (eventOf w.flex snd em = .executed id ∨ eventOf w.flex snd em = .closed id) := by
      have href := rejected_refuses hp hs g self blk snd funds
      rintro (h | h)
      · have : em = .execute id := by cases em <;> simp [eventOf] at h; subst h; rfl
        subst this; rw [he] at href; exact absurd href.1 (by simp [Res.isOk])
      · have : em = .close id := by cases em <;> simp [eventOf] at h; subst h; rfl
        subst this; rw [he] at href; exact absurd href.2 (by simp [Res.isOk])
    simp [hno]

/-- **D6 as a theorem: the stuck set is exactly "stored `Rejected` and never handled".**  In every reachable world, a
proposal that is stored `Rejected` and has no `Execute`/`Close` in the committed history (so its deposit was never
refunded — `refund_only_to_proposer`) stays that way over EVERY continuation of the history — any transactions on the
multisig, the group, the token, nested dispatches, any blocks: the count of handled calls stays 0, the proposal stays
stored `Rejected`, and in the resulting world `Execute` and `Close` of it are refused for every sender, group state,
funds and block.  With `refund_failed_proposals = true` this is the open known finding; together with
`failed_deposit_recoverable_reachable` (stored `Open` at expiry ⇒ recoverable) it characterises which failed proposals
lose their deposit: those voted down (or created expired-and-rejected) BEFORE they expire. -/
theorem stored_rejected_never_refunded {ext : Ext} {fuel : Nat} {w : World} (hr : Reachable ext fuel w) {id : Nat}
    {p : Proposal} (hp : w.flex.core.proposals.get? id = some p) (hs : p.status = .rejected)
    (h0 : handled w.log id = 0) (ops : List Op) :
    handled (run ext fuel w ops).log id = 0 ∧
    (∃ p', (run ext fuel w ops).flex.core.proposals.get? id = some p' ∧ p'.status = .rejected ∧ p'.deposit = p.deposit ∧
      p'.proposer = p.proposer) ∧
    ∀ g self blk snd funds,
      (execute (run ext fuel w ops).flex g self blk snd funds (.execute id)).isOk = false ∧
      (execute (run ext fuel w ops).flex g self blk snd funds (.close id)).isOk = false := by
  have hq : StuckInv id (run ext fuel w ops) := by
    refine run_inv ext (StuckInv id) fuel ?_ ops w ⟨reachable_inv hr, ⟨p, hp, hs⟩, h0⟩
    intro w op hq
    refine step_inv ext (StuckInv id) ?_ ?_ (fun w b h => h) (fun w t h => h) fuel w op hq
    · intro blk w snd funds em s' out hq he; exact stuck_flex hq he
    · intro blk w snd m g' outs hq _
      refine ⟨hq.1, hq.2.1, ?_⟩
      have := hq.2.2
      simpa [handled_append] using this
  obtain ⟨_, ⟨p', hp', hs'⟩, h0'⟩ := hq
  have hl := run_rel ext (fun s s' => Later s.core s'.core) (fun s => later_refl _) (fun _ _ _ h1 h2 => later_trans h1 h2)
    (fun g self blk s snd funds m s' out hi h => execute_later hi h) fuel ops w (reachable_inv hr)
  obtain ⟨p'', hp'', hf, _⟩ := hl.props id p hp
  rw [hp'] at hp''; cases hp''
  refine ⟨h0', ⟨p', hp', hs', ?_, ?_⟩, fun g self blk snd funds => rejected_refuses hp' hs' g self blk snd funds⟩
  · simp only [Proposal.fixedPart, Proposal.mk.injEq] at hf; exact hf.2.2.2.2.2.2.2.2.2.2
  · simp only [Proposal.fixedPart, Proposal.mk.injEq] at hf; exact hf.2.2.2.2.2.2.2.2.2.1

/-! ## (2'/4') the refund at transaction level: the transfer to the proposer happened in the committed transaction -/

/-- Dispatching a native refund message: the bank send from the multisig to the depositor succeeded, then the rest is
dispatched. -/
theorem dispatch_refund_native {ext : Ext} {fuel : Nat} {w w' : World} {blk : Block} {d : Deposit} {a : Addr}
    {rest : List Out} (hn : d.cw20 = false) (h : dispatch ext fuel w blk (refundMsg d a :: rest) = .ok w') :
    ∃ fuel' b, fuel = fuel' + 1 ∧ Cw3Fixed.bankSend w.bank w.self a d.amount d.denom = .ok b ∧
      dispatch ext fuel' { w with bank := b } blk rest = .ok w' := by
  cases fuel with
  | zero => simp [dispatch] at h
  | succ fuel =>
    simp only [refundMsg, hn, Bool.false_eq_true, if_false, dispatch, Res.bind_ok] at h
    obtain ⟨w1, ⟨b, hb, hw1⟩, h2⟩ := h
    simp at hw1; subst hw1
    exact ⟨fuel, b, rfl, hb, h2⟩

/-- Dispatching a cw20 refund message: the deposit token is the token contract of the world and its
`Transfer { recipient: depositor, amount }` sent by the multisig succeeded, then the rest is dispatched. -/
theorem dispatch_refund_cw20 {ext : Ext} {fuel : Nat} {w w' : World} {blk : Block} {d : Deposit} {a : Addr}
    {rest : List Out} (hc : d.cw20 = true) (h : dispatch ext fuel w blk (refundMsg d a :: rest) = .ok w') :
    ∃ fuel' t, fuel = fuel' + 1 ∧ d.denom = w.tokenAddr ∧
      Cw20.execute w.token blk w.self (.transfer ⟨true, a⟩ d.amount) = .ok (t, []) ∧
      dispatch ext fuel' { w with token := t } blk rest = .ok w' := by
  cases fuel with
  | zero => simp [dispatch] at h
  | succ fuel =>
    simp only [refundMsg, hc, if_true, dispatch, Res.bind_ok] at h
    obtain ⟨w1, h1, h2⟩ := h
    simp [tokenCall] at h1
    obtain ⟨htok, t', out', hex, hemp, rfl⟩ := h1
    subst hemp
    exact ⟨fuel, t', rfl, htok, hex, h2⟩

/-- **Executed ⇒ refunded, transaction level, native deposit** (mirror of `propose_native_tx`).  A committed `Execute`
transaction of a proposal with a native deposit: after the attached funds moved, the multisig paid exactly the
deposit coin to the proposer (the bank send succeeded — otherwise the whole transaction would have failed), and only
then the proposal's own messages were dispatched, in the world with that payment made. -/
theorem execute_native_tx {ext : Ext} {fuel : Nat} {w w' : World} {blk : Block} {snd : Addr} {funds : List Coin}
    {id : Nat} {p : Proposal} {d : Deposit}
    (hp : w.flex.core.proposals.get? id = some p) (hd : p.deposit = some d) (hn : d.cw20 = false)
    (h : tx ext fuel w blk (.flex snd funds (.execute id)) = .ok w') :
    ∃ b0 b1 s' fuel', moveFunds w.bank snd w.self funds = .ok b0 ∧
      Cw3Fixed.bankSend b0 w.self p.proposer d.amount d.denom = .ok b1 ∧ fuel = fuel' + 1 ∧
      dispatch ext fuel' { w with bank := b1, flex := s', log := w.log ++ [.executed id] } blk (p.msgs.map Out.msg) = .ok w' := by
  simp only [tx, Res.bind_ok] at h
  obtain ⟨b0, hb0, ⟨s', out⟩, he, hdisp⟩ := h
  obtain ⟨hout, _⟩ := executed_always_refunded he hp hd
  subst hout
  obtain ⟨fuel', b1, hf, hb1, hrest⟩ := dispatch_refund_native hn hdisp
  exact ⟨b0, b1, s', fuel', hb0, hb1, hf, hrest⟩

/-- **Executed ⇒ refunded, transaction level, cw20 deposit.**  A committed `Execute` transaction of a proposal with a
cw20 deposit: the deposit token is the world's token contract, its `Transfer { recipient: proposer, amount }` sent by
the multisig succeeded, and only then the proposal's messages were dispatched. -/
theorem execute_cw20_tx {ext : Ext} {fuel : Nat} {w w' : World} {blk : Block} {snd : Addr} {funds : List Coin}
    {id : Nat} {p : Proposal} {d : Deposit}
    (hp : w.flex.core.proposals.get? id = some p) (hd : p.deposit = some d) (hc : d.cw20 = true)
    (h : tx ext fuel w blk (.flex snd funds (.execute id)) = .ok w') :
    d.denom = w.tokenAddr ∧
    ∃ b0 t s' fuel', moveFunds w.bank snd w.self funds = .ok b0 ∧
      Cw20.execute w.token blk w.self (.transfer ⟨true, p.proposer⟩ d.amount) = .ok (t, []) ∧ fuel = fuel' + 1 ∧
      dispatch ext fuel' { w with bank := b0, token := t, flex := s', log := w.log ++ [.executed id] } blk
        (p.msgs.map Out.msg) = .ok w' := by
  simp only [tx, Res.bind_ok] at h
  obtain ⟨b0, hb0, ⟨s', out⟩, he, hdisp⟩ := h
  obtain ⟨hout, _⟩ := executed_always_refunded he hp hd
  subst hout
  obtain ⟨fuel', t, hf, htok, hex, hrest⟩ := dispatch_refund_cw20 hc hdisp
  exact ⟨htok, b0, t, s', fuel', hb0, hex, hf, hrest⟩

/-- **Closed with refunds enabled ⇒ refunded, transaction level.**  A committed `Close` transaction of a proposal whose
deposit has `refund_failed_proposals = true`: the refund to the proposer — bank send of the deposit coin, resp. the
token's `Transfer` — succeeded, and nothing else was dispatched: the new world differs from the old one only by the
attached funds, that payment, the proposal's stored status and the ghost log. -/
theorem close_refund_tx {ext : Ext} {fuel : Nat} {w w' : World} {blk : Block} {snd : Addr} {funds : List Coin}
    {id : Nat} {p : Proposal} {d : Deposit}
    (hp : w.flex.core.proposals.get? id = some p) (hd : p.deposit = some d) (hrf : d.refundFailed = true)
    (h : tx ext fuel w blk (.flex snd funds (.close id)) = .ok w') :
    ∃ b0 s', moveFunds w.bank snd w.self funds = .ok b0 ∧
      if d.cw20 then
        d.denom = w.tokenAddr ∧ ∃ t, Cw20.execute w.token blk w.self (.transfer ⟨true, p.proposer⟩ d.amount) = .ok (t, []) ∧
          w' = { w with bank := b0, token := t, flex := s', log := w.log ++ [.closed id] }
      else
        ∃ b1, Cw3Fixed.bankSend b0 w.self p.proposer d.amount d.denom = .ok b1 ∧
          w' = { w with bank := b1, flex := s', log := w.log ++ [.closed id] } := by
  simp only [tx, Res.bind_ok] at h
  obtain ⟨b0, hb0, ⟨s', out⟩, he, hdisp⟩ := h
  have hout : out = [refundMsg d p.proposer] := by
    obtain ⟨_, hc⟩ := execute_cases he
    rcases hc with ⟨_, _, _, _, _, _, _, hm, _⟩ | ⟨_, _, hm, _⟩ | ⟨_, _, _, hm, _⟩ | ⟨id0, p1, hm, hpp, _, hout⟩ | ⟨hm, _⟩ <;>
      cases hm
    rw [hp] at hpp; cases hpp
    simp [hout, hd, hrf]
  subst hout
  refine ⟨b0, s', hb0, ?_⟩
  by_cases hc : d.cw20 = true
  · simp only [hc, if_true]
    obtain ⟨fuel', t, _, htok, hex, hrest⟩ := dispatch_refund_cw20 hc hdisp
    refine ⟨htok, t, hex, ?_⟩
    cases fuel' <;> simp [dispatch] at hrest <;> exact hrest.symm
  · have hn : d.cw20 = false := by simpa using hc
    simp only [hn, Bool.false_eq_true, if_false]
    obtain ⟨fuel', b1, _, hb1, hrest⟩ := dispatch_refund_native hn hdisp
    refine ⟨b1, hb1, ?_⟩
    cases fuel' <;> simp [dispatch] at hrest <;> exact hrest.symm

/-- **At most one refund message per handler call**: whatever a handler returns contains at most one payout. With
`refund_at_most_once` (at most one `Execute`-or-`Close` per proposal per history) and `refund_only_to_proposer` (only
those calls pay out, and only that proposal's refund) this is literally "at most one refund message per proposal per
history". -/
theorem payouts_le_one {s s' : State} {g : Cw4Group.State} {self : Addr} {blk : Block} {snd : Addr}
    {funds : List Coin} {m : ExecMsg} {out : List Out} (h : execute s g self blk snd funds m = .ok (s', out)) :
    (out.filter isPayout).length ≤ 1 := by
  obtain ⟨_, hc⟩ := execute_cases h
  rcases hc with ⟨t, d, msgs, latest, w, total, id, _, _, _, _, hout, _⟩ | ⟨id, v, _, hout, _⟩ |
    ⟨id, p, msgs, hm, hpp, _, hout⟩ | ⟨id, p, hm, hpp, _, hout⟩ | ⟨_, _, _, hout⟩
  · subst hout
    cases hd : s.cfg.deposit with
    | none => simp
    | some dep =>
      have : (takeDeposit dep snd self).filter isPayout = [] :=
        List.filter_eq_nil_iff.mpr (fun o ho => by simp [takeDeposit_no_payout dep snd self o ho])
      simp [this]
  · subst hout; simp
  · subst hout
    have hmsgs : (msgs.map Out.msg).filter isPayout = [] :=
      List.filter_eq_nil_iff.mpr (fun o ho => by simp at ho; obtain ⟨x, _, rfl⟩ := ho; simp [isPayout])
    rw [List.filter_append, hmsgs]
    cases hd : p.deposit with
    | none => simp
    | some dep => simp [refundMsg_isPayout]
  · subst hout
    cases hd : p.deposit with
    | none => simp
    | some dep =>
      simp only
      split
      · simp [refundMsg_isPayout]
      · simp
  · subst hout; simp

/-! ## the unguarded clause 6 is false: D6 -/

namespace Cex

def group0 : Cw4Group.State :=
  match Cw4Group.instantiate ⟨some ⟨true, "adm"⟩, [(⟨true, "a"⟩, 1), (⟨true, "b"⟩, 2), (⟨true, "c"⟩, 2)]⟩ 5 with
  | .ok g => g
  | .error _ => Cw4Group.State.empty

def token0 : Cw20.State :=
  { supply := 0, mint := none, balances := [], allow := [], allowSp := [], version := ⟨"crates.io:cw20-base", 2, 0, 0⟩ }

def inst : InstMsg :=
  { group := ⟨true, "grp"⟩, threshold := .absoluteCount 3, maxVotingPeriod := .height 5, executor := none,
    deposit := some ⟨5, "ucosm", false, true, true⟩ }

def flex0 : State := match instantiate inst (some group0) with | .ok s => s | .error _ => default

def world0 : World := World.init flex0 group0 token0 [(("a", "ucosm"), 20)] "ms" "grp" "tok" 5

def noExt : Ext := fun _ => none

/-- `a` proposes (paying 5ucosm), `b` and `c` vote it down in block 10, well before its expiry at height 15. -/
def ops : List Op :=
  [⟨⟨10, 0⟩, .flex "a" [⟨5, "ucosm"⟩] (.propose "t" "d" [] none)⟩,
   ⟨⟨10, 0⟩, .flex "b" [] (.vote 1 .no)⟩,
   ⟨⟨10, 0⟩, .flex "c" [] (.vote 1 .no)⟩]

def final : World := run noExt 10 world0 ops

end Cex

/-- Non-vacuity of the counterexample's setup. -/
example : instantiate Cex.inst (some Cex.group0) = .ok Cex.flex0 := rfl

example : Reachable Cex.noExt 10 Cex.final :=
  ⟨Cex.inst, Cex.flex0, Cex.group0, Cex.token0, _, "ms", "grp", "tok", 5, Cex.ops, rfl, rfl⟩

/-- **D6, machine-checked.**  Refunds are enabled; proposal 1 was voted down before its expiry, so it is *stored*
`Rejected`; its deposit (5ucosm) sits in the multisig and was never refunded.  After expiry (block 20) `Close` is
refused (and so is `Execute`): the deposit of this failed proposal is not recoverable — the unguarded clause 6
of C15 is false of the code. -/
theorem C15_counterexample :
    ((Cex.final.flex.core.proposals.get? 1).map fun p => (p.status, p.deposit.map (·.refundFailed), p.expires.isExpired ⟨20, 0⟩))
        = some (.rejected, some true, true) ∧
    handled Cex.final.log 1 = 0 ∧
    balance Cex.final "ms" "ucosm" = 5 ∧ balance Cex.final "a" "ucosm" = 15 ∧
    (tx Cex.noExt 10 Cex.final ⟨20, 0⟩ (.flex "x" [] (.close 1))).isOk = false ∧
    (tx Cex.noExt 10 Cex.final ⟨20, 0⟩ (.flex "x" [] (.execute 1))).isOk = false := by
  decide

/-- Non-vacuity of `failed_deposit_recoverable_partial`: the same proposal with a single `no` vote is still stored
`Open` at expiry, and `Close` then returns the refund to the proposer `a`. -/
example :
    ((Cw3Flex.execute (run Cex.noExt 10 Cex.world0 (Cex.ops.take 2)).flex Cex.group0 "ms" ⟨20, 0⟩ "x" [] (.close 1)).toOption.map (·.2))
      = some [Out.bank "a" 5 "ucosm"] := by
  decide

/-- Non-vacuity of `stored_rejected_never_refunded`: `Cex.final` is reachable, proposal 1 is stored `Rejected` and was
never handled — so by the theorem no continuation ever refunds it. -/
example : Reachable Cex.noExt 10 Cex.final ∧
    ((Cex.final.flex.core.proposals.get? 1).map (·.status)) = some .rejected ∧ handled Cex.final.log 1 = 0 :=
  ⟨⟨Cex.inst, Cex.flex0, Cex.group0, Cex.token0, _, "ms", "grp", "tok", 5, Cex.ops, rfl, rfl⟩, by decide, by decide⟩

/-- Non-vacuity of `failed_deposit_recoverable_reachable` and `close_refund_tx` (native): after a single `no` vote the
proposal is stored `Open`, fits `u64`, expires at height 15; the `Close` transaction at block 20 commits and pays the
5ucosm back to `a`. -/
example :
    let w := run Cex.noExt 10 Cex.world0 (Cex.ops.take 2)
    ((w.flex.core.proposals.get? 1).map fun p => (p.status, p.expires.isExpired ⟨20, 0⟩, p.votes)) = some (.open, true, ⟨1, 2, 0, 0⟩) ∧
    ((tx Cex.noExt 10 w ⟨20, 0⟩ (.flex "x" [] (.close 1))).toOption.map fun w' => (balance w' "a" "ucosm", balance w' "ms" "ucosm"))
      = some (20, 0) := by
  decide

namespace Cex20

/-- a cw20 deposit token in which `a` holds 20 -/
def token0 : Cw20.State :=
  { supply := 20, mint := none, balances := [("a", 20)], allow := [], allowSp := [], version := ⟨"crates.io:cw20-base", 2, 0, 0⟩ }

/-- deposit: 5 units of the cw20 token at `tok`, refunds of failed proposals enabled -/
def inst : InstMsg :=
  { group := ⟨true, "grp"⟩, threshold := .absoluteCount 3, maxVotingPeriod := .height 5, executor := none,
    deposit := some ⟨5, "tok", true, true, true⟩ }

def flex0 : State := match instantiate inst (some Cex.group0) with | .ok s => s | .error _ => default

def world0 : World := World.init flex0 Cex.group0 token0 [] "ms" "grp" "tok" 5

/-- `a` grants the multisig an allowance of 5, proposes (the deposit is pulled by `TransferFrom`), `b` votes yes
(1 + 2 = 3: Passed), an outsider executes (the deposit goes back by `Transfer`). -/
def ops : List Op :=
  [⟨⟨10, 0⟩, .token "a" (.increaseAllowance ⟨true, "ms"⟩ 5 none)⟩,
   ⟨⟨10, 0⟩, .flex "a" [] (.propose "t" "d" [] none)⟩,
   ⟨⟨11, 0⟩, .flex "b" [] (.vote 1 .yes)⟩,
   ⟨⟨12, 0⟩, .flex "x" [] (.execute 1)⟩]

/-- the same deposit with `refund_failed_proposals = false` -/
def instNoRefund : InstMsg := { inst with deposit := some ⟨5, "tok", true, false, true⟩ }
def flexNoRefund : State := match instantiate instNoRefund (some Cex.group0) with | .ok s => s | .error _ => default
def worldNoRefund : World := World.init flexNoRefund Cex.group0 token0 [] "ms" "grp" "tok" 5

end Cex20

example : instantiate Cex20.inst (some Cex.group0) = .ok Cex20.flex0 := rfl
example : instantiate Cex20.instNoRefund (some Cex.group0) = .ok Cex20.flexNoRefund := rfl

/-- **Non-vacuity for cw20 deposits** (`propose_cw20_tx`, `execute_cw20_tx`): the hypotheses are satisfiable — the
configured deposit is a cw20 one, the `Propose` transaction commits and moves 5 tokens from `a` to the multisig, the
`Execute` transaction commits and moves them back. -/
example :
    let w1 := run Cex.noExt 10 Cex20.world0 (Cex20.ops.take 1)
    let w2 := run Cex.noExt 10 Cex20.world0 (Cex20.ops.take 2)
    let w3 := run Cex.noExt 10 Cex20.world0 (Cex20.ops.take 3)
    let w4 := run Cex.noExt 10 Cex20.world0 Cex20.ops
    (w1.flex.cfg.deposit.map (·.cw20)) = some true ∧
    (tx Cex.noExt 10 w1 ⟨10, 0⟩ (.flex "a" [] (.propose "t" "d" [] none))).isOk = true ∧
    (w2.token.balances.get? "a", w2.token.balances.get? "ms") = (some 15, some 5) ∧
    ((w3.flex.core.proposals.get? 1).map fun p => (p.status, p.deposit.map (·.cw20))) = some (.passed, some true) ∧
    (tx Cex.noExt 10 w3 ⟨12, 0⟩ (.flex "x" [] (.execute 1))).isOk = true ∧
    (w4.token.balances.get? "a", w4.token.balances.get? "ms") = (some 20, some 0) ∧ handled w4.log 1 = 1 := by
  decide

/-- Without the allowance the cw20 `Propose` transaction fails as a whole (the handler succeeds, the dispatched
`TransferFrom` does not). -/
example : (tx Cex.noExt 10 Cex20.world0 ⟨10, 0⟩ (.flex "a" [] (.propose "t" "d" [] none))).isOk = false ∧
    (Cw3Flex.execute Cex20.world0.flex Cex20.world0.group "ms" ⟨10, 0⟩ "a" [] (.propose "t" "d" [] none)).isOk = true := by
  decide

/-- **Non-vacuity for `refund_failed_proposals = false`** (`no_refund_when_disabled`): the proposal expires stored
`Open`, `Close` commits, returns no message, and the 5 tokens stay with the multisig. -/
example :
    let w := run Cex.noExt 10 Cex20.worldNoRefund (Cex20.ops.take 2)
    ((w.flex.core.proposals.get? 1).map fun p => (p.status, p.deposit.map (·.refundFailed))) = some (.open, some false) ∧
    ((Cw3Flex.execute w.flex w.group "ms" ⟨20, 0⟩ "x" [] (.close 1)).toOption.map (·.2)) = some [] ∧
    ((tx Cex.noExt 10 w ⟨20, 0⟩ (.flex "x" [] (.close 1))).toOption.map fun w' =>
      (w'.token.balances.get? "a", w'.token.balances.get? "ms")) = some (some 15, some 5) := by
  decide

/-- Non-vacuity of `execute_native_tx`: `a` proposes with the native deposit, `b` votes yes (1 + 2 ≥ 3: Passed), an
outsider's `Execute` transaction commits and the 5ucosm are back with `a`. -/
example :
    let w := run Cex.noExt 10 Cex.world0
      [⟨⟨10, 0⟩, .flex "a" [⟨5, "ucosm"⟩] (.propose "t" "d" [] none)⟩, ⟨⟨10, 0⟩, .flex "b" [] (.vote 1 .yes)⟩]
    ((w.flex.core.proposals.get? 1).map fun p => (p.status, p.deposit.map (·.cw20))) = some (.passed, some false) ∧
    (balance w "a" "ucosm", balance w "ms" "ucosm") = (15, 5) ∧
    ((tx Cex.noExt 10 w ⟨11, 0⟩ (.flex "x" [] (.execute 1))).toOption.map fun w' =>
      (balance w' "a" "ucosm", balance w' "ms" "ucosm", handled w'.log 1)) = some (20, 0, 1) := by
  decide

end CwPlus.Props.C15
