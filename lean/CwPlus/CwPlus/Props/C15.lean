import CwPlus.Lemmas.Cw3Flex
import CwPlus.Lemmas.Cw3StatusTotal
import CwPlus.Lemmas.Cw3FlexPool
/-!
# C15 — cw3-flex-multisig proposal deposits

Statement (properties.jsonl): a proposal is created only when exactly the configured deposit is paid; the deposit
is refunded only to the proposer, at most once, only when the proposal is executed or — if
`refund_failed_proposals` is set — when it is closed; executed proposals are always refunded; with refunds
enabled the deposit of every failed proposal is recoverable.

The last clause is FALSE of the code (defect D6, open known finding `C15/flex/deposit-stuck-stored-rejected`):
a proposal whose *stored* status is `Rejected` (voted down before expiry, or created already expired) can
never be closed.  It is proved here for proposals that expire while stored `Open`
(`failed_deposit_recoverable_partial`), and the counterexample is machine-checked (`C15_counterexample`).

Section (7) adds the accounting of the deposit *pool* across concurrent proposals at world level: `holdings`, `owed`,
`deposits_taken_exact`, `pool_covers_owed_if_unspent` (guards `External`, `NoSpend`, `NoGrant`), the dedicated dispatch
induction `pool_dispatch`, `refund_never_fails_for_lack_of_funds_guarded`, and the counterexample `pool_guard_necessary`.

Model: `Model/Cw3Flex.lean`; a handler returns `List Out`: `Out.bank` / `Out.cw20Transfer` are the refund
messages, `Out.cw20TransferFrom` takes a cw20 deposit, `Out.msg m` is a message of the proposal itself.
-/
namespace CwPlus.Props.C15
open CwPlus CwPlus.Cw3 CwPlus.Cw3Core CwPlus.Cw3Flex

/-- A message that pays out of the multisig on behalf of the deposit logic (as opposed to a message of a proposal). -/
def isPayout : Out → Bool
  | .bank .. => true
  | .cw20Transfer .. => true
  | _ => false

theorem refundMsg_isPayout (d : Deposit) (a : Addr) : isPayout (refundMsg d a) = true := by
  unfold refundMsg; split <;> rfl

theorem takeDeposit_no_payout (d : Deposit) (a self : Addr) : ∀ o ∈ takeDeposit d a self, isPayout o = false := by
  intro o ho; unfold takeDeposit at ho; split at ho <;> simp at ho; subst ho; rfl

/-! ## (1) a proposal is created only with exactly the configured deposit -/

/-- **Clause 1, handler level.**  A successful `Propose`:
* native deposit configured ⇒ the funds sent are exactly one coin `amount denom` of the configured deposit
  (not less, not more, no other coin), nothing is dispatched;
* cw20 deposit configured ⇒ the response is exactly `TransferFrom { owner: proposer, recipient: multisig, amount }`
  on the deposit token (the runtime fails the whole transaction if that transfer fails, see `propose_cw20_tx`);
* no deposit configured ⇒ nothing is dispatched.
The new proposal records the configured deposit and the sender as proposer. -/
theorem propose_takes_exact_deposit {s s' : State} {g : Cw4Group.State} {self : Addr} {blk : Block} {snd : Addr}
    {funds : List Coin} {t d : String} {msgs : List Msg} {latest : Option Expiration} {out : List Out}
    (hi : Inv s) (h : execute s g self blk snd funds (.propose t d msgs latest) = .ok (s', out)) :
    (match s.cfg.deposit with
      | none => out = []
      | some dep =>
        if dep.cw20 then out = [.cw20TransferFrom dep.denom snd self dep.amount]
        else funds = [⟨dep.amount, dep.denom⟩] ∧ out = []) ∧
    ∃ p, s'.core.proposals.get? (s.core.count + 1) = some p ∧ p.deposit = s.cfg.deposit ∧ p.proposer = snd := by
  obtain ⟨_, hc⟩ := execute_cases h
  rcases hc with ⟨t', d', msgs', latest', w, total, id, hm, _, _, hpaid, hout, hp⟩ | ⟨_, _, hm, _⟩ | ⟨_, _, _, hm, _⟩ |
    ⟨_, _, hm, _⟩ | ⟨hm, _⟩ <;> cases hm
  obtain ⟨expires, st, _, _, hid, _, hc'⟩ := propose_spec hp
  constructor
  · cases hd : s.cfg.deposit with
    | none => simp [hd] at hout ⊢; exact hout
    | some dep =>
      have hpos := hi.depositPos dep hd
      have hp' := hpaid dep hd
      simp only [hd] at hout ⊢
      by_cases hcw : dep.cw20 = true
      · simp [hcw, takeDeposit, hpos] at hout ⊢; exact hout
      · simp only [hcw, if_false, Bool.false_eq_true]
        simp [takeDeposit, hcw] at hout
        refine ⟨?_, hout⟩
        unfold checkNativeDepositPaid at hp'
        simp only [hcw, if_false, Bool.false_eq_true] at hp'
        split at hp'
        · cases hp'
        · rename_i c
          simp at hp'
          obtain ⟨_, h2, h3⟩ := hp'
          cases c; simp_all
        · cases hp'
  · rw [hc', ← hid]
    exact ⟨_, AMap.get?_set_eq _ _ _, rfl, rfl⟩

theorem moveFunds_single {bank : AMap (Addr × String) Nat} {frm to : Addr} {amt : Nat} {denom : String} (h : amt ≠ 0) :
    moveFunds bank frm to [⟨amt, denom⟩] = Cw3Fixed.bankSend bank frm to amt denom := by
  have : ([⟨amt, denom⟩] : List Coin).all (fun c => decide (c.amount = 0)) = false := by simp [h]
  simp only [moveFunds, List.isEmpty_cons, Bool.false_eq_true, if_false, this, moveCoins, h]
  cases Cw3Fixed.bankSend bank frm to amt denom <;> rfl

/-- **Clause 1, transaction level, native deposit**: the committed `Propose` transaction moved exactly the
deposit coin from the proposer to the multisig (cw-multi-test moves `info.funds` before the handler runs). -/
theorem propose_native_tx {ext : Ext} {fuel : Nat} {w w' : World} {blk : Block} {snd : Addr} {funds : List Coin}
    {t d : String} {msgs : List Msg} {latest : Option Expiration} {dep : Deposit}
    (hi : Inv w.flex) (hd : w.flex.cfg.deposit = some dep) (hn : dep.cw20 = false)
    (h : tx ext fuel w blk (.flex snd funds (.propose t d msgs latest)) = .ok w') :
    ∃ b, Cw3Fixed.bankSend w.bank snd w.self dep.amount dep.denom = .ok b ∧ w'.bank = b := by
  simp only [tx, Res.bind_ok] at h
  obtain ⟨b, hb, ⟨s', out⟩, he, hdisp⟩ := h
  have := (propose_takes_exact_deposit hi he).1
  simp only [hd, hn, Bool.false_eq_true, if_false] at this
  obtain ⟨hf, rfl⟩ := this
  subst hf
  rw [moveFunds_single (hi.depositPos dep hd)] at hb
  cases fuel <;> simp [dispatch] at hdisp <;> subst hdisp <;> exact ⟨b, hb, rfl⟩

/-- **Clause 1, transaction level, cw20 deposit**: the `Propose` transaction commits only if the deposit token is
the token contract of the world and its `TransferFrom { owner: proposer, recipient: multisig, amount }` — executed
with the multisig as spender — succeeded; the token state of the new world is the one after that transfer. -/
theorem propose_cw20_tx {ext : Ext} {fuel : Nat} {w w' : World} {blk : Block} {snd : Addr} {funds : List Coin}
    {t d : String} {msgs : List Msg} {latest : Option Expiration} {dep : Deposit}
    (hi : Inv w.flex) (hd : w.flex.cfg.deposit = some dep) (hc : dep.cw20 = true)
    (h : tx ext fuel w blk (.flex snd funds (.propose t d msgs latest)) = .ok w') :
    dep.denom = w.tokenAddr ∧
    ∃ t', Cw20.execute w.token blk w.self (.transferFrom ⟨true, snd⟩ ⟨true, w.self⟩ dep.amount) = .ok (t', []) ∧
      w'.token = t' := by
  simp only [tx, Res.bind_ok] at h
  obtain ⟨b, hb, ⟨s', out⟩, he, hdisp⟩ := h
  have := (propose_takes_exact_deposit hi he).1
  simp only [hd, hc, if_true] at this
  subst this
  cases fuel with
  | zero => simp [dispatch] at hdisp
  | succ fuel =>
    simp only [dispatch, Res.bind_ok] at hdisp
    obtain ⟨w1, h1, h2⟩ := hdisp
    have hw1 : w1 = w' := by cases fuel <;> simp [dispatch] at h2 <;> exact h2
    subst hw1
    simp [tokenCall] at h1
    obtain ⟨htok, t', out', hex, hemp, rfl⟩ := h1
    subst hemp
    exact ⟨htok, t', hex, rfl⟩

/-! ## (2) refunds go to the proposer only, only on Execute / Close -/

/-- **Clause 2 (to whom, when).**  Whatever a handler call returns, every payout message in it is the refund
of the deposit recorded in a proposal, addressed to that proposal's proposer, and the call is `Execute` or
`Close` of that very proposal. -/
theorem refund_only_to_proposer {s s' : State} {g : Cw4Group.State} {self : Addr} {blk : Block} {snd : Addr}
    {funds : List Coin} {m : ExecMsg} {out : List Out} (h : execute s g self blk snd funds m = .ok (s', out))
    (o : Out) (ho : o ∈ out) (hp : isPayout o = true) :
    ∃ id p d, (m = .execute id ∨ m = .close id) ∧ s.core.proposals.get? id = some p ∧ p.deposit = some d ∧
      o = refundMsg d p.proposer := by
  obtain ⟨_, hc⟩ := execute_cases h
  rcases hc with ⟨t, d, msgs, latest, w, total, id, _, _, _, _, hout, _⟩ | ⟨id, v, _, hout, _⟩ |
    ⟨id, p, msgs, hm, hpp, _, hout⟩ | ⟨id, p, hm, hpp, _, hout⟩ | ⟨_, _, _, hout⟩
  · subst hout
    cases hd : s.cfg.deposit with
    | none => simp [hd] at ho
    | some dep => simp only [hd] at ho; have := takeDeposit_no_payout dep snd self o ho; simp [this] at hp
  · subst hout; simp at ho
  · subst hout
    rcases List.mem_append.mp ho with ho | ho
    · cases hd : p.deposit with
      | none => simp [hd] at ho
      | some dep => simp [hd] at ho; exact ⟨id, p, dep, Or.inl hm, hpp, hd, ho⟩
    · simp at ho; obtain ⟨x, _, rfl⟩ := ho; simp [isPayout] at hp
  · subst hout
    cases hd : p.deposit with
    | none => simp [hd] at ho
    | some dep =>
      simp only [hd] at ho
      split at ho
      · simp at ho; exact ⟨id, p, dep, Or.inr hm, hpp, hd, ho⟩
      · simp at ho
  · subst hout; simp at ho

/-! ## (3) at most once -/

/-- Number of successful `Execute` and `Close` handler calls for proposal `id` in the committed history
(top-level or nested in a dispatch) — by `refund_only_to_proposer` the only calls that can emit its refund. -/
def handled (log : List Event) (id : Nat) : Nat := log.count (.executed id) + log.count (.closed id)

/-- The stored status can no longer move (`Executed` or `Rejected`). -/
def isFinal (c : Core) (id : Nat) : Bool :=
  match c.proposals.get? id with
  | some p => p.status == .executed || p.status == .rejected
  | none => false

def GhostInv (w : World) : Prop :=
  Inv w.flex ∧ ∀ id, handled w.log id ≤ 1 ∧ (handled w.log id = 1 → isFinal w.flex.core id = true)

theorem handled_append (log : List Event) (e : Event) (id : Nat) :
    handled (log ++ [e]) id = handled log id + (if e = .executed id ∨ e = .closed id then 1 else 0) := by
  unfold handled
  simp only [List.count_append, List.count_singleton]
  by_cases h1 : e = .executed id
  · subst h1; simp; omega
  · by_cases h2 : e = .closed id
    · subst h2; simp; omega
    · have e1 : (e == Event.executed id) = false := by simpa using h1
      have e2 : (e == Event.closed id) = false := by simpa using h2
      simp [h1, h2, e1, e2]

theorem isFinal_later {c c' : Core} (hl : Later c c') {id : Nat} (h : isFinal c id = true) : isFinal c' id = true := by
  unfold isFinal at h ⊢
  cases hp : c.proposals.get? id with
  | none => simp [hp] at h
  | some p =>
    simp only [hp] at h
    obtain ⟨p', hp', _, he⟩ := hl.props id p hp
    simp only [hp']
    cases hs : p.status <;> cases hs' : p'.status <;> simp_all [edge]

/-- A proposal whose current status is `Passed` is stored `Open` or `Passed`. -/
theorem passed_not_final {p : Proposal} {blk : Block} (h : p.currentStatus blk = .ok .passed) :
    p.status ≠ .executed ∧ p.status ≠ .rejected := by
  have := (cs_edge h).1
  simp only [Proposal.tally] at this
  cases hs : p.status <;> simp_all [edge]

theorem ghost_flex {w : World} {g : Cw4Group.State} {self : Addr} {blk : Block} {snd : Addr} {funds : List Coin}
    {em : ExecMsg} {s' : State} {out : List Out}
    (hq : GhostInv w) (he : execute w.flex g self blk snd funds em = .ok (s', out)) :
    GhostInv { w with flex := s', log := w.log ++ [eventOf w.flex snd em] } := by
  obtain ⟨hi, hg⟩ := hq
  refine ⟨execute_inv hi he, ?_⟩
  have hl := execute_later hi he
  intro id
  obtain ⟨hle, hfin⟩ := hg id
  simp only [handled_append]
  obtain ⟨_, hc⟩ := execute_cases he
  rcases hc with ⟨t, d, msgs, latest, w0, total, id0, hm, _⟩ | ⟨id0, v, hm, _⟩ | ⟨id0, p, msgs, hm, hpp, hex, _⟩ |
    ⟨id0, p, hm, hpp, hcl, _⟩ | ⟨hm, _, _, _⟩
  · subst hm; simp [eventOf]; exact ⟨hle, fun h => isFinal_later hl (hfin h)⟩
  · subst hm; simp [eventOf]; exact ⟨hle, fun h => isFinal_later hl (hfin h)⟩
  · subst hm
    simp only [eventOf]
    by_cases e : id0 = id
    · subst e
      obtain ⟨p0, hp0, hst, _, _, hc'⟩ := execute_spec hex
      have hnf := passed_not_final hst
      have h0 : handled w.log id0 = 0 := by
        rcases Nat.lt_or_ge (handled w.log id0) 1 with h | h
        · omega
        · have h1 : handled w.log id0 = 1 := by omega
          have := hfin h1
          simp [isFinal, hp0] at this
          rcases this with h | h <;> simp_all
      simp [h0]
      simp [isFinal, hc']
    · have : ¬ (Event.executed id0 = Event.executed id ∨ Event.executed id0 = Event.closed id) := by simp [e]
      simp only [this, if_false, Nat.add_zero]
      exact ⟨hle, fun h => isFinal_later hl (hfin h)⟩
  · subst hm
    simp only [eventOf]
    by_cases e : id0 = id
    · subst e
      obtain ⟨p0, st, hp0, h1, h2, _, _, _, _, hc'⟩ := close_spec hcl
      have h0 : handled w.log id0 = 0 := by
        rcases Nat.lt_or_ge (handled w.log id0) 1 with h | h
        · omega
        · have h1' : handled w.log id0 = 1 := by omega
          have := hfin h1'
          simp [isFinal, hp0] at this
          rcases this with h | h <;> simp_all
      simp [h0]
      simp [isFinal, hc']
    · have : ¬ (Event.closed id0 = Event.executed id ∨ Event.closed id0 = Event.closed id) := by simp [e]
      simp only [this, if_false, Nat.add_zero]
      exact ⟨hle, fun h => isFinal_later hl (hfin h)⟩
  · subst hm; simp [eventOf]; exact ⟨hle, fun h => isFinal_later hl (hfin h)⟩

theorem ghost_step (ext : Ext) (fuel : Nat) (w : World) (op : Op) (hq : GhostInv w) : GhostInv (step ext fuel w op) := by
  refine step_inv ext GhostInv ?_ ?_ ?_ ?_ fuel w op hq
  · intro blk w snd funds em s' out hq he; exact ghost_flex hq he
  · intro blk w snd m g' outs hq _
    refine ⟨hq.1, fun id => ?_⟩
    have := hq.2 id
    simpa [handled_append] using this
  · intro w b hq; exact hq
  · intro w t hq; exact hq

theorem reachable_ghost {ext : Ext} {fuel : Nat} {w : World} (hr : Reachable ext fuel w) : GhostInv w := by
  obtain ⟨m, s, g, t, bank, self, ga, ta, h0, ops, hi, rfl⟩ := hr
  refine run_inv ext GhostInv fuel (ghost_step ext fuel) ops _ ⟨instantiate_inv hi, fun id => ?_⟩
  simp [World.init, handled]

/-- **Clause 3 (at most once).**  In every reachable world, for every proposal, the committed history contains at
most one successful `Execute`-or-`Close` handler call of it (top-level or nested, in any order, Execute and Close
counted together) — hence at most one refund of its deposit: never two Executes, never two Closes, never both. -/
theorem refund_at_most_once {ext : Ext} {fuel : Nat} {w : World} (hr : Reachable ext fuel w) (id : Nat) :
    handled w.log id ≤ 1 :=
  ((reachable_ghost hr).2 id).1

/-- After the one refunding call the proposal is final: every further `Execute` or `Close` of it is refused. -/
theorem handled_then_refused {ext : Ext} {fuel : Nat} {w : World} (hr : Reachable ext fuel w) {id : Nat}
    (h1 : handled w.log id = 1) (g : Cw4Group.State) (self : Addr) (blk : Block) (snd : Addr) (funds : List Coin) :
    (execute w.flex g self blk snd funds (.execute id)).isOk = false ∧
    (execute w.flex g self blk snd funds (.close id)).isOk = false := by
  have hf := ((reachable_ghost hr).2 id).2 h1
  constructor
  · cases he : execute w.flex g self blk snd funds (.execute id) with
    | error e => rfl
    | ok r =>
      obtain ⟨s', out⟩ := r
      obtain ⟨_, hc⟩ := execute_cases he
      rcases hc with ⟨_, _, _, _, _, _, _, hm, _⟩ | ⟨_, _, hm, _⟩ | ⟨id0, p, msgs, hm, hpp, hex, _⟩ | ⟨_, _, hm, _⟩ | ⟨hm, _⟩ <;>
        cases hm
      obtain ⟨p0, hp0, hst, _⟩ := execute_spec hex
      have := passed_not_final hst
      simp [isFinal, hp0] at hf
      rcases hf with h | h <;> simp_all
  · cases he : execute w.flex g self blk snd funds (.close id) with
    | error e => rfl
    | ok r =>
      obtain ⟨s', out⟩ := r
      obtain ⟨_, hc⟩ := execute_cases he
      rcases hc with ⟨_, _, _, _, _, _, _, hm, _⟩ | ⟨_, _, hm, _⟩ | ⟨_, _, _, hm, _⟩ | ⟨id0, p, hm, hpp, hcl, _⟩ | ⟨hm, _⟩ <;>
        cases hm
      obtain ⟨p0, st, hp0, h1', h2', _⟩ := close_spec hcl
      simp [isFinal, hp0] at hf
      rcases hf with h | h <;> simp_all

/-! ## (4) executed proposals are always refunded; no refund when disabled -/

/-- **Clause 4.**  A successful `Execute` of a proposal that carries a deposit returns the refund to the proposer
first, followed by exactly the proposal's messages, in order ("Unconditionally refund here"), and the proposal is
stored `Executed`; the runtime commits the transaction only if the refund was actually paid (any failing
dispatched message aborts the transaction, `tx`). -/
theorem executed_always_refunded {s s' : State} {g : Cw4Group.State} {self : Addr} {blk : Block} {snd : Addr}
    {funds : List Coin} {id : Nat} {out : List Out} {p : Proposal} {d : Deposit}
    (h : execute s g self blk snd funds (.execute id) = .ok (s', out))
    (hp : s.core.proposals.get? id = some p) (hd : p.deposit = some d) :
    out = refundMsg d p.proposer :: p.msgs.map Out.msg ∧
    ∃ p', s'.core.proposals.get? id = some p' ∧ p'.status = .executed := by
  obtain ⟨_, hc⟩ := execute_cases h
  rcases hc with ⟨_, _, _, _, _, _, _, hm, _⟩ | ⟨_, _, hm, _⟩ | ⟨id0, p1, msgs, hm, hpp, hex, hout⟩ | ⟨_, _, hm, _⟩ | ⟨hm, _⟩ <;>
    cases hm
  rw [hp] at hpp; cases hpp
  obtain ⟨p0, hp0, _, _, hmsgs, hc'⟩ := execute_spec hex
  rw [hp] at hp0; cases hp0
  subst hmsgs
  refine ⟨by simp [hout, hd], ?_⟩
  rw [hc']
  exact ⟨_, AMap.get?_set_eq _ _ _, rfl⟩

/-- **Clause 5 (no refund when disabled).**  `Close` of a proposal whose deposit has
`refund_failed_proposals = false` (or that has no deposit) returns no message at all; and no handler other than
`Execute` and `Close` ever returns a payout. -/
theorem no_refund_when_disabled {s s' : State} {g : Cw4Group.State} {self : Addr} {blk : Block} {snd : Addr}
    {funds : List Coin} {m : ExecMsg} {out : List Out}
    (h : execute s g self blk snd funds m = .ok (s', out)) :
    (∀ id p, m = .close id → s.core.proposals.get? id = some p →
        (p.deposit = none ∨ ∃ d, p.deposit = some d ∧ d.refundFailed = false) → out = []) ∧
    ((∀ id, m ≠ .execute id) → (∀ id, m ≠ .close id) → ∀ o ∈ out, isPayout o = false) := by
  constructor
  · intro id p hm hp hd
    subst hm
    obtain ⟨_, hc⟩ := execute_cases h
    rcases hc with ⟨_, _, _, _, _, _, _, hm, _⟩ | ⟨_, _, hm, _⟩ | ⟨_, _, _, hm, _⟩ | ⟨id0, p1, hm, hpp, _, hout⟩ | ⟨hm, _⟩ <;>
      cases hm
    rw [hp] at hpp; cases hpp
    rcases hd with hd | ⟨d, hd, hr⟩ <;> simp [hout, hd, *]
  · intro h1 h2 o ho
    cases hpo : isPayout o with
    | false => rfl
    | true =>
      obtain ⟨id, _, _, hm, _⟩ := refund_only_to_proposer h o ho hpo
      rcases hm with hm | hm
      · exact absurd hm (h1 id)
      · exact absurd hm (h2 id)

/-! ## (6) recoverability of the deposit of failed proposals -/

/-- **Clause 6, partial** (guard: the proposal is still stored `Open` when it expires).  With refunds enabled, a
proposal that is stored `Open`, has expired and did not pass can be closed by anyone, and `Close` returns exactly
the refund of its deposit to its proposer. -/
theorem failed_deposit_recoverable_partial {s : State} {g : Cw4Group.State} {self : Addr} {blk : Block} {snd : Addr}
    {funds : List Coin} {id : Nat} {p : Proposal} {d : Deposit} {st : Status}
    (hp : s.core.proposals.get? id = some p) (hopen : p.status = .open)
    (hexp : p.expires.isExpired blk = true) (hcs : p.currentStatus blk = .ok st) (hnp : st ≠ .passed)
    (hd : p.deposit = some d) (hr : d.refundFailed = true) :
    ∃ s', execute s g self blk snd funds (.close id) = .ok (s', [refundMsg d p.proposer]) := by
  have hl : load s.core id = .ok p := by simp [hp]
  refine ⟨{ s with core := { s.core with proposals := s.core.proposals.set id { p with status := .rejected } } }, ?_⟩
  simp [Cw3Flex.execute, execClose, Cw3Core.close, hl, hopen, hcs, hnp, hexp, hd, hr, bind, Except.bind, check, pure, Except.pure]

/-- **Clause 6 for reachable worlds, without the `current_status` hypothesis.**  In every reachable world, with
refunds enabled, the deposit of a proposal that is stored `Open`, has expired and whose tally fits `u64` (always the
case outside the same-block finding D3: `C06Flex.flex_tally_le_total`) is recoverable at once, one way or the other:
either `Close` — by anyone, with any funds — returns exactly the refund to the proposer, or the proposal is Passed at
that block and `Execute` by any authorised sender returns the refund first, followed by the proposal's messages.
(`current_status` cannot fail here: `reachable_statusInv`.) -/
theorem failed_deposit_recoverable_reachable {ext : Ext} {fuel : Nat} {w : World} (hr : Reachable ext fuel w)
    {id : Nat} {p : Proposal} {d : Deposit} {blk : Block}
    (hp : w.flex.core.proposals.get? id = some p) (hopen : p.status = .open)
    (hexp : p.expires.isExpired blk = true) (hfit : p.Fits) (hd : p.deposit = some d) (hrf : d.refundFailed = true)
    (g : Cw4Group.State) (self : Addr) (funds : List Coin) :
    (∀ snd, ∃ s', execute w.flex g self blk snd funds (.close id) = .ok (s', [refundMsg d p.proposer])) ∨
    (p.currentStatus blk = .ok .passed ∧ ∀ snd, authorize w.flex.cfg g snd = true →
      ∃ s', execute w.flex g self blk snd funds (.execute id) = .ok (s', refundMsg d p.proposer :: p.msgs.map Out.msg)) := by
  obtain ⟨st, hcs⟩ := reachable_statusInv hr id p hp hfit blk
  by_cases hst : st = .passed
  · subst hst
    right
    refine ⟨hcs, fun snd ha => ?_⟩
    have hl : load w.flex.core id = .ok p := by simp [hp]
    refine ⟨{ w.flex with core := { w.flex.core with proposals := w.flex.core.proposals.set id { p with status := .executed } } }, ?_⟩
    simp [Cw3Flex.execute, execExecute, Cw3Core.execute, hl, hcs, ha, hd, bind, Except.bind, check, pure, Except.pure]
  · left
    intro snd
    exact failed_deposit_recoverable_partial hp hopen hexp hcs hst hd hrf

/-! ## (6') the exact extent of D6: a proposal stored `Rejected` and not yet handled is stuck for ever -/

/-- A proposal stored `Rejected` admits neither `Execute` nor `Close`, whoever calls, at any block. -/
theorem rejected_refuses {s : State} {id : Nat} {p : Proposal} (hp : s.core.proposals.get? id = some p)
    (hs : p.status = .rejected) (g : Cw4Group.State) (self : Addr) (blk : Block) (snd : Addr) (funds : List Coin) :
    (execute s g self blk snd funds (.execute id)).isOk = false ∧
    (execute s g self blk snd funds (.close id)).isOk = false := by
  constructor
  · cases he : execute s g self blk snd funds (.execute id) with
    | error e => rfl
    | ok r =>
      obtain ⟨s', out⟩ := r
      obtain ⟨_, hc⟩ := execute_cases he
      rcases hc with ⟨_, _, _, _, _, _, _, hm, _⟩ | ⟨_, _, hm, _⟩ | ⟨id0, p1, msgs, hm, hpp, hex, _⟩ | ⟨_, _, hm, _⟩ | ⟨hm, _⟩ <;>
        cases hm
      obtain ⟨p0, hp0, hst, _⟩ := execute_spec hex
      rw [hp] at hp0; cases hp0
      exact absurd hs (passed_not_final hst).2
  · cases he : execute s g self blk snd funds (.close id) with
    | error e => rfl
    | ok r =>
      obtain ⟨s', out⟩ := r
      obtain ⟨_, hc⟩ := execute_cases he
      rcases hc with ⟨_, _, _, _, _, _, _, hm, _⟩ | ⟨_, _, hm, _⟩ | ⟨_, _, _, hm, _⟩ | ⟨id0, p1, hm, hpp, hcl, _⟩ | ⟨hm, _⟩ <;>
        cases hm
      obtain ⟨p0, st, hp0, _, h2', _⟩ := close_spec hcl
      rw [hp] at hp0; cases hp0
      exact absurd hs h2'

/-- World invariant behind `stored_rejected_never_refunded`. -/
def StuckInv (id : Nat) (w : World) : Prop :=
  Inv w.flex ∧ (∃ p, w.flex.core.proposals.get? id = some p ∧ p.status = .rejected) ∧ handled w.log id = 0

theorem stuck_flex {id : Nat} {w : World} {g : Cw4Group.State} {self : Addr} {blk : Block} {snd : Addr} {funds : List Coin}
    {em : ExecMsg} {s' : State} {out : List Out}
    (hq : StuckInv id w) (he : execute w.flex g self blk snd funds em = .ok (s', out)) :
    StuckInv id { w with flex := s', log := w.log ++ [eventOf w.flex snd em] } := by
  obtain ⟨hi, ⟨p, hp, hs⟩, h0⟩ := hq
  have hl := execute_later hi he
  refine ⟨execute_inv hi he, ?_, ?_⟩
  · obtain ⟨p', hp', _, hedge⟩ := hl.props id p hp
    refine ⟨p', hp', ?_⟩
    rw [hs] at hedge
    cases hs' : p'.status <;> simp_all [edge]
  · rw [handled_append, h0]
    have hno : ¬ (eventOf w.flex snd em = .executed id ∨ eventOf w.flex snd em = .closed id) := by
      have href := rejected_refuses hp hs g self blk snd funds
      rintro (h | h)
      · have : em = .execute id := by cases em <;> simp [eventOf] at h; subst h; rfl
        subst this; rw [he] at href; exact absurd href.1 (by simp [Res.isOk])
      · have : em = .close id := by cases em <;> simp [eventOf] at h; subst h; rfl
        subst this; rw [he] at href; exact absurd href.2 (by simp [Res.isOk])
    simp [hno]

/-- **D6 as a theorem: the stuck set is exactly "stored `Rejected` and never handled".**  In every reachable world, a
proposal that is stored `Rejected` and has no `Execute`/`Close` in the committed history (so its deposit was never
refunded — `refund_only_to_proposer`) stays that way over EVERY continuation of the history — any transactions on the
multisig, the group, the token, nested dispatches, any blocks: the count of handled calls stays 0, the proposal stays
stored `Rejected`, and in the resulting world `Execute` and `Close` of it are refused for every sender, group state,
funds and block.  With `refund_failed_proposals = true` this is the open known finding; together with
`failed_deposit_recoverable_reachable` (stored `Open` at expiry ⇒ recoverable) it characterises which failed proposals
lose their deposit: those voted down (or created expired-and-rejected) BEFORE they expire. -/
theorem stored_rejected_never_refunded {ext : Ext} {fuel : Nat} {w : World} (hr : Reachable ext fuel w) {id : Nat}
    {p : Proposal} (hp : w.flex.core.proposals.get? id = some p) (hs : p.status = .rejected)
    (h0 : handled w.log id = 0) (ops : List Op) :
    handled (run ext fuel w ops).log id = 0 ∧
    (∃ p', (run ext fuel w ops).flex.core.proposals.get? id = some p' ∧ p'.status = .rejected ∧ p'.deposit = p.deposit ∧
      p'.proposer = p.proposer) ∧
    ∀ g self blk snd funds,
      (execute (run ext fuel w ops).flex g self blk snd funds (.execute id)).isOk = false ∧
      (execute (run ext fuel w ops).flex g self blk snd funds (.close id)).isOk = false := by
  have hq : StuckInv id (run ext fuel w ops) := by
    refine run_inv ext (StuckInv id) fuel ?_ ops w ⟨reachable_inv hr, ⟨p, hp, hs⟩, h0⟩
    intro w op hq
    refine step_inv ext (StuckInv id) ?_ ?_ (fun w b h => h) (fun w t h => h) fuel w op hq
    · intro blk w snd funds em s' out hq he; exact stuck_flex hq he
    · intro blk w snd m g' outs hq _
      refine ⟨hq.1, hq.2.1, ?_⟩
      have := hq.2.2
      simpa [handled_append] using this
  obtain ⟨_, ⟨p', hp', hs'⟩, h0'⟩ := hq
  have hl := run_rel ext (fun s s' => Later s.core s'.core) (fun s => later_refl _) (fun _ _ _ h1 h2 => later_trans h1 h2)
    (fun g self blk s snd funds m s' out hi h => execute_later hi h) fuel ops w (reachable_inv hr)
  obtain ⟨p'', hp'', hf, _⟩ := hl.props id p hp
  rw [hp'] at hp''; cases hp''
  refine ⟨h0', ⟨p', hp', hs', ?_, ?_⟩, fun g self blk snd funds => rejected_refuses hp' hs' g self blk snd funds⟩
  · simp only [Proposal.fixedPart, Proposal.mk.injEq] at hf; exact hf.2.2.2.2.2.2.2.2.2.2
  · simp only [Proposal.fixedPart, Proposal.mk.injEq] at hf; exact hf.2.2.2.2.2.2.2.2.2.1

/-! ## (2'/4') the refund at transaction level: the transfer to the proposer happened in the committed transaction -/

/-- Dispatching a native refund message: the bank send from the multisig to the depositor succeeded, then the rest is
dispatched. -/
theorem dispatch_refund_native {ext : Ext} {fuel : Nat} {w w' : World} {blk : Block} {d : Deposit} {a : Addr}
    {rest : List Out} (hn : d.cw20 = false) (h : dispatch ext fuel w blk (refundMsg d a :: rest) = .ok w') :
    ∃ fuel' b, fuel = fuel' + 1 ∧ Cw3Fixed.bankSend w.bank w.self a d.amount d.denom = .ok b ∧
      dispatch ext fuel' { w with bank := b } blk rest = .ok w' := by
  cases fuel with
  | zero => simp [dispatch] at h
  | succ fuel =>
    simp only [refundMsg, hn, Bool.false_eq_true, if_false, dispatch, Res.bind_ok] at h
    obtain ⟨w1, ⟨b, hb, hw1⟩, h2⟩ := h
    simp at hw1; subst hw1
    exact ⟨fuel, b, rfl, hb, h2⟩

/-- Dispatching a cw20 refund message: the deposit token is the token contract of the world and its
`Transfer { recipient: depositor, amount }` sent by the multisig succeeded, then the rest is dispatched. -/
theorem dispatch_refund_cw20 {ext : Ext} {fuel : Nat} {w w' : World} {blk : Block} {d : Deposit} {a : Addr}
    {rest : List Out} (hc : d.cw20 = true) (h : dispatch ext fuel w blk (refundMsg d a :: rest) = .ok w') :
    ∃ fuel' t, fuel = fuel' + 1 ∧ d.denom = w.tokenAddr ∧
      Cw20.execute w.token blk w.self (.transfer ⟨true, a⟩ d.amount) = .ok (t, []) ∧
      dispatch ext fuel' { w with token := t } blk rest = .ok w' := by
  cases fuel with
  | zero => simp [dispatch] at h
  | succ fuel =>
    simp only [refundMsg, hc, if_true, dispatch, Res.bind_ok] at h
    obtain ⟨w1, h1, h2⟩ := h
    simp [tokenCall] at h1
    obtain ⟨htok, t', out', hex, hemp, rfl⟩ := h1
    subst hemp
    exact ⟨fuel, t', rfl, htok, hex, h2⟩

/-- **Executed ⇒ refunded, transaction level, native deposit** (mirror of `propose_native_tx`).  A committed `Execute`
transaction of a proposal with a native deposit: after the attached funds moved, the multisig paid exactly the
deposit coin to the proposer (the bank send succeeded — otherwise the whole transaction would have failed), and only
then the proposal's own messages were dispatched, in the world with that payment made. -/
theorem execute_native_tx {ext : Ext} {fuel : Nat} {w w' : World} {blk : Block} {snd : Addr} {funds : List Coin}
    {id : Nat} {p : Proposal} {d : Deposit}
    (hp : w.flex.core.proposals.get? id = some p) (hd : p.deposit = some d) (hn : d.cw20 = false)
    (h : tx ext fuel w blk (.flex snd funds (.execute id)) = .ok w') :
    ∃ b0 b1 s' fuel', moveFunds w.bank snd w.self funds = .ok b0 ∧
      Cw3Fixed.bankSend b0 w.self p.proposer d.amount d.denom = .ok b1 ∧ fuel = fuel' + 1 ∧
      dispatch ext fuel' { w with bank := b1, flex := s', log := w.log ++ [.executed id] } blk (p.msgs.map Out.msg) = .ok w' := by
  simp only [tx, Res.bind_ok] at h
  obtain ⟨b0, hb0, ⟨s', out⟩, he, hdisp⟩ := h
  obtain ⟨hout, _⟩ := executed_always_refunded he hp hd
  subst hout
  obtain ⟨fuel', b1, hf, hb1, hrest⟩ := dispatch_refund_native hn hdisp
  exact ⟨b0, b1, s', fuel', hb0, hb1, hf, hrest⟩

/-- **Executed ⇒ refunded, transaction level, cw20 deposit.**  A committed `Execute` transaction of a proposal with a
cw20 deposit: the deposit token is the world's token contract, its `Transfer { recipient: proposer, amount }` sent by
the multisig succeeded, and only then the proposal's messages were dispatched. -/
theorem execute_cw20_tx {ext : Ext} {fuel : Nat} {w w' : World} {blk : Block} {snd : Addr} {funds : List Coin}
    {id : Nat} {p : Proposal} {d : Deposit}
    (hp : w.flex.core.proposals.get? id = some p) (hd : p.deposit = some d) (hc : d.cw20 = true)
    (h : tx ext fuel w blk (.flex snd funds (.execute id)) = .ok w') :
    d.denom = w.tokenAddr ∧
    ∃ b0 t s' fuel', moveFunds w.bank snd w.self funds = .ok b0 ∧
      Cw20.execute w.token blk w.self (.transfer ⟨true, p.proposer⟩ d.amount) = .ok (t, []) ∧ fuel = fuel' + 1 ∧
      dispatch ext fuel' { w with bank := b0, token := t, flex := s', log := w.log ++ [.executed id] } blk
        (p.msgs.map Out.msg) = .ok w' := by
  simp only [tx, Res.bind_ok] at h
  obtain ⟨b0, hb0, ⟨s', out⟩, he, hdisp⟩ := h
  obtain ⟨hout, _⟩ := executed_always_refunded he hp hd
  subst hout
  obtain ⟨fuel', t, hf, htok, hex, hrest⟩ := dispatch_refund_cw20 hc hdisp
  exact ⟨htok, b0, t, s', fuel', hb0, hex, hf, hrest⟩

/-- **Closed with refunds enabled ⇒ refunded, transaction level.**  A committed `Close` transaction of a proposal whose
deposit has `refund_failed_proposals = true`: the refund to the proposer — bank send of the deposit coin, resp. the
token's `Transfer` — succeeded, and nothing else was dispatched: the new world differs from the old one only by the
attached funds, that payment, the proposal's stored status and the ghost log. -/
theorem close_refund_tx {ext : Ext} {fuel : Nat} {w w' : World} {blk : Block} {snd : Addr} {funds : List Coin}
    {id : Nat} {p : Proposal} {d : Deposit}
    (hp : w.flex.core.proposals.get? id = some p) (hd : p.deposit = some d) (hrf : d.refundFailed = true)
    (h : tx ext fuel w blk (.flex snd funds (.close id)) = .ok w') :
    ∃ b0 s', moveFunds w.bank snd w.self funds = .ok b0 ∧
      if d.cw20 then
        d.denom = w.tokenAddr ∧ ∃ t, Cw20.execute w.token blk w.self (.transfer ⟨true, p.proposer⟩ d.amount) = .ok (t, []) ∧
          w' = { w with bank := b0, token := t, flex := s', log := w.log ++ [.closed id] }
      else
        ∃ b1, Cw3Fixed.bankSend b0 w.self p.proposer d.amount d.denom = .ok b1 ∧
          w' = { w with bank := b1, flex := s', log := w.log ++ [.closed id] } := by
  simp only [tx, Res.bind_ok] at h
  obtain ⟨b0, hb0, ⟨s', out⟩, he, hdisp⟩ := h
  have hout : out = [refundMsg d p.proposer] := by
    obtain ⟨_, hc⟩ := execute_cases he
    rcases hc with ⟨_, _, _, _, _, _, _, hm, _⟩ | ⟨_, _, hm, _⟩ | ⟨_, _, _, hm, _⟩ | ⟨id0, p1, hm, hpp, _, hout⟩ | ⟨hm, _⟩ <;>
      cases hm
    rw [hp] at hpp; cases hpp
    simp [hout, hd, hrf]
  subst hout
  refine ⟨b0, s', hb0, ?_⟩
  by_cases hc : d.cw20 = true
  · simp only [hc, if_true]
    obtain ⟨fuel', t, _, htok, hex, hrest⟩ := dispatch_refund_cw20 hc hdisp
    refine ⟨htok, t, hex, ?_⟩
    cases fuel' <;> simp [dispatch] at hrest <;> exact hrest.symm
  · have hn : d.cw20 = false := by simpa using hc
    simp only [hn, Bool.false_eq_true, if_false]
    obtain ⟨fuel', b1, _, hb1, hrest⟩ := dispatch_refund_native hn hdisp
    refine ⟨b1, hb1, ?_⟩
    cases fuel' <;> simp [dispatch] at hrest <;> exact hrest.symm

/-- **At most one refund message per handler call**: whatever a handler returns contains at most one payout. With
`refund_at_most_once` (at most one `Execute`-or-`Close` per proposal per history) and `refund_only_to_proposer` (only
those calls pay out, and only that proposal's refund) this is literally "at most one refund message per proposal per
history". -/
theorem payouts_le_one {s s' : State} {g : Cw4Group.State} {self : Addr} {blk : Block} {snd : Addr}
    {funds : List Coin} {m : ExecMsg} {out : List Out} (h : execute s g self blk snd funds m = .ok (s', out)) :
    (out.filter isPayout).length ≤ 1 := by
  obtain ⟨_, hc⟩ := execute_cases h
  rcases hc with ⟨t, d, msgs, latest, w, total, id, _, _, _, _, hout, _⟩ | ⟨id, v, _, hout, _⟩ |
    ⟨id, p, msgs, hm, hpp, _, hout⟩ | ⟨id, p, hm, hpp, _, hout⟩ | ⟨_, _, _, hout⟩
  · subst hout
    cases hd : s.cfg.deposit with
    | none => simp
    | some dep =>
      have : (takeDeposit dep snd self).filter isPayout = [] :=
        List.filter_eq_nil_iff.mpr (fun o ho => by simp [takeDeposit_no_payout dep snd self o ho])
      simp [this]
  · subst hout; simp
  · subst hout
    have hmsgs : (msgs.map Out.msg).filter isPayout = [] :=
      List.filter_eq_nil_iff.mpr (fun o ho => by simp at ho; obtain ⟨x, _, rfl⟩ := ho; simp [isPayout])
    rw [List.filter_append, hmsgs]
    cases hd : p.deposit with
    | none => simp
    | some dep => simp [refundMsg_isPayout]
  · subst hout
    cases hd : p.deposit with
    | none => simp
    | some dep =>
      simp only
      split
      · simp [refundMsg_isPayout]
      · simp
  · subst hout; simp

/-! ## the unguarded clause 6 is false: D6 -/

namespace Cex

def group0 : Cw4Group.State :=
  match Cw4Group.instantiate ⟨some ⟨true, "adm"⟩, [(⟨true, "a"⟩, 1), (⟨true, "b"⟩, 2), (⟨true, "c"⟩, 2)]⟩ 5 with
  | .ok g => g
  | .error _ => Cw4Group.State.empty

def token0 : Cw20.State :=
  { supply := 0, mint := none, balances := [], allow := [], allowSp := [], version := ⟨"crates.io:cw20-base", 2, 0, 0, none⟩ }

def inst : InstMsg :=
  { group := ⟨true, "grp"⟩, threshold := .absoluteCount 3, maxVotingPeriod := .height 5, executor := none,
    deposit := some ⟨5, "ucosm", false, true, true⟩ }

def flex0 : State := match instantiate inst (some group0) with | .ok s => s | .error _ => default

def world0 : World := World.init flex0 group0 token0 [(("a", "ucosm"), 20)] "ms" "grp" "tok" 5

def noExt : Ext := fun _ => none

/-- `a` proposes (paying 5ucosm), `b` and `c` vote it down in block 10, well before its expiry at height 15. -/
def ops : List Op :=
  [⟨⟨10, 0⟩, .flex "a" [⟨5, "ucosm"⟩] (.propose "t" "d" [] none)⟩,
   ⟨⟨10, 0⟩, .flex "b" [] (.vote 1 .no)⟩,
   ⟨⟨10, 0⟩, .flex "c" [] (.vote 1 .no)⟩]

def final : World := run noExt 10 world0 ops

end Cex

/-- Non-vacuity of the counterexample's setup. -/
example : instantiate Cex.inst (some Cex.group0) = .ok Cex.flex0 := rfl

example : Reachable Cex.noExt 10 Cex.final :=
  ⟨Cex.inst, Cex.flex0, Cex.group0, Cex.token0, _, "ms", "grp", "tok", 5, Cex.ops, rfl, rfl⟩

/-- **D6, machine-checked.**  Refunds are enabled; proposal 1 was voted down before its expiry, so it is *stored*
`Rejected`; its deposit (5ucosm) sits in the multisig and was never refunded.  After expiry (block 20) `Close` is
refused (and so is `Execute`): the deposit of this failed proposal is not recoverable — the unguarded clause 6
of C15 is false of the code. -/
theorem C15_counterexample :
    ((Cex.final.flex.core.proposals.get? 1).map fun p => (p.status, p.deposit.map (·.refundFailed), p.expires.isExpired ⟨20, 0⟩))
        = some (.rejected, some true, true) ∧
    handled Cex.final.log 1 = 0 ∧
    balance Cex.final "ms" "ucosm" = 5 ∧ balance Cex.final "a" "ucosm" = 15 ∧
    (tx Cex.noExt 10 Cex.final ⟨20, 0⟩ (.flex "x" [] (.close 1))).isOk = false ∧
    (tx Cex.noExt 10 Cex.final ⟨20, 0⟩ (.flex "x" [] (.execute 1))).isOk = false := by
  decide

/-- Non-vacuity of `failed_deposit_recoverable_partial`: the same proposal with a single `no` vote is still stored
`Open` at expiry, and `Close` then returns the refund to the proposer `a`. -/
example :
    ((Cw3Flex.execute (run Cex.noExt 10 Cex.world0 (Cex.ops.take 2)).flex Cex.group0 "ms" ⟨20, 0⟩ "x" [] (.close 1)).toOption.map (·.2))
      = some [Out.bank "a" 5 "ucosm"] := by
  decide

/-- Non-vacuity of `stored_rejected_never_refunded`: `Cex.final` is reachable, proposal 1 is stored `Rejected` and was
never handled — so by the theorem no continuation ever refunds it. -/
example : Reachable Cex.noExt 10 Cex.final ∧
    ((Cex.final.flex.core.proposals.get? 1).map (·.status)) = some .rejected ∧ handled Cex.final.log 1 = 0 :=
  ⟨⟨Cex.inst, Cex.flex0, Cex.group0, Cex.token0, _, "ms", "grp", "tok", 5, Cex.ops, rfl, rfl⟩, by decide, by decide⟩

/-- Non-vacuity of `failed_deposit_recoverable_reachable` and `close_refund_tx` (native): after a single `no` vote the
proposal is stored `Open`, fits `u64`, expires at height 15; the `Close` transaction at block 20 commits and pays the
5ucosm back to `a`. -/
example :
    let w := run Cex.noExt 10 Cex.world0 (Cex.ops.take 2)
    ((w.flex.core.proposals.get? 1).map fun p => (p.status, p.expires.isExpired ⟨20, 0⟩, p.votes)) = some (.open, true, ⟨1, 2, 0, 0⟩) ∧
    ((tx Cex.noExt 10 w ⟨20, 0⟩ (.flex "x" [] (.close 1))).toOption.map fun w' => (balance w' "a" "ucosm", balance w' "ms" "ucosm"))
      = some (20, 0) := by
  decide

namespace Cex20

/-- a cw20 deposit token in which `a` holds 20 -/
def token0 : Cw20.State :=
  { supply := 20, mint := none, balances := [("a", 20)], allow := [], allowSp := [], version := ⟨"crates.io:cw20-base", 2, 0, 0, none⟩ }

/-- deposit: 5 units of the cw20 token at `tok`, refunds of failed proposals enabled -/
def inst : InstMsg :=
  { group := ⟨true, "grp"⟩, threshold := .absoluteCount 3, maxVotingPeriod := .height 5, executor := none,
    deposit := some ⟨5, "tok", true, true, true⟩ }

def flex0 : State := match instantiate inst (some Cex.group0) with | .ok s => s | .error _ => default

def world0 : World := World.init flex0 Cex.group0 token0 [] "ms" "grp" "tok" 5

/-- `a` grants the multisig an allowance of 5, proposes (the deposit is pulled by `TransferFrom`), `b` votes yes
(1 + 2 = 3: Passed), an outsider executes (the deposit goes back by `Transfer`). -/
def ops : List Op :=
  [⟨⟨10, 0⟩, .token "a" (.increaseAllowance ⟨true, "ms"⟩ 5 none)⟩,
   ⟨⟨10, 0⟩, .flex "a" [] (.propose "t" "d" [] none)⟩,
   ⟨⟨11, 0⟩, .flex "b" [] (.vote 1 .yes)⟩,
   ⟨⟨12, 0⟩, .flex "x" [] (.execute 1)⟩]

/-- the same deposit with `refund_failed_proposals = false` -/
def instNoRefund : InstMsg := { inst with deposit := some ⟨5, "tok", true, false, true⟩ }
def flexNoRefund : State := match instantiate instNoRefund (some Cex.group0) with | .ok s => s | .error _ => default
def worldNoRefund : World := World.init flexNoRefund Cex.group0 token0 [] "ms" "grp" "tok" 5

end Cex20

example : instantiate Cex20.inst (some Cex.group0) = .ok Cex20.flex0 := rfl
example : instantiate Cex20.instNoRefund (some Cex.group0) = .ok Cex20.flexNoRefund := rfl

/-- **Non-vacuity for cw20 deposits** (`propose_cw20_tx`, `execute_cw20_tx`): the hypotheses are satisfiable — the
configured deposit is a cw20 one, the `Propose` transaction commits and moves 5 tokens from `a` to the multisig, the
`Execute` transaction commits and moves them back. -/
example :
    let w1 := run Cex.noExt 10 Cex20.world0 (Cex20.ops.take 1)
    let w2 := run Cex.noExt 10 Cex20.world0 (Cex20.ops.take 2)
    let w3 := run Cex.noExt 10 Cex20.world0 (Cex20.ops.take 3)
    let w4 := run Cex.noExt 10 Cex20.world0 Cex20.ops
    (w1.flex.cfg.deposit.map (·.cw20)) = some true ∧
    (tx Cex.noExt 10 w1 ⟨10, 0⟩ (.flex "a" [] (.propose "t" "d" [] none))).isOk = true ∧
    (w2.token.balances.get? "a", w2.token.balances.get? "ms") = (some 15, some 5) ∧
    ((w3.flex.core.proposals.get? 1).map fun p => (p.status, p.deposit.map (·.cw20))) = some (.passed, some true) ∧
    (tx Cex.noExt 10 w3 ⟨12, 0⟩ (.flex "x" [] (.execute 1))).isOk = true ∧
    (w4.token.balances.get? "a", w4.token.balances.get? "ms") = (some 20, some 0) ∧ handled w4.log 1 = 1 := by
  decide

/-- Without the allowance the cw20 `Propose` transaction fails as a whole (the handler succeeds, the dispatched
`TransferFrom` does not). -/
example : (tx Cex.noExt 10 Cex20.world0 ⟨10, 0⟩ (.flex "a" [] (.propose "t" "d" [] none))).isOk = false ∧
    (Cw3Flex.execute Cex20.world0.flex Cex20.world0.group "ms" ⟨10, 0⟩ "a" [] (.propose "t" "d" [] none)).isOk = true := by
  decide

/-- **Non-vacuity for `refund_failed_proposals = false`** (`no_refund_when_disabled`): the proposal expires stored
`Open`, `Close` commits, returns no message, and the 5 tokens stay with the multisig. -/
example :
    let w := run Cex.noExt 10 Cex20.worldNoRefund (Cex20.ops.take 2)
    ((w.flex.core.proposals.get? 1).map fun p => (p.status, p.deposit.map (·.refundFailed))) = some (.open, some false) ∧
    ((Cw3Flex.execute w.flex w.group "ms" ⟨20, 0⟩ "x" [] (.close 1)).toOption.map (·.2)) = some [] ∧
    ((tx Cex.noExt 10 w ⟨20, 0⟩ (.flex "x" [] (.close 1))).toOption.map fun w' =>
      (w'.token.balances.get? "a", w'.token.balances.get? "ms")) = some (some 15, some 5) := by
  decide

/-- Non-vacuity of `execute_native_tx`: `a` proposes with the native deposit, `b` votes yes (1 + 2 ≥ 3: Passed), an
outsider's `Execute` transaction commits and the 5ucosm are back with `a`. -/
example :
    let w := run Cex.noExt 10 Cex.world0
      [⟨⟨10, 0⟩, .flex "a" [⟨5, "ucosm"⟩] (.propose "t" "d" [] none)⟩, ⟨⟨10, 0⟩, .flex "b" [] (.vote 1 .yes)⟩]
    ((w.flex.core.proposals.get? 1).map fun p => (p.status, p.deposit.map (·.cw20))) = some (.passed, some false) ∧
    (balance w "a" "ucosm", balance w "ms" "ucosm") = (15, 5) ∧
    ((tx Cex.noExt 10 w ⟨11, 0⟩ (.flex "x" [] (.execute 1))).toOption.map fun w' =>
      (balance w' "a" "ucosm", balance w' "ms" "ucosm", handled w'.log 1)) = some (20, 0, 1) := by
  decide

/-! ## (7) the deposit pool across concurrent proposals, at world level

Ghost quantities, all read off the world (`w.bank`, `w.token`, the ghost log and the proposal map):

* `holdings dep w` — what the multisig holds of the deposit denomination (native: its bank balance of `dep.denom`;
  cw20: its balance in the world's token contract),
* `unreturned w` — the proposals whose deposit was taken and not returned: created (`1..count`) and with no
  `Execute`/`Close` in the committed history (`handled w.log id = 0`; by `refund_only_to_proposer` only those calls
  ever return a deposit),
* `owed w` — Σ of the recorded deposits of the `unreturned` proposals (this includes the proposals stuck by D6:
  their deposit sits in the pool too, so the statement below is the stronger one).
-/

/-- What the multisig holds of the deposit denomination. -/
def holdings (dep : Deposit) (w : World) : Nat :=
  if dep.cw20 then Cw20.bal w.token w.self else balance w w.self dep.denom

/-- The proposals whose deposit was taken and never returned: ids `1..count` without `Execute`/`Close` in the log. -/
def unreturned (w : World) : List Nat := (List.range' 1 w.flex.core.count).filter (fun id => handled w.log id == 0)

/-- The deposit amount recorded in proposal `id` (0 when there is none). -/
def depositOf (c : Core) (id : Nat) : Nat :=
  match c.proposals.get? id with
  | some p => (p.deposit.map (·.amount)).getD 0
  | none => 0

/-- **Σ of the deposits still owed**: over the proposals whose deposit was taken and not returned. -/
def owed (w : World) : Nat := ((unreturned w).map (depositOf w.flex.core)).sum

/-- Number of ids `1..n` without `Execute`/`Close` in the log (recursive form of `(unreturned w).length`). -/
def pend (log : List Event) : Nat → Nat
  | 0 => 0
  | n + 1 => pend log n + (if handled log (n + 1) = 0 then 1 else 0)

theorem pend_congr {log log' : List Event} : ∀ n, (∀ id, 1 ≤ id → id ≤ n → handled log' id = handled log id) →
    pend log' n = pend log n
  | 0, _ => rfl
  | n + 1, h => by
    simp only [pend]
    rw [pend_congr n (fun id h1 h2 => h id h1 (by omega)), h (n + 1) (by omega) (Nat.le_refl _)]

/-- One id in range goes from "never handled" to "handled", all others keep their count: one proposal less pending. -/
theorem pend_mark {log log' : List Event} {id0 : Nat} (h0 : handled log id0 = 0) (h1 : handled log' id0 ≠ 0)
    (hrest : ∀ id, id ≠ id0 → handled log' id = handled log id) :
    ∀ n, 1 ≤ id0 → id0 ≤ n → pend log n = pend log' n + 1
  | 0, h, h' => by omega
  | n + 1, h, h' => by
    simp only [pend]
    by_cases e : id0 = n + 1
    · subst e
      rw [pend_congr n (fun id _ h2 => hrest id (by omega))]
      simp [h0, h1]
    · rw [pend_mark h0 h1 hrest n h (by omega), hrest (n + 1) (fun x => e x.symm)]
      omega

theorem sum_filter_range (log : List Event) (f : Nat → Nat) (a : Nat) :
    ∀ n, (∀ id, 1 ≤ id → id ≤ n → f id = a) →
      (((List.range' 1 n).filter (fun id => handled log id == 0)).map f).sum = a * pend log n
  | 0, _ => by simp [pend]
  | n + 1, h => by
    rw [List.range'_1_concat, List.filter_append, List.map_append, List.sum_append,
      sum_filter_range log f a n (fun id h1 h2 => h id h1 (by omega))]
    simp only [pend]
    by_cases e : handled log (1 + n) = 0
    · have e' : handled log (n + 1) = 0 := by rw [Nat.add_comm]; exact e
      have := h (1 + n) (by omega) (by omega)
      simp [e, e', this, Nat.mul_add]
    · have e' : ¬ handled log (n + 1) = 0 := by rw [Nat.add_comm]; exact e
      simp [e, e']

/-- Under `Inv` every stored proposal carries the configured deposit, so Σ owed = amount × number of pending ids. -/
theorem owed_eq {dep : Deposit} {w : World} (hi : Inv w.flex) (hd : w.flex.cfg.deposit = some dep) :
    owed w = dep.amount * pend w.log w.flex.core.count := by
  unfold owed unreturned
  refine sum_filter_range w.log _ dep.amount _ (fun id h1 h2 => ?_)
  have := (hi.wf.ids id).mpr ⟨h1, h2⟩
  cases hp : w.flex.core.proposals.get? id with
  | none => rw [hp] at this; cases this
  | some p => simp [depositOf, hp, hi.propDeposit id p hp, hd]

theorem unreturned_length (w : World) : (unreturned w).length = pend w.log w.flex.core.count := by
  have := sum_filter_range w.log (fun _ => 1) 1 w.flex.core.count (fun _ _ _ => rfl)
  have hone : ∀ l : List Nat, (l.map (fun _ => 1)).sum = l.length := by
    intro l; induction l with
    | nil => rfl
    | cons a r ih => simp [ih]; omega
  unfold unreturned
  rw [← hone, this, Nat.one_mul]

/-- `dep.amount ×` the number of proposals whose deposit was taken and not returned (`= owed w`, `owed_eq`). -/
def due (dep : Deposit) (w : World) : Nat := dep.amount * pend w.log w.flex.core.count

/-- A proposal message that spends the deposit denomination out of the multisig.  In the message language of the model
(`Cw3Core.Msg`: bank send, calls back into the multisig, group update, failing call) only a `BankMsg::Send` of the
native deposit denom does; no message of the language reaches the cw20 token, so with a cw20 deposit nothing spends. -/
def spends (dep : Deposit) : Msg → Bool
  | .bank _ _ denom => !dep.cw20 && denom == dep.denom
  | _ => false

/-- Some proposal that was executed in the committed history carries a message spending the deposit denomination. -/
def Dirty (dep : Deposit) (w : World) : Prop :=
  ∃ id p, Event.executed id ∈ w.log ∧ w.flex.core.proposals.get? id = some p ∧ ∃ m ∈ p.msgs, spends dep m = true

/-- **The guard of `pool_covers_owed_if_unspent`**, stated on the executed proposals only: no proposal with an
`executed` event in the committed history has a message that spends the deposit denomination. -/
def NoSpend (dep : Deposit) (w : World) : Prop :=
  ∀ id p, Event.executed id ∈ w.log → w.flex.core.proposals.get? id = some p → ∀ m ∈ p.msgs, spends dep m = false

theorem not_dirty_of_noSpend {dep : Deposit} {w : World} (h : NoSpend dep w) : ¬ Dirty dep w := by
  rintro ⟨id, p, h1, h2, m, hm, hs⟩
  rw [h id p h1 h2 m hm] at hs; cases hs

/-- What dispatching one returned message may take out of the pool. -/
def outDebit (dep : Deposit) : Out → Nat
  | .bank _ amt denom => if dep.cw20 = false ∧ denom = dep.denom then amt else 0
  | .cw20Transfer _ _ amt => if dep.cw20 = true then amt else 0
  | _ => 0

/-- What dispatching one returned message brings into the pool (`TransferFrom` to the multisig itself). -/
def outCredit (dep : Deposit) (self : Addr) : Out → Nat
  | .cw20TransferFrom _ _ to amt => if dep.cw20 = true ∧ to = self then amt else 0
  | _ => 0

def debits (dep : Deposit) (outs : List Out) : Nat := (outs.map (outDebit dep)).sum
def credits (dep : Deposit) (self : Addr) (outs : List Out) : Nat := (outs.map (outCredit dep self)).sum
def cleanOuts (dep : Deposit) (outs : List Out) : Prop := ∀ m, Out.msg m ∈ outs → spends dep m = false

@[simp] theorem debits_nil (dep : Deposit) : debits dep [] = 0 := rfl
@[simp] theorem credits_nil (dep : Deposit) (self : Addr) : credits dep self [] = 0 := rfl
@[simp] theorem debits_cons (dep : Deposit) (o : Out) (r : List Out) : debits dep (o :: r) = outDebit dep o + debits dep r := by
  simp [debits]
@[simp] theorem credits_cons (dep : Deposit) (self : Addr) (o : Out) (r : List Out) :
    credits dep self (o :: r) = outCredit dep self o + credits dep self r := by
  simp [credits]
theorem cleanOuts_nil (dep : Deposit) : cleanOuts dep [] := by intro m h; cases h
theorem cleanOuts_tail {dep : Deposit} {o : Out} {r : List Out} (h : cleanOuts dep (o :: r)) : cleanOuts dep r :=
  fun m hm => h m (List.mem_cons_of_mem _ hm)

theorem debits_msgs (dep : Deposit) (msgs : List Msg) : debits dep (msgs.map Out.msg) = 0 := by
  induction msgs with
  | nil => rfl
  | cons m r ih => simp [outDebit, ih]

theorem credits_hooks (dep : Deposit) (self : Addr) (hs : List Addr) : credits dep self (hs.map Out.groupHook) = 0 := by
  induction hs with
  | nil => rfl
  | cons m r ih => simp [outCredit, ih]

theorem debits_hooks (dep : Deposit) (hs : List Addr) : debits dep (hs.map Out.groupHook) = 0 := by
  induction hs with
  | nil => rfl
  | cons m r ih => simp [outDebit, ih]

theorem cleanOuts_hooks (dep : Deposit) (hs : List Addr) : cleanOuts dep (hs.map Out.groupHook) := by
  intro m hm; simp at hm

theorem outDebit_refund (dep : Deposit) (a : Addr) : outDebit dep (refundMsg dep a) = dep.amount := by
  unfold refundMsg
  cases h : dep.cw20 <;> simp [outDebit, h]

/-- The part of the world invariant that does not mention balances: the ghost invariant of clause 3, the configured
deposit, and — for a cw20 deposit — the multisig has granted no allowance on the token. -/
structure PoolGood (dep : Deposit) (w : World) : Prop where
  ghost : GhostInv w
  cfg : w.flex.cfg.deposit = some dep
  grant : dep.cw20 = true → NoGrant w.token w.self

/-- A fresh id was never handled. -/
theorem handled_fresh {w : World} (hq : GhostInv w) {id : Nat} (hid : w.flex.core.count < id) : handled w.log id = 0 := by
  obtain ⟨hle, hfin⟩ := hq.2 id
  rcases Nat.lt_or_ge (handled w.log id) 1 with h | h
  · omega
  · have := hfin (by omega)
    simp [isFinal, hq.1.wf.fresh hid] at this

theorem dirty_flex {dep : Deposit} {w : World} {g : Cw4Group.State} {self : Addr} {blk : Block} {snd : Addr}
    {funds : List Coin} {em : ExecMsg} {s' : State} {out : List Out} (hi : Inv w.flex)
    (he : execute w.flex g self blk snd funds em = .ok (s', out)) (hd : Dirty dep w) :
    Dirty dep { w with flex := s', log := w.log ++ [eventOf w.flex snd em] } := by
  obtain ⟨id, p, h1, h2, m, hm, hs⟩ := hd
  obtain ⟨p', hp', hf, _⟩ := (execute_later hi he).props id p h2
  have hmsgs : p'.msgs = p.msgs := by have := congrArg Proposal.msgs hf; exact this
  exact ⟨id, p', List.mem_append_left _ h1, hp', m, hmsgs ▸ hm, hs⟩

/-- **One handler call, in pool terms.**  Whatever the call, with `info.funds` already credited to the multisig: either
an executed proposal spends the deposit denomination, or the returned messages contain no spending proposal message and
the pool — counting the `TransferFrom` still to be dispatched as incoming and the refunds still to be dispatched as
outgoing — still covers what is owed after the call. -/
theorem pool_flex {dep : Deposit} {w : World} {blk : Block} {snd : Addr} {funds : List Coin} {em : ExecMsg}
    {s' : State} {out : List Out} (hg : PoolGood dep w)
    (he : execute w.flex w.group w.self blk snd funds em = .ok (s', out)) :
    PoolGood dep { w with flex := s', log := w.log ++ [eventOf w.flex snd em] } ∧
    ∀ C K, (Dirty dep w ∨ due dep w + K + (if dep.cw20 then 0 else fundsOf dep.denom funds) ≤ holdings dep w + C) →
      Dirty dep { w with flex := s', log := w.log ++ [eventOf w.flex snd em] } ∨
      (cleanOuts dep out ∧
        due dep { w with flex := s', log := w.log ++ [eventOf w.flex snd em] } + debits dep out + K ≤
          holdings dep w + credits dep w.self out + C) := by
  have hi := hg.ghost.1
  obtain ⟨hcfg, hc⟩ := execute_cases he
  refine ⟨⟨ghost_flex hg.ghost he, by rw [← hg.cfg]; exact congrArg Config.deposit hcfg, hg.grant⟩, ?_⟩
  intro C K hpre
  rcases hpre with hdirty | hpre
  · exact Or.inl (dirty_flex hi he hdirty)
  simp only [due] at hpre ⊢
  rcases hc with ⟨t, d, msgs, latest, w0, total, id0, hm, _, _, _, _, hp⟩ | ⟨id0, v, hm, hout, hv⟩ |
    ⟨id0, p, msgs, hm, hpp, hex, hout⟩ | ⟨id0, p, hm, hpp, hcl, hout⟩ | ⟨hm, _, hs, hout⟩
  · -- propose
    subst hm
    right
    obtain ⟨_, _, _, _, hid, _, hc'⟩ := propose_spec hp
    have hcount : s'.core.count = w.flex.core.count + 1 := by rw [hc', hid]
    have h0 := handled_fresh hg.ghost (id := w.flex.core.count + 1) (by omega)
    have hpend : pend (w.log ++ [eventOf w.flex snd (.propose t d msgs latest)]) (w.flex.core.count + 1) =
        pend w.log w.flex.core.count + 1 := by
      simp only [pend]
      rw [pend_congr (log := w.log) _ (fun id _ _ => by simp [handled_append, eventOf])]
      simp [handled_append, eventOf, h0]
    have hx := (propose_takes_exact_deposit hi he).1
    simp only [hg.cfg] at hx
    simp only [hcount, hpend, Nat.mul_add, Nat.mul_one]
    by_cases hcw : dep.cw20 = true
    · simp only [hcw, if_true] at hx hpre
      subst hx
      refine ⟨fun m hm => by simp at hm, ?_⟩
      simp [outDebit, outCredit, hcw]
      omega
    · have hcw' : dep.cw20 = false := by simpa using hcw
      simp only [hcw', Bool.false_eq_true, if_false] at hx hpre
      obtain ⟨hf, rfl⟩ := hx
      subst hf
      refine ⟨cleanOuts_nil dep, ?_⟩
      simp [fundsOf] at hpre ⊢
      omega
  · -- vote
    subst hm; subst hout
    right
    obtain ⟨_, _, _, _, _, _, _, _, _, _, _, _, hc'⟩ := vote_spec hv
    have hcount : s'.core.count = w.flex.core.count := by rw [hc']
    rw [hcount, pend_congr (log := w.log) _ (fun id _ _ => by simp [handled_append, eventOf])]
    exact ⟨cleanOuts_nil dep, by simp; omega⟩
  · -- execute
    subst hm
    obtain ⟨p0, hp0, hst, _, hmsgs, hc'⟩ := execute_spec hex
    rw [hpp] at hp0; cases hp0
    have hcount : s'.core.count = w.flex.core.count := by rw [hc']
    have hrange := (hi.wf.ids id0).mp (by rw [hpp]; rfl)
    have h0 : handled w.log id0 = 0 := by
      obtain ⟨hle, hfin⟩ := hg.ghost.2 id0
      rcases Nat.lt_or_ge (handled w.log id0) 1 with h | h
      · omega
      · have := hfin (by omega)
        have hnf := passed_not_final hst
        simp [isFinal, hpp] at this
        rcases this with h | h <;> simp_all
    have hpend := pend_mark (log := w.log) (log' := w.log ++ [eventOf w.flex snd (.execute id0)]) h0
      (by simp [handled_append, eventOf, h0])
      (fun id hne => by
        have : ¬ id0 = id := fun e => hne e.symm
        simp [handled_append, eventOf, this]) _ hrange.1 hrange.2
    have hdep : p.deposit = some dep := by rw [hi.propDeposit id0 p hpp, hg.cfg]
    by_cases hclean : ∀ m ∈ p.msgs, spends dep m = false
    · right
      subst hout hmsgs
      refine ⟨?_, ?_⟩
      · intro m hm
        simp [hdep] at hm
        rcases hm with hm | hm
        · unfold refundMsg at hm; split at hm <;> cases hm
        · exact hclean m hm
      · simp only [hdep, List.singleton_append, debits_cons, credits_cons, outDebit_refund, debits_msgs, hcount]
        have hcr : credits dep w.self (p.msgs.map Out.msg) = 0 := by
          induction p.msgs with
          | nil => rfl
          | cons m r ih => simp [outCredit, ih]
        have hcr0 : outCredit dep w.self (refundMsg dep p.proposer) = 0 := by
          unfold refundMsg; split <;> rfl
        rw [hcr, hcr0]
        rw [hpend] at hpre
        simp only [Nat.mul_add, Nat.mul_one] at hpre
        omega
    · left
      have : ∃ m ∈ p.msgs, spends dep m = true := by
        apply Classical.byContradiction
        intro hno
        apply hclean
        intro m hm
        cases hs : spends dep m with
        | false => rfl
        | true => exact absurd ⟨m, hm, hs⟩ hno
      obtain ⟨m, hm, hs⟩ := this
      refine ⟨id0, { p with status := .executed }, by simp [eventOf], ?_, m, hm, hs⟩
      rw [hc']; exact AMap.get?_set_eq _ _ _
  · -- close
    subst hm
    right
    obtain ⟨p0, st, hp0, hne, hnr, _, _, _, _, hc'⟩ := close_spec hcl
    rw [hpp] at hp0; cases hp0
    have hcount : s'.core.count = w.flex.core.count := by rw [hc']
    have hrange := (hi.wf.ids id0).mp (by rw [hpp]; rfl)
    have h0 : handled w.log id0 = 0 := by
      obtain ⟨hle, hfin⟩ := hg.ghost.2 id0
      rcases Nat.lt_or_ge (handled w.log id0) 1 with h | h
      · omega
      · have := hfin (by omega)
        simp [isFinal, hpp] at this
        rcases this with h | h <;> simp_all
    have hpend := pend_mark (log := w.log) (log' := w.log ++ [eventOf w.flex snd (.close id0)]) h0
      (by simp [handled_append, eventOf, h0])
      (fun id hne => by
        have : ¬ id0 = id := fun e => hne e.symm
        simp [handled_append, eventOf, this]) _ hrange.1 hrange.2
    have hdep : p.deposit = some dep := by rw [hi.propDeposit id0 p hpp, hg.cfg]
    subst hout
    rw [hpend] at hpre
    simp only [Nat.mul_add, Nat.mul_one] at hpre
    simp only [hdep, hcount]
    split
    · refine ⟨?_, ?_⟩
      · intro m hm
        simp at hm
        unfold refundMsg at hm; split at hm <;> cases hm
      · have hcr0 : outCredit dep w.self (refundMsg dep p.proposer) = 0 := by
          unfold refundMsg; split <;> rfl
        simp only [debits_cons, credits_cons, outDebit_refund, debits_nil, credits_nil, hcr0]
        omega
    · exact ⟨cleanOuts_nil dep, by simp; omega⟩
  · -- hook
    subst hm; subst hout; subst hs
    right
    rw [pend_congr (log := w.log) _ (fun id _ _ => by simp [handled_append, eventOf])]
    exact ⟨cleanOuts_nil dep, by simp; omega⟩

/-- The inequality carried through a dispatch: owed + outgoing still to be dispatched (+ `K`) ≤ holdings + incoming
still to be dispatched (+ `C`). -/
def Covered (dep : Deposit) (w : World) (outs : List Out) (C K : Nat) : Prop :=
  due dep w + debits dep outs + K ≤ holdings dep w + credits dep w.self outs + C

/-- What dispatching the first message `o` of `o :: rest` from `w` to `w1` has to establish. -/
def StepOk (dep : Deposit) (w : World) (o : Out) (rest : List Out) (w1 : World) : Prop :=
  PoolGood dep w1 ∧ w1.self = w.self ∧ (Dirty dep w → Dirty dep w1) ∧
    ∀ C K, cleanOuts dep (o :: rest) → Covered dep w (o :: rest) C K → Dirty dep w1 ∨ Covered dep w1 rest C K

/-- A leaf of the dispatch (bank send / token call): multisig state, log and address unchanged, and the pool moved by
no more than the message's debit resp. by at least its credit. -/
theorem step_leaf {dep : Deposit} {w w1 : World} {o : Out} {rest : List Out} (hg1 : PoolGood dep w1)
    (hf : w1.flex = w.flex) (hl : w1.log = w.log) (hs : w1.self = w.self)
    (hh : holdings dep w + outCredit dep w.self o ≤ holdings dep w1 + outDebit dep o) : StepOk dep w o rest w1 := by
  refine ⟨hg1, hs, ?_, ?_⟩
  · rintro ⟨id, p, h1, h2, h3⟩
    exact ⟨id, p, hl ▸ h1, hf ▸ h2, h3⟩
  · intro C K _ hle
    right
    simp only [Covered, debits_cons, credits_cons, due, hf, hl, hs] at hle ⊢
    omega

/-- **The dedicated dispatch induction** (the generic `dispatch_inv` quantifies over arbitrary bank and token changes
and cannot carry a statement about balances).  Over the dispatch of any list of returned messages, depth-first with all
nested handler calls: the balance-free invariant is kept, the multisig's address is kept, "an executed proposal spends
the deposit denomination" is kept, and — when the list contains no spending proposal message — the inequality
"owed + outgoing still to be dispatched ≤ holdings + incoming still to be dispatched" is carried from the start to the
end, unless an executed proposal spends the deposit denomination. -/
theorem pool_dispatch (ext : Ext) (dep : Deposit) (blk : Block) :
    ∀ fuel w outs w', PoolGood dep w → dispatch ext fuel w blk outs = .ok w' →
      PoolGood dep w' ∧ w'.self = w.self ∧ (Dirty dep w → Dirty dep w') ∧
      ∀ C K, cleanOuts dep outs → Covered dep w outs C K → Dirty dep w' ∨ Covered dep w' [] C K := by
  intro fuel
  induction fuel with
  | zero =>
    intro w outs w' hg h
    cases outs with
    | nil => simp [dispatch] at h; subst h; exact ⟨hg, rfl, id, fun _ _ _ h => Or.inr h⟩
    | cons o rest => simp [dispatch] at h
  | succ fuel ih =>
    intro w outs w' hg h
    cases outs with
    | nil => simp [dispatch] at h; subst h; exact ⟨hg, rfl, id, fun _ _ _ h => Or.inr h⟩
    | cons o rest =>
      simp only [dispatch, Res.bind_ok] at h
      obtain ⟨w1, h1, h2⟩ := h
      -- it suffices to treat the first message
      suffices hstep : StepOk dep w o rest w1 by
        obtain ⟨hg1, hs1, hd1, hsl1⟩ := hstep
        obtain ⟨hg', hs', hd', hsl'⟩ := ih w1 rest w' hg1 h2
        refine ⟨hg', hs'.trans hs1, fun h => hd' (hd1 h), fun C K hc hcov => ?_⟩
        rcases hsl1 C K hc hcov with h | h
        · exact Or.inl (hd' h)
        · exact hsl' C K (cleanOuts_tail hc) h
      -- a nested handler call followed by the dispatch of what it returned
      have nested : ∀ (snd : Addr) (em : ExecMsg) (s' : State) (out : List Out),
          outDebit dep o = 0 → outCredit dep w.self o = 0 →
          execute w.flex w.group w.self blk snd [] em = .ok (s', out) →
          dispatch ext fuel { w with flex := s', log := w.log ++ [eventOf w.flex snd em] } blk out = .ok w1 →
          StepOk dep w o rest w1 := by
        intro snd em s' out hd0 hc0 he hd
        obtain ⟨hg2, hfl⟩ := pool_flex hg he
        obtain ⟨hg1, hs1, hdd, hsl⟩ := ih _ out w1 hg2 hd
        refine ⟨hg1, hs1, fun h => hdd (dirty_flex hg.ghost.1 he h), fun C K hc hcov => ?_⟩
        have hpre : Dirty dep w ∨ due dep w + (K + debits dep rest) + (if dep.cw20 then 0 else fundsOf dep.denom []) ≤
            holdings dep w + (C + credits dep w.self rest) := by
          right
          simp only [Covered, debits_cons, credits_cons, hd0, hc0] at hcov
          simp; omega
        rcases hfl _ _ hpre with h | ⟨hc2, hle⟩
        · exact Or.inl (hdd h)
        · rcases hsl (C + credits dep w.self rest) (K + debits dep rest) hc2
            (by simpa [Covered, due, holdings, balance] using hle) with h | hle'
          · exact Or.inl h
          · right
            simp only [Covered, debits_nil, credits_nil, hs1] at hle' ⊢
            omega
      -- a group call followed by the dispatch of the hooks it returned
      have grouped : ∀ (g' : Cw4Group.State) (hooks : List Addr),
          outDebit dep o = 0 → outCredit dep w.self o = 0 →
          dispatch ext fuel { w with group := g', log := w.log ++ [.groupWrite blk.height] } blk
            (hooks.map Out.groupHook) = .ok w1 → StepOk dep w o rest w1 := by
        intro g' hooks hd0 hc0 hd
        have hg2 : PoolGood dep { w with group := g', log := w.log ++ [.groupWrite blk.height] } := by
          refine ⟨⟨hg.ghost.1, fun id => ?_⟩, hg.cfg, hg.grant⟩
          have := hg.ghost.2 id
          simpa [handled_append] using this
        obtain ⟨hg1, hs1, hdd, hsl⟩ := ih _ _ w1 hg2 hd
        refine ⟨hg1, hs1, fun h => hdd ?_, fun C K hc hcov => ?_⟩
        · obtain ⟨id, p, h1, h2, h3⟩ := h
          exact ⟨id, p, List.mem_append_left _ h1, h2, h3⟩
        · have hpend : pend (w.log ++ [Event.groupWrite blk.height]) w.flex.core.count = pend w.log w.flex.core.count :=
            pend_congr _ (fun id _ _ => by simp [handled_append])
          rcases hsl (C + credits dep w.self rest) (K + debits dep rest) (cleanOuts_hooks dep hooks) (by
            simp only [Covered, debits_cons, credits_cons, hd0, hc0] at hcov
            simp only [Covered, due, holdings, balance, credits_hooks, debits_hooks, hpend] at hcov ⊢
            omega) with h | hle'
          · exact Or.inl h
          · right
            simp only [Covered, debits_nil, credits_nil, hs1] at hle' ⊢
            omega
      cases o with
      | msg m =>
        simp only at h1
        cases hsc : selfCall m with
        | some em =>
          rw [hsc] at h1
          simp only [Res.bind_ok] at h1
          obtain ⟨⟨s', out⟩, he, hd⟩ := h1
          exact nested w.self em s' out rfl rfl he hd
        | none =>
          rw [hsc] at h1
          cases m with
          | bank to amt denom =>
            simp at h1
            obtain ⟨b, hb, rfl⟩ := h1
            refine ⟨⟨hg.ghost, hg.cfg, hg.grant⟩, rfl, id, fun C K hc hcov => ?_⟩
            have hsp := hc (.bank to amt denom) (List.mem_cons_self ..)
            right
            have hh : holdings dep { w with bank := b } = holdings dep w := by
              unfold holdings
              split
              · rfl
              · rename_i hcw
                have hne : ¬ denom = dep.denom := by
                  intro e; simp [spends, hcw, e] at hsp
                have := (bankSend_get hb w.self dep.denom).2.2
                rw [if_neg (fun e : dep.denom = denom => hne e.symm)] at this
                simpa [balance] using this
            simp only [Covered, debits_cons, credits_cons, outDebit, outCredit, due, hh] at hcov ⊢
            omega
          | other tag =>
            simp only at h1
            cases hx : ext tag with
            | none => simp [hx] at h1
            | some ar =>
              obtain ⟨add, remove⟩ := ar
              simp only [hx, Res.bind_ok] at h1
              obtain ⟨⟨g', outs⟩, _, hd⟩ := h1
              have : (outs.map fun o => Out.groupHook o.hook) = (outs.map (·.hook)).map Out.groupHook := by simp
              rw [this] at hd
              exact grouped g' _ rfl rfl hd
          | selfExecute id => simp [selfCall] at hsc
          | selfClose id => simp [selfCall] at hsc
          | selfVote id v => simp [selfCall] at hsc
          | selfPropose l => simp [selfCall] at hsc
          | noContract tag => simp at h1
      | bank to amt denom =>
        simp at h1
        obtain ⟨b, hb, rfl⟩ := h1
        refine step_leaf ⟨hg.ghost, hg.cfg, hg.grant⟩ rfl rfl rfl ?_
        have := bankSend_from hb dep.denom
        unfold holdings outDebit outCredit
        split
        · simp
        · rename_i hcw
          simp only [balance, hcw, true_and, Nat.add_zero]
          exact this
      | cw20Transfer token to amt =>
        simp [tokenCall] at h1
        obtain ⟨_, t', out', hex, _, rfl⟩ := h1
        obtain ⟨hal, _, hb⟩ := cw20_transfer_self hex
        refine step_leaf ⟨hg.ghost, hg.cfg, fun hc sp => by rw [hal]; exact hg.grant hc sp⟩ rfl rfl rfl ?_
        unfold holdings outDebit outCredit
        split
        · rename_i hcw; simp [hcw]; exact hb
        · rename_i hcw; simp [hcw, balance]
      | cw20TransferFrom token owner to amt =>
        simp [tokenCall] at h1
        obtain ⟨_, t', out', hex, _, rfl⟩ := h1
        by_cases hcw : dep.cw20 = true
        · obtain ⟨_, hn', hb⟩ := cw20_transferFrom_self hex (hg.grant hcw)
          refine step_leaf ⟨hg.ghost, hg.cfg, fun _ => hn'⟩ rfl rfl rfl ?_
          simp only [holdings, hcw, if_true, outDebit, outCredit, true_and, Nat.add_zero]
          rw [hb]; exact Nat.le_refl _
        · refine step_leaf ⟨hg.ghost, hg.cfg, fun h => absurd h hcw⟩ rfl rfl rfl ?_
          simp [holdings, hcw, outDebit, outCredit, balance]
      | groupHook hook =>
        simp only at h1
        split at h1
        · simp only [Res.bind_ok] at h1
          obtain ⟨⟨s', out⟩, he, hd⟩ := h1
          exact nested w.groupAddr .memberChangedHook s' out rfl rfl he hd
        · simp at h1

/-- Who signed the transaction. -/
def Action.sender : Action → Addr
  | .flex snd _ _ => snd
  | .group snd _ => snd
  | .token snd _ => snd

/-- **Environment guard**: no transaction of the history is signed by the multisig's own address.  (A contract address
has no key: the multisig acts only through the messages its handlers return, which the runtime dispatches — those are
covered, at any nesting depth.) -/
def External (self : Addr) (ops : List Op) : Prop := ∀ op ∈ ops, Action.sender op.act ≠ self

instance (self : Addr) (ops : List Op) : Decidable (External self ops) := by unfold External; infer_instance

/-- The world invariant of the pool accounting: the balance-free part, and — unless an executed proposal spends the
deposit denomination — holdings ≥ owed. -/
def PoolInv (dep : Deposit) (self : Addr) (w : World) : Prop :=
  w.self = self ∧ PoolGood dep w ∧ (Dirty dep w ∨ due dep w ≤ holdings dep w)

theorem pool_tx {ext : Ext} {fuel : Nat} {dep : Deposit} {self : Addr} {w w' : World} {blk : Block} {act : Action}
    (hq : PoolInv dep self w) (hext : Action.sender act ≠ self) (h : tx ext fuel w blk act = .ok w') :
    PoolInv dep self w' := by
  obtain ⟨hself, hg, hcov⟩ := hq
  cases act with
  | flex snd funds m =>
    simp only [tx, Res.bind_ok] at h
    obtain ⟨b, hb, ⟨s', out⟩, he, hd⟩ := h
    have hne : snd ≠ w.self := by rw [hself]; exact hext
    have hgb : PoolGood dep { w with bank := b } := ⟨hg.ghost, hg.cfg, hg.grant⟩
    have hhold : holdings dep { w with bank := b } =
        holdings dep w + (if dep.cw20 then 0 else fundsOf dep.denom funds) := by
      unfold holdings
      split
      · rfl
      · simpa [balance] using moveFunds_get_to hb hne dep.denom
    obtain ⟨hg2, hfl⟩ := pool_flex (w := { w with bank := b }) hgb he
    obtain ⟨hg', hs', hdd, hsl⟩ := pool_dispatch ext dep blk fuel _ out w' hg2 hd
    refine ⟨hs'.trans hself, hg', ?_⟩
    have hpre : Dirty dep { w with bank := b } ∨
        due dep { w with bank := b } + 0 + (if dep.cw20 then 0 else fundsOf dep.denom funds) ≤
          holdings dep { w with bank := b } + 0 := by
      rcases hcov with ⟨id, p, h1, h2, h3⟩ | hle
      · exact Or.inl ⟨id, p, h1, h2, h3⟩
      · right; rw [hhold]; simp only [due] at hle ⊢; omega
    rcases hfl 0 0 hpre with h | ⟨hc, hle⟩
    · exact Or.inl (hdd h)
    · rcases hsl 0 0 hc (by simpa [Covered, due, holdings, balance] using hle) with h | h
      · exact Or.inl h
      · right; simpa [Covered] using h
  | group snd m =>
    simp only [tx, Res.bind_ok] at h
    obtain ⟨⟨g', outs⟩, _, hd⟩ := h
    have hg2 : PoolGood dep { w with group := g', log := w.log ++ [.groupWrite blk.height] } := by
      refine ⟨⟨hg.ghost.1, fun id => ?_⟩, hg.cfg, hg.grant⟩
      have := hg.ghost.2 id
      simpa [handled_append] using this
    have hmap : (outs.map fun o => Out.groupHook o.hook) = (outs.map (·.hook)).map Out.groupHook := by simp
    rw [hmap] at hd
    obtain ⟨hg', hs', hdd, hsl⟩ := pool_dispatch ext dep blk fuel _ _ w' hg2 hd
    refine ⟨hs'.trans hself, hg', ?_⟩
    rcases hcov with ⟨id, p, h1, h2, h3⟩ | hle
    · exact Or.inl (hdd ⟨id, p, List.mem_append_left _ h1, h2, h3⟩)
    · have hpend : pend (w.log ++ [Event.groupWrite blk.height]) w.flex.core.count = pend w.log w.flex.core.count :=
        pend_congr _ (fun id _ _ => by simp [handled_append])
      rcases hsl 0 0 (cleanOuts_hooks dep _) (by
        simp only [Covered, due, holdings, balance, credits_hooks, debits_hooks, hpend] at hle ⊢
        omega) with h | h
      · exact Or.inl h
      · right; simpa [Covered] using h
  | token snd m =>
    simp [tx] at h
    obtain ⟨t, out, hex, _, rfl⟩ := h
    have hne : snd ≠ w.self := by rw [hself]; exact hext
    by_cases hcw : dep.cw20 = true
    · obtain ⟨hn', hb⟩ := cw20_external hex hne (hg.grant hcw)
      refine ⟨hself, ⟨hg.ghost, hg.cfg, fun _ => hn'⟩, ?_⟩
      rcases hcov with ⟨id, p, h1, h2, h3⟩ | hle
      · exact Or.inl ⟨id, p, h1, h2, h3⟩
      · right
        simp only [due, holdings, hcw, if_true] at hle ⊢
        omega
    · refine ⟨hself, ⟨hg.ghost, hg.cfg, fun h => absurd h hcw⟩, ?_⟩
      rcases hcov with ⟨id, p, h1, h2, h3⟩ | hle
      · exact Or.inl ⟨id, p, h1, h2, h3⟩
      · right
        simpa [due, holdings, hcw, balance] using hle

theorem pool_run {ext : Ext} {fuel : Nat} {dep : Deposit} {self : Addr} :
    ∀ (ops : List Op) (w : World), PoolInv dep self w → External self ops → PoolInv dep self (run ext fuel w ops)
  | [], w, hq, _ => hq
  | op :: rest, w, hq, hext => by
    rw [run_cons]
    refine pool_run rest _ ?_ (fun o ho => hext o (List.mem_cons_of_mem _ ho))
    unfold step
    split
    · rename_i w' htx; exact pool_tx hq (hext op (List.mem_cons_self ..)) htx
    · exact hq

/-- The pool invariant holds right after instantiation: nothing is owed yet. -/
theorem pool_init {m : InstMsg} {s : State} {g : Cw4Group.State} {t : Cw20.State} {bank : AMap (Addr × String) Nat}
    {self ga ta : Addr} {h0 : Nat} {dep : Deposit} (hi : instantiate m (some g) = .ok s) (hd : s.cfg.deposit = some dep)
    (hgr : dep.cw20 = true → NoGrant t self) : PoolInv dep self (World.init s g t bank self ga ta h0) := by
  refine ⟨rfl, ⟨⟨instantiate_inv hi, fun id => by simp [World.init, handled]⟩, hd, hgr⟩, Or.inr ?_⟩
  have : s.core = Core.empty := by
    simp only [instantiate, Res.bind_ok] at hi
    obtain ⟨_, _, _, _, _, _, _, _, hi⟩ := hi
    simp at hi; subst hi; rfl
  simp [due, World.init, this, Core.empty, pend]

/-- **C15, pool clause (b): the deposit pool covers what is owed, over every history that does not spend it.**
Start from any accepted instantiation with a configured deposit `dep`, on top of any group, any token state in which
the multisig has granted no allowance (needed for a cw20 deposit only), any bank.  Run ANY history of transactions on
the multisig, the group and the token — any senders other than the multisig's own address (`External`), any funds, any
blocks, any number of concurrent proposals, nested self-calls and group updates dispatched by executed proposals.  If in
the resulting world no *executed* proposal carries a message that spends the deposit denomination out of the multisig
(`NoSpend`: no `BankMsg::Send` of the native deposit denom; the model's message language has no message that reaches the
cw20 token, so for a cw20 deposit the guard is vacuous), then the multisig's holdings of the deposit denomination are at
least the Σ of the deposits taken and not yet returned (`owed`: all proposals never Executed/Closed — including those
stuck by D6). -/
theorem pool_covers_owed_if_unspent {ext : Ext} {fuel : Nat} {m : InstMsg} {s : State} {g : Cw4Group.State}
    {t : Cw20.State} {bank : AMap (Addr × String) Nat} {self ga ta : Addr} {h0 : Nat} {dep : Deposit} {ops : List Op}
    (hi : instantiate m (some g) = .ok s) (hd : s.cfg.deposit = some dep)
    (hgr : dep.cw20 = true → NoGrant t self) (hext : External self ops)
    (hns : NoSpend dep (run ext fuel (World.init s g t bank self ga ta h0) ops)) :
    owed (run ext fuel (World.init s g t bank self ga ta h0) ops) ≤
      holdings dep (run ext fuel (World.init s g t bank self ga ta h0) ops) := by
  obtain ⟨_, hg, hcov⟩ := pool_run (ext := ext) (fuel := fuel) ops _ (pool_init (bank := bank) (ga := ga) (ta := ta) (h0 := h0) hi hd hgr) hext
  rw [owed_eq hg.ghost.1 hg.cfg]
  rcases hcov with h | h
  · exact absurd h (not_dirty_of_noSpend hns)
  · exact h

/-- A decidable form of the guard `NoSpend` (for concrete worlds). -/
def noSpendB (dep : Deposit) (w : World) : Bool :=
  w.flex.core.proposals.all fun e => !(w.log.contains (.executed e.1)) || e.2.msgs.all fun m => !(spends dep m)

theorem noSpend_of_check {dep : Deposit} {w : World} (h : noSpendB dep w = true) : NoSpend dep w := by
  intro id p h1 h2 m hm
  have hmem := AMap.get?_some_mem h2
  have := (List.all_eq_true.mp h) (id, p) hmem
  simp only [Bool.or_eq_true, Bool.not_eq_true', List.contains_eq_mem, decide_eq_false_iff_not, List.all_eq_true] at this
  rcases this with h | h
  · exact absurd h1 h
  · exact h m hm

/-! ### (a) what a Propose / Close / Execute transaction moves, exactly -/

/-- **C15, pool clause (a), taking: a committed `Propose` moves exactly the configured deposit from the proposer into
the multisig, and nothing else of that denomination.**  Sender other than the multisig itself.
* native deposit: the whole bank ledger of the new world is the old one with `amount` of `denom` moved from the
  proposer to the multisig — every other `(account, denom)` entry is unchanged — and the token is untouched;
* cw20 deposit: the whole balance ledger of the token is the old one with `amount` moved from the proposer to the
  multisig (the dispatched `TransferFrom`) — every other account unchanged.
In both cases the multisig's holdings of the deposit denomination grow by exactly `amount`. -/
theorem deposits_taken_exact {ext : Ext} {fuel : Nat} {w w' : World} {blk : Block} {snd : Addr} {funds : List Coin}
    {t d : String} {msgs : List Msg} {latest : Option Expiration} {dep : Deposit}
    (hi : Inv w.flex) (hd : w.flex.cfg.deposit = some dep) (hne : snd ≠ w.self)
    (h : tx ext fuel w blk (.flex snd funds (.propose t d msgs latest)) = .ok w') :
    holdings dep w' = holdings dep w + dep.amount ∧ w'.self = w.self ∧
    (dep.cw20 = false →
      w'.token = w.token ∧ dep.amount ≤ balance w snd dep.denom ∧
      ∀ a dn, balance w' a dn =
        if dn = dep.denom then
          (if a = w.self then balance w a dn + dep.amount else if a = snd then balance w a dn - dep.amount else balance w a dn)
        else balance w a dn) ∧
    (dep.cw20 = true →
      dep.amount ≤ Cw20.bal w.token snd ∧
      ∀ a, Cw20.bal w'.token a =
        if a = w.self then Cw20.bal w.token a + dep.amount else if a = snd then Cw20.bal w.token a - dep.amount
        else Cw20.bal w.token a) := by
  have hne' : ¬ w.self = snd := fun e => hne e.symm
  by_cases hcw : dep.cw20 = true
  · -- cw20
    have h' := h
    simp only [tx, Res.bind_ok] at h'
    obtain ⟨b, hb, ⟨s', out⟩, he, hdisp⟩ := h'
    have hout := (propose_takes_exact_deposit hi he).1
    simp only [hd, hcw, if_true] at hout
    subst hout
    obtain ⟨_, t', hex, ht'⟩ := propose_cw20_tx hi hd hcw h
    obtain ⟨_, _, s1, b1, b2, hded, h1, h2, hs', _⟩ := Cw20.execTransferFrom_inv hex
    have hself : w'.self = w.self := by
      cases fuel with
      | zero => simp [dispatch] at hdisp
      | succ fuel =>
        simp only [dispatch, Res.bind_ok] at hdisp
        obtain ⟨w1, h1', h2'⟩ := hdisp
        obtain ⟨tt, rfl⟩ := tokenCall_frame h1'
        cases fuel <;> simp [dispatch] at h2' <;> subst h2' <;> rfl
    have hbal : ∀ a, Cw20.bal w'.token a =
        if a = w.self then Cw20.bal w.token a + dep.amount else if a = snd then Cw20.bal w.token a - dep.amount
        else Cw20.bal w.token a := by
      intro a
      have := (Cw20.move_get h1 h2 a).2
      rw [ht', hs']
      simp only [Cw20.bal] at this ⊢
      rw [this]
      by_cases e1 : a = w.self
      · subst e1; simp [hne']
      · by_cases e2 : a = snd
        · subst e2; simp [e1]
        · simp [e1, e2]
    refine ⟨?_, hself, fun hf => absurd hcw (by simp [hf]), fun _ => ⟨(Cw20.move_get h1 h2 snd).1, hbal⟩⟩
    simp only [holdings, hcw, if_true, hself]
    rw [hbal w.self]; simp
  · -- native
    have hcw' : dep.cw20 = false := by simpa using hcw
    have h' := h
    simp only [tx, Res.bind_ok] at h'
    obtain ⟨b, hb, ⟨s', out⟩, he, hdisp⟩ := h'
    have hout := (propose_takes_exact_deposit hi he).1
    simp only [hd, hcw', Bool.false_eq_true, if_false] at hout
    obtain ⟨hf, rfl⟩ := hout
    subst hf
    rw [moveFunds_single (hi.depositPos dep hd)] at hb
    have hw' : w' = { w with bank := b, flex := s', log := w.log ++ [eventOf w.flex snd (.propose t d msgs latest)] } := by
      cases fuel <;> simp [dispatch] at hdisp <;> exact hdisp.symm
    have hbal : ∀ a dn, balance w' a dn =
        if dn = dep.denom then
          (if a = w.self then balance w a dn + dep.amount else if a = snd then balance w a dn - dep.amount else balance w a dn)
        else balance w a dn := by
      intro a dn
      have := (bankSend_get hb a dn).2.2
      subst hw'
      simp only [balance] at this ⊢
      rw [this]
      by_cases e0 : dn = dep.denom
      · subst e0
        by_cases e1 : a = w.self
        · subst e1; simp [hne']
        · by_cases e2 : a = snd
          · subst e2; simp [e1]
          · simp [e1, e2]
      · simp [e0]
    refine ⟨?_, by subst hw'; rfl, fun _ => ⟨by subst hw'; rfl, (bankSend_get hb snd dep.denom).2.1, hbal⟩,
      fun hf => absurd hf hcw⟩
    have hs : w'.self = w.self := by subst hw'; rfl
    simp only [holdings, hcw', Bool.false_eq_true, if_false, hs]
    rw [hbal w.self dep.denom]; simp

/-- **C15, pool clause (a), returning by `Close`.**  A committed `Close` of a proposal whose deposit has
`refund_failed_proposals = true`, sent by somebody other than the multisig, refund addressed to somebody other than the
multisig: the pool shrinks by exactly the deposit (after the attached funds, if any, were added) — the transaction is
exactly `close_refund_tx`: one transfer to the proposer and nothing else; by `refund_at_most_once` it happens at most
once per proposal. -/
theorem deposits_returned_exact_close {ext : Ext} {fuel : Nat} {w w' : World} {blk : Block} {snd : Addr}
    {funds : List Coin} {id : Nat} {p : Proposal} {dep : Deposit}
    (hp : w.flex.core.proposals.get? id = some p) (hd : p.deposit = some dep) (hrf : dep.refundFailed = true)
    (hne : snd ≠ w.self) (hpr : p.proposer ≠ w.self)
    (h : tx ext fuel w blk (.flex snd funds (.close id)) = .ok w') :
    holdings dep w' + dep.amount = holdings dep w + (if dep.cw20 then 0 else fundsOf dep.denom funds) := by
  obtain ⟨b0, s', hb0, hrest⟩ := close_refund_tx hp hd hrf h
  have hpr' : ¬ w.self = p.proposer := fun e => hpr e.symm
  by_cases hcw : dep.cw20 = true
  · simp only [hcw, if_true] at hrest
    obtain ⟨_, t, hex, rfl⟩ := hrest
    obtain ⟨_, b1, b2, h1, h2, rfl, _⟩ := Cw20.execTransfer_inv hex
    obtain ⟨hle, hg⟩ := Cw20.move_get h1 h2 w.self
    simp only [holdings, hcw, if_true, Cw20.bal, hg]
    simp [hpr']
    omega
  · have hcw' : dep.cw20 = false := by simpa using hcw
    simp only [hcw', Bool.false_eq_true, if_false] at hrest
    obtain ⟨b1, hb1, rfl⟩ := hrest
    obtain ⟨_, hle, hg⟩ := bankSend_get hb1 w.self dep.denom
    have hf := moveFunds_get_to hb0 hne dep.denom
    have hg' : (b1.get? (w.self, dep.denom)).getD 0 = (b0.get? (w.self, dep.denom)).getD 0 - dep.amount := by
      rw [hg]; simp [hpr']
    simp only [holdings, hcw', Bool.false_eq_true, if_false, balance, hg']
    omega

/-- **C15, pool clause (a), returning by `Execute`.**  A committed `Execute` of a proposal with a deposit: right after
the refund step — before any of the proposal's own messages is dispatched — the pool has shrunk by exactly the deposit
(after the attached funds were added); the rest of the transaction is the dispatch of the proposal's messages from that
world. -/
theorem deposits_returned_exact_execute {ext : Ext} {fuel : Nat} {w w' : World} {blk : Block} {snd : Addr}
    {funds : List Coin} {id : Nat} {p : Proposal} {dep : Deposit}
    (hp : w.flex.core.proposals.get? id = some p) (hd : p.deposit = some dep)
    (hne : snd ≠ w.self) (hpr : p.proposer ≠ w.self)
    (h : tx ext fuel w blk (.flex snd funds (.execute id)) = .ok w') :
    ∃ wmid fuel', wmid.self = w.self ∧ wmid.log = w.log ++ [.executed id] ∧
      holdings dep wmid + dep.amount = holdings dep w + (if dep.cw20 then 0 else fundsOf dep.denom funds) ∧
      dispatch ext fuel' wmid blk (p.msgs.map Out.msg) = .ok w' := by
  have hpr' : ¬ w.self = p.proposer := fun e => hpr e.symm
  by_cases hcw : dep.cw20 = true
  · obtain ⟨_, b0, t, s', fuel', hb0, hex, _, hdisp⟩ := execute_cw20_tx hp hd hcw h
    refine ⟨{ w with bank := b0, token := t, flex := s', log := w.log ++ [.executed id] }, fuel', rfl, rfl, ?_, hdisp⟩
    obtain ⟨_, b1, b2, h1, h2, rfl, _⟩ := Cw20.execTransfer_inv hex
    obtain ⟨hle, hg⟩ := Cw20.move_get h1 h2 w.self
    have hg' : (b2.get? w.self).getD 0 = (w.token.balances.get? w.self).getD 0 - dep.amount := by
      rw [hg]; simp [hpr']
    simp only [holdings, hcw, if_true, Cw20.bal, hg']
    omega
  · have hcw' : dep.cw20 = false := by simpa using hcw
    obtain ⟨b0, b1, s', fuel', hb0, hb1, _, hdisp⟩ := execute_native_tx hp hd hcw' h
    refine ⟨{ w with bank := b1, flex := s', log := w.log ++ [.executed id] }, fuel', rfl, rfl, ?_, hdisp⟩
    obtain ⟨_, hle, hg⟩ := bankSend_get hb1 w.self dep.denom
    have hf := moveFunds_get_to hb0 hne dep.denom
    have hg' : (b1.get? (w.self, dep.denom)).getD 0 = (b0.get? (w.self, dep.denom)).getD 0 - dep.amount := by
      rw [hg]; simp [hpr']
    simp only [holdings, hcw', Bool.false_eq_true, if_false, balance, hg']
    omega

/-! ### (c) under the guard the refund cannot fail for lack of funds -/

theorem bankSend_isOk {bank : AMap (Addr × String) Nat} {frm to : Addr} {amt : Nat} {denom : String}
    (h0 : amt ≠ 0) (hle : amt ≤ (bank.get? (frm, denom)).getD 0)
    (hcap : (bank.get? (to, denom)).getD 0 + amt ≤ U128_MAX) :
    ∃ b, Cw3Fixed.bankSend bank frm to amt denom = .ok b := by
  have hcap' : (((bank.set (frm, denom) ((bank.get? (frm, denom)).getD 0 - amt)).get? (to, denom)).getD 0) + amt ≤ U128_MAX := by
    by_cases e : frm = to
    · subst e; simp; omega
    · have : (frm, denom) ≠ (to, denom) := by intro x; cases x; exact e rfl
      rw [AMap.get?_set_ne _ _ _ _ this]; exact hcap
  simp [Cw3Fixed.bankSend, h0, hle, hcap']

theorem cw20_transfer_isOk {t : Cw20.State} {blk : Block} {frm to : Addr} {amt : Nat}
    (hle : amt ≤ Cw20.bal t frm) (hcap : Cw20.bal t to + amt ≤ U128_MAX) :
    ∃ t', Cw20.execute t blk frm (.transfer ⟨true, to⟩ amt) = .ok (t', []) := by
  simp only [Cw20.bal] at hle hcap
  have hcap' : (((t.balances.set frm ((t.balances.get? frm).getD 0 - amt)).get? to).getD 0) + amt ≤ U128_MAX := by
    by_cases e : frm = to
    · subst e; simp; omega
    · rw [AMap.get?_set_ne _ _ _ _ e]; exact hcap
  simp [Cw20.execute, Cw20.execTransfer, Cw20.debit, Cw20.credit, hle, hcap']

theorem mem_unreturned {w : World} {id : Nat} :
    id ∈ unreturned w ↔ (1 ≤ id ∧ id ≤ w.flex.core.count) ∧ handled w.log id = 0 := by
  simp [unreturned, List.mem_range'_1]; omega

theorem pend_pos {log : List Event} {id : Nat} (h0 : handled log id = 0) : ∀ n, 1 ≤ id → id ≤ n → 1 ≤ pend log n
  | 0, h, h' => by omega
  | n + 1, h, h' => by
    simp only [pend]
    by_cases e : id = n + 1
    · subst e; simp [h0]
    · have := pend_pos h0 n h (by omega); omega

/-- **C15, pool clause (c): under the guard a refund never fails for lack of funds.**  Same setting as
`pool_covers_owed_if_unspent`.  In the resulting world, for every proposal whose deposit is still owed (never
Executed/Closed), the multisig holds at least one deposit of the deposit denomination; hence the transfer that the
refund message of `Execute`/`Close` dispatches passes its debit check and succeeds whenever the recipient can receive
(its balance plus the amount fits `Uint128` — the only other way the bank send / the token's `Transfer` can fail):
* native: `BankMsg::Send { to, amount denom }` from the multisig succeeds,
* cw20: the token's `Transfer { recipient: to, amount }` sent by the multisig succeeds. -/
theorem refund_never_fails_for_lack_of_funds_guarded {ext : Ext} {fuel : Nat} {m : InstMsg} {s : State}
    {g : Cw4Group.State} {t : Cw20.State} {bank : AMap (Addr × String) Nat} {self ga ta : Addr} {h0 : Nat}
    {dep : Deposit} {ops : List Op}
    (hi : instantiate m (some g) = .ok s) (hd : s.cfg.deposit = some dep)
    (hgr : dep.cw20 = true → NoGrant t self) (hext : External self ops)
    (hns : NoSpend dep (run ext fuel (World.init s g t bank self ga ta h0) ops))
    {id : Nat} (hid : id ∈ unreturned (run ext fuel (World.init s g t bank self ga ta h0) ops)) :
    let w := run ext fuel (World.init s g t bank self ga ta h0) ops
    dep.amount ≤ holdings dep w ∧
    (dep.cw20 = false → ∀ to, balance w to dep.denom + dep.amount ≤ U128_MAX →
      ∃ b, Cw3Fixed.bankSend w.bank w.self to dep.amount dep.denom = .ok b) ∧
    (dep.cw20 = true → ∀ to blk, Cw20.bal w.token to + dep.amount ≤ U128_MAX →
      ∃ t', Cw20.execute w.token blk w.self (.transfer ⟨true, to⟩ dep.amount) = .ok (t', [])) := by
  intro w
  have hcov := pool_covers_owed_if_unspent (ext := ext) (fuel := fuel) (bank := bank) (ga := ga) (ta := ta) (h0 := h0)
    hi hd hgr hext hns
  obtain ⟨_, hg, _⟩ := pool_run (ext := ext) (fuel := fuel) ops _
    (pool_init (bank := bank) (ga := ga) (ta := ta) (h0 := h0) hi hd hgr) hext
  rw [owed_eq hg.ghost.1 hg.cfg] at hcov
  obtain ⟨hr, hh⟩ := mem_unreturned.mp hid
  have hpos := pend_pos hh _ hr.1 hr.2
  have hle : dep.amount ≤ holdings dep w := by
    have h1 : dep.amount * 1 ≤ dep.amount * pend w.log w.flex.core.count := Nat.mul_le_mul_left _ hpos
    exact Nat.le_trans (by omega) (Nat.le_trans h1 hcov)
  have hpos0 := hg.ghost.1.depositPos dep hg.cfg
  refine ⟨hle, fun hcw to hcap => ?_, fun hcw to blk hcap => ?_⟩
  · simp only [holdings, hcw, Bool.false_eq_true, if_false, balance] at hle
    exact bankSend_isOk hpos0 hle hcap
  · simp only [holdings, hcw, if_true] at hle
    exact cw20_transfer_isOk hle hcap

/-- **Clause (c) at transaction level: under the guard a `Close` that the handler accepts commits.**  In a world that
satisfies the pool invariant and in which no executed proposal spends the deposit denomination, if the `Close` handler
returns `Ok` (no funds attached), the recipient of the refund can receive it, there is fuel for one message, and — cw20
deposit — the deposit token is the world's token contract, then the whole transaction succeeds: the refund dispatch
cannot fail.  (Compare `pool_guard_necessary`: without the guard the handler returns `Ok` and the transaction fails.) -/
theorem close_tx_commits_guarded {ext : Ext} {fuel : Nat} {dep : Deposit} {self : Addr} {w : World} {blk : Block}
    {snd : Addr} {id : Nat} {p : Proposal} {s' : State} {out : List Out}
    (hq : PoolInv dep self w) (hns : NoSpend dep w)
    (hp : w.flex.core.proposals.get? id = some p)
    (he : execute w.flex w.group w.self blk snd [] (.close id) = .ok (s', out))
    (hcapN : dep.cw20 = false → balance w p.proposer dep.denom + dep.amount ≤ U128_MAX)
    (hcapT : dep.cw20 = true → dep.denom = w.tokenAddr ∧ Cw20.bal w.token p.proposer + dep.amount ≤ U128_MAX) :
    (tx ext (fuel + 1) w blk (.flex snd [] (.close id))).isOk = true := by
  obtain ⟨_, hg, hcov⟩ := hq
  have hi := hg.ghost.1
  have hle0 : due dep w ≤ holdings dep w := by
    rcases hcov with h | h
    · exact absurd h (not_dirty_of_noSpend hns)
    · exact h
  obtain ⟨_, hc⟩ := execute_cases he
  rcases hc with ⟨_, _, _, _, _, _, _, hm, _⟩ | ⟨_, _, hm, _⟩ | ⟨_, _, _, hm, _⟩ | ⟨id0, p1, hm, hpp, hcl, hout⟩ | ⟨hm, _⟩ <;>
    cases hm
  rw [hp] at hpp; cases hpp
  obtain ⟨p0, st, hp0, _, hnr, _, _, _, _, _⟩ := close_spec hcl
  rw [hp] at hp0; cases hp0
  have hrange := (hi.wf.ids id).mp (by rw [hp]; rfl)
  have hh : handled w.log id = 0 := by
    obtain ⟨hle, hfin⟩ := hg.ghost.2 id
    rcases Nat.lt_or_ge (handled w.log id) 1 with h | h
    · omega
    · have := hfin (by omega)
      simp [isFinal, hp] at this
      rcases this with h | h <;> simp_all
  have hpos := pend_pos hh _ hrange.1 hrange.2
  have hle : dep.amount ≤ holdings dep w := by
    have : dep.amount * 1 ≤ dep.amount * pend w.log w.flex.core.count := Nat.mul_le_mul_left _ hpos
    simp only [due] at hle0
    omega
  have hdep : p.deposit = some dep := by rw [hi.propDeposit id p hp, hg.cfg]
  have hpos0 := hi.depositPos dep hg.cfg
  simp only [tx, moveFunds, List.isEmpty_nil, if_true, he]
  subst hout
  simp only [hdep]
  show (dispatch ext (fuel + 1) _ blk _).isOk = true
  split
  · -- the refund is dispatched
    by_cases hcw : dep.cw20 = true
    · obtain ⟨htok, hcap⟩ := hcapT hcw
      simp only [holdings, hcw, if_true] at hle
      obtain ⟨t', ht'⟩ := cw20_transfer_isOk (blk := blk) hle hcap
      simp [refundMsg, hcw, dispatch, tokenCall, htok, ht', bind, Except.bind, check, pure, Except.pure]
      cases fuel <;> simp [dispatch, Res.isOk]
    · have hcw' : dep.cw20 = false := by simpa using hcw
      simp only [holdings, hcw', Bool.false_eq_true, if_false, balance] at hle
      obtain ⟨b, hb⟩ := bankSend_isOk hpos0 hle (hcapN hcw')
      simp [refundMsg, hcw', dispatch, hb, bind, Except.bind, pure, Except.pure]
      cases fuel <;> simp [dispatch, Res.isOk]
  · simp [dispatch, Res.isOk]

/-! ### (d) the guard is necessary; non-vacuity -/

namespace CexPool

/-- The configured deposit of `Cex.inst`: 5ucosm, native, refunds of failed proposals enabled. -/
def dep : Deposit := ⟨5, "ucosm", false, true⟩

/-- `a` and `b` hold 20ucosm each, the multisig holds 3uatom and no ucosm. -/
def world0 : World :=
  World.init Cex.flex0 Cex.group0 Cex.token0 [(("a", "ucosm"), 20), (("b", "ucosm"), 20), (("ms", "uatom"), 3)] "ms" "grp" "tok" 5

/-- Two concurrent deposit-paying proposals; proposal 1 — which pays 5ucosm of the treasury to `x` — passes and is
executed (its own deposit is refunded first, then the other proposal's deposit leaves with the payment). -/
def opsSpend : List Op :=
  [⟨⟨10, 0⟩, .flex "a" [⟨5, "ucosm"⟩] (.propose "t" "d" [.bank "x" 5 "ucosm"] none)⟩,
   ⟨⟨10, 0⟩, .flex "b" [⟨5, "ucosm"⟩] (.propose "t" "d" [] none)⟩,
   ⟨⟨11, 0⟩, .flex "b" [] (.vote 1 .yes)⟩,
   ⟨⟨12, 0⟩, .flex "x" [] (.execute 1)⟩]

/-- The same history, but proposal 1 pays 3uatom (not the deposit denomination). -/
def opsClean : List Op :=
  [⟨⟨10, 0⟩, .flex "a" [⟨5, "ucosm"⟩] (.propose "t" "d" [.bank "x" 3 "uatom"] none)⟩,
   ⟨⟨10, 0⟩, .flex "b" [⟨5, "ucosm"⟩] (.propose "t" "d" [] none)⟩,
   ⟨⟨11, 0⟩, .flex "b" [] (.vote 1 .yes)⟩,
   ⟨⟨12, 0⟩, .flex "x" [] (.execute 1)⟩]

def wSpend : World := run Cex.noExt 10 world0 opsSpend
def wClean : World := run Cex.noExt 10 world0 opsClean

end CexPool

example : Cex.flex0.cfg.deposit = some CexPool.dep := by decide

/-- **C15, pool clause (d): the guard `NoSpend` is necessary — machine-checked.**  (The scenario of
`corpus/C15/close_when_treasury_short.ops`.)  Every transaction is sent by an outsider (`External`); proposal 1 spends
5ucosm of the treasury and is executed, so the guard fails; afterwards the multisig holds 0ucosm while the 5ucosm
deposit of proposal 2 is still owed.  Proposal 2 expires stored `Open`; at block 20 the `Close` *handler* returns `Ok`
with the refund message, but the *transaction* fails (the bank send is not covered) and the world is rolled back: the
proposal stays closable and its deposit stays unrecoverable as long as the treasury is short.  Only a `Close` that
brings the missing 5ucosm itself goes through. -/
theorem pool_guard_necessary :
    External "ms" CexPool.opsSpend ∧ noSpendB CexPool.dep CexPool.wSpend = false ∧
    unreturned CexPool.wSpend = [2] ∧ owed CexPool.wSpend = 5 ∧ holdings CexPool.dep CexPool.wSpend = 0 ∧
    ((execute CexPool.wSpend.flex CexPool.wSpend.group "ms" ⟨20, 0⟩ "x" [] (.close 2)).toOption.map (·.2))
      = some [Out.bank "b" 5 "ucosm"] ∧
    (tx Cex.noExt 10 CexPool.wSpend ⟨20, 0⟩ (.flex "x" [] (.close 2))).isOk = false ∧
    (step Cex.noExt 10 CexPool.wSpend ⟨⟨20, 0⟩, .flex "x" [] (.close 2)⟩).flex.core = CexPool.wSpend.flex.core ∧
    ((tx Cex.noExt 10 CexPool.wSpend ⟨20, 0⟩ (.flex "x" [⟨5, "ucosm"⟩] (.close 2))).toOption.map fun w' =>
      (balance w' "b" "ucosm", balance w' "ms" "ucosm")) = some (20, 0) := by
  decide

/-- The counterexample really is a case of `Dirty`: the executed proposal 1 carries a spending message. -/
example : Dirty CexPool.dep CexPool.wSpend :=
  ⟨1, ⟨"t", "d", 10, .atHeight 15, [.bank "x" 5 "ucosm"], .executed, .absoluteCount 3, 5, ⟨3, 0, 0, 0⟩, "a", some CexPool.dep⟩,
    by decide, by decide, _, List.mem_cons_self .., rfl⟩

/-- **Non-vacuity of `pool_covers_owed_if_unspent` and `refund_never_fails_for_lack_of_funds_guarded`** (native
deposit): the hypotheses hold on a history with two concurrent deposit-paying proposals one of which is executed and
pays out another denom; proposal 2's deposit is still owed, and the theorems give `5 = owed ≤ holdings = 5`, and that
the refund to `b` cannot fail. -/
example :
    owed CexPool.wClean ≤ holdings CexPool.dep CexPool.wClean ∧
    (unreturned CexPool.wClean, owed CexPool.wClean, holdings CexPool.dep CexPool.wClean, handled CexPool.wClean.log 1)
      = ([2], 5, 5, 1) ∧
    ∃ b, Cw3Fixed.bankSend CexPool.wClean.bank CexPool.wClean.self "b" 5 "ucosm" = .ok b :=
  ⟨pool_covers_owed_if_unspent (ext := Cex.noExt) (fuel := 10) (m := Cex.inst) (g := Cex.group0) (dep := CexPool.dep)
      (ops := CexPool.opsClean) (self := "ms") rfl (by decide) (by intro h; cases h) (by decide) (noSpend_of_check (by decide)),
   by decide,
   (refund_never_fails_for_lack_of_funds_guarded (ext := Cex.noExt) (fuel := 10) (m := Cex.inst) (g := Cex.group0)
      (dep := CexPool.dep) (ops := CexPool.opsClean) (self := "ms") (t := Cex.token0)
      (bank := [(("a", "ucosm"), 20), (("b", "ucosm"), 20), (("ms", "uatom"), 3)]) (ga := "grp") (ta := "tok") (h0 := 5)
      rfl (by decide) (by intro h; cases h) (by decide) (noSpend_of_check (by decide)) (id := 2) (by decide)).2.1 rfl "b" (by decide)⟩

/-- Non-vacuity of `close_tx_commits_guarded`, `deposits_taken_exact`, `deposits_returned_exact_close`: in the clean
world the `Close` of the expired proposal 2 commits and returns the 5ucosm to `b`. -/
example :
    ((tx Cex.noExt 10 CexPool.wClean ⟨20, 0⟩ (.flex "x" [] (.close 2))).toOption.map fun w' =>
      (balance w' "b" "ucosm", holdings CexPool.dep w', owed w')) = some (20, 0, 0) := by
  decide

/-- **Non-vacuity for a cw20 deposit** (`pool_covers_owed_if_unspent` with `dep.cw20 = true`): the token starts with no
allowance at all (so the multisig has granted none), `a` grants the multisig an allowance and proposes; the deposit
pulled by `TransferFrom` is owed and covered. -/
example :
    let w := run Cex.noExt 10 Cex20.world0 (Cex20.ops.take 2)
    owed w ≤ holdings ⟨5, "tok", true, true⟩ w ∧ (owed w, holdings ⟨5, "tok", true, true⟩ w) = (5, 5) :=
  ⟨pool_covers_owed_if_unspent (ext := Cex.noExt) (fuel := 10) (m := Cex20.inst) (g := Cex.group0)
      (dep := ⟨5, "tok", true, true⟩) (ops := Cex20.ops.take 2) (self := "ms") (t := Cex20.token0) rfl (by decide)
      (fun _ sp => rfl) (by decide) (noSpend_of_check (by decide)),
   by decide⟩

/-! ### the two environment guards are used: what happens without them -/

namespace CexGuards

/-- a group in which the multisig's own address `ms` is a member -/
def groupSelf : Cw4Group.State :=
  match Cw4Group.instantiate ⟨some ⟨true, "adm"⟩, [(⟨true, "ms"⟩, 1), (⟨true, "b"⟩, 2), (⟨true, "c"⟩, 2)]⟩ 5 with
  | .ok g => g
  | .error _ => Cw4Group.State.empty

def flexSelf : State := match instantiate Cex.inst (some groupSelf) with | .ok s => s | .error _ => default

/-- the multisig holds 5ucosm of its own -/
def worldSelf : World := World.init flexSelf groupSelf Cex.token0 [(("ms", "ucosm"), 5)] "ms" "grp" "tok" 5

/-- two Propose transactions *signed by the multisig's own address*, each "paying" the deposit from `ms` to `ms` -/
def opsSelf : List Op :=
  [⟨⟨10, 0⟩, .flex "ms" [⟨5, "ucosm"⟩] (.propose "t" "d" [] none)⟩,
   ⟨⟨10, 0⟩, .flex "ms" [⟨5, "ucosm"⟩] (.propose "t" "d" [] none)⟩]

/-- a cw20 token in which `a` holds 20 and the multisig has granted `x` an allowance of 5 -/
def tokenGrant : Cw20.State :=
  { supply := 20, mint := none, balances := [("a", 20)], allow := [(("ms", "x"), ⟨5, .never⟩)],
    allowSp := [(("x", "ms"), ⟨5, .never⟩)], version := ⟨"crates.io:cw20-base", 2, 0, 0, none⟩ }

def worldGrant : World := World.init Cex20.flex0 Cex.group0 tokenGrant [] "ms" "grp" "tok" 5

/-- `a` pays the cw20 deposit; then `x` uses the allowance the multisig had granted and pulls the 5 tokens out -/
def opsGrant : List Op :=
  [⟨⟨10, 0⟩, .token "a" (.increaseAllowance ⟨true, "ms"⟩ 5 none)⟩,
   ⟨⟨10, 0⟩, .flex "a" [] (.propose "t" "d" [] none)⟩,
   ⟨⟨11, 0⟩, .token "x" (.transferFrom ⟨true, "ms"⟩ ⟨true, "x"⟩ 5)⟩]

end CexGuards

/-- **The guard `External` is used** (machine-checked): if transactions could be signed by the multisig's own address,
two Proposes "paying" the deposit from the multisig to itself leave 10ucosm owed against holdings of 5 — with no
proposal executed at all (`NoSpend` holds). -/
example : External "ms" CexGuards.opsSelf = False ∧
    noSpendB CexPool.dep (run Cex.noExt 10 CexGuards.worldSelf CexGuards.opsSelf) = true ∧
    owed (run Cex.noExt 10 CexGuards.worldSelf CexGuards.opsSelf) = 10 ∧
    holdings CexPool.dep (run Cex.noExt 10 CexGuards.worldSelf CexGuards.opsSelf) = 5 := by
  refine ⟨by simp [External, CexGuards.opsSelf, Action.sender], by decide, by decide, by decide⟩

/-- **The guard "the multisig has granted no allowance" is used** (cw20 deposit, machine-checked): with an allowance
granted by the multisig in the initial token state, an outsider pulls the deposit out by `TransferFrom`; every sender is
external and nothing was executed, yet 5 tokens are owed against holdings of 0. -/
example : External "ms" CexGuards.opsGrant ∧ ¬ NoGrant CexGuards.tokenGrant "ms" ∧
    noSpendB ⟨5, "tok", true, true⟩ (run Cex.noExt 10 CexGuards.worldGrant CexGuards.opsGrant) = true ∧
    owed (run Cex.noExt 10 CexGuards.worldGrant CexGuards.opsGrant) = 5 ∧
    holdings ⟨5, "tok", true, true⟩ (run Cex.noExt 10 CexGuards.worldGrant CexGuards.opsGrant) = 0 := by
  refine ⟨by decide, fun h => ?_, by decide, by decide, by decide⟩
  have := h "x"
  simp [CexGuards.tokenGrant, AMap.get?] at this

end CwPlus.Props.C15
