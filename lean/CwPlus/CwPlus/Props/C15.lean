import CwPlus.Lemmas.Cw3Flex
/-!
# C15 — cw3-flex-multisig proposal deposits

Statement (properties.jsonl): a proposal is created only when exactly the configured deposit is paid; the deposit
is refunded only to the proposer, at most once, only when the proposal is executed or — if
`refund_failed_proposals` is set — when it is closed; executed proposals are always refunded; with refunds
enabled the deposit of every failed proposal is recoverable.

The last clause is FALSE of the code (defect D6, open known finding `C15/flex/deposit-stuck-stored-rejected`):
a proposal whose *stored* status is `Rejected` (voted down before expiry, or created already expired) can
never be closed.  It is proved here for proposals that expire while stored `Open`
(`failed_deposit_recoverable_partial`), and the counterexample is machine-checked (`C15_counterexample`).

Model: `Model/Cw3Flex.lean`; a handler returns `List Out`: `Out.bank` / `Out.cw20Transfer` are the refund
messages, `Out.cw20TransferFrom` takes a cw20 deposit, `Out.msg m` is a message of the proposal itself.
-/
namespace CwPlus.Props.C15
open CwPlus CwPlus.Cw3 CwPlus.Cw3Core CwPlus.Cw3Flex

/-- A message that pays out of the multisig on behalf of the deposit logic (as opposed to a message of a proposal). -/
def isPayout : Out → Bool
  | .bank .. => true
  | .cw20Transfer .. => true
  | _ => false

theorem refundMsg_isPayout (d : Deposit) (a : Addr) : isPayout (refundMsg d a) = true := by
  unfold refundMsg; split <;> rfl

theorem takeDeposit_no_payout (d : Deposit) (a self : Addr) : ∀ o ∈ takeDeposit d a self, isPayout o = false := by
  intro o ho; unfold takeDeposit at ho; split at ho <;> simp at ho; subst ho; rfl

/-! ## (1) a proposal is created only with exactly the configured deposit -/

/-- **Clause 1, handler level.**  A successful `Propose`:
* native deposit configured ⇒ the funds sent are exactly one coin `amount denom` of the configured deposit
  (not less, not more, no other coin), nothing is dispatched;
* cw20 deposit configured ⇒ the response is exactly `TransferFrom { owner: proposer, recipient: multisig, amount }`
  on the deposit token (the runtime fails the whole transaction if that transfer fails, see `propose_cw20_tx`);
* no deposit configured ⇒ nothing is dispatched.
The new proposal records the configured deposit and the sender as proposer. -/
theorem propose_takes_exact_deposit {s s' : State} {g : Cw4Group.State} {self : Addr} {blk : Block} {snd : Addr}
    {funds : List Coin} {t d : String} {msgs : List Msg} {latest : Option Expiration} {out : List Out}
    (hi : Inv s) (h : execute s g self blk snd funds (.propose t d msgs latest) = .ok (s', out)) :
    (match s.cfg.deposit with
      | none => out = []
      | some dep =>
        if dep.cw20 then out = [.cw20TransferFrom dep.denom snd self dep.amount]
        else funds = [⟨dep.amount, dep.denom⟩] ∧ out = []) ∧
    ∃ p, s'.core.proposals.get? (s.core.count + 1) = some p ∧ p.deposit = s.cfg.deposit ∧ p.proposer = snd := by
  obtain ⟨_, hc⟩ := execute_cases h
  rcases hc with ⟨t', d', msgs', latest', w, total, id, hm, _, _, hpaid, hout, hp⟩ | ⟨_, _, hm, _⟩ | ⟨_, _, _, hm, _⟩ |
    ⟨_, _, hm, _⟩ | ⟨hm, _⟩ <;> cases hm
  obtain ⟨expires, st, _, _, hid, _, hc'⟩ := propose_spec hp
  constructor
  · cases hd : s.cfg.deposit with
    | none => simp [hd] at hout ⊢; exact hout
    | some dep =>
      have hpos := hi.depositPos dep hd
      have hp' := hpaid dep hd
      simp only [hd] at hout ⊢
      by_cases hcw : dep.cw20 = true
      · simp [hcw, takeDeposit, hpos] at hout ⊢; exact hout
      · simp only [hcw, if_false, Bool.false_eq_true]
        simp [takeDeposit, hcw] at hout
        refine ⟨?_, hout⟩
        unfold checkNativeDepositPaid at hp'
        simp only [hcw, if_false, Bool.false_eq_true] at hp'
        split at hp'
        · cases hp'
        · rename_i c
          simp at hp'
          obtain ⟨_, h2, h3⟩ := hp'
          cases c; simp_all
        · cases hp'
  · rw [hc', ← hid]
    exact ⟨_, AMap.get?_set_eq _ _ _, rfl, rfl⟩

theorem moveFunds_single {bank : AMap (Addr × String) Nat} {frm to : Addr} {amt : Nat} {denom : String} (h : amt ≠ 0) :
    moveFunds bank frm to [⟨amt, denom⟩] = Cw3Fixed.bankSend bank frm to amt denom := by
  have : ([⟨amt, denom⟩] : List Coin).all (fun c => decide (c.amount = 0)) = false := by simp [h]
  simp only [moveFunds, List.isEmpty_cons, Bool.false_eq_true, if_false, this, moveCoins, h]
  cases Cw3Fixed.bankSend bank frm to amt denom <;> rfl

/-- **Clause 1, transaction level, native deposit**: the committed `Propose` transaction moved exactly the
deposit coin from the proposer to the multisig (cw-multi-test moves `info.funds` before the handler runs). -/
theorem propose_native_tx {ext : Ext} {fuel : Nat} {w w' : World} {blk : Block} {snd : Addr} {funds : List Coin}
    {t d : String} {msgs : List Msg} {latest : Option Expiration} {dep : Deposit}
    (hi : Inv w.flex) (hd : w.flex.cfg.deposit = some dep) (hn : dep.cw20 = false)
    (h : tx ext fuel w blk (.flex snd funds (.propose t d msgs latest)) = .ok w') :
    ∃ b, Cw3Fixed.bankSend w.bank snd w.self dep.amount dep.denom = .ok b ∧ w'.bank = b := by
  simp only [tx, Res.bind_ok] at h
  obtain ⟨b, hb, ⟨s', out⟩, he, hdisp⟩ := h
  have := (propose_takes_exact_deposit hi he).1
  simp only [hd, hn, Bool.false_eq_true, if_false] at this
  obtain ⟨hf, rfl⟩ := this
  subst hf
  rw [moveFunds_single (hi.depositPos dep hd)] at hb
  cases fuel <;> simp [dispatch] at hdisp <;> subst hdisp <;> exact ⟨b, hb, rfl⟩

/-- **Clause 1, transaction level, cw20 deposit**: the `Propose` transaction commits only if the deposit token is
the token contract of the world and its `TransferFrom { owner: proposer, recipient: multisig, amount }` — executed
with the multisig as spender — succeeded; the token state of the new world is the one after that transfer. -/
theorem propose_cw20_tx {ext : Ext} {fuel : Nat} {w w' : World} {blk : Block} {snd : Addr} {funds : List Coin}
    {t d : String} {msgs : List Msg} {latest : Option Expiration} {dep : Deposit}
    (hi : Inv w.flex) (hd : w.flex.cfg.deposit = some dep) (hc : dep.cw20 = true)
    (h : tx ext fuel w blk (.flex snd funds (.propose t d msgs latest)) = .ok w') :
    dep.denom = w.tokenAddr ∧
    ∃ t', Cw20.execute w.token blk w.self (.transferFrom ⟨true, snd⟩ ⟨true, w.self⟩ dep.amount) = .ok (t', []) ∧
      w'.token = t' := by
  simp only [tx, Res.bind_ok] at h
  obtain ⟨b, hb, ⟨s', out⟩, he, hdisp⟩ := h
  have := (propose_takes_exact_deposit hi he).1
  simp only [hd, hc, if_true] at this
  subst this
  cases fuel with
  | zero => simp [dispatch] at hdisp
  | succ fuel =>
    simp only [dispatch, Res.bind_ok] at hdisp
    obtain ⟨w1, h1, h2⟩ := hdisp
    have hw1 : w1 = w' := by cases fuel <;> simp [dispatch] at h2 <;> exact h2
    subst hw1
    simp [tokenCall] at h1
    obtain ⟨htok, t', out', hex, hemp, rfl⟩ := h1
    subst hemp
    exact ⟨htok, t', hex, rfl⟩

/-! ## (2) refunds go to the proposer only, only on Execute / Close -/

/-- **Clause 2 (to whom, when).**  Whatever a handler call returns, every payout message in it is the refund
of the deposit recorded in a proposal, addressed to that proposal's proposer, and the call is `Execute` or
`Close` of that very proposal. -/
theorem refund_only_to_proposer {s s' : State} {g : Cw4Group.State} {self : Addr} {blk : Block} {snd : Addr}
    {funds : List Coin} {m : ExecMsg} {out : List Out} (h : execute s g self blk snd funds m = .ok (s', out))
    (o : Out) (ho : o ∈ out) (hp : isPayout o = true) :
    ∃ id p d, (m = .execute id ∨ m = .close id) ∧ s.core.proposals.get? id = some p ∧ p.deposit = some d ∧
      o = refundMsg d p.proposer := by
  obtain ⟨_, hc⟩ := execute_cases h
  rcases hc with ⟨t, d, msgs, latest, w, total, id, _, _, _, _, hout, _⟩ | ⟨id, v, _, hout, _⟩ |
    ⟨id, p, msgs, hm, hpp, _, hout⟩ | ⟨id, p, hm, hpp, _, hout⟩ | ⟨_, _, _, hout⟩
  · subst hout
    cases hd : s.cfg.deposit with
    | none => simp [hd] at ho
    | some dep => simp only [hd] at ho; have := takeDeposit_no_payout dep snd self o ho; simp [this] at hp
  · subst hout; simp at ho
  · subst hout
    rcases List.mem_append.mp ho with ho | ho
    · cases hd : p.deposit with
      | none => simp [hd] at ho
      | some dep => simp [hd] at ho; exact ⟨id, p, dep, Or.inl hm, hpp, hd, ho⟩
    · simp at ho; obtain ⟨x, _, rfl⟩ := ho; simp [isPayout] at hp
  · subst hout
    cases hd : p.deposit with
    | none => simp [hd] at ho
    | some dep =>
      simp only [hd] at ho
      split at ho
      · simp at ho; exact ⟨id, p, dep, Or.inr hm, hpp, hd, ho⟩
      · simp at ho
  · subst hout; simp at ho

/-! ## (3) at most once -/

/-- Number of successful `Execute` and `Close` handler calls for proposal `id` in the committed history
(top-level or nested in a dispatch) — by `refund_only_to_proposer` the only calls that can emit its refund. -/
def handled (log : List Event) (id : Nat) : Nat := log.count (.executed id) + log.count (.closed id)

/-- The stored status can no longer move (`Executed` or `Rejected`). -/
def isFinal (c : Core) (id : Nat) : Bool :=
  match c.proposals.get? id with
  | some p => p.status == .executed || p.status == .rejected
  | none => false

def GhostInv (w : World) : Prop :=
  Inv w.flex ∧ ∀ id, handled w.log id ≤ 1 ∧ (handled w.log id = 1 → isFinal w.flex.core id = true)

theorem handled_append (log : List Event) (e : Event) (id : Nat) :
    handled (log ++ [e]) id = handled log id + (if e = .executed id ∨ e = .closed id then 1 else 0) := by
  unfold handled
  simp only [List.count_append, List.count_singleton]
  by_cases h1 : e = .executed id
  · subst h1; simp; omega
  · by_cases h2 : e = .closed id
    · subst h2; simp; omega
    · have e1 : (e == Event.executed id) = false := by simpa using h1
      have e2 : (e == Event.closed id) = false := by simpa using h2
      simp [h1, h2, e1, e2]

theorem isFinal_later {c c' : Core} (hl : Later c c') {id : Nat} (h : isFinal c id = true) : isFinal c' id = true := by
  unfold isFinal at h ⊢
  cases hp : c.proposals.get? id with
  | none => simp [hp] at h
  | some p =>
    simp only [hp] at h
    obtain ⟨p', hp', _, he⟩ := hl.props id p hp
    simp only [hp']
    cases hs : p.status <;> cases hs' : p'.status <;> simp_all [edge]

/-- A proposal whose current status is `Passed` is stored `Open` or `Passed`. -/
theorem passed_not_final {p : Proposal} {blk : Block} (h : p.currentStatus blk = .ok .passed) :
    p.status ≠ .executed ∧ p.status ≠ .rejected := by
  have := (cs_edge h).1
  simp only [Proposal.tally] at this
  cases hs : p.status <;> simp_all [edge]

theorem ghost_flex {w : World} {g : Cw4Group.State} {self : Addr} {blk : Block} {snd : Addr} {funds : List Coin}
    {em : ExecMsg} {s' : State} {out : List Out}
    (hq : GhostInv w) (he : execute w.flex g self blk snd funds em = .ok (s', out)) :
    GhostInv { w with flex := s', log := w.log ++ [eventOf w.flex snd em] } := by
  obtain ⟨hi, hg⟩ := hq
  refine ⟨execute_inv hi he, ?_⟩
  have hl := execute_later hi he
  intro id
  obtain ⟨hle, hfin⟩ := hg id
  simp only [handled_append]
  obtain ⟨_, hc⟩ := execute_cases he
  rcases hc with ⟨t, d, msgs, latest, w0, total, id0, hm, _⟩ | ⟨id0, v, hm, _⟩ | ⟨id0, p, msgs, hm, hpp, hex, _⟩ |
    ⟨id0, p, hm, hpp, hcl, _⟩ | ⟨hm, _, _, _⟩
  · subst hm; simp [eventOf]; exact ⟨hle, fun h => isFinal_later hl (hfin h)⟩
  · subst hm; simp [eventOf]; exact ⟨hle, fun h => isFinal_later hl (hfin h)⟩
  · subst hm
    simp only [eventOf]
    by_cases e : id0 = id
    · subst e
      obtain ⟨p0, hp0, hst, _, _, hc'⟩ := execute_spec hex
      have hnf := passed_not_final hst
      have h0 : handled w.log id0 = 0 := by
        rcases Nat.lt_or_ge (handled w.log id0) 1 with h | h
        · omega
        · have h1 : handled w.log id0 = 1 := by omega
          have := hfin h1
          simp [isFinal, hp0] at this
          rcases this with h | h <;> simp_all
      simp [h0]
      simp [isFinal, hc']
    · have : ¬ (Event.executed id0 = Event.executed id ∨ Event.executed id0 = Event.closed id) := by simp [e]
      simp only [this, if_false, Nat.add_zero]
      exact ⟨hle, fun h => isFinal_later hl (hfin h)⟩
  · subst hm
    simp only [eventOf]
    by_cases e : id0 = id
    · subst e
      obtain ⟨p0, st, hp0, h1, h2, _, _, _, _, hc'⟩ := close_spec hcl
      have h0 : handled w.log id0 = 0 := by
        rcases Nat.lt_or_ge (handled w.log id0) 1 with h | h
        · omega
        · have h1' : handled w.log id0 = 1 := by omega
          have := hfin h1'
          simp [isFinal, hp0] at this
          rcases this with h | h <;> simp_all
      simp [h0]
      simp [isFinal, hc']
    · have : ¬ (Event.closed id0 = Event.executed id ∨ Event.closed id0 = Event.closed id) := by simp [e]
      simp only [this, if_false, Nat.add_zero]
      exact ⟨hle, fun h => isFinal_later hl (hfin h)⟩
  · subst hm; simp [eventOf]; exact ⟨hle, fun h => isFinal_later hl (hfin h)⟩

theorem ghost_step (ext : Ext) (fuel : Nat) (w : World) (op : Op) (hq : GhostInv w) : GhostInv (step ext fuel w op) := by
  refine step_inv ext GhostInv ?_ ?_ ?_ ?_ fuel w op hq
  · intro blk w snd funds em s' out hq he; exact ghost_flex hq he
  · intro blk w snd m g' outs hq _
    refine ⟨hq.1, fun id => ?_⟩
    have := hq.2 id
    simpa [handled_append] using this
  · intro w b hq; exact hq
  · intro w t hq; exact hq

theorem reachable_ghost {ext : Ext} {fuel : Nat} {w : World} (hr : Reachable ext fuel w) : GhostInv w := by
  obtain ⟨m, s, g, t, bank, self, ga, ta, h0, ops, hi, rfl⟩ := hr
  refine run_inv ext GhostInv fuel (ghost_step ext fuel) ops _ ⟨instantiate_inv hi, fun id => ?_⟩
  simp [World.init, handled]

/-- **Clause 3 (at most once).**  In every reachable world, for every proposal, the committed history contains at
most one successful `Execute`-or-`Close` handler call of it (top-level or nested, in any order, Execute and Close
counted together) — hence at most one refund of its deposit: never two Executes, never two Closes, never both. -/
theorem refund_at_most_once {ext : Ext} {fuel : Nat} {w : World} (hr : Reachable ext fuel w) (id : Nat) :
    handled w.log id ≤ 1 :=
  ((reachable_ghost hr).2 id).1

/-- After the one refunding call the proposal is final: every further `Execute` or `Close` of it is refused. -/
theorem handled_then_refused {ext : Ext} {fuel : Nat} {w : World} (hr : Reachable ext fuel w) {id : Nat}
    (h1 : handled w.log id = 1) (g : Cw4Group.State) (self : Addr) (blk : Block) (snd : Addr) (funds : List Coin) :
    (execute w.flex g self blk snd funds (.execute id)).isOk = false ∧
    (execute w.flex g self blk snd funds (.close id)).isOk = false := by
  have hf := ((reachable_ghost hr).2 id).2 h1
  constructor
  · cases he : execute w.flex g self blk snd funds (.execute id) with
    | error e => rfl
    | ok r =>
      obtain ⟨s', out⟩ := r
      obtain ⟨_, hc⟩ := execute_cases he
      rcases hc with ⟨_, _, _, _, _, _, _, hm, _⟩ | ⟨_, _, hm, _⟩ | ⟨id0, p, msgs, hm, hpp, hex, _⟩ | ⟨_, _, hm, _⟩ | ⟨hm, _⟩ <;>
        cases hm
      obtain ⟨p0, hp0, hst, _⟩ := execute_spec hex
      have := passed_not_final hst
      simp [isFinal, hp0] at hf
      rcases hf with h | h <;> simp_all
  · cases he : execute w.flex g self blk snd funds (.close id) with
    | error e => rfl
    | ok r =>
      obtain ⟨s', out⟩ := r
      obtain ⟨_, hc⟩ := execute_cases he
      rcases hc with ⟨_, _, _, _, _, _, _, hm, _⟩ | ⟨_, _, hm, _⟩ | ⟨_, _, _, hm, _⟩ | ⟨id0, p, hm, hpp, hcl, _⟩ | ⟨hm, _⟩ <;>
        cases hm
      obtain ⟨p0, st, hp0, h1', h2', _⟩ := close_spec hcl
      simp [isFinal, hp0] at hf
      rcases hf with h | h <;> simp_all

/-! ## (4) executed proposals are always refunded; no refund when disabled -/

/-- **Clause 4.**  A successful `Execute` of a proposal that carries a deposit returns the refund to the proposer
first, followed by exactly the proposal's messages, in order ("Unconditionally refund here"), and the proposal is
stored `Executed`; the runtime commits the transaction only if the refund was actually paid (any failing
dispatched message aborts the transaction, `tx`). -/
theorem executed_always_refunded {s s' : State} {g : Cw4Group.State} {self : Addr} {blk : Block} {snd : Addr}
    {funds : List Coin} {id : Nat} {out : List Out} {p : Proposal} {d : Deposit}
    (h : execute s g self blk snd funds (.execute id) = .ok (s', out))
    (hp : s.core.proposals.get? id = some p) (hd : p.deposit = some d) :
    out = refundMsg d p.proposer :: p.msgs.map Out.msg ∧
    ∃ p', s'.core.proposals.get? id = some p' ∧ p'.status = .executed := by
  obtain ⟨_, hc⟩ := execute_cases h
  rcases hc with ⟨_, _, _, _, _, _, _, hm, _⟩ | ⟨_, _, hm, _⟩ | ⟨id0, p1, msgs, hm, hpp, hex, hout⟩ | ⟨_, _, hm, _⟩ | ⟨hm, _⟩ <;>
    cases hm
  rw [hp] at hpp; cases hpp
  obtain ⟨p0, hp0, _, _, hmsgs, hc'⟩ := execute_spec hex
  rw [hp] at hp0; cases hp0
  subst hmsgs
  refine ⟨by simp [hout, hd], ?_⟩
  rw [hc']
  exact ⟨_, AMap.get?_set_eq _ _ _, rfl⟩

/-- **Clause 5 (no refund when disabled).**  `Close` of a proposal whose deposit has
`refund_failed_proposals = false` (or that has no deposit) returns no message at all; and no handler other than
`Execute` and `Close` ever returns a payout. -/
theorem no_refund_when_disabled {s s' : State} {g : Cw4Group.State} {self : Addr} {blk : Block} {snd : Addr}
    {funds : List Coin} {m : ExecMsg} {out : List Out}
    (h : execute s g self blk snd funds m = .ok (s', out)) :
    (∀ id p, m = .close id → s.core.proposals.get? id = some p →
        (p.deposit = none ∨ ∃ d, p.deposit = some d ∧ d.refundFailed = false) → out = []) ∧
    ((∀ id, m ≠ .execute id) → (∀ id, m ≠ .close id) → ∀ o ∈ out, isPayout o = false) := by
  constructor
  · intro id p hm hp hd
    subst hm
    obtain ⟨_, hc⟩ := execute_cases h
    rcases hc with ⟨_, _, _, _, _, _, _, hm, _⟩ | ⟨_, _, hm, _⟩ | ⟨_, _, _, hm, _⟩ | ⟨id0, p1, hm, hpp, _, hout⟩ | ⟨hm, _⟩ <;>
      cases hm
    rw [hp] at hpp; cases hpp
    rcases hd with hd | ⟨d, hd, hr⟩ <;> simp [hout, hd, *]
  · intro h1 h2 o ho
    cases hpo : isPayout o with
    | false => rfl
    | true =>
      obtain ⟨id, _, _, hm, _⟩ := refund_only_to_proposer h o ho hpo
      rcases hm with hm | hm
      · exact absurd hm (h1 id)
      · exact absurd hm (h2 id)

/-! ## (6) recoverability of the deposit of failed proposals -/

/-- **Clause 6, partial** (guard: the proposal is still stored `Open` when it expires).  With refunds enabled, a
proposal that is stored `Open`, has expired and did not pass can be closed by anyone, and `Close` returns exactly
the refund of its deposit to its proposer. -/
theorem failed_deposit_recoverable_partial {s : State} {g : Cw4Group.State} {self : Addr} {blk : Block} {snd : Addr}
    {funds : List Coin} {id : Nat} {p : Proposal} {d : Deposit} {st : Status}
    (hp : s.core.proposals.get? id = some p) (hopen : p.status = .open)
    (hexp : p.expires.isExpired blk = true) (hcs : p.currentStatus blk = .ok st) (hnp : st ≠ .passed)
    (hd : p.deposit = some d) (hr : d.refundFailed = true) :
    ∃ s', execute s g self blk snd funds (.close id) = .ok (s', [refundMsg d p.proposer]) := by
  have hl : load s.core id = .ok p := by simp [hp]
  refine ⟨{ s with core := { s.core with proposals := s.core.proposals.set id { p with status := .rejected } } }, ?_⟩
  simp [Cw3Flex.execute, execClose, Cw3Core.close, hl, hopen, hcs, hnp, hexp, hd, hr, bind, Except.bind, check, pure, Except.pure]

/-! ## the unguarded clause 6 is false: D6 -/

namespace Cex

def group0 : Cw4Group.State :=
  match Cw4Group.instantiate ⟨some ⟨true, "adm"⟩, [(⟨true, "a"⟩, 1), (⟨true, "b"⟩, 2), (⟨true, "c"⟩, 2)]⟩ 5 with
  | .ok g => g
  | .error _ => Cw4Group.State.empty

def token0 : Cw20.State :=
  { supply := 0, mint := none, balances := [], allow := [], allowSp := [], version := ⟨"crates.io:cw20-base", 2, 0, 0⟩ }

def inst : InstMsg :=
  { group := ⟨true, "grp"⟩, threshold := .absoluteCount 3, maxVotingPeriod := .height 5, executor := none,
    deposit := some ⟨5, "ucosm", false, true, true⟩ }

def flex0 : State := match instantiate inst (some group0) with | .ok s => s | .error _ => default

def world0 : World := World.init flex0 group0 token0 [(("a", "ucosm"), 20)] "ms" "grp" "tok" 5

def noExt : Ext := fun _ => none

/-- `a` proposes (paying 5ucosm), `b` and `c` vote it down in block 10, well before its expiry at height 15. -/
def ops : List Op :=
  [⟨⟨10, 0⟩, .flex "a" [⟨5, "ucosm"⟩] (.propose "t" "d" [] none)⟩,
   ⟨⟨10, 0⟩, .flex "b" [] (.vote 1 .no)⟩,
   ⟨⟨10, 0⟩, .flex "c" [] (.vote 1 .no)⟩]

def final : World := run noExt 10 world0 ops

end Cex

/-- Non-vacuity of the counterexample's setup. -/
example : instantiate Cex.inst (some Cex.group0) = .ok Cex.flex0 := rfl

example : Reachable Cex.noExt 10 Cex.final :=
  ⟨Cex.inst, Cex.flex0, Cex.group0, Cex.token0, _, "ms", "grp", "tok", 5, Cex.ops, rfl, rfl⟩

/-- **D6, machine-checked.**  Refunds are enabled; proposal 1 was voted down before its expiry, so it is *stored*
`Rejected`; its deposit (5ucosm) sits in the multisig and was never refunded.  After expiry (block 20) `Close` is
refused (and so is `Execute`): the deposit of this failed proposal is not recoverable — the unguarded clause 6
of C15 is false of the code. -/
theorem C15_counterexample :
    ((Cex.final.flex.core.proposals.get? 1).map fun p => (p.status, p.deposit.map (·.refundFailed), p.expires.isExpired ⟨20, 0⟩))
        = some (.rejected, some true, true) ∧
    handled Cex.final.log 1 = 0 ∧
    balance Cex.final "ms" "ucosm" = 5 ∧ balance Cex.final "a" "ucosm" = 15 ∧
    (tx Cex.noExt 10 Cex.final ⟨20, 0⟩ (.flex "x" [] (.close 1))).isOk = false ∧
    (tx Cex.noExt 10 Cex.final ⟨20, 0⟩ (.flex "x" [] (.execute 1))).isOk = false := by
  decide

/-- Non-vacuity of `failed_deposit_recoverable_partial`: the same proposal with a single `no` vote is still stored
`Open` at expiry, and `Close` then returns the refund to the proposer `a`. -/
example :
    ((Cw3Flex.execute (run Cex.noExt 10 Cex.world0 (Cex.ops.take 2)).flex Cex.group0 "ms" ⟨20, 0⟩ "x" [] (.close 1)).toOption.map (·.2))
      = some [Out.bank "a" 5 "ucosm"] := by
  decide

end CwPlus.Props.C15
