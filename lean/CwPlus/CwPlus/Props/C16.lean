import CwPlus.Props.C07
import CwPlus.Props.C17
import CwPlus.Props.C08
/-!
# C16 — cw1: CanExecute predicts Execute

For every state, block, sender and message the `CanExecute` query answers `true`
exactly when `Execute{msgs: [msg]}` by that sender on the same state succeeds.
In cw1-subkeys the two are separate code paths (`can_execute` vs the loop of
`execute_execute`); the theorem relates them for every *valid* sender address, and
`Sk.canExecute_invalid_sender` states exactly what happens for strings that do not
validate.
-/
namespace CwPlus.Props.C16
open CwPlus
open CwPlus.Cw1Whitelist (AddrArg CosmosMsg StakingKind DistrKind AdminList)
open CwPlus.Cw1Subkeys (Allowance Permissions)
open CwPlus.Props.C07 (covers coveredFrom coveredSeq stakingFlag distrFlag)

/-- C16 (whitelist): the query never fails and answers `true` exactly when the `Execute` of that one
message by that sender succeeds.  The whitelist query does not validate the sender string, so this holds
for invalid strings too. -/
theorem Wl.canExecute_iff_execute_ok (s : Cw1Whitelist.State) (blk : Block) (snd : AddrArg) (m : CosmosMsg) :
    Cw1Whitelist.queryCanExecute s blk snd m = .ok true ↔
      (Cw1Whitelist.execute s blk snd.text (.execute [m])).isOk = true := by
  rw [C07.Wl.execute_ok_iff]
  simp [Cw1Whitelist.queryCanExecute, AdminList.isAdmin]

/-- C16 (whitelist): the query always answers. -/
theorem Wl.canExecute_total (s : Cw1Whitelist.State) (blk : Block) (snd : AddrArg) (m : CosmosMsg) :
    ∃ b, Cw1Whitelist.queryCanExecute s blk snd m = .ok b := ⟨_, rfl⟩

/-- The query path of cw1-subkeys for a non-admin valid sender computes "the grants cover this one message". -/
theorem Sk.query_nonadmin (s : Cw1Subkeys.State) (blk : Block) (snd : AddrArg) (m : CosmosMsg)
    (hna : s.cfg.isAdmin snd.text = false) (hv : snd.valid = true) :
    Cw1Subkeys.queryCanExecute s blk snd m =
      .ok (covers (s.permissions.get? snd.text) blk (s.allowances.get? snd.text) m).isSome := by
  simp only [Cw1Subkeys.queryCanExecute, hna, hv, check, Bool.false_eq_true, if_false, if_true, bind, Except.bind]
  cases m with
  | bankSend to coins =>
    simp only [covers]
    cases s.allowances.get? snd.text with
    | none => rfl
    | some a =>
      cases hx : a.expires.isExpired blk <;> cases hs : a.balance.subCoins coins <;>
        simp [hx, hs, Res.isOk, pure, Except.pure]
  | staking k p =>
    simp only [covers]
    cases s.permissions.get? snd.text with
    | none => rfl
    | some q =>
      obtain ⟨d, r, u, w⟩ := q
      cases k <;> cases d <;> cases r <;> cases u <;> cases w <;>
        simp [stakingFlag, Cw1Subkeys.checkStaking, check, Res.isOk, pure, Except.pure]
  | distribution k p =>
    simp only [covers]
    cases s.permissions.get? snd.text with
    | none => rfl
    | some q =>
      obtain ⟨d, r, u, w⟩ := q
      cases k <;> cases w <;>
        simp [distrFlag, Cw1Subkeys.checkDistribution, check, Res.isOk, pure, Except.pure]
  | bankBurn _ => rfl
  | wasm _ => rfl
  | ibc _ => rfl
  | gov _ => rfl
  | other _ => rfl

/-- C16 (subkeys), main theorem: for every state (expired and empty allowances included), every block,
every *valid* sender and every message, `CanExecute` answers `true` exactly when `Execute{[msg]}` by that
sender succeeds on the same state. -/
theorem Sk.canExecute_iff_execute_ok (s : Cw1Subkeys.State) (blk : Block) (snd : AddrArg) (m : CosmosMsg)
    (hv : snd.valid = true) :
    Cw1Subkeys.queryCanExecute s blk snd m = .ok true ↔
      (Cw1Subkeys.execute s blk snd.text (.execute [m])).isOk = true := by
  rw [C07.Sk.execute_ok_iff]
  cases ha : s.cfg.isAdmin snd.text
  · rw [Sk.query_nonadmin s blk snd m ha hv]
    simp only [coveredSeq, coveredFrom, Bool.false_eq_true, false_or]
    cases covers (s.permissions.get? snd.text) blk (s.allowances.get? snd.text) m <;> simp
  · simp [Cw1Subkeys.queryCanExecute, ha]

/-- C16 (subkeys): for a valid sender the query always answers (never errors). -/
theorem Sk.canExecute_total (s : Cw1Subkeys.State) (blk : Block) (snd : AddrArg) (m : CosmosMsg)
    (hv : snd.valid = true) : ∃ b, Cw1Subkeys.queryCanExecute s blk snd m = .ok b := by
  cases ha : s.cfg.isAdmin snd.text
  · exact ⟨_, Sk.query_nonadmin s blk snd m ha hv⟩
  · exact ⟨true, by simp [Cw1Subkeys.queryCanExecute, ha]⟩

/-- C16 (subkeys), sender strings that do not validate: the query answers `true` if the raw string is
literally in the admin list (the lookup precedes validation; `Execute` by that sender succeeds as well),
and fails with an error otherwise — it never answers `true` for a non-admin, so `CanExecute = true` still
implies that `Execute` succeeds.  The converse can fail only for an invalid string that nevertheless holds
grants, which no history produces: grants are stored under validated addresses only
(see `C17.Sk.grant_keys_valid`). -/
theorem Sk.canExecute_invalid_sender (s : Cw1Subkeys.State) (blk : Block) (snd : AddrArg) (m : CosmosMsg)
    (hv : snd.valid = false) :
    (s.cfg.isAdmin snd.text = true → Cw1Subkeys.queryCanExecute s blk snd m = .ok true ∧
        (Cw1Subkeys.execute s blk snd.text (.execute [m])).isOk = true) ∧
    (s.cfg.isAdmin snd.text = false → ∃ e, Cw1Subkeys.queryCanExecute s blk snd m = .error e) := by
  constructor
  · intro ha
    refine ⟨by simp [Cw1Subkeys.queryCanExecute, ha], ?_⟩
    rw [C07.Sk.execute_ok_iff]; exact Or.inl ha
  · intro ha
    exact ⟨"addr", by simp [Cw1Subkeys.queryCanExecute, ha, hv, check, bind, Except.bind]⟩

/-- C16 (subkeys), one direction for *every* sender string: `CanExecute = true` implies `Execute` succeeds. -/
theorem Sk.canExecute_true_sound (s : Cw1Subkeys.State) (blk : Block) (snd : AddrArg) (m : CosmosMsg)
    (h : Cw1Subkeys.queryCanExecute s blk snd m = .ok true) :
    (Cw1Subkeys.execute s blk snd.text (.execute [m])).isOk = true := by
  cases hv : snd.valid
  · cases ha : s.cfg.isAdmin snd.text
    · obtain ⟨e, he⟩ := (Sk.canExecute_invalid_sender s blk snd m hv).2 ha
      rw [he] at h; cases h
    · exact ((Sk.canExecute_invalid_sender s blk snd m hv).1 ha).2
  · exact (Sk.canExecute_iff_execute_ok s blk snd m hv).mp h

theorem covers_no_grants (blk : Block) (m : CosmosMsg) : covers none blk none m = none := by
  cases m <;> rfl

/-- C16 (subkeys) on reachable states, for *every* sender string: if grants are stored under validated addresses
only (`C17.Sk.grant_keys_valid`: true after every history from instantiation) and the sender string is either
valid or not a well-formed address, then `CanExecute = true` exactly when `Execute{[msg]}` succeeds. -/
theorem Sk.canExecute_iff_reachable {V : String → Prop} {s : Cw1Subkeys.State} (hk : C17.KeysOk V s)
    (blk : Block) (snd : AddrArg) (m : CosmosMsg) (hsnd : snd.valid = false → ¬ V snd.text) :
    Cw1Subkeys.queryCanExecute s blk snd m = .ok true ↔
      (Cw1Subkeys.execute s blk snd.text (.execute [m])).isOk = true := by
  cases hv : snd.valid
  · refine ⟨Sk.canExecute_true_sound s blk snd m, fun h => ?_⟩
    rw [C07.Sk.execute_ok_iff] at h
    rcases h with ha | hc
    · exact ((Sk.canExecute_invalid_sender s blk snd m hv).1 ha).1
    · exfalso
      have h1 : s.allowances.get? snd.text = none := by
        cases hg : s.allowances.get? snd.text with
        | none => rfl
        | some a => exact absurd (hk.1 snd.text (by rw [hg]; simp)) (hsnd hv)
      have h2 : s.permissions.get? snd.text = none := by
        cases hg : s.permissions.get? snd.text with
        | none => rfl
        | some a => exact absurd (hk.2 snd.text (by rw [hg]; simp)) (hsnd hv)
      simp [coveredSeq, coveredFrom, h1, h2, covers_no_grants] at hc
  · exact Sk.canExecute_iff_execute_ok s blk snd m hv

/-! ## Histories, the `false` answer, lists -/

/-- C16 (subkeys), closed form over histories: after **every** history from instantiation whose validated address
arguments are well-formed addresses (`V`: the oracle behind `addr_validate`), for every block, message and sender
string that is either valid or not a well-formed address, `CanExecute` answers `true` exactly when `Execute{[msg]}`
by that sender succeeds.  (`canExecute_iff_reachable` composed with `C17.Sk.grant_keys_valid`.) -/
theorem Sk.canExecute_iff_run (V : String → Prop) {m0 : Cw1Subkeys.InstMsg} {s0 : Cw1Subkeys.State}
    (h0 : Cw1Subkeys.instantiate m0 = .ok s0) (ops : List (Block × Addr × Cw1Subkeys.Msg))
    (hops : ∀ op ∈ ops, C17.argsOk V op.2.2) (blk : Block) (snd : AddrArg) (m : CosmosMsg)
    (hsnd : snd.valid = false → ¬ V snd.text) :
    Cw1Subkeys.queryCanExecute (C17.Sk.run s0 ops) blk snd m = .ok true ↔
      (Cw1Subkeys.execute (C17.Sk.run s0 ops) blk snd.text (.execute [m])).isOk = true :=
  Sk.canExecute_iff_reachable (C17.Sk.grant_keys_valid V h0 ops hops) blk snd m hsnd

/-- C16 (subkeys), the `false` answer: for a valid sender the query answers `false` exactly when `Execute{[msg]}`
fails.  This is the form the monitor `C16/query-vs-execute` tests. -/
theorem Sk.canExecute_false_iff (s : Cw1Subkeys.State) (blk : Block) (snd : AddrArg) (m : CosmosMsg)
    (hv : snd.valid = true) :
    Cw1Subkeys.queryCanExecute s blk snd m = .ok false ↔
      ∃ e, Cw1Subkeys.execute s blk snd.text (.execute [m]) = .error e := by
  have hiff := Sk.canExecute_iff_execute_ok s blk snd m hv
  obtain ⟨b, hb⟩ := Sk.canExecute_total s blk snd m hv
  rw [← NativeBalance.isOk_false_iff_exists]
  cases b with
  | true =>
    have := hiff.mp hb
    rw [hb, this]; simp
  | false =>
    rw [hb] at hiff ⊢
    cases hr : (Cw1Subkeys.execute s blk snd.text (.execute [m])).isOk with
    | false => simp
    | true => have := hiff.mpr hr; cases this

/-- C16 (whitelist), the `false` answer. -/
theorem Wl.canExecute_false_iff (s : Cw1Whitelist.State) (blk : Block) (snd : AddrArg) (m : CosmosMsg) :
    Cw1Whitelist.queryCanExecute s blk snd m = .ok false ↔
      ∃ e, Cw1Whitelist.execute s blk snd.text (.execute [m]) = .error e := by
  have hiff := Wl.canExecute_iff_execute_ok s blk snd m
  rw [← NativeBalance.isOk_false_iff_exists]
  cases hr : (Cw1Whitelist.execute s blk snd.text (.execute [m])).isOk with
  | true => rw [hiff.mpr hr]; simp
  | false =>
    constructor
    · intro _; rfl
    · intro _
      cases hq : s.isAdmin snd.text with
      | false => simp [Cw1Whitelist.queryCanExecute, hq]
      | true =>
        have : Cw1Whitelist.queryCanExecute s blk snd m = .ok true := by simp [Cw1Whitelist.queryCanExecute, hq]
        rw [hiff.mp this] at hr; cases hr

/-- C16 (whitelist): the answer depends neither on the message nor on the block. -/
theorem Wl.canExecute_ignores_msg_and_block (s : Cw1Whitelist.State) (blk blk' : Block) (snd : AddrArg) (m m' : CosmosMsg) :
    Cw1Whitelist.queryCanExecute s blk snd m = Cw1Whitelist.queryCanExecute s blk' snd m' := rfl

/-- The threaded allowance of the coverage loop stays below the stored one: same expiry, every coin at most what
the stored balance shows for its denom. -/
def AlBelow (al' al0 : Option Allowance) : Prop :=
  match al', al0 with
  | none, none => True
  | some a', some a0 => a'.expires = a0.expires ∧ NativeBalance.Below a'.balance a0.balance ∧
      NativeBalance.UniqueDenoms a'.balance ∧ NativeBalance.UniqueDenoms a0.balance
  | _, _ => False

theorem coveredFrom_each {perm : Option Permissions} {blk : Block} {al' al0 : Option Allowance} {msgs : List CosmosMsg}
    (hb : AlBelow al' al0) (h : coveredFrom perm blk al' msgs = true) :
    ∀ m ∈ msgs, (covers perm blk al0 m).isSome = true := by
  induction msgs generalizing al' with
  | nil => intro m hm; cases hm
  | cons m ms ih =>
    simp only [coveredFrom] at h
    split at h
    · rename_i al'' hc
      have hstep : (covers perm blk al0 m).isSome = true ∧ AlBelow al'' al0 := by
        cases hbk : C07.isBankSend m with
        | false =>
          rw [C07.covers_of_not_bank perm blk al' hbk] at hc
          rw [C07.covers_of_not_bank perm blk al0 hbk]
          split at hc
          · rename_i hp; cases hc; simp [hp]; exact hb
          · cases hc
        | true =>
          cases m with
          | bankSend to cs =>
            cases al' with
            | none => simp [covers] at hc
            | some a' =>
              cases al0 with
              | none => exact absurd hb (by simp [AlBelow])
              | some a0 =>
                obtain ⟨hexp, hbel, hu', hu0⟩ := hb
                simp only [covers] at hc ⊢
                cases hx : a'.expires.isExpired blk with
                | true => simp [hx] at hc
                | false =>
                  cases hs : a'.balance.subCoins cs with
                  | error e => simp [hx, hs] at hc
                  | ok b =>
                    simp [hx, hs] at hc
                    subst hc
                    have hok : (a0.balance.subCoins cs).isOk = true :=
                      NativeBalance.subCoins_mono hu' hu0 hbel (by rw [hs]; rfl)
                    obtain ⟨b0, hb0⟩ := (NativeBalance.isOk_iff_exists _).mp hok
                    refine ⟨by simp [← hexp, hx, hb0], hexp, ?_, NativeBalance.unique_subCoins hu' hs, hu0⟩
                    exact (NativeBalance.subCoins_below hu' hs).trans hbel
          | _ => simp [C07.isBankSend] at hbk
      intro x hx
      rcases List.mem_cons.mp hx with rfl | hx
      · exact hstep.1
      · exact ih hstep.2 h x hx
    · cases h

/-- C16 (subkeys), lists: on a well-formed state (`C08.wf_run`: every reachable one), if a valid sender's
`Execute{msgs}` succeeds then `CanExecute` answers `true` for every single message of the list.  The converse fails
(each message may be affordable alone but not together, see the example below), and so does the statement without
well-formedness (with the balance `[(a,1),(a,5)]` the list `a1, a5` succeeds but `a5` alone does not). -/
theorem Sk.execute_list_each {s : Cw1Subkeys.State} (hw : C08.WF s) (blk : Block) (snd : AddrArg) (msgs : List CosmosMsg)
    (hv : snd.valid = true) (h : (Cw1Subkeys.execute s blk snd.text (.execute msgs)).isOk = true) :
    ∀ m ∈ msgs, Cw1Subkeys.queryCanExecute s blk snd m = .ok true := by
  intro m hm
  cases ha : s.cfg.isAdmin snd.text with
  | true => simp [Cw1Subkeys.queryCanExecute, ha]
  | false =>
    rw [Sk.query_nonadmin s blk snd m ha hv]
    rcases (C07.Sk.execute_ok_iff s blk snd.text msgs).mp h with h1 | h1
    · rw [ha] at h1; cases h1
    · have hbel : AlBelow (s.allowances.get? snd.text) (s.allowances.get? snd.text) := by
        cases hg : s.allowances.get? snd.text with
        | none => trivial
        | some a => exact ⟨rfl, NativeBalance.Below.refl _, hw _ a hg, hw _ a hg⟩
      rw [coveredFrom_each hbel h1 m hm]

/-! ## non-vacuity -/

open CwPlus.Props.C07 (exState blk50 blk100)

example : (Cw1Subkeys.queryCanExecute exState blk50 ⟨true, "sub"⟩ (.bankSend "x" [("ua", 10)])).toOption = some true := by decide
example : (Cw1Subkeys.execute exState blk50 "sub" (.execute [.bankSend "x" [("ua", 10)]])).isOk = true := by decide
example : (Cw1Subkeys.queryCanExecute exState blk50 ⟨true, "sub"⟩ (.bankSend "x" [("ua", 11)])).toOption = some false := by decide
example : (Cw1Subkeys.execute exState blk50 "sub" (.execute [.bankSend "x" [("ua", 11)]])).isOk = false := by decide
/-- expired allowance: both say no -/
example : (Cw1Subkeys.queryCanExecute exState blk100 ⟨true, "sub"⟩ (.bankSend "x" [("ua", 1)])).toOption = some false := by decide
example : (Cw1Subkeys.execute exState blk100 "sub" (.execute [.bankSend "x" [("ua", 1)]])).isOk = false := by decide
/-- a zero coin of a denom the allowance lacks is refused by both paths -/
example : (Cw1Subkeys.queryCanExecute exState blk50 ⟨true, "sub"⟩ (.bankSend "x" [("uc", 0)])).toOption = some false := by decide
example : (Cw1Subkeys.execute exState blk50 "sub" (.execute [.bankSend "x" [("uc", 0)]])).isOk = false := by decide
example : (Cw1Subkeys.queryCanExecute exState blk50 ⟨true, "sub"⟩ (.distribution .withdrawDelegatorReward "v")).toOption = some true := by decide
example : (Cw1Subkeys.queryCanExecute exState blk50 ⟨true, "sub"⟩ (.distribution .other "v")).toOption = some false := by decide
example : (Cw1Subkeys.queryCanExecute exState blk50 ⟨false, "NotAnAddress"⟩ (.wasm "w")).isOk = false := by decide
example : (Cw1Subkeys.queryCanExecute exState blk50 ⟨true, "admin"⟩ (.wasm "w")).toOption = some true := by decide

/-- `canExecute_false_iff` on the running example -/
example : ∃ e, Cw1Subkeys.execute exState blk50 "sub" (.execute [.bankSend "x" [("ua", 11)]]) = .error e :=
  (Sk.canExecute_false_iff exState blk50 ⟨true, "sub"⟩ _ rfl).mp rfl
/-- `execute_list_each`: the list succeeds, so each message can execute; the converse fails: 6 ua twice is each
affordable alone, but not together -/
example : ∀ m ∈ [CosmosMsg.bankSend "x" [("ua", 4)], .staking .delegate "v", .bankSend "y" [("ua", 6), ("ub", 1)]],
    Cw1Subkeys.queryCanExecute exState blk50 ⟨true, "sub"⟩ m = .ok true :=
  Sk.execute_list_each C08.exState_wf blk50 ⟨true, "sub"⟩ _ rfl (by decide)
example : (∀ m ∈ [CosmosMsg.bankSend "x" [("ua", 6)], .bankSend "y" [("ua", 6)]],
      (Cw1Subkeys.queryCanExecute exState blk50 ⟨true, "sub"⟩ m).toOption = some true) ∧
    (Cw1Subkeys.execute exState blk50 "sub" (.execute [.bankSend "x" [("ua", 6)], .bankSend "y" [("ua", 6)]])).isOk = false := by
  decide
/-- without unique denoms the list statement fails -/
example : let s : Cw1Subkeys.State := { exState with allowances := [("sub", ⟨[("a", 1), ("a", 5)], .never⟩)] }
    (Cw1Subkeys.execute s blk50 "sub" (.execute [.bankSend "x" [("a", 1)], .bankSend "y" [("a", 5)]])).isOk = true ∧
    (Cw1Subkeys.queryCanExecute s blk50 ⟨true, "sub"⟩ (.bankSend "y" [("a", 5)])).toOption = some false := by decide

end CwPlus.Props.C16
