import CwPlus.Props.C07
import CwPlus.Props.C17
/-!
# C16 — cw1: CanExecute predicts Execute

For every state, block, sender and message the `CanExecute` query answers `true`
exactly when `Execute{msgs: [msg]}` by that sender on the same state succeeds.
In cw1-subkeys the two are separate code paths (`can_execute` vs the loop of
`execute_execute`); the theorem relates them for every *valid* sender address, and
`Sk.canExecute_invalid_sender` states exactly what happens for strings that do not
validate.
-/
namespace CwPlus.Props.C16
open CwPlus
open CwPlus.Cw1Whitelist (AddrArg CosmosMsg StakingKind DistrKind AdminList)
open CwPlus.Cw1Subkeys (Allowance Permissions)
open CwPlus.Props.C07 (covers coveredFrom coveredSeq stakingFlag distrFlag)

/-- C16 (whitelist): the query never fails and answers `true` exactly when the `Execute` of that one
message by that sender succeeds.  The whitelist query does not validate the sender string, so this holds
for invalid strings too. -/
theorem Wl.canExecute_iff_execute_ok (s : Cw1Whitelist.State) (blk : Block) (snd : AddrArg) (m : CosmosMsg) :
    Cw1Whitelist.queryCanExecute s blk snd m = .ok true ↔
      (Cw1Whitelist.execute s blk snd.text (.execute [m])).isOk = true := by
  rw [C07.Wl.execute_ok_iff]
  simp [Cw1Whitelist.queryCanExecute, AdminList.isAdmin]

/-- C16 (whitelist): the query always answers. -/
theorem Wl.canExecute_total (s : Cw1Whitelist.State) (blk : Block) (snd : AddrArg) (m : CosmosMsg) :
    ∃ b, Cw1Whitelist.queryCanExecute s blk snd m = .ok b := ⟨_, rfl⟩

/-- The query path of cw1-subkeys for a non-admin valid sender computes "the grants cover this one message". -/
theorem Sk.query_nonadmin (s : Cw1Subkeys.State) (blk : Block) (snd : AddrArg) (m : CosmosMsg)
    (hna : s.cfg.isAdmin snd.text = false) (hv : snd.valid = true) :
    Cw1Subkeys.queryCanExecute s blk snd m =
      .ok (covers (s.permissions.get? snd.text) blk (s.allowances.get? snd.text) m).isSome := by
  simp only [Cw1Subkeys.queryCanExecute, hna, hv, check, Bool.false_eq_true, if_false, if_true, bind, Except.bind]
  cases m with
  | bankSend to coins =>
    simp only [covers]
    cases s.allowances.get? snd.text with
    | none => rfl
    | some a =>
      cases hx : a.expires.isExpired blk <;> cases hs : a.balance.subCoins coins <;>
        simp [hx, hs, Res.isOk, pure, Except.pure]
  | staking k p =>
    simp only [covers]
    cases s.permissions.get? snd.text with
    | none => rfl
    | some q =>
      obtain ⟨d, r, u, w⟩ := q
      cases k <;> cases d <;> cases r <;> cases u <;> cases w <;>
        simp [stakingFlag, Cw1Subkeys.checkStaking, check, Res.isOk, pure, Except.pure]
  | distribution k p =>
    simp only [covers]
    cases s.permissions.get? snd.text with
    | none => rfl
    | some q =>
      obtain ⟨d, r, u, w⟩ := q
      cases k <;> cases w <;>
        simp [distrFlag, Cw1Subkeys.checkDistribution, check, Res.isOk, pure, Except.pure]
  | bankBurn _ => rfl
  | wasm _ => rfl
  | ibc _ => rfl
  | gov _ => rfl
  | other _ => rfl

/-- C16 (subkeys), main theorem: for every state (expired and empty allowances included), every block,
every *valid* sender and every message, `CanExecute` answers `true` exactly when `Execute{[msg]}` by that
sender succeeds on the same state. -/
theorem Sk.canExecute_iff_execute_ok (s : Cw1Subkeys.State) (blk : Block) (snd : AddrArg) (m : CosmosMsg)
    (hv : snd.valid = true) :
    Cw1Subkeys.queryCanExecute s blk snd m = .ok true ↔
      (Cw1Subkeys.execute s blk snd.text (.execute [m])).isOk = true := by
  rw [C07.Sk.execute_ok_iff]
  cases ha : s.cfg.isAdmin snd.text
  · rw [Sk.query_nonadmin s blk snd m ha hv]
    simp only [coveredSeq, coveredFrom, Bool.false_eq_true, false_or]
    cases covers (s.permissions.get? snd.text) blk (s.allowances.get? snd.text) m <;> simp
  · simp [Cw1Subkeys.queryCanExecute, ha]

/-- C16 (subkeys): for a valid sender the query always answers (never errors). -/
theorem Sk.canExecute_total (s : Cw1Subkeys.State) (blk : Block) (snd : AddrArg) (m : CosmosMsg)
    (hv : snd.valid = true) : ∃ b, Cw1Subkeys.queryCanExecute s blk snd m = .ok b := by
  cases ha : s.cfg.isAdmin snd.text
  · exact ⟨_, Sk.query_nonadmin s blk snd m ha hv⟩
  · exact ⟨true, by simp [Cw1Subkeys.queryCanExecute, ha]⟩

/-- C16 (subkeys), sender strings that do not validate: the query answers `true` if the raw string is
literally in the admin list (the lookup precedes validation; `Execute` by that sender succeeds as well),
and fails with an error otherwise — it never answers `true` for a non-admin, so `CanExecute = true` still
implies that `Execute` succeeds.  The converse can fail only for an invalid string that nevertheless holds
grants, which no history produces: grants are stored under validated addresses only
(see `C17.Sk.grant_keys_valid`). -/
theorem Sk.canExecute_invalid_sender (s : Cw1Subkeys.State) (blk : Block) (snd : AddrArg) (m : CosmosMsg)
    (hv : snd.valid = false) :
    (s.cfg.isAdmin snd.text = true → Cw1Subkeys.queryCanExecute s blk snd m = .ok true ∧
        (Cw1Subkeys.execute s blk snd.text (.execute [m])).isOk = true) ∧
    (s.cfg.isAdmin snd.text = false → ∃ e, Cw1Subkeys.queryCanExecute s blk snd m = .error e) := by
  constructor
  · intro ha
    refine ⟨by simp [Cw1Subkeys.queryCanExecute, ha], ?_⟩
    rw [C07.Sk.execute_ok_iff]; exact Or.inl ha
  · intro ha
    exact ⟨"addr", by simp [Cw1Subkeys.queryCanExecute, ha, hv, check, bind, Except.bind]⟩

/-- C16 (subkeys), one direction for *every* sender string: `CanExecute = true` implies `Execute` succeeds. -/
theorem Sk.canExecute_true_sound (s : Cw1Subkeys.State) (blk : Block) (snd : AddrArg) (m : CosmosMsg)
    (h : Cw1Subkeys.queryCanExecute s blk snd m = .ok true) :
    (Cw1Subkeys.execute s blk snd.text (.execute [m])).isOk = true := by
  cases hv : snd.valid
  · cases ha : s.cfg.isAdmin snd.text
    · obtain ⟨e, he⟩ := (Sk.canExecute_invalid_sender s blk snd m hv).2 ha
      rw [he] at h; cases h
    · exact ((Sk.canExecute_invalid_sender s blk snd m hv).1 ha).2
  · exact (Sk.canExecute_iff_execute_ok s blk snd m hv).mp h

theorem covers_no_grants (blk : Block) (m : CosmosMsg) : covers none blk none m = none := by
  cases m <;> rfl

/-- C16 (subkeys) on reachable states, for *every* sender string: if grants are stored under validated addresses
only (`C17.Sk.grant_keys_valid`: true after every history from instantiation) and the sender string is either
valid or not a well-formed address, then `CanExecute = true` exactly when `Execute{[msg]}` succeeds. -/
theorem Sk.canExecute_iff_reachable {V : String → Prop} {s : Cw1Subkeys.State} (hk : C17.KeysOk V s)
    (blk : Block) (snd : AddrArg) (m : CosmosMsg) (hsnd : snd.valid = false → ¬ V snd.text) :
    Cw1Subkeys.queryCanExecute s blk snd m = .ok true ↔
      (Cw1Subkeys.execute s blk snd.text (.execute [m])).isOk = true := by
  cases hv : snd.valid
  · refine ⟨Sk.canExecute_true_sound s blk snd m, fun h => ?_⟩
    rw [C07.Sk.execute_ok_iff] at h
    rcases h with ha | hc
    · exact ((Sk.canExecute_invalid_sender s blk snd m hv).1 ha).1
    · exfalso
      have h1 : s.allowances.get? snd.text = none := by
        cases hg : s.allowances.get? snd.text with
        | none => rfl
        | some a => exact absurd (hk.1 snd.text (by rw [hg]; simp)) (hsnd hv)
      have h2 : s.permissions.get? snd.text = none := by
        cases hg : s.permissions.get? snd.text with
        | none => rfl
        | some a => exact absurd (hk.2 snd.text (by rw [hg]; simp)) (hsnd hv)
      simp [coveredSeq, coveredFrom, h1, h2, covers_no_grants] at hc
  · exact Sk.canExecute_iff_execute_ok s blk snd m hv

/-! ## non-vacuity -/

open CwPlus.Props.C07 (exState blk50 blk100)

example : (Cw1Subkeys.queryCanExecute exState blk50 ⟨true, "sub"⟩ (.bankSend "x" [("ua", 10)])).toOption = some true := by decide
example : (Cw1Subkeys.execute exState blk50 "sub" (.execute [.bankSend "x" [("ua", 10)]])).isOk = true := by decide
example : (Cw1Subkeys.queryCanExecute exState blk50 ⟨true, "sub"⟩ (.bankSend "x" [("ua", 11)])).toOption = some false := by decide
example : (Cw1Subkeys.execute exState blk50 "sub" (.execute [.bankSend "x" [("ua", 11)]])).isOk = false := by decide
/-- expired allowance: both say no -/
example : (Cw1Subkeys.queryCanExecute exState blk100 ⟨true, "sub"⟩ (.bankSend "x" [("ua", 1)])).toOption = some false := by decide
example : (Cw1Subkeys.execute exState blk100 "sub" (.execute [.bankSend "x" [("ua", 1)]])).isOk = false := by decide
/-- a zero coin of a denom the allowance lacks is refused by both paths -/
example : (Cw1Subkeys.queryCanExecute exState blk50 ⟨true, "sub"⟩ (.bankSend "x" [("uc", 0)])).toOption = some false := by decide
example : (Cw1Subkeys.execute exState blk50 "sub" (.execute [.bankSend "x" [("uc", 0)]])).isOk = false := by decide
example : (Cw1Subkeys.queryCanExecute exState blk50 ⟨true, "sub"⟩ (.distribution .withdrawDelegatorReward "v")).toOption = some true := by decide
example : (Cw1Subkeys.queryCanExecute exState blk50 ⟨true, "sub"⟩ (.distribution .other "v")).toOption = some false := by decide
example : (Cw1Subkeys.queryCanExecute exState blk50 ⟨false, "NotAnAddress"⟩ (.wasm "w")).isOk = false := by decide
example : (Cw1Subkeys.queryCanExecute exState blk50 ⟨true, "admin"⟩ (.wasm "w")).toOption = some true := by decide

end CwPlus.Props.C16
