import CwPlus.Base.Json
import CwPlus.Model.Cw20
import CwPlus.Model.Cw4Group
import CwPlus.Model.Cw4Stake
import CwPlus.Model.Ics20
import CwPlus.Model.Cw3Flex
/-!
# The JSON messages the contracts send to other contracts — byte-level model

The `msg: Binary` of the `WasmMsg::Execute` messages that the contracts of this repository emit, as
`cosmwasm_std::to_json_binary` (= serde-json-wasm 1.0.1 `to_vec`, with the serde-derive code of the types) writes
it, byte for byte, and what a receiver built with the same libraries reads back:

* `encodeReceive` = `Cw20ReceiveMsg { sender, amount, msg }.into_json_binary()` (`packages/cw20/src/receiver.rs`):
  the private enum `ReceiverExecuteMsg::Receive(self)` is an externally tagged newtype variant, snake_case, so
  `{"receive":{"sender":"…","amount":"<decimal>","msg":"<base64>"}}` — fields in struct order; `sender` through
  `serialize_str` (escaping as in `Base/Json.lean`); `amount: Uint128` a decimal *string*; `msg: Binary` =
  `serialize_str(&self.to_base64())`, base64 0.21.7 STANDARD alphabet **with** padding.  The code of `/repo`
  special-cases nothing: an empty payload is `"msg":""`, a payload that itself is JSON is base64 like any other
  bytes.
* `encodeHook` = `MemberChangedHookMsg { diffs }.into_json_binary()` (`packages/cw4/src/hook.rs`):
  `{"member_changed_hook":{"diffs":[{"key":"…","old":<u64|null>,"new":<u64|null>},…]}}` — `u64` a JSON number,
  `Option::None` is `null` (no `skip_serializing_if`), elements separated by `,`, `[]` when there is no diff.
* `encodeTransfer` / `encodeTransferFrom` = `Cw20ExecuteMsg::Transfer { recipient, amount }` /
  `TransferFrom { owner, recipient, amount }` (`packages/cw20/src/msg.rs`; struct variants, snake_case):
  `{"transfer":{"recipient":"…","amount":"…"}}`, `{"transfer_from":{"owner":"…","recipient":"…","amount":"…"}}`;
  `decodeTransfer` / `decodeTransferFrom` read them back (`from_json::<Cw20ExecuteMsg>` restricted to that variant).
* `decodeReceive` / `decodeHook`: `from_json` for an enum with the variant `Receive(Cw20ReceiveMsg)` resp.
  `MemberChangedHook(MemberChangedHookMsg)` (`#[cw_serde]`: `deny_unknown_fields`, snake_case), restricted to that
  variant: `deserialize_enum` (`{`, variant identifier, `:`, value, `}`), the derived struct visitors (a repeated or
  unknown key is an error; a missing `String` / `Uint128` / `Binary` / `Vec` is an error, a missing `Option<u64>`
  is `None`), `deserialize_u64` (`0` is taken alone, `1-9` then digits with checked `u64` arithmetic, a `-` or
  anything else is an error), `deserialize_option` (`null`), `SeqAccess` (a leading comma passes), `end_seq`,
  `end_map`, `end`.  `Binary::deserialize`: a JSON string, then `Binary::from_base64` (padding optional,
  `Base/Json.validBase64`).  The recursion limit (128) is not reached by these fixed shapes (depth 3 resp. 5) and
  is not modelled.  `DecodeErr` has no `unknown field` / `invalid number` constructors; `.unknownVariant` /
  `.invalidType` stand in (only ok/error is ever compared).

`wireOfCw20`, `wireOfGroup`, `wireOfStake`, `wireOfIcs20`, `wireOfFlex` map the output types of the existing
contract models to these bytes; the models themselves are unchanged.
-/
namespace CwPlus.MsgWire
open CwPlus CwPlus.Json

/-! ## base64 (base64 0.21.7, STANDARD alphabet, padded output) -/

/-- the symbol of a 6-bit value -/
def b64Sym (v : Nat) : UInt8 :=
  if v < 26 then (0x41 + v).toUInt8
  else if v < 52 then (0x61 + (v - 26)).toUInt8
  else if v < 62 then (0x30 + (v - 52)).toUInt8
  else if v = 62 then 0x2b
  else 0x2f

/-- `Engine::encode`: three bytes → four symbols; a rest of one / two bytes → two / three symbols and `==` / `=` -/
def b64Enc : Bytes → Bytes
  | [] => []
  | [a] => [b64Sym (a.toNat / 4), b64Sym (a.toNat % 4 * 16), 0x3d, 0x3d]
  | [a, b] => [b64Sym (a.toNat / 4), b64Sym (a.toNat % 4 * 16 + b.toNat / 16), b64Sym (b.toNat % 16 * 4), 0x3d]
  | a :: b :: c :: r =>
    b64Sym (a.toNat / 4) :: b64Sym (a.toNat % 4 * 16 + b.toNat / 16) :: b64Sym (b.toNat % 16 * 4 + c.toNat / 64) ::
      b64Sym (c.toNat % 64) :: b64Enc r

/-- the bytes a run of symbols (padding already removed) stands for -/
def b64DecSyms : Bytes → Bytes
  | x :: y :: z :: w :: r =>
    let a := (b64Val x).getD 0; let b := (b64Val y).getD 0; let c := (b64Val z).getD 0; let d := (b64Val w).getD 0
    (a * 4 + b / 16).toUInt8 :: (b % 16 * 16 + c / 4).toUInt8 :: (c % 4 * 64 + d).toUInt8 :: b64DecSyms r
  | [x, y, z] =>
    let a := (b64Val x).getD 0; let b := (b64Val y).getD 0; let c := (b64Val z).getD 0
    [(a * 4 + b / 16).toUInt8, (b % 16 * 16 + c / 4).toUInt8]
  | [x, y] =>
    let a := (b64Val x).getD 0; let b := (b64Val y).getD 0
    [(a * 4 + b / 16).toUInt8]
  | _ => []

/-- `Binary::from_base64` (`DecodePaddingMode::Indifferent`): `validBase64` decides acceptance -/
def b64Dec (bs : Bytes) : Option Bytes :=
  if validBase64 bs then some (b64DecSyms (bs.takeWhile fun b => (b64Val b).isSome)) else none

/-! ## Serialisation -/

def keyReceive : Bytes := [0x72, 0x65, 0x63, 0x65, 0x69, 0x76, 0x65]
def keyMsg : Bytes := [0x6d, 0x73, 0x67]
def keyMemberChangedHook : Bytes :=
  [0x6d, 0x65, 0x6d, 0x62, 0x65, 0x72, 0x5f, 0x63, 0x68, 0x61, 0x6e, 0x67, 0x65, 0x64, 0x5f, 0x68, 0x6f, 0x6f, 0x6b]
def keyDiffs : Bytes := [0x64, 0x69, 0x66, 0x66, 0x73]
def keyKey : Bytes := [0x6b, 0x65, 0x79]
def keyOld : Bytes := [0x6f, 0x6c, 0x64]
def keyNew : Bytes := [0x6e, 0x65, 0x77]
def keyTransfer : Bytes := [0x74, 0x72, 0x61, 0x6e, 0x73, 0x66, 0x65, 0x72]
def keyTransferFrom : Bytes := keyTransfer ++ [0x5f, 0x66, 0x72, 0x6f, 0x6d]
def keyRecipient : Bytes := [0x72, 0x65, 0x63, 0x69, 0x70, 0x69, 0x65, 0x6e, 0x74]
def keyOwner : Bytes := [0x6f, 0x77, 0x6e, 0x65, 0x72]

/-- `Cw20ReceiveMsg` -/
structure Receive where
  sender : String
  amount : Nat
  msg : Bytes
  deriving Repr, DecidableEq, Inhabited

/-- `cw4::MemberDiff` -/
structure MemberDiff where
  key : String
  old : Option Nat
  new : Option Nat
  deriving Repr, DecidableEq, Inhabited

/-- `Binary::serialize` = `serialize_str(&self.to_base64())` (no symbol of the alphabet needs escaping) -/
def binaryTok (bs : Bytes) : Bytes := 0x22 :: (b64Enc bs ++ [0x22])

/-- `serialize_u64` -/
def u64Tok (n : Nat) : Bytes := decDigits n

/-- `null` -/
def nullTok : Bytes := [0x6e, 0x75, 0x6c, 0x6c]

/-- `Option<u64>::serialize`: `serialize_none` = `null`, `serialize_some(v)` = the number -/
def optU64Tok : Option Nat → Bytes
  | none => nullTok
  | some n => u64Tok n

/-- the struct `Cw20ReceiveMsg`: `{"sender":…,"amount":…,"msg":…}` -/
def encodeReceiveBody (m : Receive) : Bytes :=
  0x7b :: (field keySender (encStr m.sender) ++ (0x2c :: (field keyAmount (amountTok m.amount) ++
    (0x2c :: (field keyMsg (binaryTok m.msg) ++ [0x7d])))))

/-- `Cw20ReceiveMsg::into_json_binary` = `to_json_binary(&ReceiverExecuteMsg::Receive(self))`
(`serialize_newtype_variant`: `{`, the variant name, `:`, the value, `}`) -/
def encodeReceive (m : Receive) : Bytes := 0x7b :: (field keyReceive (encodeReceiveBody m) ++ [0x7d])

/-- the struct `MemberDiff`: `{"key":…,"old":…,"new":…}` -/
def encodeDiff (d : MemberDiff) : Bytes :=
  0x7b :: (field keyKey (encStr d.key) ++ (0x2c :: (field keyOld (optU64Tok d.old) ++
    (0x2c :: (field keyNew (optU64Tok d.new) ++ [0x7d])))))

/-- the elements of a sequence after the first: each preceded by `,` -/
def encodeDiffsTail : List MemberDiff → Bytes
  | [] => []
  | d :: ds => 0x2c :: (encodeDiff d ++ encodeDiffsTail ds)

/-- `Vec<MemberDiff>::serialize` (`serialize_seq`): `[`, the elements separated by `,`, `]` -/
def encodeDiffs : List MemberDiff → Bytes
  | [] => [0x5b, 0x5d]
  | d :: ds => 0x5b :: (encodeDiff d ++ (encodeDiffsTail ds ++ [0x5d]))

/-- the struct `MemberChangedHookMsg`: `{"diffs":[…]}` -/
def encodeHookBody (ds : List MemberDiff) : Bytes := 0x7b :: (field keyDiffs (encodeDiffs ds) ++ [0x7d])

/-- `MemberChangedHookMsg::into_json_binary` = `to_json_binary(&MemberChangedExecuteMsg::MemberChangedHook(self))` -/
def encodeHook (ds : List MemberDiff) : Bytes := 0x7b :: (field keyMemberChangedHook (encodeHookBody ds) ++ [0x7d])

/-- `to_json_binary(&Cw20ExecuteMsg::Transfer { recipient, amount })` (`serialize_struct_variant`) -/
def encodeTransfer (recipient : String) (amount : Nat) : Bytes :=
  0x7b :: (field keyTransfer (0x7b :: (field keyRecipient (encStr recipient) ++
    (0x2c :: (field keyAmount (amountTok amount) ++ [0x7d])))) ++ [0x7d])

/-- `to_json_binary(&Cw20ExecuteMsg::TransferFrom { owner, recipient, amount })` -/
def encodeTransferFrom (owner recipient : String) (amount : Nat) : Bytes :=
  0x7b :: (field keyTransferFrom (0x7b :: (field keyOwner (encStr owner) ++ (0x2c :: (field keyRecipient (encStr recipient) ++
    (0x2c :: (field keyAmount (amountTok amount) ++ [0x7d])))))) ++ [0x7d])

/-! ## Deserialisation -/

/-- the digit loop of `deserialize_unsigned!`: `checked_mul(10)` then `checked_add(digit)` in `u64`; stops (without
consuming) at the first byte that is not a digit -/
def digitLoop : Nat → Bytes → Except DecodeErr (Nat × Bytes)
  | acc, [] => .ok (acc, [])
  | acc, c :: r =>
    if isDigit c then
      (if 10 * acc + (c.toNat - 0x30) < 2 ^ 64 then digitLoop (10 * acc + (c.toNat - 0x30)) r else .error .invalidType)
    else .ok (acc, c :: r)

/-- `deserialize_u64`: whitespace; `-` is `InvalidNumber`; `0` is consumed alone (what follows is not looked at);
`1`–`9` starts the digit loop; anything else is `InvalidType` -/
def parseU64Value (bs : Bytes) : Except DecodeErr (Nat × Bytes) :=
  match skipWs bs with
  | [] => .error .eof
  | b :: r =>
    if b = 0x30 then .ok (0, r)
    else if 0x31 ≤ b ∧ b ≤ 0x39 then digitLoop (b.toNat - 0x30) r
    else .error .invalidType

/-- `Option<u64>::deserialize` = `deserialize_option` -/
def parseOptU64Value (bs : Bytes) : Except DecodeErr (Option Nat × Bytes) :=
  match skipWs bs with
  | [] => .error .eof
  | b :: r =>
    if b = 0x6e then
      match parseIdent [0x75, 0x6c, 0x6c] r with
      | .error e => .error e
      | .ok rest => .ok (none, rest)
    else
      match parseU64Value (b :: r) with
      | .error e => .error e
      | .ok (v, rest) => .ok (some v, rest)

/-- `Binary::deserialize`: `deserialize_str` (UTF-8 validated), then `Binary::from_base64` -/
def parseBinaryValue (bs : Bytes) : Except DecodeErr (Bytes × Bytes) :=
  match parseStringValue bs with
  | .error e => .error e
  | .ok (s, rest) =>
    match b64Dec (strBytes s) with
    | none => .error .invalidBase64
    | some v => .ok (v, rest)

/-- the `Option`s of the derived visitor of `Cw20ReceiveMsg` -/
structure RecvAcc where
  sender : Option String := none
  amount : Option Nat := none
  msg : Option Bytes := none
  deriving Repr, DecidableEq

/-- `next_value` for a key of `Cw20ReceiveMsg`; `deny_unknown_fields`: any other key is an error -/
def recvFieldValue (acc : RecvAcc) (key : String) (bs : Bytes) : Except DecodeErr (RecvAcc × Bytes) :=
  if key = "sender" then
    if acc.sender.isSome then .error .duplicateField
    else match parseStringValue bs with
      | .error e => .error e
      | .ok (v, rest) => .ok ({ acc with sender := some v }, rest)
  else if key = "amount" then
    if acc.amount.isSome then .error .duplicateField
    else match parseAmountValue bs with
      | .error e => .error e
      | .ok (v, rest) => .ok ({ acc with amount := some v }, rest)
  else if key = "msg" then
    if acc.msg.isSome then .error .duplicateField
    else match parseBinaryValue bs with
      | .error e => .error e
      | .ok (v, rest) => .ok ({ acc with msg := some v }, rest)
  else .error .unknownVariant

/-- the loop of a derived `visit_map` over `MapAccess`, generic in the accumulator; returns at the closing `}`
(not consumed).  With `deny_unknown_fields` and duplicate detection a struct of `n` fields makes at most `n + 1`
iterations: the fuel is `n + 1`. -/
def parseObj {α : Type} (fv : α → String → Bytes → Except DecodeErr (α × Bytes)) :
    Nat → Bool → α → Bytes → Except DecodeErr (α × Bytes)
  | 0, _, _, _ => .error .fuel
  | fuel + 1, first, acc, bs =>
    match nextKey first bs with
    | .error e => .error e
    | .ok (none, rest) => .ok (acc, rest)
    | .ok (some r, _) =>
      match parseStrTok r with
      | .error e => .error e
      | .ok (key, r3) =>
        match parseColon r3 with
        | .error e => .error e
        | .ok r4 =>
          match fv acc key r4 with
          | .error e => .error e
          | .ok (acc', r5) => parseObj fv fuel false acc' r5

/-- `end_map`: whitespace, then the `}` is consumed -/
def endMap (bs : Bytes) : Except DecodeErr Bytes :=
  match skipWs bs with
  | [] => .error .eof
  | b :: r => if b = 0x7d then .ok r else if b = 0x2c then .error .trailingComma else .error .trailingCharacters

/-- `Cw20ReceiveMsg::deserialize` = `deserialize_struct`: `{`, the field loop, the three required fields, `end_map` -/
def parseReceiveBody (bs : Bytes) : Except DecodeErr (Receive × Bytes) :=
  match skipWs bs with
  | [] => .error .eof
  | b :: r =>
    if b = 0x7b then
      match parseObj recvFieldValue 4 true {} r with
      | .error e => .error e
      | .ok (acc, rest) =>
        match acc.sender, acc.amount, acc.msg with
        | some s, some a, some m =>
          match endMap rest with
          | .error e => .error e
          | .ok rest' => .ok (⟨s, a, m⟩, rest')
        | _, _, _ => .error .missingField
    else .error .invalidType

/-- `from_json` for an enum whose only modelled variant is the newtype variant `variant(T)`:
`deserialize_enum` (`{` → `StructVariantAccess`: the identifier, `:`, the value, `}`; a bare string is a unit
variant → `InvalidType`), then `end` (only whitespace may follow) -/
def decodeNewtypeVariant {α : Type} (variant : String) (value : Bytes → Except DecodeErr (α × Bytes)) (bs : Bytes) :
    Except DecodeErr α :=
  match skipWs bs with
  | [] => .error .eof
  | b :: r =>
    if b = 0x7b then
      match parseStringValue r with
      | .error e => .error e
      | .ok (v, r2) =>
        if v = variant then
          match parseColon r2 with
          | .error e => .error e
          | .ok r3 =>
            match value r3 with
            | .error e => .error e
            | .ok (x, r4) =>
              match skipWs r4 with
              | [] => .error .eof
              | c :: r5 =>
                if c = 0x7d then
                  if (skipWs r5).isEmpty then .ok x else .error .trailingCharacters
                else .error .expectedSomeValue
        else .error .unknownVariant
    else if b = 0x22 then .error .invalidType
    else .error .expectedSomeIdent

/-- `from_json::<ExecuteMsg>` of a receiver contract, restricted to `Receive(Cw20ReceiveMsg)` -/
def decodeReceive (bs : Bytes) : Except DecodeErr Receive := decodeNewtypeVariant "receive" parseReceiveBody bs

/-- the `Option`s of the derived visitor of `MemberDiff` -/
structure DiffAcc where
  key : Option String := none
  old : Option (Option Nat) := none
  new : Option (Option Nat) := none
  deriving Repr, DecidableEq

def diffFieldValue (acc : DiffAcc) (key : String) (bs : Bytes) : Except DecodeErr (DiffAcc × Bytes) :=
  if key = "key" then
    if acc.key.isSome then .error .duplicateField
    else match parseStringValue bs with
      | .error e => .error e
      | .ok (v, rest) => .ok ({ acc with key := some v }, rest)
  else if key = "old" then
    if acc.old.isSome then .error .duplicateField
    else match parseOptU64Value bs with
      | .error e => .error e
      | .ok (v, rest) => .ok ({ acc with old := some v }, rest)
  else if key = "new" then
    if acc.new.isSome then .error .duplicateField
    else match parseOptU64Value bs with
      | .error e => .error e
      | .ok (v, rest) => .ok ({ acc with new := some v }, rest)
  else .error .unknownVariant

/-- `MemberDiff::deserialize`: `key` is required, a missing `old` / `new` is `None` (serde's `missing_field` for an
`Option`) -/
def parseDiff (bs : Bytes) : Except DecodeErr (MemberDiff × Bytes) :=
  match skipWs bs with
  | [] => .error .eof
  | b :: r =>
    if b = 0x7b then
      match parseObj diffFieldValue 4 true {} r with
      | .error e => .error e
      | .ok (acc, rest) =>
        match acc.key with
        | some k =>
          match endMap rest with
          | .error e => .error e
          | .ok rest' => .ok (⟨k, acc.old.getD none, acc.new.getD none⟩, rest')
        | none => .error .missingField
    else .error .invalidType

/-- `Vec<MemberDiff>`'s `visit_seq` over `SeqAccess`: returns at the closing `]` (not consumed).  Every element
consumes at least its `{`: fuel = length of the input + 1 is never exhausted. -/
def parseDiffSeq : Nat → Bool → Bytes → Except DecodeErr (List MemberDiff × Bytes)
  | 0, _, _ => .error .fuel
  | fuel + 1, first, bs =>
    match skipWs bs with
    | [] => .error .eof
    | b :: r =>
      if b = 0x5d then .ok ([], b :: r)
      else
        match seqPos first b r with
        | .error e => .error e
        | .ok ([], _) => .error .eof
        | .ok (c :: r2, first') =>
          if c = 0x5d then .error .trailingComma
          else
            match parseDiff (c :: r2) with
            | .error e => .error e
            | .ok (d, rest) =>
              match parseDiffSeq fuel first' rest with
              | .error e => .error e
              | .ok (ds, rest') => .ok (d :: ds, rest')

/-- `end_seq` -/
def endSeq (bs : Bytes) : Except DecodeErr Bytes :=
  match skipWs bs with
  | [] => .error .eof
  | b :: r => if b = 0x5d then .ok r else if b = 0x2c then .error .trailingComma else .error .trailingCharacters

/-- `Vec<MemberDiff>::deserialize` = `deserialize_seq` -/
def parseDiffsValue (bs : Bytes) : Except DecodeErr (List MemberDiff × Bytes) :=
  match skipWs bs with
  | [] => .error .eof
  | b :: r =>
    if b = 0x5b then
      match parseDiffSeq (r.length + 1) true r with
      | .error e => .error e
      | .ok (ds, rest) =>
        match endSeq rest with
        | .error e => .error e
        | .ok rest' => .ok (ds, rest')
    else .error .invalidType

def hookFieldValue (acc : Option (List MemberDiff)) (key : String) (bs : Bytes) :
    Except DecodeErr (Option (List MemberDiff) × Bytes) :=
  if key = "diffs" then
    if acc.isSome then .error .duplicateField
    else match parseDiffsValue bs with
      | .error e => .error e
      | .ok (v, rest) => .ok (some v, rest)
  else .error .unknownVariant

/-- `MemberChangedHookMsg::deserialize` -/
def parseHookBody (bs : Bytes) : Except DecodeErr (List MemberDiff × Bytes) :=
  match skipWs bs with
  | [] => .error .eof
  | b :: r =>
    if b = 0x7b then
      match parseObj hookFieldValue 2 true none r with
      | .error e => .error e
      | .ok (acc, rest) =>
        match acc with
        | some ds =>
          match endMap rest with
          | .error e => .error e
          | .ok rest' => .ok (ds, rest')
        | none => .error .missingField
    else .error .invalidType

/-- `from_json::<ExecuteMsg>` of a hook contract, restricted to `MemberChangedHook(MemberChangedHookMsg)` -/
def decodeHook (bs : Bytes) : Except DecodeErr (List MemberDiff) :=
  decodeNewtypeVariant "member_changed_hook" parseHookBody bs

/-! ## `Cw20ExecuteMsg::Transfer` / `TransferFrom` read back

`from_json::<cw20::Cw20ExecuteMsg>` (`#[cw_serde]`: `deny_unknown_fields`, snake_case), restricted to one struct
variant.  serde-json-wasm's `StructVariantAccess::struct_variant` is `deserialize_struct` (= `deserialize_map`: `{`,
the derived field loop, `end_map`) followed by the `}` of the enum wrapper — the very code path of a newtype variant
that holds a struct, so `decodeNewtypeVariant` and `parseObj` are reused.  A variant name other than the modelled one
is `.unknownVariant` here (the real enum has eleven variants; the decoders answer "is it *this* call, and with which
arguments"). -/

/-- the arguments of `Cw20ExecuteMsg::Transfer` -/
structure Transfer where
  recipient : String
  amount : Nat
  deriving Repr, DecidableEq, Inhabited

/-- the arguments of `Cw20ExecuteMsg::TransferFrom` -/
structure TransferFrom where
  owner : String
  recipient : String
  amount : Nat
  deriving Repr, DecidableEq, Inhabited

/-- the `Option`s of the derived visitor of the variant `Transfer` -/
structure XferAcc where
  recipient : Option String := none
  amount : Option Nat := none
  deriving Repr, DecidableEq

def xferFieldValue (acc : XferAcc) (key : String) (bs : Bytes) : Except DecodeErr (XferAcc × Bytes) :=
  if key = "recipient" then
    if acc.recipient.isSome then .error .duplicateField
    else match parseStringValue bs with
      | .error e => .error e
      | .ok (v, rest) => .ok ({ acc with recipient := some v }, rest)
  else if key = "amount" then
    if acc.amount.isSome then .error .duplicateField
    else match parseAmountValue bs with
      | .error e => .error e
      | .ok (v, rest) => .ok ({ acc with amount := some v }, rest)
  else .error .unknownVariant

/-- the struct of the variant `Transfer`: `{`, the field loop, both fields required, `end_map` -/
def parseTransferBody (bs : Bytes) : Except DecodeErr (Transfer × Bytes) :=
  match skipWs bs with
  | [] => .error .eof
  | b :: r =>
    if b = 0x7b then
      match parseObj xferFieldValue 3 true {} r with
      | .error e => .error e
      | .ok (acc, rest) =>
        match acc.recipient, acc.amount with
        | some t, some a =>
          match endMap rest with
          | .error e => .error e
          | .ok rest' => .ok (⟨t, a⟩, rest')
        | _, _ => .error .missingField
    else .error .invalidType

/-- `from_json::<Cw20ExecuteMsg>`, restricted to `Transfer { recipient, amount }` -/
def decodeTransfer (bs : Bytes) : Except DecodeErr Transfer := decodeNewtypeVariant "transfer" parseTransferBody bs

/-- the `Option`s of the derived visitor of the variant `TransferFrom` -/
structure XferFromAcc where
  owner : Option String := none
  recipient : Option String := none
  amount : Option Nat := none
  deriving Repr, DecidableEq

def xferFromFieldValue (acc : XferFromAcc) (key : String) (bs : Bytes) : Except DecodeErr (XferFromAcc × Bytes) :=
  if key = "owner" then
    if acc.owner.isSome then .error .duplicateField
    else match parseStringValue bs with
      | .error e => .error e
      | .ok (v, rest) => .ok ({ acc with owner := some v }, rest)
  else if key = "recipient" then
    if acc.recipient.isSome then .error .duplicateField
    else match parseStringValue bs with
      | .error e => .error e
      | .ok (v, rest) => .ok ({ acc with recipient := some v }, rest)
  else if key = "amount" then
    if acc.amount.isSome then .error .duplicateField
    else match parseAmountValue bs with
      | .error e => .error e
      | .ok (v, rest) => .ok ({ acc with amount := some v }, rest)
  else .error .unknownVariant

/-- the struct of the variant `TransferFrom` -/
def parseTransferFromBody (bs : Bytes) : Except DecodeErr (TransferFrom × Bytes) :=
  match skipWs bs with
  | [] => .error .eof
  | b :: r =>
    if b = 0x7b then
      match parseObj xferFromFieldValue 4 true {} r with
      | .error e => .error e
      | .ok (acc, rest) =>
        match acc.owner, acc.recipient, acc.amount with
        | some o, some t, some a =>
          match endMap rest with
          | .error e => .error e
          | .ok rest' => .ok (⟨o, t, a⟩, rest')
        | _, _, _ => .error .missingField
    else .error .invalidType

/-- `from_json::<Cw20ExecuteMsg>`, restricted to `TransferFrom { owner, recipient, amount }` -/
def decodeTransferFrom (bs : Bytes) : Except DecodeErr TransferFrom :=
  decodeNewtypeVariant "transfer_from" parseTransferFromBody bs

/-- the struct of the variant `Transfer` as written: `{"recipient":…,"amount":…}` -/
def encodeTransferBody (t : Transfer) : Bytes :=
  0x7b :: (field keyRecipient (encStr t.recipient) ++ (0x2c :: (field keyAmount (amountTok t.amount) ++ [0x7d])))

/-- the struct of the variant `TransferFrom` as written -/
def encodeTransferFromBody (t : TransferFrom) : Bytes :=
  0x7b :: (field keyOwner (encStr t.owner) ++ (0x2c :: (field keyRecipient (encStr t.recipient) ++
    (0x2c :: (field keyAmount (amountTok t.amount) ++ [0x7d])))))

/-! ## The output types of the contract models on the wire -/

/-- cw20-base: the `Cw20ReceiveMsg` a notification carries.  The payload of the model is the text of the op line;
`Binary` holds its UTF-8 bytes. -/
def receiveOfCw20 (o : Cw20.Out) : Receive := ⟨o.sender, o.amount, strBytes o.payload⟩

/-- cw20-base: `WasmMsg::Execute.msg` of the only message the contract emits -/
def wireOfCw20 (o : Cw20.Out) : Bytes := encodeReceive (receiveOfCw20 o)

def diffOfGroup (d : Cw4Group.Diff) : MemberDiff := ⟨d.key, d.old, d.new⟩

/-- cw4-group: `WasmMsg::Execute.msg` of a hook message -/
def wireOfGroup (o : Cw4Group.Out) : Bytes := encodeHook (o.diffs.map diffOfGroup)

/-- cw4-stake: `WasmMsg::Execute.msg` of a message (`none`: a `BankMsg`, which carries no JSON) -/
def wireOfStake : Cw4Stake.Out → Option Bytes
  | .bank _ _ _ => none
  | .cw20Transfer _ to amount => some (encodeTransfer to amount)
  | .hook _ key old new => some (encodeHook [⟨key, old, new⟩])

/-- cw20-ics20: `WasmMsg::Execute.msg` of the payout / refund sub-message built by `send_amount(amount, recipient)`
(`contracts/cw20-ics20/src/ibc.rs`): `Amount::Cw20` → `Cw20ExecuteMsg::Transfer { recipient, amount }`;
`Amount::Native` → a `BankMsg::Send`, which carries no JSON (`none`) -/
def wireOfIcs20 (s : Ics20.SubMsg) : Option Bytes :=
  match s.denom with
  | .native _ => none
  | .cw20 _ => some (encodeTransfer s.to s.amount)

/-- cw3-flex-multisig: `WasmMsg::Execute.msg` of the deposit messages (`packages/cw3/src/deposit.rs`):
`get_take_deposit_messages` → `Cw20ExecuteMsg::TransferFrom { owner: depositor, recipient: contract, amount }`,
`get_return_deposit_message` → `Cw20ExecuteMsg::Transfer { recipient: depositor, amount }`; a native refund is a
`BankMsg`, proposal messages and group hooks are not deposit messages (`none`) -/
def wireOfFlex : Cw3Flex.Out → Option Bytes
  | .cw20Transfer _ to amt => some (encodeTransfer to amt)
  | .cw20TransferFrom _ owner to amt => some (encodeTransferFrom owner to amt)
  | _ => none

/-! ## The outcome keys of the line protocol (`raw=`, `hookraw=`, `xferraw=`, `subraw=`, `depraw=`: hex of the real `msg` bytes) -/

/-- `raw=` of the cw20 scenario: the bytes of every emitted message, `;`-separated -/
def rawOfCw20 (out : List Cw20.Out) : String := ";".intercalate (out.map fun o => toHex (wireOfCw20 o))

/-- `hookraw=` of the cw4-group scenarios: the bytes of every hook message, `+`-separated -/
def hookRawOfGroup (out : List Cw4Group.Out) : String := "+".intercalate (out.map fun o => toHex (wireOfGroup o))

/-- `hookraw=` of the cw4-stake scenario: the bytes of the hook messages, `+`-separated -/
def hookRawOfStake (out : List Cw4Stake.Out) : String :=
  "+".intercalate (out.filterMap fun o => match o with | .hook _ _ _ _ => (wireOfStake o).map toHex | _ => none)

/-- `xferraw=` of the cw4-stake scenario: the bytes of the cw20 `Transfer` messages (payout of a claim) -/
def xferRawOfStake (out : List Cw4Stake.Out) : String :=
  "+".intercalate (out.filterMap fun o => match o with | .cw20Transfer _ _ _ => (wireOfStake o).map toHex | _ => none)

/-- `subraw=` of the cw20-ics20 scenarios: the bytes of every cw20 `Transfer` sub-message of the outcome (the harness
joins them with `+`; the model's outcome has at most one sub-message); `-` when there is none (no sub-message, or a
native payout) -/
def subRawOfIcs20 (sub : Option Ics20.SubMsg) : String :=
  match sub.bind wireOfIcs20 with
  | none => "-"
  | some bs => toHex bs

/-- `depraw=` of the cw3-flex scenarios: the bytes of the cw20 deposit messages (`TransferFrom` on propose, `Transfer`
on refund) among the messages the handler returned, in order, `+`-separated -/
def depRawOfFlex (out : List Cw3Flex.Out) : String := "+".intercalate ((out.filterMap wireOfFlex).map toHex)

end CwPlus.MsgWire
