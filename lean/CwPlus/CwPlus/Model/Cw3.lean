import CwPlus.Base.Num
import CwPlus.Base.Expiration
/-!
# Model of the cw3 proposal library (`packages/cw3/src/proposal.rs`) and
`cw_utils::Threshold`

`Decimal` values are their 18-digit atomics (`Nat`, `1.0 = 10^18`).  `u64`
arithmetic panics on overflow/underflow (`overflow-checks = true`), so the
decision functions return `Res`.
-/
namespace CwPlus.Cw3
open CwPlus

def DEC_ONE : Nat := 1000000000000000000
def PRECISION_FACTOR : Nat := 1000000000

inductive Threshold where
  | absoluteCount (weight : Nat)
  | absolutePercentage (pct : Nat)
  | thresholdQuorum (threshold quorum : Nat)
  deriving Repr, DecidableEq, Inhabited

/-- `Threshold::validate(total_weight)` -/
def Threshold.validate (t : Threshold) (total : Nat) : Res Unit :=
  match t with
  | .absoluteCount w => do check (decide (w ≠ 0)) "zero_weight"; check (decide (w ≤ total)) "unreachable_weight"
  | .absolutePercentage p => check (decide (DEC_ONE / 2 ≤ p ∧ p ≤ DEC_ONE)) "invalid_threshold"
  | .thresholdQuorum t q => do
    check (decide (DEC_ONE / 2 ≤ t ∧ t ≤ DEC_ONE)) "invalid_threshold"
    check (decide (q ≠ 0)) "zero_quorum"
    check (decide (q ≤ DEC_ONE)) "unreachable_quorum"

inductive Status where
  | pending | open | rejected | passed | executed
  deriving Repr, DecidableEq, Inhabited

def Status.render : Status → String
  | .pending => "pending" | .open => "open" | .rejected => "rejected" | .passed => "passed" | .executed => "executed"

inductive Vote where
  | yes | no | abstain | veto
  deriving Repr, DecidableEq, Inhabited

def Vote.render : Vote → String
  | .yes => "yes" | .no => "no" | .abstain => "abstain" | .veto => "veto"

def Vote.parse : String → Option Vote
  | "yes" => some .yes | "no" => some .no | "abstain" => some .abstain | "veto" => some .veto | _ => none

structure Votes where
  yes : Nat
  no : Nat
  abstain : Nat
  veto : Nat
  deriving Repr, DecidableEq, Inhabited

/-- `Votes::yes(w)` -/
def Votes.ofYes (w : Nat) : Votes := ⟨w, 0, 0, 0⟩

/-- `Votes::total` — three `u64` additions, each may panic. -/
def Votes.total (v : Votes) : Res Nat := do
  let a ← addU64 v.yes v.no
  let b ← addU64 a v.abstain
  addU64 b v.veto

/-- `Votes::add_vote` — `+=` on `u64`. -/
def Votes.add (v : Votes) (k : Vote) (w : Nat) : Res Votes :=
  match k with
  | .yes => do let x ← addU64 v.yes w; pure { v with yes := x }
  | .no => do let x ← addU64 v.no w; pure { v with no := x }
  | .abstain => do let x ← addU64 v.abstain w; pure { v with abstain := x }
  | .veto => do let x ← addU64 v.veto w; pure { v with veto := x }

/-- `votes_needed(weight, percentage)`:
`applied = floor(10^9 * weight * atomics / 10^18)`, result `ceil(applied / 10^9) as u64`.
(For `percentage ≤ 1` the result is `≤ weight`, so the cast is lossless.) -/
def votesNeeded (weight pct : Nat) : Nat :=
  castU64 ((PRECISION_FACTOR * weight * pct / DEC_ONE + PRECISION_FACTOR - 1) / PRECISION_FACTOR)

/-- The decision-relevant part of `cw3::Proposal`. -/
structure Tally where
  status : Status
  threshold : Threshold
  totalWeight : Nat
  votes : Votes
  expires : Expiration
  deriving Repr, DecidableEq, Inhabited

/-- `Decimal::one() - p` panics when `p > 1`. -/
def oneMinus (p : Nat) : Res Nat :=
  if p ≤ DEC_ONE then .ok (DEC_ONE - p) else .error "decimal_underflow"

/-- `Proposal::is_passed` (with the `yes == 0 ⇒ false` guard of the D1 fix). -/
def isPassed (p : Tally) (blk : Block) : Res Bool :=
  if p.votes.yes = 0 then .ok false else
  match p.threshold with
  | .absoluteCount w => .ok (decide (w ≤ p.votes.yes))
  | .absolutePercentage pct => do
    let opinions ← subU64 p.totalWeight p.votes.abstain
    pure (decide (votesNeeded opinions pct ≤ p.votes.yes))
  | .thresholdQuorum t q => do
    let total ← p.votes.total
    if total < votesNeeded p.totalWeight q then pure false
    else if p.expires.isExpired blk then do
      let opinions ← subU64 total p.votes.abstain
      pure (decide (votesNeeded opinions t ≤ p.votes.yes))
    else do
      let opinions ← subU64 p.totalWeight p.votes.abstain
      pure (decide (votesNeeded opinions t ≤ p.votes.yes))

/-- `Proposal::is_rejected` -/
def isRejected (p : Tally) (blk : Block) : Res Bool :=
  match p.threshold with
  | .absoluteCount w => do
    let weight ← subU64 p.totalWeight w
    pure (decide (weight < p.votes.no))
  | .absolutePercentage pct => do
    let opinions ← subU64 p.totalWeight p.votes.abstain
    let c ← oneMinus pct
    pure (decide (votesNeeded opinions c < p.votes.no))
  | .thresholdQuorum t _ =>
    if p.expires.isExpired blk then do
      let total ← p.votes.total
      let opinions ← subU64 total p.votes.abstain
      let c ← oneMinus t
      pure (decide (votesNeeded opinions c < p.votes.no))
    else do
      let opinions ← subU64 p.totalWeight p.votes.abstain
      let c ← oneMinus t
      pure (decide (votesNeeded opinions c < p.votes.no))

/-- `Proposal::current_status`: `is_rejected` is evaluated only if the proposal is
stored Open and did not pass (Rust `&&` / `||` short-circuit). -/
def currentStatus (p : Tally) (blk : Block) : Res Status :=
  if p.status ≠ .open then .ok p.status else do
    let passed ← isPassed p blk
    if passed then pure .passed else do
      let rej ← isRejected p blk
      if rej || p.expires.isExpired blk then pure .rejected else pure .open

end CwPlus.Cw3
