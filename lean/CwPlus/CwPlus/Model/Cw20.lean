import CwPlus.Base.Num
import CwPlus.Base.Expiration
import CwPlus.Base.AMap
import CwPlus.Base.Paginate
/-!
# Model of `contracts/cw20-base`

Transcribed from `contract.rs` (`instantiate`, `create_accounts`, `validate_accounts`,
`execute_{transfer,burn,mint,send,update_minter}`, queries, `migrate`),
`allowances.rs` (all six handlers, `deduct_allowance`, `query_allowance`) and
`enumerable.rs` (three listings); marketing / logo: `verify_xml_preamble`, `verify_xml_logo`,
`verify_png_logo`, `verify_logo`, the marketing part of `instantiate`, `execute_update_marketing`,
`execute_upload_logo`, `query_marketing_info`, `query_download_logo` (`packages/cw20/src/logo.rs` types).
Byte strings (`Binary`) are lists of naturals (each < 256 when they come off the wire).

`addr_validate` is an external call: every address argument carries the result
of validation (`AddrArg.valid`).  A handler returns `Res (State × List Out)`;
`.error` aborts the transaction (the runtime rolls the storage back).
-/
namespace CwPlus.Cw20
open CwPlus

structure AddrArg where
  valid : Bool
  text : String
  deriving Repr, DecidableEq, Inhabited

structure Allowance where
  amount : Nat
  expires : Expiration
  deriving Repr, DecidableEq, Inhabited

/-- `AllowanceResponse::default()` -/
def Allowance.default : Allowance := ⟨0, .never⟩

structure Minter where
  minter : Addr
  cap : Option Nat
  deriving Repr, DecidableEq, Inhabited

/-- cw2 contract version as `(name, major, minor, patch[-pre])`.  `pre`: the text of a semver pre-release tag
(`0.13.0-rc.1`); such a version is below its release `0.13.0` and above everything below that (build metadata is not
modelled). -/
structure Version where
  name : String
  major : Nat
  minor : Nat
  patch : Nat
  pre : Option String := none
  deriving Repr, DecidableEq, Inhabited

/-- Comparison key of a release triple: semver precedence between a stored version (with or without a pre-release
tag) and a *release* is the lexicographic order of these keys. -/
def relKey (t : Nat × Nat × Nat) : Nat × Nat × Nat := (t.1, t.2.1, 2 * t.2.2 + 1)

/-- Comparison key of a stored version: a pre-release sorts directly below its release. -/
def Version.key (v : Version) : Nat × Nat × Nat :=
  (v.major, v.minor, 2 * v.patch + (if v.pre.isSome then 0 else 1))

def CONTRACT_NAME : String := "crates.io:cw20-base"
def CONTRACT_VERSION : Nat × Nat × Nat := (2, 0, 0)

/-- `Binary` -/
abbrev Bytes := List Nat

/-- `cw20::Logo` (`Embedded(Svg|Png)` flattened). -/
inductive Logo where
  | url (u : String)
  | svg (data : Bytes)
  | png (data : Bytes)
  deriving Repr, DecidableEq, Inhabited

/-- `cw20::LogoInfo` -/
inductive LogoInfo where
  | url (u : String)
  | embedded
  deriving Repr, DecidableEq, Inhabited

/-- `MarketingInfoResponse` (also the stored type of `MARKETING_INFO`). -/
structure MarketingInfo where
  project : Option String := none
  description : Option String := none
  marketing : Option Addr := none
  logo : Option LogoInfo := none
  deriving Repr, DecidableEq, Inhabited

structure State where
  supply : Nat
  mint : Option Minter
  balances : AMap Addr Nat
  /-- `ALLOWANCES`, keyed `(owner, spender)` -/
  allow : AMap (Addr × Addr) Allowance
  /-- `ALLOWANCES_SPENDER`, keyed `(spender, owner)` -/
  allowSp : AMap (Addr × Addr) Allowance
  version : Version
  /-- `MARKETING_INFO` (`Item`, may be absent) -/
  marketing : Option MarketingInfo := none
  /-- `LOGO` (`Item`, may be absent) -/
  logo : Option Logo := none
  deriving Repr, Inhabited

/-- The only message cw20-base ever emits: `Cw20ReceiveMsg` wrapped in a `WasmMsg::Execute`
to `contract` with no funds. -/
structure Out where
  contract : Addr
  sender : Addr
  amount : Nat
  payload : String
  deriving Repr, DecidableEq, Inhabited

inductive Msg where
  | transfer (to : AddrArg) (amt : Nat)
  | burn (amt : Nat)
  | send (contract : AddrArg) (amt : Nat) (payload : String)
  | mint (to : AddrArg) (amt : Nat)
  | updateMinter (new : Option AddrArg)
  | increaseAllowance (spender : AddrArg) (amt : Nat) (expires : Option Expiration)
  | decreaseAllowance (spender : AddrArg) (amt : Nat) (expires : Option Expiration)
  | transferFrom (owner to : AddrArg) (amt : Nat)
  | burnFrom (owner : AddrArg) (amt : Nat)
  | sendFrom (owner contract : AddrArg) (amt : Nat) (payload : String)
  | updateMarketing (project description : Option String) (marketing : Option AddrArg)
  | uploadLogo (logo : Logo)
  deriving Repr, Inhabited

/-- `InstantiateMarketingInfo` -/
structure InstMarketing where
  project : Option String := none
  description : Option String := none
  marketing : Option AddrArg := none
  logo : Option Logo := none
  deriving Repr, Inhabited

structure InstMsg where
  name : String
  symbol : String
  decimals : Nat
  initial : List (AddrArg × Nat)
  mint : Option (AddrArg × Option Nat)
  marketing : Option InstMarketing := none
  deriving Repr, Inhabited

def bal (s : State) (a : Addr) : Nat := (s.balances.get? a).getD 0

/-! ## instantiate -/

def validSymbolChar (c : Char) : Bool :=
  c == '-' || ('A' ≤ c && c ≤ 'Z') || ('a' ≤ c && c ≤ 'z')

/-- `InstantiateMsg::validate` -/
def validMeta (m : InstMsg) : Bool :=
  3 ≤ m.name.utf8ByteSize && m.name.utf8ByteSize ≤ 50 &&
  3 ≤ m.symbol.utf8ByteSize && m.symbol.utf8ByteSize ≤ 12 &&
  m.symbol.toList.all validSymbolChar && m.decimals ≤ 18

/-- `create_accounts` loop: validate, save, `total_supply += amount` (panics on overflow). -/
def createAccounts : List (AddrArg × Nat) → AMap Addr Nat → Nat → Res (AMap Addr Nat × Nat)
  | [], bals, total => .ok (bals, total)
  | (a, amt) :: rest, bals, total => do
    check a.valid "addr"
    let total' ← addU128 total amt
    createAccounts rest (bals.set a.text amt) total'

/-! ## logo validation -/

def LOGO_SIZE_CAP : Nat := 5 * 1024

/-- `b"<?xml "` -/
def XML_PREFIX : Bytes := [60, 63, 120, 109, 108, 32]
/-- `b"?>"` -/
def XML_POSTFIX : Bytes := [63, 62]
/-- `[0x89, b'P', b'N', b'G', 0x0d, 0x0a, 0x1a, 0x0a]` -/
def PNG_HEADER : Bytes := [137, 80, 78, 71, 13, 10, 26, 10]

/-- First item of `data.split_inclusive(|c| *c == b'>')`: everything up to and including the first
`>` (all of `data` when there is none).  On empty input the Rust iterator yields nothing; the empty
list returned here fails the prefix test just the same. -/
def firstSegment : Bytes → Bytes
  | [] => []
  | b :: rest => if b = 62 then [b] else b :: firstSegment rest

/-- `verify_xml_preamble` -/
def verifyXmlPreamble (data : Bytes) : Res Unit :=
  let p := firstSegment data
  check (!data.isEmpty && XML_PREFIX.isPrefixOf p && XML_POSTFIX.isSuffixOf p) "invalid_xml_preamble"

/-- `verify_xml_logo`: preamble first, then the size cap. -/
def verifyXmlLogo (data : Bytes) : Res Unit := do
  verifyXmlPreamble data
  check (decide (data.length ≤ LOGO_SIZE_CAP)) "logo_too_big"

/-- `verify_png_logo`: size cap first, then the eight header bytes. -/
def verifyPngLogo (data : Bytes) : Res Unit := do
  check (decide (data.length ≤ LOGO_SIZE_CAP)) "logo_too_big"
  check (PNG_HEADER.isPrefixOf data) "invalid_png_header"

/-- `verify_logo`: URLs are not validated at all. -/
def verifyLogo : Logo → Res Unit
  | .svg d => verifyXmlLogo d
  | .png d => verifyPngLogo d
  | .url _ => pure ()

def logoInfoOf : Logo → LogoInfo
  | .url u => .url u
  | _ => .embedded

/-- The marketing part of `instantiate`: verify and store the logo, validate the marketing address. -/
def instMarketing : Option InstMarketing → Res (Option MarketingInfo × Option Logo)
  | none => pure (none, none)
  | some mk => do
    (match mk.logo with | some l => verifyLogo l | none => pure () : Res Unit)
    let addr ← (match mk.marketing with
      | some a => do check a.valid "addr"; pure (some a.text)
      | none => pure none : Res (Option Addr))
    pure (some ⟨mk.project, mk.description, addr, mk.logo.map logoInfoOf⟩, mk.logo)

def instantiate (m : InstMsg) : Res State := do
  check (validMeta m) "meta"
  -- `validate_accounts`: sort + dedup on the address *strings*
  check (decide ((m.initial.map (·.1.text)).Nodup)) "duplicate"
  let (bals, total) ← createAccounts m.initial [] 0
  check (match m.mint with | some (_, some cap) => decide (total ≤ cap) | _ => true) "cap"
  let mint ← (match m.mint with
    | some (a, cap) => do check a.valid "addr"; pure (some (Minter.mk a.text cap))
    | none => pure none : Res (Option Minter))
  let (mk, logo) ← instMarketing m.marketing
  pure { supply := total, mint := mint, balances := bals, allow := [], allowSp := [],
         version := ⟨CONTRACT_NAME, 2, 0, 0, none⟩, marketing := mk, logo := logo }

/-! ## execute -/

/-- `BALANCES.update(addr, |b| b.unwrap_or_default().checked_sub(amount))` -/
def debit (b : AMap Addr Nat) (a : Addr) (amt : Nat) : Res (AMap Addr Nat) := do
  let v ← subU128 ((b.get? a).getD 0) amt
  pure (b.set a v)

/-- `BALANCES.update(addr, |b| b.unwrap_or_default() + amount)` — panics on overflow. -/
def credit (b : AMap Addr Nat) (a : Addr) (amt : Nat) : Res (AMap Addr Nat) := do
  let v ← addU128 ((b.get? a).getD 0) amt
  pure (b.set a v)

def execTransfer (s : State) (snd : Addr) (to : AddrArg) (amt : Nat) : Res (State × List Out) := do
  check to.valid "addr"
  let b1 ← debit s.balances snd amt
  let b2 ← credit b1 to.text amt
  pure ({ s with balances := b2 }, [])

def execBurn (s : State) (snd : Addr) (amt : Nat) : Res (State × List Out) := do
  let b1 ← debit s.balances snd amt
  let sup ← subU128 s.supply amt
  pure ({ s with balances := b1, supply := sup }, [])

def execSend (s : State) (snd : Addr) (c : AddrArg) (amt : Nat) (payload : String) : Res (State × List Out) := do
  check c.valid "addr"
  let b1 ← debit s.balances snd amt
  let b2 ← credit b1 c.text amt
  pure ({ s with balances := b2 }, [⟨c.text, snd, amt, payload⟩])

def execMint (s : State) (snd : Addr) (to : AddrArg) (amt : Nat) : Res (State × List Out) := do
  match s.mint with
  | none => .error "unauthorized"
  | some m =>
    check (decide (m.minter = snd)) "unauthorized"
    let sup ← addU128 s.supply amt
    check (match m.cap with | some c => decide (sup ≤ c) | none => true) "cap"
    check to.valid "addr"
    let b ← credit s.balances to.text amt
    pure ({ s with supply := sup, balances := b }, [])

def execUpdateMinter (s : State) (snd : Addr) (new : Option AddrArg) : Res (State × List Out) := do
  match s.mint with
  | none => .error "unauthorized"
  | some m =>
    check (decide (m.minter = snd)) "unauthorized"
    match new with
    | none => pure ({ s with mint := none }, [])
    | some a =>
      check a.valid "addr"
      pure ({ s with mint := some ⟨a.text, m.cap⟩ }, [])

/-- The closure `update_fn` of `execute_increase_allowance`, applied to one map. -/
def incFn (blk : Block) (amt : Nat) (expires : Option Expiration) (old : Option Allowance) : Res Allowance := do
  let v := old.getD Allowance.default
  let e ← (match expires with
    | some e => do check (!e.isExpired blk) "invalid_expiration"; pure e
    | none => pure v.expires : Res Expiration)
  let a ← addU128 v.amount amt
  pure ⟨a, e⟩

def execIncreaseAllowance (s : State) (blk : Block) (snd : Addr) (sp : AddrArg) (amt : Nat)
    (expires : Option Expiration) : Res (State × List Out) := do
  check sp.valid "addr"
  check (decide (sp.text ≠ snd)) "own_account"
  let a1 ← incFn blk amt expires (s.allow.get? (snd, sp.text))
  let a2 ← incFn blk amt expires (s.allowSp.get? (sp.text, snd))
  pure ({ s with allow := s.allow.set (snd, sp.text) a1, allowSp := s.allowSp.set (sp.text, snd) a2 }, [])

def execDecreaseAllowance (s : State) (blk : Block) (snd : Addr) (sp : AddrArg) (amt : Nat)
    (expires : Option Expiration) : Res (State × List Out) := do
  check sp.valid "addr"
  check (decide (sp.text ≠ snd)) "own_account"
  match s.allow.get? (snd, sp.text) with
  | none => .error "not_found"
  | some old =>
    if amt < old.amount then do
      let e ← (match expires with
        | some e => do check (!e.isExpired blk) "invalid_expiration"; pure e
        | none => pure old.expires : Res Expiration)
      let a : Allowance := ⟨old.amount - amt, e⟩
      pure ({ s with allow := s.allow.set (snd, sp.text) a, allowSp := s.allowSp.set (sp.text, snd) a }, [])
    else
      pure ({ s with allow := s.allow.erase (snd, sp.text), allowSp := s.allowSp.erase (sp.text, snd) }, [])

/-- The closure `update_fn` of `deduct_allowance`, applied to one map. -/
def deductFn (blk : Block) (amt : Nat) (cur : Option Allowance) : Res Allowance :=
  match cur with
  | none => .error "no_allowance"
  | some a => do
    check (!a.expires.isExpired blk) "expired"
    let v ← subU128 a.amount amt
    pure ⟨v, a.expires⟩

/-- `deduct_allowance`: both maps are updated, each from its own old value. -/
def deduct (s : State) (blk : Block) (owner spender : Addr) (amt : Nat) : Res State := do
  let a1 ← deductFn blk amt (s.allow.get? (owner, spender))
  let a2 ← deductFn blk amt (s.allowSp.get? (spender, owner))
  pure { s with allow := s.allow.set (owner, spender) a1, allowSp := s.allowSp.set (spender, owner) a2 }

def execTransferFrom (s : State) (blk : Block) (snd : Addr) (owner to : AddrArg) (amt : Nat) : Res (State × List Out) := do
  check to.valid "addr"
  check owner.valid "addr"
  let s1 ← deduct s blk owner.text snd amt
  let b1 ← debit s1.balances owner.text amt
  let b2 ← credit b1 to.text amt
  pure ({ s1 with balances := b2 }, [])

def execBurnFrom (s : State) (blk : Block) (snd : Addr) (owner : AddrArg) (amt : Nat) : Res (State × List Out) := do
  check owner.valid "addr"
  let s1 ← deduct s blk owner.text snd amt
  let b1 ← debit s1.balances owner.text amt
  let sup ← subU128 s1.supply amt
  pure ({ s1 with balances := b1, supply := sup }, [])

def execSendFrom (s : State) (blk : Block) (snd : Addr) (owner c : AddrArg) (amt : Nat) (payload : String) :
    Res (State × List Out) := do
  check c.valid "addr"
  check owner.valid "addr"
  let s1 ← deduct s blk owner.text snd amt
  let b1 ← debit s1.balances owner.text amt
  let b2 ← credit b1 c.text amt
  pure ({ s1 with balances := b2 }, [⟨c.text, snd, amt, payload⟩])

/-! ## marketing -/

/-- Rust `char::is_whitespace` (Unicode `White_Space`). -/
def isWhiteSpace (c : Char) : Bool :=
  let n := c.toNat
  (9 ≤ n && n ≤ 13) || n == 0x20 || n == 0x85 || n == 0xA0 || n == 0x1680 || (0x2000 ≤ n && n ≤ 0x200A) ||
  n == 0x2028 || n == 0x2029 || n == 0x202F || n == 0x205F || n == 0x3000

/-- `s.trim().is_empty()` -/
def isBlank (s : String) : Bool := s.toList.all isWhiteSpace

/-- One text field of `UpdateMarketing`: absent keeps, blank clears, anything else replaces. -/
def updText (old : Option String) : Option String → Option String
  | none => old
  | some t => if isBlank t then none else some t

/-- The `marketing` field of `UpdateMarketing`: blank clears, otherwise the (untrimmed) text is validated. -/
def updAddr (old : Option Addr) : Option AddrArg → Res (Option Addr)
  | none => pure old
  | some a => if isBlank a.text then pure none else do check a.valid "addr"; pure (some a.text)

/-- `execute_update_marketing`.  `Unauthorized` when there is no marketing info, no marketing address,
or the sender is not that address.  When every field ends up empty the item is removed. -/
def execUpdateMarketing (s : State) (snd : Addr) (project description : Option String)
    (marketing : Option AddrArg) : Res (State × List Out) :=
  match s.marketing with
  | none => .error "unauthorized"
  | some mi =>
    match mi.marketing with
    | none => .error "unauthorized"
    | some owner => do
      check (decide (owner = snd)) "unauthorized"
      let addr ← updAddr mi.marketing marketing
      let mi' : MarketingInfo :=
        ⟨updText mi.project project, updText mi.description description, addr, mi.logo⟩
      if mi'.project.isNone && mi'.description.isNone && mi'.marketing.isNone && mi'.logo.isNone then
        pure ({ s with marketing := none }, [])
      else
        pure ({ s with marketing := some mi' }, [])

/-- `execute_upload_logo`: the logo is verified before the sender is. -/
def execUploadLogo (s : State) (snd : Addr) (logo : Logo) : Res (State × List Out) :=
  match s.marketing with
  | none => .error "unauthorized"
  | some mi => do
    verifyLogo logo
    match mi.marketing with
    | none => .error "unauthorized"
    | some owner => do
      check (decide (owner = snd)) "unauthorized"
      pure ({ s with logo := some logo, marketing := some { mi with logo := some (logoInfoOf logo) } }, [])

def execute (s : State) (blk : Block) (snd : Addr) : Msg → Res (State × List Out)
  | .transfer to amt => execTransfer s snd to amt
  | .burn amt => execBurn s snd amt
  | .send c amt p => execSend s snd c amt p
  | .mint to amt => execMint s snd to amt
  | .updateMinter new => execUpdateMinter s snd new
  | .increaseAllowance sp amt e => execIncreaseAllowance s blk snd sp amt e
  | .decreaseAllowance sp amt e => execDecreaseAllowance s blk snd sp amt e
  | .transferFrom o to amt => execTransferFrom s blk snd o to amt
  | .burnFrom o amt => execBurnFrom s blk snd o amt
  | .sendFrom o c amt p => execSendFrom s blk snd o c amt p
  | .updateMarketing p d m => execUpdateMarketing s snd p d m
  | .uploadLogo l => execUploadLogo s snd l

/-- One transaction: commit on `ok`, roll back on error. -/
def step (s : State) (blk : Block) (snd : Addr) (m : Msg) : State :=
  match execute s blk snd m with
  | .ok (s', _) => s'
  | .error _ => s

/-! ## migrate -/

def verLt (a b : Nat × Nat × Nat) : Bool :=
  a.1 < b.1 || (a.1 == b.1 && (a.2.1 < b.2.1 || (a.2.1 == b.2.1 && a.2.2 < b.2.2)))

/-- `migrate`: `ensure_from_older_version`, then for a pre-0.14.0 state rebuild
`ALLOWANCES_SPENDER` from `ALLOWANCES` (ascending key order; later saves overwrite). -/
def migrate (s : State) : Res State := do
  check (decide (s.version.name = CONTRACT_NAME)) "wrong_contract"
  let stored := s.version.key
  check (!verLt (relKey CONTRACT_VERSION) stored) "newer"
  let v : Version := if verLt stored (relKey CONTRACT_VERSION) then ⟨CONTRACT_NAME, 2, 0, 0, none⟩ else s.version
  if verLt stored (relKey (0, 14, 0)) then
    let sp := s.allow.foldl (fun acc (p : (Addr × Addr) × Allowance) => acc.set (p.1.2, p.1.1) p.2) s.allowSp
    pure { s with version := v, allowSp := sp }
  else
    pure { s with version := v }

/-! ## queries -/

def queryBalance (s : State) (a : AddrArg) : Res Nat := do
  check a.valid "addr"
  pure (bal s a.text)

def queryAllowance (s : State) (owner spender : AddrArg) : Res Allowance := do
  check owner.valid "addr"
  check spender.valid "addr"
  pure ((s.allow.get? (owner.text, spender.text)).getD Allowance.default)

/-- `query_marketing_info`: the stored item or `MarketingInfoResponse::default()`. -/
def queryMarketingInfo (s : State) : MarketingInfo := s.marketing.getD {}

/-- `query_download_logo`: `(mime_type, data)`; fails when no logo is stored or it is a URL. -/
def queryDownloadLogo (s : State) : Res (String × Bytes) :=
  match s.logo with
  | none => .error "not_found"
  | some (.url _) => .error "not_found"
  | some (.svg d) => pure ("image/svg+xml", d)
  | some (.png d) => pure ("image/png", d)

open Paginate in
/-- `ALLOWANCES.prefix(owner)` as a map keyed by spender. -/
def ownerPrefix (s : State) (owner : Addr) : AMap Addr Allowance :=
  (s.allow.filter (fun p => p.1.1 = owner)).map (fun p => (p.1.2, p.2))

/-- `ALLOWANCES_SPENDER.prefix(spender)` as a map keyed by owner. -/
def spenderPrefix (s : State) (spender : Addr) : AMap Addr Allowance :=
  (s.allowSp.filter (fun p => p.1.1 = spender)).map (fun p => (p.1.2, p.2))

open Paginate in
def queryOwnerAllowances (s : State) (owner : AddrArg) (after : Option String) (limit : Option Nat) :
    Res (List (Addr × Allowance)) := do
  check owner.valid "addr"
  pure (page strLt (sortedEntries strLt (ownerPrefix s owner.text)) after limit)

open Paginate in
def querySpenderAllowances (s : State) (spender : AddrArg) (after : Option String) (limit : Option Nat) :
    Res (List (Addr × Allowance)) := do
  check spender.valid "addr"
  pure (page strLt (sortedEntries strLt (spenderPrefix s spender.text)) after limit)

open Paginate in
def queryAllAccounts (s : State) (after : Option String) (limit : Option Nat) : List Addr :=
  (page strLt (sortedEntries strLt s.balances) after limit).map (·.1)

end CwPlus.Cw20
