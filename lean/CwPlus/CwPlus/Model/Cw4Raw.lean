import CwPlus.Base.RawStore
import CwPlus.Model.Cw4Group
import CwPlus.Model.Cw4Stake
/-!
# The raw storage image of a cw4-group / cw4-stake state

`encode s` is the byte-level content of the contract's storage in model state `s` (an *instantiated*
contract: `instantiate` of both contracts writes `contract_info` (cw2), `admin`, the total — and cw4-stake its
`config` — before anything else can happen), entry by entry as cw-storage-plus 2.0.0 lays it out
(`Base/RawStore.lean`):

| Rust item | key | value |
|---|---|---|
| cw2 `CONTRACT` | `"contract_info"` | opaque |
| `ADMIN` | `"admin"` | opaque (`null` / `"<addr>"`) |
| `HOOKS` | `"cw4-hooks"` | opaque; see below |
| `TOTAL` | `"total"` | decimal digits |
| `TOTAL` changelog (cw4-group) | `len2 ++ "total__changelog" ++ be8(height)` | `{"old":…}` |
| `MEMBERS` | `len2 ++ "members" ++ addr` | decimal digits |
| `MEMBERS` changelog | `len2 ++ "members__changelog" ++ len2(addr) ++ addr ++ be8(height)` | `{"old":…}` |
| cw4-stake `CONFIG` | `"config"` | opaque |
| cw4-stake `STAKE` | `len2 ++ "stake" ++ addr` | `"<digits>"` |
| cw4-stake `CLAIMS` | `len2 ++ "claims" ++ addr` | opaque |

Nothing is stored under `members__checkpoints` / `total__checkpoints`: with `Strategy::EveryBlock` no code
path calls `add_checkpoint`.

**What the model state does not determine.**  `HOOKS` is not written by `instantiate`; the key appears with the
first accepted `AddHook` and stays (holding `[]`) when the last hook is removed.  The model keeps the list of
hooks only, so an absent key and a stored `[]` are the same model state: `encode` has the key exactly when
the list is non-empty, and the lock-step comparison (`rawkeys`) drops a stored `[]` on the implementation
side.  Likewise the drivers' `resync` rebuilds cw4-stake's `STAKE` / `CLAIMS` from the queries (which answer `0` /
`[]` for an absent key), so the comparison drops zero stakes and empty claim lists on both sides
(`Cw4Stake.encodeObserved`).  Every other key, and the value of every non-opaque entry, is compared exactly.

Core only: linked into the `driver` executable.
-/
namespace CwPlus.Cw4Raw
open CwPlus CwPlus.Snapshot CwPlus.RawStore

/-- Primary entries of `MEMBERS: SnapshotMap<&Addr, u64>`. -/
def encodeMembers (m : SnapMap Addr Nat) : Store :=
  m.cur.map fun p => (membersPrimaryKey p.1, Val.bytes (natDigits p.2))

/-- Changelog entries of `MEMBERS`: one per `(address, height)` with a recorded change. -/
def encodeMembersLog (m : SnapMap Addr Nat) : Store :=
  m.log.flatMap fun p => p.2.map fun e => (membersChangelogKey p.1 e.1, Val.bytes (changeSetJson e.2))

/-- Changelog entries of `TOTAL: SnapshotItem<u64>` (cw4-group). -/
def encodeTotalLog (log : Log Nat) : Store :=
  log.map fun e => (totalChangelogKey e.1, Val.bytes (changeSetJson e.2))

/-- `HOOKS` (see the file header). -/
def encodeHooks (hooks : List Addr) : Store :=
  if hooks.isEmpty then [] else [(itemKey NS.hooks, Val.opaque)]

end CwPlus.Cw4Raw

namespace CwPlus.Cw4Group
open CwPlus CwPlus.RawStore CwPlus.Cw4Raw

/-- The `TOTAL` primary entry: present iff the item holds a value. -/
def encodeTotal (s : State) : Store :=
  match s.total.cur with
  | some t => [(totalKey, Val.bytes (natDigits t))]
  | none => []

/-- The complete raw image of a cw4-group state. -/
def encode (s : State) : Store :=
  [(itemKey NS.contractInfo, Val.opaque), (itemKey NS.admin, Val.opaque)] ++ encodeHooks s.hooks ++
  encodeTotal s ++ encodeTotalLog s.total.log ++ encodeMembers s.members ++ encodeMembersLog s.members

end CwPlus.Cw4Group

namespace CwPlus.Cw4Stake
open CwPlus CwPlus.RawStore CwPlus.Cw4Raw

/-- Entries of `STAKE: Map<&Addr, Uint128>`. -/
def encodeStake (m : AMap Addr Nat) : Store :=
  m.map fun p => (stakeKey p.1, Val.bytes (quotedDigits p.2))

/-- Entries of `CLAIMS` (keys exact, values opaque). -/
def encodeClaims (m : AMap Addr (List Claim)) : Store :=
  m.map fun p => (claimsKey p.1, Val.opaque)

/-- The complete raw image of a cw4-stake state (`TOTAL` is a plain `Item<u64>`, written by `instantiate`). -/
def encode (s : State) : Store :=
  [(itemKey NS.contractInfo, Val.opaque), (itemKey NS.admin, Val.opaque), (itemKey NS.config, Val.opaque)] ++
  encodeHooks s.hooks ++ [(totalKey, Val.bytes (natDigits s.total))] ++
  encodeMembers s.members ++ encodeMembersLog s.members ++ encodeStake s.stake ++ encodeClaims s.claims

/-- What the lock-step comparison looks at: the image without zero stakes and empty claim lists (the
observation cannot tell them from absent keys; see the file header). -/
def encodeObserved (s : State) : Store :=
  encode { s with stake := s.stake.filter (fun p => p.2 ≠ 0), claims := s.claims.filter (fun p => !p.2.isEmpty) }

end CwPlus.Cw4Stake
