import CwPlus.Base.Num
import CwPlus.Base.Expiration
import CwPlus.Base.NativeBalance
/-!
# Model of `contracts/cw1-whitelist`

Transcribed from `contract.rs` (`instantiate`, `map_validate`, `execute_execute`,
`execute_freeze`, `execute_update_admins`, `can_execute`, `query_admin_list`,
`query_can_execute`) and `state.rs` (`AdminList::is_admin`, `can_modify`).

`CosmosMsg` is modelled by its kind, the data the cw1 contracts look at (the coins of
a bank send, the staking / distribution variant) and an opaque payload token that
stands for everything else in the message, so that "relayed unchanged" is a
checkable statement.

`addr_validate` is an external call: address arguments carry its result.
-/
namespace CwPlus.Cw1Whitelist
open CwPlus

structure AddrArg where
  valid : Bool
  text : String
  deriving Repr, DecidableEq, Inhabited

inductive StakingKind where
  | delegate | undelegate | redelegate
  deriving Repr, DecidableEq, Inhabited

/-- `DistributionMsg` variants: the two the permission flag covers, and every other one
(`FundCommunityPool`, future variants of the `#[non_exhaustive]` enum). -/
inductive DistrKind where
  | setWithdrawAddress | withdrawDelegatorReward | other
  deriving Repr, DecidableEq, Inhabited

inductive CosmosMsg where
  | bankSend (to : String) (coins : List Coin)
  | bankBurn (coins : List Coin)
  | staking (k : StakingKind) (payload : String)
  | distribution (k : DistrKind) (payload : String)
  | wasm (payload : String)
  | ibc (payload : String)
  | gov (payload : String)
  /-- `Custom`, `Stargate`, `Any` -/
  | other (payload : String)
  deriving Repr, DecidableEq, Inhabited

/-- `state.rs: AdminList` -/
structure AdminList where
  admins : List Addr
  mutable : Bool
  deriving Repr, DecidableEq, Inhabited

/-- `AdminList::is_admin`: `admins.iter().any(|a| a.as_ref() == addr)` -/
def AdminList.isAdmin (c : AdminList) (a : String) : Bool := c.admins.contains a

/-- `AdminList::can_modify` -/
def AdminList.canModify (c : AdminList) (a : String) : Bool := c.mutable && c.isAdmin a

/-- The whole contract state is `ADMIN_LIST`. -/
abbrev State := AdminList

/-- `map_validate`: `admins.iter().map(addr_validate).collect()`; the list is stored as given
(order and duplicates kept). -/
def mapValidate : List AddrArg → Res (List Addr)
  | [] => .ok []
  | a :: rest => do
    check a.valid "addr"
    let r ← mapValidate rest
    pure (a.text :: r)

structure InstMsg where
  admins : List AddrArg
  mutable : Bool
  deriving Repr, Inhabited

def instantiate (m : InstMsg) : Res State := do
  let a ← mapValidate m.admins
  pure ⟨a, m.mutable⟩

inductive Msg where
  | execute (msgs : List CosmosMsg)
  | freeze
  | updateAdmins (admins : List AddrArg)
  deriving Repr, Inhabited

def execExecute (s : State) (snd : Addr) (msgs : List CosmosMsg) : Res (State × List CosmosMsg) := do
  check (s.isAdmin snd) "unauthorized"
  pure (s, msgs)

def execFreeze (s : State) (snd : Addr) : Res (State × List CosmosMsg) := do
  check (s.canModify snd) "unauthorized"
  pure ({ s with mutable := false }, [])

def execUpdateAdmins (s : State) (snd : Addr) (admins : List AddrArg) : Res (State × List CosmosMsg) := do
  check (s.canModify snd) "unauthorized"
  let a ← mapValidate admins
  pure ({ s with admins := a }, [])

/-- The block is not looked at by cw1-whitelist; the parameter keeps the signature uniform with cw1-subkeys. -/
def execute (s : State) (_blk : Block) (snd : Addr) : Msg → Res (State × List CosmosMsg)
  | .execute msgs => execExecute s snd msgs
  | .freeze => execFreeze s snd
  | .updateAdmins admins => execUpdateAdmins s snd admins

/-- One transaction: commit on `ok`, roll back on error. -/
def step (s : State) (blk : Block) (snd : Addr) (m : Msg) : State :=
  match execute s blk snd m with
  | .ok (s', _) => s'
  | .error _ => s

/-- Messages relayed by one transaction (nothing on failure). -/
def relayed (s : State) (blk : Block) (snd : Addr) (m : Msg) : List CosmosMsg :=
  match execute s blk snd m with
  | .ok (_, out) => out
  | .error _ => []

/-! ## queries -/

def queryAdminList (s : State) : List Addr × Bool := (s.admins, s.mutable)

/-- `query_can_execute`: the sender string is compared with the admin list as it is (never validated),
the message is ignored. -/
def queryCanExecute (s : State) (_blk : Block) (sender : AddrArg) (_m : CosmosMsg) : Res Bool :=
  .ok (s.isAdmin sender.text)

end CwPlus.Cw1Whitelist
