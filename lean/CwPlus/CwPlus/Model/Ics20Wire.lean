import CwPlus.Model.Ics20
import CwPlus.Base.Json
/-!
# cw20-ics20 on the wire

The layer between the bytes that travel (`IbcMsg::SendPacket.data`, `IbcPacket.data`,
`IbcAcknowledgement.data`, `IbcReceiveResponse.acknowledgement`) and the parsed values the model of
`Model/Ics20.lean` works on.  Nothing of `Model/Ics20.lean` is changed: the functions here *compute* the
arguments (`PacketIn.amount = none` for undecodable data, `ackOk = none` for an undecodable
acknowledgement) that the handlers there take as given.
-/
namespace CwPlus.Ics20Wire
open CwPlus CwPlus.Ics20

/-- the storage / wire form of a denomination back to the structural one (`Amount::from_parts`:
`cw20:<addr>` is a cw20 token, everything else a native coin) -/
def parseDenom (s : String) : Denom :=
  if s.startsWith "cw20:" then .cw20 (s.drop 5).toString else .native s

/-- `parse_voucher_denom`: `splitn(3, '/')`; `none`: fewer than three parts -/
def splitVoucher (s : String) : Option (String × String × Denom) :=
  match s.splitOn "/" with
  | p :: c :: r :: rest => some (p, c, parseDenom ("/".intercalate (r :: rest)))
  | _ => none

/-- the `Ics20Packet` value `execute_transfer` serialises -/
def toWire (p : Packet) : Json.Packet := ⟨p.amount, p.denom.render, p.receiver, p.sender, p.memo⟩

/-- `IbcMsg::SendPacket.data` of an emitted packet -/
def packetData (p : Packet) : Json.Bytes := Json.encodePacketBytes (toWire p)

/-- An incoming `IbcPacket` as `do_ibc_packet_receive` sees it after `from_json(&packet.data)`. -/
def packetInOfData (srcPort srcChan destChan : String) (data : Json.Bytes) : PacketIn :=
  match Json.decodePacketBytes data with
  | .error _ =>
    { srcPort, srcChan, destChan, amount := none, voucher := none, receiver := "", sender := "" }
  | .ok p =>
    { srcPort, srcChan, destChan, amount := some p.amount, voucher := splitVoucher p.denom,
      receiver := p.receiver, sender := p.sender }

/-- `ibc_packet_receive` on the raw packet -/
def ibcPacketReceiveData (s : State) (srcPort srcChan destChan : String) (data : Json.Bytes) (tv : Bool) :
    State × Ack × Option SubMsg :=
  ibcPacketReceive s (packetInOfData srcPort srcChan destChan data) tv

/-- what `ibc_packet_ack` reads off `msg.acknowledgement.data`: `none` = `from_json::<Ics20Ack>` fails (the
entry point returns `Err`), `some true` = `Ics20Ack::Result(_)`, `some false` = `Ics20Ack::Error(_)` -/
def ackOkOfData (data : Json.Bytes) : Option Bool :=
  match Json.decodeAckBytes data with
  | .error _ => none
  | .ok .success => some true
  | .ok (.error _) => some false

/-- `ibc_packet_ack` on the raw acknowledgement -/
def ibcPacketAckData (s : State) (chan : String) (orig : Option Packet) (ackData : Json.Bytes) (tv : Bool) :
    Res (State × Option SubMsg) :=
  ibcPacketAck s chan orig (ackOkOfData ackData) tv

/-- The acknowledgement bytes the contract produces.  `ack_fail(err.to_string())`: the text of the error is
not modelled, so an error acknowledgement is only known up to its text. -/
def ackData : Ack → Option Json.Bytes
  | .success => some (Json.encodeAckBytes .success)
  | .error => none

/-- `{"error":"`: every error acknowledgement starts with these bytes -/
def errorAckPrefix : Json.Bytes := 0x7b :: 0x22 :: (Json.keyError ++ [0x22, 0x3a, 0x22])

/-- The model's class of acknowledgement bytes produced by the contract: well-formed `{"error":"…"}` bytes are an
error acknowledgement whatever the text, `ack_success()` is the success acknowledgement, anything else is neither. -/
def ackClass (data : Json.Bytes) : Option Ack :=
  match Json.decodeAckBytes data with
  | .ok (.error t) => if Json.encodeAckBytes (.error t) = data then some .error else none
  | .ok .success => if data = Json.encodeAckBytes .success then some .success else none
  | .error _ => none

end CwPlus.Ics20Wire
