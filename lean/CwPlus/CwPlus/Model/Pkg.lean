import CwPlus.Base.NativeBalance
import CwPlus.Base.Expiration
import CwPlus.Base.Json
/-!
# Library / helper code of `/repo/packages` and two contract helper files

Transcriptions of the code that no contract model reaches (docs/coverage.txt):

* `packages/cw20/src/coin.rs`    `Cw20Coin` / `Cw20CoinVerified`: `is_empty`, `Display`
* `packages/cw20/src/balance.rs` `Balance`: `default`, `From<Vec<Coin>>`, `From<Cw20CoinVerified>`, `is_empty`,
  `normalize` (= `cw_utils::NativeBalance::normalize`, *with* the `Uint128 +=` overflow panic), `Display`
* `packages/cw20/src/denom.rs`   `Denom::is_empty`, `Denom::default`, `UncheckedDenom::into_checked`
* `contracts/cw20-ics20/src/amount.rs` `Amount`: `from_parts`, `cw20`, `native`, `denom`, `amount`, `u64_amount`, `is_empty`
* the message builders `Cw20Contract::call`, `Cw3Contract::{encode_msg,proposal,vote,execute,close}`,
  `Cw4Contract::{add_hook,remove_hook,update_admin}`, `Cw4GroupContract::update_members`, `Cw1Contract::execute`:
  the emitted `WasmMsg::Execute` as a record (target address, payload bytes, funds); the payload is the exact
  output of `to_json_binary` (serde-json-wasm: fields in declaration order, no blanks, `Uint128`/`Timestamp` as
  strings, `u64` as numbers, `None` as `null`, `Binary` as padded standard base64, externally tagged snake_case enums)
* the query wrappers `Cw20Contract::{balance,meta,allowance,minter,has_allowance,is_mintable}`,
  `Cw4Contract::{hooks,admin}`: the smart query they send (target, payload bytes) and how they decode the
  answer; the answering contract is a parameter (`Reply`: what the querier returns for that request).

`Addr` is a plain string everywhere here: none of these functions validates an address, except
`into_checked` (the validity of its argument is an input, as for every `addr_validate` in the models).

Core Lean only (linked into the `driver` executable).
-/
namespace CwPlus.Pkg
open CwPlus CwPlus.Json

/-! ## `coin.rs` -/

/-- `Cw20Coin { address: String, amount }` and `Cw20CoinVerified { address: Addr, amount }`: the two types have the
same functions, letter for letter. -/
structure Cw20Coin where
  address : String
  amount : Nat
  deriving Repr, DecidableEq, Inhabited

/-- `self.amount == Uint128::zero()` -/
def Cw20Coin.isEmpty (c : Cw20Coin) : Bool := c.amount == 0

/-- `write!(f, "address: {}, amount: {}", self.address, self.amount)` -/
def Cw20Coin.display (c : Cw20Coin) : String :=
  "address: " ++ c.address ++ ", amount: " ++ toString c.amount

/-! ## `balance.rs` -/

inductive Balance where
  | native (b : NativeBalance)
  | cw20 (c : Cw20Coin)
  deriving Repr, DecidableEq, Inhabited

/-- `Balance::default()` -/
def Balance.default : Balance := .native []

/-- `From<Vec<Coin>>`: the vector is wrapped as it is (not normalised). -/
def Balance.ofCoins (cs : List Coin) : Balance := .native cs

/-- `From<Cw20CoinVerified>` -/
def Balance.ofCw20 (c : Cw20Coin) : Balance := .cw20 c

/-- `Balance::is_empty`: native = no coin with a non-zero amount (`NativeBalance::is_empty`), cw20 = amount zero. -/
def Balance.isEmpty : Balance → Bool
  | .native b => NativeBalance.isEmpty b
  | .cw20 c => c.isEmpty

/-- `Display for NativeBalance`: `write!(f, "{}{}", c.denom, c.amount)` for every coin, **no separator**. -/
def nativeDisplay : NativeBalance → String
  | [] => ""
  | (d, a) :: rest => d ++ toString a ++ nativeDisplay rest

def Balance.display : Balance → String
  | .native b => nativeDisplay b
  | .cw20 c => c.display

/-- The merge loop of `NativeBalance::normalize` on the sorted vector: the indices `i` with
`v[i].denom == v[i-1].denom` are visited from the right, `v[i-1].amount += v[i].amount` (panics on `Uint128`
overflow), `v.remove(i)`.  A run of equal denoms is therefore summed from its right end; the partial sums are
monotone, so the loop panics exactly when the sum of some run exceeds `u128::MAX`. -/
def mergeRight : NativeBalance → Res NativeBalance
  | [] => .ok []
  | c :: rest =>
    match mergeRight rest with
    | .error e => .error e
    | .ok [] => .ok [c]
    | .ok ((d2, a2) :: r) =>
      if c.1 = d2 then
        (if c.2 + a2 ≤ U128_MAX then .ok ((c.1, c.2 + a2) :: r) else .error "overflow.u128")
      else .ok (c :: (d2, a2) :: r)

/-- `NativeBalance::normalize`: drop zero coins, sort by denom, merge equal denoms. -/
def normalizeNative (b : NativeBalance) : Res NativeBalance :=
  mergeRight ((b.filter (fun c => c.2 ≠ 0)).mergeSort (fun x y => decide (x.1 ≤ y.1)))

/-- `Balance::normalize` (in place): a cw20 balance is left alone. -/
def Balance.normalize : Balance → Res Balance
  | .native b => (normalizeNative b).map .native
  | .cw20 c => .ok (.cw20 c)

/-! ## `denom.rs` -/

inductive Denom where
  | native (s : String)
  | cw20 (a : Addr)
  deriving Repr, DecidableEq, Inhabited

def Denom.default : Denom := .native ""

/-- `Denom::is_empty`: the string / the address text is empty. -/
def Denom.isEmpty : Denom → Bool
  | .native s => s == ""
  | .cw20 a => a == ""

inductive UncheckedDenom where
  | native (s : String)
  | cw20 (a : String)
  deriving Repr, DecidableEq, Inhabited

/-! ## `amount.rs` (cw20-ics20) -/

inductive Amount where
  | native (denom : String) (amount : Nat)
  | cw20 (address : String) (amount : Nat)
  deriving Repr, DecidableEq, Inhabited

/-- `denom.starts_with("cw20:")` and then `denom.get(5..).unwrap()` (the prefix is five ASCII bytes, so the slice
never fails): the rest of the string after the prefix. -/
def stripCw20 (s : String) : Option String :=
  match s.toList with
  | 'c' :: 'w' :: '2' :: '0' :: ':' :: rest => some (String.ofList rest)
  | _ => none

def Amount.fromParts (denom : String) (amount : Nat) : Amount :=
  match stripCw20 denom with
  | some address => .cw20 address amount
  | none => .native denom amount

/-- `Amount::denom`: `format!("cw20:{}", address)` for a cw20 coin. -/
def Amount.denom : Amount → String
  | .native d _ => d
  | .cw20 a _ => "cw20:" ++ a

def Amount.amount : Amount → Nat
  | .native _ a => a
  | .cw20 _ a => a

/-- `self.amount().u128().try_into()?` (`u128 → u64`) -/
def Amount.u64Amount (x : Amount) : Res Nat :=
  if x.amount ≤ U64_MAX then .ok x.amount else .error "u64.overflow"

def Amount.isEmpty (x : Amount) : Bool := x.amount == 0

/-! ## JSON building blocks (`to_json_binary` = serde-json-wasm `to_vec`) -/

/-- a `&'static str` key / tag / literal: ASCII, written without escaping -/
def lit (s : String) : Bytes := strBytes s

def jStr (s : String) : Bytes := encStr s
/-- `Uint128`, `Uint64`, `Timestamp`: the decimal digits as a JSON string -/
def jUint (n : Nat) : Bytes := amountTok n
/-- `u64`, `u32`: a JSON number -/
def jNum (n : Nat) : Bytes := decDigits n
def jNull : Bytes := lit "null"

def jOpt {α : Type} (f : α → Bytes) : Option α → Bytes
  | none => jNull
  | some a => f a

/-- comma-separated -/
def jJoin : List Bytes → Bytes
  | [] => []
  | [x] => x
  | x :: y :: rest => x ++ (0x2c :: jJoin (y :: rest))

def jArr (xs : List Bytes) : Bytes := 0x5b :: (jJoin xs ++ [0x5d])

/-- a struct / struct variant body: `{"k":v,…}` in the given (= declaration) order -/
def jObj (fs : List (String × Bytes)) : Bytes :=
  0x7b :: (jJoin (fs.map fun kv => field (lit kv.1) kv.2) ++ [0x7d])

/-- an externally tagged enum variant `{"tag":body}` -/
def jTag (tag : String) (body : Bytes) : Bytes := jObj [(tag, body)]

def b64Char (n : Nat) : UInt8 :=
  if n < 26 then (65 + n).toUInt8
  else if n < 52 then (97 + (n - 26)).toUInt8
  else if n < 62 then (48 + (n - 52)).toUInt8
  else if n = 62 then 43 else 47

/-- `Binary::to_base64`: standard alphabet, padded. -/
def b64 : Bytes → Bytes
  | a :: b :: c :: rest =>
    let n := a.toNat * 65536 + b.toNat * 256 + c.toNat
    b64Char (n / 262144) :: b64Char (n / 4096 % 64) :: b64Char (n / 64 % 64) :: b64Char (n % 64) :: b64 rest
  | [a, b] =>
    let n := a.toNat * 1024 + b.toNat * 4
    [b64Char (n / 4096), b64Char (n / 64 % 64), b64Char (n % 64), 61]
  | [a] =>
    let n := a.toNat * 16
    [b64Char (n / 64), b64Char (n % 64), 61, 61]
  | [] => []

/-- `Binary::serialize` -/
def jBin (d : Bytes) : Bytes := 0x22 :: (b64 d ++ [0x22])

/-- `Coin { denom, amount }` -/
def jCoin (c : Coin) : Bytes := jObj [("denom", jStr c.1), ("amount", jUint c.2)]

def jCoins (cs : List Coin) : Bytes := jArr (cs.map jCoin)

/-- `cw_utils::Expiration`: `{"at_height":n}` (number), `{"at_time":"ns"}` (`Timestamp(Uint64)`), `{"never":{}}` -/
def jExp : Expiration → Bytes
  | .atHeight h => jTag "at_height" (jNum h)
  | .atTime t => jTag "at_time" (jUint t)
  | .never => jTag "never" (jObj [])

/-! ## the emitted message -/

/-- `WasmMsg::Execute { contract_addr, msg, funds }` -/
structure WasmExec where
  contract : String
  msg : Bytes
  funds : List Coin
  deriving Repr, DecidableEq, Inhabited

/-- The `CosmosMsg`s that can be nested into a proposal / a cw1 `Execute` here: a bank send or a
`WasmMsg::Execute` (e.g. one built by another helper). -/
inductive CosmosMsg where
  | bankSend (to : String) (amount : List Coin)
  | wasmExecute (m : WasmExec)
  deriving Repr, DecidableEq, Inhabited

def jWasmExec (m : WasmExec) : Bytes :=
  jTag "wasm" (jTag "execute" (jObj [("contract_addr", jStr m.contract), ("msg", jBin m.msg), ("funds", jCoins m.funds)]))

def jCosmos : CosmosMsg → Bytes
  | .bankSend to amount => jTag "bank" (jTag "send" (jObj [("to_address", jStr to), ("amount", jCoins amount)]))
  | .wasmExecute m => jWasmExec m

/-- what every helper does: `WasmMsg::Execute { contract_addr: self.addr().into(), msg: to_json_binary(&msg)?, funds: vec![] }` -/
def wrap (contract : Addr) (payload : Bytes) : WasmExec := { contract := contract, msg := payload, funds := [] }

/-! ### cw20 -/

/-- `Cw20ExecuteMsg` without `UploadLogo` -/
inductive Cw20Msg where
  | transfer (recipient : String) (amount : Nat)
  | burn (amount : Nat)
  | send (contract : String) (amount : Nat) (msg : Bytes)
  | increaseAllowance (spender : String) (amount : Nat) (expires : Option Expiration)
  | decreaseAllowance (spender : String) (amount : Nat) (expires : Option Expiration)
  | transferFrom (owner recipient : String) (amount : Nat)
  | sendFrom (owner contract : String) (amount : Nat) (msg : Bytes)
  | burnFrom (owner : String) (amount : Nat)
  | mint (recipient : String) (amount : Nat)
  | updateMinter (newMinter : Option String)
  | updateMarketing (project description marketing : Option String)
  deriving Repr, DecidableEq, Inhabited

def Cw20Msg.json : Cw20Msg → Bytes
  | .transfer r a => jTag "transfer" (jObj [("recipient", jStr r), ("amount", jUint a)])
  | .burn a => jTag "burn" (jObj [("amount", jUint a)])
  | .send c a m => jTag "send" (jObj [("contract", jStr c), ("amount", jUint a), ("msg", jBin m)])
  | .increaseAllowance s a e =>
    jTag "increase_allowance" (jObj [("spender", jStr s), ("amount", jUint a), ("expires", jOpt jExp e)])
  | .decreaseAllowance s a e =>
    jTag "decrease_allowance" (jObj [("spender", jStr s), ("amount", jUint a), ("expires", jOpt jExp e)])
  | .transferFrom o r a => jTag "transfer_from" (jObj [("owner", jStr o), ("recipient", jStr r), ("amount", jUint a)])
  | .sendFrom o c a m =>
    jTag "send_from" (jObj [("owner", jStr o), ("contract", jStr c), ("amount", jUint a), ("msg", jBin m)])
  | .burnFrom o a => jTag "burn_from" (jObj [("owner", jStr o), ("amount", jUint a)])
  | .mint r a => jTag "mint" (jObj [("recipient", jStr r), ("amount", jUint a)])
  | .updateMinter m => jTag "update_minter" (jObj [("new_minter", jOpt jStr m)])
  | .updateMarketing p d m =>
    jTag "update_marketing" (jObj [("project", jOpt jStr p), ("description", jOpt jStr d), ("marketing", jOpt jStr m)])

/-- `Cw20Contract::call` -/
def cw20Call (contract : Addr) (m : Cw20Msg) : WasmExec := wrap contract m.json

/-! ### cw3 -/

inductive Vote where | yes | no | abstain | veto
  deriving Repr, DecidableEq, Inhabited

/-- `#[serde(rename_all = "lowercase")]` unit variants: a JSON string -/
def Vote.json : Vote → Bytes
  | .yes => jStr "yes" | .no => jStr "no" | .abstain => jStr "abstain" | .veto => jStr "veto"

inductive Cw3Msg where
  | propose (title description : String) (msgs : List CosmosMsg) (earliest latest : Option Expiration)
  | vote (proposalId : Nat) (v : Vote)
  | execute (proposalId : Nat)
  | close (proposalId : Nat)
  deriving Repr, DecidableEq, Inhabited

def Cw3Msg.json : Cw3Msg → Bytes
  | .propose t d ms e l =>
    jTag "propose" (jObj [("title", jStr t), ("description", jStr d), ("msgs", jArr (ms.map jCosmos)),
      ("earliest", jOpt jExp e), ("latest", jOpt jExp l)])
  | .vote id v => jTag "vote" (jObj [("proposal_id", jNum id), ("vote", v.json)])
  | .execute id => jTag "execute" (jObj [("proposal_id", jNum id)])
  | .close id => jTag "close" (jObj [("proposal_id", jNum id)])

/-- `Cw3Contract::encode_msg` -/
def cw3Encode (contract : Addr) (m : Cw3Msg) : WasmExec := wrap contract m.json

/-- `Cw3Contract::proposal` / `vote` / `execute` / `close` -/
def cw3Proposal (contract : Addr) (title description : String) (msgs : List CosmosMsg)
    (earliest latest : Option Expiration) : WasmExec :=
  cw3Encode contract (.propose title description msgs earliest latest)
def cw3Vote (contract : Addr) (id : Nat) (v : Vote) : WasmExec := cw3Encode contract (.vote id v)
def cw3Execute (contract : Addr) (id : Nat) : WasmExec := cw3Encode contract (.execute id)
def cw3Close (contract : Addr) (id : Nat) : WasmExec := cw3Encode contract (.close id)

/-! ### cw4, cw4-group -/

inductive Cw4Msg where
  | updateAdmin (admin : Option String)
  | addHook (addr : String)
  | removeHook (addr : String)
  deriving Repr, DecidableEq, Inhabited

def Cw4Msg.json : Cw4Msg → Bytes
  | .updateAdmin a => jTag "update_admin" (jObj [("admin", jOpt jStr a)])
  | .addHook a => jTag "add_hook" (jObj [("addr", jStr a)])
  | .removeHook a => jTag "remove_hook" (jObj [("addr", jStr a)])

/-- `Cw4Contract::{add_hook, remove_hook, update_admin}` (through the private `encode_msg`) -/
def cw4AddHook (contract : Addr) (a : String) : WasmExec := wrap contract (Cw4Msg.addHook a).json
def cw4RemoveHook (contract : Addr) (a : String) : WasmExec := wrap contract (Cw4Msg.removeHook a).json
def cw4UpdateAdmin (contract : Addr) (a : Option String) : WasmExec := wrap contract (Cw4Msg.updateAdmin a).json

/-- `cw4::Member { addr, weight: u64 }` -/
def jMember (m : String × Nat) : Bytes := jObj [("addr", jStr m.1), ("weight", jNum m.2)]

/-- `cw4_group::msg::ExecuteMsg::UpdateMembers { remove, add }` -/
def updateMembersJson (remove : List String) (add : List (String × Nat)) : Bytes :=
  jTag "update_members" (jObj [("remove", jArr (remove.map jStr)), ("add", jArr (add.map jMember))])

/-- `Cw4GroupContract::update_members` -/
def cw4gUpdateMembers (contract : Addr) (remove : List String) (add : List (String × Nat)) : WasmExec :=
  wrap contract (updateMembersJson remove add)

/-! ### cw1 -/

/-- `Cw1Contract::execute`: `Cw1ExecuteMsg::Execute { msgs }` -/
def cw1Execute (contract : Addr) (msgs : List CosmosMsg) : WasmExec :=
  wrap contract (jTag "execute" (jObj [("msgs", jArr (msgs.map jCosmos))]))

/-! ## query wrappers

`encode_smart_query` builds `WasmQuery::Smart { contract_addr: self.addr(), msg: to_json_binary(&msg)? }`;
`querier.query(&request)` returns the answering contract's bytes parsed into the response type, or an error
(no such contract, the contract's query failed, the bytes do not parse).

The answer is a parameter.  `Reply` lists the *typed* answers the tie generates (the harness serialises the
corresponding response struct with `to_json_binary`); what each wrapper makes of each of them is what serde does
with that JSON: the response types are `#[cw_serde]` structs (`deny_unknown_fields`) with pairwise different field
names, so an answer parses as exactly its own type; a struct does not parse from `null`, an `Option<struct>` does. -/

inductive Cw20Query where
  | balance (address : String)
  | tokenInfo
  | minter
  | allowance (owner spender : String)
  deriving Repr, DecidableEq, Inhabited

def Cw20Query.json : Cw20Query → Bytes
  | .balance a => jTag "balance" (jObj [("address", jStr a)])
  | .tokenInfo => jTag "token_info" (jObj [])
  | .minter => jTag "minter" (jObj [])
  | .allowance o s => jTag "allowance" (jObj [("owner", jStr o), ("spender", jStr s)])

inductive Cw4Query where
  | admin
  | hooks
  deriving Repr, DecidableEq, Inhabited

def Cw4Query.json : Cw4Query → Bytes
  | .admin => jTag "admin" (jObj [])
  | .hooks => jTag "hooks" (jObj [])

/-- the request a wrapper sends -/
structure SmartQuery where
  contract : String
  msg : Bytes
  deriving Repr, DecidableEq, Inhabited

/-- What the querier returns for the request. -/
inductive Reply where
  /-- system error (no such contract) or the contract's query returned an error -/
  | fail
  /-- the JSON value `null` (cw20-base's `Minter {}` answer when there is no minter) -/
  | null
  /-- `BalanceResponse { balance }` -/
  | balance (n : Nat)
  /-- `TokenInfoResponse { name, symbol, decimals, total_supply }` -/
  | tokenInfo (name symbol : String) (decimals : Nat) (totalSupply : Nat)
  /-- `AllowanceResponse { allowance, expires }` -/
  | allowance (n : Nat) (expires : Expiration)
  /-- `MinterResponse { minter, cap }` -/
  | minter (minter : String) (cap : Option Nat)
  /-- `cw4::HooksResponse { hooks }` -/
  | hooks (hs : List String)
  /-- `cw4::AdminResponse { admin }` -/
  | admin (a : Option String)
  deriving Repr, DecidableEq, Inhabited

/-- `Cw20Contract::balance`: the `balance` field of the answer. -/
def cw20Balance (r : Reply) : Res Nat :=
  match r with
  | .balance n => .ok n
  | _ => .error "parse"

/-- `Cw20Contract::meta` -/
def cw20Meta (r : Reply) : Res (String × String × Nat × Nat) :=
  match r with
  | .tokenInfo n s d t => .ok (n, s, d, t)
  | _ => .error "parse"

/-- `Cw20Contract::allowance` -/
def cw20Allowance (r : Reply) : Res (Nat × Expiration) :=
  match r with
  | .allowance n e => .ok (n, e)
  | _ => .error "parse"

/-- `Cw20Contract::minter`: `Option<MinterResponse>` — `null` is `Ok(None)`. -/
def cw20Minter (r : Reply) : Res (Option (String × Option Nat)) :=
  match r with
  | .null => .ok none
  | .minter m c => .ok (some (m, c))
  | _ => .error "parse"

/-- `has_allowance`: `self.allowance(querier, self.addr(), self.addr()).is_ok()` -/
def cw20HasAllowance (r : Reply) : Bool := (cw20Allowance r).isOk

/-- `is_mintable`: `self.minter(querier).is_ok()` — true also when the answer is "no minter". -/
def cw20IsMintable (r : Reply) : Bool := (cw20Minter r).isOk

/-- `Cw4Contract::hooks` -/
def cw4Hooks (r : Reply) : Res (List String) :=
  match r with
  | .hooks hs => .ok hs
  | _ => .error "parse"

/-- `Cw4Contract::admin`: `AdminResponse { admin: Option<String> }`.  The answer of another response type is an
error here as well, although the only field is optional: `#[cw_serde]` puts `deny_unknown_fields` on every type. -/
def cw4Admin (r : Reply) : Res (Option String) :=
  match r with
  | .admin a => .ok a
  | _ => .error "parse"

/-- the request each wrapper sends to the wrapped address -/
def cw20Request (contract : Addr) (q : Cw20Query) : SmartQuery := ⟨contract, q.json⟩
def cw4Request (contract : Addr) (q : Cw4Query) : SmartQuery := ⟨contract, q.json⟩

/-- `UncheckedDenom::into_checked`: a native denom is taken as it is (no check at all, also not of the empty
string); a cw20 address must validate and the contract there must answer `TokenInfo {}` with something that parses
as a `TokenInfoResponse`. -/
def UncheckedDenom.intoChecked (d : UncheckedDenom) (valid : Bool) (r : Reply) : Res Denom :=
  match d with
  | .native s => .ok (.native s)
  | .cw20 a => do
    check valid "addr.invalid"
    let _ ← cw20Meta r
    pure (.cw20 a)

end CwPlus.Pkg
