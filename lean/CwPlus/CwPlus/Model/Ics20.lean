import CwPlus.Base.Num
import CwPlus.Base.Expiration
import CwPlus.Base.AMap
import CwPlus.Base.Paginate
/-!
# Model of `contracts/cw20-ics20`

Transcribed from `contract.rs` (`instantiate`, `execute`, `execute_receive`, `execute_transfer`,
`execute_allow`, `migrate`, all seven queries), `ibc.rs` (`reply`, `ibc_channel_open/connect/close`,
`ibc_packet_receive`, `ibc_packet_ack`, `ibc_packet_timeout`, `check_gas_limit`, `send_amount`),
`state.rs` (`increase/reduce/undo_reduce_channel_balance`), `migrations.rs` (`v2::update_balances`),
`amount.rs`, cw-controllers `Admin`, cw-utils `one_coin` / `nonpayable` / `maybe_addr`.

Conventions
* `addr_validate` is an external call: address arguments carry the result (`AddrArg.valid`).
* Denominations are structural (`Denom.native d` / `Denom.cw20 addr`); the string form
  `"cw20:" ++ addr` exists only at the driver boundary (`Denom.render`).  Assumption: no native
  denomination starts with `cw20:`.
* The voucher denomination of an incoming packet is pre-split at the first two `/`
  (`splitn(3, '/')`): `none` = fewer than three parts.
* JSON decoding is not modelled here: undecodable packet data / acknowledgements / hook messages are `none`.
  (`Model/Ics20Wire.lean` computes these arguments from the bytes on the wire with `Base/Json.lean`.)
* `World` adds the runtime: bank and cw20 balances, dispatch of the (single) payout / refund
  sub-message with `reply_on_error` semantics as implemented by wasmd / cw-multi-test.
-/
namespace CwPlus.Ics20
open CwPlus

structure AddrArg where
  valid : Bool
  text : String
  deriving Repr, DecidableEq, Inhabited

inductive Denom where
  | native (d : String)
  | cw20 (addr : String)
  deriving Repr, DecidableEq, Inhabited

/-- `Amount::denom()` / the storage key. -/
def Denom.render : Denom → String
  | .native d => d
  | .cw20 a => "cw20:" ++ a

structure Config where
  defaultTimeout : Nat
  defaultGasLimit : Option Nat
  deriving Repr, DecidableEq, Inhabited

structure ChanState where
  outstanding : Nat
  totalSent : Nat
  deriving Repr, DecidableEq, Inhabited

structure ReplyArgs where
  channel : String
  denom : Denom
  amount : Nat
  deriving Repr, DecidableEq, Inhabited

/-- semver `major.minor.patch[-pre]` -/
structure Version where
  major : Nat
  minor : Nat
  patch : Nat
  pre : Option String := none
  deriving Repr, DecidableEq, Inhabited

/-- semver precedence (one pre-release identifier, compared as a string; a pre-release is
smaller than the release). -/
def Version.lt (a b : Version) : Bool :=
  if a.major ≠ b.major then decide (a.major < b.major)
  else if a.minor ≠ b.minor then decide (a.minor < b.minor)
  else if a.patch ≠ b.patch then decide (a.patch < b.patch)
  else match a.pre, b.pre with
    | some x, some y => decide (x < y)
    | some _, none => true
    | none, _ => false

def Version.le (a b : Version) : Bool := !(Version.lt b a)

def CONTRACT_NAME : String := "crates.io:cw20-ics20"
def CONTRACT_VERSION : Version := ⟨2, 0, 0, none⟩
def MIGRATE_MIN_VERSION : Version := ⟨0, 11, 1, none⟩
def MIGRATE_VERSION_2 : Version := ⟨0, 12, 0, some "alpha1"⟩
def MIGRATE_VERSION_3 : Version := ⟨0, 13, 0, none⟩
def ICS20_VERSION : String := "ics20-1"
def RECEIVE_ID : Nat := 1337
def ACK_FAILURE_ID : Nat := 0xfa17

abbrev ChanMap := AMap (String × Denom) ChanState

/-- `ChannelInfo`: our channel id, the counterparty endpoint, the connection. -/
structure ChanInfo where
  id : String
  cpPort : String
  cpChan : String
  connection : String
  deriving Repr, DecidableEq, Inhabited

/-- What `IbcChannel` says about the other side: `counterparty_endpoint` and `connection_id`. -/
structure Peer where
  port : String := "transfer"
  chan : String := ""
  connection : String := "connection-0"
  deriving Repr, DecidableEq, Inhabited

structure State where
  config : Config
  /-- `some gov`: the stored `CONFIG` JSON still has the pre-0.12 layout
  `{default_timeout, gov_contract}`.  The current `Config` type is `deny_unknown_fields`, so
  `CONFIG.load` of the current code fails on it; `v1::CONFIG.load` succeeds only on it. -/
  v1gov : Option Addr := none
  /-- cw-controllers `ADMIN` (`Item<Option<Addr>>`); the contract only ever stores `Some(addr)`,
  so `none` here means: the item is absent (pre-0.12 layout) and `ADMIN.get` fails. -/
  admin : Option Addr
  /-- `ALLOW_LIST`: token ↦ optional gas limit -/
  allow : AMap Addr (Option Nat)
  /-- keys of `CHANNEL_INFO` -/
  channels : List String
  /-- values of `CHANNEL_INFO` (same keys as `channels`: `Props/Ics20Channels.lean`, `reach_chanInfo`) -/
  chanInfo : AMap String ChanInfo := []
  /-- `CHANNEL_STATE[(channel, denom)]` -/
  chan : ChanMap
  replyArgs : Option ReplyArgs := none
  versionName : String
  version : Version
  deriving Repr, Inhabited

/-- `Ics20Packet` (the denomination as it appears in an outgoing packet). -/
structure Packet where
  amount : Nat
  denom : Denom
  receiver : String
  sender : String
  memo : Option String
  deriving Repr, DecidableEq, Inhabited

/-- `IbcMsg::SendPacket` -/
structure SendOut where
  channel : String
  packet : Packet
  /-- timeout timestamp in ns -/
  timeout : Nat
  deriving Repr, DecidableEq, Inhabited

/-- The payout / refund sub-message (`SubMsg::reply_on_error(send_amount(..), id)` with `gas_limit`):
`BankMsg::Send{to, [amount denom]}` or `WasmMsg::Execute{token, Transfer{to, amount}}`. -/
structure SubMsg where
  to : String
  amount : Nat
  denom : Denom
  gas : Option Nat
  replyId : Nat
  deriving Repr, DecidableEq, Inhabited

inductive Ack where
  | success
  | error
  deriving Repr, DecidableEq, Inhabited

structure TransferMsg where
  channel : String
  remote : String
  timeout : Option Nat
  memo : Option String
  deriving Repr, DecidableEq, Inhabited

structure InstMsg where
  defaultTimeout : Nat
  gov : AddrArg
  allowlist : List (AddrArg × Option Nat)
  defaultGasLimit : Option Nat
  deriving Repr, Inhabited

/-! ## state.rs -/

/-- `CONFIG.load` by the current code. -/
def loadConfig (s : State) : Res Config :=
  if s.v1gov.isSome then .error "config.v1layout" else .ok s.config

/-- `increase_channel_balance` (`+=` on `Uint128` panics on overflow). -/
def increaseBalance (m : ChanMap) (c : String) (d : Denom) (amt : Nat) : Res ChanMap := do
  let cs := (m.get? (c, d)).getD ⟨0, 0⟩
  let o ← addU128 cs.outstanding amt
  let t ← addU128 cs.totalSent amt
  pure (m.set (c, d) ⟨o, t⟩)

/-- `reduce_channel_balance`: error if the entry is missing or too small. -/
def reduceBalance (m : ChanMap) (c : String) (d : Denom) (amt : Nat) : Res ChanMap :=
  match m.get? (c, d) with
  | none => .error "insufficient.missing"
  | some cs => do
    let o ← subU128 cs.outstanding amt
    pure (m.set (c, d) ⟨o, cs.totalSent⟩)

/-- `undo_reduce_channel_balance`: adds back `outstanding` only. -/
def undoReduce (m : ChanMap) (c : String) (d : Denom) (amt : Nat) : Res ChanMap := do
  let cs := (m.get? (c, d)).getD ⟨0, 0⟩
  let o ← addU128 cs.outstanding amt
  pure (m.set (c, d) ⟨o, cs.totalSent⟩)

def outstanding (s : State) (c : String) (d : Denom) : Nat :=
  match s.chan.get? (c, d) with | some cs => cs.outstanding | none => 0

/-! ## instantiate -/

def addAllows : List (AddrArg × Option Nat) → AMap Addr (Option Nat) → Res (AMap Addr (Option Nat))
  | [], m => .ok m
  | (a, g) :: rest, m => do
    check a.valid "addr"
    addAllows rest (m.set a.text g)

def instantiate (m : InstMsg) : Res State := do
  check m.gov.valid "addr"
  let allow ← addAllows m.allowlist []
  pure { config := ⟨m.defaultTimeout, m.defaultGasLimit⟩, admin := some m.gov.text, allow := allow,
         channels := [], chan := [], versionName := CONTRACT_NAME, version := CONTRACT_VERSION }

/-! ## execute -/

/-- The cw20 gate of `execute_transfer`: a cw20 token needs an allow-list entry unless a default
gas limit is configured. -/
def transferGate (s : State) (cfg : Config) (d : Denom) : Bool :=
  match d with
  | .native _ => true
  | .cw20 a => cfg.defaultGasLimit.isSome || s.allow.contains a

/-- `execute_transfer`.  `sender` is the packet's sender; for cw20 the token address is
`info.sender` (always a valid address). -/
def execTransfer (s : State) (blk : Block) (msg : TransferMsg) (d : Denom) (amt : Nat) (sender : Addr) :
    Res (State × SendOut) := do
  check (amt != 0) "nofunds"
  check (s.channels.contains msg.channel) "nochannel"
  let cfg ← loadConfig s
  check (transferGate s cfg d) "notallowed"
  let delta := msg.timeout.getD cfg.defaultTimeout
  -- `Timestamp::plus_seconds`: `delta * 10^9` and the addition are overflow-checked u64 operations
  check (decide (delta * 1000000000 ≤ U64_MAX)) "overflow.timeout"
  let timeout ← addU64 blk.time (delta * 1000000000)
  -- `Ics20Packet::validate`
  check (decide (amt ≤ U64_MAX)) "amount.overflow"
  let chan ← increaseBalance s.chan msg.channel d amt
  pure ({ s with chan := chan }, ⟨msg.channel, ⟨amt, d, msg.remote, sender, msg.memo⟩, timeout⟩)

/-- `ExecuteMsg::Transfer` with `info.funds`: `one_coin`. -/
def execTransferNative (s : State) (blk : Block) (snd : Addr) (funds : List (String × Nat)) (msg : TransferMsg) :
    Res (State × SendOut) :=
  match funds with
  | [] => .error "nofunds"
  | [(d, amt)] => execTransfer s blk msg (.native d) amt snd
  | _ => .error "multipledenoms"

/-- `ExecuteMsg::Receive` (cw20 hook): `info.sender` is the token; `nonpayable`; the inner message
must decode; the wrapper's sender must validate. -/
def execReceive (s : State) (blk : Block) (token : Addr) (funds : List (String × Nat))
    (sender : AddrArg) (amt : Nat) (msg : Option TransferMsg) : Res (State × SendOut) := do
  check funds.isEmpty "nonpayable"
  match msg with
  | none => .error "decode"
  | some m => do
    check sender.valid "addr"
    execTransfer s blk m (.cw20 token) amt sender.text

/-- `execute_allow` -/
def execAllow (s : State) (snd : Addr) (contract : AddrArg) (gas : Option Nat) : Res State := do
  check (s.admin == some snd) "unauthorized"
  check contract.valid "addr"
  let okToSet : Bool :=
    match s.allow.get? contract.text, gas with
    | some none, some _ => false
    | some (some old), some new => !(decide (new < old))
    | _, _ => true
  check okToSet "cannotlowergas"
  pure { s with allow := s.allow.set contract.text gas }

/-- `ExecuteMsg::UpdateAdmin { admin }`: always `Some(admin)`, so the admin can never be cleared. -/
def execUpdateAdmin (s : State) (snd : Addr) (admin : AddrArg) : Res State := do
  check admin.valid "addr"
  check (s.admin == some snd) "unauthorized"
  pure { s with admin := some admin.text }

/-! ## IBC entry points -/

/-- `enforce_order_and_version` -/
def enforceOrderAndVersion (version : String) (counterparty : Option String) (ordered : Bool) : Res Unit := do
  check (version == ICS20_VERSION) "version"
  check (match counterparty with | some v => v == ICS20_VERSION | none => true) "version.counterparty"
  check (!ordered) "ordered"

/-- `ibc_channel_open` (`OpenInit`: no counterparty version, `OpenTry`: with one): checks only, no
write, answers `None` (= keep the proposed version). -/
def ibcChannelOpen (version : String) (counterparty : Option String) (ordered : Bool) : Res Unit :=
  enforceOrderAndVersion version counterparty ordered

/-- `ibc_channel_connect` (`OpenAck`: with counterparty version, `OpenConfirm`: without): the same
checks, then `CHANNEL_INFO.save(id, info)` (overwrites the info of a known id). -/
def ibcChannelConnect (s : State) (id version : String) (counterparty : Option String) (ordered : Bool)
    (peer : Peer := {}) : Res State := do
  enforceOrderAndVersion version counterparty ordered
  pure { s with channels := if s.channels.contains id then s.channels else s.channels ++ [id],
                chanInfo := s.chanInfo.set id ⟨id, peer.port, peer.chan, peer.connection⟩ }

/-- `ibc_channel_close` (`CloseInit` and `CloseConfirm` alike) is `unimplemented!()`: it panics, the
transaction is aborted, nothing is written. -/
def ibcChannelClose (_s : State) (_id : String) : Res State := .error "unimplemented"

/-- `check_gas_limit`; `tv` = result of `addr_validate` on the cw20 address. -/
def checkGasLimit (s : State) (d : Denom) (tv : Bool) : Res (Option Nat) :=
  match d with
  | .native _ => .ok none
  | .cw20 a => do
    check tv "addr"
    match s.allow.get? a with
    | some g => pure g
    | none => do
      let cfg ← loadConfig s
      match cfg.defaultGasLimit with
      | some base => pure (some base)
      | none => .error "notallowed"

/-- An incoming packet as the contract sees it. -/
structure PacketIn where
  srcPort : String
  srcChan : String
  destChan : String
  /-- `none`: `from_json(&packet.data)` fails -/
  amount : Option Nat
  /-- voucher denom split at the first two `/`; `none`: fewer than three parts -/
  voucher : Option (String × String × Denom)
  receiver : String
  sender : String
  deriving Repr, Inhabited

/-- `do_ibc_packet_receive` (order after the D5 fix: parse → voucher → gas limit → reduce →
REPLY_ARGS → sub-message). -/
def doReceive (s : State) (p : PacketIn) (tv : Bool) : Res (State × SubMsg) :=
  match p.amount with
  | none => .error "decode"
  | some amt =>
    match p.voucher with
    | none => .error "noforeigntokens"
    | some (port, ch, d) => do
      check (port == p.srcPort) "otherport"
      check (ch == p.srcChan) "otherchannel"
      let gas ← checkGasLimit s d tv
      let chan ← reduceBalance s.chan p.destChan d amt
      pure ({ s with chan := chan, replyArgs := some ⟨p.destChan, d, amt⟩ },
            ⟨p.receiver, amt, d, gas, RECEIVE_ID⟩)

/-- `ibc_packet_receive`: total.  Every error of `do_ibc_packet_receive` becomes an error
acknowledgement; all its fallible steps precede its first write, so the state is the old one. -/
def ibcPacketReceive (s : State) (p : PacketIn) (tv : Bool) : State × Ack × Option SubMsg :=
  match doReceive s p tv with
  | .ok (s', sub) => (s', .success, some sub)
  | .error _ => (s, .error, none)

/-- `reply`: `subOk = false` is `SubMsgResult::Err`.  Returns the new state and `data`. -/
def reply (s : State) (id : Nat) (subOk : Bool) : Res (State × Option Ack) :=
  if id = RECEIVE_ID then
    if subOk then .ok (s, none)
    else
      match s.replyArgs with
      | none => .error "replyargs"
      | some ra => do
        let chan ← undoReduce s.chan ra.channel ra.denom ra.amount
        pure ({ s with chan := chan }, some .error)
  else if id = ACK_FAILURE_ID then
    if subOk then .ok (s, none) else .ok (s, some .error)
  else .error "unknownreplyid"

/-- `on_packet_failure` (error acknowledgement or timeout of a packet we sent on `chan`). -/
def onPacketFailure (s : State) (chan : String) (data : Option Packet) (tv : Bool) : Res (State × SubMsg) :=
  match data with
  | none => .error "decode"
  | some p => do
    let ch ← reduceBalance s.chan chan p.denom p.amount
    let gas ← checkGasLimit s p.denom tv
    pure ({ s with chan := ch }, ⟨p.sender, p.amount, p.denom, gas, ACK_FAILURE_ID⟩)

/-- `ibc_packet_ack`; `ackOk = none`: the acknowledgement does not decode. -/
def ibcPacketAck (s : State) (chan : String) (data : Option Packet) (ackOk : Option Bool) (tv : Bool) :
    Res (State × Option SubMsg) :=
  match ackOk with
  | none => .error "decode.ack"
  | some true =>
    match data with
    | none => .error "decode"
    | some _ => .ok (s, none)
  | some false => do
    let (s', sub) ← onPacketFailure s chan data tv
    pure (s', some sub)

def ibcPacketTimeout (s : State) (chan : String) (data : Option Packet) (tv : Bool) : Res (State × Option SubMsg) := do
  let (s', sub) ← onPacketFailure s chan data tv
  pure (s', some sub)

/-! ## migrate -/

/-- `v2::update_denom` over the entries of the single channel; `hold d` is the contract's real
balance (`none`: the balance query fails). -/
def updateDenoms (ch : String) (hold : Denom → Option Nat) : List ((String × Denom) × ChanState) → ChanMap → Res ChanMap
  | [], m => .ok m
  | ((c, d), cs) :: rest, m =>
    if c = ch then
      match hold d with
      | none => .error "balancequery"
      | some bal => do
        let diff ← subU128 bal cs.outstanding
        if diff = 0 then updateDenoms ch hold rest m
        else do
          let o ← addU128 cs.outstanding diff
          let t ← addU128 cs.totalSent diff
          updateDenoms ch hold rest (m.set (c, d) ⟨o, t⟩)
    else updateDenoms ch hold rest m

/-- `v2::update_balances` -/
def updateBalances (s : State) (hold : Denom → Option Nat) : Res State :=
  match s.channels with
  | [] => .ok s
  | [ch] => do
    let m ← updateDenoms ch hold s.chan s.chan
    pure { s with chan := m }
  | _ => .error "multiplechannels"

def migrate (s : State) (gas : Option Nat) (hold : Denom → Option Nat) : Res State := do
  let stored := s.version
  check (s.versionName == CONTRACT_NAME) "cannotmigrate.name"
  check (!(Version.lt CONTRACT_VERSION stored)) "cannotmigrate.newer"
  check (!(Version.lt stored MIGRATE_MIN_VERSION)) "cannotmigrate.old"
  let s1 ← (if Version.le stored MIGRATE_VERSION_2 then
      match s.v1gov with
      | none => .error "v1config"
      | some g => pure { s with admin := some g, config := ⟨s.config.defaultTimeout, none⟩, v1gov := none }
    else pure s : Res State)
  let s2 ← (if Version.le stored MIGRATE_VERSION_3 then updateBalances s1 hold else pure s1 : Res State)
  let s3 ← (match gas with
    | some g => do
      let cfg ← loadConfig s2
      pure { s2 with config := ⟨cfg.defaultTimeout, some g⟩ }
    | none => pure s2 : Res State)
  pure (if Version.lt stored CONTRACT_VERSION then { s3 with version := CONTRACT_VERSION } else s3)

/-! ## queries -/

/-- `Channel{id}`: `(denom string, outstanding, total_sent)` in storage-key order. -/
def queryChannel (s : State) (id : String) : Res (List (String × ChanState)) := do
  check (s.channels.contains id) "nochannel"
  let entries : AMap String ChanState := (s.chan.filter (fun e => e.1.1 == id)).map (fun e => (e.1.2.render, e.2))
  pure (Paginate.sortedEntries Paginate.strLt entries)

/-- The `info` part of `Channel{id}` (`CHANNEL_INFO.load`). -/
def queryChannelInfo (s : State) (id : String) : Res ChanInfo :=
  match s.chanInfo.get? id with
  | some i => .ok i
  | none => .error "nochannel"

/-- `ListChannels{}`: every stored `ChannelInfo`, ascending by channel id (not paginated). -/
def queryListChannels (s : State) : List ChanInfo :=
  (Paginate.sortedEntries Paginate.strLt s.chanInfo).map (·.2)

/-- `Port{}`: forwards `IbcQuery::PortId` to the chain; `envPort` is the chain's answer
(`none`: the chain has no IBC port bound for this contract / the query fails). -/
def queryPort (envPort : Option String) : Res String :=
  match envPort with
  | some p => .ok p
  | none => .error "portquery"

/-- `Config{}`: `(default_timeout, default_gas_limit, gov_contract)` -/
def queryConfig (s : State) : Res (Nat × Option Nat × String) := do
  let cfg ← loadConfig s
  match s.admin with
  | none => .error "admin.absent"
  | some a => pure (cfg.defaultTimeout, cfg.defaultGasLimit, a)

/-- `Admin{}`: `ADMIN.get` is `Item::load`, which fails when the item is absent. -/
def queryAdmin (s : State) : Res Addr :=
  match s.admin with
  | none => .error "admin.absent"
  | some a => .ok a

/-- `Allowed{contract}`: `(is_allowed, gas_limit)` -/
def queryAllowed (s : State) (c : AddrArg) : Res (Bool × Option Nat) := do
  check c.valid "addr"
  match s.allow.get? c.text with
  | none => pure (false, none)
  | some g => pure (true, g)

/-- `ListAllowed{start_after, limit}`: the cursor goes through `maybe_addr` (must validate). -/
def queryListAllowed (s : State) (after : Option AddrArg) (limit : Option Nat) : Res (List (Addr × Option Nat)) := do
  check (match after with | some a => a.valid | none => true) "addr"
  pure (Paginate.page Paginate.strLt (Paginate.sortedEntries Paginate.strLt s.allow) (after.map (·.text)) limit)

/-! ## World: balances and sub-message dispatch -/

structure World where
  st : State
  /-- the ics20 contract's own address -/
  self : Addr
  /-- the cw20 contracts that exist -/
  tokens : List Addr
  /-- tokens whose `Transfer` fails while the fault flag is set (bank sends always can) -/
  faulty : List Addr
  /-- native balances, keyed `(account, denom)` -/
  bank : AMap (Addr × String) Nat
  /-- cw20 balances, keyed `(token, account)` -/
  tok : AMap (Addr × Addr) Nat
  deriving Repr, Inhabited

def World.bankBal (w : World) (a : Addr) (d : String) : Nat := (w.bank.get? (a, d)).getD 0
def World.tokBal (w : World) (t a : Addr) : Nat := (w.tok.get? (t, a)).getD 0

/-- The contract's real holdings of a denomination (`none`: not a token that exists). -/
def World.holdings (w : World) : Denom → Option Nat
  | .native d => some (w.bankBal w.self d)
  | .cw20 t => if w.tokens.contains t then some (w.tokBal t w.self) else none

/-- Move native coins (fails on insufficient funds). -/
def World.bankSend (w : World) (src dst : Addr) (d : String) (amt : Nat) : Option World :=
  if w.bankBal src d < amt then none
  else
    let b1 := w.bank.set (src, d) (w.bankBal src d - amt)
    let b2 := b1.set (dst, d) (((b1.get? (dst, d)).getD 0) + amt)
    some { w with bank := b2 }

/-- cw20 `Transfer` / the balance move of `Send` (fails on insufficient funds). -/
def World.tokSend (w : World) (t src dst : Addr) (amt : Nat) : Option World :=
  if w.tokBal t src < amt then none
  else
    let b1 := w.tok.set (t, src) (w.tokBal t src - amt)
    let b2 := b1.set (t, dst) (((b1.get? (t, dst)).getD 0) + amt)
    some { w with tok := b2 }

/-- Execute the payout / refund sub-message in its own transaction: `none` = the sub-call failed
and was rolled back.  `toValid`: the recipient validates; `fail`: the fault flag of the op. -/
def World.payout (w : World) (sub : SubMsg) (toValid fail : Bool) : Option World :=
  match sub.denom with
  | .native d =>
    -- the bank rejects empty amounts and (in the harness' bank) invalid recipients
    if fail || !toValid || sub.amount == 0 then none else w.bankSend w.self sub.to d sub.amount
  | .cw20 t =>
    if !w.tokens.contains t || (fail && w.faulty.contains t) || !toValid then none
    else w.tokSend t w.self sub.to sub.amount

/-- Dispatch of a handler response with at most one `reply_on_error` sub-message: a failing
sub-call is rolled back and `reply` runs; its `data` overrides the handler's. -/
def World.dispatch (w : World) (sub : Option SubMsg) (toValid fail : Bool) (data : Option Ack) :
    Res (World × Option Ack) :=
  match sub with
  | none => .ok (w, data)
  | some sm =>
    match w.payout sm toValid fail with
    | some w' => .ok (w', data)
    | none => do
      let (st', d) ← reply w.st sm.replyId false
      pure ({ w with st := st' }, d.or data)

inductive Op where
  | connect (id version : String) (counterparty : Option String) (ordered : Bool) (peer : Peer)
  /-- `ibc_channel_open` (handshake step before `connect`) -/
  | chanOpen (version : String) (counterparty : Option String) (ordered : Bool)
  /-- `ibc_channel_close` -/
  | chanClose (id : String)
  /-- user sends `ExecuteMsg::Transfer` with funds -/
  | transferNative (snd : Addr) (funds : List (String × Nat)) (msg : TransferMsg)
  /-- user calls `Send{contract: ics20, amount, msg}` on a real cw20 token -/
  | sendCw20 (snd token : Addr) (amt : Nat) (msg : Option TransferMsg)
  /-- an account that is not a token contract calls `ExecuteMsg::Receive` directly -/
  | hook (snd : Addr) (funds : List (String × Nat)) (sender : AddrArg) (amt : Nat) (msg : Option TransferMsg)
  | allow (snd : Addr) (contract : AddrArg) (gas : Option Nat)
  | updateAdmin (snd : Addr) (admin : AddrArg)
  | migrate (gas : Option Nat)
  | recv (p : PacketIn) (rcvValid tv fail : Bool)
  | ack (chan : String) (data : Option Packet) (ackOk : Option Bool) (sndValid tv fail : Bool)
  | timeout (chan : String) (data : Option Packet) (sndValid tv fail : Bool)
  deriving Repr, Inhabited

/-- What a transaction shows to the outside. -/
structure Outcome where
  ack : Option Ack := none
  sent : List SendOut := []
  sub : Option SubMsg := none
  deriving Repr, Inhabited

/-- One transaction against the world.  `.error` = the whole transaction is rolled back. -/
def World.exec (w : World) (blk : Block) : Op → Res (World × Outcome)
  | .connect id v cv ord peer => do
    let s ← ibcChannelConnect w.st id v cv ord peer
    pure ({ w with st := s }, {})
  | .chanOpen v cv ord => do
    ibcChannelOpen v cv ord
    pure (w, {})
  | .chanClose id => do
    let s ← ibcChannelClose w.st id
    pure ({ w with st := s }, {})
  | .transferNative snd funds msg => do
    -- the contract never sends a message to itself
    check (snd != w.self) "impossible.self"
    -- the runtime moves the funds first (fails if the sender cannot cover them)
    let w1 ← (match funds with
      | [(d, amt)] =>
        (if amt = 0 then .error "bank.empty" else
          match w.bankSend snd w.self d amt with
          | some w1 => .ok w1
          | none => .error "bank.insufficient")
      | [] => .ok w
      | _ => .error "multipledenoms" : Res World)
    let (s, out) ← execTransferNative w1.st blk snd funds msg
    pure ({ w1 with st := s }, { sent := [out] })
  | .sendCw20 snd token amt msg => do
    check (snd != w.self) "impossible.self"
    check (w.tokens.contains token) "notoken"
    let w1 ← (match w.tokSend token snd w.self amt with
      | some w1 => .ok w1
      | none => .error "cw20.insufficient" : Res World)
    let (s, out) ← execReceive w1.st blk token [] ⟨true, snd⟩ amt msg
    pure ({ w1 with st := s }, { sent := [out] })
  | .hook snd funds sender amt msg => do
    -- a real token contract calls `Receive` only from `Send` (after crediting the contract)
    check (!w.tokens.contains snd) "impossible.token"
    check funds.isEmpty "nonpayable"
    let (s, out) ← execReceive w.st blk snd funds sender amt msg
    pure ({ w with st := s }, { sent := [out] })
  | .allow snd c g => do
    let s ← execAllow w.st snd c g
    pure ({ w with st := s }, {})
  | .updateAdmin snd a => do
    let s ← execUpdateAdmin w.st snd a
    pure ({ w with st := s }, {})
  | .migrate g => do
    let s ← migrate w.st g w.holdings
    pure ({ w with st := s }, {})
  | .recv p rcvValid tv fail => do
    let (s, ack, sub) := ibcPacketReceive w.st p tv
    let (w', data) ← World.dispatch { w with st := s } sub rcvValid fail (some ack)
    pure (w', { ack := data, sub := sub })
  | .ack chan data ackOk sndValid tv fail => do
    let (s, sub) ← ibcPacketAck w.st chan data ackOk tv
    let (w', d) ← World.dispatch { w with st := s } sub sndValid fail none
    pure (w', { ack := d, sub := sub })
  | .timeout chan data sndValid tv fail => do
    let (s, sub) ← ibcPacketTimeout w.st chan data tv
    let (w', d) ← World.dispatch { w with st := s } sub sndValid fail none
    pure (w', { ack := d, sub := sub })

/-- Transaction semantics: a failed transaction leaves the world unchanged. -/
def World.step (w : World) (blk : Block) (op : Op) : World :=
  match w.exec blk op with
  | .ok (w', _) => w'
  | .error _ => w

end CwPlus.Ics20
