import CwPlus.Base.Num
import CwPlus.Base.Expiration
import CwPlus.Base.AMap
import CwPlus.Base.Paginate
import CwPlus.Model.Cw3
/-!
# What cw3-fixed-multisig and cw3-flex-multisig have in common

Proposal record (`cw3::Proposal`), ballots map, the proposal counter, the core of
`execute_propose / execute_vote / execute_execute / execute_close` and the proposal /
ballot queries.  Both contracts contain the same code for these parts
(`contracts/cw3-fixed-multisig/src/contract.rs`, `contracts/cw3-flex-multisig/src/contract.rs`);
they differ in

* where the voting weight of an address comes from (fixed: `VOTERS`; flex: the group,
  at the proposal's `start_height`) — parameter `weight : Proposal → Option Nat` of `vote`,
  parameter `weight : Nat` of `propose` (looked up by the caller),
* who may execute (fixed: anyone; flex: `Config::authorize`) — parameter `auth : Bool`,
* deposits (flex only) — field `deposit`, always `none` for cw3-fixed.

Proposal messages are a small message language with opaque payloads (`Msg`): what the
model needs to know about a `CosmosMsg` is only how the runtime dispatches it.
-/
namespace CwPlus.Cw3Core
open CwPlus CwPlus.Cw3

/-- An address argument together with the result of `addr_validate` (an external call). -/
structure AddrArg where
  valid : Bool
  text : String
  deriving Repr, DecidableEq, Inhabited

/-- The message language of proposals.
* `bank to amt denom` — `BankMsg::Send` of one coin from the multisig
* `selfExecute/selfClose/selfVote/selfPropose` — `WasmMsg::Execute` back into the multisig itself
  (`selfPropose` proposes an empty message list with title/description `self`)
* `other tag` — a call of an external contract that succeeds or fails depending on the
  environment at dispatch time (world flag `sinkOk`)
* `noContract tag` — a call of an address that holds no contract: always fails. -/
inductive Msg where
  | bank (to : Addr) (amt : Nat) (denom : String)
  | selfExecute (id : Nat)
  | selfClose (id : Nat)
  | selfVote (id : Nat) (vote : Vote)
  | selfPropose (latest : Option Expiration)
  | other (tag : String)
  | noContract (tag : String)
  deriving Repr, DecidableEq, Inhabited

/-- `cw3::Ballot` -/
structure Ballot where
  weight : Nat
  vote : Vote
  deriving Repr, DecidableEq, Inhabited

/-- `cw3::DepositInfo` (flex only; `denom` is the native denom or the cw20 address). -/
structure Deposit where
  amount : Nat
  denom : String
  cw20 : Bool
  refundFailed : Bool
  deriving Repr, DecidableEq, Inhabited

/-- `cw3::Proposal` -/
structure Proposal where
  title : String
  description : String
  startHeight : Nat
  expires : Expiration
  msgs : List Msg
  status : Status
  threshold : Threshold
  totalWeight : Nat
  votes : Votes
  proposer : Addr
  deposit : Option Deposit
  deriving Repr, DecidableEq, Inhabited

/-- The decision-relevant part, as consumed by the library model `Cw3`. -/
def Proposal.tally (p : Proposal) : Tally := ⟨p.status, p.threshold, p.totalWeight, p.votes, p.expires⟩

/-- `Proposal::current_status` -/
def Proposal.currentStatus (p : Proposal) (blk : Block) : Res Status := Cw3.currentStatus p.tally blk

/-- `PROPOSAL_COUNT`, `PROPOSALS`, `BALLOTS` (keyed `(id, voter)`, modelled as a nested map). -/
structure Core where
  count : Nat
  proposals : AMap Nat Proposal
  ballots : AMap Nat (AMap Addr Ballot)
  deriving Repr, DecidableEq, Inhabited

def Core.empty : Core := ⟨0, [], []⟩

/-- `BALLOTS.prefix(id)` -/
def ballotsOf (c : Core) (id : Nat) : AMap Addr Ballot := (c.ballots.get? id).getD []

/-- `BALLOTS.save((id, voter), ballot)` -/
def setBallot (c : Core) (id : Nat) (a : Addr) (b : Ballot) : AMap Nat (AMap Addr Ballot) :=
  c.ballots.set id ((ballotsOf c id).set a b)

/-- `PROPOSALS.load(id)` -/
def load (c : Core) (id : Nat) : Res Proposal :=
  match c.proposals.get? id with
  | some p => .ok p
  | none => .error "not_found"

@[simp] theorem load_ok {c : Core} {id : Nat} {p : Proposal} : load c id = .ok p ↔ c.proposals.get? id = some p := by
  unfold load; split <;> simp_all

@[simp high] theorem load_bind_ok {α : Type} {c : Core} {id : Nat} (f : Proposal → Res α) (r : α) :
    (load c id >>= f) = Except.ok r ↔ ∃ p, c.proposals.get? id = some p ∧ f p = Except.ok r := by
  unfold load; split <;> simp_all [bind, Except.bind]

/-- `Duration::after(block)` with the `u64` overflow checks of `block.height + h` and
`Timestamp::plus_seconds` (`secs * 10^9`, then `strict_add`). -/
def afterChecked (d : Duration) (blk : Block) : Res Expiration :=
  match d with
  | .height n => do let _ ← addU64 blk.height n; pure (d.after blk)
  | .time s => do
    check (decide (s * 1000000000 ≤ U64_MAX)) "overflow.u64"
    let _ ← addU64 blk.time (s * 1000000000)
    pure (d.after blk)

/-- The expiry rule of `execute_propose`: `latest.unwrap_or(max)`, clamped to `max` when it
is later (`partial_cmp = Some(Greater)`), refused when incomparable (`None`).  A `latest`
that already lies in the past is accepted. -/
def chooseExpiry (maxE : Expiration) (latest : Option Expiration) : Res Expiration :=
  match (latest.getD maxE).cmp? maxE with
  | some .gt => .ok maxE
  | some _ => .ok (latest.getD maxE)
  | none => .error "wrong_expiration"

/-- `Some(power) if power >= 1`, else `Unauthorized`. -/
def requireWeight (o : Option Nat) : Res Nat :=
  match o with
  | some w => if 1 ≤ w then .ok w else .error "unauthorized"
  | none => .error "unauthorized"

@[simp] theorem requireWeight_ok {o : Option Nat} {w : Nat} : requireWeight o = .ok w ↔ (o = some w ∧ 1 ≤ w) := by
  unfold requireWeight; split <;> (try split) <;> simp_all <;> omega

@[simp high] theorem requireWeight_bind_ok {α : Type} {o : Option Nat} (f : Nat → Res α) (r : α) :
    (requireWeight o >>= f) = Except.ok r ↔ ∃ w, o = some w ∧ 1 ≤ w ∧ f w = Except.ok r := by
  unfold requireWeight; split <;> (try split) <;> simp_all [bind, Except.bind]

def votable (s : Status) : Bool :=
  match s with
  | .open | .passed | .rejected => true
  | _ => false

/-- Core of `execute_propose`.  `weight` is the proposer's voting weight (the caller has
already checked that the sender is a member; the weight may be 0). -/
def propose (c : Core) (blk : Block) (snd : Addr) (weight : Nat) (thr : Threshold) (total : Nat)
    (maxP : Duration) (title description : String) (msgs : List Msg) (latest : Option Expiration)
    (deposit : Option Deposit) : Res (Core × Nat) := do
  let maxE ← afterChecked maxP blk
  let expires ← chooseExpiry maxE latest
  let p0 : Proposal :=
    { title, description, startHeight := blk.height, expires, msgs, status := .open, threshold := thr,
      totalWeight := total, votes := Votes.ofYes weight, proposer := snd, deposit }
  let st ← p0.currentStatus blk
  -- `next_id`: `PROPOSAL_COUNT.may_load()?.unwrap_or_default() + 1`
  let id ← addU64 c.count 1
  pure ({ count := id, proposals := c.proposals.set id { p0 with status := st },
          ballots := setBallot c id snd ⟨weight, .yes⟩ }, id)

/-- Core of `execute_vote`.  `weight p` is the sender's voting weight for proposal `p`. -/
def vote (c : Core) (blk : Block) (snd : Addr) (id : Nat) (v : Vote) (weight : Proposal → Option Nat) : Res Core := do
  let p ← load c id
  -- `[Open, Passed, Rejected].contains(&prop.status)`
  check (votable p.status) "not_open"
  check (!p.expires.isExpired blk) "expired"
  let w ← requireWeight (weight p)
  -- `BALLOTS.update`: `Some(_) => Err(AlreadyVoted)`
  check ((ballotsOf c id).get? snd).isNone "already_voted"
  let votes ← p.votes.add v w
  let p1 := { p with votes := votes }
  let st ← p1.currentStatus blk
  pure { c with proposals := c.proposals.set id { p1 with status := st }, ballots := setBallot c id snd ⟨w, v⟩ }

/-- Core of `execute_execute`: `update_status`, must be `Passed`, saved as `Executed` *before*
the messages are returned.  `auth` = the sender is authorised (cw3-fixed: always). -/
def execute (c : Core) (blk : Block) (id : Nat) (auth : Bool) : Res (Core × List Msg) := do
  let p ← load c id
  let st ← p.currentStatus blk
  check (decide (st = .passed)) "wrong_execute_status"
  check auth "unauthorized"
  pure ({ c with proposals := c.proposals.set id { p with status := .executed } }, p.msgs)

/-- Core of `execute_close`, checks in source order. -/
def close (c : Core) (blk : Block) (id : Nat) : Res Core := do
  let p ← load c id
  check (!(p.status = .executed || p.status = .rejected || p.status = .passed)) "wrong_close_status"
  let st ← p.currentStatus blk
  check (decide (st ≠ .passed)) "wrong_close_status"
  check (p.expires.isExpired blk) "not_expired"
  pure { c with proposals := c.proposals.set id { p with status := .rejected } }

/-! ## queries -/

/-- `cw3::ProposalResponse` (`threshold` = `ThresholdResponse`, which includes `total_weight`). -/
structure ProposalView where
  id : Nat
  title : String
  description : String
  msgs : List Msg
  status : Status
  expires : Expiration
  deposit : Option Deposit
  proposer : Addr
  threshold : Threshold
  totalWeight : Nat
  deriving Repr, DecidableEq, Inhabited

/-- `map_proposal` / `query_proposal`: the status is `current_status` at the query block. -/
def viewOf (blk : Block) (id : Nat) (p : Proposal) : Res ProposalView := do
  let st ← p.currentStatus blk
  pure { id, title := p.title, description := p.description, msgs := p.msgs, status := st, expires := p.expires,
         deposit := p.deposit, proposer := p.proposer, threshold := p.threshold, totalWeight := p.totalWeight }

def queryProposal (c : Core) (blk : Block) (id : Nat) : Res ProposalView := do
  let p ← load c id
  viewOf blk id p

/-- One page of a descending listing with an exclusive upper cursor:
`range(None, end exclusive, Descending).take(limit)`. -/
def pageDesc {κ ν : Type} (lt : κ → κ → Bool) (xs : List (κ × ν)) (before : Option κ) (limit : Option Nat) :
    List (κ × ν) :=
  ((match before with
    | none => xs
    | some c => xs.filter (fun x => lt x.1 c)).reverse).take (Paginate.effLimit limit)

def viewAll (blk : Block) : List (Nat × Proposal) → Res (List ProposalView)
  | [] => .ok []
  | (id, p) :: rest => do
    let v ← viewOf blk id p
    let vs ← viewAll blk rest
    pure (v :: vs)

open Paginate in
/-- `list_proposals` -/
def listProposals (c : Core) (blk : Block) (after : Option Nat) (limit : Option Nat) : Res (List ProposalView) :=
  viewAll blk (page natLt (sortedEntries natLt c.proposals) after limit)

open Paginate in
/-- `reverse_proposals` -/
def reverseProposals (c : Core) (blk : Block) (before : Option Nat) (limit : Option Nat) : Res (List ProposalView) :=
  viewAll blk (pageDesc natLt (sortedEntries natLt c.proposals) before limit)

/-- `query_vote` -/
def queryVote (c : Core) (id : Nat) (voter : AddrArg) : Res (Option Ballot) := do
  check voter.valid "addr"
  pure ((ballotsOf c id).get? voter.text)

open Paginate in
/-- `list_votes` (cw3-fixed: raw string cursor). -/
def listVotes (c : Core) (id : Nat) (after : Option String) (limit : Option Nat) : List (Addr × Ballot) :=
  page strLt (sortedEntries strLt (ballotsOf c id)) after limit

end CwPlus.Cw3Core
