import CwPlus.Base.Num
import CwPlus.Base.Expiration
import CwPlus.Base.AMap
import CwPlus.Base.Paginate
import CwPlus.Base.NativeBalance
import CwPlus.Model.Cw1Whitelist
/-!
# Model of `contracts/cw1-subkeys`

Transcribed from `contract.rs` (`instantiate`, `execute_execute`,
`check_staking_permissions`, `check_distribution_permissions`,
`execute_increase_allowance`, `execute_decrease_allowance`, `execute_set_permissions`,
`query_allowance`, `query_permissions`, `can_execute`, `query_all_allowances`,
`query_all_permissions`, `migrate` with the cw2 `ContractVersion` item); `Freeze`, `UpdateAdmins`, `AdminList` are the cw1-whitelist
functions on the embedded `ADMIN_LIST`.

State: `ADMIN_LIST` (whitelist config), `ALLOWANCES : Map<&Addr, Allowance>`,
`PERMISSIONS : Map<&Addr, Permissions>`.
-/
namespace CwPlus.Cw1Subkeys
open CwPlus
open CwPlus.Cw1Whitelist (AddrArg CosmosMsg StakingKind DistrKind AdminList mapValidate)

structure Permissions where
  delegate : Bool
  redelegate : Bool
  undelegate : Bool
  withdraw : Bool
  deriving Repr, DecidableEq, Inhabited

/-- `Permissions::default()` -/
def Permissions.default : Permissions := ⟨false, false, false, false⟩

structure Allowance where
  balance : NativeBalance
  expires : Expiration
  deriving Repr, DecidableEq, Inhabited

/-- `Allowance::default()`: empty balance, `Expiration::Never` -/
def Allowance.default : Allowance := ⟨[], .never⟩

/-- semver `major.minor.patch[-pre]` (one pre-release identifier, compared as a string; a
pre-release is smaller than its release; build metadata is not modelled). -/
structure SemVer where
  major : Nat
  minor : Nat
  patch : Nat
  pre : Option String := none
  deriving Repr, DecidableEq, Inhabited

/-- semver precedence -/
def SemVer.lt (a b : SemVer) : Bool :=
  if a.major ≠ b.major then decide (a.major < b.major)
  else if a.minor ≠ b.minor then decide (a.minor < b.minor)
  else if a.patch ≠ b.patch then decide (a.patch < b.patch)
  else match a.pre, b.pre with
    | some x, some y => decide (x < y)
    | some _, none => true
    | none, _ => false

def CONTRACT_NAME : String := "crates.io:cw1-subkeys"
def CONTRACT_VERSION : SemVer := ⟨2, 0, 0, none⟩

/-- cw2 `ContractVersion`; `version = none`: the stored string is not a semantic version. -/
structure Cw2 where
  contract : String
  version : Option SemVer
  deriving Repr, DecidableEq, Inhabited

structure State where
  cfg : AdminList
  allowances : AMap Addr Allowance
  permissions : AMap Addr Permissions
  /-- the cw2 item `contract_info` (`none`: absent) -/
  cw2 : Option Cw2 := some ⟨CONTRACT_NAME, some CONTRACT_VERSION⟩
  deriving Repr, DecidableEq, Inhabited

abbrev InstMsg := Cw1Whitelist.InstMsg

/-- `instantiate` = whitelist instantiate, then `set_contract_version(CONTRACT_NAME, CONTRACT_VERSION)`. -/
def instantiate (m : InstMsg) : Res State := do
  let c ← Cw1Whitelist.instantiate m
  pure { cfg := c, allowances := [], permissions := [], cw2 := some ⟨CONTRACT_NAME, some CONTRACT_VERSION⟩ }

/-- `migrate`: fails when the cw2 item is absent or its version does not parse; stores the current
name and version when the stored version is strictly older; otherwise changes nothing — in
particular the stored contract *name* is never looked at, and a newer stored version is accepted
silently. -/
def migrate (s : State) : Res State :=
  match s.cw2 with
  | none => .error "cw2.notfound"
  | some c =>
    match c.version with
    | none => .error "semver"
    | some v =>
      if SemVer.lt v CONTRACT_VERSION then pure { s with cw2 := some ⟨CONTRACT_NAME, some CONTRACT_VERSION⟩ }
      else pure s

inductive Msg where
  | execute (msgs : List CosmosMsg)
  | freeze
  | updateAdmins (admins : List AddrArg)
  | increaseAllowance (spender : AddrArg) (amount : Coin) (expires : Option Expiration)
  | decreaseAllowance (spender : AddrArg) (amount : Coin) (expires : Option Expiration)
  | setPermissions (spender : AddrArg) (perm : Permissions)
  deriving Repr, Inhabited

/-- `check_staking_permissions` -/
def checkStaking (k : StakingKind) (p : Permissions) : Res Unit :=
  match k with
  | .delegate => check p.delegate "perm.delegate"
  | .undelegate => check p.undelegate "perm.undelegate"
  | .redelegate => check p.redelegate "perm.redelegate"

/-- `check_distribution_permissions` -/
def checkDistribution (k : DistrKind) (p : Permissions) : Res Unit :=
  match k with
  | .setWithdrawAddress => check p.withdraw "perm.withdraw_addr"
  | .withdrawDelegatorReward => check p.withdraw "perm.withdraw"
  | .other => .error "unsupported"

/-- Body of the `for msg in &msgs` loop of `execute_execute` for a non-admin sender: one message,
with the storage (only `ALLOWANCES[snd]` is ever written) threaded through. -/
def checkMsg (s : State) (blk : Block) (snd : Addr) (m : CosmosMsg) : Res State :=
  match m with
  | .staking k _ =>
    match s.permissions.get? snd with
    | none => .error "not_allowed"
    | some p => do checkStaking k p; pure s
  | .distribution k _ =>
    match s.permissions.get? snd with
    | none => .error "not_allowed"
    | some p => do checkDistribution k p; pure s
  | .bankSend _ coins =>
    match s.allowances.get? snd with
    | none => .error "no_allowance"
    | some a => do
      check (!a.expires.isExpired blk) "no_allowance.expired"
      let b ← a.balance.subCoins coins
      pure { s with allowances := s.allowances.set snd { a with balance := b } }
  | _ => .error "rejected"

def checkMsgs (s : State) (blk : Block) (snd : Addr) : List CosmosMsg → Res State
  | [] => .ok s
  | m :: ms => do
    let s' ← checkMsg s blk snd m
    checkMsgs s' blk snd ms

def execExecute (s : State) (blk : Block) (snd : Addr) (msgs : List CosmosMsg) : Res (State × List CosmosMsg) :=
  if s.cfg.isAdmin snd then .ok (s, msgs)
  else do
    let s' ← checkMsgs s blk snd msgs
    pure (s', msgs)

def execFreeze (s : State) (snd : Addr) : Res (State × List CosmosMsg) := do
  let (c, out) ← Cw1Whitelist.execFreeze s.cfg snd
  pure ({ s with cfg := c }, out)

def execUpdateAdmins (s : State) (snd : Addr) (admins : List AddrArg) : Res (State × List CosmosMsg) := do
  let (c, out) ← Cw1Whitelist.execUpdateAdmins s.cfg snd admins
  pure ({ s with cfg := c }, out)

/-- The closure passed to `ALLOWANCES.update` by `execute_increase_allowance`. -/
def incFn (blk : Block) (amount : Coin) (expires : Option Expiration) (old : Option Allowance) : Res Allowance := do
  let prevExpires : Expiration := match old with | some a => a.expires | none => .never
  let base : Allowance := match old with
    | some a => if a.expires.isExpired blk then Allowance.default else a
    | none => Allowance.default
  let exp ← (match expires with
    | some e => do check (!e.isExpired blk) "setting_expired"; pure e
    | none => do check (!prevExpires.isExpired blk) "setting_expired.prev"; pure base.expires : Res Expiration)
  let b ← base.balance.add amount
  pure ⟨b, exp⟩

def execIncreaseAllowance (s : State) (blk : Block) (snd : Addr) (sp : AddrArg) (amount : Coin)
    (expires : Option Expiration) : Res (State × List CosmosMsg) := do
  check (s.cfg.isAdmin snd) "unauthorized"
  check sp.valid "addr"
  check (decide (sp.text ≠ snd)) "own_account"
  let a ← incFn blk amount expires (s.allowances.get? sp.text)
  pure ({ s with allowances := s.allowances.set sp.text a }, [])

/-- The closure passed to `ALLOWANCES.update` by `execute_decrease_allowance`. -/
def decFn (blk : Block) (amount : Coin) (expires : Option Expiration) (old : Option Allowance) : Res Allowance :=
  match old with
  | none => .error "no_allowance"
  | some a => do
    check (!a.expires.isExpired blk) "no_allowance.expired"
    let exp ← (match expires with
      | some e => do check (!e.isExpired blk) "setting_expired"; pure e
      | none => pure a.expires : Res Expiration)
    let b ← a.balance.subSaturating amount
    pure ⟨b, exp⟩

def execDecreaseAllowance (s : State) (blk : Block) (snd : Addr) (sp : AddrArg) (amount : Coin)
    (expires : Option Expiration) : Res (State × List CosmosMsg) := do
  check (s.cfg.isAdmin snd) "unauthorized"
  check sp.valid "addr"
  check (decide (sp.text ≠ snd)) "own_account"
  let a ← decFn blk amount expires (s.allowances.get? sp.text)
  if a.balance.isEmpty then
    pure ({ s with allowances := s.allowances.erase sp.text }, [])
  else
    pure ({ s with allowances := s.allowances.set sp.text a }, [])

def execSetPermissions (s : State) (snd : Addr) (sp : AddrArg) (perm : Permissions) : Res (State × List CosmosMsg) := do
  check (s.cfg.isAdmin snd) "unauthorized"
  check sp.valid "addr"
  check (decide (sp.text ≠ snd)) "own_account"
  pure ({ s with permissions := s.permissions.set sp.text perm }, [])

def execute (s : State) (blk : Block) (snd : Addr) : Msg → Res (State × List CosmosMsg)
  | .execute msgs => execExecute s blk snd msgs
  | .freeze => execFreeze s snd
  | .updateAdmins admins => execUpdateAdmins s snd admins
  | .increaseAllowance sp c e => execIncreaseAllowance s blk snd sp c e
  | .decreaseAllowance sp c e => execDecreaseAllowance s blk snd sp c e
  | .setPermissions sp p => execSetPermissions s snd sp p

/-- One transaction: commit on `ok`, roll back on error. -/
def step (s : State) (blk : Block) (snd : Addr) (m : Msg) : State :=
  match execute s blk snd m with
  | .ok (s', _) => s'
  | .error _ => s

/-- Messages relayed by one transaction (nothing on failure). -/
def relayed (s : State) (blk : Block) (snd : Addr) (m : Msg) : List CosmosMsg :=
  match execute s blk snd m with
  | .ok (_, out) => out
  | .error _ => []

/-! ## queries -/

def queryAdminList (s : State) : List Addr × Bool := (s.cfg.admins, s.cfg.mutable)

/-- `query_allowance`: validated spender; missing or expired ⇒ `Allowance::default()`. -/
def queryAllowance (s : State) (blk : Block) (sp : AddrArg) : Res Allowance := do
  check sp.valid "addr"
  pure (match s.allowances.get? sp.text with
    | some a => if a.expires.isExpired blk then Allowance.default else a
    | none => Allowance.default)

def queryPermissions (s : State) (sp : AddrArg) : Res Permissions := do
  check sp.valid "addr"
  pure ((s.permissions.get? sp.text).getD Permissions.default)

/-- `can_execute` (the query path): the raw sender string is first looked up in the admin list,
only then validated. -/
def queryCanExecute (s : State) (blk : Block) (sender : AddrArg) (m : CosmosMsg) : Res Bool :=
  if s.cfg.isAdmin sender.text then .ok true
  else do
    check sender.valid "addr"
    match m with
    | .bankSend _ coins =>
      match s.allowances.get? sender.text with
      | some a => pure (!a.expires.isExpired blk && (a.balance.subCoins coins).isOk)
      | none => pure false
    | .staking k _ =>
      match s.permissions.get? sender.text with
      | some p => pure (checkStaking k p).isOk
      | none => pure false
    | .distribution k _ =>
      match s.permissions.get? sender.text with
      | some p => pure (checkDistribution k p).isOk
      | none => pure false
    | _ => pure false

open Paginate in
/-- `query_all_allowances`: raw (unvalidated) cursor; expired entries are filtered out *before* `take(limit)`. -/
def queryAllAllowances (s : State) (blk : Block) (after : Option String) (limit : Option Nat) : List (Addr × Allowance) :=
  page strLt ((sortedEntries strLt s.allowances).filter (fun p => !p.2.expires.isExpired blk)) after limit

open Paginate in
/-- `query_all_permissions`: raw (unvalidated) cursor. -/
def queryAllPermissions (s : State) (after : Option String) (limit : Option Nat) : List (Addr × Permissions) :=
  page strLt (sortedEntries strLt s.permissions) after limit

end CwPlus.Cw1Subkeys
