import CwPlus.Base.Num
import CwPlus.Base.Expiration
import CwPlus.Base.AMap
import CwPlus.Base.Paginate
import CwPlus.Base.Snapshot
/-!
# Model of `contracts/cw4-stake` and of the small world its funds live in

Transcribed from `contracts/cw4-stake/src/contract.rs` (`instantiate`, `execute`, `execute_bond`,
`execute_receive`, `execute_unbond`, `must_pay_funds`, `update_membership`, `calc_weight` — with the
*checked* `u64::try_from` of the D4 fix —, `execute_claim`, the queries), `state.rs` (`MEMBERS` is a
`SnapshotMap` with `Strategy::EveryBlock`, `TOTAL` a plain `Item<u64>`), cw-controllers 2.0.0
`claim.rs` (`create_claim` pushes at the end, `claim_tokens` with `cap = None` removes *all* matured
claims and returns their sum, `to_send += amount` panics on overflow), `admin.rs`, `hooks.rs`,
cw-utils 2.0.0 `Duration::after` / `Expiration::is_expired` (the `u64` additions of `after` panic on
overflow with `overflow-checks = true`).

`addr_validate` is an external call: every address argument carries its result (`AddrArg.valid`).
A handler returns `Res (State × List Out)`; `.error` (an `Err` or a panic) aborts the transaction.

## World
`World` adds what is needed to state that stakes are *backed*: the contract's and the users' balances in
the configured stake token (bank denom or cw20), a ghost counter of plain transfers to the contract, and
the set of hook contracts that accept `MemberChangedHook` (environment).  `tx` is one atomic
transaction: the chain moves attached funds first (native) / the token contract moves the tokens and
calls `Receive` (cw20), then the handler runs, then its messages are delivered; any failure aborts all.
Assumptions about the environment, all made explicit in `tx`:
* senders of top-level transactions are accounts, never the stake token contract itself;
* the stake token is an honest ledger (bank module / cw20-base): a transfer fails iff the payer's balance
  is insufficient (or, for the bank, when no non-zero coin is sent); credits never overflow (the supply
  of the token fits `u128`);
* a hook message fails iff its target is not one of the `accepting` contracts.
-/
namespace CwPlus.Cw4Stake
open CwPlus CwPlus.Snapshot

structure AddrArg where
  valid : Bool
  text : String
  deriving Repr, DecidableEq, Inhabited

/-- `cw20::Denom` -/
inductive Denom where
  | native (d : String)
  | cw20 (token : Addr)
  deriving Repr, DecidableEq, Inhabited

structure Config where
  denom : Denom
  tokensPerWeight : Nat
  /-- already `max(min_bond, 1)` -/
  minBond : Nat
  period : Duration
  deriving Repr, DecidableEq, Inhabited

/-- cw-controllers `Claim` -/
structure Claim where
  amount : Nat
  releaseAt : Expiration
  deriving Repr, DecidableEq, Inhabited

/-- Messages the contract emits. -/
inductive Out where
  /-- `BankMsg::Send { to_address, amount: coins(amount, denom) }` -/
  | bank (to : Addr) (amount : Nat) (denom : String)
  /-- `WasmMsg::Execute { contract_addr: token, msg: Cw20ExecuteMsg::Transfer { recipient, amount }, funds: [] }` -/
  | cw20Transfer (token : Addr) (to : Addr) (amount : Nat)
  /-- `MemberChangedHookMsg::one(MemberDiff { key, old, new }).into_cosmos_msg(hook)` -/
  | hook (hook : Addr) (key : Addr) (old new : Option Nat)
  deriving Repr, DecidableEq, Inhabited

structure State where
  cfg : Config
  /-- cw-controllers `Admin` -/
  admin : Option Addr
  /-- cw-controllers `Hooks`, in registration order -/
  hooks : List Addr
  /-- `STAKE: Map<&Addr, Uint128>` -/
  stake : AMap Addr Nat
  /-- `CLAIMS: Map<&Addr, Vec<Claim>>` -/
  claims : AMap Addr (List Claim)
  /-- `MEMBERS: SnapshotMap<&Addr, u64>` (EveryBlock) -/
  members : SnapMap Addr Nat
  /-- `TOTAL: Item<u64>` -/
  total : Nat
  deriving Repr, Inhabited

structure InstMsg where
  denom : Denom
  tokensPerWeight : Nat
  minBond : Nat
  period : Duration
  admin : Option AddrArg
  deriving Repr, Inhabited

/-- What the handler sees as payment: `Balance::from(info.funds)` or the `Cw20CoinVerified` built by
`execute_receive` from `info.sender` and `wrapper.amount`. -/
inductive Paid where
  | native (coins : List (String × Nat))
  | cw20 (token : Addr) (amount : Nat)
  deriving Repr, Inhabited

def stakeOf (s : State) (a : Addr) : Nat := (s.stake.get? a).getD 0
def claimsOf (s : State) (a : Addr) : List Claim := (s.claims.get? a).getD []
def weightOf (s : State) (a : Addr) : Option Nat := s.members.get? a

/-! ## instantiate -/

def instantiate (m : InstMsg) : Res State := do
  let admin ← (match m.admin with
    | some a => do check a.valid "addr"; pure (some a.text)
    | none => pure none : Res (Option Addr))
  pure { cfg := ⟨m.denom, m.tokensPerWeight, max m.minBond 1, m.period⟩, admin := admin, hooks := [],
         stake := [], claims := [], members := {}, total := 0 }

/-! ## membership -/

/-- `calc_weight` (after the D4 fix): `None` below `min_bond`; otherwise `stake / tokens_per_weight`
(`u128` division, panics for a zero divisor) converted with `u64::try_from` (error when it does not fit). -/
def calcWeight (cfg : Config) (stake : Nat) : Res (Option Nat) :=
  if stake < cfg.minBond then .ok none
  else if cfg.tokensPerWeight = 0 then .error "div_by_zero"
  else if stake / cfg.tokensPerWeight ≤ U64_MAX then .ok (some (stake / cfg.tokensPerWeight))
  else .error "weight_overflow"

/-- `update_membership`: nothing (and no messages) when the weight is unchanged; otherwise `MEMBERS`
is saved/removed at the block height, `TOTAL := total + new − old` (left to right in `u64`, panics on
overflow/underflow) and every registered hook gets one message with the single diff. -/
def updateMembership (s : State) (h : Nat) (a : Addr) (newStake : Nat) : Res (State × List Out) := do
  let new ← calcWeight s.cfg newStake
  let old := s.members.get? a
  if new = old then pure (s, [])
  else do
    let t1 ← addU64 s.total (new.getD 0)
    let t2 ← subU64 t1 (old.getD 0)
    pure ({ s with members := s.members.write a h new, total := t2 }, s.hooks.map (fun hk => Out.hook hk a old new))

/-! ## execute -/

/-- The `match (&cfg.denom, &amount)` of `execute_bond` with `must_pay_funds`. -/
def paidAmount (denom : Denom) (p : Paid) : Res Nat :=
  match denom, p with
  | .native want, .native coins =>
    match coins with
    | [] => .error "no_funds"
    | [(d, amt)] => if d = want then .ok amt else .error "missing_denom"
    | _ => .error "extra_denoms"
  | .cw20 want, .cw20 have_ amt => if want = have_ then .ok amt else .error "invalid_denom"
  | _, _ => .error "mixed_native_cw20"

/-- `execute_bond(deps, env, amount, sender)` -/
def execBond (s : State) (blk : Block) (staker : Addr) (p : Paid) : Res (State × List Out) := do
  let amt ← paidAmount s.cfg.denom p
  let st ← addU128 (stakeOf s staker) amt
  updateMembership { s with stake := s.stake.set staker st } blk.height staker st

/-- `execute_receive`: `from_json(&wrapper.msg)?` (`msgOk`), `addr_validate(&wrapper.sender)?`, then
`execute_bond` with `Balance::Cw20 { address: info.sender, amount: wrapper.amount }`. -/
def execReceive (s : State) (blk : Block) (snd : Addr) (sender : AddrArg) (amt : Nat) (msgOk : Bool) :
    Res (State × List Out) := do
  check msgOk "bad_msg"
  check sender.valid "addr"
  execBond s blk sender.text (.cw20 snd amt)

/-- `Duration::after` with the `u64` overflow checks of the compiled code
(`block.height + h`, `secs * 1_000_000_000`, `nanos + addition`). -/
def afterChecked (d : Duration) (b : Block) : Res Expiration :=
  match d with
  | .height n => do
    let h ← addU64 b.height n
    pure (.atHeight h)
  | .time secs => do
    check (decide (secs * 1000000000 ≤ U64_MAX)) "overflow.u64"
    let t ← addU64 b.time (secs * 1000000000)
    pure (.atTime t)

/-- `execute_unbond` -/
def execUnbond (s : State) (blk : Block) (snd : Addr) (amt : Nat) : Res (State × List Out) := do
  let st ← subU128 (stakeOf s snd) amt
  let rel ← afterChecked s.cfg.period blk
  updateMembership { s with stake := s.stake.set snd st, claims := s.claims.set snd (claimsOf s snd ++ [⟨amt, rel⟩]) }
    blk.height snd st

def amountSum (l : List Claim) : Nat := (l.map (·.amount)).sum

def matured (blk : Block) (l : List Claim) : List Claim := l.filter (fun c => c.releaseAt.isExpired blk)
def waiting (blk : Block) (l : List Claim) : List Claim := l.filter (fun c => !c.releaseAt.isExpired blk)

/-- The payout message of `execute_claim`. -/
def payout (d : Denom) (to : Addr) (amt : Nat) : Out :=
  match d with
  | .native dn => .bank to amt dn
  | .cw20 t => .cw20Transfer t to amt

/-- `execute_claim`: `CLAIMS.claim_tokens(.., None)` partitions into matured and waiting claims, sums the
matured ones (`+=` on `Uint128`), stores the waiting ones; zero ⇒ `NothingToClaim`. -/
def execClaim (s : State) (blk : Block) (snd : Addr) : Res (State × List Out) := do
  let release := amountSum (matured blk (claimsOf s snd))
  check (decide (release ≤ U128_MAX)) "overflow.u128"
  check (decide (release ≠ 0)) "nothing_to_claim"
  pure ({ s with claims := s.claims.set snd (waiting blk (claimsOf s snd)) }, [payout s.cfg.denom snd release])

/-- cw-controllers `Admin::assert_admin` -/
def isAdmin (s : State) (snd : Addr) : Bool := decide (s.admin = some snd)

/-- `ADMIN.execute_update_admin(deps, info, maybe_addr(api, admin)?)` -/
def execUpdateAdmin (s : State) (snd : Addr) (new : Option AddrArg) : Res (State × List Out) := do
  let adm ← (match new with
    | some a => do check a.valid "addr"; pure (some a.text)
    | none => pure none : Res (Option Addr))
  check (isAdmin s snd) "unauthorized"
  pure ({ s with admin := adm }, [])

/-- `HOOKS.execute_add_hook(&ADMIN, deps, info, addr_validate(addr)?)` -/
def execAddHook (s : State) (snd : Addr) (a : AddrArg) : Res (State × List Out) := do
  check a.valid "addr"
  check (isAdmin s snd) "unauthorized"
  check (!s.hooks.contains a.text) "hook_registered"
  pure ({ s with hooks := s.hooks ++ [a.text] }, [])

/-- `HOOKS.execute_remove_hook(..)`: removes the (first) position of the address. -/
def execRemoveHook (s : State) (snd : Addr) (a : AddrArg) : Res (State × List Out) := do
  check a.valid "addr"
  check (isAdmin s snd) "unauthorized"
  check (s.hooks.contains a.text) "hook_not_registered"
  pure ({ s with hooks := s.hooks.erase a.text }, [])

inductive Msg where
  | bond
  | unbond (tokens : Nat)
  | claim
  | updateAdmin (admin : Option AddrArg)
  | addHook (addr : AddrArg)
  | removeHook (addr : AddrArg)
  | receive (sender : AddrArg) (amount : Nat) (msgOk : Bool)
  deriving Repr, Inhabited

/-- `execute` with `info = { sender: snd, funds }`. -/
def execute (s : State) (blk : Block) (snd : Addr) (funds : List (String × Nat)) : Msg → Res (State × List Out)
  | .bond => execBond s blk snd (.native funds)
  | .unbond amt => execUnbond s blk snd amt
  | .claim => execClaim s blk snd
  | .updateAdmin a => execUpdateAdmin s snd a
  | .addHook a => execAddHook s snd a
  | .removeHook a => execRemoveHook s snd a
  | .receive sender amt ok => execReceive s blk snd sender amt ok

/-! ## queries -/

def queryStaked (s : State) (a : AddrArg) : Res Nat := do
  check a.valid "addr"
  pure (stakeOf s a.text)

def queryClaims (s : State) (a : AddrArg) : Res (List Claim) := do
  check a.valid "addr"
  pure (claimsOf s a.text)

/-- `Member { addr, at_height }` -/
def queryMember (s : State) (a : AddrArg) (atHeight : Option Nat) : Res (Option Nat) := do
  check a.valid "addr"
  pure (match atHeight with
    | some h => s.members.atHeight a.text h
    | none => s.members.get? a.text)

def queryTotalWeight (s : State) : Nat := s.total

open Paginate in
/-- `ListMembers { start_after, limit }`: the cursor goes through `maybe_addr`. -/
def queryListMembers (s : State) (after : Option AddrArg) (limit : Option Nat) : Res (List (Addr × Nat)) := do
  let cursor ← (match after with
    | some a => do check a.valid "addr"; pure (some a.text)
    | none => pure none : Res (Option String))
  pure (page strLt (sortedEntries strLt s.members.cur) cursor limit)

def queryAdmin (s : State) : Option Addr := s.admin
def queryHooks (s : State) : List Addr := s.hooks

/-! ## The world: real holdings in the stake token -/

structure World where
  st : State
  /-- balance of the contract in the configured stake token -/
  held : Nat
  /-- balances of the users in the configured stake token -/
  bal : AMap Addr Nat
  /-- ghost: total of plain transfers to the contract that were not bonds -/
  extra : Nat
  /-- hook contracts that accept `MemberChangedHook` (every other target makes the message fail) -/
  accepting : List Addr
  deriving Repr, Inhabited

def balOf (w : World) (a : Addr) : Nat := (w.bal.get? a).getD 0

/-- A freshly instantiated contract holds nothing. -/
def World.init (st : State) (bal : AMap Addr Nat) (accepting : List Addr) : World :=
  { st := st, held := 0, bal := bal, extra := 0, accepting := accepting }

/-- Transactions that reach the contract (or its funds). -/
inductive Op where
  /-- `Bond {}` with attached native coins -/
  | bond (snd : Addr) (coins : List (String × Nat))
  /-- `Cw20ExecuteMsg::Send { contract: stake, amount, msg }` executed by `snd` on the cw20 contract `token` -/
  | send (snd : Addr) (token : Addr) (amt : Nat) (msgOk : Bool)
  /-- `Receive(..)` called directly by an account (a forged notification) -/
  | receive (snd : Addr) (sender : AddrArg) (amt : Nat) (msgOk : Bool)
  | unbond (snd : Addr) (amt : Nat)
  | claim (snd : Addr)
  | updateAdmin (snd : Addr) (admin : Option AddrArg)
  | addHook (snd : Addr) (addr : AddrArg)
  | removeHook (snd : Addr) (addr : AddrArg)
  /-- plain transfer of stake tokens to the contract (bank send / cw20 `Transfer`) -/
  | donate (snd : Addr) (amt : Nat)
  deriving Repr, Inhabited

/-- The account that signed the transaction. -/
def Op.sender : Op → Addr
  | .bond s _ | .send s _ _ _ | .receive s _ _ _ | .unbond s _ | .claim s
  | .updateAdmin s _ | .addHook s _ | .removeHook s _ | .donate s _ => s

/-- `amt` stake tokens move from user `a` to the contract. -/
def payIn (w : World) (a : Addr) (amt : Nat) : Res World := do
  let b ← subU128 (balOf w a) amt
  pure { w with bal := w.bal.set a b, held := w.held + amt }

/-- `amt` stake tokens move from the contract to user `a`. -/
def payOut (w : World) (a : Addr) (amt : Nat) : Res World := do
  let h ← subU128 w.held amt
  pure { w with bal := w.bal.set a (balOf w a + amt), held := h }

/-- Delivery of the handler's messages, in order. -/
def deliver (w : World) : List Out → Res World
  | [] => .ok w
  | .hook hk _ _ _ :: rest => do
    check (w.accepting.contains hk) "hook_failed"
    deliver w rest
  | .bank to amt d :: rest => do
    check (decide (w.st.cfg.denom = .native d)) "untracked_denom"
    check (decide (amt ≠ 0)) "empty_coins"
    let w1 ← payOut w to amt
    deliver w1 rest
  | .cw20Transfer t to amt :: rest => do
    check (decide (w.st.cfg.denom = .cw20 t)) "untracked_token"
    let w1 ← payOut w to amt
    deliver w1 rest

/-- Stake-denom coins among attached funds. -/
def stakeCoins (d : Denom) (coins : List (String × Nat)) : Nat :=
  match d with
  | .native dn => ((coins.filter (fun c => c.1 = dn)).map (·.2)).sum
  | .cw20 _ => 0

/-- Run a handler result against the world. -/
def finish (w : World) (r : State × List Out) : Res (World × List Out) := do
  let w' ← deliver { w with st := r.1 } r.2
  pure (w', r.2)

/-- One atomic transaction; the returned messages are those of the stake handler. -/
def tx (w : World) (blk : Block) : Op → Res (World × List Out)
  | .bond snd coins => do
    -- the bank moves the attached funds first; it refuses a non-empty list without any non-zero coin
    check (coins.isEmpty || coins.any (fun c => c.2 ≠ 0)) "empty_coins"
    let w1 ← payIn w snd (stakeCoins w.st.cfg.denom coins)
    let r ← execute w1.st blk snd coins .bond
    finish w1 r
  | .send snd token amt msgOk => do
    -- cw20-base `Send`: debit the sender, credit the contract, then `Receive` with `info.sender = token`.
    -- Only the configured token's ledger is tracked; any other token is refused by the handler anyway.
    let w1 ← if w.st.cfg.denom = .cw20 token then payIn w snd amt else pure w
    let r ← execute w1.st blk token [] (.receive ⟨true, snd⟩ amt msgOk)
    finish w1 r
  | .receive snd sender amt msgOk => do
    check (decide (w.st.cfg.denom ≠ .cw20 snd)) "token_contract_is_not_an_account"
    let r ← execute w.st blk snd [] (.receive sender amt msgOk)
    finish w r
  | .unbond snd amt => do
    let r ← execute w.st blk snd [] (.unbond amt)
    finish w r
  | .claim snd => do
    let r ← execute w.st blk snd [] .claim
    finish w r
  | .updateAdmin snd a => do
    let r ← execute w.st blk snd [] (.updateAdmin a)
    finish w r
  | .addHook snd a => do
    let r ← execute w.st blk snd [] (.addHook a)
    finish w r
  | .removeHook snd a => do
    let r ← execute w.st blk snd [] (.removeHook a)
    finish w r
  | .donate snd amt => do
    check (match w.st.cfg.denom with | .native _ => decide (amt ≠ 0) | .cw20 _ => true) "empty_coins"
    let w1 ← payIn w snd amt
    pure ({ w1 with extra := w1.extra + amt }, [])

/-- Commit on `ok`, roll back on error. -/
def step (w : World) (blk : Block) (op : Op) : World :=
  match tx w blk op with
  | .ok (w', _) => w'
  | .error _ => w

/-- Histories: any list of (block, transaction). -/
def run (w : World) (ops : List (Block × Op)) : World :=
  ops.foldl (fun w o => step w o.1 o.2) w

end CwPlus.Cw4Stake
