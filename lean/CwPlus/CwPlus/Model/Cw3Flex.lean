import CwPlus.Model.Cw3Core
import CwPlus.Model.Cw3Fixed
import CwPlus.Model.Cw4Group
import CwPlus.Model.Cw20
/-!
# Model of `contracts/cw3-flex-multisig` in its world (cw4-group, cw20 deposit token, bank)

Transcribed from `contracts/cw3-flex-multisig/src/{contract,state}.rs`, `packages/cw3/src/deposit.rs`,
`packages/cw4/src/helpers.rs` (`Cw4Contract`) and cw-utils 2.0.0 `payment.rs` (`must_pay`, `one_coin`).
The proposal / ballot parts are the shared `Cw3Core`, instantiated with

* proposer weight  = the group's *current* raw `members` entry of the sender (may be 0),
* total weight     = the group's *current* raw `total` item,
* voter weight     = the group's `Member { addr, at_height: proposal.start_height }` (must be ≥ 1),
* may execute      = `Config::authorize` (executor none / member / only).

What the flex handlers read from the group is passed in as the group's state `g : Cw4Group.State`
(the raw queries and the smart query read exactly `g.members.cur`, `g.total.cur`, `g.members.atHeight`).

`World` + `tx` model the runtime (wasmd as implemented by cw-multi-test 2.0.0): funds move first, then the
handler runs, then the returned messages are dispatched depth-first; any failure aborts the transaction and
the whole world is restored (`step`).
-/
namespace CwPlus.Cw3Flex
open CwPlus CwPlus.Cw3 CwPlus.Cw3Core

/-- `state::Executor` -/
inductive Executor where
  | member
  | only (a : Addr)
  deriving Repr, DecidableEq, Inhabited

/-- `state::Config` (`deposit.denom` is the native denom or the cw20 contract address). -/
structure Config where
  threshold : Threshold
  maxVotingPeriod : Duration
  group : Addr
  executor : Option Executor
  deposit : Option Deposit
  deriving Repr, DecidableEq, Inhabited

structure State where
  cfg : Config
  core : Core
  deriving Repr, Inhabited

/-- `UncheckedDepositInfo` plus the answer of the environment for a cw20 denom: does the address validate
and answer `TokenInfo` (`UncheckedDenom::into_checked`). -/
structure DepositArg where
  amount : Nat
  denom : String
  cw20 : Bool
  refundFailed : Bool
  tokenOk : Bool
  deriving Repr, DecidableEq, Inhabited

structure InstMsg where
  group : AddrArg
  threshold : Threshold
  maxVotingPeriod : Duration
  executor : Option Executor
  deposit : Option DepositArg
  deriving Repr, Inhabited

/-- `UncheckedDepositInfo::into_checked` -/
def checkDeposit (d : DepositArg) : Res Deposit := do
  check (decide (d.amount ≠ 0)) "zero_deposit"
  check (!d.cw20 || d.tokenOk) "invalid_cw20"
  pure ⟨d.amount, d.denom, d.cw20, d.refundFailed⟩

/-- `Cw4Contract::total_weight`: raw read of the group's `total` item (an error when absent). -/
def groupTotal (g : Cw4Group.State) : Res Nat :=
  match g.total.cur with
  | some t => .ok t
  | none => .error "total_not_found"

@[simp] theorem groupTotal_ok {g : Cw4Group.State} {t : Nat} : groupTotal g = .ok t ↔ g.total.cur = some t := by
  unfold groupTotal; split <;> simp_all

@[simp high] theorem groupTotal_bind_ok {α : Type} {g : Cw4Group.State} (f : Nat → Res α) (r : α) :
    (groupTotal g >>= f) = Except.ok r ↔ ∃ t, g.total.cur = some t ∧ f t = Except.ok r := by
  unfold groupTotal; split <;> simp_all [bind, Except.bind]

/-- `instantiate`; `g` is the state of the contract at `group_addr` (`none`: no such contract, the raw query fails). -/
def instantiate (m : InstMsg) (g : Option Cw4Group.State) : Res State := do
  check m.group.valid "invalid_group"
  let total ← (match g with
    | some g => groupTotal g
    | none => .error "no_group" : Res Nat)
  m.threshold.validate total
  let dep ← (match m.deposit with
    | some d => do let x ← checkDeposit d; pure (some x)
    | none => pure none : Res (Option Deposit))
  pure { cfg := ⟨m.threshold, m.maxVotingPeriod, m.group.text, m.executor, dep⟩, core := Core.empty }

/-- A coin of `info.funds`. -/
structure Coin where
  amount : Nat
  denom : String
  deriving Repr, DecidableEq, Inhabited

/-- What a flex handler returns: messages in the order of `Response::messages`. -/
inductive Out where
  /-- a message of the proposal, exactly as proposed -/
  | msg (m : Msg)
  /-- `BankMsg::Send` of one coin (native deposit refund) -/
  | bank (to : Addr) (amt : Nat) (denom : String)
  /-- `Cw20ExecuteMsg::Transfer` on `token` (cw20 deposit refund) -/
  | cw20Transfer (token to : Addr) (amt : Nat)
  /-- `Cw20ExecuteMsg::TransferFrom` on `token` (cw20 deposit taken) -/
  | cw20TransferFrom (token owner to : Addr) (amt : Nat)
  /-- (emitted by the group, not by flex) `MemberChangedHook` sent to `hook` -/
  | groupHook (hook : Addr)
  deriving Repr, DecidableEq, Inhabited

/-- `cw_utils::must_pay(info, denom)` followed by `paid == amount` (`DepositInfo::check_native_deposit_paid`);
a cw20 deposit needs no funds check. -/
def checkNativeDepositPaid (d : Deposit) (funds : List Coin) : Res Unit :=
  if d.cw20 then .ok () else
  match funds with
  | [] => .error "no_funds"
  | [c] => do
    check (decide (c.amount ≠ 0)) "no_funds"
    check (decide (c.denom = d.denom)) "missing_denom"
    check (decide (c.amount = d.amount)) "invalid_deposit"
  | _ => .error "multiple_denoms"

/-- `DepositInfo::get_take_deposit_messages` -/
def takeDeposit (d : Deposit) (depositor self : Addr) : List Out :=
  if d.cw20 && d.amount ≠ 0 then [.cw20TransferFrom d.denom depositor self d.amount] else []

/-- `DepositInfo::get_return_deposit_message` -/
def refundMsg (d : Deposit) (depositor : Addr) : Out :=
  if d.cw20 then .cw20Transfer d.denom depositor d.amount else .bank depositor d.amount d.denom

/-- `Cw4Contract::is_member(querier, addr, None)`: raw read of the group's `members` map. -/
def memberNow (g : Cw4Group.State) (a : Addr) : Option Nat := g.members.get? a

/-- `Cw4Contract::is_voting_member(querier, addr, height)` before the `>= 1` filter:
the smart query `Member { addr, at_height: Some(height) }`. -/
def memberAt (g : Cw4Group.State) (a : Addr) (h : Nat) : Option Nat := g.members.atHeight a h

/-- `Config::authorize` -/
def authorize (cfg : Config) (g : Cw4Group.State) (snd : Addr) : Bool :=
  match cfg.executor with
  | none => true
  | some .member => (memberNow g snd).isSome
  | some (.only a) => decide (a = snd)

inductive ExecMsg where
  | propose (title description : String) (msgs : List Msg) (latest : Option Expiration)
  | vote (id : Nat) (vote : Vote)
  | execute (id : Nat)
  | close (id : Nat)
  | memberChangedHook
  deriving Repr, DecidableEq, Inhabited

def execPropose (s : State) (g : Cw4Group.State) (self : Addr) (blk : Block) (snd : Addr) (funds : List Coin)
    (title description : String) (msgs : List Msg) (latest : Option Expiration) : Res (State × List Out) := do
  (match s.cfg.deposit with
    | some d => checkNativeDepositPaid d funds
    | none => pure () : Res Unit)
  let w ← (match memberNow g snd with
    | some w => .ok w
    | none => .error "unauthorized" : Res Nat)
  let total ← groupTotal g
  let (c, _) ← Cw3Core.propose s.core blk snd w s.cfg.threshold total s.cfg.maxVotingPeriod
    title description msgs latest s.cfg.deposit
  pure ({ s with core := c }, match s.cfg.deposit with | some d => takeDeposit d snd self | none => [])

def execVote (s : State) (g : Cw4Group.State) (blk : Block) (snd : Addr) (id : Nat) (v : Vote) : Res (State × List Out) := do
  let c ← Cw3Core.vote s.core blk snd id v (fun p => memberAt g snd p.startHeight)
  pure ({ s with core := c }, [])

def execExecute (s : State) (g : Cw4Group.State) (blk : Block) (snd : Addr) (id : Nat) : Res (State × List Out) := do
  let p ← load s.core id
  let (c, msgs) ← Cw3Core.execute s.core blk id (authorize s.cfg g snd)
  -- "Unconditionally refund here."
  pure ({ s with core := c }, (match p.deposit with | some d => [refundMsg d p.proposer] | none => []) ++ msgs.map Out.msg)

def execClose (s : State) (blk : Block) (id : Nat) : Res (State × List Out) := do
  let p ← load s.core id
  let c ← Cw3Core.close s.core blk id
  pure ({ s with core := c },
    match p.deposit with
    | some d => if d.refundFailed then [refundMsg d p.proposer] else []
    | none => [])

def execHook (s : State) (snd : Addr) : Res (State × List Out) := do
  check (decide (snd = s.cfg.group)) "unauthorized"
  pure (s, [])

def execute (s : State) (g : Cw4Group.State) (self : Addr) (blk : Block) (snd : Addr) (funds : List Coin) :
    ExecMsg → Res (State × List Out)
  | .propose t d msgs latest => execPropose s g self blk snd funds t d msgs latest
  | .vote id v => execVote s g blk snd id v
  | .execute id => execExecute s g blk snd id
  | .close id => execClose s blk id
  | .memberChangedHook => execHook s snd

/-! ## queries -/

/-- `query_threshold`: the configured threshold with the group's current total. -/
def queryThreshold (s : State) (g : Cw4Group.State) : Res (Threshold × Nat) := do
  let t ← groupTotal g
  pure (s.cfg.threshold, t)

def queryConfig (s : State) : Config := s.cfg
def queryProposal (s : State) (blk : Block) (id : Nat) : Res ProposalView := Cw3Core.queryProposal s.core blk id
def listProposals (s : State) (blk : Block) (after limit : Option Nat) : Res (List ProposalView) :=
  Cw3Core.listProposals s.core blk after limit
def reverseProposals (s : State) (blk : Block) (before limit : Option Nat) : Res (List ProposalView) :=
  Cw3Core.reverseProposals s.core blk before limit
def queryVote (s : State) (id : Nat) (voter : AddrArg) : Res (Option Ballot) := Cw3Core.queryVote s.core id voter

/-- `list_votes`: the cursor goes through `maybe_addr`. -/
def listVotes (s : State) (id : Nat) (after : Option AddrArg) (limit : Option Nat) : Res (List (Addr × Ballot)) := do
  let cursor ← (match after with
    | some a => do check a.valid "addr"; pure (some a.text)
    | none => pure none : Res (Option String))
  pure (Cw3Core.listVotes s.core id cursor limit)

/-- `query_voter`: the group's current raw entry. -/
def queryVoter (g : Cw4Group.State) (a : AddrArg) : Res (Option Nat) := do
  check a.valid "addr"
  pure (memberNow g a.text)

/-- `list_voters` = the group's `ListMembers`. -/
def listVoters (g : Cw4Group.State) (after : Option Cw4Group.AddrArg) (limit : Option Nat) : Res (List (Addr × Nat)) :=
  Cw4Group.queryListMembers g after limit

/-! ## the runtime -/

/-- Ghost log of the handler calls of committed transactions (rolled back with the world). -/
inductive Event where
  | proposed (id : Nat) (snd : Addr)
  | voted (id : Nat) (snd : Addr)
  | executed (id : Nat)
  | closed (id : Nat)
  | hook
  /-- the group's membership was written at this height -/
  | groupWrite (height : Nat)
  deriving Repr, DecidableEq, Inhabited

structure World where
  flex : State
  group : Cw4Group.State
  token : Cw20.State
  /-- native balances keyed `(address, denom)` -/
  bank : AMap (Addr × String) Nat
  /-- address of the multisig -/
  self : Addr
  /-- address of the group contract -/
  groupAddr : Addr
  /-- address of the cw20 deposit token -/
  tokenAddr : Addr
  log : List Event
  deriving Repr, Inhabited

def balance (w : World) (a : Addr) (denom : String) : Nat := (w.bank.get? (a, denom)).getD 0

/-- The meaning of an opaque `Msg.other tag`: `some (add, remove)` = `UpdateMembers { add, remove }` sent to the
group contract; `none` = a call that fails.  A parameter of the runtime (fixed by whoever built the messages). -/
abbrev Ext := String → Option (List (Addr × Nat) × List Addr)

/-- The event a successful flex handler call leaves in the ghost log. -/
def eventOf (s : State) (snd : Addr) : ExecMsg → Event
  | .propose .. => .proposed (s.core.count + 1) snd
  | .vote id _ => .voted id snd
  | .execute id => .executed id
  | .close id => .closed id
  | .memberChangedHook => .hook

/-- The `ExecuteMsg` a self-call message carries (`none`: not a self-call). -/
def selfCall : Msg → Option ExecMsg
  | .selfExecute id => some (.execute id)
  | .selfClose id => some (.close id)
  | .selfVote id v => some (.vote id v)
  | .selfPropose latest => some (.propose "self" "self" [] latest)
  | _ => none

/-- cw-multi-test moving `funds` from the sender to the contract before the handler runs: nothing for an
empty list; zero coins are dropped and at least one coin must remain; every remaining coin must be covered. -/
def moveCoins (bank : AMap (Addr × String) Nat) (frm to : Addr) : List Coin → Res (AMap (Addr × String) Nat)
  | [] => .ok bank
  | c :: rest => do
    let b ← (if c.amount = 0 then .ok bank else Cw3Fixed.bankSend bank frm to c.amount c.denom)
    moveCoins b frm to rest

def moveFunds (bank : AMap (Addr × String) Nat) (frm to : Addr) (funds : List Coin) : Res (AMap (Addr × String) Nat) :=
  if funds.isEmpty then .ok bank
  else if funds.all (fun c => c.amount = 0) then .error "bank.zero"
  else moveCoins bank frm to funds

def tokenCall (w : World) (blk : Block) (token : Addr) (m : Cw20.Msg) : Res World := do
  check (decide (token = w.tokenAddr)) "no_contract"
  let (t, out) ← Cw20.execute w.token blk w.self m
  check out.isEmpty "unsupported"
  pure { w with token := t }

/-- Dispatch the messages returned by a handler, in order, depth-first (`ReplyOn::Never`: any failure fails
the whole dispatch).  `fuel` bounds position + nesting depth. -/
def dispatch (ext : Ext) : Nat → World → Block → List Out → Res World
  | _, w, _, [] => .ok w
  | 0, _, _, _ :: _ => .error "fuel"
  | fuel + 1, w, blk, o :: rest => do
    let w1 ← (match o with
      | .msg m =>
        match selfCall m with
        | some em => do
          let (s', out) ← execute w.flex w.group w.self blk w.self [] em
          dispatch ext fuel { w with flex := s', log := w.log ++ [eventOf w.flex w.self em] } blk out
        | none =>
          match m with
          | .bank to amt denom => do
            let b ← Cw3Fixed.bankSend w.bank w.self to amt denom
            pure { w with bank := b }
          | .other tag =>
            match ext tag with
            | some (add, remove) => do
              let (g', outs) ← Cw4Group.execute w.group blk.height w.self
                (.updateMembers (remove.map fun a => ⟨true, a⟩) (add.map fun p => (⟨true, p.1⟩, p.2)))
              dispatch ext fuel { w with group := g', log := w.log ++ [.groupWrite blk.height] } blk
                (outs.map fun o => Out.groupHook o.hook)
            | none => .error "no_contract"
          | _ => .error "no_contract"
      | .bank to amt denom => do
        let b ← Cw3Fixed.bankSend w.bank w.self to amt denom
        pure { w with bank := b }
      | .cw20Transfer token to amt => tokenCall w blk token (.transfer ⟨true, to⟩ amt)
      | .cw20TransferFrom token owner to amt => tokenCall w blk token (.transferFrom ⟨true, owner⟩ ⟨true, to⟩ amt)
      | .groupHook hook =>
        if hook = w.self then do
          let (s', out) ← execute w.flex w.group w.self blk w.groupAddr [] .memberChangedHook
          dispatch ext fuel { w with flex := s', log := w.log ++ [.hook] } blk out
        else .error "no_contract" : Res World)
    dispatch ext fuel w1 blk rest

/-- The transactions of a history. -/
inductive Action where
  /-- `ExecuteMsg` sent to the multisig with funds -/
  | flex (snd : Addr) (funds : List Coin) (m : ExecMsg)
  /-- `ExecuteMsg` sent to the group contract -/
  | group (snd : Addr) (m : Cw4Group.Msg)
  /-- `ExecuteMsg` sent to the cw20 token (messages that emit nothing: transfer, allowances, …) -/
  | token (snd : Addr) (m : Cw20.Msg)
  deriving Repr, Inhabited

/-- One transaction. -/
def tx (ext : Ext) (fuel : Nat) (w : World) (blk : Block) : Action → Res World
  | .flex snd funds m => do
    let b ← moveFunds w.bank snd w.self funds
    let (s', out) ← execute w.flex w.group w.self blk snd funds m
    dispatch ext fuel { w with bank := b, flex := s', log := w.log ++ [eventOf w.flex snd m] } blk out
  | .group snd m => do
    let (g', outs) ← Cw4Group.execute w.group blk.height snd m
    dispatch ext fuel { w with group := g', log := w.log ++ [.groupWrite blk.height] } blk
      (outs.map fun o => Out.groupHook o.hook)
  | .token snd m => do
    let (t, out) ← Cw20.execute w.token blk snd m
    check out.isEmpty "unsupported"
    pure { w with token := t }

structure Op where
  blk : Block
  act : Action
  deriving Repr, Inhabited

/-- `.error` = the runtime discards every change. -/
def step (ext : Ext) (fuel : Nat) (w : World) (op : Op) : World :=
  match tx ext fuel w op.blk op.act with
  | .ok w' => w'
  | .error _ => w

def run (ext : Ext) (fuel : Nat) (w : World) (ops : List Op) : World := ops.foldl (step ext fuel) w

/-- The world right after the group (at height `h0`), the token and the multisig were instantiated. -/
def World.init (s : State) (g : Cw4Group.State) (t : Cw20.State) (bank : AMap (Addr × String) Nat)
    (self groupAddr tokenAddr : Addr) (h0 : Nat) : World :=
  { flex := s, group := g, token := t, bank, self, groupAddr, tokenAddr, log := [.groupWrite h0] }

end CwPlus.Cw3Flex
