import CwPlus.Model.Cw3Core
/-!
# Model of `contracts/cw3-fixed-multisig`

Transcribed from `contract.rs` (`instantiate`, `execute_{propose,vote,execute,close}`, all eight
queries) and `state.rs` (`next_id`).  The proposal / ballot parts are the shared `Cw3Core`
instantiated with: voting weight = `VOTERS[sender]` (fixed at instantiation, independent of the
proposal), executor = anyone, deposit = none.

`World` + `tx` model the runtime (wasmd as implemented by cw-multi-test): run the handler, then
dispatch the returned messages depth-first; any failure aborts the whole transaction and
restores the whole world.
-/
namespace CwPlus.Cw3Fixed
open CwPlus CwPlus.Cw3 CwPlus.Cw3Core

structure Config where
  threshold : Threshold
  totalWeight : Nat
  maxVotingPeriod : Duration
  deriving Repr, DecidableEq, Inhabited

structure State where
  cfg : Config
  /-- `VOTERS` -/
  voters : AMap Addr Nat
  core : Core
  deriving Repr, DecidableEq, Inhabited

structure InstMsg where
  voters : List (AddrArg × Nat)
  threshold : Threshold
  maxVotingPeriod : Duration
  deriving Repr, Inhabited

/-- `msg.voters.iter().map(|v| v.weight).sum()` on `u64` (panics on overflow). -/
def sumWeights : List (AddrArg × Nat) → Nat → Res Nat
  | [], acc => .ok acc
  | (_, w) :: rest, acc => do
    let acc' ← addU64 acc w
    sumWeights rest acc'

/-- The `for voter in msg.voters.iter()` loop: validate, refuse an address that is already
stored (`DuplicateVoter`), save. -/
def addVoters : List (AddrArg × Nat) → AMap Addr Nat → Res (AMap Addr Nat)
  | [], m => .ok m
  | (a, w) :: rest, m => do
    check a.valid "addr"
    check (m.get? a.text).isNone "duplicate_voter"
    addVoters rest (m.set a.text w)

def instantiate (m : InstMsg) : Res State := do
  check (!m.voters.isEmpty) "no_voters"
  let total ← sumWeights m.voters 0
  m.threshold.validate total
  let voters ← addVoters m.voters []
  pure { cfg := ⟨m.threshold, total, m.maxVotingPeriod⟩, voters := voters, core := Core.empty }

inductive ExecMsg where
  | propose (title description : String) (msgs : List Msg) (latest : Option Expiration)
  | vote (id : Nat) (vote : Vote)
  | execute (id : Nat)
  | close (id : Nat)
  deriving Repr, DecidableEq, Inhabited

/-- `VOTERS.may_load(sender)?.ok_or(Unauthorized)` -/
def memberWeight (s : State) (a : Addr) : Res Nat :=
  match s.voters.get? a with
  | some w => .ok w
  | none => .error "unauthorized"

@[simp] theorem memberWeight_ok {s : State} {a : Addr} {w : Nat} : memberWeight s a = .ok w ↔ s.voters.get? a = some w := by
  unfold memberWeight; split <;> simp_all

@[simp high] theorem memberWeight_bind_ok {α : Type} {s : State} {a : Addr} (f : Nat → Res α) (r : α) :
    (memberWeight s a >>= f) = Except.ok r ↔ ∃ w, s.voters.get? a = some w ∧ f w = Except.ok r := by
  unfold memberWeight; split <;> simp_all [bind, Except.bind]

def execPropose (s : State) (blk : Block) (snd : Addr) (title description : String) (msgs : List Msg)
    (latest : Option Expiration) : Res (State × List Msg) := do
  let w ← memberWeight s snd
  let (c, _) ← Cw3Core.propose s.core blk snd w s.cfg.threshold s.cfg.totalWeight s.cfg.maxVotingPeriod
    title description msgs latest none
  pure ({ s with core := c }, [])

def execVote (s : State) (blk : Block) (snd : Addr) (id : Nat) (v : Vote) : Res (State × List Msg) := do
  let c ← Cw3Core.vote s.core blk snd id v (fun _ => s.voters.get? snd)
  pure ({ s with core := c }, [])

def execExecute (s : State) (blk : Block) (id : Nat) : Res (State × List Msg) := do
  let (c, out) ← Cw3Core.execute s.core blk id true
  pure ({ s with core := c }, out)

def execClose (s : State) (blk : Block) (id : Nat) : Res (State × List Msg) := do
  let c ← Cw3Core.close s.core blk id
  pure ({ s with core := c }, [])

def execute (s : State) (blk : Block) (snd : Addr) : ExecMsg → Res (State × List Msg)
  | .propose t d msgs latest => execPropose s blk snd t d msgs latest
  | .vote id v => execVote s blk snd id v
  | .execute id => execExecute s blk id
  | .close id => execClose s blk id

/-! ## queries -/

/-- `query_threshold`: `cfg.threshold.to_response(cfg.total_weight)` -/
def queryThreshold (s : State) : Threshold × Nat := (s.cfg.threshold, s.cfg.totalWeight)

def queryProposal (s : State) (blk : Block) (id : Nat) : Res ProposalView := Cw3Core.queryProposal s.core blk id
def listProposals (s : State) (blk : Block) (after limit : Option Nat) : Res (List ProposalView) :=
  Cw3Core.listProposals s.core blk after limit
def reverseProposals (s : State) (blk : Block) (before limit : Option Nat) : Res (List ProposalView) :=
  Cw3Core.reverseProposals s.core blk before limit
def queryVote (s : State) (id : Nat) (voter : AddrArg) : Res (Option Ballot) := Cw3Core.queryVote s.core id voter
def listVotes (s : State) (id : Nat) (after : Option String) (limit : Option Nat) : List (Addr × Ballot) :=
  Cw3Core.listVotes s.core id after limit

/-- `query_voter` -/
def queryVoter (s : State) (a : AddrArg) : Res (Option Nat) := do
  check a.valid "addr"
  pure (s.voters.get? a.text)

open Paginate in
/-- `list_voters` -/
def listVoters (s : State) (after : Option String) (limit : Option Nat) : List (Addr × Nat) :=
  page strLt (sortedEntries strLt s.voters) after limit

/-! ## the runtime: dispatch of returned messages, atomic transactions -/

/-- Ghost log of what happened inside committed transactions (rolled back with the world). -/
inductive Event where
  | proposed (id : Nat)
  | voted (id : Nat) (a : Addr)
  | executed (id : Nat)
  | closed (id : Nat)
  | sent (to : Addr) (amt : Nat) (denom : String)
  | called (tag : String)
  deriving Repr, DecidableEq, Inhabited

structure World where
  ms : State
  /-- the multisig's own address -/
  self : Addr
  /-- native balances keyed `(address, denom)` -/
  bank : AMap (Addr × String) Nat
  /-- does the external contract addressed by `Msg.other` currently accept calls -/
  sinkOk : Bool
  log : List Event
  deriving Repr, DecidableEq, Inhabited

def balance (w : World) (a : Addr) (denom : String) : Nat := (w.bank.get? (a, denom)).getD 0

/-- `BankMsg::Send` of one coin (cw-multi-test `BankKeeper::send`: zero amounts are refused,
debit must be covered, then credit). -/
def bankSend (bank : AMap (Addr × String) Nat) (frm to : Addr) (amt : Nat) (denom : String) :
    Res (AMap (Addr × String) Nat) := do
  check (decide (amt ≠ 0)) "bank.zero"
  let b ← subU128 ((bank.get? (frm, denom)).getD 0) amt
  let bank1 := bank.set (frm, denom) b
  let r ← addU128 ((bank1.get? (to, denom)).getD 0) amt
  pure (bank1.set (to, denom) r)

/-- The event a successful handler call leaves in the ghost log. -/
def eventOf (s : State) (snd : Addr) : ExecMsg → Event
  | .propose .. => .proposed (s.core.count + 1)
  | .vote id _ => .voted id snd
  | .execute id => .executed id
  | .close id => .closed id

/-- The `ExecuteMsg` a self-call message carries (`none`: not a self-call). -/
def selfCall : Msg → Option ExecMsg
  | .selfExecute id => some (.execute id)
  | .selfClose id => some (.close id)
  | .selfVote id v => some (.vote id v)
  | .selfPropose latest => some (.propose "self" "self" [] latest)
  | _ => none

/-- Dispatch of a message that is not a self-call. -/
def leaf (w : World) : Msg → Res World
  | .bank to amt denom => do
    let b ← bankSend w.bank w.self to amt denom
    pure { w with bank := b, log := w.log ++ [.sent to amt denom] }
  | .other tag => do
    check w.sinkOk "sink.refused"
    pure { w with log := w.log ++ [.called tag] }
  | _ => .error "no_contract"

/-- Dispatch a list of messages emitted by the multisig, in order, depth-first: the messages
returned by a nested handler call (sender = the multisig itself) are dispatched before the
next message of the list.  Any failure fails the whole dispatch (`ReplyOn::Never`).  `fuel`
bounds the total work. -/
def dispatch : Nat → World → Block → List Msg → Res World
  | _, w, _, [] => .ok w
  | 0, _, _, _ :: _ => .error "fuel"
  | fuel + 1, w, blk, m :: rest => do
    let w1 ← (match selfCall m with
      | some em => do
        let (s', out) ← execute w.ms blk w.self em
        dispatch fuel { w with ms := s', log := w.log ++ [eventOf w.ms w.self em] } blk out
      | none => leaf w m : Res World)
    dispatch fuel w1 blk rest

/-- One transaction: the handler, then its messages.  `.error` = the runtime discards every
change (`step` keeps the old world). -/
def tx (fuel : Nat) (w : World) (blk : Block) (snd : Addr) (m : ExecMsg) : Res World := do
  let (s', out) ← execute w.ms blk snd m
  dispatch fuel { w with ms := s', log := w.log ++ [eventOf w.ms snd m] } blk out

/-- What can happen between instantiation and the end of a history. -/
inductive Action where
  | exec (snd : Addr) (m : ExecMsg)
  /-- somebody sends native coins to the multisig -/
  | fund (amt : Nat) (denom : String)
  /-- the external contract starts / stops accepting calls -/
  | setSink (ok : Bool)
  deriving Repr, Inhabited

structure Op where
  blk : Block
  act : Action
  deriving Repr, Inhabited

def step (fuel : Nat) (w : World) (op : Op) : World :=
  match op.act with
  | .exec snd m =>
    match tx fuel w op.blk snd m with
    | .ok w' => w'
    | .error _ => w
  | .fund amt denom =>
    match addU128 (balance w w.self denom) amt with
    | .ok b => { w with bank := w.bank.set (w.self, denom) b }
    | .error _ => w
  | .setSink ok => { w with sinkOk := ok }

def run (fuel : Nat) (w : World) (ops : List Op) : World := ops.foldl (step fuel) w

/-- The world right after a successful instantiation. -/
def World.init (s : State) (self : Addr) (bank : AMap (Addr × String) Nat) (sinkOk : Bool) : World :=
  { ms := s, self, bank, sinkOk, log := [] }

end CwPlus.Cw3Fixed
