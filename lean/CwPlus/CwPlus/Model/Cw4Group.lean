import CwPlus.Base.Num
import CwPlus.Base.AMap
import CwPlus.Base.Paginate
import CwPlus.Base.Snapshot
/-!
# Model of `contracts/cw4-group`

Transcribed from `contracts/cw4-group/src/contract.rs` (`create`, `execute`, `update_members`,
`query_*`), `helpers.rs` (`validate_unique_members`: *sorts* the list by address, rejects equal
neighbours), cw-controllers 2.0.0 `admin.rs` (`assert_admin`, `execute_update_admin`) and `hooks.rs`
(`add_hook` fails when present, `remove_hook` fails when absent, `prepare_hooks` maps over the
registered hooks in order), cw-storage-plus 2.0.0 snapshots (`Base/Snapshot.lean`).

`addr_validate` is an external call: every address argument carries its result (`AddrArg.valid`).
All arithmetic on the total is `Uint64::checked_{add,sub}` (errors, no panics; both abort the call).
A handler returns `Res (State × List Out)`; `.error` aborts the transaction.
-/
namespace CwPlus.Cw4Group
open CwPlus CwPlus.Snapshot

structure AddrArg where
  valid : Bool
  text : String
  deriving Repr, DecidableEq, Inhabited

/-- `cw4::MemberDiff` -/
structure Diff where
  key : Addr
  old : Option Nat
  new : Option Nat
  deriving Repr, DecidableEq, Inhabited

/-- The only message cw4-group emits: `WasmMsg::Execute { contract_addr: hook,
msg: MemberChangedHook(MemberChangedHookMsg { diffs }), funds: [] }`. -/
structure Out where
  hook : Addr
  diffs : List Diff
  deriving Repr, DecidableEq, Inhabited

def hookMsg (diffs : List Diff) (hook : Addr) : Out := ⟨hook, diffs⟩

structure State where
  /-- cw-controllers `Admin` (`Item<Option<Addr>>`) -/
  admin : Option Addr
  /-- cw-controllers `Hooks` (`Item<Vec<Addr>>`), in registration order -/
  hooks : List Addr
  /-- `MEMBERS: SnapshotMap<&Addr, u64>` -/
  members : SnapMap Addr Nat
  /-- `TOTAL: SnapshotItem<u64>` -/
  total : SnapItem Nat
  deriving Repr, Inhabited

/-- Storage before `instantiate`. -/
def State.empty : State := { admin := none, hooks := [], members := {}, total := {} }

structure InstMsg where
  admin : Option AddrArg
  members : List (AddrArg × Nat)
  deriving Repr, Inhabited

inductive Msg where
  | updateAdmin (admin : Option AddrArg)
  | updateMembers (remove : List AddrArg) (add : List (AddrArg × Nat))
  | addHook (addr : AddrArg)
  | removeHook (addr : AddrArg)
  deriving Repr, Inhabited

/-- Current weight of a member (`MEMBERS.may_load`). -/
def weight (s : State) (a : Addr) : Option Nat := s.members.get? a

/-- Insert into a list sorted by address before the first entry that is not smaller, so an entry stays in
front of later equal ones (stable). -/
def insertMember (x : AddrArg × Nat) : List (AddrArg × Nat) → List (AddrArg × Nat)
  | [] => [x]
  | y :: ys => if Paginate.strLt y.1.text x.1.text then y :: insertMember x ys else x :: y :: ys

/-- `members.sort_by(|a, b| a.addr.cmp(&b.addr))`: a stable sort by address string (insertion sort, so that
concrete instances reduce in the kernel; the order of equal addresses is irrelevant anyway because equal
addresses are rejected). -/
def sortMembers (l : List (AddrArg × Nat)) : List (AddrArg × Nat) := l.foldr insertMember []

theorem insertMember_perm (x : AddrArg × Nat) (l : List (AddrArg × Nat)) : (insertMember x l).Perm (x :: l) := by
  induction l with
  | nil => exact List.Perm.refl _
  | cons y ys ih =>
    unfold insertMember
    split
    · exact (List.Perm.cons y ih).trans (List.Perm.swap x y ys)
    · exact List.Perm.refl _

/-- Sorting only reorders the list. -/
theorem sortMembers_perm (l : List (AddrArg × Nat)) : (sortMembers l).Perm l := by
  induction l with
  | nil => exact List.Perm.refl _
  | cons x xs ih => exact (insertMember_perm x _).trans (List.Perm.cons x ih)

/-- `validate_unique_members` succeeds iff the address strings are pairwise distinct. -/
def uniqueMembers (l : List (AddrArg × Nat)) : Bool := decide ((l.map (·.1.text)).Nodup)

/-! ## instantiate -/

/-- The loop of `create`: `total.checked_add(weight)?`, `addr_validate?`, `MEMBERS.save(.., height)`. -/
def createMembers (h : Nat) : List (AddrArg × Nat) → SnapMap Addr Nat → Nat → Res (SnapMap Addr Nat × Nat)
  | [], m, total => .ok (m, total)
  | (a, w) :: rest, m, total => do
    let total' ← addU64 total w
    check a.valid "addr"
    createMembers h rest (m.write a.text h (some w)) total'

/-- `create(deps, admin, members, height)` on a given storage (`instantiate` uses the empty one). -/
def create (s : State) (msg : InstMsg) (h : Nat) : Res State := do
  check (uniqueMembers msg.members) "duplicate"
  let admin ← (match msg.admin with
    | some a => do check a.valid "addr"; pure (some a.text)
    | none => pure none : Res (Option Addr))
  let (m, total) ← createMembers h (sortMembers msg.members) s.members 0
  pure { s with admin := admin, members := m, total := s.total.write h (some total) }

def instantiate (msg : InstMsg) (h : Nat) : Res State := create State.empty msg h

/-! ## execute -/

/-- cw-controllers `Admin::assert_admin` -/
def isAdmin (s : State) (snd : Addr) : Bool := decide (s.admin = some snd)

/-- `ADMIN.execute_update_admin(deps, info, admin.map(addr_validate).transpose()?)` -/
def execUpdateAdmin (s : State) (snd : Addr) (new : Option AddrArg) : Res (State × List Out) := do
  let adm ← (match new with
    | some a => do check a.valid "addr"; pure (some a.text)
    | none => pure none : Res (Option Addr))
  check (isAdmin s snd) "unauthorized"
  pure ({ s with admin := adm }, [])

/-- `HOOKS.execute_add_hook(&ADMIN, deps, info, addr_validate(addr)?)` -/
def execAddHook (s : State) (snd : Addr) (a : AddrArg) : Res (State × List Out) := do
  check a.valid "addr"
  check (isAdmin s snd) "unauthorized"
  check (!s.hooks.contains a.text) "hook_registered"
  pure ({ s with hooks := s.hooks ++ [a.text] }, [])

/-- `HOOKS.execute_remove_hook(..)`: removes the (first) position of the address. -/
def execRemoveHook (s : State) (snd : Addr) (a : AddrArg) : Res (State × List Out) := do
  check a.valid "addr"
  check (isAdmin s snd) "unauthorized"
  check (s.hooks.contains a.text) "hook_not_registered"
  pure ({ s with hooks := s.hooks.erase a.text }, [])

/-- The `to_add` loop of `update_members`: `MEMBERS.update(addr, height, |old| { total -= old.unwrap_or_default();
total += weight; diffs.push(addr, old, Some(weight)); weight })`.  Returns the map, the running total and
the diffs in processing order. -/
def applyAdds (h : Nat) : List (AddrArg × Nat) → SnapMap Addr Nat → Nat → Res (SnapMap Addr Nat × Nat × List Diff)
  | [], m, total => .ok (m, total, [])
  | (a, w) :: rest, m, total => do
    check a.valid "addr"
    let t1 ← subU64 total ((m.get? a.text).getD 0)
    let t2 ← addU64 t1 w
    let r ← applyAdds h rest (m.write a.text h (some w)) t2
    pure (r.1, r.2.1, ⟨a.text, m.get? a.text, some w⟩ :: r.2.2)

/-- The `to_remove` loop: only addresses that currently are members are processed. -/
def applyRemoves (h : Nat) : List AddrArg → SnapMap Addr Nat → Nat → Res (SnapMap Addr Nat × Nat × List Diff)
  | [], m, total => .ok (m, total, [])
  | a :: rest, m, total => do
    check a.valid "addr"
    match m.get? a.text with
    | none => applyRemoves h rest m total
    | some w => do
      let t1 ← subU64 total w
      let r ← applyRemoves h rest (m.write a.text h none) t1
      pure (r.1, r.2.1, ⟨a.text, some w, none⟩ :: r.2.2)

/-- `update_members` (the part shared with cw3-flex style importers): returns the new storage and the
diffs.  Order: `validate_unique_members(to_add)` (sorts!), `assert_admin`, `TOTAL.load`, adds, removes,
`TOTAL.save(total, height)`. -/
def updateMembers (s : State) (h : Nat) (snd : Addr) (remove : List AddrArg) (add : List (AddrArg × Nat)) :
    Res (State × List Diff) := do
  check (uniqueMembers add) "duplicate"
  check (isAdmin s snd) "unauthorized"
  match s.total.cur with
  | none => .error "total_not_found"
  | some total0 =>
    let r1 ← applyAdds h (sortMembers add) s.members total0
    let r2 ← applyRemoves h remove r1.1 r1.2.1
    pure ({ s with members := r2.1, total := s.total.write h (some r2.2.1) }, r1.2.2 ++ r2.2.2)

/-- `execute_update_members`: one `MemberChangedHookMsg { diffs }` per registered hook, in hook order
(also when `diffs` is empty). -/
def execUpdateMembers (s : State) (h : Nat) (snd : Addr) (remove : List AddrArg) (add : List (AddrArg × Nat)) :
    Res (State × List Out) := do
  let r ← updateMembers s h snd remove add
  pure (r.1, s.hooks.map (hookMsg r.2))

def execute (s : State) (h : Nat) (snd : Addr) : Msg → Res (State × List Out)
  | .updateAdmin new => execUpdateAdmin s snd new
  | .updateMembers remove add => execUpdateMembers s h snd remove add
  | .addHook a => execAddHook s snd a
  | .removeHook a => execRemoveHook s snd a

/-- One transaction at block height `h`: commit on `ok`, roll back on error. -/
def step (s : State) (h : Nat) (snd : Addr) (m : Msg) : State :=
  match execute s h snd m with
  | .ok (s', _) => s'
  | .error _ => s

/-! ## queries -/

/-- `Member { addr, at_height }` -/
def queryMember (s : State) (a : AddrArg) (atHeight : Option Nat) : Res (Option Nat) := do
  check a.valid "addr"
  pure (match atHeight with
    | some h => s.members.atHeight a.text h
    | none => s.members.get? a.text)

/-- `TotalWeight { at_height }` (`unwrap_or_default`) -/
def queryTotalWeight (s : State) (atHeight : Option Nat) : Nat :=
  (match atHeight with
    | some h => s.total.atHeight h
    | none => s.total.cur).getD 0

open Paginate in
/-- `ListMembers { start_after, limit }`: the cursor goes through `maybe_addr` (an invalid cursor is an error). -/
def queryListMembers (s : State) (after : Option AddrArg) (limit : Option Nat) : Res (List (Addr × Nat)) := do
  let cursor ← (match after with
    | some a => do check a.valid "addr"; pure (some a.text)
    | none => pure none : Res (Option String))
  pure (page strLt (sortedEntries strLt s.members.cur) cursor limit)

def queryAdmin (s : State) : Option Addr := s.admin

def queryHooks (s : State) : List Addr := s.hooks

end CwPlus.Cw4Group
