import CwPlus.Base.Expiration
import CwPlus.Base.AMap
/-!
Line protocol helpers shared by all scenario drivers: tokenising `key=value`
lines, parsing scalars, rendering canonical observation values.
No imports outside core: linked into the `driver` executable.
-/
namespace CwPlus.Wire

/-- Split a line into blank-separated tokens. -/
def tokens (line : String) : List String :=
  (line.trimAscii.toString.splitOn " ").filter (· ≠ "")

/-- `key=value` → `(key, value)`; a token without `=` has an empty value. -/
def kv (tok : String) : String × String :=
  match tok.splitOn "=" with
  | k :: rest => (k, "=".intercalate rest)
  | [] => ("", "")

abbrev Args := List (String × String)

def args (toks : List String) : Args := toks.map kv

def Args.get (a : Args) (k : String) : Option String :=
  (a.find? (·.1 == k)).map (·.2)

def Args.str (a : Args) (k : String) : String := (a.get k).getD ""

def Args.nat (a : Args) (k : String) : Nat := ((a.get k).bind String.toNat?).getD 0

/-- `-` or a missing key means `none`. -/
def Args.optStr (a : Args) (k : String) : Option String :=
  match a.get k with
  | none => none
  | some "-" => none
  | some v => some v

def Args.optNat (a : Args) (k : String) : Option Nat :=
  (a.optStr k).bind String.toNat?

/-- Comma-separated list; the empty string is the empty list. -/
def splitList (s : String) : List String :=
  if s == "" then [] else s.splitOn ","

def Args.list (a : Args) (k : String) : List String := splitList (a.str k)

/-- An address literal carried on an op line: `+addr` (validates) or `-text`
(does not validate).  Returns `(valid, text)`. -/
def parseAddr (s : String) : Bool × String :=
  if s.startsWith "+" then (true, (s.drop 1).toString)
  else if s.startsWith "-" then (false, (s.drop 1).toString)
  else (true, s)

def parseExp (s : String) : Option Expiration :=
  if s == "never" then some .never
  else if s.startsWith "h" then (s.drop 1).toString.toNat?.map .atHeight
  else if s.startsWith "t" then (s.drop 1).toString.toNat?.map .atTime
  else none

def parseDur (s : String) : Option Duration :=
  if s.startsWith "h" then (s.drop 1).toString.toNat?.map .height
  else if s.startsWith "t" then (s.drop 1).toString.toNat?.map .time
  else none

def Args.optExp (a : Args) (k : String) : Option Expiration := (a.optStr k).bind parseExp

def optNatStr : Option Nat → String
  | none => "-"
  | some n => toString n

def optStrStr : Option String → String
  | none => "-"
  | some s => s

/-- Insertion sort on strings, used to canonicalise rendered lists. -/
def insertSorted (x : String) : List String → List String
  | [] => [x]
  | y :: ys => if x < y then x :: y :: ys else y :: insertSorted x ys

def sortStrings (xs : List String) : List String := xs.foldr insertSorted []

def joinC (xs : List String) : String := ",".intercalate xs

/-- Compare two observation argument lists field by field; returns the first
differing field as `(field, model, impl)`. -/
def firstDiff (model impl : Args) : Option (String × String × String) :=
  let rec go : List (String × String) → Option (String × String × String)
    | [] => none
    | (k, v) :: rest =>
      match impl.get k with
      | some v' => if v == v' then go rest else some (k, v, v')
      | none => some (k, v, "<missing>")
  match go model with
  | some d => some d
  | none =>
    match impl.find? (fun p => (model.get p.1).isNone) with
    | some (k, v) => some (k, "<missing>", v)
    | none => none

/-- Every differing field as `(field, model, impl)`, in the order of `firstDiff` (model fields first, then
fields only the implementation shows). -/
def allDiffs (model impl : Args) : List (String × String × String) :=
  (model.filterMap fun (k, v) =>
    match impl.get k with
    | some v' => if v == v' then none else some (k, v, v')
    | none => some (k, v, "<missing>")) ++
  (impl.filterMap fun (k, v) => if (model.get k).isNone then some (k, "<missing>", v) else none)

end CwPlus.Wire
