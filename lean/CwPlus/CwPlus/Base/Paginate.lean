import CwPlus.Base.AMap
/-!
Pagination as done by every list query of the suite:
`range(start_after exclusive, ascending).take(min(limit or DEFAULT, MAX))`.
-/
namespace CwPlus.Paginate

def DEFAULT_LIMIT : Nat := 10
def MAX_LIMIT : Nat := 30

/-- `limit.unwrap_or(DEFAULT_LIMIT).min(MAX_LIMIT)` -/
def effLimit (limit : Option Nat) : Nat := min (limit.getD DEFAULT_LIMIT) MAX_LIMIT

variable {κ ν : Type}

/-- Entries strictly after the cursor (all of them without cursor). -/
def afterCursor (lt : κ → κ → Bool) (xs : List (κ × ν)) (after : Option κ) : List (κ × ν) :=
  match after with
  | none => xs
  | some c => xs.filter (fun x => lt c x.1)

/-- One page of an ascending listing with an exclusive cursor. -/
def page (lt : κ → κ → Bool) (xs : List (κ × ν)) (after : Option κ) (limit : Option Nat) : List (κ × ν) :=
  (afterCursor lt xs after).take (effLimit limit)

/-- Entries of a map in ascending key order (the storage iteration order). -/
def sortedEntries (lt : κ → κ → Bool) (m : AMap κ ν) : List (κ × ν) :=
  m.mergeSort (fun a b => !(lt b.1 a.1))

def strLt (a b : String) : Bool := decide (a < b)
def natLt (a b : Nat) : Bool := decide (a < b)

/-- Client loop: request pages, each time with the last returned key as cursor,
until an empty page comes back.  `fuel` bounds the number of requests. -/
def fetchAll (lt : κ → κ → Bool) (xs : List (κ × ν)) (limit : Option Nat) (cursor : Option κ) : Nat → List (κ × ν)
  | 0 => []
  | fuel + 1 =>
    let p := page lt xs cursor limit
    match p.getLast? with
    | none => []
    | some last => p ++ fetchAll lt xs limit (some last.1) fuel

/-- Client loop against any list query `q cursor` whose items carry a key `key`: request pages,
each time with the key of the last returned item as cursor, until an empty page comes back.
(`fetchAll` is the instance `q := page lt xs · limit`, `key := (·.1)`.) -/
def fetchLoop {α : Type} (q : Option κ → List α) (key : α → κ) (cursor : Option κ) : Nat → List α
  | 0 => []
  | fuel + 1 =>
    let p := q cursor
    match p.getLast? with
    | none => []
    | some last => p ++ fetchLoop q key (some (key last)) fuel

/-! ### Descending listings (`ReverseProposals`: `start_before` exclusive, descending order)

The same construction on the reversed order `fun a b => lt b a`. -/

/-- Entries of a map in descending key order. -/
def sortedEntriesDesc (lt : κ → κ → Bool) (m : AMap κ ν) : List (κ × ν) :=
  sortedEntries (fun a b => lt b a) m

/-- One page of a descending listing `xs` with an exclusive cursor `before`:
the entries with key strictly below the cursor, at most `effLimit limit` of them. -/
def pageDesc (lt : κ → κ → Bool) (xs : List (κ × ν)) (before : Option κ) (limit : Option Nat) : List (κ × ν) :=
  page (fun a b => lt b a) xs before limit

/-- Client loop for a descending listing. -/
def fetchAllDesc (lt : κ → κ → Bool) (xs : List (κ × ν)) (limit : Option Nat) (cursor : Option κ) (fuel : Nat) :
    List (κ × ν) :=
  fetchAll (fun a b => lt b a) xs limit cursor fuel

/-! ### Filtered listings (cw1-subkeys `AllAllowances`: expired entries are dropped before `take`) -/

/-- `range(after exclusive).filter(p).take(limit)` -/
def pageFiltered (lt : κ → κ → Bool) (p : κ × ν → Bool) (xs : List (κ × ν)) (after : Option κ) (limit : Option Nat) :
    List (κ × ν) :=
  ((afterCursor lt xs after).filter p).take (effLimit limit)

end CwPlus.Paginate
