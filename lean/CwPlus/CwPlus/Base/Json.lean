/-!
# The JSON wire format of cw20-ics20 (`Ics20Packet`, `Ics20Ack`) — byte-level model

What `cosmwasm_std::to_json_binary` / `from_json` (= serde-json-wasm 1.0.1 `to_vec` / `from_slice`, with the
serde-derive code for the two types of `contracts/cw20-ics20/src/ibc.rs`) do to exactly these two types:

* `encodePacketBytes : Packet → Bytes` = `to_json_binary(&Ics20Packet)`:
  `{"amount":"<decimal>","denom":"…","receiver":"…","sender":"…"}` plus `,"memo":"…"` only when the memo is
  `Some` (`skip_serializing_if`), fields in struct order, strings escaped as `ser::Serializer::serialize_str` does
  (`\\`, `\"`, `\b \t \n \f \r`, other bytes below 0x20 as `\u00XX` with upper-case hex, everything else — also
  `/`, DEL and every non-ASCII character — verbatim in UTF-8);
* `decodePacketBytes : Bytes → Except DecodeErr Packet` = `from_json::<Ics20Packet>`: serde-derive struct visitor
  (no `deny_unknown_fields`: unknown keys are skipped with `IgnoredAny`; a repeated known key is an error before
  its value is read; missing `memo` = `None`, `null` = `None`; the other four are required), on top of
  serde-json-wasm's `Deserializer`: `parse_whitespace` (blank, `\n`, `\t`, `\r`), `parse_string` (scan to the first
  unescaped quote; **without any backslash the content is taken raw — control bytes allowed — with a backslash it
  goes through `unescape`, which rejects every byte ≤ 0x1F**), `unescape` (the eight short escapes, `\uXXXX`, the
  surrogate state machine with its quirks), UTF-8 validation of every string value *and key*,
  `deserialize_ignored_any` (strings / arrays / objects recursively with the 128-level recursion limit, anything
  else is chomped up to the next `,` `}` `]` **without being parsed** — `12abc`, `tru`, bytes that are not UTF-8 are
  all accepted there), `MapAccess` / `SeqAccess` (a leading comma in an *array* is accepted), `end_map`, `end`
  (only whitespace may follow).  `amount` is `Uint128`: a JSON *string* parsed by Rust's `u128::from_str` (an
  optional single `+`, at least one digit, leading zeros allowed, value < 2^128).
* `encodeAck` / `decodeAckBytes` = `Ics20Ack` (`#[cw_serde] enum { Result(Binary), Error(String) }`, externally
  tagged, snake_case): `ack_success()` is `{"result":"MQ=="}` (base64 of the one byte `b"1"` = 0x31), `ack_fail(e)`
  is `{"error":"<e>"}`; decoding accepts exactly `{ "result" : "<base64>" }` / `{ "error" : "<string>" }` (one
  entry, whitespace between tokens) where base64 is what base64-0.21.7's STANDARD engine with
  `DecodePaddingMode::Indifferent` accepts.

Input is *bytes* (`List UInt8`), not `String`: the deserializer works on `&[u8]` and does accept input that is not
UTF-8 (inside a skipped scalar).  `decodePacket : String → …` is the restriction to UTF-8 input.

Every function recurses structurally (on the input list or on a fuel argument); nothing is `partial`.
Error values only say *why* (names follow `serde_json_wasm::de::Error`); only ok/error is ever compared
with the implementation.

Not modelled: the `Display` text of errors; other Rust types; serialisation of anything but these two types;
serde-json-wasm's handling of numbers / booleans / `null` as *typed* values (the two types have no such field —
as skipped values they are chomped, which is modelled).
-/
namespace CwPlus.Json

abbrev Bytes := List UInt8

instance {ε α : Type} [DecidableEq ε] [DecidableEq α] : DecidableEq (Except ε α)
  | .ok a, .ok b => if h : a = b then isTrue (by rw [h]) else isFalse (by intro h'; cases h'; exact h rfl)
  | .error a, .error b => if h : a = b then isTrue (by rw [h]) else isFalse (by intro h'; cases h'; exact h rfl)
  | .ok _, .error _ => isFalse (by intro h; cases h)
  | .error _, .ok _ => isFalse (by intro h; cases h)

/-- the UTF-8 bytes of a string -/
def strBytes (s : String) : Bytes := s.toUTF8.data.toList

/-- `str::from_utf8` / `String::from_utf8` -/
def strOfBytes (bs : Bytes) : Option String := String.fromUTF8? ⟨bs.toArray⟩

inductive DecodeErr where
  | eof | trailingCharacters | trailingComma | expectedColon | expectedSomeIdent | expectedSomeValue
  | expectedCommaOrEnd | keyMustBeAString | invalidType | invalidEscape | controlCharacterInString
  | invalidUnicodeCodePoint | loneSurrogateFound | expectedLowSurrogate | expectedHighSurrogate
  | recursionLimitExceeded
  /-- serde `Error::custom`: `invalid Uint128`, `invalid base64`, `duplicate field`, `missing field`,
  `unknown variant` -/
  | invalidUint128 | invalidBase64 | duplicateField | missingField | unknownVariant
  /-- the model's own fuel ran out (does not happen: the fuel is larger than the input) -/
  | fuel
  deriving Repr, DecidableEq, Inhabited

/-- `Ics20Packet` as it is on the wire (the denomination is the plain string). -/
structure Packet where
  amount : Nat
  denom : String
  receiver : String
  sender : String
  memo : Option String
  deriving Repr, DecidableEq, Inhabited

/-- `Ics20Ack`; the payload of `Result` is never looked at by the contract. -/
inductive Ack where
  | success
  | error (text : String)
  deriving Repr, DecidableEq, Inhabited

/-! ## Serialisation -/

/-- `hex_4bit` (upper case) -/
def hex4 (c : UInt8) : UInt8 := if c ≤ 9 then 0x30 + c else 0x41 + (c - 10)

/-- one byte of a string inside `serialize_str` (the match is on `char`s; every char below 0x80 is one byte and
every byte of a longer char is ≥ 0x80, so the byte-wise map is the same function) -/
def escapeByte (b : UInt8) : Bytes :=
  if b = 0x5c then [0x5c, 0x5c]
  else if b = 0x22 then [0x5c, 0x22]
  else if b = 0x08 then [0x5c, 0x62]
  else if b = 0x09 then [0x5c, 0x74]
  else if b = 0x0a then [0x5c, 0x6e]
  else if b = 0x0c then [0x5c, 0x66]
  else if b = 0x0d then [0x5c, 0x72]
  else if b < 0x20 then [0x5c, 0x75, 0x30, 0x30, hex4 (b >>> 4), hex4 (b &&& 0x0f)]
  else [b]

def escape (bs : Bytes) : Bytes := bs.flatMap escapeByte

/-- `serialize_str` -/
def encStr (s : String) : Bytes := 0x22 :: (escape (strBytes s) ++ [0x22])

/-- little-endian decimal digits (`fuel > n` suffices) -/
def revDigits : Nat → Nat → List Nat
  | 0, _ => []
  | f + 1, n => if n < 10 then [n] else (n % 10) :: revDigits f (n / 10)

/-- `u128::to_string` -/
def decDigits (n : Nat) : Bytes := ((revDigits (n + 1) n).reverse).map fun d => 0x30 + d.toUInt8

/-- the field names as `SerializeStruct::serialize_field` writes them (`key.as_bytes()`, no escaping) -/
def keyAmount : Bytes := [0x61, 0x6d, 0x6f, 0x75, 0x6e, 0x74]
def keyDenom : Bytes := [0x64, 0x65, 0x6e, 0x6f, 0x6d]
def keyReceiver : Bytes := [0x72, 0x65, 0x63, 0x65, 0x69, 0x76, 0x65, 0x72]
def keySender : Bytes := [0x73, 0x65, 0x6e, 0x64, 0x65, 0x72]
def keyMemo : Bytes := [0x6d, 0x65, 0x6d, 0x6f]
def keyResult : Bytes := [0x72, 0x65, 0x73, 0x75, 0x6c, 0x74]
def keyError : Bytes := [0x65, 0x72, 0x72, 0x6f, 0x72]

/-- `"key":value` -/
def field (key val : Bytes) : Bytes := 0x22 :: (key ++ (0x22 :: 0x3a :: val))

/-- `Uint128::serialize` = `serialize_str(&self.to_string())` -/
def amountTok (n : Nat) : Bytes := 0x22 :: (decDigits n ++ [0x22])

/-- `to_json_binary(&Ics20Packet)`: `{`, the fields in struct order separated by `,` (the memo only when it is
`Some`), `}` -/
def encodePacketBytes (p : Packet) : Bytes :=
  0x7b :: (field keyAmount (amountTok p.amount) ++ (0x2c :: (field keyDenom (encStr p.denom) ++
    (0x2c :: (field keyReceiver (encStr p.receiver) ++ (0x2c :: (field keySender (encStr p.sender) ++
      ((match p.memo with | none => [] | some m => 0x2c :: field keyMemo (encStr m)) ++ [0x7d]))))))))

/-- `"MQ=="`: base64 of `b"1"` -/
def b64One : Bytes := [0x22, 0x4d, 0x51, 0x3d, 0x3d, 0x22]

/-- `ack_success()` = `{"result":"MQ=="}` / `ack_fail(text)` = `{"error":"<text>"}` (`serialize_newtype_variant`) -/
def encodeAckBytes : Ack → Bytes
  | .success => 0x7b :: (field keyResult b64One ++ [0x7d])
  | .error t => 0x7b :: (field keyError (encStr t) ++ [0x7d])

/-! ## Deserialisation: lexical level -/

def isWs (b : UInt8) : Bool := b = 0x20 || b = 0x0a || b = 0x09 || b = 0x0d

/-- `parse_whitespace` (returns the input from the first non-blank byte on) -/
def skipWs : Bytes → Bytes
  | [] => []
  | b :: r => if isWs b then skipWs r else b :: r

/-- `parse_string` after the opening quote: the raw content up to the first quote that is not preceded by an odd
number of backslashes, and what follows that quote.  `none`: no closing quote. -/
def scanStr : Bool → Bytes → Option (Bytes × Bytes)
  | _, [] => none
  | esc, b :: r =>
    if b = 0x22 then
      if esc then (scanStr false r).map fun p => (b :: p.1, p.2)
      else some ([], r)
    else if b = 0x5c then (scanStr (!esc) r).map fun p => (b :: p.1, p.2)
    else (scanStr false r).map fun p => (b :: p.1, p.2)

/-- UTF-8 encoding of a code point (`char::encode_utf8`) -/
def utf8Enc (cp : Nat) : Bytes :=
  if cp < 0x80 then [cp.toUInt8]
  else if cp < 0x800 then [(0xc0 + cp / 64).toUInt8, (0x80 + cp % 64).toUInt8]
  else if cp < 0x10000 then [(0xe0 + cp / 4096).toUInt8, (0x80 + cp / 64 % 64).toUInt8, (0x80 + cp % 64).toUInt8]
  else [(0xf0 + cp / 262144).toUInt8, (0x80 + cp / 4096 % 64).toUInt8, (0x80 + cp / 64 % 64).toUInt8,
        (0x80 + cp % 64).toUInt8]

/-- `hex_decode_4bit`; `none`: not a hex digit -/
def hexVal (b : UInt8) : Option Nat :=
  if 0x30 ≤ b ∧ b ≤ 0x39 then some (b.toNat - 0x30)
  else if 0x41 ≤ b ∧ b ≤ 0x46 then some (b.toNat - 0x41 + 10)
  else if 0x61 ≤ b ∧ b ≤ 0x66 then some (b.toNat - 0x61 + 10)
  else none

/-- where `unescape` is: plain text, after a backslash, inside `\uXXXX` with the digits read so far (as a number)
and their count -/
inductive UMode where
  | normal
  | esc
  | uni (acc : Nat) (count : Nat)
  deriving Repr, DecidableEq

/-- state of `unescape`: the mode and the pending high surrogate -/
structure USt where
  mode : UMode := .normal
  hi : Option Nat := none
  deriving Repr, DecidableEq

/-- one iteration of the loop of `unescape`: new state and the bytes appended to `out` -/
def ustep (st : USt) (b : UInt8) : Except DecodeErr (USt × Bytes) :=
  if b ≤ 0x1f then .error .controlCharacterInString
  else
    match st.mode with
    | .uni acc n =>
      match hexVal b with
      | none => .error .invalidEscape
      | some v =>
        let cp := acc * 16 + v
        if n + 1 < 4 then .ok ({ st with mode := .uni cp (n + 1) }, [])
        else if 0xd800 ≤ cp ∧ cp ≤ 0xdfff then
          match st.hi with
          | some h =>
            if cp < 0xdc00 then .error .expectedLowSurrogate
            else .ok ({ mode := .normal, hi := none }, utf8Enc (0x10000 + ((h - 0xd800) * 1024 + (cp - 0xdc00))))
          | none =>
            if cp > 0xdbff then .error .expectedHighSurrogate
            else .ok ({ mode := .normal, hi := some cp }, [])
        else .ok ({ st with mode := .normal }, utf8Enc cp)
    | .esc =>
      if b = 0x22 ∨ b = 0x2f ∨ b = 0x5c then .ok ({ st with mode := .normal }, [b])
      else if b = 0x62 then .ok ({ st with mode := .normal }, [0x08])
      else if b = 0x66 then .ok ({ st with mode := .normal }, [0x0c])
      else if b = 0x6e then .ok ({ st with mode := .normal }, [0x0a])
      else if b = 0x72 then .ok ({ st with mode := .normal }, [0x0d])
      else if b = 0x74 then .ok ({ st with mode := .normal }, [0x09])
      else if b = 0x75 then .ok ({ st with mode := .uni 0 0 }, [])
      else .error .invalidEscape
    | .normal =>
      if b = 0x5c then .ok ({ st with mode := .esc }, [])
      else if st.hi.isSome then .error .loneSurrogateFound
      else .ok (st, [b])

/-- the loop of `unescape` and its final checks (without the UTF-8 validation of the result) -/
def unescapeGo : USt → Bytes → Except DecodeErr Bytes
  | st, [] =>
    if st.mode ≠ .normal then .error .invalidEscape
    else if st.hi.isSome then .error .loneSurrogateFound
    else .ok []
  | st, b :: r =>
    match ustep st b with
    | .error e => .error e
    | .ok (st', out) =>
      match unescapeGo st' r with
      | .error e => .error e
      | .ok tl => .ok (out ++ tl)

def hasBackslash (bs : Bytes) : Bool := bs.any (· = 0x5c)

/-- the bytes a raw string content stands for (before UTF-8 validation) -/
def strContent (raw : Bytes) : Except DecodeErr Bytes :=
  if hasBackslash raw then unescapeGo {} raw else .ok raw

/-- `parse_string` after the opening quote, before the UTF-8 validation: the bytes the token stands for and the
rest of the input -/
def parseStrBytes (bs : Bytes) : Except DecodeErr (Bytes × Bytes) :=
  match scanStr false bs with
  | none => .error .eof
  | some (raw, rest) =>
    match strContent raw with
    | .error e => .error e
    | .ok content => .ok (content, rest)

/-- `parse_string` after the opening quote, with the UTF-8 validation: the string and the rest of the input -/
def parseStrTok (bs : Bytes) : Except DecodeErr (String × Bytes) :=
  match parseStrBytes bs with
  | .error e => .error e
  | .ok (content, rest) =>
    match strOfBytes content with
    | none => .error .invalidUnicodeCodePoint
    | some s => .ok (s, rest)

/-- `deserialize_string`: whitespace, a quote, `parse_string` -/
def parseStringValue (bs : Bytes) : Except DecodeErr (String × Bytes) :=
  match skipWs bs with
  | [] => .error .eof
  | b :: r => if b = 0x22 then parseStrTok r else .error .invalidType

/-- `parse_object_colon` -/
def parseColon (bs : Bytes) : Except DecodeErr Bytes :=
  match skipWs bs with
  | [] => .error .eof
  | b :: r => if b = 0x3a then .ok r else .error .expectedColon

/-! ### `Uint128` -/

def isDigit (b : UInt8) : Bool := 0x30 ≤ b && b ≤ 0x39

/-- value of a big-endian digit string -/
def digitsVal (ds : Bytes) : Nat := ds.foldl (fun v d => 10 * v + (d.toNat - 0x30)) 0

/-- `u128::from_str` on the bytes of the string: an optional single `+`, at least one digit, only digits,
value below 2^128 (leading zeros are fine; a `-`, a blank, an empty string are errors) -/
def parseU128 (bs : Bytes) : Option Nat :=
  let ds := match bs with
    | b :: r => if b = 0x2b then r else bs
    | [] => bs
  if ds.isEmpty then none
  else if ds.all isDigit then
    (if digitsVal ds < 2 ^ 128 then some (digitsVal ds) else none)
  else none

/-- `Uint128::deserialize`: `deserialize_str` + `visit_str`.  The UTF-8 validation that precedes `visit_str` is
left out: `u128::from_str` fails on every byte ≥ 0x80, so it cannot change the outcome. -/
def parseAmountValue (bs : Bytes) : Except DecodeErr (Nat × Bytes) :=
  match skipWs bs with
  | [] => .error .eof
  | b :: r =>
    if b = 0x22 then
      match parseStrBytes r with
      | .error e => .error e
      | .ok (content, rest) =>
        match parseU128 content with
        | none => .error .invalidUint128
        | some v => .ok (v, rest)
    else .error .invalidType

/-- `parse_ident(b"ull")` after the `n` -/
def parseIdent (ident : Bytes) (bs : Bytes) : Except DecodeErr Bytes :=
  match ident, bs with
  | [], r => .ok r
  | c :: cs, b :: r => if b = c then parseIdent cs r else .error .expectedSomeIdent
  | _ :: _, [] => .error .expectedSomeIdent

/-- `Option<String>::deserialize` = `deserialize_option` -/
def parseOptStringValue (bs : Bytes) : Except DecodeErr (Option String × Bytes) :=
  match skipWs bs with
  | [] => .error .eof
  | b :: r =>
    if b = 0x6e then
      match parseIdent [0x75, 0x6c, 0x6c] r with
      | .error e => .error e
      | .ok rest => .ok (none, rest)
    else
      match parseStringValue (b :: r) with
      | .error e => .error e
      | .ok (s, rest) => .ok (some s, rest)

/-! ### `deserialize_ignored_any` -/

def isDelim (b : UInt8) : Bool := b = 0x2c || b = 0x7d || b = 0x5d

/-- the fall-through arm of `deserialize_ignored_any`: eat bytes up to the next `,` `}` `]` (not consumed) -/
def chomp : Bytes → Except DecodeErr Bytes
  | [] => .error .eof
  | b :: r => if isDelim b then .ok (b :: r) else chomp r

/-- the byte at which `next_key_seed` expects a key: `"` opens it (`r` = what follows the quote) -/
def keyAt : Bytes → Except DecodeErr (Option Bytes × Bytes)
  | [] => .error .eof
  | c :: r2 =>
    if c = 0x22 then .ok (some r2, [])
    else if c = 0x7d then .error .trailingComma
    else .error .keyMustBeAString

/-- `MapAccess::next_key_seed` up to the key's opening quote: `.ok (none, rest)` = the object ends here (`}` is
the first byte of `rest`, not consumed), `.ok (some r, _)` = `r` follows the opening quote of the next key.  A comma
is taken only after the first entry (`first = false`); the first entry must follow directly. -/
def nextKey (first : Bool) (bs : Bytes) : Except DecodeErr (Option Bytes × Bytes) :=
  match skipWs bs with
  | [] => .error .eof
  | b :: r =>
    if b = 0x7d then .ok (none, b :: r)
    else if b = 0x2c ∧ first = false then keyAt (skipWs r)
    else if first then keyAt (b :: r)
    else .error .expectedCommaOrEnd

/-- `SeqAccess::next_element_seed` up to the element: where it starts and the new `first` flag.  A comma is
always taken (also before the first element — the flag then stays set); without a comma only the first element
may follow. -/
def seqPos (first : Bool) (b : UInt8) (r : Bytes) : Except DecodeErr (Bytes × Bool) :=
  if b = 0x2c then .ok (skipWs r, first)
  else if first then .ok (b :: r, false)
  else .error .expectedCommaOrEnd

mutual
/-- `deserialize_ignored_any`; `depth` = `remaining_depth` -/
def skipValue : Nat → Nat → Bytes → Except DecodeErr Bytes
  | 0, _, _ => .error .fuel
  | fuel + 1, depth, bs =>
    match skipWs bs with
    | [] => .error .eof
    | b :: r =>
      if b = 0x22 then
        match parseStrTok r with
        | .error e => .error e
        | .ok (_, rest) => .ok rest
      else if b = 0x5b then
        if depth ≤ 1 then .error .recursionLimitExceeded else skipSeq fuel (depth - 1) true r
      else if b = 0x7b then
        if depth ≤ 1 then .error .recursionLimitExceeded else skipMap fuel (depth - 1) true r
      else if isDelim b then .error .expectedSomeValue
      else chomp r
/-- `IgnoredAny::visit_seq` over `SeqAccess`, then `end_seq`: returns what follows the closing `]` -/
def skipSeq : Nat → Nat → Bool → Bytes → Except DecodeErr Bytes
  | 0, _, _, _ => .error .fuel
  | fuel + 1, depth, first, bs =>
    match skipWs bs with
    | [] => .error .eof
    | b :: r =>
      if b = 0x5d then .ok r
      else
        match seqPos first b r with
        | .error e => .error e
        | .ok ([], _) => .error .eof
        | .ok (c :: r2, first') =>
          if c = 0x5d then .error .trailingComma
          else
            match skipValue fuel depth (c :: r2) with
            | .error e => .error e
            | .ok rest => skipSeq fuel depth first' rest
/-- `IgnoredAny::visit_map` over `MapAccess`, then `end_map`: returns what follows the closing `}` -/
def skipMap : Nat → Nat → Bool → Bytes → Except DecodeErr Bytes
  | 0, _, _, _ => .error .fuel
  | fuel + 1, depth, first, bs =>
    match nextKey first bs with
    | .error e => .error e
    | .ok (none, rest) => .ok (rest.drop 1)
    | .ok (some r, _) =>
      match parseStrTok r with
      | .error e => .error e
      | .ok (_, r3) =>
        match parseColon r3 with
        | .error e => .error e
        | .ok r4 =>
          match skipValue fuel depth r4 with
          | .error e => .error e
          | .ok r5 => skipMap fuel depth false r5
end

/-! ## `Ics20Packet` -/

/-- the `Option`s of the derived visitor (`__field0 … __field4`) -/
structure Acc where
  amount : Option Nat := none
  denom : Option String := none
  receiver : Option String := none
  sender : Option String := none
  memo : Option (Option String) := none
  deriving Repr, DecidableEq

/-- `next_value` for a key of `Ics20Packet` (`none`: the key is none of the five → `IgnoredAny`) -/
def fieldValue (fuel depth : Nat) (acc : Acc) (key : String) (bs : Bytes) : Except DecodeErr (Acc × Bytes) :=
  if key = "amount" then
    if acc.amount.isSome then .error .duplicateField
    else match parseAmountValue bs with
      | .error e => .error e
      | .ok (v, rest) => .ok ({ acc with amount := some v }, rest)
  else if key = "denom" then
    if acc.denom.isSome then .error .duplicateField
    else match parseStringValue bs with
      | .error e => .error e
      | .ok (v, rest) => .ok ({ acc with denom := some v }, rest)
  else if key = "receiver" then
    if acc.receiver.isSome then .error .duplicateField
    else match parseStringValue bs with
      | .error e => .error e
      | .ok (v, rest) => .ok ({ acc with receiver := some v }, rest)
  else if key = "sender" then
    if acc.sender.isSome then .error .duplicateField
    else match parseStringValue bs with
      | .error e => .error e
      | .ok (v, rest) => .ok ({ acc with sender := some v }, rest)
  else if key = "memo" then
    if acc.memo.isSome then .error .duplicateField
    else match parseOptStringValue bs with
      | .error e => .error e
      | .ok (v, rest) => .ok ({ acc with memo := some v }, rest)
  else
    match skipValue fuel depth bs with
    | .error e => .error e
    | .ok rest => .ok (acc, rest)

/-- the `while let Some(key) = map.next_key()?` loop of the derived `visit_map`; returns at the closing `}`
(not consumed) -/
def parseFields : Nat → Nat → Bool → Acc → Bytes → Except DecodeErr (Acc × Bytes)
  | 0, _, _, _, _ => .error .fuel
  | fuel + 1, depth, first, acc, bs =>
    match nextKey first bs with
    | .error e => .error e
    | .ok (none, rest) => .ok (acc, rest)
    | .ok (some r, _) =>
      match parseStrTok r with
      | .error e => .error e
      | .ok (key, r3) =>
        match parseColon r3 with
        | .error e => .error e
        | .ok r4 =>
          match fieldValue fuel depth acc key r4 with
          | .error e => .error e
          | .ok (acc', r5) => parseFields fuel depth false acc' r5

/-- the fuel handed to the loops: every recursive call is preceded by the consumption of at least one byte -/
def fuelFor (bs : Bytes) : Nat := 2 * bs.length + 16

/-- `from_json::<Ics20Packet>(bytes)` -/
def decodePacketBytes (bs : Bytes) : Except DecodeErr Packet :=
  match skipWs bs with
  | [] => .error .eof
  | b :: r =>
    if b = 0x7b then
      -- `check_recursion!`: 128 → 127
      match parseFields (fuelFor bs) 127 true {} r with
      | .error e => .error e
      | .ok (acc, rest) =>
        match acc.amount, acc.denom, acc.receiver, acc.sender with
        | some a, some d, some rc, some s =>
          -- `end_map` eats the `}` the loop stopped at; `end`: only whitespace may follow
          if (skipWs (rest.drop 1)).isEmpty then .ok ⟨a, d, rc, s, acc.memo.getD none⟩
          else .error .trailingCharacters
        | _, _, _, _ => .error .missingField
    else .error .invalidType

/-! ## `Ics20Ack` -/

/-- value of a symbol of the standard base64 alphabet -/
def b64Val (b : UInt8) : Option Nat :=
  if 0x41 ≤ b ∧ b ≤ 0x5a then some (b.toNat - 0x41)
  else if 0x61 ≤ b ∧ b ≤ 0x7a then some (b.toNat - 0x61 + 26)
  else if 0x30 ≤ b ∧ b ≤ 0x39 then some (b.toNat - 0x30 + 52)
  else if b = 0x2b then some 62
  else if b = 0x2f then some 63
  else none

/-- what `Binary::from_base64` accepts (base64 0.21.7, STANDARD alphabet, `DecodePaddingMode::Indifferent`, no
trailing bits): symbols, then — only after 2 resp. 3 symbols of the last quad — at most 2 resp. 1 `=`; never a
single symbol in the last quad; the unused low bits of the last symbol are zero. -/
def validBase64 (bs : Bytes) : Bool :=
  let body := bs.takeWhile fun b => (b64Val b).isSome
  let pad := bs.dropWhile fun b => (b64Val b).isSome
  let last := ((body.getLast?).bind b64Val).getD 0
  pad.all (· = 0x3d) &&
  (match body.length % 4 with
   | 0 => pad.isEmpty
   | 1 => false
   | 2 => pad.length ≤ 2 && last % 16 = 0
   | _ => pad.length ≤ 1 && last % 4 = 0)

/-- `from_json::<Ics20Ack>(bytes)` -/
def decodeAckBytes (bs : Bytes) : Except DecodeErr Ack :=
  match skipWs bs with
  | [] => .error .eof
  | b :: r =>
    if b = 0x7b then
      -- variant identifier
      match parseStringValue r with
      | .error e => .error e
      | .ok (variant, r2) =>
        if variant = "result" ∨ variant = "error" then
          match parseColon r2 with
          | .error e => .error e
          | .ok r3 =>
            match parseStringValue r3 with
            | .error e => .error e
            | .ok (v, r4) =>
              if variant = "result" ∧ validBase64 (strBytes v) = false then .error .invalidBase64
              else
                match skipWs r4 with
                | [] => .error .eof
                | c :: r5 =>
                  if c = 0x7d then
                    if (skipWs r5).isEmpty then .ok (if variant = "result" then .success else .error v)
                    else .error .trailingCharacters
                  else .error .expectedSomeValue
        else .error .unknownVariant
    else if b = 0x22 then
      -- a unit variant: neither variant is one
      .error .invalidType
    else .error .expectedSomeIdent

/-! ## `String` front ends -/

/-- bytes → `String`; not UTF-8 (cannot happen for an encoder output, see `Props/Ics20Wire`) → `""` -/
def bytesToString (bs : Bytes) : String := (strOfBytes bs).getD ""

def encodePacket (p : Packet) : String := bytesToString (encodePacketBytes p)
def decodePacket (s : String) : Except DecodeErr Packet := decodePacketBytes (strBytes s)
def encodeAck (a : Ack) : String := bytesToString (encodeAckBytes a)
def decodeAck (s : String) : Except DecodeErr Ack := decodeAckBytes (strBytes s)

/-! ## Hex (the line protocol carries byte payloads as hex) -/

def hexDigit (n : Nat) : Char := if n < 10 then Char.ofNat (48 + n) else Char.ofNat (87 + n)

def toHex (bs : Bytes) : String :=
  String.ofList (bs.flatMap fun b => [hexDigit (b.toNat / 16), hexDigit (b.toNat % 16)])

def hexCharVal (c : Char) : Option Nat :=
  if '0' ≤ c ∧ c ≤ '9' then some (c.toNat - 48)
  else if 'a' ≤ c ∧ c ≤ 'f' then some (c.toNat - 87)
  else if 'A' ≤ c ∧ c ≤ 'F' then some (c.toNat - 55)
  else none

def ofHexChars : List Char → Option Bytes
  | [] => some []
  | [_] => none
  | a :: b :: r =>
    match hexCharVal a, hexCharVal b, ofHexChars r with
    | some x, some y, some tl => some ((x * 16 + y).toUInt8 :: tl)
    | _, _, _ => none

/-- `-` and the empty word are the empty payload -/
def ofHex (s : String) : Option Bytes := if s = "-" then some [] else ofHexChars s.toList

end CwPlus.Json
