import CwPlus.Base.AMap
/-!
# `cw_storage_plus::SnapshotMap` / `SnapshotItem` with `Strategy::EveryBlock`

Transcribed from cw-storage-plus 2.0.0 `src/snapshot/{mod,map,item}.rs`:

* `save(k, v, height)` / `remove(k, height)`: `should_checkpoint` is always true for `EveryBlock`, so
  `write_change(k, height)` runs first: if the changelog already has an entry under `(k, height)` nothing
  is recorded, otherwise `ChangeSet { old: primary.may_load(k) }` is stored under `(k, height)` (`old` is
  `None` when the key was absent).  Then the primary value is saved / removed.
* `may_load_at_height(k, h)`: `assert_checkpointed` always succeeds for `EveryBlock`; the first changelog
  entry of `k` in ascending height order with height `≥ h` (`Bound::inclusive(h)`) gives `old`; when there
  is none the current primary value is returned.
* `update(k, height, f)` = `may_load`, `f`, `save`.

Representation (chosen for provability): the history of one key is a `Cell` — the current value plus the
changelog of that key as a list of `(height, old)` entries, newest first.  A `SnapshotItem` is one cell; a
`SnapshotMap` keeps the current values in an `AMap` (so listings, sums and `NodupKeys` are the usual ones)
and the changelogs per key; `SnapMap.cell m k` is the cell of key `k`, and every operation of the map is
the cell operation on that key (`cell_write`).

The search for "the least logged height ≥ h" (`firstGE`) makes no assumption on the order of the log, so
the model is faithful for arbitrary (also decreasing) heights; the theorems assume non-decreasing heights.
No imports outside core: linked into the `driver` executable.
-/
namespace CwPlus.Snapshot

/-- Changelog of one key: `(height, old)` entries. -/
abbrev Log (ν : Type) := List (Nat × Option ν)

variable {κ ν : Type}

/-- `has_changelog(k, height)` -/
def logHas (log : Log ν) (h : Nat) : Bool := log.any (fun e => e.1 == h)

/-- The entry with the least height `≥ h` (`range(Bound::inclusive(h)).next()` in ascending order).
Heights in a log are pairwise distinct, so "least" is unambiguous. -/
def firstGE : Log ν → Nat → Option (Nat × Option ν)
  | [], _ => none
  | e :: rest, h =>
    match firstGE rest h with
    | none => if h ≤ e.1 then some e else none
    | some b => if h ≤ e.1 ∧ e.1 < b.1 then some e else some b

/-- One snapshotted storage slot: current value + its changelog. -/
structure Cell (ν : Type) where
  cur : Option ν := none
  log : Log ν := []
  deriving Repr, Inhabited

namespace Cell

def empty : Cell ν := {}

/-- `save` (`new = some v`) / `remove` (`new = none`) at `height`. -/
def write (c : Cell ν) (h : Nat) (new : Option ν) : Cell ν :=
  { cur := new, log := if logHas c.log h then c.log else (h, c.cur) :: c.log }

/-- `may_load_at_height` -/
def atHeight (c : Cell ν) (h : Nat) : Option ν :=
  match firstGE c.log h with
  | some e => e.2
  | none => c.cur

end Cell

/-- `SnapshotItem<T>` -/
abbrev SnapItem (ν : Type) := Cell ν

/-- `SnapshotMap<K, T>`: current values and per-key changelogs. -/
structure SnapMap (κ ν : Type) where
  cur : AMap κ ν := []
  log : AMap κ (Log ν) := []
  deriving Repr, Inhabited

namespace SnapMap
variable [DecidableEq κ]

def empty : SnapMap κ ν := {}

/-- A map with current values only (nothing logged yet). -/
def ofMap (m : AMap κ ν) : SnapMap κ ν := { cur := m, log := [] }

/-- `may_load` -/
def get? (m : SnapMap κ ν) (k : κ) : Option ν := m.cur.get? k

def logOf (m : SnapMap κ ν) (k : κ) : Log ν := (m.log.get? k).getD []

/-- The snapshotted slot of key `k`. -/
def cell (m : SnapMap κ ν) (k : κ) : Cell ν := ⟨m.cur.get? k, m.logOf k⟩

/-- `save(k, v, height)` for `new = some v`, `remove(k, height)` for `new = none`. -/
def write (m : SnapMap κ ν) (k : κ) (h : Nat) (new : Option ν) : SnapMap κ ν :=
  { cur := match new with
      | some v => m.cur.set k v
      | none => m.cur.erase k
    log := if logHas (m.logOf k) h then m.log else m.log.set k ((h, m.cur.get? k) :: m.logOf k) }

/-- `may_load_at_height(k, h)` -/
def atHeight (m : SnapMap κ ν) (k : κ) (h : Nat) : Option ν := (m.cell k).atHeight h

end SnapMap

end CwPlus.Snapshot
